(* C14 - the backend contract is satisfiable: plain storage behind a unary record count (Model/Laz.v, store_backend)
   honours every clause of `conforming`.  Hence the theorems of Props/C14.v are not vacuous in their contract. *)
From Coq Require Import String.
From Coq Require Import ZArith List Bool Lia ZifyBool.
From LasV Require Import Lib.Base Lib.BaseFacts Lib.Layout Proofs.LayoutProofs Gen.GenDims Model.Las Model.LasSpec Model.Laz.
Import ListNotations.
Open Scope list_scope.
Open Scope Z_scope.

Lemma std_size_nonneg fmt std : std_size fmt = Some std -> 0 <= std.
Proof.
  unfold std_size, point_formats. cbn [find fst snd].
  repeat match goal with |- context [if ?c then _ else _] => destruct c end; intros H; inversion H; lia.
Qed.

Lemma count_ones_frame n rest : count_ones (repeat 1 n ++ 0 :: rest) = n.
Proof. induction n as [|n IH]; [reflexivity|]. cbn [repeat app count_ones]. change (1 =? 1) with true. cbv iota. now rewrite IH. Qed.

Lemma skipn_frame n rest : skipn (S n) (repeat 1 n ++ 0 :: rest) = rest.
Proof. induction n as [|n IH]; [reflexivity|]. cbn [repeat app skipn]. exact IH. Qed.

Lemma skipn_plus {A} : forall (a b : nat) (l : list A), skipn (a + b) l = skipn b (skipn a l).
Proof.
  induction a as [|a IHa]; intros b l; [reflexivity|]. destruct l; [now rewrite !skipn_nil|]. cbn [Nat.add skipn]. apply IHa.
Qed.

Lemma take_recs_concat ps : forall recs tail, Forall (fun r => length r = ps) recs ->
  take_recs (length recs) ps (concat recs ++ tail) = recs /\ skipn (length recs * ps) (concat recs ++ tail) = tail.
Proof.
  induction recs as [|r recs IH]; intros tail HF; [split; reflexivity|].
  inversion HF as [|x xs Hr HF']; subst x xs. cbn [length take_recs concat]. rewrite <- app_assoc.
  rewrite (firstn_app_exact r _ ps Hr), (skipn_app_exact r _ ps Hr).
  destruct (IH tail HF') as [A B]. split; [now rewrite A|].
  change (S (length recs) * ps)%nat with (ps + length recs * ps)%nat.
  rewrite skipn_plus, (skipn_app_exact r _ ps Hr). exact B.
Qed.

Lemma recs_ok_len (d : list Z) recs : recs_ok (len d) recs = true -> Forall (fun r => length r = length d) recs.
Proof.
  unfold recs_ok. intros H. apply Forall_forall. intros r Hin. rewrite forallb_forall in H.
  specialize (H r Hin). apply andb_true_iff in H as [H _]. unfold len in H. lia.
Qed.

Lemma store_parse_frame d recs tail : recs_ok (len d) recs = true ->
  store_parse d (store_frame recs ++ tail) = (recs, tail).
Proof.
  intros Hok. pose proof (recs_ok_len _ _ Hok) as HF.
  unfold store_parse, store_frame. cbv zeta. rewrite <- app_assoc. cbn [app].
  rewrite count_ones_frame, skipn_frame.
  destruct (take_recs_concat (length d) recs tail HF) as [A B]. now rewrite A, B.
Qed.

Lemma fold_feed (chunks : list (list (list Z))) : forall acc, fold_left (fun s c => s ++ c) chunks acc = acc ++ concat chunks.
Proof.
  induction chunks as [|c cs IH]; intros acc; cbn [fold_left concat]; [now rewrite app_nil_r|]. now rewrite IH, app_assoc.
Qed.

Lemma store_enc d recs : B_enc store_backend d recs = store_frame recs.
Proof. unfold B_enc, enc. destruct recs; reflexivity. Qed.

Theorem store_conforming : conforming store_backend.
Proof.
  exists (fun d => len d).
  exists (fun (sk : bool) (d : list Z) (recs : list (list Z)) (tail : list Z) (s : b_dst store_backend) (c : Z) =>
            s = (recs, c, tail) /\ 0 <= c <= len recs).
  refine (conj _ (conj _ (conj _ (conj _ (conj _ (conj _ (conj _ (conj _ _)))))))).
  - (* record length *)
    intros fmt n std Hstd Hn. cbn [b_lzdata store_backend]. rewrite Hstd. pose proof (std_size_nonneg _ _ Hstd).
    unfold len. rewrite repeat_length. lia.
  - (* chunked feeding = one-shot feeding *)
    intros d chunks _ _. cbn [b_done b_feed b_new store_backend]. rewrite store_enc, fold_feed. reflexivity.
  - (* a decompressor that constructs stands at record 0 *)
    intros p sk d recs tail s Hok Hop. cbn [b_dopen store_backend] in Hop.
    rewrite store_enc, (store_parse_frame d recs tail Hok) in Hop.
    destruct (p && negb sk); [discriminate|]. injection Hop as <-. split; [reflexivity|]. pose proof (len_nonneg recs). lia.
  - (* the serial variant always constructs *)
    intros sk d recs tail Hok. cbn [b_dopen store_backend andb]. now rewrite store_enc, (store_parse_frame d recs tail Hok).
  - (* the parallel variant constructs on seekable sources *)
    intros d recs tail Hok. cbn [b_dopen store_backend andb negb]. now rewrite store_enc, (store_parse_frame d recs tail Hok).
  - (* reading *)
    intros sk d recs tail s c n [-> Hc] Hn Hcn. cbn [b_read store_backend].
    replace ((0 <=? n) && (c + n <=? len recs)) with true by lia.
    eexists. split; [reflexivity|]. split; [reflexivity|lia].
  - (* seeking *)
    intros sk d recs tail s c i [-> Hc] Hi. cbn [b_seek store_backend].
    replace ((0 <=? i) && (i <=? len recs)) with true by lia.
    eexists. split; [reflexivity|]. split; [reflexivity|lia].
  - (* what follows the stream *)
    intros d recs tail s [-> _]. cbn [b_rest store_backend]. now rewrite Z.eqb_refl.
  - (* the appender continues a stream *)
    intros p d A tail Hok. exists A. split.
    + cbn [b_aopen store_backend]. now rewrite store_enc, (store_parse_frame d A tail Hok).
    + intros Bs _ _. cbn [b_done b_feed store_backend]. rewrite store_enc, fold_feed. reflexivity.
Qed.
Print Assumptions store_conforming.
