(* Sessions writing to a destination that already holds bytes (property C19, class "the path holds a LAS file when the write starts"). *)
From Coq Require Import String.
From Coq Require Import ZArith List Bool Lia ZifyBool.
From LasV Require Import Lib.Base Lib.BaseFacts Lib.Layout Proofs.LayoutProofs Gen.GenHeaderLayout Gen.GenFormatBits Gen.GenDims
  Model.Las Model.LasSpec Model.LasDest Proofs.HeaderLen Proofs.VlrProofs Proofs.HeaderProofs Proofs.WriterProofs Proofs.RoundTripProofs
  Proofs.CrashProofs Proofs.FaultProofs.
Import ListNotations.
Open Scope list_scope.
Open Scope Z_scope.

Lemma fold_as_writes : forall trace f, fold_left apply_dop (as_writes trace) f = fold_left apply_write trace f.
Proof.
  induction trace as [|w t IH]; intros f; [reflexivity|].
  cbn [as_writes map fold_left]. fold (as_writes t). rewrite IH. reflexivity.
Qed.

Lemma firstn_as_writes : forall k trace, firstn k (as_writes trace) = as_writes (firstn k trace).
Proof. intros. unfold as_writes. apply firstn_map. Qed.

Lemma nth_as_writes : forall k trace, nth_error (as_writes trace) k = option_map (fun w => DWrite (fst w) (snd w)) (nth_error trace k).
Proof. intros. unfold as_writes. apply nth_error_map. Qed.

(* a session made of writes only (the destination opened without truncation: an appender): crash_from *)
Lemma dest_image_writes : forall old trace k j, dest_image old (as_writes trace) k j = crash_from old trace k j.
Proof.
  intros old trace k j. unfold dest_image, crash_from.
  rewrite firstn_as_writes, fold_as_writes, nth_as_writes.
  destruct (nth_error trace k) as [[pos bs]|]; reflexivity.
Qed.

(* emptied first: whatever the path held, once the open has happened the images are those of the session on an empty destination *)
Lemma overwrite_image : forall old trace k j, dest_image old (overwrite_ops trace) (S k) j = crash_image trace k j.
Proof.
  intros old trace k j. unfold overwrite_ops, dest_image.
  cbn [firstn nth_error fold_left apply_dop].
  change (Z.to_nat 0) with 0%nat. cbn [firstn Nat.sub zeros repeat app].
  fold (dest_image [] (as_writes trace) k j). rewrite dest_image_writes. symmetry. apply crash_image_from.
Qed.

(* and before the open nothing has happened: the path holds what it held *)
Lemma overwrite_image_0 : forall old trace j, dest_image old (overwrite_ops trace) 0 j = old.
Proof. reflexivity. Qed.

(* C19 for a one-shot / chunked writer session on a path that held ANY bytes `old` (an older, longer, shorter LAS file of the same or of
   another version ...): every image from the open on is refused or read as a prefix of the NEW points *)
Theorem overwrite_safe : forall ap h vl fmt chunks evl hb0 eb h' hb1 old k j,
  enc_header (with_stats h stats0) vl false = Ok hb0 ->
  enc_vlrs true evl = Ok eb ->
  final_hdr ap h vl fmt (concat chunks) evl = Ok h' ->
  enc_header (with_stats (fst hb0) (stats_of_header h')) vl true = Ok hb1 ->
  wf_header h' vl = true -> wf_header (fst hb0) vl = true -> forallb (wf_vlr true) evl = true ->
  recs_ok (aint h' "point_size") (concat chunks) = true -> 0 < aint h' "point_size" ->
  reads_prefix_or_fails (dest_image old (overwrite_ops (write_trace (snd hb0) chunks eb (snd hb1))) (S k) j) (concat chunks).
Proof.
  intros. rewrite overwrite_image. eapply crash_safe; eassumption.
Qed.
Print Assumptions overwrite_safe.

(* the same with failed chunk writes in the session (Proofs/FaultProofs.v) *)
Theorem overwrite_fault_safe : forall ap h vl fmt evs evl hb0 epos eb h' hb1 old k j,
  enc_header (with_stats h stats0) vl false = Ok hb0 ->
  enc_vlrs true evl = Ok eb ->
  final_hdr ap h vl fmt (accepted evs) evl = Ok h' ->
  enc_header (with_stats (fst hb0) (stats_of_header h')) vl true = Ok hb1 ->
  recs_ok (aint h' "point_size") (accepted evs) = true -> 0 < aint h' "point_size" ->
  len (snd hb0) + len (concat (accepted evs)) <= epos ->
  reads_prefix_or_fails (dest_image old (overwrite_ops (fault_trace (snd hb0) evs epos eb (snd hb1))) (S k) j) (accepted evs).
Proof.
  intros. rewrite overwrite_image. eapply fault_safe; eassumption.
Qed.
Print Assumptions overwrite_fault_safe.
