(* C09, round 3: derived views, whole-dimension assignment with record growth, copy_fields_from, histories. *)
From Coq Require Import String.
From Coq Require Import ZArith List Bool Lia ZifyBool.
From LasV Require Import Lib.Base Lib.BaseFacts Gen.GenFormatBits Gen.GenDims Model.SubField Proofs.SubFieldProofs Model.SubFieldRec.
Import ListNotations.
Open Scope list_scope.
Open Scope Z_scope.

Notation byte_list := (Forall (fun b => 0 <= b < 256)).
Notation arr_fold m := (fold_left (fun bs p => set_nth bs (fst p) (sf_put m (nth (fst p) bs 0) (snd p)))).

(* ---------------- facts about the tables (finite, by computation) ---------------- *)
Definition entry_eqb (e1 e2 : Z * string * string * Z) : bool :=
  let '(f1, n1, c1, m1) := e1 in let '(f2, n2, c2, m2) := e2 in
  (f1 =? f2) && String.eqb n1 n2 && String.eqb c1 c2 && (m1 =? m2).

(* within a format: one entry per name, and two names never share (composed byte, mask) *)
Definition table_ok : bool :=
  forallb (fun e1 => forallb (fun e2 =>
    let '(f1, n1, c1, m1) := e1 in let '(f2, n2, c2, m2) := e2 in
    if (f1 =? f2) then
      (if String.eqb n1 n2 then entry_eqb e1 e2 else true)
      && (if String.eqb c1 c2 && (m1 =? m2) then String.eqb n1 n2 else true)
    else true) all_sub_fields) all_sub_fields.
Lemma table_ok_true : table_ok = true.
Proof. vm_compute. reflexivity. Qed.

Lemma find_sf_in fmt name c m : find_sf fmt name = Some (c, m) -> In (fmt, name, c, m) all_sub_fields.
Proof.
  unfold find_sf. destruct (find _ all_sub_fields) as [[[[f n] c'] m']|] eqn:F; [|discriminate].
  intros E. inversion E; subst. apply find_some in F as [Hin Hb].
  apply andb_true_iff in Hb as [Hf Hn]. apply Z.eqb_eq in Hf. apply String.eqb_eq in Hn. now subst.
Qed.

Lemma in_find_sf fmt name c m : In (fmt, name, c, m) all_sub_fields -> find_sf fmt name = Some (c, m).
Proof.
  intros Hin. unfold find_sf.
  destruct (find _ all_sub_fields) as [[[[f n] c'] m']|] eqn:F.
  - apply find_some in F as [Hin' Hb]. apply andb_true_iff in Hb as [Hf Hn].
    apply Z.eqb_eq in Hf. apply String.eqb_eq in Hn. subst.
    pose proof table_ok_true as T. unfold table_ok in T. rewrite forallb_forall in T.
    specialize (T _ Hin). rewrite forallb_forall in T. specialize (T _ Hin'). cbn in T.
    rewrite Z.eqb_refl, String.eqb_refl in T. apply andb_true_iff in T as [T _].
    repeat (apply andb_true_iff in T as [T ?]).
    apply String.eqb_eq in H0. apply Z.eqb_eq in H. now subst.
  - exfalso. apply (find_none _ _ F) in Hin. cbn in Hin. now rewrite Z.eqb_refl, String.eqb_refl in Hin.
Qed.

(* two different names of a format: different composed byte, or the other one is a sibling *)
Lemma other_name fmt name c m name' c' m' :
  find_sf fmt name = Some (c, m) -> find_sf fmt name' = Some (c', m') -> name' <> name ->
  c' <> c \/ (c' = c /\ In m' (siblings fmt c m)).
Proof.
  intros H H' Hne. apply find_sf_in in H, H'.
  destruct (string_dec c' c) as [->|]; [right; split; [reflexivity|]|now left].
  unfold siblings. apply in_flat_map. exists (fmt, name', c, m'). split; [exact H'|].
  rewrite Z.eqb_refl, String.eqb_refl. cbn.
  destruct (m' =? m) eqn:E; [|now left]. exfalso. apply Z.eqb_eq in E. subst m'.
  pose proof table_ok_true as T. unfold table_ok in T. rewrite forallb_forall in T.
  specialize (T _ H'). rewrite forallb_forall in T. specialize (T _ H). cbn in T.
  rewrite !Z.eqb_refl, String.eqb_refl in T. apply andb_true_iff in T as [_ T]. cbn in T.
  apply String.eqb_eq in T. contradiction.
Qed.

Lemma find_sf_col fmt name c m : find_sf fmt name = Some (c, m) -> In c (fmt_cols fmt).
Proof.
  intros H. apply find_sf_in in H. unfold fmt_cols. apply nodup_In. apply in_flat_map.
  exists (fmt, name, c, m). split; [exact H|]. rewrite Z.eqb_refl. now left.
Qed.

Lemma sf_get_le fmt name c m b : In (fmt, name, c, m) all_sub_fields -> 0 <= b < 256 -> 0 <= sf_get m b <= sf_max m.
Proof.
  intros Hin Hb. pose proof sf_cmp_sweep as S. rewrite forallb_forall in S. specialize (S _ Hin). cbn [sf_cmp_entry_ok] in S.
  pose proof (forall_below_spec _ _ S b Hb) as E. cbn beta in E.
  apply andb_true_iff in E as [E E1]. apply andb_true_iff in E as [_ E2].
  apply Z.leb_le in E1, E2. lia.
Qed.

Lemma sf_get_0 m : sf_get m 0 = 0.
Proof. unfold sf_get. now rewrite Z.land_0_l, Z.shiftr_0_l. Qed.

(* ---------------- lists ---------------- *)
Lemma Forall2_pointwise (R : Z -> Z -> Prop) l l' : length l = length l' ->
  (forall j, (j < length l)%nat -> R (nth j l 0) (nth j l' 0)) -> Forall2 R l l'.
Proof.
  revert l'. induction l as [|a l IH]; intros [|a' l'] Hl H; cbn in Hl; try discriminate; constructor.
  - apply (H 0%nat). cbn. lia.
  - apply IH; [lia|]. intros j Hj. apply (H (S j)). cbn. lia.
Qed.

Lemma F2_length {A B} (R : A -> B -> Prop) l l' : Forall2 R l l' -> length l = length l'.
Proof. induction 1; cbn; congruence. Qed.

Lemma grow_length bs k : length (grow bs k) = Nat.max (length bs) k.
Proof. unfold grow. rewrite app_length, repeat_length. lia. Qed.

Lemma grow_same bs k : (k <= length bs)%nat -> grow bs k = bs.
Proof. intros H. unfold grow. replace (k - length bs)%nat with 0%nat by lia. cbn. now rewrite app_nil_r. Qed.

Lemma grow_bytes bs k : byte_list bs -> byte_list (grow bs k).
Proof.
  intros H. unfold grow. apply Forall_app. split; [exact H|].
  apply Forall_forall. intros x Hx. apply repeat_spec in Hx. lia.
Qed.

Lemma map_get_grow m bs k : map (sf_get m) (grow bs k) = grow (map (sf_get m) bs) k.
Proof.
  unfold grow. rewrite map_app, map_length. f_equal.
  induction (k - length bs)%nat as [|q IH]; cbn; [reflexivity|]. now rewrite sf_get_0, IH.
Qed.

(* ---------------- one column: isolated updates ---------------- *)
Definition upd_ok (fmt : Z) (c : string) (m : Z) (b b' : Z) : Prop :=
  0 <= b' < 256 /\ Z.land b' (Z.lnot m) = Z.land b (Z.lnot m)
  /\ (forall m', In m' (siblings fmt c m) -> sf_get m' b' = sf_get m' b).

Lemma upd_ok_refl fmt c m b : 0 <= b < 256 -> upd_ok fmt c m b b.
Proof. intros H. repeat split; auto; lia. Qed.

Lemma upd_ok_map fmt c m m' bs bs' : Forall2 (upd_ok fmt c m) bs bs' -> In m' (siblings fmt c m) ->
  map (sf_get m') bs' = map (sf_get m') bs.
Proof. intros H Hm. induction H as [|b b' l l' (_ & _ & Hs) _ IH]; cbn; [reflexivity|]. now rewrite IH, Hs. Qed.

Lemma upd_ok_bytes fmt c m bs bs' : Forall2 (upd_ok fmt c m) bs bs' -> byte_list bs'.
Proof. intros H. induction H as [|b b' l l' (Hb & _) _ IH]; constructor; auto. Qed.

Lemma upd_ok_mask fmt c m bs bs' : Forall2 (upd_ok fmt c m) bs bs' ->
  forall j, Z.land (nth j bs' 0) (Z.lnot m) = Z.land (nth j bs 0) (Z.lnot m).
Proof. intros H. induction H as [|b b' l l' (_ & Hm & _) _ IH]; intros [|j]; cbn; auto. Qed.

Lemma zip_put_spec fmt name c m : In (fmt, name, c, m) all_sub_fields ->
  forall bs vs, byte_list bs -> Forall (fun v => 0 <= v <= sf_max m) vs -> length vs = length bs ->
  map (sf_get m) (zip_put m bs vs) = vs /\ Forall2 (upd_ok fmt c m) bs (zip_put m bs vs).
Proof.
  intros Hin. induction bs as [|b bs IH]; intros [|v vs] Hb Hv Hl; cbn in Hl; try discriminate.
  - split; [reflexivity|constructor].
  - inversion Hb; subst. inversion Hv; subst.
    destruct (IH vs H2 H4 ltac:(lia)) as [A B].
    destruct (sf_set_get fmt name c m b v Hin H1 H3) as (_ & Hg & Hr & Ho & Hs).
    unfold zip_put in *. cbn. split; [now rewrite Hg, A|].
    constructor; [|exact B]. repeat split; auto; lia.
Qed.

Lemma broadcast_zip m v bs : map (fun b => sf_put m b v) bs = zip_put m bs (repeat v (length bs)).
Proof. unfold zip_put. induction bs as [|b bs IH]; cbn; [reflexivity|]. now rewrite IH. Qed.

(* the whole-array fold of Model/SubField.v on in-range values is an isolated update too *)
Lemma fold_upd_ok fmt name c m sel : In (fmt, name, c, m) all_sub_fields ->
  forall bs, (forall p, In p sel -> 0 <= snd p <= sf_max m) -> byte_list bs ->
  Forall2 (upd_ok fmt c m) bs (arr_fold m sel bs).
Proof.
  intros Hin bs Hv Hb. apply Forall2_pointwise; [now rewrite fold_length|].
  intros j _.
  destruct (fold_outside_mask fmt name c m sel Hin bs j Hv Hb) as (A & B & C).
  repeat split; [| |exact B|exact C].
  - destruct (Nat.lt_ge_cases j (length (arr_fold m sel bs))) as [Hl|Hl].
    + rewrite Forall_forall in A. apply (A _ (nth_In _ 0 Hl)).
    + rewrite nth_overflow by exact Hl. lia.
  - destruct (Nat.lt_ge_cases j (length (arr_fold m sel bs))) as [Hl|Hl].
    + rewrite Forall_forall in A. apply (A _ (nth_In _ 0 Hl)).
    + rewrite nth_overflow by exact Hl. lia.
Qed.

(* ---------------- derived views ---------------- *)
Lemma view_sub_incl vpos idx : Forall (fun i => (i < length vpos)%nat) idx -> incl (view_sub vpos idx) vpos.
Proof.
  intros H x Hx. unfold view_sub in Hx. apply in_map_iff in Hx as (i & <- & Hi).
  rewrite Forall_forall in H. apply nth_In. now apply H.
Qed.

Lemma view_sub_nodup vpos idx : NoDup vpos -> NoDup idx -> Forall (fun i => (i < length vpos)%nat) idx ->
  NoDup (view_sub vpos idx).
Proof.
  intros Hv Hi Hl. unfold view_sub. induction Hi as [|i idx Hni Hi IH]; cbn; [constructor|].
  inversion Hl; subst. constructor; [|now apply IH].
  intros Hin. apply in_map_iff in Hin as (i' & E & Hi').
  rewrite Forall_forall in H2. pose proof (H2 _ Hi') as L.
  rewrite NoDup_nth in Hv. apply (Hv i' i L H1) in E. subst. contradiction.
Qed.

Lemma view_chain_gen chain : forall vpos n, NoDup vpos -> Forall (fun i => (i < n)%nat) vpos -> chain_ok (length vpos) chain ->
  NoDup (fold_left view_sub chain vpos) /\ Forall (fun i => (i < n)%nat) (fold_left view_sub chain vpos).
Proof.
  induction chain as [|idx t IH]; intros vpos n Hn Hb Hc; cbn; [auto|].
  destruct Hc as (Hd & Hl & Hc).
  apply IH.
  - now apply view_sub_nodup.
  - apply Forall_forall. intros x Hx. apply (view_sub_incl _ _ Hl) in Hx. rewrite Forall_forall in Hb. now apply Hb.
  - unfold view_sub. now rewrite map_length.
Qed.

Lemma view_chain_spec n chain : chain_ok n chain ->
  NoDup (view_chain n chain) /\ Forall (fun i => (i < n)%nat) (view_chain n chain).
Proof.
  intros H. unfold view_chain. apply view_chain_gen.
  - apply seq_NoDup.
  - apply Forall_forall. intros x Hx. apply in_seq in Hx. lia.
  - now rewrite seq_length.
Qed.

Lemma view_overflow m bs vpos sel : (exists p, In p sel /\ (snd p > sf_max m \/ snd p < 0)) ->
  sf_assign_view m bs vpos sel = Err EOverflow.
Proof.
  intros (p & Hin & Hp). unfold sf_assign_view.
  assert (existsb (fun p => oob m (snd p)) sel = true) as ->; [|reflexivity].
  apply existsb_exists. exists p. split; [exact Hin|]. unfold oob. lia.
Qed.

Lemma view_index m bs vpos sel : (forall p, In p sel -> 0 <= snd p <= sf_max m) ->
  (exists p, In p sel /\ (length vpos <= fst p)%nat) -> sf_assign_view m bs vpos sel = Err EIndex.
Proof.
  intros Hv (p & Hin & Hp). unfold sf_assign_view.
  destruct (existsb _ sel) eqn:E.
  - apply existsb_exists in E as (q & Hq & Ho). specialize (Hv _ Hq). unfold oob in Ho. lia.
  - assert (forallb (fun p => Nat.ltb (fst p) (length vpos)) sel = false) as ->; [|reflexivity].
    apply not_true_is_false. intros F. rewrite forallb_forall in F. specialize (F _ Hin).
    apply Nat.ltb_lt in F. lia.
Qed.

Definition through (vpos : list nat) (sel : list (nat * Z)) : list (nat * Z) :=
  map (fun p => (nth (fst p) vpos 0%nat, snd p)) sel.

Lemma view_assign fmt name c m : In (fmt, name, c, m) all_sub_fields ->
  forall bs vpos sel, byte_list bs -> NoDup vpos -> Forall (fun i => (i < length bs)%nat) vpos ->
  (forall p, In p sel -> 0 <= snd p <= sf_max m /\ (fst p < length vpos)%nat) ->
  exists bs', sf_assign_view m bs vpos sel = Ok bs'
  /\ length bs' = length bs
  /\ Forall2 (upd_ok fmt c m) bs bs'
  /\ (forall j, (forall p, In p sel -> nth (fst p) vpos 0%nat <> j) -> nth j bs' 0 = nth j bs 0)
  /\ (forall j, ~ In j vpos -> nth j bs' 0 = nth j bs 0)
  /\ (forall sel1 p sel2, sel = sel1 ++ p :: sel2 -> (forall q, In q sel2 -> fst q <> fst p) ->
        sf_get m (nth (nth (fst p) vpos 0%nat) bs' 0) = snd p).
Proof.
  intros Hin bs vpos sel Hb Hnd Hvp Hsel.
  exists (arr_fold m (through vpos sel) bs).
  assert (forall q, In q (through vpos sel) -> 0 <= snd q <= sf_max m) as Hv'.
  { intros q Hq. unfold through in Hq. apply in_map_iff in Hq as (p & <- & Hp). cbn. now apply Hsel. }
  split.
  { unfold sf_assign_view.
    destruct (existsb _ sel) eqn:E.
    { apply existsb_exists in E as (q & Hq & Ho). destruct (Hsel _ Hq) as [R _]. unfold oob in Ho. lia. }
    assert (forallb (fun p => Nat.ltb (fst p) (length vpos)) sel = true) as ->.
    { apply forallb_forall. intros p Hp. apply Nat.ltb_lt. now apply Hsel. }
    cbn. unfold sf_assign_arr. fold (through vpos sel).
    destruct (existsb _ (through vpos sel)) eqn:E'; [|reflexivity].
    apply existsb_exists in E' as (q & Hq & Ho). specialize (Hv' _ Hq). lia. }
  split; [apply fold_length|].
  split; [now apply (fold_upd_ok fmt name c m)|].
  assert (forall j, (forall p, In p sel -> nth (fst p) vpos 0%nat <> j) ->
            nth j (arr_fold m (through vpos sel) bs) 0 = nth j bs 0) as Hun.
  { intros j Hj. apply fold_untouched. intros q Hq. unfold through in Hq.
    apply in_map_iff in Hq as (p & <- & Hp). cbn. now apply Hj. }
  split; [exact Hun|].
  split.
  { intros j Hj. apply Hun. intros p Hp E. apply Hj. rewrite <- E. apply nth_In. now apply Hsel. }
  intros sel1 p sel2 -> Hlast.
  assert (through vpos (sel1 ++ p :: sel2) = through vpos sel1 ++ (nth (fst p) vpos 0%nat, snd p) :: through vpos sel2) as Et
    by (unfold through; rewrite map_app; reflexivity).
  rewrite Et in *.
  pose proof (fold_reads_back fmt name c m Hin (through vpos sel1) (nth (fst p) vpos 0%nat, snd p) (through vpos sel2) bs Hv' Hb) as X.
  cbn [fst snd] in X. apply X.
  - rewrite Forall_forall in Hvp. apply Hvp, nth_In. apply Hsel. apply in_or_app. right. now left.
  - intros q Hq. unfold through in Hq. apply in_map_iff in Hq as (q0 & <- & Hq0). cbn. intros E.
    rewrite NoDup_nth in Hnd. apply Hnd in E.
    + now apply (Hlast _ Hq0).
    + apply Hsel. apply in_or_app. right. now right.
    + apply Hsel. apply in_or_app. right. now left.
Qed.

(* ---------------- records ---------------- *)
Notation col_ok n := (fun cb : string * list Z => length (snd cb) = n /\ byte_list (snd cb)).

Lemma col_set_keys r c bs : map fst (col_set r c bs) = map fst r.
Proof.
  induction r as [|[c' b'] t IH]; cbn; [reflexivity|].
  destruct (String.eqb c' c); cbn; [reflexivity|now rewrite IH].
Qed.

Lemma col_get_set_same r c bs : In c (map fst r) -> col_get (col_set r c bs) c = bs.
Proof.
  induction r as [|[c' b'] t IH]; cbn; [tauto|]. intros H.
  destruct (String.eqb c' c) eqn:E; cbn; rewrite E; [reflexivity|].
  apply IH. destruct H as [->|H]; [|exact H]. now rewrite String.eqb_refl in E.
Qed.

Lemma col_get_set_other r c c' bs : c' <> c -> col_get (col_set r c bs) c' = col_get r c'.
Proof.
  intros Hne. induction r as [|[c0 b0] t IH]; cbn; [reflexivity|].
  destruct (String.eqb c0 c) eqn:E; cbn.
  - apply String.eqb_eq in E. subst c0.
    destruct (String.eqb c c') eqn:E'; [apply String.eqb_eq in E'; congruence|reflexivity].
  - destruct (String.eqb c0 c'); [reflexivity|exact IH].
Qed.

Lemma col_set_ok r c bs n : Forall (col_ok n) r -> length bs = n -> byte_list bs -> Forall (col_ok n) (col_set r c bs).
Proof.
  intros H Hl Hb. induction H as [|[c' b'] t Hx Ht IH]; cbn; [constructor|].
  destruct (String.eqb c' c); constructor; auto.
Qed.

Lemma col_get_ok r c n : Forall (col_ok n) r -> In c (map fst r) -> length (col_get r c) = n /\ byte_list (col_get r c).
Proof.
  intros H Hin. induction H as [|[c' b'] t Hx Ht IH]; cbn in *; [tauto|].
  destruct (String.eqb c' c) eqn:E; [exact Hx|].
  apply IH. destruct Hin as [->|Hin]; [|exact Hin]. now rewrite String.eqb_refl in E.
Qed.

Lemma rec_grow_keys r k : map fst (rec_grow r k) = map fst r.
Proof. unfold rec_grow. rewrite map_map. reflexivity. Qed.

Lemma col_get_grow r k c : In c (map fst r) -> col_get (rec_grow r k) c = grow (col_get r c) k.
Proof.
  induction r as [|[c' b'] t IH]; cbn; [tauto|]. intros H.
  destruct (String.eqb c' c) eqn:E; [reflexivity|].
  apply IH. destruct H as [->|H]; [|exact H]. now rewrite String.eqb_refl in E.
Qed.

Lemma rec_grow_ok r n k : Forall (col_ok n) r -> Forall (col_ok (Nat.max n k)) (rec_grow r k).
Proof.
  intros H. unfold rec_grow. apply Forall_map. eapply Forall_impl; [|exact H].
  intros [c b] [Hl Hb]. cbn [fst snd] in *. split; [rewrite grow_length; lia|now apply grow_bytes].
Qed.

Lemma rec_grow_same r n k : Forall (col_ok n) r -> (k <= n)%nat -> rec_grow r k = r.
Proof.
  intros H Hk. unfold rec_grow. induction H as [|[c b] t [Hl _] Ht IH]; cbn [map]; [reflexivity|].
  cbn [fst snd] in *. rewrite IH. now rewrite grow_same by lia.
Qed.

Lemma rec_wf_grow fmt r n k : rec_wf fmt r n -> rec_wf fmt (rec_grow r k) (Nat.max n k).
Proof. intros [K H]. split; [now rewrite rec_grow_keys|now apply rec_grow_ok]. Qed.

(* replacing the column of one sub-field by an isolated update of it *)
Lemma rec_col_update fmt r n name c m bs' :
  rec_wf fmt r n -> find_sf fmt name = Some (c, m) -> Forall2 (upd_ok fmt c m) (col_get r c) bs' ->
  let r' := col_set r c bs' in
  rec_wf fmt r' n
  /\ rec_read fmt r' name = Some (map (sf_get m) bs')
  /\ (forall name' c' m', name' <> name -> find_sf fmt name' = Some (c', m') -> rec_read fmt r' name' = rec_read fmt r name')
  /\ (forall c', c' <> c -> col_get r' c' = col_get r c')
  /\ (forall j, Z.land (nth j (col_get r' c) 0) (Z.lnot m) = Z.land (nth j (col_get r c) 0) (Z.lnot m)).
Proof.
  intros [K H] F U r'.
  assert (In c (map fst r)) as Hc by (rewrite K; eapply find_sf_col; eauto).
  destruct (col_get_ok r c n H Hc) as [Hl Hb].
  assert (length bs' = n) as Hl' by (rewrite <- Hl; symmetry; eapply F2_length; eauto).
  split.
  { split; [unfold r'; now rewrite col_set_keys|]. apply col_set_ok; auto. eapply upd_ok_bytes; eauto. }
  split.
  { unfold rec_read. rewrite F. unfold r'. now rewrite col_get_set_same. }
  split.
  { intros name' c' m' Hne F'. unfold rec_read. rewrite F'.
    destruct (other_name _ _ _ _ _ _ _ F F' Hne) as [Hd|[-> Hs]].
    - unfold r'. now rewrite col_get_set_other.
    - unfold r'. rewrite col_get_set_same by exact Hc. f_equal. eapply upd_ok_map; eauto. }
  split.
  { intros c' Hd. unfold r'. now apply col_get_set_other. }
  intros j. unfold r'. rewrite col_get_set_same by exact Hc. eapply upd_ok_mask; eauto.
Qed.

(* ---------------- rec[name] = vs ---------------- *)
Lemma no_oob m vs : existsb (oob m) vs = false -> in_range m vs.
Proof.
  intros E. apply Forall_forall. intros v Hv.
  destruct (oob m v) eqn:O.
  - assert (existsb (oob m) vs = true) by (apply existsb_exists; eauto). congruence.
  - unfold oob in O. lia.
Qed.

Lemma in_range_no_oob m vs : in_range m vs -> existsb (oob m) vs = false.
Proof.
  intros H. apply not_true_is_false. intros E. apply existsb_exists in E as (v & Hv & O).
  unfold in_range in H. rewrite Forall_forall in H. specialize (H _ Hv). unfold oob in O. lia.
Qed.

Lemma seq_overflow fmt r name c m vs : find_sf fmt name = Some (c, m) ->
  (exists v, In v vs /\ (v > sf_max m \/ v < 0)) -> rec_assign_seq fmt r name vs = Err EOverflow.
Proof.
  intros F (v & Hv & Ho). unfold rec_assign_seq. rewrite F. cbv zeta.
  unfold sf_assign_seq. destruct vs as [|v0 t]; [destruct Hv|].
  assert (existsb (oob m) (v0 :: t) = true) as ->; [|reflexivity].
  apply existsb_exists. exists v. split; [exact Hv|]. unfold oob. lia.
Qed.

Lemma seq_overflow_step fmt r name c m vs : find_sf fmt name = Some (c, m) ->
  (exists v, In v vs /\ (v > sf_max m \/ v < 0)) ->
  rec_assign_seq fmt r name vs = Err EOverflow /\ step fmt r (OSeq name vs) = (r, Some EOverflow).
Proof. intros F H. pose proof (seq_overflow fmt r name c m vs F H) as E. split; [exact E|]. cbn [step]. now rewrite E. Qed.

(* what a successful whole-dimension assignment does: k = max(n, len vs) points; the field reads back vs (or the
   broadcast value); every other sub-field and every other packed byte keeps its values on the existing points and
   is ZERO on the appended ones; in the field's own byte the bits outside the mask likewise *)
Lemma assign_seq_spec fmt r n name c m vs r' :
  rec_wf fmt r n -> find_sf fmt name = Some (c, m) -> vs <> [] -> rec_assign_seq fmt r name vs = Ok r' ->
  let k := Nat.max n (length vs) in
  in_range m vs
  /\ rec_wf fmt r' k
  /\ rec_read fmt r' name = Some (seq_values vs k)
  /\ (forall name' c' m', name' <> name -> find_sf fmt name' = Some (c', m') ->
        rec_read fmt r' name' = Some (grow (map (sf_get m') (col_get r c')) k))
  /\ (forall c', c' <> c -> In c' (fmt_cols fmt) -> col_get r' c' = grow (col_get r c') k)
  /\ (forall j, Z.land (nth j (col_get r' c) 0) (Z.lnot m) = Z.land (nth j (grow (col_get r c) k) 0) (Z.lnot m)).
Proof.
  intros W F Hne E k. unfold rec_assign_seq in E. rewrite F in E. cbv zeta in E.
  pose proof (rec_wf_grow fmt r n (length vs) W) as Wg. fold k in Wg.
  set (rg := rec_grow r (length vs)) in *.
  pose proof (find_sf_in _ _ _ _ F) as Hin.
  destruct W as [K H]. destruct Wg as [Kg Hg].
  assert (In c (map fst r)) as Hc by (rewrite K; eapply find_sf_col; eauto).
  assert (In c (map fst rg)) as Hcg by (rewrite Kg; eapply find_sf_col; eauto).
  destruct (col_get_ok rg c k Hg Hcg) as [Hl Hb].
  assert (forall c', In c' (fmt_cols fmt) -> col_get rg c' = grow (col_get r c') k) as Hgrow.
  { intros c' Hc'. unfold rg. rewrite col_get_grow by (now rewrite K).
    unfold grow. f_equal. f_equal. destruct (col_get_ok r c' n H ltac:(now rewrite K)) as [L _]. unfold k. lia. }
  unfold sf_assign_seq in E. destruct vs as [|v0 t] eqn:Evs; [congruence|]. rewrite <- Evs in *.
  destruct (existsb (oob m) vs) eqn:O; [discriminate|].
  pose proof (no_oob _ _ O) as R.
  assert (exists ws, in_range m ws /\ length ws = k /\ seq_values vs k = ws /\ r' = col_set rg c (zip_put m (col_get rg c) ws)) as (ws & Rw & Lw & Sw & ->).
  { destruct (Nat.eqb (length vs) (length (col_get rg c))) eqn:L.
    - apply Nat.eqb_eq in L. inversion E; subst r'. exists vs. repeat split; auto; [lia|].
      unfold seq_values. rewrite Hl in L. now rewrite L, Nat.eqb_refl.
    - destruct t; [|discriminate]. inversion E; subst r'. exists (repeat v0 k). rewrite Hl in L.
      split; [|split; [now rewrite repeat_length|split]].
      + apply Forall_forall. intros x Hx. apply repeat_spec in Hx. subst x. rewrite Evs in R. now inversion R.
      + unfold seq_values. rewrite L. now rewrite Evs.
      + rewrite broadcast_zip, Hl. reflexivity. }
  destruct (zip_put_spec fmt name c m Hin (col_get rg c) ws Hb Rw ltac:(lia)) as [A B].
  destruct (rec_col_update fmt rg k name c m _ (conj Kg Hg) F B) as (W' & Rd & Oth & Cols & Msk).
  split; [exact R|]. split; [exact W'|]. split; [now rewrite Rd, A, Sw|].
  split.
  { intros name' c' m' Hn F'. rewrite (Oth name' c' m' Hn F'). unfold rec_read. rewrite F'. f_equal.
    rewrite Hgrow by (eapply find_sf_col; eauto). apply map_get_grow. }
  split.
  { intros c' Hd Hc'. rewrite Cols by exact Hd. now apply Hgrow. }
  intros j. rewrite Msk. rewrite Hgrow by (eapply find_sf_col; eauto). reflexivity.
Qed.

Lemma assign_seq_ok fmt r n name c m vs :
  rec_wf fmt r n -> find_sf fmt name = Some (c, m) -> in_range m vs -> (n <= length vs)%nat \/ length vs = 1%nat ->
  exists r', rec_assign_seq fmt r name vs = Ok r'.
Proof.
  intros W F R L. unfold rec_assign_seq. rewrite F. cbv zeta.
  pose proof (rec_wf_grow fmt r n (length vs) W) as [Kg Hg].
  assert (In c (map fst (rec_grow r (length vs)))) as Hcg by (rewrite Kg; eapply find_sf_col; eauto).
  destruct (col_get_ok _ c _ Hg Hcg) as [Hl _].
  unfold sf_assign_seq. destruct vs as [|v0 t] eqn:Evs; [eauto|]. rewrite <- Evs in *.
  rewrite (in_range_no_oob _ _ R).
  destruct (Nat.eqb (length vs) (length (col_get (rec_grow r (length vs)) c))) eqn:E; [eauto|].
  destruct t; [eauto|]. exfalso. apply Nat.eqb_neq in E. rewrite Hl in E.
  rewrite Evs in *. cbn in *. lia.
Qed.

Lemma assign_seq_empty fmt r n name c m : rec_wf fmt r n -> find_sf fmt name = Some (c, m) ->
  rec_assign_seq fmt r name [] = Ok r.
Proof.
  intros [K H] F. unfold rec_assign_seq. rewrite F. cbn.
  rewrite (rec_grow_same r n 0 H) by lia. f_equal.
  assert (In c (map fst r)) as Hc by (rewrite K; eapply find_sf_col; eauto).
  clear - Hc. induction r as [|[c' b'] t IH]; cbn in *; [reflexivity|].
  destruct (String.eqb c' c) eqn:E; [reflexivity|]. f_equal. apply IH.
  destruct Hc as [->|Hc]; [now rewrite String.eqb_refl in E|exact Hc].
Qed.

(* any outcome keeps the record well formed, and it never shrinks *)
Lemma assign_seq_wf fmt r n name vs r' : rec_wf fmt r n -> rec_assign_seq fmt r name vs = Ok r' ->
  rec_wf fmt r' (Nat.max n (length vs)).
Proof.
  intros W E. destruct (find_sf fmt name) as [[c m]|] eqn:F.
  - destruct vs as [|v t] eqn:Evs.
    + rewrite (assign_seq_empty fmt r n name c m W F) in E. inversion E; subst. cbn. now rewrite Nat.max_0_r.
    + rewrite <- Evs in *. assert (vs <> []) as Hne by (rewrite Evs; discriminate).
      now destruct (assign_seq_spec fmt r n name c m vs r' W F Hne E) as (_ & W' & _).
  - unfold rec_assign_seq in E. now rewrite F in E.
Qed.

(* ---------------- rec[name][chain][key] = value ---------------- *)
Lemma assign_view_spec fmt r n name c m chain sel :
  rec_wf fmt r n -> find_sf fmt name = Some (c, m) -> chain_ok n chain ->
  let vpos := view_chain n chain in
  (forall p, In p sel -> 0 <= snd p <= sf_max m /\ (fst p < length vpos)%nat) ->
  exists r', rec_assign_view fmt r name chain sel = Ok r'
  /\ rec_wf fmt r' n
  /\ (forall name' c' m', name' <> name -> find_sf fmt name' = Some (c', m') -> rec_read fmt r' name' = rec_read fmt r name')
  /\ (forall c', c' <> c -> col_get r' c' = col_get r c')
  /\ (forall j, Z.land (nth j (col_get r' c) 0) (Z.lnot m) = Z.land (nth j (col_get r c) 0) (Z.lnot m))
  /\ (forall j, (forall p, In p sel -> nth (fst p) vpos 0%nat <> j) -> nth j (col_get r' c) 0 = nth j (col_get r c) 0)
  /\ (forall sel1 p sel2, sel = sel1 ++ p :: sel2 -> (forall q, In q sel2 -> fst q <> fst p) ->
        sf_get m (nth (nth (fst p) vpos 0%nat) (col_get r' c) 0) = snd p).
Proof.
  intros W F Hch vpos Hsel. pose proof W as [K H].
  assert (In c (map fst r)) as Hc by (rewrite K; eapply find_sf_col; eauto).
  destruct (col_get_ok r c n H Hc) as [Hl Hb].
  destruct (view_chain_spec n chain Hch) as [Hnd Hlt]. fold vpos in Hnd, Hlt.
  rewrite <- Hl in Hlt.
  destruct (view_assign fmt name c m (find_sf_in _ _ _ _ F) (col_get r c) vpos sel Hb Hnd Hlt Hsel)
    as (bs' & E & L & U & Un & _ & Rb).
  exists (col_set r c bs'). unfold rec_assign_view. rewrite F. cbv zeta. rewrite Hl. fold vpos.
  rewrite E.
  destruct (rec_col_update fmt r n name c m bs' W F U) as (W' & _ & Oth & Cols & Msk).
  split; [reflexivity|]. split; [exact W'|]. split; [exact Oth|]. split; [exact Cols|]. split; [exact Msk|].
  rewrite col_get_set_same by exact Hc. split; [exact Un|exact Rb].
Qed.

Lemma assign_view_overflow fmt r name c m chain sel : find_sf fmt name = Some (c, m) ->
  (exists p, In p sel /\ (snd p > sf_max m \/ snd p < 0)) -> rec_assign_view fmt r name chain sel = Err EOverflow.
Proof. intros F Ho. unfold rec_assign_view. rewrite F. cbv zeta. now rewrite view_overflow. Qed.

(* ---------------- copy_fields_from ---------------- *)
Definition names_ok : bool :=
  forallb (fun fmt => forallb (fun n => match find_sf fmt n with Some _ => true | None => false end) (fmt_names fmt)
                      && (Nat.eqb (length (nodup string_dec (fmt_names fmt))) (length (fmt_names fmt)))) known_fmts.
Lemma names_ok_true : names_ok = true.
Proof. vm_compute. reflexivity. Qed.

Lemma fmt_names_found fmt n : In fmt known_fmts -> In n (fmt_names fmt) -> exists c m, find_sf fmt n = Some (c, m).
Proof.
  intros Hf Hn. pose proof names_ok_true as T. unfold names_ok in T. rewrite forallb_forall in T.
  specialize (T _ Hf). apply andb_true_iff in T as [T _]. rewrite forallb_forall in T. specialize (T _ Hn).
  destruct (find_sf fmt n) as [[c m]|]; [eauto|discriminate].
Qed.

Lemma nodup_len_NoDup (l : list string) : length (nodup string_dec l) = length l -> NoDup l.
Proof.
  induction l as [|a l IH]; cbn; [constructor|].
  destruct (in_dec string_dec a l) as [Hin|Hni]; intros E.
  - pose proof (NoDup_incl_length (NoDup_nodup string_dec l) (fun x Hx => proj1 (nodup_In string_dec l x) Hx)). lia.
  - cbn in E. constructor; [exact Hni|]. apply IH. lia.
Qed.

Lemma fmt_names_nodup fmt : In fmt known_fmts -> NoDup (fmt_names fmt).
Proof.
  intros Hf. pose proof names_ok_true as T. unfold names_ok in T. rewrite forallb_forall in T.
  specialize (T _ Hf). apply andb_true_iff in T as [_ T]. apply Nat.eqb_eq in T. now apply nodup_len_NoDup.
Qed.

(* copying values of the record's own length onto ANY prior content: every copied field reads back the copied
   values, every field that is not copied keeps its values *)
Lemma copy_exact fmt : forall vals r n,
  rec_wf fmt r n -> NoDup (map fst vals) ->
  (forall name vs, In (name, vs) vals -> length vs = n /\ exists c m, find_sf fmt name = Some (c, m) /\ in_range m vs) ->
  exists r', rec_copy fmt r vals = (r', None)
  /\ rec_wf fmt r' n
  /\ (forall name vs, In (name, vs) vals -> rec_read fmt r' name = Some vs)
  /\ (forall name c m, find_sf fmt name = Some (c, m) -> ~ In name (map fst vals) -> rec_read fmt r' name = rec_read fmt r name).
Proof.
  induction vals as [|[name vs] t IH]; intros r n W Hnd Hv.
  { exists r. cbn [rec_copy]. split; [reflexivity|]. split; [exact W|]. split; [intros ? ? []|reflexivity]. }
  cbn [map fst] in Hnd. inversion Hnd as [|? ? Hni Hnd']; subst.
  destruct (Hv name vs (or_introl eq_refl)) as (Hl & c & m & F & R).
  assert (forall name0 vs0, In (name0, vs0) t -> length vs0 = n /\ exists c m, find_sf fmt name0 = Some (c, m) /\ in_range m vs0) as Hv'
    by (intros; apply Hv; now right).
  destruct vs as [|v0 vt] eqn:Evs.
  { (* n = 0: nothing to assign *)
    cbn [rec_copy]. rewrite (assign_seq_empty fmt r n name c m W F).
    destruct (IH r n W Hnd' Hv') as (r' & E & W' & Rd & Ot). exists r'. split; [exact E|]. split; [exact W'|].
    split.
    - intros name0 vs0 [X|X]; [|now apply Rd]. inversion X; subst.
      rewrite (Ot name0 c m F Hni). unfold rec_read. rewrite F. f_equal.
      destruct W as [K H]. assert (In c (map fst r)) as Hc by (rewrite K; eapply find_sf_col; eauto).
      destruct (col_get_ok r c _ H Hc) as [L _]. cbn in L. now destruct (col_get r c).
    - intros name0 c0 m0 F0 Hn0. apply (Ot name0 c0 m0 F0). intros X. apply Hn0. now right. }
  rewrite <- Evs in *. assert (vs <> []) as Hne by (rewrite Evs; discriminate).
  destruct (assign_seq_ok fmt r n name c m vs W F R ltac:(lia)) as (r1 & E1).
  destruct (assign_seq_spec fmt r n name c m vs r1 W F Hne E1) as (_ & W1 & Rd1 & Ot1 & _).
  replace (Nat.max n (length vs)) with n in * by lia.
  destruct (IH r1 n W1 Hnd' Hv') as (r' & E & W' & Rd & Ot).
  exists r'. cbn [rec_copy]. rewrite E1. split; [exact E|]. split; [exact W'|].
  split.
  - intros name0 vs0 [X|X]; [|now apply Rd]. inversion X; subst name0 vs0.
    rewrite (Ot name c m F Hni), Rd1. unfold seq_values. now rewrite Hl, Nat.eqb_refl.
  - intros name0 c0 m0 F0 Hn0.
    assert (name0 <> name) as Hd by (intros ->; apply Hn0; now left).
    rewrite (Ot name0 c0 m0 F0) by (intros X; apply Hn0; now right).
    rewrite (Ot1 name0 c0 m0 Hd F0). unfold rec_read. rewrite F0. f_equal.
    destruct W as [K H]. assert (In c0 (map fst r)) as Hc by (rewrite K; eapply find_sf_col; eauto).
    destruct (col_get_ok r c0 _ H Hc) as [L _]. apply grow_same. rewrite map_length. lia.
Qed.

(* same family (the two formats have the same sub-field table): after copy_fields_from every sub-field of the
   destination equals the source's, whatever the destination held *)
Lemma copy_same_family sfmt dfmt src dst n :
  In dfmt known_fmts -> (forall name, find_sf sfmt name = find_sf dfmt name) ->
  rec_wf sfmt src n -> rec_wf dfmt dst n ->
  exists r', step dfmt dst (OCopy sfmt src []) = (r', None)
  /\ rec_wf dfmt r' n
  /\ (forall name, In name (fmt_names dfmt) -> rec_read dfmt r' name = rec_read sfmt src name).
Proof.
  intros Hk Hsame Ws Wd. cbn [step].
  assert (rec_grow dst (rec_len src) = dst) as ->.
  { destruct Wd as [_ Hd]. apply (rec_grow_same dst n); [exact Hd|].
    destruct Ws as [_ Hs]. destruct src as [|[c0 b0] t]; cbn [rec_len snd]; [lia|]. inversion Hs as [|x l Hx Hl]; subst. destruct Hx as [L _]. cbn [snd] in L. lia. }
  assert (src_vals sfmt src [] dfmt = map (fun nm => (nm, match rec_read sfmt src nm with Some vs => vs | None => [] end)) (fmt_names dfmt)) as Ev.
  { unfold src_vals. assert (forall nm, In nm (fmt_names dfmt) -> In nm (fmt_names dfmt)) as Hall by auto.
    revert Hall. generalize (fmt_names dfmt) at 1 3 4. induction l as [|a l IH]; intros Hall; cbn; [reflexivity|].
    destruct (fmt_names_found dfmt a Hk (Hall a (or_introl eq_refl))) as (c & m & F).
    unfold rec_read at 1 3. rewrite Hsame, F. cbn. f_equal. apply IH. intros; apply Hall; now right. }
  rewrite Ev.
  destruct (copy_exact dfmt (map (fun nm => (nm, match rec_read sfmt src nm with Some vs => vs | None => [] end)) (fmt_names dfmt)) dst n Wd) as (r' & E & W' & Rd & _).
  { rewrite map_map. cbn. rewrite map_id. now apply fmt_names_nodup. }
  { intros name vs Hin. apply in_map_iff in Hin as (nm & X & Hnm). inversion X; subst name vs.
    destruct (fmt_names_found dfmt nm Hk Hnm) as (c & m & F).
    unfold rec_read. rewrite Hsame, F.
    destruct Ws as [K H]. assert (In c (map fst src)) as Hc by (rewrite K; eapply find_sf_col; rewrite Hsame; eauto).
    destruct (col_get_ok src c n H Hc) as [L B].
    split; [now rewrite map_length|]. exists c, m. split; [reflexivity|].
    apply Forall_forall. intros v Hv. apply in_map_iff in Hv as (b & <- & Hb).
    rewrite Forall_forall in B. eapply sf_get_le; [apply find_sf_in; eauto|now apply B]. }
  exists r'. split; [exact E|]. split; [exact W'|].
  intros name Hn. destruct (fmt_names_found dfmt name Hk Hn) as (c & m & F).
  rewrite (Rd name (match rec_read sfmt src name with Some vs => vs | None => [] end)).
  - unfold rec_read. now rewrite Hsame, F.
  - apply in_map_iff. exists name. split; [reflexivity|exact Hn].
Qed.

(* ---------------- histories: every operation keeps the record well formed; it never shrinks ---------------- *)
Lemma copy_wf fmt : forall vals r n, rec_wf fmt r n -> exists k, (n <= k)%nat /\ rec_wf fmt (fst (rec_copy fmt r vals)) k.
Proof.
  induction vals as [|[name vs] t IH]; intros r n W; cbn [rec_copy]; [exists n; split; [lia|exact W]|].
  destruct (rec_assign_seq fmt r name vs) as [r1|e] eqn:E.
  - pose proof (assign_seq_wf fmt r n name vs r1 W E) as W1.
    destruct (IH r1 _ W1) as (k & Hk & Wk). exists k. split; [lia|exact Wk].
  - destruct (is_evalue e); [apply IH; exact W|]. exists n. split; [lia|exact W].
Qed.

Lemma step_wf fmt r n o : rec_wf fmt r n -> exists k, (n <= k)%nat /\ rec_wf fmt (fst (step fmt r o)) k.
Proof.
  intros W. destruct o as [name chain sel|name vs|sfmt src plain]; cbn [step].
  - destruct (rec_assign_view fmt r name chain sel) as [r'|e] eqn:E; cbn [fst]; [|exists n; split; [lia|exact W]].
    exists n. split; [lia|]. unfold rec_assign_view in E. destruct (find_sf fmt name) as [[c m]|] eqn:F; [|discriminate].
    cbv zeta in E. destruct (sf_assign_view m (col_get r c) _ sel) as [bs'|] eqn:V; [|discriminate]. inversion E; subst r'.
    destruct W as [K H]. assert (In c (map fst r)) as Hc by (rewrite K; eapply find_sf_col; eauto).
    destruct (col_get_ok r c n H Hc) as [Hl Hb].
    unfold sf_assign_view in V. destruct (existsb _ sel) eqn:O; [discriminate|].
    destruct (negb _); [discriminate|]. unfold sf_assign_arr in V.
    destruct (existsb _ (map _ sel)) eqn:O'; [discriminate|]. inversion V; subst bs'.
    split; [now rewrite col_set_keys|]. apply col_set_ok; [exact H|now rewrite fold_length|].
    eapply upd_ok_bytes. apply (fold_upd_ok fmt name c m _ (find_sf_in _ _ _ _ F)); [|exact Hb].
    intros p Hp. assert (oob m (snd p) = false) as X.
    { apply not_true_is_false. intros Y. assert (existsb (fun p => (snd p >? sf_max m) || (snd p <? 0)) (map (fun p => (nth (fst p) (view_chain (length (col_get r c)) chain) 0%nat, snd p)) sel) = true); [|congruence].
      apply existsb_exists. exists p. split; [exact Hp|exact Y]. }
    unfold oob in X. lia.
  - destruct (rec_assign_seq fmt r name vs) as [r'|e] eqn:E; cbn [fst]; [|exists n; split; [lia|exact W]].
    exists (Nat.max n (length vs)). split; [lia|]. eapply assign_seq_wf; eauto.
  - destruct (copy_wf fmt (src_vals sfmt src plain fmt) _ _ (rec_wf_grow fmt r n (rec_len src) W)) as (k & Hk & Wk).
    exists k. split; [lia|exact Wk].
Qed.

Lemma run_wf fmt : forall ops r n, rec_wf fmt r n ->
  Forall (fun s => exists k, (n <= k)%nat /\ rec_wf fmt (fst s) k) (run fmt r ops).
Proof.
  induction ops as [|o t IH]; intros r n W; cbn [run]; constructor.
  - now apply step_wf.
  - destruct (step_wf fmt r n o W) as (k & Hk & Wk). specialize (IH _ _ Wk).
    eapply Forall_impl; [|exact IH]. intros s (k' & Hk' & W'). exists k'. split; [lia|exact W'].
Qed.

(* ======================= round 4: worlds — several record objects over shared memory ======================= *)
(* ---------------- generic update ---------------- *)
Lemma upd_length {A} (l : list A) i x : length (upd l i x) = length l.
Proof. revert i. induction l as [|a l IH]; intros [|i]; cbn; auto. Qed.

Lemma nth_upd_same {A} (l : list A) i x d : (i < length l)%nat -> nth i (upd l i x) d = x.
Proof. revert i. induction l as [|a l IH]; intros [|i] H; cbn in *; try lia; auto. apply IH. lia. Qed.

Lemma nth_upd_other {A} (l : list A) i j x d : i <> j -> nth j (upd l i x) d = nth j l d.
Proof. revert i j. induction l as [|a l IH]; intros [|i] [|j] H; cbn; auto; try lia. Qed.

(* ---------------- gather / scatter on one column ---------------- *)
Lemma gather_col_length bs pos : length (gather_col bs pos) = length pos.
Proof. unfold gather_col. apply map_length. Qed.

Lemma gather_col_nth bs pos j : (j < length pos)%nat -> nth j (gather_col bs pos) 0 = nth (nth j pos 0%nat) bs 0.
Proof.
  unfold gather_col. revert j. induction pos as [|p ps IH]; intros [|j] H; cbn in *; try lia; auto. apply IH. lia.
Qed.

Lemma gather_col_bytes bs pos : byte_list bs -> byte_list (gather_col bs pos).
Proof.
  intros H. unfold gather_col. apply Forall_forall. intros x Hx. apply in_map_iff in Hx as (i & <- & _).
  destruct (Nat.lt_ge_cases i (length bs)) as [L|L].
  - rewrite Forall_forall in H. apply H. now apply nth_In.
  - rewrite nth_overflow by exact L. lia.
Qed.

Lemma gather_col_seq bs : gather_col bs (seq 0 (length bs)) = bs.
Proof.
  apply nth_ext with (d := 0) (d' := 0).
  - now rewrite gather_col_length, seq_length.
  - intros j Hj. rewrite gather_col_length, seq_length in Hj.
    rewrite gather_col_nth by (now rewrite seq_length). now rewrite seq_nth.
Qed.

Lemma scatter_col_length pos : forall vs bs, length (scatter_col bs pos vs) = length bs.
Proof.
  unfold scatter_col. induction pos as [|p ps IH]; intros [|v vs] bs; cbn; auto.
  rewrite IH. apply set_nth_length.
Qed.

Lemma scatter_col_other pos : forall vs bs p, ~ In p pos -> nth p (scatter_col bs pos vs) 0 = nth p bs 0.
Proof.
  unfold scatter_col. induction pos as [|q ps IH]; intros [|v vs] bs p Hp; cbn; auto.
  rewrite IH by (intros X; apply Hp; now right).
  apply nth_set_nth_other. intros ->. apply Hp. now left.
Qed.

Lemma scatter_col_same pos : forall vs bs i, NoDup pos -> length vs = length pos ->
  Forall (fun p => (p < length bs)%nat) pos -> (i < length pos)%nat ->
  nth (nth i pos 0%nat) (scatter_col bs pos vs) 0 = nth i vs 0.
Proof.
  induction pos as [|q ps IH]; intros [|v vs] bs i Hnd Hl Hb Hi; cbn in Hl, Hi; try lia.
  inversion Hnd as [|? ? Hq Hnd']; subst. inversion Hb as [|? ? Hqb Hb']; subst.
  unfold scatter_col. cbn [combine fold_left fst snd]. fold (scatter_col (set_nth bs q v) ps vs).
  destruct i as [|i]; cbn [nth].
  - rewrite scatter_col_other by exact Hq. now apply nth_set_nth_same.
  - apply IH; auto; try lia.
    eapply Forall_impl; [|exact Hb']. intros p Hp. cbn beta in *. now rewrite set_nth_length.
Qed.

Lemma scatter_col_bytes pos : forall vs bs, byte_list bs -> byte_list vs -> byte_list (scatter_col bs pos vs).
Proof.
  unfold scatter_col. induction pos as [|q ps IH]; intros [|v vs] bs Hb Hv; cbn; auto.
  inversion Hv; subst. apply IH; [|assumption].
  clear - Hb H1. revert q. induction Hb as [|b bs Hb0 Hb IHb]; intros [|q]; cbn; constructor; auto.
Qed.

(* ---------------- records ---------------- *)
Lemma gather_keys r pos : map fst (gather r pos) = map fst r.
Proof. unfold gather. rewrite map_map. reflexivity. Qed.

Lemma scatter_keys r pos v : map fst (scatter r pos v) = map fst r.
Proof. unfold scatter. rewrite map_map. reflexivity. Qed.

Lemma col_get_gather r pos c : In c (map fst r) -> col_get (gather r pos) c = gather_col (col_get r c) pos.
Proof.
  induction r as [|[c' b'] t IH]; cbn; [tauto|]. intros H.
  destruct (String.eqb c' c) eqn:E; [reflexivity|].
  apply IH. destruct H as [->|H]; [|exact H]. now rewrite String.eqb_refl in E.
Qed.

Lemma col_get_absent r c : ~ In c (map fst r) -> col_get r c = [].
Proof.
  induction r as [|[c' b'] t IH]; cbn; [reflexivity|]. intros H.
  destruct (String.eqb c' c) eqn:E; [apply String.eqb_eq in E; subst; tauto|]. apply IH. tauto.
Qed.

Lemma col_get_scatter r pos v c : In c (map fst r) ->
  col_get (scatter r pos v) c = scatter_col (col_get r c) pos (col_get v c).
Proof.
  induction r as [|[c' b'] t IH]; cbn; [tauto|]. intros H.
  destruct (String.eqb c' c) eqn:E; [apply String.eqb_eq in E; now subst|].
  apply IH. destruct H as [->|H]; [|exact H]. now rewrite String.eqb_refl in E.
Qed.

(* reading through positions, for every column name *)
Lemma gather_nth r pos c j : (j < length pos)%nat ->
  nth j (col_get (gather r pos) c) 0 = nth (nth j pos 0%nat) (col_get r c) 0.
Proof.
  intros H. destruct (in_dec string_dec c (map fst r)) as [Hin|Hni].
  - rewrite col_get_gather by exact Hin. now apply gather_col_nth.
  - rewrite (col_get_absent (gather r pos)) by (now rewrite gather_keys). rewrite (col_get_absent r) by exact Hni.
    now destruct j, (nth _ pos 0%nat).
Qed.

Lemma scatter_nth_other r pos v c p : ~ In p pos -> nth p (col_get (scatter r pos v) c) 0 = nth p (col_get r c) 0.
Proof.
  intros H. destruct (in_dec string_dec c (map fst r)) as [Hin|Hni].
  - rewrite col_get_scatter by exact Hin. now apply scatter_col_other.
  - rewrite (col_get_absent (scatter r pos v)) by (now rewrite scatter_keys). now rewrite (col_get_absent r).
Qed.

Lemma rec_len_wf fmt r n : In fmt known_fmts -> rec_wf fmt r n -> rec_len r = n.
Proof.
  intros Hk [K H].
  assert (fmt_cols fmt <> []) as Hne.
  { assert (forallb (fun f => match fmt_cols f with [] => false | _ => true end) known_fmts = true) as T by (vm_compute; reflexivity).
    rewrite forallb_forall in T. specialize (T _ Hk). now destruct (fmt_cols fmt). }
  destruct r as [|[c b] t]; [exfalso; apply Hne; now rewrite <- K|]. inversion H as [|x l Hx Hl]; subst. destruct Hx as [L _]. exact L.
Qed.

Lemma gather_wf fmt r n pos : rec_wf fmt r n -> rec_wf fmt (gather r pos) (length pos).
Proof.
  intros [K H]. split; [now rewrite gather_keys|].
  unfold gather. apply Forall_map. eapply Forall_impl; [|exact H].
  intros [c b] [_ Hb]. cbn [fst snd] in *. split; [apply gather_col_length|now apply gather_col_bytes].
Qed.

Lemma scatter_wf fmt r n pos v k : rec_wf fmt r n -> rec_wf fmt v k -> rec_wf fmt (scatter r pos v) n.
Proof.
  intros [K H] [Kv Hv]. split; [now rewrite scatter_keys|].
  unfold scatter. apply Forall_map. apply Forall_forall. intros [c b] Hin.
  rewrite Forall_forall in H. destruct (H _ Hin) as [L B]. cbn [fst snd] in *.
  split; [now rewrite scatter_col_length|]. apply scatter_col_bytes; [exact B|].
  assert (In c (map fst v)) as Hc by (rewrite Kv, <- K; apply in_map_iff; exists (c, b); auto).
  now destruct (col_get_ok v c k Hv Hc).
Qed.

Lemma rec_len_scatter r pos v : rec_len (scatter r pos v) = rec_len r.
Proof. destruct r as [|[c b] t]; cbn; [reflexivity|]. apply scatter_col_length. Qed.

Lemma gather_seq fmt r n : rec_wf fmt r n -> gather r (seq 0 n) = r.
Proof.
  intros [_ H]. unfold gather. induction H as [|[c b] t [L _] _ IH]; cbn [map]; [reflexivity|].
  cbn [fst snd] in *. rewrite IH. subst n. now rewrite gather_col_seq.
Qed.

(* ---------------- worlds: one operation on one object ---------------- *)
Definition act_res (w : world) (a : nat) (f : Z -> prec -> prec * option err) : prec * option err :=
  f (fst (buf_at w (fst (obj_at w a)))) (obj_read w a).

Lemma apply_obj_cases w a f :
  let k := fst (obj_at w a) in let pos := snd (obj_at w a) in
  let fmt := fst (buf_at w k) in let r := snd (buf_at w k) in
  let res := act_res w a f in
  (rec_len (fst res) = length pos
   /\ apply_obj w a f = ((upd (fst w) k (fmt, scatter r pos (fst res)), snd w), snd res))
  \/ (rec_len (fst res) <> length pos
   /\ apply_obj w a f = ((fst w ++ [(fmt, fst res)], upd (snd w) a (length (fst w), seq 0 (rec_len (fst res)))), snd res)).
Proof.
  cbv zeta. unfold apply_obj, act_res, obj_read.
  destruct (Nat.eqb _ _) eqn:E; [left|right]; (split; [|reflexivity]).
  - now apply Nat.eqb_eq in E.
  - now apply Nat.eqb_neq in E.
Qed.

Lemma wstep_target w o a : wop_target o = Some a -> wstep w o = apply_obj w a (wop_action w o).
Proof. destruct o; cbn [wop_target]; intros E; inversion E; subst; reflexivity. Qed.

(* memory outside the addressed points of the addressed object is not written; formats never change *)
Lemma apply_obj_frame w a f k c p : (k < length (fst w))%nat ->
  k <> fst (obj_at w a) \/ ~ In p (snd (obj_at w a)) ->
  fst (buf_at (fst (apply_obj w a f)) k) = fst (buf_at w k) /\ cell (fst (apply_obj w a f)) k c p = cell w k c p.
Proof.
  intros Hk Hd. destruct (apply_obj_cases w a f) as [[_ ->]|[_ ->]]; cbn [fst snd]; unfold cell, buf_at; cbn [fst snd].
  - destruct (Nat.eq_dec (fst (obj_at w a)) k) as [E|E].
    + rewrite E. rewrite nth_upd_same by exact Hk. cbn [fst snd]. split; [reflexivity|].
      apply scatter_nth_other. destruct Hd as [Hd|Hd]; [congruence|]. exact Hd.
    + now rewrite nth_upd_other by exact E.
  - now rewrite app_nth1 by exact Hk.
Qed.

Lemma apply_obj_others w a f b : b <> a -> obj_at (fst (apply_obj w a f)) b = obj_at w b.
Proof.
  intros Hb. destruct (apply_obj_cases w a f) as [[_ ->]|[_ ->]]; cbn [fst snd]; unfold obj_at; cbn [fst snd]; [reflexivity|].
  apply nth_upd_other. congruence.
Qed.

Lemma wwf_obj w b : wwf w -> (b < length (snd w))%nat ->
  (fst (obj_at w b) < length (fst w))%nat /\ NoDup (snd (obj_at w b))
  /\ Forall (fun i => (i < rec_len (snd (buf_at w (fst (obj_at w b)))))%nat) (snd (obj_at w b)).
Proof. intros [_ H] Hb. rewrite Forall_forall in H. apply H. unfold obj_at. now apply nth_In. Qed.

Lemma wwf_buf w k : wwf w -> (k < length (fst w))%nat ->
  In (fst (buf_at w k)) known_fmts /\ rec_wf (fst (buf_at w k)) (snd (buf_at w k)) (rec_len (snd (buf_at w k))).
Proof. intros [H _] Hk. rewrite Forall_forall in H. apply H. unfold buf_at. now apply nth_In. Qed.

Lemma ocell_cell w b c j : (j < length (snd (obj_at w b)))%nat ->
  ocell w b c j = cell w (fst (obj_at w b)) c (nth j (snd (obj_at w b)) 0%nat).
Proof. intros H. unfold ocell, cell, obj_read. now apply gather_nth. Qed.

(* ISOLATION ACROSS OBJECTS: a point of another object that is not one of the addressed points keeps every packed byte *)
Lemma apply_obj_isolated w a f b c j : wwf w -> (b < length (snd w))%nat -> b <> a ->
  (j < length (snd (obj_at w b)))%nat ->
  fst (obj_at w b) <> fst (obj_at w a) \/ ~ In (nth j (snd (obj_at w b)) 0%nat) (snd (obj_at w a)) ->
  obj_at (fst (apply_obj w a f)) b = obj_at w b /\ ocell (fst (apply_obj w a f)) b c j = ocell w b c j.
Proof.
  intros W Hb Hne Hj Hd. pose proof (apply_obj_others w a f b Hne) as Eo. split; [exact Eo|].
  rewrite !ocell_cell by (rewrite ?Eo; exact Hj). rewrite Eo.
  destruct (wwf_obj w b W Hb) as (Hk & _ & _).
  now apply apply_obj_frame.
Qed.

(* THE TARGET reads exactly what the single-record operation produced, in both cases (written through / new memory) *)
Lemma apply_obj_target w a f c i : wwf w -> (a < length (snd w))%nat ->
  let res := act_res w a f in
  rec_wf (obj_fmt w a) (fst res) (rec_len (fst res)) ->
  length (snd (obj_at (fst (apply_obj w a f)) a)) = rec_len (fst res)
  /\ (In c (fmt_cols (obj_fmt w a)) -> (i < rec_len (fst res))%nat ->
      ocell (fst (apply_obj w a f)) a c i = nth i (col_get (fst res) c) 0).
Proof.
  intros W Ha res Wr. destruct (wwf_obj w a W Ha) as (Hk & Hnd & Hb).
  destruct (wwf_buf w _ W Hk) as (Hkn & [K H]).
  destruct (apply_obj_cases w a f) as [[L E]|[L E]]; fold res in L, E; rewrite E; cbn [fst snd].
  - assert (obj_at (upd (fst w) (fst (obj_at w a)) (fst (buf_at w (fst (obj_at w a))), scatter (snd (buf_at w (fst (obj_at w a)))) (snd (obj_at w a)) (fst res)), snd w) a = obj_at w a) as Eo by reflexivity.
    rewrite Eo. split; [now rewrite L|]. intros Hc Hi.
    rewrite ocell_cell by (rewrite Eo; lia). rewrite Eo. unfold cell, buf_at. cbn [fst snd].
    rewrite nth_upd_same by exact Hk. cbn [snd].
    fold (buf_at w (fst (obj_at w a))).
    rewrite col_get_scatter by (now rewrite K).
    destruct Wr as [Kr Hr]. destruct (col_get_ok (fst res) c _ Hr ltac:(now rewrite Kr)) as [Lr _].
    destruct (col_get_ok (snd (buf_at w (fst (obj_at w a)))) c _ H ltac:(now rewrite K)) as [Lb _].
    apply scatter_col_same; [exact Hnd|lia| |lia].
    rewrite Lb. exact Hb.
  - unfold obj_at at 1 2. cbn [fst snd]. rewrite nth_upd_same by exact Ha. cbn [fst snd].
    split; [apply seq_length|]. intros _ Hi.
    unfold ocell, obj_read, obj_at, buf_at. cbn [fst snd]. rewrite nth_upd_same by exact Ha. cbn [fst snd].
    rewrite app_nth2 by lia. rewrite Nat.sub_diag. cbn [nth snd].
    rewrite gather_nth by (now rewrite seq_length). now rewrite seq_nth.
Qed.

(* WRITTEN THROUGH: where another object addresses the same point of the same memory it reads the new value *)
Lemma apply_obj_seen w a f b c i j : wwf w -> (a < length (snd w))%nat ->
  fst (obj_at w b) = fst (obj_at w a) ->
  (j < length (snd (obj_at w b)))%nat -> (i < length (snd (obj_at w a)))%nat ->
  nth j (snd (obj_at w b)) 0%nat = nth i (snd (obj_at w a)) 0%nat ->
  let res := act_res w a f in
  rec_len (fst res) = length (snd (obj_at w a)) -> rec_wf (obj_fmt w a) (fst res) (rec_len (fst res)) ->
  In c (fmt_cols (obj_fmt w a)) ->
  ocell (fst (apply_obj w a f)) b c j = nth i (col_get (fst res) c) 0.
Proof.
  intros W Ha Ek Hj Hi Ep res L Wr Hc.
  destruct (apply_obj_target w a f c i W Ha Wr) as [_ T]. fold res in T. rewrite <- T by (auto; lia).
  destruct (apply_obj_cases w a f) as [[_ E]|[L' _]]; [|fold res in L'; contradiction].
  assert (forall x, obj_at (fst (apply_obj w a f)) x = obj_at w x) as Eo by (intros x; rewrite E; reflexivity).
  rewrite !ocell_cell by (rewrite Eo; assumption). rewrite !Eo. now rewrite Ek, Ep.
Qed.

(* GROWTH DETACHES: the object gets memory nobody shares; every other object keeps everything *)
Lemma apply_obj_grown w a f b : wwf w -> (a < length (snd w))%nat -> (b < length (snd w))%nat -> b <> a ->
  rec_len (fst (act_res w a f)) <> length (snd (obj_at w a)) ->
  fst (obj_at (fst (apply_obj w a f)) a) = length (fst w)
  /\ obj_at (fst (apply_obj w a f)) b = obj_at w b /\ obj_read (fst (apply_obj w a f)) b = obj_read w b.
Proof.
  intros W Ha Hb Hne L. pose proof (apply_obj_others w a f b Hne) as Eo.
  destruct (apply_obj_cases w a f) as [[L' _]|[_ E]]; [contradiction|].
  split; [|split; [exact Eo|]].
  - rewrite E. unfold obj_at. cbn [fst snd]. now rewrite nth_upd_same by exact Ha.
  - unfold obj_read. rewrite Eo. f_equal. f_equal. rewrite E. unfold buf_at. cbn [fst snd].
    apply app_nth1. now destruct (wwf_obj w b W Hb).
Qed.

(* ---------------- creating an object changes no existing object ---------------- *)
Lemma ext_preserves (w w' : world) bl ol b : fst w' = fst w ++ bl -> snd w' = snd w ++ ol -> wwf w -> (b < length (snd w))%nat ->
  obj_at w' b = obj_at w b /\ obj_read w' b = obj_read w b.
Proof.
  intros Eb Eo W Hb. assert (obj_at w' b = obj_at w b) as E by (unfold obj_at; rewrite Eo; now apply app_nth1).
  split; [exact E|]. unfold obj_read. rewrite E. f_equal. f_equal. unfold buf_at. rewrite Eb.
  apply app_nth1. now destruct (wwf_obj w b W Hb).
Qed.

Lemma wstep_create w o b : wop_target o = None -> wwf w -> (b < length (snd w))%nat ->
  obj_at (fst (wstep w o)) b = obj_at w b /\ obj_read (fst (wstep w o)) b = obj_read w b.
Proof.
  intros T W Hb. destruct o as [fmt r|a chain|a idx|a fmt' plain|a o|a s plain]; cbn in T; try discriminate; cbn [wstep].
  - eapply ext_preserves; eauto; reflexivity.
  - eapply (ext_preserves w _ [] _ b); auto; cbn [fst snd]; [now rewrite app_nil_r|reflexivity].
  - eapply ext_preserves; eauto; reflexivity.
  - destruct (snd (step fmt' _ _)); [auto|]. eapply ext_preserves; eauto; reflexivity.
Qed.

(* a record with memory of its own: its memory is new (no existing object addresses it) *)
Lemma wstep_fresh w o : snd (wstep w o) = None ->
  match o with
  | WNew _ _ | WGather _ _ | WConv _ _ _ =>
    length (snd (fst (wstep w o))) = S (length (snd w)) /\ fst (obj_at (fst (wstep w o)) (length (snd w))) = length (fst w)
  | WSlice a chain =>
    obj_at (fst (wstep w o)) (length (snd w)) = (fst (obj_at w a), view_sub (snd (obj_at w a)) (view_chain (length (snd (obj_at w a))) chain))
  | _ => True
  end.
Proof.
  intros E. destruct o as [fmt r|a chain|a idx|a fmt' plain|a o|a s plain]; cbn [wstep] in *; auto.
  - cbn [fst snd]. rewrite app_length. cbn [length]. split; [lia|]. unfold obj_at. cbn [snd]. rewrite app_nth2 by lia. now rewrite Nat.sub_diag.
  - unfold obj_at at 1. cbn [fst snd]. rewrite app_nth2 by lia. now rewrite Nat.sub_diag.
  - cbn [fst snd]. rewrite app_length. cbn [length]. split; [lia|]. unfold obj_at. cbn [snd]. rewrite app_nth2 by lia. now rewrite Nat.sub_diag.
  - destruct (snd (step fmt' _ _)) eqn:S; [discriminate|].
    cbn [fst snd]. rewrite app_length. cbn [length]. split; [lia|]. unfold obj_at. cbn [snd]. rewrite app_nth2 by lia. now rewrite Nat.sub_diag.
Qed.

(* ---------------- worlds stay well formed ---------------- *)
Definition bcond (b : wbuf) : Prop := In (fst b) known_fmts /\ rec_wf (fst b) (snd b) (rec_len (snd b)).
Definition ocond (bufs : list wbuf) (o : wobj) : Prop :=
  (fst o < length bufs)%nat /\ NoDup (snd o) /\ Forall (fun i => (i < rec_len (snd (nth (fst o) bufs ((0%Z, []) : wbuf))))%nat) (snd o).

Lemma wwf_unfold w : wwf w <-> Forall bcond (fst w) /\ Forall (ocond (fst w)) (snd w).
Proof. reflexivity. Qed.

Lemma Forall_upd {A} (P : A -> Prop) l i x : Forall P l -> P x -> Forall P (upd l i x).
Proof. intros H Hx. revert i. induction H as [|a l Ha Hl IH]; intros [|i]; cbn; constructor; auto. Qed.

Lemma ocond_mono bufs bufs' o : ocond bufs o ->
  ((fst o < length bufs)%nat -> (fst o < length bufs')%nat
     /\ rec_len (snd (nth (fst o) bufs' ((0%Z, []) : wbuf))) = rec_len (snd (nth (fst o) bufs ((0%Z, []) : wbuf)))) ->
  ocond bufs' o.
Proof. intros (A & B & C) H. destruct (H A) as [A' E]. repeat split; auto. now rewrite E. Qed.

Lemma ocond_push bufs x o : ocond bufs o -> ocond (bufs ++ [x]) o.
Proof. intros H. apply (ocond_mono bufs); [exact H|]. intros L. rewrite app_length, app_nth1 by exact L. cbn. split; [lia|reflexivity]. Qed.

Lemma ocond_fresh bufs (x : wbuf) : ocond (bufs ++ [x]) (length bufs, seq 0 (rec_len (snd x))).
Proof.
  unfold ocond. cbn [fst snd]. rewrite app_length. cbn [length]. split; [lia|]. split; [apply seq_NoDup|].
  rewrite app_nth2 by lia. rewrite Nat.sub_diag. cbn [nth]. apply Forall_forall. intros i Hi. apply in_seq in Hi. lia.
Qed.

Lemma wwf_push w fmt r : wwf w -> In fmt known_fmts -> rec_wf fmt r (rec_len r) ->
  wwf (fst w ++ [(fmt, r)], snd w ++ [(length (fst w), seq 0 (rec_len r))]).
Proof.
  intros W Hk Hr. apply wwf_unfold in W as [B O]. apply wwf_unfold. cbn [fst snd]. split.
  - apply Forall_app. split; [exact B|]. constructor; [|constructor]. split; assumption.
  - apply Forall_app. split.
    + eapply Forall_impl; [|exact O]. intros o. apply ocond_push.
    + constructor; [|constructor]. apply (ocond_fresh (fst w) (fmt, r)).
Qed.

Lemma step_res_wf fmt g n o : In fmt known_fmts -> rec_wf fmt g n ->
  rec_wf fmt (fst (step fmt g o)) (rec_len (fst (step fmt g o))) /\ (n <= rec_len (fst (step fmt g o)))%nat.
Proof.
  intros Hk W. destruct (step_wf fmt g n o W) as (k & Hn & Wk).
  rewrite (rec_len_wf fmt _ k Hk Wk). split; [exact Wk|exact Hn].
Qed.

Lemma zero_rec_wf fmt n : rec_wf fmt (zero_rec fmt n) n.
Proof.
  split; [unfold zero_rec; rewrite map_map; apply map_id|].
  unfold zero_rec. apply Forall_map. apply Forall_forall. intros c _. cbn [fst snd].
  split; [apply repeat_length|]. apply Forall_forall. intros x Hx. apply repeat_spec in Hx. lia.
Qed.

Lemma act_wf w a o : wwf w -> (a < length (snd w))%nat ->
  let res := act_res w a (wop_action w o) in
  rec_wf (obj_fmt w a) (fst res) (rec_len (fst res)) /\ (length (snd (obj_at w a)) <= rec_len (fst res))%nat.
Proof.
  intros W Ha. destruct (wwf_obj w a W Ha) as (Hk & _ & _). destruct (wwf_buf w _ W Hk) as (Hkn & Wb).
  pose proof (gather_wf _ _ _ (snd (obj_at w a)) Wb) as Wg. fold (obj_read w a) in Wg.
  unfold act_res, obj_fmt.
  destruct o as [fmt r|a' chain|a' idx|a' fmt' plain|a' o|a' s plain]; cbn [wop_action fst];
    try (split; [now rewrite (rec_len_wf _ _ _ Hkn Wg)|rewrite (rec_len_wf _ _ _ Hkn Wg); lia]);
    now apply step_res_wf.
Qed.

Lemma apply_obj_wf w a o : wwf w -> (a < length (snd w))%nat -> wwf (fst (apply_obj w a (wop_action w o))).
Proof.
  intros W Ha. destruct (act_wf w a o W Ha) as [Wr _].
  destruct (wwf_obj w a W Ha) as (Hk & _ & _). destruct (wwf_buf w _ W Hk) as (Hkn & Wb).
  pose proof W as W0. apply wwf_unfold in W as [B O].
  destruct (apply_obj_cases w a (wop_action w o)) as [[L E]|[L E]]; rewrite E; cbn [fst]; apply wwf_unfold; cbn [fst snd].
  - split.
    + apply Forall_upd; [exact B|]. split; cbn [fst snd]; [exact Hkn|]. rewrite rec_len_scatter. eapply scatter_wf; eauto.
    + eapply Forall_impl; [|exact O]. intros ob Hob. apply (ocond_mono (fst w)); [exact Hob|]. intros Lo.
      rewrite upd_length. split; [exact Lo|].
      destruct (Nat.eq_dec (fst (obj_at w a)) (fst ob)) as [Ek|Ek].
      * rewrite <- Ek. rewrite nth_upd_same by exact Hk. cbn [snd]. apply rec_len_scatter.
      * now rewrite nth_upd_other by exact Ek.
  - split.
    + apply Forall_app. split; [exact B|]. constructor; [|constructor]. split; cbn [fst snd]; assumption.
    + apply Forall_upd.
      * eapply Forall_impl; [|exact O]. intros ob. apply ocond_push.
      * apply (ocond_fresh (fst w) (fst (buf_at w (fst (obj_at w a))), fst (act_res w a (wop_action w o)))).
Qed.

Lemma wstep_wf w o : wwf w -> wop_ok w o -> wwf (fst (wstep w o)).
Proof.
  intros W Hok. destruct o as [fmt r|a chain|a idx|a fmt' plain|a o|a s plain]; cbn [wop_ok] in Hok.
  - destruct Hok as [Hk Hr]. cbn [wstep fst]. now apply wwf_push.
  - destruct Hok as [Ha Hc]. cbn [wstep fst]. destruct (wwf_obj w a W Ha) as (Hk & Hnd & Hb).
    apply wwf_unfold in W as [B O]. apply wwf_unfold. cbn [fst snd]. split; [exact B|].
    apply Forall_app. split; [exact O|]. constructor; [|constructor].
    destruct (view_chain_spec _ _ Hc) as [Cn Cl].
    unfold ocond. cbn [fst snd]. split; [exact Hk|]. split; [now apply view_sub_nodup|].
    apply Forall_forall. intros x Hx. apply (view_sub_incl _ _ Cl) in Hx. rewrite Forall_forall in Hb. now apply Hb.
  - destruct Hok as [Ha Hi]. cbn [wstep fst]. destruct (wwf_obj w a W Ha) as (Hk & _ & _). destruct (wwf_buf w _ W Hk) as (Hkn & Wb).
    pose proof (gather_wf _ _ _ (view_sub (snd (obj_at w a)) idx) Wb) as Wg.
    assert (length (view_sub (snd (obj_at w a)) idx) = length idx) as Lv by (unfold view_sub; apply map_length).
    rewrite Lv in Wg. pose proof (rec_len_wf _ _ _ Hkn Wg) as Lr.
    cbv zeta. rewrite <- Lr. apply wwf_push; [exact W|exact Hkn|now rewrite Lr].
  - destruct Hok as [Ha Hk']. cbn [wstep].
    destruct (step_res_wf fmt' (zero_rec fmt' (length (snd (obj_at w a)))) _ (OCopy (obj_fmt w a) (obj_read w a) plain) Hk' (zero_rec_wf _ _)) as [Wr _].
    destruct (snd (step fmt' _ _)); cbn [fst]; [exact W|]. now apply wwf_push.
  - cbn [wstep]. now apply (apply_obj_wf w a (WAssign a o)).
  - cbn [wstep]. now apply (apply_obj_wf w a (WCopyFrom a s plain)).
Qed.

Lemma wrun_wf : forall ops w, wwf w -> wrun_ok w ops -> Forall (fun s => wwf (fst s)) (wrun w ops).
Proof.
  induction ops as [|o t IH]; intros w W Hok; cbn [wrun]; constructor.
  - apply wstep_wf; [exact W|apply Hok].
  - apply IH; [apply wstep_wf; [exact W|apply Hok]|apply Hok].
Qed.

(* ---------------- the statements of Props/C09.v about worlds ---------------- *)
Lemma act_assign w a o : act_res w a (wop_action w (WAssign a o)) = step (obj_fmt w a) (obj_read w a) o.
Proof. reflexivity. Qed.

Lemma act_copy_from w a s plain :
  act_res w a (wop_action w (WCopyFrom a s plain)) = step (obj_fmt w a) (obj_read w a) (OCopy (obj_fmt w s) (obj_read w s) plain).
Proof. reflexivity. Qed.

Lemma world_memory_frame w o a k c p : wop_target o = Some a -> (k < length (fst w))%nat ->
  k <> fst (obj_at w a) \/ ~ In p (snd (obj_at w a)) ->
  fst (buf_at (fst (wstep w o)) k) = fst (buf_at w k) /\ cell (fst (wstep w o)) k c p = cell w k c p.
Proof. intros T. rewrite (wstep_target w o a T). apply apply_obj_frame. Qed.

Lemma world_isolated w o a b c j : wop_target o = Some a -> wwf w -> (b < length (snd w))%nat -> b <> a ->
  (j < length (snd (obj_at w b)))%nat ->
  fst (obj_at w b) <> fst (obj_at w a) \/ ~ In (nth j (snd (obj_at w b)) 0%nat) (snd (obj_at w a)) ->
  obj_at (fst (wstep w o)) b = obj_at w b /\ ocell (fst (wstep w o)) b c j = ocell w b c j.
Proof. intros T. rewrite (wstep_target w o a T). apply apply_obj_isolated. Qed.

Lemma world_target w o a : wop_target o = Some a -> wwf w -> (a < length (snd w))%nat ->
  let res := act_res w a (wop_action w o) in
  snd (wstep w o) = snd res
  /\ rec_wf (obj_fmt w a) (fst res) (rec_len (fst res))
  /\ (length (snd (obj_at w a)) <= rec_len (fst res))%nat
  /\ length (snd (obj_at (fst (wstep w o)) a)) = rec_len (fst res)
  /\ (forall c i, In c (fmt_cols (obj_fmt w a)) -> (i < rec_len (fst res))%nat ->
        ocell (fst (wstep w o)) a c i = nth i (col_get (fst res) c) 0).
Proof.
  intros T W Ha res. rewrite (wstep_target w o a T).
  destruct (act_wf w a o W Ha) as [Wr Lr]. fold res in Wr, Lr.
  split. { destruct (apply_obj_cases w a (wop_action w o)) as [[_ ->]|[_ ->]]; reflexivity. }
  split; [exact Wr|]. split; [exact Lr|].
  split. { now destruct (apply_obj_target w a (wop_action w o) EmptyString 0%nat W Ha Wr). }
  intros c i. now destruct (apply_obj_target w a (wop_action w o) c i W Ha Wr).
Qed.

Lemma world_seen w o a b c i j : wop_target o = Some a -> wwf w -> (a < length (snd w))%nat ->
  fst (obj_at w b) = fst (obj_at w a) ->
  (j < length (snd (obj_at w b)))%nat -> (i < length (snd (obj_at w a)))%nat ->
  nth j (snd (obj_at w b)) 0%nat = nth i (snd (obj_at w a)) 0%nat ->
  let res := act_res w a (wop_action w o) in
  rec_len (fst res) = length (snd (obj_at w a)) -> In c (fmt_cols (obj_fmt w a)) ->
  ocell (fst (wstep w o)) b c j = nth i (col_get (fst res) c) 0.
Proof.
  intros T W Ha Ek Hj Hi Ep res L Hc. rewrite (wstep_target w o a T).
  destruct (act_wf w a o W Ha) as [Wr _]. now apply apply_obj_seen.
Qed.

Lemma world_grown w o a b : wop_target o = Some a -> wwf w -> (a < length (snd w))%nat -> (b < length (snd w))%nat -> b <> a ->
  rec_len (fst (act_res w a (wop_action w o))) <> length (snd (obj_at w a)) ->
  fst (obj_at (fst (wstep w o)) a) = length (fst w)
  /\ obj_at (fst (wstep w o)) b = obj_at w b /\ obj_read (fst (wstep w o)) b = obj_read w b.
Proof. intros T. rewrite (wstep_target w o a T). apply apply_obj_grown. Qed.


(* ======================= round 5: READ ROUTES — every route reads the field's values, not the packed bytes ======================= *)
Lemma nth_ext_Z (l l' : list Z) : length l = length l' -> (forall j, (j < length l)%nat -> nth j l 0 = nth j l' 0) -> l = l'.
Proof. intros Hl H. apply (nth_ext l l' 0 0 Hl). exact H. Qed.

Lemma nth_map_Z (f : Z -> Z) l j : (j < length l)%nat -> nth j (map f l) 0 = f (nth j l 0).
Proof. intros H. rewrite (nth_indep _ 0 (f 0)) by now rewrite map_length. apply map_nth. Qed.

Lemma nth_map_seq (g : nat -> Z) n j : (j < n)%nat -> nth j (map g (seq 0 n)) 0 = g j.
Proof.
  intros H. rewrite (nth_indep _ 0 (g 0%nat)) by now rewrite map_length, seq_length.
  rewrite map_nth, seq_nth by exact H. reflexivity.
Qed.

Lemma max_255_true :
  forallb (fun e : Z * string * string * Z => let '(_, _, _, m) := e in sf_max m <? 256) all_sub_fields = true.
Proof. vm_compute. reflexivity. Qed.

Lemma sf_get_byte fmt name c m b : In (fmt, name, c, m) all_sub_fields -> 0 <= b < 256 -> 0 <= sf_get m b < 256.
Proof.
  intros Hin Hb. pose proof (sf_get_le _ _ _ _ _ Hin Hb) as L.
  pose proof max_255_true as S. rewrite forallb_forall in S. specialize (S _ Hin). cbn beta iota in S. lia.
Qed.

Lemma last_val_cons p sel j d : last_val (p :: sel) j d = last_val sel j (if Nat.eqb (fst p) j then snd p else d).
Proof. reflexivity. Qed.

Lemma last_val_untouched sel j : forall d, (forall p, In p sel -> fst p <> j) -> last_val sel j d = d.
Proof.
  induction sel as [|p sel IH]; intros d H; [reflexivity|]. rewrite last_val_cons.
  assert (Nat.eqb (fst p) j = false) as -> by (apply Nat.eqb_neq, H; now left).
  apply IH. intros q Hq. apply H. now right.
Qed.

Lemma last_val_last sel1 p sel2 d : (forall q, In q sel2 -> fst q <> fst p) -> last_val (sel1 ++ p :: sel2) (fst p) d = snd p.
Proof.
  intros H. unfold last_val. rewrite fold_left_app. cbn [fold_left]. rewrite Nat.eqb_refl.
  now apply (last_val_untouched sel2 (fst p) (snd p)).
Qed.

(* the field's value at EVERY point after an index expression (repetitions allowed): the last value assigned to the
   point, the old value where the expression does not address it *)
Lemma fold_get_last fmt name c m sel : In (fmt, name, c, m) all_sub_fields ->
  forall bs j, (forall p, In p sel -> 0 <= snd p <= sf_max m) -> byte_list bs -> (j < length bs)%nat ->
  sf_get m (nth j (arr_fold m sel bs) 0) = last_val sel j (sf_get m (nth j bs 0)).
Proof.
  intros Hin. induction sel as [|p sel IH]; intros bs j Hv Hb Hj; [reflexivity|].
  cbn [fold_left]. rewrite last_val_cons.
  set (bs1 := set_nth bs (fst p) (sf_put m (nth (fst p) bs 0) (snd p))).
  assert (0 <= snd p <= sf_max m) as Hp by (apply Hv; now left).
  assert (byte_list bs1) as Hb1.
  { assert (forall q, In q [p] -> 0 <= snd q <= sf_max m) as H1 by (intros q [<-|[]]; exact Hp).
    pose proof (fold_outside_mask fmt name c m [p] Hin bs 0%nat H1 Hb) as (A & _). exact A. }
  rewrite IH; [|intros q Hq; apply Hv; now right|exact Hb1|unfold bs1; now rewrite set_nth_length].
  f_equal.
  destruct (Nat.eqb (fst p) j) eqn:E.
  - apply Nat.eqb_eq in E. subst j. unfold bs1. rewrite nth_set_nth_same by exact Hj.
    assert (0 <= nth (fst p) bs 0 < 256) as Hn by (rewrite Forall_forall in Hb; apply Hb, nth_In; exact Hj).
    now destruct (sf_set_get fmt name c m _ _ Hin Hn Hp) as (_ & Hg & _).
  - apply Nat.eqb_neq in E. unfold bs1. now rewrite nth_set_nth_other.
Qed.

(* ISOLATED: whatever is assigned to a field, every route of every sibling sharing the byte reads what it read before *)
Lemma routes_isolated fmt name c m sel : In (fmt, name, c, m) all_sub_fields ->
  forall bs, (forall p, In p sel -> 0 <= snd p <= sf_max m) -> byte_list bs ->
  forall m' ro, In m' (siblings fmt c m) -> sf_route m' (arr_fold m sel bs) ro = sf_route m' bs ro.
Proof.
  intros Hin bs Hv Hb m' ro Hm'. unfold sf_route. f_equal.
  apply nth_ext_Z; [now rewrite !map_length, fold_length|].
  intros j Hj. rewrite map_length, fold_length in Hj.
  rewrite !nth_map_Z by (try rewrite fold_length; exact Hj).
  destruct (fold_outside_mask fmt name c m sel Hin bs j Hv Hb) as (_ & _ & S). now apply S.
Qed.

(* EXACT: every route of the assigned field reads the assigned values (and nothing of the prior bytes but the old
   values of the points the expression does not address) *)
Lemma routes_read_back fmt name c m sel : In (fmt, name, c, m) all_sub_fields ->
  forall bs, (forall p, In p sel -> 0 <= snd p <= sf_max m) -> byte_list bs ->
  forall ro, sf_route m (arr_fold m sel bs) ro
             = route_vals ro (map (fun j => last_val sel j (sf_get m (nth j bs 0))) (seq 0 (length bs))).
Proof.
  intros Hin bs Hv Hb ro. unfold sf_route. f_equal.
  apply nth_ext_Z; [now rewrite !map_length, fold_length, seq_length|].
  intros j Hj. rewrite map_length, fold_length in Hj.
  rewrite nth_map_Z by (rewrite fold_length; exact Hj). rewrite nth_map_seq by exact Hj.
  now apply (fold_get_last fmt name c).
Qed.

(* the same through the record: rec[name][s1]..[sk][key] = value *)
Lemma view_assign_eq fmt name c m : In (fmt, name, c, m) all_sub_fields ->
  forall bs vpos sel, (forall p, In p sel -> 0 <= snd p <= sf_max m /\ (fst p < length vpos)%nat) ->
  sf_assign_view m bs vpos sel = Ok (arr_fold m (through vpos sel) bs).
Proof.
  intros Hin bs vpos sel Hsel.
  assert (forall q, In q (through vpos sel) -> 0 <= snd q <= sf_max m) as Hv'.
  { intros q Hq. unfold through in Hq. apply in_map_iff in Hq as (p & <- & Hp). cbn. now apply Hsel. }
  unfold sf_assign_view.
  destruct (existsb _ sel) eqn:E.
  { apply existsb_exists in E as (q & Hq & Ho). destruct (Hsel _ Hq) as [R _]. unfold oob in Ho. lia. }
  assert (forallb (fun p => Nat.ltb (fst p) (length vpos)) sel = true) as ->.
  { apply forallb_forall. intros p Hp. apply Nat.ltb_lt. now apply Hsel. }
  cbn. unfold sf_assign_arr. fold (through vpos sel).
  destruct (existsb _ (through vpos sel)) eqn:E'; [|reflexivity].
  apply existsb_exists in E' as (q & Hq & Ho). specialize (Hv' _ Hq). lia.
Qed.

Lemma routes_view fmt r n name c m chain sel :
  rec_wf fmt r n -> find_sf fmt name = Some (c, m) -> chain_ok n chain ->
  let vpos := view_chain n chain in
  (forall p, In p sel -> 0 <= snd p <= sf_max m /\ (fst p < length vpos)%nat) ->
  exists r', rec_assign_view fmt r name chain sel = Ok r'
  /\ (forall name' c' m' ro, name' <> name -> find_sf fmt name' = Some (c', m') ->
        rec_route fmt r' name' ro = rec_route fmt r name' ro)
  /\ (forall ro, rec_route fmt r' name ro
        = route_vals ro (map (fun j => last_val (through vpos sel) j (sf_get m (nth j (col_get r c) 0))) (seq 0 n))).
Proof.
  intros W F Hch vpos Hsel.
  destruct (assign_view_spec fmt r n name c m chain sel W F Hch Hsel) as (r' & E & _ & Oth & _).
  exists r'. split; [exact E|]. split.
  { intros name' c' m' ro Hne F'. unfold rec_route. now rewrite (Oth name' c' m' Hne F'). }
  pose proof W as [K H].
  assert (In c (map fst r)) as Hc by (rewrite K; eapply find_sf_col; eauto).
  destruct (col_get_ok r c n H Hc) as [Hl Hb].
  pose proof (find_sf_in _ _ _ _ F) as Hin.
  assert (forall q, In q (through vpos sel) -> 0 <= snd q <= sf_max m) as Hv'.
  { intros q Hq. unfold through in Hq. apply in_map_iff in Hq as (p & <- & Hp). cbn. now apply Hsel. }
  unfold rec_assign_view in E. rewrite F in E. cbv zeta in E. rewrite Hl in E. fold vpos in E.
  rewrite (view_assign_eq fmt name c m Hin (col_get r c) vpos sel Hsel) in E. injection E as <-.
  intros ro. unfold rec_route, rec_read. rewrite F. rewrite col_get_set_same by exact Hc.
  pose proof (routes_read_back fmt name c m (through vpos sel) Hin (col_get r c) Hv' Hb ro) as R.
  unfold sf_route in R. rewrite Hl in R. exact R.
Qed.

(* rec[name] = vs (growth, broadcast): every route of the field reads the assigned values, every route of another
   sub-field reads its old values followed by zeros for the appended points *)
Lemma routes_seq fmt r n name c m vs r' :
  rec_wf fmt r n -> find_sf fmt name = Some (c, m) -> vs <> [] -> rec_assign_seq fmt r name vs = Ok r' ->
  let k := Nat.max n (length vs) in
  (forall ro, rec_route fmt r' name ro = route_vals ro (seq_values vs k))
  /\ (forall name' c' m' ro, name' <> name -> find_sf fmt name' = Some (c', m') ->
        rec_route fmt r' name' ro = route_vals ro (grow (map (sf_get m') (col_get r c')) k)).
Proof.
  intros W F Hne E k.
  destruct (assign_seq_spec fmt r n name c m vs r' W F Hne E) as (_ & _ & Rd & Oth & _).
  split.
  - intros ro. unfold rec_route. fold k in Rd. now rewrite Rd.
  - intros name' c' m' ro Hd F'. unfold rec_route. fold k in Oth. now rewrite (Oth name' c' m' Hd F').
Qed.

(* the conversions numpy applies to the unpacked values are exact on every sub-field: any integer type of at least
   16 bits and any unsigned type holds the value itself; bool is "the value is not zero" - the flag itself for a
   one-bit field *)
Lemma routes_dtype_exact fmt name c m b : In (fmt, name, c, m) all_sub_fields -> 0 <= b < 256 ->
  (forall bits signed, 16 <= bits \/ (8 <= bits /\ signed = false) -> wrap_int bits signed (sf_get m b) = sf_get m b)
  /\ (as_bool (sf_get m b) = 0 <-> sf_get m b = 0)
  /\ (sf_max m = 1 -> as_bool (sf_get m b) = sf_get m b).
Proof.
  intros Hin Hb. pose proof (sf_get_byte _ _ _ _ _ Hin Hb) as Hv. pose proof (sf_get_le _ _ _ _ _ Hin Hb) as Hm.
  set (v := sf_get m b) in *. split; [|split].
  - intros bits signed Hbits. unfold wrap_int.
    assert (2 ^ 8 <= 2 ^ bits) as P8 by (apply Z.pow_le_mono_r; lia). change (2 ^ 8) with 256 in P8.
    rewrite Z.mod_small by lia.
    destruct signed; cbn [andb]; [|reflexivity].
    destruct Hbits as [H16|[_ Hf]]; [|discriminate].
    assert (2 ^ 15 <= 2 ^ (bits - 1)) as P15 by (apply Z.pow_le_mono_r; lia). change (2 ^ 15) with 32768 in P15.
    destruct (2 ^ (bits - 1) <=? v) eqn:L; [lia|reflexivity].
  - unfold as_bool. destruct (v =? 0) eqn:Z0; split; intros; try lia.
  - intros M1. unfold as_bool. destruct (v =? 0) eqn:Z0; lia.
Qed.

(* the extremes a route reports are values of the field, and bound all of them *)
Lemma fold_max_spec t : forall v, let x := fold_left Z.max t v in (x = v \/ In x t) /\ v <= x /\ Forall (fun y => y <= x) t.
Proof.
  induction t as [|a t IH]; intros v; cbn [fold_left].
  - split; [now left|]. split; [lia|constructor].
  - destruct (IH (Z.max v a)) as (A & B & C). set (x := fold_left Z.max t (Z.max v a)) in *. cbv zeta.
    split. { destruct A as [A|A]; [|right; now right]. destruct (Z.max_spec v a) as [[_ M]|[_ M]]; rewrite M in A; [right; now left|now left]. }
    split; [lia|]. constructor; [lia|exact C].
Qed.

Lemma fold_min_spec t : forall v, let x := fold_left Z.min t v in (x = v \/ In x t) /\ x <= v /\ Forall (fun y => x <= y) t.
Proof.
  induction t as [|a t IH]; intros v; cbn [fold_left].
  - split; [now left|]. split; [lia|constructor].
  - destruct (IH (Z.min v a)) as (A & B & C). set (x := fold_left Z.min t (Z.min v a)) in *. cbv zeta.
    split. { destruct A as [A|A]; [|right; now right]. destruct (Z.min_spec v a) as [[_ M]|[_ M]]; rewrite M in A; [now left|right; now left]. }
    split; [lia|]. constructor; [lia|exact C].
Qed.

Lemma routes_extremes vs :
  (forall x, route_vals RMax vs = Some [x] -> In x vs /\ Forall (fun y => y <= x) vs)
  /\ (forall x, route_vals RMin vs = Some [x] -> In x vs /\ Forall (fun y => x <= y) vs)
  /\ (vs <> [] -> exists x y, route_vals RMax vs = Some [x] /\ route_vals RMin vs = Some [y]).
Proof.
  destruct vs as [|v t].
  - split; [intros x H; discriminate|]. split; [intros x H; discriminate|]. intros H. now destruct H.
  - cbn [route_vals list_max list_min option_map]. split; [|split].
    + intros x H. injection H as <-. destruct (fold_max_spec t v) as (A & B & C).
      split; [destruct A as [->|A]; [now left|now right]|]. constructor; assumption.
    + intros x H. injection H as <-. destruct (fold_min_spec t v) as (A & B & C).
      split; [destruct A as [->|A]; [now left|now right]|]. constructor; assumption.
    + intros _. eexists. eexists. split; reflexivity.
Qed.

(* membership in the table of sub-fields, decided by computation (for the non-vacuity example) *)
Lemma entry_eqb_eq e1 e2 : entry_eqb e1 e2 = true -> e1 = e2.
Proof.
  destruct e1 as [[[f1 n1] c1] m1], e2 as [[[f2 n2] c2] m2]. cbn [entry_eqb]. intros H.
  apply andb_true_iff in H as [H Hm]. apply andb_true_iff in H as [H Hc]. apply andb_true_iff in H as [Hf Hn].
  apply Z.eqb_eq in Hf, Hm. apply String.eqb_eq in Hn, Hc. now subst.
Qed.

Lemma entry_mem x : existsb (entry_eqb x) all_sub_fields = true -> In x all_sub_fields.
Proof. intros H. apply existsb_exists in H as (y & Hy & E). apply entry_eqb_eq in E. now subst. Qed.

(* ======================= round 6: layouts — the name lookup on a record that has other fields ======================= *)
(* the alias table sends every alias to the name it stands for (no key twice), and no sub-field name is itself an alias *)
Definition alias_ok : bool :=
  forallb (fun p => String.eqb (canon (fst p)) (snd p)) old_names
  && forallb (fun e => let '(_, n, _, _) := e in String.eqb (canon n) n) all_sub_fields.
Lemma alias_ok_true : alias_ok = true.
Proof. vm_compute. reflexivity. Qed.

Lemma canon_alias a n : In (a, n) old_names -> canon a = n.
Proof.
  intros H. pose proof alias_ok_true as T. unfold alias_ok in T. apply andb_true_iff in T as [T _].
  rewrite forallb_forall in T. specialize (T _ H). simpl in T. now apply String.eqb_eq in T.
Qed.

Lemma canon_sub_field fmt n c m : In (fmt, n, c, m) all_sub_fields -> canon n = n.
Proof.
  intros H. pose proof alias_ok_true as T. unfold alias_ok in T. apply andb_true_iff in T as [_ T].
  rewrite forallb_forall in T. specialize (T _ H). simpl in T. now apply String.eqb_eq in T.
Qed.

(* the sub-field table is asked first: whatever fields the array has (also one of that very name) *)
Lemma resolve_sub_field_first fmt fields name c m :
  find_sf fmt (canon name) = Some (c, m) -> resolve fmt fields name = TSub c m.
Proof. intros F. unfold resolve. now rewrite F. Qed.

Lemma resolve_every_layout fmt fields name :
  In fmt known_fmts -> In name (fmt_names fmt) ->
  exists c m, find_sf fmt name = Some (c, m)
              /\ resolve fmt fields name = TSub c m
              /\ (forall alias, In (alias, name) old_names -> resolve fmt fields alias = TSub c m).
Proof.
  intros Hf Hn. destruct (fmt_names_found fmt name Hf Hn) as (c & m & F). exists c, m.
  pose proof (canon_sub_field _ _ _ _ (find_sf_in _ _ _ _ F)) as Hc.
  split; [exact F|]. split.
  - apply resolve_sub_field_first. now rewrite Hc.
  - intros a Ha. apply resolve_sub_field_first. now rewrite (canon_alias _ _ Ha).
Qed.

(* only a name that is not a sub-field of the format reaches the fields of the array *)
Lemma resolve_field fmt fields name n : resolve fmt fields name = TField n ->
  find_sf fmt (canon name) = None /\ n = canon name /\ In n fields.
Proof.
  unfold resolve. destruct (find_sf fmt (canon name)) as [[c m]|]; [discriminate|].
  destruct (existsb _ fields) eqn:E; [|discriminate]. intros [= <-]. split; [reflexivity|]. split; [reflexivity|].
  apply existsb_exists in E as (y & Hy & E). apply String.eqb_eq in E. now subst.
Qed.

(* reading by a sub-field name: the bits of the packed byte, on every layout *)
Lemma xread_sub_field fmt x name c m :
  find_sf fmt (canon name) = Some (c, m) -> xread fmt x name = rec_read fmt (fst x) (canon name).
Proof.
  intros F. unfold xread. rewrite (resolve_sub_field_first _ _ _ _ _ F). unfold rec_read. now rewrite F.
Qed.

(* assigning by a sub-field name: the packed columns are assigned exactly as on the layout without other fields
   (so every theorem about rec_assign_seq speaks about every layout), and the other fields keep what they store -
   they only follow the growth of the record by zero points; a refused assignment produces nothing *)
Lemma xassign_sub_field fmt x name c m vs :
  find_sf fmt (canon name) = Some (c, m) ->
  xassign_sub fmt x name vs
  = Some (match rec_assign_seq fmt (fst x) (canon name) vs with
          | Ok r' => Ok (r', rec_grow (snd x) (rec_len r'))
          | Err e => Err e
          end).
Proof. intros F. unfold xassign_sub. now rewrite (resolve_sub_field_first _ _ _ _ _ F). Qed.

Lemma xassign_fields_kept fmt x name vs x' :
  xassign_sub fmt x name vs = Some (Ok x') ->
  rec_assign_seq fmt (fst x) (canon name) vs = Ok (fst x')
  /\ map fst (snd x') = map fst (snd x)
  /\ (forall f, In f (map fst (snd x)) -> col_get (snd x') f = grow (col_get (snd x) f) (rec_len (fst x'))).
Proof.
  unfold xassign_sub. destruct (resolve fmt (xfields x) name); try discriminate.
  destruct (rec_assign_seq fmt (fst x) (canon name) vs) as [r'|e] eqn:E; intros [= <-]; simpl.
  split; [reflexivity|]. split; [apply rec_grow_keys|]. intros f Hf. now apply col_get_grow.
Qed.

Lemma xassign_refused fmt x name c m vs :
  find_sf fmt (canon name) = Some (c, m) -> (exists v, In v vs /\ (v > sf_max m \/ v < 0)) ->
  xassign_sub fmt x name vs = Some (Err EOverflow).
Proof.
  intros F Hv. rewrite (xassign_sub_field _ _ _ _ _ _ F). now rewrite (seq_overflow _ _ _ _ _ _ F Hv).
Qed.

(* ======================= round 7: assignment by attribute in a world of objects of different formats ======================= *)
Lemma wattr_not_sub_field w a fields name vs :
  (forall c m, resolve (obj_fmt w a) fields name <> TSub c m) -> wattr w a fields name vs = (w, None).
Proof.
  intros H. unfold wattr. destruct (resolve (obj_fmt w a) fields name) as [c m| |] eqn:E; try reflexivity.
  exfalso. exact (H c m eq_refl).
Qed.

Lemma wattr_not_dimension w a fields name vs :
  resolve (obj_fmt w a) fields name = TNone -> wattr w a fields name vs = (w, None).
Proof. intros H. unfold wattr. now rewrite H. Qed.

Lemma wattr_sub_field w a fields name vs c m :
  find_sf (obj_fmt w a) (canon name) = Some (c, m) ->
  wattr w a fields name vs = wstep w (WAssign a (OSeq (canon name) vs)).
Proof. intros H. unfold wattr, resolve. now rewrite H. Qed.

(* what was assigned under a name to an object where the name is no sub-field does not take part in the assignment of
   that name to another object (or to the same one) later *)
Lemma wattr_history w a fa b fb name name' vs vs' :
  (forall c m, resolve (obj_fmt w a) fa name <> TSub c m) ->
  wattr (fst (wattr w a fa name vs)) b fb name' vs' = wattr w b fb name' vs'.
Proof. intros H. now rewrite (wattr_not_sub_field _ _ _ _ vs H). Qed.

Lemma family_split fmt : In fmt known_fmts ->
  (fmt < 6 -> find_sf fmt "overlap" = None /\ find_sf fmt "scanner_channel" = None)
  /\ (6 <= fmt -> find_sf fmt "overlap" = Some ("classification_flags"%string, 8)
                  /\ find_sf fmt "scanner_channel" = Some ("classification_flags"%string, 48)).
Proof.
  intros H. vm_compute in H.
  repeat (destruct H as [<-|H]; [split; intros L; try (exfalso; lia); vm_compute; split; reflexivity|]).
  contradiction.
Qed.

(* the two names that are sub-fields of one format family only: on an object of format 0-5, obj.overlap = vs /
   obj.scanner_channel = vs changes no point of any object, and the same assignment made afterwards to an object b is what
   it is without that history - on an object of format 6-10 it IS the whole-dimension assignment to bits 3 / bits 4-5 of
   classification_flags *)
Lemma attr_family_names w a fa b fb name vs vs' :
  In (obj_fmt w a) known_fmts -> obj_fmt w a < 6 -> name = "overlap"%string \/ name = "scanner_channel"%string ->
  wattr w a fa name vs = (w, None)
  /\ wattr (fst (wattr w a fa name vs)) b fb name vs' = wattr w b fb name vs'
  /\ (In (obj_fmt w b) known_fmts -> 6 <= obj_fmt w b -> wattr w b fb name vs' = wstep w (WAssign b (OSeq name vs'))).
Proof.
  intros K L N. destruct (family_split _ K) as [F _]. destruct (F L) as [F1 F2].
  assert (C1 : canon "overlap" = "overlap"%string) by (vm_compute; reflexivity).
  assert (C2 : canon "scanner_channel" = "scanner_channel"%string) by (vm_compute; reflexivity).
  assert (NS : forall c m, resolve (obj_fmt w a) fa name <> TSub c m).
  { intros c m. unfold resolve. destruct N as [-> | ->]; [rewrite C1, F1 | rewrite C2, F2];
      destruct (existsb _ fa); discriminate. }
  split; [exact (wattr_not_sub_field _ _ _ _ vs NS)|]. split; [exact (wattr_history _ _ _ _ _ _ _ vs vs' NS)|].
  intros K' L'. destruct (family_split _ K') as [_ G]. destruct (G L') as [G1 G2].
  destruct N as [-> | ->].
  - rewrite <- C1 at 2. apply (wattr_sub_field _ _ _ _ _ "classification_flags"%string 8). now rewrite C1.
  - rewrite <- C2 at 2. apply (wattr_sub_field _ _ _ _ _ "classification_flags"%string 48). now rewrite C2.
Qed.

Lemma wrun7_ops : forall ops w, wrun7 w (map WOp ops) = wrun w ops.
Proof. induction ops as [|o t IH]; intros w; simpl; [reflexivity|]. now rewrite IH. Qed.
