(* C16 — proofs about the queue strategy of Model/Fetch.v (the executor strategy is in FetchExecProofs.v). *)
From Coq Require Import ZArith List Bool Lia Permutation Sorted.
From LasV Require Import Lib.Base Gen.GenFetch Model.Fetch.
Import ListNotations.
Open Scope list_scope.
Open Scope Z_scope.

(* ------------------------------------------------------------------------------------------------ lists *)
Lemma set_nth_split : forall A (l : list A) i x, nth_error l i = Some x ->
  exists a b, l = a ++ x :: b /\ length a = i /\ forall y, set_nth i y l = a ++ y :: b.
Proof.
  induction l as [|h l IH]; destruct i as [|i]; cbn; intros x H; try discriminate.
  - inversion H; subst. exists [], l. repeat split; auto.
  - apply IH in H as (a0 & b & -> & Hl & Hs). exists (h :: a0), b. repeat split; cbn; auto.
    intro y. unfold set_nth in *. cbn. f_equal. apply Hs.
Qed.

Lemma list_sum_mid : forall a x b, list_sum (a ++ x :: b) = (list_sum a + x + list_sum b)%nat.
Proof. intros. rewrite list_sum_app. change (list_sum (x :: b)) with (x + list_sum b)%nat. lia. Qed.

(* ------------------------------------------------------------------------------------------------ sorting *)
Section Sorting.
Context {A : Type} (key : A -> Z).
Definition key_le (a b : A) : Prop := key a <= key b.

Lemma insert_perm : forall x l, Permutation (x :: l) (insert_on key x l).
Proof.
  induction l as [|y r IH]; cbn; auto.
  destruct (key x <=? key y); auto.
  eapply perm_trans; [apply perm_swap|]. constructor. exact IH.
Qed.

Lemma isort_perm : forall l, Permutation l (isort_on key l).
Proof.
  induction l as [|x l IH]; cbn; auto.
  eapply perm_trans; [|apply insert_perm]. constructor. exact IH.
Qed.

Lemma insert_sorted : forall x l, StronglySorted key_le l -> StronglySorted key_le (insert_on key x l).
Proof.
  induction l as [|y r IH]; cbn; intro H.
  - repeat constructor.
  - inversion H as [|? ? Hr Hy]; subst.
    destruct (key x <=? key y) eqn:E.
    + constructor; auto. constructor.
      * unfold key_le. lia.
      * eapply Forall_impl; [|exact Hy]. unfold key_le. intros; lia.
    + constructor; auto.
      eapply Permutation_Forall; [apply insert_perm|]. constructor; auto. unfold key_le. lia.
Qed.

Lemma isort_sorted : forall l, StronglySorted key_le (isort_on key l).
Proof. induction l; cbn; [constructor|apply insert_sorted; auto]. Qed.

(* two sorted permutations of a list with distinct keys are equal *)
Lemma sorted_perm_unique : forall l l', StronglySorted key_le l -> StronglySorted key_le l' ->
  Permutation l l' -> NoDup (map key l) -> l = l'.
Proof.
  induction l as [|a l IH]; intros l' Hs Hs' Hp Hnd.
  - apply Permutation_nil in Hp. auto.
  - destruct l' as [|b l'].
    + apply Permutation_sym, Permutation_nil in Hp. discriminate.
    + inversion Hs as [|? ? Hsl Ha]; subst. inversion Hs' as [|? ? Hsl' Hb]; subst.
      assert (Hab : a = b).
      { assert (Hina : In a (b :: l')) by (eapply Permutation_in; [exact Hp|left; auto]).
        assert (Hinb : In b (a :: l)) by (eapply Permutation_in; [apply Permutation_sym; exact Hp|left; auto]).
        destruct Hina as [->|Hina]; auto. destruct Hinb as [->|Hinb]; auto.
        rewrite Forall_forall in Ha, Hb. specialize (Ha _ Hinb). specialize (Hb _ Hina). unfold key_le in *.
        assert (key a = key b) by lia.
        cbn in Hnd. inversion Hnd as [|? ? Hn _]; subst. exfalso. apply Hn. rewrite H. apply in_map. exact Hinb. }
      subst b. f_equal. apply IH; auto.
      * eapply Permutation_cons_inv; eauto.
      * cbn in Hnd. inversion Hnd; auto.
Qed.

Lemma sorted_is_isort : forall l l', StronglySorted key_le l' -> Permutation l l' -> NoDup (map key l) -> l' = isort_on key l.
Proof.
  intros l l' Hs Hp Hnd. apply sorted_perm_unique; auto.
  - apply isort_sorted.
  - eapply perm_trans; [apply Permutation_sym; exact Hp|apply isort_perm].
  - eapply Permutation_NoDup; [|exact Hnd]. apply Permutation_map. exact Hp.
Qed.
End Sorting.

Lemma insert_map : forall A B (f : A -> B) (kb : B -> Z) x l,
  map f (insert_on (fun a => kb (f a)) x l) = insert_on kb (f x) (map f l).
Proof.
  induction l as [|y r IH]; cbn; auto. destruct (kb (f x) <=? kb (f y)); cbn; auto. f_equal. exact IH.
Qed.
Lemma isort_map : forall A B (f : A -> B) (kb : B -> Z) l,
  map f (isort_on (fun a => kb (f a)) l) = isort_on kb (map f l).
Proof. induction l as [|x l IH]; cbn; auto. unfold isort_on in IH. rewrite insert_map, IH. reflexivity. Qed.

(* ranges already in increasing offset order (what CopcReader builds) are left alone by the sort *)
Lemma sorted_ranges_fixed : forall ranges, StronglySorted (fun a b : range => fst a < fst b) ranges ->
  sort_by_offset ranges = ranges.
Proof.
  unfold sort_by_offset. induction ranges as [|r l IH]; intro H; cbn; auto.
  inversion H as [|? ? Hl Hr]; subst. unfold isort_on in IH. rewrite IH by auto.
  destruct l as [|y l']; cbn; auto.
  inversion Hr; subst. destruct (fst r <=? fst y) eqn:E; auto. lia.
Qed.
Lemma sorted_ranges_nodup : forall ranges, StronglySorted (fun a b : range => fst a < fst b) ranges -> NoDup (map fst ranges).
Proof.
  induction ranges as [|r l IH]; intro H; cbn; constructor; inversion H as [|? ? Hl Hr]; subst; auto.
  intro Hin. apply in_map_iff in Hin as (y & Hy & Hin). rewrite Forall_forall in Hr. specialize (Hr _ Hin). lia.
Qed.

(* ------------------------------------------------------------------------------------------------ the invariant *)
Lemma wp_shape : gen_worker_prog = [ITake false; IFetch; IPutResult; IPutExc; ITaskDone].
Proof. reflexivity. Qed.
Lemma mp_shape : gen_main_prog = [MPutAll; MStart true; MJoin; MDrain; MSort; MAssemble].
Proof. reflexivity. Qed.

Section QueueProofs.
Variable file : list Z.
Variable fails : range -> bool.
Variable ranges : list range.

Notation qstep := (step gen_worker_prog file fails).
Notation qwstep := (wstep gen_worker_prog fails).
Notation qmstep := (mstep file).

Definition w_hold (w : wstate) : nat := match w with WRun (S _) _ _ => 1 | _ => 0 end.
Definition w_pending (w : wstate) : list range :=
  match w with
  | WRun 1 (Some r) _ => [r]
  | WRun 2 (Some r) _ => [r]
  | WRun 3 (Some r) true => [r]
  | _ => []
  end.
Definition w_ok (w : wstate) : Prop :=
  match w with
  | WExit => True
  | WRun O _ _ => True
  | WRun (S pc) (Some r) failed => (pc < 4)%nat /\ ((1 <= pc)%nat -> failed = fails r)
  | WRun (S _) None _ => False
  end.
Definition item_ok (i : item) : Prop := match i with IData r => fails r = false | IExc r => fails r = true end.
Definition is_data (i : item) : Prop := match i with IData _ => True | IExc _ => False end.
Definition off_le (a b : range) : Prop := fst a <= fst b.

Definition full_todo : list minstr := [MJoin; MDrain; MSort; MAssemble].

Inductive main_inv (s : state) : Prop :=
| MI_join : s_status s = MRunning -> s_todo s = [MJoin; MDrain; MSort; MAssemble] -> s_local s = [] -> main_inv s
| MI_drain : s_status s = MRunning -> s_todo s = [MDrain; MSort; MAssemble] -> s_unf s = O ->
             Forall is_data (s_local s) -> main_inv s
| MI_sort : s_status s = MRunning -> s_todo s = [MSort; MAssemble] -> s_unf s = O -> s_resq s = [] ->
            Forall is_data (s_local s) -> main_inv s
| MI_asm : s_status s = MRunning -> s_todo s = [MAssemble] -> s_unf s = O -> s_resq s = [] ->
           Forall is_data (s_local s) -> StronglySorted off_le (map item_range (s_local s)) -> main_inv s
| MI_ret : s_status s = MRunning \/ s_status s = MReturned -> s_todo s = [] -> s_unf s = O -> s_resq s = [] ->
           Forall is_data (s_local s) -> StronglySorted off_le (map item_range (s_local s)) ->
           s_buf s = concat (map (item_data file) (s_local s)) -> main_inv s
| MI_raised : forall r, s_status s = MRaised r -> s_unf s = O -> In (IExc r) (s_local s) -> main_inv s.

Record inv (s : state) : Prop := mkInv {
  i_unf : s_unf s = (length (s_q s) + list_sum (map w_hold (s_ws s)))%nat;
  i_perm : Permutation ranges (s_q s ++ flat_map w_pending (s_ws s) ++ map item_range (s_resq s ++ s_local s));
  i_items : Forall item_ok (s_resq s ++ s_local s);
  i_wok : Forall w_ok (s_ws s);
  i_alive : s_q s <> [] -> s_ws s <> [] /\ Forall (fun w => is_exit w = false) (s_ws s);
  i_main : main_inv s }.

Lemma flat_map_mid : forall (a b : list wstate) w,
  flat_map w_pending (a ++ w :: b) = flat_map w_pending a ++ w_pending w ++ flat_map w_pending b.
Proof. intros. rewrite flat_map_app. reflexivity. Qed.

Lemma hold_mid : forall (a b : list wstate) w,
  list_sum (map w_hold (a ++ w :: b)) = (list_sum (map w_hold a) + w_hold w + list_sum (map w_hold b))%nat.
Proof. intros. rewrite map_app. cbn [map]. apply list_sum_mid. Qed.

(* when nothing is unfinished nobody holds a range, and only the exit step is left to a worker *)
Lemma main_inv_frame : forall s s',
  s_status s' = s_status s -> s_todo s' = s_todo s -> s_local s' = s_local s -> s_buf s' = s_buf s ->
  (s_unf s = O -> s_unf s' = O /\ s_resq s' = s_resq s) ->
  main_inv s -> main_inv s'.
Proof.
  intros s s' Hst Htd Hlo Hbu Hfr Hm.
  destruct Hm as [H1 H2 H3|H1 H2 H3 H4|H1 H2 H3 H4 H5|H1 H2 H3 H4 H5 H6|H1 H2 H3 H4 H5 H6 H7|r H1 H2 H3].
  - apply MI_join; congruence.
  - destruct (Hfr H3). apply MI_drain; congruence.
  - destruct (Hfr H3). apply MI_sort; congruence.
  - destruct (Hfr H3). apply MI_asm; congruence.
  - destruct (Hfr H3). apply MI_ret; try congruence; rewrite Hst; auto.
  - destruct (Hfr H2). eapply MI_raised; [rewrite Hst; eauto | congruence | rewrite Hlo; auto].
Qed.

Lemma perm_move1 : forall (r : range) q Pa Pb R,
  Permutation (r :: q ++ (Pa ++ Pb) ++ R) (q ++ (Pa ++ r :: Pb) ++ R).
Proof.
  intros. rewrite <- !app_assoc. cbn. rewrite (app_assoc q Pa (r :: Pb ++ R)). apply Permutation_cons_app. rewrite <- app_assoc. reflexivity.
Qed.
Lemma perm_move2 : forall (x : item) q Pa Pb rq lo,
  Permutation (q ++ (Pa ++ item_range x :: Pb) ++ map item_range (rq ++ lo))
              (q ++ (Pa ++ Pb) ++ map item_range ((rq ++ [x]) ++ lo)).
Proof.
  intros. rewrite <- !app_assoc, !map_app. cbn. apply Permutation_app_head. apply Permutation_app_head.
  rewrite <- ?app_assoc. cbn. rewrite (app_assoc Pb (map item_range rq) (item_range x :: map item_range lo)).
  apply Permutation_cons_app. rewrite <- app_assoc. reflexivity.
Qed.
Lemma perm_move3 : forall (x : item) Q P rq lo,
  Permutation (Q ++ P ++ map item_range ((x :: rq) ++ lo)) (Q ++ P ++ map item_range (rq ++ lo ++ [x])).
Proof.
  intros. apply Permutation_app_head. apply Permutation_app_head. apply Permutation_map. cbn. rewrite app_assoc. apply Permutation_cons_append.
Qed.

Ltac frame_main Hmain Hunf :=
  eapply main_inv_frame; [.. | exact Hmain]; cbn; auto;
  let H0 := fresh "H0" in intro H0; first [split; [lia | reflexivity] | exfalso; cbn [w_hold] in Hunf; lia].

Ltac wok_tac := apply Forall_app; split; auto; constructor; auto; cbn; auto; try (split; [lia | intros; first [lia | auto]]).

Lemma inv_wstep : forall s i s', inv s -> qwstep s i = Some s' -> inv s'.
Proof.
  intros s i s' [Hunf Hperm Hit Hwok Halive Hmain] Hstep.
  unfold wstep in Hstep.
  destruct (nth_error (s_ws s) i) as [[pc cur failed|]|] eqn:Hn; try discriminate.
  destruct (set_nth_split _ _ _ _ Hn) as (a & b & Hws & _ & Hset).
  assert (Hwa : Forall w_ok a /\ w_ok (WRun pc cur failed) /\ Forall w_ok b).
  { rewrite Hws in Hwok. apply Forall_app in Hwok as [Ha Hc]. inversion Hc; auto. }
  destruct Hwa as (Hoka & Hw & Hokb).
  assert (Hal : forall w', is_exit w' = false -> s_q s <> [] ->
                 a ++ w' :: b <> [] /\ Forall (fun w => is_exit w = false) (a ++ w' :: b)).
  { intros w' Hw' Hq. destruct (Halive Hq) as [_ Hall]. split; [destruct a; discriminate|].
    rewrite Hws in Hall. apply Forall_app in Hall as [Ha Hc]. inversion Hc; subst. apply Forall_app; split; auto. }
  rewrite Hws in Hunf, Hperm. rewrite hold_mid in Hunf. rewrite flat_map_mid in Hperm.
  unfold with_w, next_pc in Hstep. rewrite !Hset in Hstep.
  destruct pc as [|[|[|[|[|pc]]]]]; cbn in Hstep.
  - (* take *)
    destruct (s_q s) as [|r q'] eqn:Hq; inversion Hstep; subst s'; clear Hstep.
    + constructor; cbn [s_q s_unf s_resq s_ws s_local]; rewrite ?Hset.
      * rewrite hold_mid. cbn [w_hold] in *. cbn in *. lia.
      * rewrite flat_map_mid. exact Hperm.
      * exact Hit.
      * wok_tac.
      * intro H; contradiction.
      * frame_main Hmain Hunf.
    + constructor; cbn [s_q s_unf s_resq s_ws s_local]; rewrite ?Hset.
      * rewrite hold_mid. cbn [w_hold length] in *. lia.
      * rewrite flat_map_mid. cbn [w_pending app] in *. eapply perm_trans; [exact Hperm|]. apply perm_move1.
      * exact Hit.
      * wok_tac.
      * intro H. apply Hal; auto. discriminate.
      * frame_main Hmain Hunf.
  - (* fetch *)
    destruct cur as [r|]; [|cbn in Hw; contradiction].
    inversion Hstep; subst s'; clear Hstep.
    constructor; cbn [s_q s_unf s_resq s_ws s_local]; rewrite ?Hset.
    + rewrite hold_mid. cbn [w_hold] in *. lia.
    + rewrite flat_map_mid. exact Hperm.
    + exact Hit.
    + wok_tac.
    + intro H. apply Hal; auto.
    + frame_main Hmain Hunf.
  - (* put result *)
    destruct cur as [r|]; [|cbn in Hw; contradiction].
    destruct Hw as [_ Hf]. specialize (Hf ltac:(lia)).
    destruct failed; inversion Hstep; subst s'; clear Hstep.
    + constructor; cbn [s_q s_unf s_resq s_ws s_local]; rewrite ?Hset.
      * rewrite hold_mid. cbn [w_hold] in *. lia.
      * rewrite flat_map_mid. exact Hperm.
      * exact Hit.
      * wok_tac.
      * intro H. apply Hal; auto.
      * frame_main Hmain Hunf.
    + constructor; cbn [s_q s_unf s_resq s_ws s_local]; rewrite ?Hset.
      * rewrite hold_mid. cbn [w_hold] in *. lia.
      * rewrite flat_map_mid. cbn [w_pending app] in *. eapply perm_trans; [exact Hperm|].
        apply (perm_move2 (IData r)).
      * rewrite <- app_assoc. apply Forall_app in Hit as [H1 H2]. apply Forall_app; split; auto.
        apply Forall_app; split; auto. constructor; auto. cbn. auto.
      * wok_tac.
      * intro H. apply Hal; auto.
      * frame_main Hmain Hunf.
  - (* put exception *)
    destruct cur as [r|]; [|cbn in Hw; contradiction].
    destruct Hw as [_ Hf]. specialize (Hf ltac:(lia)).
    destruct failed; inversion Hstep; subst s'; clear Hstep.
    + constructor; cbn [s_q s_unf s_resq s_ws s_local]; rewrite ?Hset.
      * rewrite hold_mid. cbn [w_hold] in *. lia.
      * rewrite flat_map_mid. cbn [w_pending app] in *. eapply perm_trans; [exact Hperm|].
        apply (perm_move2 (IExc r)).
      * rewrite <- app_assoc. apply Forall_app in Hit as [H1 H2]. apply Forall_app; split; auto.
        apply Forall_app; split; auto. constructor; auto. cbn. auto.
      * wok_tac.
      * intro H. apply Hal; auto.
      * frame_main Hmain Hunf.
    + constructor; cbn [s_q s_unf s_resq s_ws s_local]; rewrite ?Hset.
      * rewrite hold_mid. cbn [w_hold] in *. lia.
      * rewrite flat_map_mid. exact Hperm.
      * exact Hit.
      * wok_tac.
      * intro H. apply Hal; auto.
      * frame_main Hmain Hunf.
  - (* task_done *)
    cbn [w_hold] in Hunf.
    destruct (s_unf s) as [|u] eqn:Hu; [lia|].
    inversion Hstep; subst s'; clear Hstep.
    constructor; cbn [s_q s_unf s_resq s_ws s_local]; rewrite ?Hset.
    + rewrite hold_mid. cbn [w_hold]. lia.
    + rewrite flat_map_mid. destruct cur as [r|]; exact Hperm.
    + exact Hit.
    + wok_tac.
    + intro H. apply Hal; auto.
    + eapply main_inv_frame; [.. | exact Hmain]; cbn; auto. intro H0. rewrite Hu in H0. discriminate.
  - (* pc out of the program *)
    destruct cur as [r|]; cbn in Hw; [lia|contradiction].
Qed.

Lemma inv_mstep : forall s s', inv s -> qmstep s = Some s' -> inv s'.
Proof.
  intros s s' [Hunf Hperm Hit Hwok Halive Hmain] Hstep. unfold mstep in Hstep.
  destruct Hmain as [H1 H2 H3|H1 H2 H3 H4|H1 H2 H3 H4 H5|H1 H2 H3 H4 H5 H6|H1 H2 H3 H4 H5 H6 H7|r H1 H2 H3].
  - rewrite H1, H2 in Hstep. destruct (Nat.eqb (s_unf s) 0) eqn:E; [|discriminate]. apply Nat.eqb_eq in E.
    inversion Hstep; subst s'. constructor; cbn; auto. apply MI_drain; cbn; auto. rewrite H3. constructor.
  - rewrite H1, H2 in Hstep. destruct (s_resq s) as [|[r|r] rq] eqn:Hr; inversion Hstep; subst s'; clear Hstep.
    + constructor; cbn; auto. apply MI_sort; cbn; auto.
    + constructor; cbn [s_q s_unf s_resq s_ws s_local with_m]; auto.
      * eapply perm_trans; [exact Hperm|]. apply perm_move3.
      * apply Forall_app in Hit as [Ha Hb]. inversion Ha; subst. apply Forall_app; split; auto.
        apply Forall_app; split; auto.
      * apply MI_drain; cbn; auto. apply Forall_app; split; auto. constructor; cbn; auto.
    + constructor; cbn [s_q s_unf s_resq s_ws s_local with_m]; auto.
      * eapply perm_trans; [exact Hperm|]. apply perm_move3.
      * apply Forall_app in Hit as [Ha Hb]. inversion Ha; subst. apply Forall_app; split; auto.
        apply Forall_app; split; auto.
      * apply (MI_raised _ r); cbn; auto. apply in_or_app. right. left. reflexivity.
  - rewrite H1, H2 in Hstep. inversion Hstep; subst s'; clear Hstep.
    assert (Hp : Permutation (s_local s) (isort_on item_key (s_local s))) by apply isort_perm.
    constructor; cbn [s_q s_unf s_resq s_ws s_local with_m]; auto.
    + eapply perm_trans; [exact Hperm|]. apply Permutation_app_head. apply Permutation_app_head.
      apply Permutation_map. apply Permutation_app_head. exact Hp.
    + apply Forall_app in Hit as [Ha Hb]. apply Forall_app; split; auto. eapply Permutation_Forall; eauto.
    + apply MI_asm; cbn; auto.
      * eapply Permutation_Forall; eauto.
      * unfold item_key. rewrite (isort_map _ _ item_range fst). apply (isort_sorted fst).
  - rewrite H1, H2 in Hstep. inversion Hstep; subst s'; clear Hstep.
    constructor; cbn; auto. apply MI_ret; cbn; auto.
  - destruct H1 as [H1|H1]; rewrite H1 in Hstep; [|discriminate]. rewrite H2 in Hstep.
    inversion Hstep; subst s'; clear Hstep. constructor; cbn; auto. apply MI_ret; cbn; auto.
  - rewrite H1 in Hstep. discriminate.
Qed.

Lemma inv_step : forall s t s', inv s -> qstep s t = Some s' -> inv s'.
Proof. intros s [|i] s' Hi Hs; cbn in Hs; [eapply inv_mstep|eapply inv_wstep]; eauto. Qed.

Lemma hold_fresh : forall n, list_sum (map w_hold (repeat fresh_worker n)) = O.
Proof. induction n; cbn; auto. Qed.
Lemma pending_fresh : forall n, flat_map w_pending (repeat fresh_worker n) = [].
Proof. induction n; cbn; auto. Qed.

Lemma inv_init : forall workers, (1 <= workers)%nat -> inv (init gen_main_prog ranges workers).
Proof.
  intros workers Hw. rewrite mp_shape. unfold init.
  constructor; cbn [s_q s_unf s_resq s_ws s_local s_todo s_status].
  - rewrite hold_fresh. lia.
  - rewrite pending_fresh. cbn. rewrite app_nil_r. apply Permutation_refl.
  - constructor.
  - apply Forall_forall. intros w Hin. apply repeat_spec in Hin. subst w. exact I.
  - intro Hq. destruct ranges as [|r l]; [contradiction|]. cbn [length]. destruct workers as [|k]; [lia|].
    cbn [Nat.min repeat]. split; [discriminate|]. constructor; auto.
    apply Forall_forall. intros w Hin. apply repeat_spec in Hin. subst w. reflexivity.
  - apply MI_join; cbn; auto.
Qed.

Lemma inv_reach : forall workers s, (1 <= workers)%nat -> reach gen_worker_prog file fails (init gen_main_prog ranges workers) s -> inv s.
Proof.
  intros workers s Hw Hr. induction Hr as [|s t s' Hr IH Hs]; [apply inv_init; auto|eapply inv_step; eauto].
Qed.

Lemma hold0_pending : forall ws, list_sum (map w_hold ws) = O -> flat_map w_pending ws = [].
Proof.
  induction ws as [|w ws IH]; cbn; auto. intro H.
  destruct w as [[|pc] cur failed|]; cbn in *; try lia; auto.
Qed.

(* when main has returned or raised *)
Lemma final_cases : forall s, inv s -> main_done s = true ->
  (s_status s = MReturned /\ Permutation ranges (map item_range (s_local s)) /\ Forall item_ok (s_local s) /\
   Forall is_data (s_local s) /\ StronglySorted off_le (map item_range (s_local s)) /\
   s_buf s = concat (map (item_data file) (s_local s)))
  \/ (exists r, s_status s = MRaised r /\ In r ranges /\ fails r = true).
Proof.
  intros s [Hunf Hperm Hit Hwok Halive Hmain] Hd. unfold main_done in Hd.
  destruct Hmain as [H1 H2 H3|H1 H2 H3 H4|H1 H2 H3 H4 H5|H1 H2 H3 H4 H5 H6|H1 H2 H3 H4 H5 H6 H7|r H1 H2 H3];
    try (rewrite H1 in Hd; discriminate).
  - destruct H1 as [H1|H1]; [rewrite H1 in Hd; discriminate|]. left.
    assert (Hq : s_q s = []) by (destruct (s_q s); auto; cbn in Hunf; lia).
    assert (Hp : flat_map w_pending (s_ws s) = []) by (apply hold0_pending; lia).
    rewrite Hq, Hp, H4 in Hperm. rewrite H4 in Hit. cbn in Hperm, Hit. repeat split; auto.
  - right. exists r. split; auto.
    assert (Hin : In (IExc r) (s_resq s ++ s_local s)) by (apply in_or_app; auto).
    split.
    + eapply Permutation_in; [apply Permutation_sym; exact Hperm|].
      apply in_or_app. right. apply in_or_app. right. apply (in_map item_range) in Hin. exact Hin.
    + rewrite Forall_forall in Hit. apply (Hit _ Hin).
Qed.

Lemma data_map : forall l, Forall is_data l -> map (item_data file) l = map (slice file) (map item_range l).
Proof.
  induction l as [|x l IH]; intro H; cbn; auto. inversion H; subst. rewrite IH by auto.
  destruct x; cbn in *; [reflexivity|contradiction].
Qed.

Definition qreach (workers : nat) (s : state) : Prop :=
  reach gen_worker_prog file fails (init gen_main_prog ranges workers) s.

(* no request fails: main returns (never raises) with the blocks in offset order *)
Theorem queue_safe_ok : forall workers s, (1 <= workers)%nat -> qreach workers s -> main_done s = true ->
  (forall r, In r ranges -> fails r = false) ->
  s_status s = MReturned /\
  (exists l, Permutation ranges l /\ StronglySorted off_le l /\ s_buf s = concat (map (slice file) l)) /\
  (NoDup (map fst ranges) -> s_buf s = concat (map (slice file) (sort_by_offset ranges))).
Proof.
  intros workers s Hw Hr Hd Hok. pose proof (inv_reach _ _ Hw Hr) as Hi.
  destruct (final_cases _ Hi Hd) as [(Hst & Hp & Hio & Hda & Hso & Hb)|(r & _ & Hin & Hf)].
  - split; auto. rewrite (data_map _ Hda) in Hb. split.
    + exists (map item_range (s_local s)). auto.
    + intro Hnd. rewrite Hb. f_equal. f_equal. unfold sort_by_offset. apply (sorted_is_isort fst); auto.
  - rewrite (Hok _ Hin) in Hf. discriminate.
Qed.

(* some request fails: main raises the exception of a failed request of this call *)
Theorem queue_safe_fail : forall workers s, (1 <= workers)%nat -> qreach workers s -> main_done s = true ->
  (exists r, In r ranges /\ fails r = true) ->
  exists r, s_status s = MRaised r /\ In r ranges /\ fails r = true.
Proof.
  intros workers s Hw Hr Hd (r0 & Hin0 & Hf0). pose proof (inv_reach _ _ Hw Hr) as Hi.
  destruct (final_cases _ Hi Hd) as [(Hst & Hp & Hio & Hda & Hso & Hb)|H]; auto.
  exfalso. apply (Permutation_in _ Hp) in Hin0. apply in_map_iff in Hin0 as (x & Hx & Hin).
  rewrite Forall_forall in Hio, Hda. specialize (Hio _ Hin). specialize (Hda _ Hin).
  destruct x as [r|r]; cbn in *; [|contradiction]. subst r0. congruence.
Qed.

(* ------------------------------------------------------------------------------------------------ progress *)
Lemma wstep_enabled : forall s i pc cur failed, inv s -> nth_error (s_ws s) i = Some (WRun pc cur failed) ->
  exists s', qwstep s i = Some s'.
Proof.
  intros s i pc cur failed [Hunf Hperm Hit Hwok Halive Hmain] Hn.
  assert (Hw : w_ok (WRun pc cur failed)).
  { rewrite Forall_forall in Hwok. apply Hwok. eapply nth_error_In; eauto. }
  unfold wstep. rewrite Hn. destruct pc as [|[|[|[|[|pc]]]]]; cbn.
  - destruct (s_q s); eauto.
  - destruct cur; [eauto|contradiction].
  - destruct cur; [|contradiction]. destruct failed; eauto.
  - destruct cur; [|contradiction]. destruct failed; eauto.
  - destruct (s_unf s); eauto.
  - destruct cur; cbn in Hw; [lia|contradiction].
Qed.

Lemma all_exit_hold : forall ws, forallb is_exit ws = true -> list_sum (map w_hold ws) = O.
Proof.
  induction ws as [|w ws IH]; cbn; auto. intro H. apply andb_true_iff in H as [H1 H2].
  destruct w; [discriminate|]. cbn. auto.
Qed.

(* a state in which no thread can move: main has returned or raised and every worker has left its loop *)
Theorem queue_progress : forall workers s, (1 <= workers)%nat -> qreach workers s ->
  stuck gen_worker_prog file fails s -> main_done s = true /\ all_exited s = true.
Proof.
  intros workers s Hw Hr Hstuck. pose proof (inv_reach _ _ Hw Hr) as Hi.
  assert (Hex : all_exited s = true).
  { unfold all_exited. apply forallb_forall. intros w Hin. destruct w as [pc cur failed|]; auto.
    apply In_nth_error in Hin as [i Hn]. destruct (wstep_enabled _ _ _ _ _ Hi Hn) as [s' Hs'].
    specialize (Hstuck (S i)). cbn in Hstuck. congruence. }
  split; auto.
  destruct Hi as [Hunf Hperm Hit Hwok Halive Hmain]. unfold all_exited in Hex.
  assert (Hq : s_q s = []).
  { destruct (s_q s) as [|r q] eqn:E; auto. destruct Halive as [Hne Hall]; [discriminate|].
    destruct (s_ws s) as [|w ws]; [contradiction|]. inversion Hall; subst. cbn in Hex.
    apply andb_true_iff in Hex as [Hex _]. congruence. }
  assert (Hu : s_unf s = O) by (rewrite Hunf, Hq, all_exit_hold; auto).
  specialize (Hstuck O). cbn in Hstuck. unfold mstep, main_done in *.
  destruct Hmain as [H1 H2 H3|H1 H2 H3 H4|H1 H2 H3 H4 H5|H1 H2 H3 H4 H5 H6|H1 H2 H3 H4 H5 H6 H7|r H1 H2 H3];
    try (rewrite H1, H2 in Hstuck; try rewrite Hu in Hstuck; cbn in Hstuck; try discriminate).
  - destruct (s_resq s) as [|[r|r] rq]; discriminate.
  - destruct H1 as [H1|H1]; rewrite H1 in *; auto. rewrite H2 in Hstuck. discriminate.
  - rewrite H1. reflexivity.
Qed.

(* ------------------------------------------------------------------------------------------------ after the call *)
Lemma hold0_idle : forall ws, list_sum (map w_hold ws) = O -> forallb w_idle ws = true.
Proof.
  induction ws as [|w ws IH]; cbn; auto. intro H.
  destruct w as [[|pc] cur failed|]; cbn in *; try lia; auto.
Qed.

(* when main has returned or raised nothing is left to do for the call: the queue is empty, every range taken has been marked
   done, and no worker holds a range - each has left its loop or stands at the head of it *)
Theorem queue_quiet : forall workers s, (1 <= workers)%nat -> qreach workers s -> main_done s = true ->
  s_q s = [] /\ s_unf s = O /\ forallb w_idle (s_ws s) = true.
Proof.
  intros workers s Hw Hr Hd. destruct (inv_reach _ _ Hw Hr) as [Hunf Hperm Hit Hwok Halive Hmain].
  assert (Hu : s_unf s = O).
  { unfold main_done in Hd.
    destruct Hmain as [H1 H2 H3|H1 H2 H3 H4|H1 H2 H3 H4 H5|H1 H2 H3 H4 H5 H6|H1 H2 H3 H4 H5 H6 H7|r H1 H2 H3];
      try (rewrite H1 in Hd; discriminate); auto. }
  rewrite Hu in Hunf. repeat split; auto.
  - destruct (s_q s); auto. cbn in Hunf. lia.
  - apply hold0_idle. lia.
Qed.

(* ... so the only thing that can still happen is a worker finding the queue empty and leaving: no request, no result, no
   task_done after the call has returned or raised; queues, buffer and outcome stay as they are *)
Theorem queue_after_done : forall workers s t s', (1 <= workers)%nat -> qreach workers s -> main_done s = true ->
  qstep s t = Some s' -> exists i, t = S i /\ s' = with_w s i WExit (s_q s) (s_unf s) (s_resq s).
Proof.
  intros workers s t s' Hw Hr Hd Hstep. destruct (queue_quiet _ _ Hw Hr Hd) as (Hq & Hu & Hidle).
  destruct t as [|i]; cbn [step] in Hstep.
  - unfold mstep in Hstep. unfold main_done in Hd. destruct (s_status s); discriminate.
  - exists i. split; auto. unfold wstep in Hstep.
    destruct (nth_error (s_ws s) i) as [[pc cur failed|]|] eqn:Hn; try discriminate.
    rewrite forallb_forall in Hidle. specialize (Hidle _ (nth_error_In _ _ Hn)).
    destruct pc as [|pc]; [|discriminate]. rewrite wp_shape in Hstep. cbn in Hstep. rewrite Hq in Hstep.
    inversion Hstep. rewrite Hq. reflexivity.
Qed.

(* ------------------------------------------------------------------------------------------------ termination *)
Lemma wsum_mid : forall wp a w b, wsum wp (a ++ w :: b) = (wsum wp a + wmeasure wp w + wsum wp b)%nat.
Proof. intros wp a w b. unfold wsum. induction a as [|x a IH]; cbn; [lia|]. fold (wsum wp) in *. rewrite IH. lia. Qed.

Ltac msimp := cbn [s_q s_unf s_resq s_ws s_status s_todo with_m length wmeasure]; change (length gen_worker_prog) with 5%nat.

Theorem queue_terminates : forall s t s', qstep s t = Some s' ->
  (measure gen_worker_prog s' < measure gen_worker_prog s)%nat.
Proof.
  intros s [|i] s' Hstep; cbn in Hstep.
  - unfold mstep in Hstep. unfold measure.
    destruct (s_status s) eqn:Hst; try discriminate.
    destruct (s_todo s) as [|[| |  | | |] t] eqn:Htd.
    + inversion Hstep; subst s'; msimp; lia.
    + inversion Hstep; subst s'; msimp; lia.
    + inversion Hstep; subst s'; msimp; lia.
    + destruct (Nat.eqb (s_unf s) 0); inversion Hstep; subst s'; msimp; lia.
    + destruct (s_resq s) as [|[r|r] rq] eqn:Hrq; inversion Hstep; subst s'; msimp; lia.
    + inversion Hstep; subst s'; msimp; lia.
    + inversion Hstep; subst s'; msimp; lia.
  - unfold wstep in Hstep.
    destruct (nth_error (s_ws s) i) as [[pc cur failed|]|] eqn:Hn; try discriminate.
    destruct (set_nth_split _ _ _ _ Hn) as (a & b & Hws & _ & Hset).
    unfold measure. rewrite Hws at 1. rewrite wsum_mid. msimp.
    unfold with_w, next_pc in Hstep.
    destruct pc as [|[|[|[|[|pc]]]]]; cbn in Hstep.
    + destruct (s_q s) as [|r q']; inversion Hstep; subst s'; cbn [s_q s_unf s_resq s_ws s_status s_todo];
        rewrite Hset, wsum_mid; msimp; lia.
    + destruct cur; inversion Hstep; subst s'; cbn [s_q s_unf s_resq s_ws s_status s_todo];
        rewrite Hset, wsum_mid; msimp; lia.
    + destruct cur as [r|]; [destruct failed|]; inversion Hstep; subst s'; cbn [s_q s_unf s_resq s_ws s_status s_todo];
        rewrite Hset, wsum_mid, ?app_length; msimp; lia.
    + destruct cur as [r|]; [destruct failed|]; inversion Hstep; subst s'; cbn [s_q s_unf s_resq s_ws s_status s_todo];
        rewrite Hset, wsum_mid, ?app_length; msimp; lia.
    + destruct (s_unf s); inversion Hstep; subst s'; cbn [s_q s_unf s_resq s_ws s_status s_todo];
        rewrite Hset, wsum_mid; msimp; lia.
    + destruct pc; discriminate.
Qed.

End QueueProofs.

(* ------------------------------------------------------------------------------------------------ corollaries *)
Lemma run_reach : forall wp file fails s0 sched, reach wp file fails s0 (run wp file fails s0 sched).
Proof.
  intros wp file fails s0 sched. unfold run.
  assert (H : forall s, reach wp file fails s0 s -> reach wp file fails s0 (fold_left (run_one wp file fails) sched s)).
  { induction sched as [|t r IH]; intros s Hs; cbn; auto. apply IH. unfold run_one.
    destruct (step wp file fails s t) eqn:E; auto. eapply reach_step; eauto. }
  apply H. constructor.
Qed.

Theorem queue_equals_local : forall file fails ranges workers s, (1 <= workers)%nat ->
  StronglySorted (fun a b : range => fst a < fst b) ranges ->
  (forall r, In r ranges -> fails r = false) ->
  qreach file fails ranges workers s -> main_done s = true ->
  s_status s = MReturned /\ s_buf s = local_read file ranges.
Proof.
  intros file fails ranges workers s Hw Hso Hok Hr Hd.
  destruct (queue_safe_ok file fails ranges workers s Hw Hr Hd Hok) as (Hst & _ & Hb). split; auto.
  rewrite Hb by (apply sorted_ranges_nodup; auto). rewrite sorted_ranges_fixed by auto. reflexivity.
Qed.

Theorem queue_bound : forall file fails sched s,
  (effective gen_worker_prog file fails s sched <= measure gen_worker_prog s)%nat.
Proof.
  intros file fails. induction sched as [|t r IH]; intro s; cbn [effective]; [lia|].
  destruct (step gen_worker_prog file fails s t) as [s'|] eqn:E; auto.
  apply queue_terminates in E. specialize (IH s'). lia.
Qed.

Lemma wsum_fresh : forall wp n, wsum wp (repeat fresh_worker n) = n.
Proof. induction n; cbn; auto. Qed.

Lemma measure_init : forall ranges workers,
  measure gen_worker_prog (init gen_main_prog ranges workers) = (11 * length ranges + Nat.min (length ranges) workers + 5)%nat.
Proof. intros. unfold measure, init. cbn [gen_main_prog s_q s_ws s_resq s_status s_todo]. rewrite wsum_fresh. cbn [length gen_worker_prog]. lia. Qed.

(* the loop as it was before the repair: a schedule after which main has returned and a worker waits for ever *)
Theorem old_refuted : exists sched,
  let fails := fun _ : range => false in
  let s := run old_worker_prog [7; 8] fails (init gen_main_prog [(0, 1); (1, 1)] 2) sched in
  main_done s = true /\ s_buf s = [7; 8] /\ all_exited s = false /\ stuck old_worker_prog [7; 8] fails s.
Proof.
  exists [1;1;1;1;1;1; 1; 2; 1;1;1;1;1; 1; 2; 0;0;0;0;0;0;0]%nat.
  cbv zeta. repeat split; try (vm_compute; reflexivity).
  intros [|[|[|[|t]]]]; vm_compute; reflexivity.
Qed.

(* in every reachable state a worker that has not left its loop can take its next step: nobody waits for anybody *)
Theorem queue_worker_never_blocked : forall file fails ranges workers s i pc cur failed, (1 <= workers)%nat ->
  qreach file fails ranges workers s -> nth_error (s_ws s) i = Some (WRun pc cur failed) ->
  exists s', step gen_worker_prog file fails s (S i) = Some s'.
Proof.
  intros file fails ranges workers s i pc cur failed Hw Hr Hn. cbn [step].
  eapply wstep_enabled; eauto. eapply inv_reach; eauto.
Qed.

Theorem queue_step_bound : forall file fails ranges workers sched,
  (effective gen_worker_prog file fails (init gen_main_prog ranges workers) sched
   <= 11 * length ranges + Nat.min (length ranges) workers + 5)%nat.
Proof. intros. rewrite <- measure_init. apply queue_bound. Qed.

Theorem source_shape :
  gen_worker_prog = [ITake false; IFetch; IPutResult; IPutExc; ITaskDone] /\
  gen_main_prog = [MPutAll; MStart true; MJoin; MDrain; MSort; MAssemble].
Proof. split; reflexivity. Qed.
