(* C11: the composed binary64 bound.  Storing a finite double v under finite (s, o), s > 0, and presenting the stored
   integer again, everything in the binary64 model of Model/Scaling.v (each operation rounds the exact result to nearest
   even: rnd64), gives a double within half a step of v plus an explicit rounding slack:

     | present (store v) - v |  <=  s/2 + 2^-53 * (3 |v - o| + 7 |X| s + |o|) + 5 (1 + s) 2^-1075

   (X the stored integer).  Five roundings are involved: v - o, (v - o) / s, float(X), float(X) * s, float(X) * s + o;
   each moves its exact result by at most 2^-53 of its magnitude plus half the smallest subnormal (rnd64_error), and
   numpy.round moves the quotient by at most one half (rhe_half). *)
From Coq Require Import ZArith QArith Qabs List Bool Lia Lqa.
From LasV Require Import Lib.Base Gen.GenScaling Model.Scaling Proofs.ScalingProofs Proofs.ScalingFloat.
Open Scope Z_scope.

Local Notation u := (1 # 2 ^ 53)%Q.
Local Notation eta := (1 # 2 ^ 1075)%Q.
Local Notation ul := (1 # 9007199254740992)%Q.

Lemma Qabs_le_intro : forall z b, (- b <= z)%Q -> (z <= b)%Q -> (Qabs z <= b)%Q.
Proof. intros z b H1 H2. apply Qabs_Qle_condition. split; assumption. Qed.

Lemma Qabs_le_elim : forall z b, (Qabs z <= b)%Q -> (- b <= z)%Q /\ (z <= b)%Q.
Proof. intros z b H. apply Qabs_Qle_condition. exact H. Qed.

Lemma Qabs_bounds : forall z, (- Qabs z <= z)%Q /\ (z <= Qabs z)%Q.
Proof. intros z. apply Qabs_le_elim. apply Qle_refl. Qed.

Lemma Qabs_div_pos : forall x s, (0 < s)%Q -> (Qabs (x / s) == Qabs x / s)%Q.
Proof.
  intros x s Hs. unfold Qdiv. rewrite Qabs_Qmult. rewrite (Qabs_pos (/ s)); [reflexivity|].
  apply Qlt_le_weak. apply Qinv_lt_0_compat. exact Hs.
Qed.

(* what the two halves compute, step by step *)
Lemma f_store_steps : forall v s o X, f_store (Some v) (Some s) (Some o) = Some X ->
  exists d1 d2, rnd64 (v - o) = Some d1 /\ rnd64 (d1 / s) = Some d2 /\ X = rhe d2.
Proof.
  intros v s o X H. unfold f_store, gen_setitem_unscaled, gen_remove_scale, f_sub, f_lift2 in H.
  destruct (rnd64 (v - o)) as [d1|] eqn:E1; [|discriminate H].
  unfold f_div in H. destruct (Qeq_bool s 0); [discriminate H|].
  destruct (rnd64 (d1 / s)) as [d2|] eqn:E2; [|discriminate H].
  cbn in H. inversion H. exists d1, d2. auto.
Qed.

Lemma f_present_steps : forall X s o x, f_present X (Some s) (Some o) = Some x ->
  exists fX p1, rnd64 (inject_Z X) = Some fX /\ rnd64 (fX * s) = Some p1 /\ rnd64 (p1 + o) = Some x.
Proof.
  intros X s o x H. unfold f_present, gen_apply_scale, f_add, f_mul, f_lift2, f_of_Z in H.
  destruct (rnd64 (inject_Z X)) as [fX|] eqn:E1; [|discriminate H].
  destruct (rnd64 (fX * s)) as [p1|] eqn:E2; [|discriminate H].
  exists fX, p1. auto.
Qed.

(* the store half: the stored integer, as a coordinate, is within half a step of v plus the slack of two roundings *)
Lemma f_store_bound : forall v s o X, (0 < s)%Q ->
  f_store (Some v) (Some s) (Some o) = Some X ->
  (Qabs (inject_Z X * s + o - v) <= s / 2 + 3 * Qabs (v - o) * u + (2 + s) * eta)%Q.
Proof.
  intros v s o X Hs H. destruct (f_store_steps _ _ _ _ H) as (d1 & d2 & E1 & E2 & ->).
  pose proof (rnd64_error _ _ E1) as R1. pose proof (rnd64_error _ _ E2) as R2. pose proof (rhe_half d2) as R3.
  set (a := Qabs (v - o)) in *. set (Xq := inject_Z (rhe d2)) in *.
  assert (Ha : (0 <= a)%Q) by apply Qabs_nonneg.
  assert (Hne : ~ (s == 0)%Q) by (intro Z0; rewrite Z0 in Hs; discriminate).
  (* in coordinates: multiply the quotient's error by s *)
  assert (R2' : (Qabs (s * d2 - d1) <= Qabs d1 * u + s * eta)%Q).
  { setoid_replace (s * d2 - d1)%Q with (s * (d2 - d1 / s))%Q by (field; exact Hne).
    rewrite Qabs_Qmult, (Qabs_pos s) by (apply Qlt_le_weak; exact Hs).
    rewrite Qabs_div_pos in R2 by exact Hs.
    setoid_replace (Qabs d1 * u + s * eta)%Q with (s * (Qabs d1 / s * u + eta))%Q by (field; exact Hne).
    apply Qmult_le_l; [exact Hs|exact R2]. }
  assert (R3' : (Qabs (Xq * s - s * d2) <= s * (1 # 2))%Q).
  { setoid_replace (Xq * s - s * d2)%Q with (s * (Xq - d2))%Q by ring.
    rewrite Qabs_Qmult, (Qabs_pos s) by (apply Qlt_le_weak; exact Hs).
    apply Qmult_le_l; [exact Hs|exact R3]. }
  clear R2 R3.
  destruct (Qabs_bounds (v - o)) as [A1 A2]. fold a in A1, A2. clearbody a Xq.
  change (1 # 2 ^ 53)%Q with (1 # 9007199254740992)%Q in *.
  assert (He : (0 <= eta)%Q) by discriminate. set (e := eta) in *. clearbody e.
  apply Qabs_le_elim in R1. destruct R1 as [R1a R1b].
  assert (D1 : (Qabs d1 <= a + (a * ul + e))%Q) by (apply Qabs_le_intro; lra).
  apply Qabs_le_elim in R2'. destruct R2' as [R2a R2b].
  apply Qabs_le_elim in R3'. destruct R3' as [R3a R3b].
  set (t1 := Qabs d1) in *. set (m := (s * d2)%Q) in *. set (Xs := (Xq * s)%Q) in *.
  assert (Ht : (0 <= t1)%Q) by apply Qabs_nonneg. clearbody t1 m Xs.
  setoid_replace (s / 2)%Q with (s * (1 # 2))%Q by field.
  apply Qabs_le_intro; lra.
Qed.

(* the same in steps of the scaling: the tolerance the failing-input search allows *)
Lemma f_store_bound_steps : forall v s o X, (0 < s)%Q ->
  f_store (Some v) (Some s) (Some o) = Some X ->
  (Qabs (inject_Z X - (v - o) / s) <= (1 # 2) + (3 * Qabs (v - o) * u + 2 * eta) / s + eta)%Q.
Proof.
  intros v s o X Hs H. pose proof (f_store_bound v s o X Hs H) as B.
  assert (Hne : ~ (s == 0)%Q) by (intro Z0; rewrite Z0 in Hs; discriminate).
  assert (E : (inject_Z X * s + o - v == s * (inject_Z X - (v - o) / s))%Q) by (field; exact Hne).
  rewrite E, Qabs_Qmult, (Qabs_pos s) in B by (apply Qlt_le_weak; exact Hs).
  setoid_replace (s / 2 + 3 * Qabs (v - o) * u + (2 + s) * eta)%Q
    with (s * ((1 # 2) + (3 * Qabs (v - o) * u + 2 * eta) / s + eta))%Q in B by (field; exact Hne).
  apply Qmult_le_l in B; [exact B|exact Hs].
Qed.

(* the present half: what is shown for a stored integer X is X*s + o up to three roundings *)
Lemma f_present_bound : forall X s o x, (0 < s)%Q ->
  f_present X (Some s) (Some o) = Some x ->
  (Qabs (x - (inject_Z X * s + o)) <= (7 * (Qabs (inject_Z X) * s) + Qabs o) * u + (3 + 4 * s) * eta)%Q.
Proof.
  intros X s o x Hs H. destruct (f_present_steps _ _ _ _ H) as (fX & p1 & E1 & E2 & E3).
  pose proof (rnd64_error _ _ E1) as R1. pose proof (rnd64_error _ _ E2) as R2. pose proof (rnd64_error _ _ E3) as R3.
  set (Xq := inject_Z X) in *. set (n := Qabs Xq) in *.
  assert (Hn : (0 <= n)%Q) by apply Qabs_nonneg.
  (* float(X) * s against X * s *)
  assert (R1' : (Qabs (fX * s - Xq * s) <= n * s * u + s * eta)%Q).
  { setoid_replace (fX * s - Xq * s)%Q with (s * (fX - Xq))%Q by ring.
    rewrite Qabs_Qmult, (Qabs_pos s) by (apply Qlt_le_weak; exact Hs).
    setoid_replace (n * s * u + s * eta)%Q with (s * (n * u + eta))%Q by ring.
    apply Qmult_le_l; [exact Hs|exact R1]. }
  assert (NS : (Qabs (Xq * s) == n * s)%Q).
  { rewrite Qabs_Qmult, (Qabs_pos s) by (apply Qlt_le_weak; exact Hs). reflexivity. }
  clear R1.
  destruct (Qabs_bounds (Xq * s)) as [A1 A2]. rewrite NS in A1, A2. clear NS.
  destruct (Qabs_bounds o) as [O1 O2].
  set (ns := (n * s)%Q) in *. set (ao := Qabs o) in *. set (Xs := (Xq * s)%Q) in *. set (fs := (fX * s)%Q) in *.
  assert (Hns : (0 <= ns)%Q) by (subst ns; apply Qmult_le_0_compat; [exact Hn|apply Qlt_le_weak; exact Hs]).
  assert (Hao : (0 <= ao)%Q) by apply Qabs_nonneg. clearbody ns ao Xs fs.
  change (1 # 2 ^ 53)%Q with (1 # 9007199254740992)%Q in *.
  assert (He : (0 <= eta)%Q) by discriminate. set (e := eta) in *. clearbody e.
  apply Qabs_le_elim in R1'. destruct R1' as [R1a R1b].
  assert (F : (Qabs fs <= ns + (ns * ul + s * e))%Q) by (apply Qabs_le_intro; lra).
  apply Qabs_le_elim in R2. destruct R2 as [R2a R2b].
  destruct (Qabs_bounds fs) as [T1 T2]. set (tf := Qabs fs) in *. assert (Htf : (0 <= tf)%Q) by apply Qabs_nonneg. clearbody tf.
  assert (P : (Qabs (p1 + o) <= tf + (tf * ul + e) + ao)%Q) by (apply Qabs_le_intro; lra).
  apply Qabs_le_elim in R3. destruct R3 as [R3a R3b].
  set (tp := Qabs (p1 + o)) in *. assert (Htp : (0 <= tp)%Q) by apply Qabs_nonneg. clearbody tp.
  apply Qabs_le_intro; lra.
Qed.

(* the composition *)
Lemma f_roundtrip_bound : forall v s o X x, (0 < s)%Q ->
  f_store (Some v) (Some s) (Some o) = Some X ->
  f_present X (Some s) (Some o) = Some x ->
  (Qabs (x - v) <= s / 2 + (3 * Qabs (v - o) + 7 * (Qabs (inject_Z X) * s) + Qabs o) * u + 5 * (1 + s) * eta)%Q.
Proof.
  intros v s o X x Hs H1 H2.
  pose proof (f_store_bound v s o X Hs H1) as B1. pose proof (f_present_bound X s o x Hs H2) as B2.
  apply Qabs_le_elim in B1. destruct B1 as [B1a B1b]. apply Qabs_le_elim in B2. destruct B2 as [B2a B2b].
  set (a := Qabs (v - o)) in *. set (ns := (Qabs (inject_Z X) * s)%Q) in *. set (ao := Qabs o) in *.
  set (Xs := (inject_Z X * s)%Q) in *. clearbody a ns ao Xs.
  change (1 # 2 ^ 53)%Q with (1 # 9007199254740992)%Q in *.
  assert (He : (0 <= eta)%Q) by discriminate. set (e := eta) in *. clearbody e.
  setoid_replace (s / 2)%Q with (s * (1 # 2))%Q in B1a by field.
  setoid_replace (s / 2)%Q with (s * (1 # 2))%Q in B1b by field.
  setoid_replace (s / 2)%Q with (s * (1 # 2))%Q by field.
  apply Qabs_le_intro; lra.
Qed.

(* checked stores: what f_store_checked accepts is in 32 bits, so |X| <= 2^31 and the slack is explicit in v, s, o alone *)
Lemma f_roundtrip_bound_checked : forall v s o X x, (0 < s)%Q ->
  f_store_checked (Some v) (Some s) (Some o) = Ok X ->
  f_present X (Some s) (Some o) = Some x ->
  (Qabs (x - v) <= s / 2 + (3 * Qabs (v - o) + 7 * (inject_Z (2 ^ 31) * s) + Qabs o) * u + 5 * (1 + s) * eta)%Q.
Proof.
  intros v s o X x Hs H1 H2. apply f_checked_ok in H1. destruct H1 as [H1 F].
  pose proof (f_roundtrip_bound v s o X x Hs H1 H2) as B.
  assert (N : (Qabs (inject_Z X) <= inject_Z (2 ^ 31))%Q).
  { apply Qabs_le_intro; [rewrite <- inject_Z_opp|]; rewrite <- Zle_Qle; lia. }
  assert (NS : (Qabs (inject_Z X) * s <= inject_Z (2 ^ 31) * s)%Q).
  { apply Qmult_le_compat_r; [exact N|apply Qlt_le_weak; exact Hs]. }
  set (ns := (Qabs (inject_Z X) * s)%Q) in *. set (ms := (inject_Z (2 ^ 31) * s)%Q) in *.
  set (a := Qabs (v - o)) in *. set (ao := Qabs o) in *. set (z := Qabs (x - v)) in *. clearbody ns ms a ao z.
  change (1 # 2 ^ 53)%Q with (1 # 9007199254740992)%Q in *.
  assert (He : (0 <= eta)%Q) by discriminate. set (e := eta) in *. clearbody e.
  setoid_replace (s / 2)%Q with (s * (1 # 2))%Q in B by field.
  setoid_replace (s / 2)%Q with (s * (1 # 2))%Q by field.
  lra.
Qed.
