(* C14 - proofs about Model/Laz.v, part 3: the backend contract (hypotheses of a closed Section) and the
   transparency theorems: writing in chunks, whole-file reads, cursor histories, backend selection, non-seekable
   sources with EVLRs, appending. *)
From Coq Require Import String.
From Coq Require Import ZArith List Bool Lia ZifyBool.
From LasV Require Import Lib.Base Lib.BaseFacts Lib.Layout Proofs.LayoutProofs Gen.GenHeaderLayout Gen.GenFormatBits Gen.GenDims
  Gen.GenC14 Model.Las Model.LasSpec Model.Laz Proofs.HeaderLen Proofs.VlrProofs Proofs.HeaderProofs Proofs.WriterProofs
  Proofs.RoundTripProofs Proofs.AppendProofs Proofs.LazProofs Proofs.LazBackendProofs.
Import ListNotations.
Open Scope list_scope.
Open Scope Z_scope.

(* ------------------------------------------------------------------------------------ *)
(* the final headers of the compressed and of the uncompressed file agree on everything
   but the layout fields                                                                 *)
(* ------------------------------------------------------------------------------------ *)
Lemma lz_set_ev_eq st e k : lz_set_ev st e k = set_ev st e k.
Proof. reflexivity. Qed.

Lemma blookup_app a b n :
  blookup (a ++ b) n = match blookup b n with Some x => Some x | None => blookup a n end.
Proof.
  induction a as [|[m z] a IH]; cbn [app blookup]; [destruct (blookup b n); reflexivity|].
  rewrite IH. destruct (blookup b n); reflexivity.
Qed.

Lemma blookup_some bs n : existsb (String.eqb n) (map fst bs) = true -> exists z, blookup bs n = Some z.
Proof.
  induction bs as [|[m z] bs IH]; cbn [map existsb blookup fst]; [discriminate|].
  intros H. apply orb_true_iff in H as [H|H].
  - destruct (blookup bs n) as [x|]; [eauto|]. rewrite String.eqb_sym, H. eauto.
  - destruct (IH H) as (x & ->). eauto.
Qed.

Lemma sval_stat st n : wfst st -> is_stat n = true -> exists z, sval st n = Some z.
Proof. intros W H. unfold sval. apply blookup_some. now rewrite sbinds_names. Qed.

Lemma sval_set_ev S e1 e2 k n : String.eqb "start_of_first_evlr" n = false ->
  sval (set_ev S e1 k) n = sval (set_ev S e2 k) n.
Proof.
  intros H. unfold sval, sbinds, set_ev. cbn [s_count s_max s_min s_ret s_evlr_start s_nevlr].
  rewrite !blookup_app. cbn [blookup]. rewrite H. reflexivity.
Qed.

Lemma hc_axis h pre i : (pre = "scales" \/ pre = "offsets")%string -> aint (hc h) (axis_name pre i) = aint h (axis_name pre i).
Proof. intros [-> | ->]; unfold hc; apply aint_aset_other; destruct i as [|[|i]]; reflexivity. Qed.

Lemma stats_of_hc ap fmt h recs : stats_of ap fmt (hc h) recs = stats_of ap fmt h recs.
Proof. apply stats_of_ext; intros i; apply hc_axis; auto. Qed.

Lemma hdr_agree h vls vlz h0s b0s h0z b0z S (ev : bool) es ez k hRs bRs hRz bRz n :
  wfst S ->
  enc_header (with_stats h stats0) vls false = Ok (h0s, b0s) ->
  enc_header (with_stats (hc h) stats0) vlz false = Ok (h0z, b0z) ->
  enc_header (with_stats h0s (if ev then set_ev S es k else S)) vls true = Ok (hRs, bRs) ->
  enc_header (with_stats h0z (if ev then set_ev S ez k else S)) vlz true = Ok (hRz, bRz) ->
  layout_field n = false ->
  wval hRz n = wval hRs n.
Proof.
  intros WS E0s E0z ERs ERz Hn.
  unfold layout_field in Hn. apply orb_false_iff in Hn as [Hn Hstart]. apply orb_false_iff in Hn as [Hder Hfid].
  change (derived n = false) in Hder.
  assert (wfst (if ev then set_ev S es k else S)) as Ws by (destruct ev; exact WS).
  assert (wfst (if ev then set_ev S ez k else S)) as Wz by (destruct ev; exact WS).
  rewrite (rb_wvalR _ _ _ _ _ _ _ E0z Wz ERz), (rb_wvalR _ _ _ _ _ _ _ E0s Ws ERs).
  apply wval_with_stats_cong.
  - destruct ev; [now apply sval_set_ev|reflexivity].
  - intros Hnone. destruct (is_stat n) eqn:Est.
    + destruct (sval_stat _ n Ws Est) as (z & Hz). rewrite Hz in Hnone. discriminate.
    + unfold wval. rewrite (open_plain _ _ _ _ n E0z Est Hder), (open_plain _ _ _ _ n E0s Est Hder).
      unfold hc. now rewrite aget_aset_other by exact Hfid.
Qed.

(* ------------------------------------------------------------------------------------ *)
(* small facts                                                                           *)
(* ------------------------------------------------------------------------------------ *)
Lemma wf_header_std h vl : wf_header h vl = true ->
  exists std, std_size (compressed_id_to_uncompressed (aint h "point_format_id")) = Some std /\ std <= aint h "point_size".
Proof.
  unfold wf_header. destruct (header_size_tbl _ _); [|discriminate].
  destruct (std_size _) as [std|]; [|discriminate]. intros H.
  apply andb_true_iff in H as [H _]. apply andb_true_iff in H as [H _]. apply andb_true_iff in H as [_ H].
  exists std. split; [reflexivity|lia].
Qed.

Lemma concat_filter_nonempty {A} (chunks : list (list A)) : concat (filter nonempty chunks) = concat chunks.
Proof.
  induction chunks as [|c cs IH]; [reflexivity|]. cbn [filter]. destruct c as [|x c]; cbn [nonempty concat app]; [exact IH|].
  now rewrite IH.
Qed.

Lemma filter_nonempty_Forall {A} (chunks : list (list A)) : Forall (fun c => c <> []) (filter nonempty chunks).
Proof.
  apply Forall_forall. intros c Hc. apply filter_In in Hc as [_ Hc]. destruct c; [discriminate|discriminate].
Qed.

Lemma skipn_concat_const p (recs : list (list Z)) : Forall (fun r => length r = p) recs ->
  forall m, skipn (m * p) (concat recs) = concat (skipn m recs).
Proof.
  induction recs as [|r recs IH]; intros HF m.
  - cbn [concat]. now rewrite !skipn_nil.
  - inversion HF as [|x xs Hr HF']; subst x xs. destruct m as [|m]; [reflexivity|].
    cbn [skipn concat]. change (S m * p)%nat with (p + m * p)%nat.
    rewrite skipn_add. rewrite (skipn_app_exact r (concat recs) p Hr). now apply IH.
Qed.

Lemma Forall_skipn {A} (P : A -> Prop) l n : Forall P l -> Forall P (skipn n l).
Proof.
  revert n; induction l as [|x l IH]; intros n HF; [now rewrite skipn_nil|].
  destruct n; [exact HF|]. inversion HF; subst. cbn [skipn]. auto.
Qed.

(* the uncompressed point source delivers exactly the slice it is asked for *)
Lemma slice_records bs recs tail ps c n : 0 < ps -> recs_ok ps recs = true ->
  0 <= c -> 0 <= n -> c + n <= len recs ->
  read_records (bs ++ concat recs ++ tail) (len bs) ps c n = Ok (firstn (Z.to_nat n) (skipn (Z.to_nat c) recs)).
Proof.
  intros Hps Hok Hc Hn Hcn. pose proof (RoundTripProofs.recs_ok_Forall _ _ Hok) as HF.
  set (p := Z.to_nat ps) in *. assert (0 < p)%nat as Hp by lia.
  set (cn := Z.to_nat c). set (nn := Z.to_nat n).
  pose proof (concat_length_const p recs HF) as Hcl.
  assert (cn + nn <= length recs)%nat as Hb by (unfold cn, nn, len in *; lia).
  unfold read_records. cbv zeta.
  replace (Z.to_nat (len bs + c * ps)) with (length bs + cn * p)%nat
    by (unfold len, cn, p; rewrite Z2Nat.inj_add, Z2Nat.inj_mul, Nat2Z.id by lia; reflexivity).
  replace (Z.to_nat (n * ps)) with (nn * p)%nat by (unfold nn, p; rewrite Z2Nat.inj_mul by lia; reflexivity).
  rewrite skipn_add, (skipn_app_exact bs _ (length bs) eq_refl).
  rewrite skipn_app, (skipn_concat_const p recs HF).
  replace (cn * p - length (concat recs))%nat with 0%nat by (rewrite Hcl; nia). cbn [skipn].
  set (R := skipn cn recs).
  assert (Forall (fun r => length r = p) R) as HFR by now apply Forall_skipn.
  assert (length R = length recs - cn)%nat as HlR by (unfold R; apply skipn_length).
  pose proof (concat_length_const p R HFR) as HclR.
  rewrite firstn_app, (firstn_concat_const p R HFR).
  replace (nn * p - length (concat R))%nat with 0%nat by (rewrite HclR; nia). cbn [firstn]. rewrite app_nil_r.
  set (R2 := firstn nn R).
  assert (Forall (fun r => length r = p) R2) as HFR2 by now apply Forall_firstn.
  assert (length R2 = nn) as HlR2 by (unfold R2; rewrite firstn_length; lia).
  pose proof (concat_length_const p R2 HFR2) as HclR2.
  replace (ps <=? 0) with false by lia.
  replace (len (concat R2) mod ps =? 0) with true.
  2:{ unfold len. rewrite HclR2, Nat2Z.inj_mul. unfold p. rewrite Z2Nat.id by lia. rewrite Z.mod_mul by lia. reflexivity. }
  f_equal. apply RoundTripProofs.chunks_of_concat; [exact Hp|exact HFR2|lia].
Qed.

Lemma recs_ok_app ps a b : recs_ok ps (a ++ b) = recs_ok ps a && recs_ok ps b.
Proof. unfold recs_ok. apply forallb_app. Qed.

Lemma gfinal_inv ap h vl fmt recs evl payload h' : gfinal_hdr ap h vl fmt recs evl payload = Ok h' ->
  exists h0 b0 bR, enc_header (with_stats h stats0) vl false = Ok (h0, b0)
    /\ enc_header (with_stats h0 (if nonempty evl then set_ev (stats_of ap fmt h recs) (len b0 + len payload) (len evl)
                                  else stats_of ap fmt h recs)) vl true = Ok (h', bR).
Proof.
  unfold gfinal_hdr. intros H.
  destruct (enc_header (with_stats h stats0) vl false) as [[h0 b0]|e] eqn:E0; [|discriminate].
  cbn [bind fst snd] in H. destruct (enc_vlrs true evl) as [eb|e]; [|discriminate]. cbn [bind] in H.
  match type of H with bind ?E _ = _ => destruct E as [[hR bR]|e] eqn:ER; [|discriminate] end.
  cbn [bind fst] in H. injection H as <-. exists h0, b0, bR. split; [reflexivity|].
  destruct evl; exact ER.
Qed.

Lemma prun_gen {S} (step : S -> pop -> S * result (list (list Z))) : forall ops s acc,
  fold_left (fun acc op => let '(s', o) := step (fst acc) op in (s', snd acc ++ [o])) ops (s, acc)
  = (fst (prun step s ops), acc ++ snd (prun step s ops)).
Proof.
  induction ops as [|op ops IH]; intros s acc; [cbn; now rewrite app_nil_r|].
  unfold prun. cbn [fold_left fst snd]. destruct (step s op) as [s1 o]. cbn [app].
  rewrite (IH s1 (acc ++ [o])), (IH s1 [o]). cbn [fst snd]. now rewrite <- app_assoc.
Qed.

Lemma prun_cons {S} (step : S -> pop -> S * result (list (list Z))) s op ops :
  snd (prun step s (op :: ops)) = snd (step s op) :: snd (prun step (fst (step s op)) ops).
Proof.
  unfold prun at 1. cbn [fold_left fst snd]. destruct (step s op) as [s1 o]. cbn [app fst snd].
  rewrite prun_gen. reflexivity.
Qed.

Lemma minor_name m : 1 <= m <= 4 -> In "version.minor"%string (header_field_names m).
Proof.
  intros Hm. assert (m = 1 \/ m = 2 \/ m = 3 \/ m = 4) as [->|[->|[->| ->]]] by lia;
  apply in_by_existsb; vm_compute; reflexivity.
Qed.

(* the final statistics of a file built around a payload *)
Definition gstats (ap : Z -> Z -> Z -> Z) (fmt : Z) (h : assoc) (R : list (list Z)) (evl : list vlr) (e : Z) : stats :=
  if nonempty evl then set_ev (stats_of ap fmt h R) e (len evl) else stats_of ap fmt h R.

Lemma gstats_hc ap fmt h R evl e : gstats ap fmt (hc h) R evl e = gstats ap fmt h R evl e.
Proof. unfold gstats. now rewrite stats_of_hc. Qed.

Lemma wfst_gstats ap fmt h R evl e : wfst (gstats ap fmt h R evl e).
Proof. unfold gstats. destruct (nonempty evl); apply (wfst_stats_of ap fmt h R). Qed.

Lemma gfile_parts ap h vl fmt recs evl payload f : gfile ap h vl fmt recs evl payload = Ok f ->
  exists h0 b0 eb hR bR, enc_header (with_stats h stats0) vl false = Ok (h0, b0) /\ enc_vlrs true evl = Ok eb
    /\ enc_header (with_stats h0 (gstats ap fmt h recs evl (len b0 + len payload))) vl true = Ok (hR, bR)
    /\ f = bR ++ payload ++ eb /\ gfinal_hdr ap h vl fmt recs evl payload = Ok hR.
Proof.
  unfold gfile, gfinal_hdr, gstats. intros H.
  destruct (enc_header (with_stats h stats0) vl false) as [[h0 b0]|e] eqn:E0; [|discriminate].
  cbn [bind fst snd] in *. destruct (enc_vlrs true evl) as [eb|e] eqn:Eeb; [|discriminate]. cbn [bind] in *.
  match type of H with bind ?E _ = _ => destruct E as [[hR bR]|e] eqn:ER; [|discriminate] end.
  cbn [bind fst snd] in *. injection H as <-. exists h0, b0, eb, hR, bR.
  split; [reflexivity|]. split; [reflexivity|]. split; [destruct evl; exact ER|]. split; reflexivity.
Qed.

(* the header of such a file, as LasHeader.read_from decodes it, in the vocabulary of AppendProofs *)
Lemma parts_read g vl h0 b0 st hR bR rest :
  enc_header g vl false = Ok (h0, b0) -> wfst st -> enc_header (with_stats h0 st) vl true = Ok (hR, bR) ->
  wf_header hR vl = true ->
  exists rh, dec_header (bR ++ rest) false = Ok rh /\ rh_vlrs rh = vl /\ rh_offset rh = len bR
    /\ rh_psize rh = aint hR "point_size" /\ rh_fmt rh = compressed_id_to_uncompressed (aint hR "point_format_id")
    /\ reads (aint h0 "version.minor") (rh_fields rh) hR.
Proof.
  intros E0 Wst ER Hwf.
  destruct (dec_enc_header _ _ _ _ _ rest ER Hwf) as (rh & Hd & R1 & R2 & R3 & R4 & R5 & R6 & R7).
  exists rh. rewrite (rb_minorR _ _ _ _ _ _ _ E0 Wst ER) in R5. repeat split; assumption.
Qed.

Lemma lz_astep_eq ap fmt g st c : lz_astep ap fmt g st c = astep ap fmt g st c.
Proof. destruct c; reflexivity. Qed.

Lemma fold_astep_filter ap fmt g : forall Bs st,
  fold_left (lz_astep ap fmt g) (filter nonempty Bs) st = fold_left (astep ap fmt g) Bs st.
Proof.
  induction Bs as [|c Bs IH]; intros st; [reflexivity|]. cbn [filter]. destruct c as [|r c]; cbn [nonempty fold_left].
  - apply IH.
  - rewrite lz_astep_eq. apply IH.
Qed.

Lemma fold_sagree_astep ap m fmt g1 g2 :
  (forall i, aint g1 (axis_name "scales" i) = aint g2 (axis_name "scales" i)) ->
  (forall i, aint g1 (axis_name "offsets" i) = aint g2 (axis_name "offsets" i)) ->
  forall Bs s1 s2, sagree m s1 s2 -> sagree m (fold_left (astep ap fmt g1) Bs s1) (fold_left (astep ap fmt g2) Bs s2).
Proof.
  intros Hs Ho. induction Bs as [|c Bs IH]; intros s1 s2 Ha; [exact Ha|]. cbn [fold_left].
  apply IH. now apply sagree_astep.
Qed.

(* ------------------------------------------------------------------------------------ *)
(* THE BACKEND CONTRACT                                                                  *)
(* ------------------------------------------------------------------------------------ *)
Section Contract.
  Variable ap : Z -> Z -> Z -> Z.
  Hypothesis Hap : ap_ok ap.
  Variable B : backend.
  Notation lzdata := (b_lzdata B).
  Notation cst := (b_cst B).
  Notation c_new := (b_new B).
  Notation c_feed := (b_feed B).
  Notation c_done := (b_done B).
  Notation a_open := (b_aopen B).
  Notation dst := (b_dst B).
  Notation d_open := (b_dopen B).
  Notation d_read := (b_read B).
  Notation d_seek := (b_seek B).
  Notation d_rest := (b_rest B).
  (* the witnesses of `conforming B` (Model/Laz.v), and its clauses *)
  Variable isz : list Z -> Z.
  Variable dpos : bool -> list Z -> list (list Z) -> list Z -> dst -> Z -> Prop.

  Notation enc := (B_enc B).
  Notation lzd := (B_lzd B).

  Hypothesis H_isz : forall fmt n std, std_size fmt = Some std -> 0 <= n -> isz (lzdata fmt n) = std + n.
  Hypothesis H_feed : forall d chunks, recs_ok (isz d) (concat chunks) = true -> Forall (fun c => c <> []) chunks ->
    c_done (fold_left c_feed chunks (c_new d)) = enc d (concat chunks).
  Hypothesis H_open_sound : forall p sk d recs tail s, recs_ok (isz d) recs = true ->
    d_open p sk d (enc d recs ++ tail) = Ok s -> dpos sk d recs tail s 0.
  Hypothesis H_open_serial : forall sk d recs tail, recs_ok (isz d) recs = true ->
    is_ok (d_open false sk d (enc d recs ++ tail)) = true.
  Hypothesis H_open_parallel : forall d recs tail, recs_ok (isz d) recs = true ->
    is_ok (d_open true true d (enc d recs ++ tail)) = true.
  Hypothesis H_read : forall sk d recs tail s c n, dpos sk d recs tail s c -> 0 <= n -> c + n <= len recs ->
    exists s', d_read s n = Ok (s', firstn (Z.to_nat n) (skipn (Z.to_nat c) recs)) /\ dpos sk d recs tail s' (c + n).
  Hypothesis H_seek : forall sk d recs tail s c i, dpos sk d recs tail s c -> 0 <= i <= len recs ->
    exists s', d_seek s i = Ok s' /\ dpos sk d recs tail s' i.
  Hypothesis H_rest : forall d recs tail s, dpos false d recs tail s (len recs) -> d_rest s = Ok tail.
  Hypothesis H_append : forall p d A tail, recs_ok (isz d) A = true ->
    exists s, a_open p d (enc d A ++ tail) = Ok s
      /\ forall Bs, recs_ok (isz d) (concat Bs) = true -> Forall (fun c => c <> []) Bs ->
           c_done (fold_left c_feed Bs s) = enc d (A ++ concat Bs).

  Notation laz_file_of := (B_file_of ap B).
  Notation laz_final_hdr := (B_final_hdr ap B).
  Notation lz_session := (B_session ap B).
  Notation select := (Laz.select dst d_open).
  Notation laz_source := (B_source B).
  Notation read_laz := (B_read B).
  Notation read_laz_ns := (B_read_ns B).
  Notation laz_pstep := (B_pstep B).
  Notation lz_arun := (B_append ap B).
  Notation wf_laz := (Laz.wf_laz ap B).

  (* ---------------------------------------------------------------------------------- *)
  (* writing in chunks = writing at once                                                 *)
  (* ---------------------------------------------------------------------------------- *)
  Theorem lz_session_equiv : forall h vl fmt chunks evl,
    compat (aint h "version.major") (aint h "version.minor") fmt = true ->
    (evl = [] \/ aint h "version.minor" >= 4) ->
    forall std, std_size fmt = Some std -> std <= aint h "point_size" ->
    recs_ok (aint h "point_size") (concat chunks) = true ->
    lz_session h vl fmt chunks evl = laz_file_of h vl fmt (concat chunks) evl.
  Proof using Hap H_isz H_feed H_open_sound H_open_serial H_open_parallel H_read H_seek H_rest H_append.
    intros h vl fmt chunks evl Hcompat Hev std Hstd Hle Hok0.
    assert (recs_ok (isz (lzd h fmt)) (concat chunks) = true) as Hok.
    { unfold B_lzd, Laz.lzd. rewrite Hstd, (H_isz fmt _ std Hstd) by lia.
      now replace (std + (aint h "point_size" - std)) with (aint h "point_size") by lia. }
    unfold B_session, B_file_of, Laz.lz_session, Laz.laz_file_of, gfile. fold (B_lzd B h fmt). fold (B_enc B). rewrite Hcompat. cbn [negb].
    replace (nonempty evl && (aint h "version.minor" <? 4)) with false
      by (destruct Hev as [-> | Hev]; [reflexivity|destruct evl; cbn [nonempty andb]; lia]).
    destruct (enc_header (with_stats (hc h) stats0) (writer_vlrs vl true (lzd h fmt)) false) as [[h0 b0]|e] eqn:E0;
      [|reflexivity].
    cbn [bind fst snd].
    destruct (enc_vlrs true evl) as [eb|e] eqn:Eeb; [|reflexivity]. cbn [bind].
    (* the payload *)
    assert (c_done (fold_left c_feed (filter nonempty chunks) (c_new (lzd h fmt))) = enc (lzd h fmt) (concat chunks)) as Hpay.
    { rewrite <- (concat_filter_nonempty chunks). apply H_feed; [now rewrite concat_filter_nonempty|].
      apply filter_nonempty_Forall. }
    rewrite Hpay.
    (* the statistics *)
    assert (fold_left (grow ap fmt h0) (filter nonempty chunks) stats0 = grow ap fmt (hc h) stats0 (concat chunks)) as Hst.
    { rewrite (fold_grow ap Hap) by reflexivity. rewrite concat_filter_nonempty.
      apply grow_ext; intros i; [apply (open_header_axis (hc h) stats0 (writer_vlrs vl true (lzd h fmt)) h0 b0 "scales")
                                |apply (open_header_axis (hc h) stats0 (writer_vlrs vl true (lzd h fmt)) h0 b0 "offsets")]; auto. }
    rewrite Hst. unfold stats_of.
    destruct (concat chunks) as [|r rs] eqn:Ec.
    - destruct evl; reflexivity.
    - assert (s_count (grow ap fmt (hc h) stats0 (r :: rs)) =? 0 = false) as Hnz.
      { unfold grow. cbn [s_count stats0]. pose proof (len_nonneg rs). unfold len in *. cbn [length]. lia. }
      destruct evl; cbn [lz_set_ev s_count]; rewrite Hnz; reflexivity.
  Qed.

  (* ---------------------------------------------------------------------------------- *)
  (* backend selection                                                                   *)
  (* ---------------------------------------------------------------------------------- *)
  Lemma select_ok : forall backends sk d src last,
    (exists p, In p backends /\ is_ok (d_open p sk d src) = true) ->
    exists p s, In p backends /\ d_open p sk d src = Ok s /\ select backends sk d src last = Ok s.
  Proof.
    induction backends as [|q backends IH]; intros sk d src last (p & Hin & Hp); [destruct Hin|].
    cbn [Laz.select]. destruct (d_open q sk d src) as [s|e] eqn:Eq.
    - exists q, s. split; [now left|]. split; [exact Eq|reflexivity].
    - destruct Hin as [->|Hin]; [rewrite Eq in Hp; discriminate|].
      destruct (IH sk d src e (ex_intro _ p (conj Hin Hp))) as (p' & s & Hin' & Hop & Hsel).
      exists p', s. split; [now right|]. split; assumption.
  Qed.

  Lemma source_ok : forall backends sk rh src d recs tail,
    backends_ok backends sk ->
    find is_laszip (rh_vlrs rh) = Some (mk_laszip d) ->
    skipn (Z.to_nat (rh_offset rh)) src = enc d recs ++ tail ->
    recs_ok (isz d) recs = true ->
    exists s, laz_source backends sk rh src = Ok s /\ dpos sk d recs tail s 0.
  Proof.
    intros backends sk rh src d recs tail Hb Hfind Hsk Hok.
    assert (exists p, In p backends /\ is_ok (d_open p sk d (enc d recs ++ tail)) = true) as Hex.
    { destruct sk; cbn [backends_ok] in Hb.
      - destruct backends as [|p r]; [contradiction|]. exists p. split; [now left|].
        destruct p; [now apply H_open_parallel|now apply H_open_serial].
      - exists false. split; [exact Hb|now apply H_open_serial]. }
    destruct (select_ok backends sk d _ EOther Hex) as (p & s & _ & Hop & Hsel).
    exists s. split; [|exact (H_open_sound p sk d recs tail s Hok Hop)].
    unfold B_source, Laz.laz_source. rewrite Hfind. cbn [v_data mk_laszip]. rewrite Hsk.
    destruct backends; [destruct Hex as (? & [] & _)|exact Hsel].
  Qed.

  (* ---------------------------------------------------------------------------------- *)
  (* whole-file reads                                                                    *)
  (* ---------------------------------------------------------------------------------- *)
  Lemma wf_facts : forall h vl fmt recs evl, wf_las ap h vl fmt recs evl -> wf_laz h vl fmt recs evl ->
    isz (lzd h fmt) = aint h "point_size" /\ recs_ok (aint h "point_size") recs = true /\ 0 < aint h "point_size"
    /\ writer_vlrs vl true (lzd h fmt) = vl ++ [mk_laszip (lzd h fmt)].
  Proof.
    intros h vl fmt recs evl (hs & Hfs & Hwfs & _ & Hrok & Hps & _ & _ & Hfmt) (hz & _ & _ & Hclean & Hpid & Hfr).
    rewrite final_hdr_gfinal in Hfs.
    destruct (gfinal_inv _ _ _ _ _ _ _ _ Hfs) as (h0 & b0 & bR & E0 & ER).
    assert (aint hs "point_size" = aint h "point_size" /\ aint hs "point_format_id" = aint h "point_format_id") as [Eps Epid].
    { split; rewrite (enc_header_keeps _ _ _ _ _ _ ER), with_stats_plain, (enc_header_keeps _ _ _ _ _ _ E0), with_stats_plain
        by (cbn; tauto); reflexivity. }
    destruct (wf_header_std _ _ Hwfs) as (std & Hstd & Hle). rewrite Epid, Hfmt in Hstd. rewrite Eps in *.
    split; [|split; [exact Hrok|split; [exact Hps|]]].
    - unfold B_lzd, Laz.lzd. rewrite Hstd. rewrite (H_isz fmt _ std Hstd) by lia. lia.
    - rewrite writer_vlrs_eq. now rewrite remove_first_none.
  Qed.

  (* the uncompressed file read back (RoundTripProofs.read_write_roundtrip, with the compressed flag) *)
  Lemma las_read_back : forall h vl fmt recs evl f, wf_las ap h vl fmt recs evl ->
    file_of ap h vl fmt recs evl = Ok f ->
    exists lf hs, read_file f = Ok lf /\ final_hdr ap h vl fmt recs evl = Ok hs
      /\ lf_points lf = recs /\ rh_vlrs (lf_h lf) = vl
      /\ rh_evlrs (lf_h lf) = (if aint h "version.minor" >=? 4 then Some evl else None)
      /\ rh_psize (lf_h lf) = aint h "point_size" /\ rh_fmt (lf_h lf) = fmt
      /\ rh_compressed (lf_h lf) = is_point_format_compressed (aint h "point_format_id")
      /\ (forall n, In n (header_field_names (aint h "version.minor")) -> aget (rh_fields (lf_h lf)) n = Some (wval hs n)).
  Proof.
    intros h vl fmt recs evl f (hs & Hfs & Hwfs & Hwe & Hrok & Hps & Hev4 & _ & Hfmt) Hf.
    pose proof Hfs as Hfs'. rewrite file_of_gfile in Hf. rewrite final_hdr_gfinal in Hfs.
    destruct (gfile_read _ _ _ _ _ _ _ _ _ [] Hf Hfs Hwfs Hwe Hev4)
      as (rs & bs & eb & Ds & _ & Hfe & Heb & Sv & Soff & Sps & Sfmt & Scomp & Sev & Scnt & Sm & _ & _ & Sget).
    rewrite app_nil_r in Ds.
    destruct (gfile_inv _ _ _ _ _ _ _ _ _ Hf Hfs) as (_ & _ & _ & _ & _ & _ & _ & _ & Smn & Spid & Spsz & _).
    rewrite Smn in Sev, Sget. rewrite Spid in Sfmt, Scomp. rewrite Spsz in Sps, Hrok, Hps. rewrite Hfmt in Sfmt.
    assert (exists lf, read_file f = Ok lf /\ lf_points lf = recs /\ lf_h lf = rs) as (lf & Rf & Rp & Rh).
    { unfold read_file. rewrite Ds. cbn [bind]. rewrite Scnt.
      destruct (len recs <=? 0) eqn:Ez.
      - assert (recs = []) as -> by (destruct recs; [reflexivity|unfold len in Ez; cbn [length] in Ez; lia]).
        exists (mkLF rs []). split; [reflexivity|]. split; reflexivity.
      - rewrite Soff, Sps, Hfe.
        rewrite (slice_records bs recs eb _ 0 (len recs) Hps Hrok) by lia.
        cbn [bind]. eexists. split; [reflexivity|]. cbn [lf_points lf_h Z.to_nat skipn]. split; [|reflexivity].
        rewrite to_nat_len. apply firstn_all. }
    exists lf, hs. rewrite Rh. repeat (split; [assumption|]). exact Sget.
  Qed.

  Lemma laz_file_of_unfold h vl fmt recs evl :
    laz_file_of h vl fmt recs evl = gfile ap (hc h) (writer_vlrs vl true (lzd h fmt)) fmt recs evl (enc (lzd h fmt) recs).
  Proof. unfold B_file_of, Laz.laz_file_of. reflexivity. Qed.
  Lemma laz_final_hdr_unfold h vl fmt recs evl :
    laz_final_hdr h vl fmt recs evl = gfinal_hdr ap (hc h) (writer_vlrs vl true (lzd h fmt)) fmt recs evl (enc (lzd h fmt) recs).
  Proof. unfold B_final_hdr, Laz.laz_final_hdr. reflexivity. Qed.

  (* the header of the compressed file, as any of the readers decodes it; junk may follow the file *)
  Lemma laz_header_back : forall h vl fmt recs evl g junk, wf_las ap h vl fmt recs evl -> wf_laz h vl fmt recs evl ->
    laz_file_of h vl fmt recs evl = Ok g ->
    exists rz hz eb, dec_header (g ++ junk) true = Ok rz
      /\ dec_header (g ++ junk) false = Ok (with_vlrs rz (rh_vlrs rz) None)
      /\ laz_final_hdr h vl fmt recs evl = Ok hz /\ enc_vlrs true evl = Ok eb
      /\ find is_laszip (rh_vlrs rz) = Some (mk_laszip (lzd h fmt))
      /\ remove_first is_laszip (rh_vlrs rz) = vl
      /\ skipn (Z.to_nat (rh_offset rz)) (g ++ junk) = enc (lzd h fmt) recs ++ eb ++ junk
      /\ len g = rh_offset rz + len (enc (lzd h fmt) recs) + len eb
      /\ rh_compressed rz = true /\ rh_fmt rz = fmt /\ rh_psize rz = aint h "point_size"
      /\ rh_evlrs rz = (if aint h "version.minor" >=? 4 then Some evl else None)
      /\ aint (rh_fields rz) "point_count" = len recs
      /\ aint hz "version.minor" = aint h "version.minor" /\ 1 <= aint h "version.minor" <= 4
      /\ (evl = [] -> aint hz "number_of_evlrs" = 0)
      /\ (evl <> [] -> aint hz "number_of_evlrs" = len evl
                       /\ aint hz "start_of_first_evlr" = rh_offset rz + len (enc (lzd h fmt) recs))
      /\ (forall n, In n (header_field_names (aint h "version.minor")) -> aget (rh_fields rz) n = Some (wval hz n)).
  Proof.
    intros h vl fmt recs evl g junk Wl Wz Hg.
    destruct (wf_facts _ _ _ _ _ Wl Wz) as (Hisz & Hrok & Hps & Hvlz).
    destruct Wl as (hs & _ & _ & Hwe & _ & _ & Hev4 & _ & Hfmt).
    destruct Wz as (hz & Hfz & Hwfz & Hclean & Hpid & Hfr).
    pose proof Hfz as Hfz'.
    rewrite laz_file_of_unfold in Hg. rewrite laz_final_hdr_unfold in Hfz.
    assert (aint (hc h) "version.minor" = aint h "version.minor") as Hmn by (unfold hc; now rewrite aint_aset_other by reflexivity).
    assert (aint (hc h) "point_size" = aint h "point_size") as Hpsz by (unfold hc; now rewrite aint_aset_other by reflexivity).
    assert (aint (hc h) "point_format_id" = uncompressed_id_to_compressed fmt) as Hpidz
      by (unfold hc; rewrite aint_aset_same; now rewrite Hpid).
    assert (evl = [] \/ aint (hc h) "version.minor" >= 4) as Hev4z by now rewrite Hmn.
    destruct (gfile_read _ _ _ _ _ _ _ _ _ junk Hg Hfz Hwfz Hwe Hev4z)
      as (rz & bz & eb & Dz & Dz0 & Hge & Heb & Zv & Zoff & Zps & Zfmt & Zcomp & Zev & Zcnt & Zm & Zev0 & Zev1 & Zget).
    destruct (gfile_inv _ _ _ _ _ _ _ _ _ Hg Hfz) as (_ & _ & _ & _ & _ & _ & _ & _ & Zmn & Zpid & Zpsz & _).
    rewrite Hmn in Zmn. rewrite Hpsz in Zpsz. rewrite Hpidz in Zpid.
    destruct (bits_64 fmt Hfr) as (B1 & B2 & _ & _).
    rewrite Zpid, B1 in Zcomp. rewrite Zpid, B2 in Zfmt. rewrite Zmn in Zev, Zget, Zm. rewrite Zpsz in Zps.
    rewrite Hvlz in Zv.
    exists rz, hz, eb. split; [exact Dz|]. split; [exact Dz0|]. split; [exact Hfz'|]. split; [exact Heb|].
    split; [rewrite Zv; now apply find_laszip_last|]. split; [rewrite Zv; now apply remove_first_last|].
    split; [rewrite Zoff, to_nat_len, Hge, <- !app_assoc; now rewrite (skipn_app_exact bz _ _ eq_refl)|].
    split; [rewrite Hge, Zoff, !len_app; lia|].
    split; [exact Zcomp|]. split; [exact Zfmt|]. split; [exact Zps|]. split; [exact Zev|]. split; [exact Zcnt|].
    split; [exact Zmn|]. split; [exact Zm|]. split; [exact Zev0|].
    split; [intros Hne; destruct (Zev1 Hne) as [A A2]; split; [exact A|rewrite A2, Zoff; reflexivity]|exact Zget].
  Qed.

  Lemma nil_of_len (recs : list (list Z)) : (len recs <=? 0) = true -> recs = [].
  Proof. destruct recs; [reflexivity|]. unfold len. cbn [length]. lia. Qed.

  (* laspy.read of the compressed file on a seekable source *)
  Lemma laz_read_back : forall h vl fmt recs evl g junk backends, wf_las ap h vl fmt recs evl -> wf_laz h vl fmt recs evl ->
    laz_file_of h vl fmt recs evl = Ok g -> backends <> [] ->
    exists lg rz hz, read_laz backends (g ++ junk) = Ok lg /\ laz_final_hdr h vl fmt recs evl = Ok hz
      /\ lz_points lg = recs /\ lz_h lg = with_vlrs rz vl (rh_evlrs rz)
      /\ rh_compressed rz = true /\ rh_fmt rz = fmt /\ rh_psize rz = aint h "point_size"
      /\ rh_evlrs rz = (if aint h "version.minor" >=? 4 then Some evl else None)
      /\ aint hz "version.minor" = aint h "version.minor"
      /\ (forall n, In n (header_field_names (aint h "version.minor")) -> aget (rh_fields rz) n = Some (wval hz n)).
  Proof.
    intros h vl fmt recs evl g junk backends Wl Wz Hg Hb.
    destruct (wf_facts _ _ _ _ _ Wl Wz) as (Hisz & Hrok & Hps & Hvlz).
    destruct (laz_header_back h vl fmt recs evl g junk Wl Wz Hg)
      as (rz & hz & eb & Dz & _ & Hfz & _ & Hfind & Hstrip & Hsk & _ & Zcomp & Zfmt & Zps & Zev & Zcnt & Zmn & _ & _ & _ & Zget).
    assert (exists lg, read_laz backends (g ++ junk) = Ok lg /\ lz_points lg = recs
                       /\ lz_h lg = with_vlrs rz vl (rh_evlrs rz)) as (lg & Rg & Rgp & Rgh).
    { unfold B_read, Laz.read_laz. fold (B_source B). rewrite Dz. cbn [bind]. rewrite Zcnt, Zcomp.
      destruct (len recs <=? 0) eqn:Ez.
      - rewrite (nil_of_len _ Ez) in *.
        eexists. split; [reflexivity|]. cbn [lz_points lz_h]. split; [reflexivity|].
        unfold reader_open_vlrs. change (len (@nil (list Z)) =? 0) with true. cbn [andb].
        change gen_reader_pops_laszip_when_empty with true. cbv iota. now rewrite Hstrip.
      - destruct (source_ok backends true rz (g ++ junk) (lzd h fmt) recs (eb ++ junk) Hb Hfind Hsk ltac:(now rewrite Hisz))
          as (s & Hsrc & Hpos).
        rewrite Hsrc. cbn [bind].
        destruct (H_read _ _ _ _ _ 0 (len recs) Hpos ltac:(apply len_nonneg) ltac:(lia)) as (s' & Hrd & _).
        rewrite Hrd. cbn [bind snd Z.to_nat skipn]. rewrite to_nat_len, firstn_all.
        eexists. split; [reflexivity|]. cbn [lz_points lz_h]. split; [reflexivity|].
        unfold reader_touch_vlrs, reader_open_vlrs.
        replace (len recs =? 0) with false by lia. replace (len recs >? 0) with true by lia. cbn [andb].
        change gen_reader_pops_laszip with true. cbv iota. now rewrite Hstrip. }
    exists lg, rz, hz. repeat (split; [assumption|]). exact Zget.
  Qed.

  Theorem laz_transparent_whole : forall h vl fmt recs evl f g backends junk,
    wf_las ap h vl fmt recs evl -> wf_laz h vl fmt recs evl ->
    file_of ap h vl fmt recs evl = Ok f -> laz_file_of h vl fmt recs evl = Ok g ->
    backends <> [] ->
    exists lf lg, read_file f = Ok lf /\ read_laz backends (g ++ junk) = Ok lg
      /\ lz_points lg = recs /\ lf_points lf = recs
      /\ rh_vlrs (lz_h lg) = vl /\ rh_vlrs (lf_h lf) = vl
      /\ rh_evlrs (lz_h lg) = rh_evlrs (lf_h lf)
      /\ rh_psize (lz_h lg) = rh_psize (lf_h lf) /\ rh_fmt (lz_h lg) = rh_fmt (lf_h lf)
      /\ rh_compressed (lz_h lg) = true /\ rh_compressed (lf_h lf) = false
      /\ (forall n, In n (header_field_names (aint h "version.minor")) -> layout_field n = false ->
            aget (rh_fields (lz_h lg)) n = aget (rh_fields (lf_h lf)) n).
  Proof using Hap H_isz H_feed H_open_sound H_open_serial H_open_parallel H_read H_seek H_rest H_append.
    intros h vl fmt recs evl f g backends junk Wl Wz Hf Hg Hb.
    destruct (las_read_back h vl fmt recs evl f Wl Hf) as (lf & hs & Rf & Hfs & Sp & Sv & Sev & Sps & Sfmt & Scomp & Sget).
    destruct (laz_read_back h vl fmt recs evl g junk backends Wl Wz Hg Hb)
      as (lg & rz & hz & Rg & Hfz & Zp & Zh & Zcomp & Zfmt & Zps & Zev & Zmn & Zget).
    pose proof Wz as (_ & _ & _ & _ & Hpid & Hfr).
    destruct (bits_64 fmt Hfr) as (_ & _ & B3 & _). rewrite Hpid, B3 in Scomp.
    exists lf, lg. split; [exact Rf|]. split; [exact Rg|].
    rewrite Zh. cbn [with_vlrs rh_vlrs rh_evlrs rh_psize rh_fmt rh_compressed rh_fields].
    split; [exact Zp|]. split; [exact Sp|]. split; [reflexivity|]. split; [exact Sv|].
    split; [now rewrite Zev, Sev|]. split; [now rewrite Zps, Sps|]. split; [now rewrite Zfmt, Sfmt|].
    split; [exact Zcomp|]. split; [exact Scomp|].
    intros n Hin Hlay. rewrite (Sget n Hin), (Zget n Hin). f_equal.
    rewrite final_hdr_gfinal in Hfs. rewrite laz_final_hdr_unfold in Hfz.
    destruct (gfinal_inv _ _ _ _ _ _ _ _ Hfs) as (h0s & b0s & bRs & E0s & ERs).
    destruct (gfinal_inv _ _ _ _ _ _ _ _ Hfz) as (h0z & b0z & bRz & E0z & ERz).
    rewrite stats_of_hc in ERz.
    exact (hdr_agree h vl _ h0s b0s h0z b0z (stats_of ap fmt h recs) (nonempty evl) _ _ (len evl) hs bRs hz bRz n
             (wfst_stats_of ap fmt h recs) E0s E0z ERs ERz Hlay).
  Qed.

  (* ---------------------------------------------------------------------------------- *)
  (* the point source under the reader's cursor: chunked reads, seeks                    *)
  (* ---------------------------------------------------------------------------------- *)
  Lemma laz_cursor_gen : forall sk d recs tail ops s c, dpos sk d recs tail s c -> 0 <= c ->
    ops_ok (len recs) c ops = true ->
    snd (prun laz_pstep s ops) = snd (prun (spec_pstep recs) c ops).
  Proof.
    intros sk d recs tail. induction ops as [|op ops IH]; intros s c Hpos Hc Hok; [reflexivity|].
    rewrite !prun_cons. destruct op as [n|i]; cbn [ops_ok] in Hok.
    - apply andb_true_iff in Hok as [Hok Hr]. apply andb_true_iff in Hok as [Hn Hcn].
      destruct (H_read _ _ _ _ _ _ n Hpos ltac:(lia) ltac:(lia)) as (s' & Hrd & Hpos').
      unfold B_pstep; cbn [Laz.laz_pstep spec_pstep]. rewrite Hrd. cbn [fst snd]. f_equal. apply IH; [exact Hpos'|lia|exact Hr].
    - apply andb_true_iff in Hok as [Hok Hr]. apply andb_true_iff in Hok as [Hi0 Hi1].
      destruct (H_seek _ _ _ _ _ _ i Hpos ltac:(lia)) as (s' & Hsk & Hpos').
      unfold B_pstep; cbn [Laz.laz_pstep spec_pstep]. rewrite Hsk. cbn [fst snd]. f_equal. apply IH; [exact Hpos'|lia|exact Hr].
  Qed.

  Lemma las_cursor_gen : forall bs recs tail ps ops c, 0 < ps -> recs_ok ps recs = true -> 0 <= c ->
    ops_ok (len recs) c ops = true ->
    snd (prun (las_pstep (bs ++ concat recs ++ tail) (len bs) ps) c ops) = snd (prun (spec_pstep recs) c ops).
  Proof.
    intros bs recs tail ps. induction ops as [|op ops IH]; intros c Hps Hrok Hc Hok; [reflexivity|].
    rewrite !prun_cons. destruct op as [n|i]; cbn [ops_ok] in Hok.
    - apply andb_true_iff in Hok as [Hok Hr]. apply andb_true_iff in Hok as [Hn Hcn].
      cbn [las_pstep spec_pstep fst snd]. rewrite (slice_records bs recs tail ps c n Hps Hrok) by lia.
      f_equal. apply IH; [exact Hps|exact Hrok|lia|exact Hr].
    - apply andb_true_iff in Hok as [Hok Hr]. apply andb_true_iff in Hok as [Hi0 Hi1].
      cbn [las_pstep spec_pstep fst snd]. f_equal. apply IH; [exact Hps|exact Hrok|lia|exact Hr].
  Qed.

  (* every history of in-range reads and seeks gives, on the compressed file, what it gives on the uncompressed
     one: the slices of the point sequence *)
  Theorem laz_transparent_cursor : forall h vl fmt recs evl f g backends junk,
    wf_las ap h vl fmt recs evl -> wf_laz h vl fmt recs evl ->
    file_of ap h vl fmt recs evl = Ok f -> laz_file_of h vl fmt recs evl = Ok g -> backends <> [] ->
    exists rs rz s0, dec_header f true = Ok rs /\ dec_header (g ++ junk) true = Ok rz
      /\ laz_source backends true rz (g ++ junk) = Ok s0
      /\ forall ops, ops_ok (len recs) 0 ops = true ->
           snd (prun laz_pstep s0 ops) = snd (prun (las_pstep f (rh_offset rs) (rh_psize rs)) 0 ops)
           /\ snd (prun laz_pstep s0 ops) = snd (prun (spec_pstep recs) 0 ops).
  Proof using Hap H_isz H_feed H_open_sound H_open_serial H_open_parallel H_read H_seek H_rest H_append.
    intros h vl fmt recs evl f g backends junk Wl Wz Hf Hg Hb.
    destruct (wf_facts _ _ _ _ _ Wl Wz) as (Hisz & Hrok & Hps & Hvlz).
    destruct (laz_header_back h vl fmt recs evl g junk Wl Wz Hg)
      as (rz & hz & eb & Dz & _ & _ & _ & Hfind & _ & Hsk & _).
    destruct Wl as (hs & Hfs & Hwfs & Hwe & _ & _ & Hev4 & _ & _).
    rewrite file_of_gfile in Hf. rewrite final_hdr_gfinal in Hfs.
    destruct (gfile_read _ _ _ _ _ _ _ _ _ [] Hf Hfs Hwfs Hwe Hev4)
      as (rs & bs & ebs & Ds & _ & Hfe & _ & _ & Soff & Sps & _).
    rewrite app_nil_r in Ds.
    destruct (gfile_inv _ _ _ _ _ _ _ _ _ Hf Hfs) as (_ & _ & _ & _ & _ & _ & _ & _ & _ & _ & Spsz & _).
    destruct (source_ok backends true rz (g ++ junk) (lzd h fmt) recs (eb ++ junk) Hb Hfind Hsk ltac:(now rewrite Hisz))
      as (s0 & Hsrc & Hpos).
    exists rs, rz, s0. split; [exact Ds|]. split; [exact Dz|]. split; [exact Hsrc|].
    intros ops Hok.
    pose proof (laz_cursor_gen _ _ _ _ ops s0 0 Hpos ltac:(lia) Hok) as HZ.
    split; [|exact HZ]. rewrite HZ, Soff, Sps, Spsz, Hfe. symmetry.
    apply las_cursor_gen; [exact Hps|exact Hrok|lia|exact Hok].
  Qed.

  (* ---------------------------------------------------------------------------------- *)
  (* non-seekable sources: the backend list falls back to the serial variant, the EVLRs
     are taken from what follows the stream                                              *)
  (* ---------------------------------------------------------------------------------- *)
  Theorem laz_transparent_nonseekable : forall h vl fmt recs evl g backends junk,
    wf_las ap h vl fmt recs evl -> wf_laz h vl fmt recs evl ->
    laz_file_of h vl fmt recs evl = Ok g -> In false backends ->
    exists lg, read_laz_ns backends (g ++ junk) = Ok lg
      /\ lz_points lg = recs /\ rh_vlrs (lz_h lg) = vl
      /\ rh_evlrs (lz_h lg) = (if aint h "version.minor" >=? 4 then Some evl else None).
  Proof using Hap H_isz H_feed H_open_sound H_open_serial H_open_parallel H_read H_seek H_rest H_append.
    intros h vl fmt recs evl g backends junk Wl Wz Hg Hb.
    destruct (wf_facts _ _ _ _ _ Wl Wz) as (Hisz & Hrok & Hps & Hvlz).
    destruct (laz_header_back h vl fmt recs evl g junk Wl Wz Hg)
      as (rz & hz & eb & _ & Dz0 & _ & Heb & Hfind & Hstrip & Hsk & _ & Zcomp & _ & _ & _ & Zcnt & Zmn & Zm & Zev0 & Zev1 & Zget).
    destruct Wl as (_ & _ & _ & Hwe & _ & _ & Hev4 & _ & _).
    set (m := aint h "version.minor") in *.
    assert (aint (rh_fields rz) "version.minor" = m) as Hminor
      by (rewrite (aint_of_get _ hz "version.minor" eq_refl eq_refl (Zget _ (minor_name m Zm))); exact Zmn).
    assert (m >=? 4 = true -> aint (rh_fields rz) "number_of_evlrs" = len evl) as Hnev.
    { intros E4. assert (m = 4) as M4 by lia. rewrite M4 in Zget. destruct evlr_names as [N1 _].
      rewrite (aint_of_get _ hz "number_of_evlrs" eq_refl eq_refl (Zget _ N1)).
      destruct evl as [|e es]; [now rewrite Zev0|now destruct (Zev1 ltac:(discriminate))]. }
    (* whenever the source is needed it is there, and reading every point leaves it at the end *)
    assert (exists s, laz_source backends false (with_vlrs rz (rh_vlrs rz) None) (g ++ junk) = Ok s
                      /\ dpos false (lzd h fmt) recs (eb ++ junk) s 0) as (s & Hsrc & Hpos).
    { apply (source_ok backends false _ (g ++ junk) (lzd h fmt) recs (eb ++ junk) Hb); [exact Hfind|exact Hsk|now rewrite Hisz]. }
    assert (exists r, (if len recs <=? 0 then Ok (s, []) else d_read s (len recs)) = Ok r /\ snd r = recs
                      /\ dpos false (lzd h fmt) recs (eb ++ junk) (fst r) (len recs)) as (r & Hr & Hr2 & Hpos').
    { destruct (len recs <=? 0) eqn:Ez.
      - rewrite (nil_of_len _ Ez) in *. exists (s, []). repeat split. exact Hpos.
      - destruct (H_read _ _ _ _ _ 0 (len recs) Hpos ltac:(apply len_nonneg) ltac:(lia)) as (s' & Hrd & Hp').
        exists (s', recs). split; [|split; [reflexivity|exact Hp']].
        rewrite Hrd. cbn [Z.to_nat skipn]. now rewrite to_nat_len, firstn_all. }
    assert (forall held, (if len recs <=? 0 then held else reader_touch_vlrs held true (len recs))
                         = if len recs <=? 0 then held else remove_first is_laszip held) as Htouch.
    { intros held. destruct (len recs <=? 0) eqn:Ez; [reflexivity|]. unfold reader_touch_vlrs.
      replace (len recs >? 0) with true by lia. reflexivity. }
    assert (reader_open_vlrs (rh_vlrs rz) true (len recs) = if len recs <=? 0 then vl else rh_vlrs rz) as Hopen.
    { unfold reader_open_vlrs. destruct (len recs <=? 0) eqn:Ez.
      - replace (len recs =? 0) with true by (pose proof (len_nonneg recs); lia). cbn [andb].
        change gen_reader_pops_laszip_when_empty with true. cbv iota. exact Hstrip.
      - replace (len recs =? 0) with false by lia. reflexivity. }
    assert ((if len recs <=? 0 then (if len recs <=? 0 then vl else rh_vlrs rz)
             else remove_first is_laszip (if len recs <=? 0 then vl else rh_vlrs rz)) = vl) as Hheld
      by (destruct (len recs <=? 0); [reflexivity|exact Hstrip]).
    unfold B_read_ns, Laz.read_laz_ns. fold (B_source B). rewrite Dz0. cbn [bind with_vlrs rh_fields rh_vlrs rh_compressed rh_offset rh_psize].
    rewrite Zcnt, Zcomp, Hminor, Hopen.
    destruct (m >=? 4) eqn:E4.
    - rewrite (Hnev eq_refl). cbn [andb].
      destruct evl as [|e es].
      + change (len (@nil vlr) >? 0) with false. cbn [negb andb].
        destruct (len recs <=? 0) eqn:Ez.
        * rewrite (nil_of_len _ Ez). cbn [andb]. eexists. split; [reflexivity|]. cbn. repeat split.
        * cbn [andb]. rewrite Hsrc. cbn [bind]. cbv iota in Hr. rewrite Hr. cbn [bind].
          eexists. split; [reflexivity|]. cbn [lz_points lz_h with_vlrs rh_vlrs rh_evlrs].
          split; [exact Hr2|]. split; [|reflexivity].
          unfold reader_touch_vlrs. replace (len recs >? 0) with true by lia. exact Hstrip.
      + replace (len (e :: es) >? 0) with true by (unfold len; cbn [length]; lia).
        rewrite andb_false_r. rewrite Hsrc. cbn [bind]. rewrite Hr. cbn [bind].
        rewrite (H_rest _ _ _ _ Hpos'). cbn [bind]. rewrite to_nat_len.
        rewrite (dec_enc_vlrs true (e :: es) eb junk Hwe Heb). cbn [bind fst].
        eexists. split; [reflexivity|]. cbn [lz_points lz_h with_vlrs rh_vlrs rh_evlrs].
        split; [exact Hr2|]. split; [|reflexivity]. rewrite Htouch. exact Hheld.
    - cbn [andb negb].
      assert (evl = []) as -> by (destruct Hev4 as [->|H4]; [reflexivity|lia]).
      destruct (len recs <=? 0) eqn:Ez.
      + rewrite (nil_of_len _ Ez). cbn [andb]. eexists. split; [reflexivity|]. cbn. repeat split.
      + cbn [andb]. rewrite Hsrc. cbn [bind]. cbv iota in Hr. rewrite Hr. cbn [bind].
        eexists. split; [reflexivity|]. cbn [lz_points lz_h with_vlrs rh_vlrs rh_evlrs].
        split; [exact Hr2|]. split; [|reflexivity].
        unfold reader_touch_vlrs. replace (len recs >? 0) with true by lia. exact Hstrip.
  Qed.

  (* ---------------------------------------------------------------------------------- *)
  (* appending                                                                           *)
  (* ---------------------------------------------------------------------------------- *)
  (* an accepted append session on the compressed file of A produces the compressed file of A ++ the chunks
     (followed by whatever bytes of the old file were not overwritten, which no pointer of the new file reaches) *)
  Theorem laz_append_equiv : forall h vl fmt A evl Bs g0 g1 p,
    wf_las ap h vl fmt A evl -> wf_laz h vl fmt A evl ->
    wf_las ap h vl fmt (A ++ concat Bs) evl -> wf_laz h vl fmt (A ++ concat Bs) evl ->
    laz_file_of h vl fmt A evl = Ok g0 -> laz_file_of h vl fmt (A ++ concat Bs) evl = Ok g1 ->
    exists junk, lz_arun p g0 Bs = Ok (g1 ++ junk).
  Proof using Hap H_isz H_feed H_open_sound H_open_serial H_open_parallel H_read H_seek H_rest H_append.
    intros h vl fmt A evl Bs g0 g1 p WlA WzA WlAB WzAB Hg0 Hg1.
    destruct (wf_facts _ _ _ _ _ WlA WzA) as (Hisz & HrokA & Hps & Hvlz).
    destruct (wf_facts _ _ _ _ _ WlAB WzAB) as (_ & HrokAB & _ & _).
    destruct WlA as (_ & _ & _ & Hwe & _ & _ & Hev4 & _ & Hfmt).
    destruct WzA as (hzA & HfzA & HwfzA & Hclean & Hpid & Hfr).
    destruct WzAB as (hzAB & HfzAB & HwfzAB & _ & _ & _).
    rewrite laz_file_of_unfold in Hg0, Hg1. rewrite laz_final_hdr_unfold in HfzA, HfzAB.
    set (d := lzd h fmt) in *.
    destruct (gfile_parts _ _ _ _ _ _ _ _ Hg0) as (h0 & b0 & eb & hA & bA & E0 & Eeb & EA & Hg0e & HfA).
    destruct (gfile_parts _ _ _ _ _ _ _ _ Hg1) as (h0' & b0' & eb' & hAB & bAB & E0' & Eeb' & EAB & Hg1e & HfAB).
    rewrite E0 in E0'. injection E0' as <- <-. rewrite Eeb in Eeb'. injection Eeb' as <-.
    rewrite HfzA in HfA. injection HfA as <-. rewrite HfzAB in HfAB. injection HfAB as <-.
    rewrite gstats_hc in EA, EAB.
    set (stA := gstats ap fmt h A evl (len b0 + len (enc d A))) in *.
    set (stAB := gstats ap fmt h (A ++ concat Bs) evl (len b0 + len (enc d (A ++ concat Bs)))) in *.
    pose proof (wfst_gstats ap fmt h A evl (len b0 + len (enc d A))) as WstA. fold stA in WstA.
    pose proof (wfst_gstats ap fmt h (A ++ concat Bs) evl (len b0 + len (enc d (A ++ concat Bs)))) as WstAB. fold stAB in WstAB.
    set (m := aint h0 "version.minor").
    pose proof (rb_range _ _ _ _ _ WstA EA) as Hm. fold m in Hm.
    (* decoding the header of g0 *)
    destruct (parts_read _ _ _ _ _ _ _ (enc d A ++ eb) E0 WstA EA HwfzA) as (rh & Dz & Rv & Roff & Rps & Rfmt & Hr).
    fold m in Hr. pose proof Hr as (Hget & Heh & Hev).
    pose proof (rb_stats _ _ _ _ _ _ _ E0 WstA EA _ Hget) as Hag0. fold m in Hag0.
    pose proof (rb_minor_hd _ _ _ _ _ _ _ E0 WstA EA _ Hget) as Hmin. fold m in Hmin.
    pose proof (fun n => rb_core _ _ _ _ _ _ _ E0 WstA EA _ Hget n) as Hcore.
    pose proof (fun n => rb_plain_wval _ _ _ _ _ _ _ E0 WstA EA _ Hget n) as Hplain. fold m in Hplain.
    destruct (rb_bytes _ _ _ _ _ _ _ E0 WstA EA _ Heh Hev) as [Hb1 Hb2].
    pose proof (rb_len _ _ _ _ _ _ _ E0 EA) as LA. pose proof (rb_len _ _ _ _ _ _ _ E0 EAB) as LAB.
    set (hd := rh_fields rh) in *.
    assert (aint h "version.minor" = m) as Hmh.
    { unfold m. rewrite (open_plain_aint _ _ _ _ "version.minor" E0 eq_refl eq_refl). unfold hc. now rewrite aint_aset_other by reflexivity. }
    assert (rh_fmt rh = fmt) as Rfmt'.
    { rewrite Rfmt, (rb_aintR _ _ _ _ _ _ _ E0 WstA EA).
      rewrite aint_with_stats_none by (apply sval_none; [exact WstA|reflexivity]).
      rewrite (open_plain_aint _ _ _ _ "point_format_id" E0 eq_refl eq_refl).
      unfold hc. rewrite aint_aset_same, Hpid. now destruct (bits_64 fmt Hfr) as (_ & -> & _). }
    subst g0 g1.
    (* the pieces of lz_arun *)
    destruct (H_append p d A eb ltac:(now rewrite Hisz)) as (cs0 & Hao & Hcont).
    assert (b_done B (fold_left (b_feed B) (filter nonempty Bs) cs0) = enc d (A ++ concat Bs)) as Hpay.
    { rewrite <- (concat_filter_nonempty Bs). apply Hcont; [|apply filter_nonempty_Forall].
      rewrite concat_filter_nonempty, Hisz. rewrite recs_ok_app in HrokAB. now apply andb_true_iff in HrokAB as [_ ?]. }
    assert (find is_laszip (rh_vlrs rh) = Some (mk_laszip d)) as Hfind
      by (rewrite Rv, Hvlz; now apply find_laszip_last).
    assert (skipn (Z.to_nat (rh_offset rh)) (bA ++ enc d A ++ eb) = enc d A ++ eb) as Hsk
      by (rewrite Roff, to_nat_len; now rewrite (skipn_app_exact bA _ _ eq_refl)).
    (* the statistics after the chunks agree with those of the longer file, up to the EVLR pointer *)
    assert (forall i, aint hd (axis_name "scales" i) = aint h (axis_name "scales" i)) as Hsc.
    { intros i. destruct (Hcore _ (axis_core "scales" i (or_introl eq_refl))) as [-> _].
      rewrite (open_plain_aint _ _ _ _ _ E0) by (destruct i as [|[|i]]; reflexivity). apply hc_axis. now left. }
    assert (forall i, aint hd (axis_name "offsets" i) = aint h (axis_name "offsets" i)) as Hof.
    { intros i. destruct (Hcore _ (axis_core "offsets" i (or_intror eq_refl))) as [-> _].
      rewrite (open_plain_aint _ _ _ _ _ E0) by (destruct i as [|[|i]]; reflexivity). apply hc_axis. now right. }
    pose proof (fold_sagree_astep ap m fmt hd h Hsc Hof Bs _ _ Hag0) as Hfold.
    set (st1 := fold_left (astep ap fmt hd) Bs (stats_of_header hd)) in *.
    (* unfold the session *)
    unfold B_append, Laz.lz_arun. rewrite Dz. cbn [bind]. fold hd. rewrite Hfind. cbn [v_data mk_laszip].
    rewrite Hsk, Hao, Hmin, Rfmt', Rv, Roff. rewrite fold_astep_filter. fold st1. rewrite Hpay.
    destruct Hag0 as (W1 & _ & _ & _ & _ & _ & He0).
    destruct (list_cases evl) as [Eevl|(e & es & Eevl)].
    - (* no EVLRs *)
      assert (eb = []) as -> by (rewrite Eevl in Eeb; cbn [enc_vlrs] in Eeb; now injection Eeb).
      assert ((m >=? 4) && (s_nevlr (stats_of_header hd) >? 0) = false) as ->.
      { destruct (m >=? 4) eqn:E4; [|reflexivity]. assert (m = 4) as M4 by lia.
        destruct (He0 M4) as [_ Hn]. rewrite Hn. unfold stA, gstats. rewrite Eevl. cbn [nonempty].
        destruct (s_nevlr_stats_of ap fmt h A) as [-> _]. reflexivity. }
      cbn [bind]. cbv beta iota.
      assert (sagree m st1 stAB) as Hag'.
      { unfold stAB, gstats. rewrite Eevl. cbn [nonempty]. unfold stA, gstats in Hfold. rewrite Eevl in Hfold. cbn [nonempty] in Hfold.
        rewrite (fold_astep ap Hap) in Hfold. exact Hfold. }
      assert (same_out (enc_header (with_stats hd st1) (writer_vlrs vl true d) true) (enc_header (with_stats h0 stAB) (writer_vlrs vl true d) true)) as Hso.
      { apply (enc_header_agree m); try assumption.
        - reflexivity.
        - apply Hcore. cbn; tauto.
        - intros _. apply Hcore. cbn; tauto.
        - intros n Hin Hs _. now apply Hplain. }
      destruct (enc_header_transfer _ _ _ _ _ _ EAB Hso) as (h1' & Hh1).
      rewrite Hh1. cbn [bind snd]. rewrite !app_nil_r. eexists. rewrite <- !app_assoc. reflexivity.
    - (* EVLRs: version 1.4 *)
      assert (m = 4) as M4.
      { destruct Hev4 as [W|W]; [rewrite Eevl in W; discriminate|]. rewrite Hmh in W. lia. }
      destruct (He0 M4) as [Hs Hn]. unfold stA, gstats in Hs, Hn. rewrite Eevl in Hs, Hn.
      cbn [nonempty set_ev s_evlr_start s_nevlr] in Hs, Hn. rewrite <- Eevl in Hn.
      rewrite Hs, Hn, M4.
      pose proof (len_nonneg es) as Hes.
      assert (len evl = 1 + len es) as Hl by (rewrite Eevl; unfold len; cbn [length]; lia).
      replace ((4 >=? 4) && (len evl >? 0)) with true by lia.
      rewrite <- LA, <- len_app, !to_nat_len. rewrite app_assoc, (skipn_app_exact (bA ++ enc d A) eb _ eq_refl).
      pose proof (dec_enc_vlrs true evl eb [] Hwe Eeb) as Hdv. rewrite app_nil_r in Hdv. rewrite Hdv. cbn [bind fst].
      rewrite Eevl. cbv beta iota. rewrite <- Eevl, Eeb.
      assert (sagree m (lz_set_ev st1 (len bA + len (enc d (A ++ concat Bs))) (s_nevlr st1)) stAB) as Hag'.
      { unfold stAB, gstats. rewrite Eevl. cbn [nonempty]. rewrite <- Eevl.
        unfold stA, gstats in Hfold. rewrite Eevl in Hfold. cbn [nonempty] in Hfold. rewrite <- Eevl in Hfold.
        rewrite fold_astep_set_ev, (fold_astep ap Hap) in Hfold. rewrite LA.
        exact (sagree_close m _ _ _ _ _ M4 Hfold). }
      assert (same_out (enc_header (with_stats hd (lz_set_ev st1 (len bA + len (enc d (A ++ concat Bs))) (s_nevlr st1))) (writer_vlrs vl true d) true)
                       (enc_header (with_stats h0 stAB) (writer_vlrs vl true d) true)) as Hso.
      { apply (enc_header_agree m); try assumption.
        - reflexivity.
        - apply Hcore. cbn; tauto.
        - intros _. apply Hcore. cbn; tauto.
        - intros n Hin Hsn _. now apply Hplain. }
      destruct (enc_header_transfer _ _ _ _ _ _ EAB Hso) as (h1' & Hh1).
      rewrite Hh1. cbn [bind snd]. eexists. rewrite <- !app_assoc. reflexivity.
  Qed.
End Contract.

(* ------------------------------------------------------------------------------------ *)
(* the same theorems, for every backend that honours the contract                        *)
(* ------------------------------------------------------------------------------------ *)
Ltac use_contract HB := destruct HB as (isz0 & dpos0 & C1 & C2 & C3 & C4 & C5 & C6 & C7 & C8 & C9).

Theorem conf_session_equiv : forall ap, ap_ok ap -> forall B, conforming B -> forall h vl fmt chunks evl,
  compat (aint h "version.major") (aint h "version.minor") fmt = true ->
  (evl = [] \/ aint h "version.minor" >= 4) ->
  forall std, std_size fmt = Some std -> std <= aint h "point_size" ->
  recs_ok (aint h "point_size") (concat chunks) = true ->
  B_session ap B h vl fmt chunks evl = B_file_of ap B h vl fmt (concat chunks) evl.
Proof. intros ap Hap B HB. use_contract HB. exact (lz_session_equiv ap Hap B isz0 dpos0 C1 C2 C3 C4 C5 C6 C7 C8 C9). Qed.

Theorem conf_transparent_whole : forall ap, ap_ok ap -> forall B, conforming B -> forall h vl fmt recs evl f g backends junk,
  wf_las ap h vl fmt recs evl -> wf_laz ap B h vl fmt recs evl ->
  file_of ap h vl fmt recs evl = Ok f -> B_file_of ap B h vl fmt recs evl = Ok g ->
  backends <> [] ->
  exists lf lg, read_file f = Ok lf /\ B_read B backends (g ++ junk) = Ok lg
    /\ lz_points lg = recs /\ lf_points lf = recs
    /\ rh_vlrs (lz_h lg) = vl /\ rh_vlrs (lf_h lf) = vl
    /\ rh_evlrs (lz_h lg) = rh_evlrs (lf_h lf)
    /\ rh_psize (lz_h lg) = rh_psize (lf_h lf) /\ rh_fmt (lz_h lg) = rh_fmt (lf_h lf)
    /\ rh_compressed (lz_h lg) = true /\ rh_compressed (lf_h lf) = false
    /\ (forall n, In n (header_field_names (aint h "version.minor")) -> layout_field n = false ->
          aget (rh_fields (lz_h lg)) n = aget (rh_fields (lf_h lf)) n).
Proof. intros ap Hap B HB. use_contract HB. exact (laz_transparent_whole ap Hap B isz0 dpos0 C1 C2 C3 C4 C5 C6 C7 C8 C9). Qed.

Theorem conf_transparent_cursor : forall ap, ap_ok ap -> forall B, conforming B -> forall h vl fmt recs evl f g backends junk,
  wf_las ap h vl fmt recs evl -> wf_laz ap B h vl fmt recs evl ->
  file_of ap h vl fmt recs evl = Ok f -> B_file_of ap B h vl fmt recs evl = Ok g -> backends <> [] ->
  exists rs rz s0, dec_header f true = Ok rs /\ dec_header (g ++ junk) true = Ok rz
    /\ B_source B backends true rz (g ++ junk) = Ok s0
    /\ forall ops, ops_ok (len recs) 0 ops = true ->
         snd (prun (B_pstep B) s0 ops) = snd (prun (las_pstep f (rh_offset rs) (rh_psize rs)) 0 ops)
         /\ snd (prun (B_pstep B) s0 ops) = snd (prun (spec_pstep recs) 0 ops).
Proof. intros ap Hap B HB. use_contract HB. exact (laz_transparent_cursor ap Hap B isz0 dpos0 C1 C2 C3 C4 C5 C6 C7 C8 C9). Qed.

Theorem conf_transparent_nonseekable : forall ap, ap_ok ap -> forall B, conforming B -> forall h vl fmt recs evl g backends junk,
  wf_las ap h vl fmt recs evl -> wf_laz ap B h vl fmt recs evl ->
  B_file_of ap B h vl fmt recs evl = Ok g -> In false backends ->
  exists lg, B_read_ns B backends (g ++ junk) = Ok lg
    /\ lz_points lg = recs /\ rh_vlrs (lz_h lg) = vl
    /\ rh_evlrs (lz_h lg) = (if aint h "version.minor" >=? 4 then Some evl else None).
Proof. intros ap Hap B HB. use_contract HB. exact (laz_transparent_nonseekable ap Hap B isz0 dpos0 C1 C2 C3 C4 C5 C6 C7 C8 C9). Qed.

Theorem conf_append_equiv : forall ap, ap_ok ap -> forall B, conforming B -> forall h vl fmt A evl Bs g0 g1 p,
  wf_las ap h vl fmt A evl -> wf_laz ap B h vl fmt A evl ->
  wf_las ap h vl fmt (A ++ concat Bs) evl -> wf_laz ap B h vl fmt (A ++ concat Bs) evl ->
  B_file_of ap B h vl fmt A evl = Ok g0 -> B_file_of ap B h vl fmt (A ++ concat Bs) evl = Ok g1 ->
  exists junk, B_append ap B p g0 Bs = Ok (g1 ++ junk).
Proof. intros ap Hap B HB. use_contract HB. exact (laz_append_equiv ap Hap B isz0 dpos0 C1 C2 C3 C4 C5 C6 C7 C8 C9). Qed.

(* appending to the compressed file and appending to the uncompressed file of the same data, then reading both:
   the same records (the old ones followed by the chunks), VLRs, EVLRs, format, every non-layout header field *)
Theorem conf_append_transparent : forall ap, ap_ok ap -> (forall s o x, 0 <= ap s o x) -> forall B, conforming B ->
  forall h vl fmt A evl Bs f0 f1 g0 g1 p backends,
  wf_las ap h vl fmt A evl -> wf_laz ap B h vl fmt A evl ->
  wf_las ap h vl fmt (A ++ concat Bs) evl -> wf_laz ap B h vl fmt (A ++ concat Bs) evl ->
  file_of ap h vl fmt A evl = Ok f0 -> file_of ap h vl fmt (A ++ concat Bs) evl = Ok f1 ->
  B_file_of ap B h vl fmt A evl = Ok g0 -> B_file_of ap B h vl fmt (A ++ concat Bs) evl = Ok g1 ->
  backends <> [] ->
  exists ga lf lg, arun ap f0 Bs = Ok f1 /\ B_append ap B p g0 Bs = Ok ga
    /\ read_file f1 = Ok lf /\ B_read B backends ga = Ok lg
    /\ lz_points lg = A ++ concat Bs /\ lf_points lf = A ++ concat Bs
    /\ rh_vlrs (lz_h lg) = vl /\ rh_vlrs (lf_h lf) = vl
    /\ rh_evlrs (lz_h lg) = rh_evlrs (lf_h lf)
    /\ rh_psize (lz_h lg) = rh_psize (lf_h lf) /\ rh_fmt (lz_h lg) = rh_fmt (lf_h lf)
    /\ (forall n, In n (header_field_names (aint h "version.minor")) -> layout_field n = false ->
          aget (rh_fields (lz_h lg)) n = aget (rh_fields (lf_h lf)) n).
Proof.
  intros ap Hap Hnn B HB h vl fmt A evl Bs f0 f1 g0 g1 p backends WlA WzA WlAB WzAB Hf0 Hf1 Hg0 Hg1 Hb.
  destruct (conf_append_equiv ap Hap B HB h vl fmt A evl Bs g0 g1 p WlA WzA WlAB WzAB Hg0 Hg1) as (junk & Happ).
  pose proof (append_equiv ap Hap Hnn h vl fmt A evl Bs f0 f1 WlA WlAB Hf0 Hf1) as Harun.
  destruct (conf_transparent_whole ap Hap B HB h vl fmt (A ++ concat Bs) evl f1 g1 backends junk WlAB WzAB Hf1 Hg1 Hb)
    as (lf & lg & R1 & R2 & P1 & P2 & V1 & V2 & E & S1 & S2 & _ & _ & F).
  exists (g1 ++ junk), lf, lg. repeat (split; [assumption|]). exact F.
Qed.

(* ---- what was handed out stays what it was: the outputs of a history are values; continuing the history (any further
        in-range reads and seeks) leaves the outputs of the steps already made exactly as they were when they were
        handed out, and those are the slices of the records.  (The implementation hands out mutable buffers: the
        correspondence check keeps every buffer alive until the end of the history and compares it then.) ---- *)
Lemma prun_fst_cons {S} (step : S -> pop -> S * result (list (list Z))) s op ops :
  fst (prun step s (op :: ops)) = fst (prun step (fst (step s op)) ops).
Proof.
  unfold prun at 1. cbn [fold_left fst snd]. destruct (step s op) as [s1 o]. cbn [app fst snd].
  rewrite prun_gen. reflexivity.
Qed.

Lemma prun_app {S} (step : S -> pop -> S * result (list (list Z))) : forall ops1 s ops2,
  snd (prun step s (ops1 ++ ops2)) = snd (prun step s ops1) ++ snd (prun step (fst (prun step s ops1)) ops2).
Proof.
  induction ops1 as [|op ops1 IH]; intros s ops2; [reflexivity|].
  rewrite <- app_comm_cons, !prun_cons, prun_fst_cons, IH. reflexivity.
Qed.

Lemma prun_length {S} (step : S -> pop -> S * result (list (list Z))) : forall ops s,
  length (snd (prun step s ops)) = length ops.
Proof.
  induction ops as [|op ops IH]; intros s; [reflexivity|]. rewrite prun_cons. cbn [length]. now rewrite IH.
Qed.

Lemma prun_prefix {S} (step : S -> pop -> S * result (list (list Z))) ops1 ops2 s :
  firstn (length ops1) (snd (prun step s (ops1 ++ ops2))) = snd (prun step s ops1).
Proof.
  rewrite prun_app. rewrite <- (prun_length step ops1 s) at 1.
  rewrite firstn_app, Nat.sub_diag, firstn_all. cbn [firstn]. now rewrite app_nil_r.
Qed.

Lemma ops_ok_prefix : forall ops1 ops2 total c, ops_ok total c (ops1 ++ ops2) = true -> ops_ok total c ops1 = true.
Proof.
  induction ops1 as [|op ops1 IH]; intros ops2 total c H; [reflexivity|].
  rewrite <- app_comm_cons in H. destruct op as [n|i]; cbn [ops_ok] in *.
  - apply andb_true_iff in H as [H1 H2]. rewrite H1. cbn [andb]. exact (IH _ _ _ H2).
  - apply andb_true_iff in H as [H1 H2]. rewrite H1. cbn [andb]. exact (IH _ _ _ H2).
Qed.

Theorem conf_results_persist : forall ap, ap_ok ap -> forall B, conforming B -> forall h vl fmt recs evl f g backends junk,
  wf_las ap h vl fmt recs evl -> wf_laz ap B h vl fmt recs evl ->
  file_of ap h vl fmt recs evl = Ok f -> B_file_of ap B h vl fmt recs evl = Ok g -> backends <> [] ->
  exists rz s0, dec_header (g ++ junk) true = Ok rz /\ B_source B backends true rz (g ++ junk) = Ok s0
    /\ forall ops1 ops2, ops_ok (len recs) 0 (ops1 ++ ops2) = true ->
         firstn (length ops1) (snd (prun (B_pstep B) s0 (ops1 ++ ops2))) = snd (prun (B_pstep B) s0 ops1)
         /\ firstn (length ops1) (snd (prun (B_pstep B) s0 (ops1 ++ ops2))) = snd (prun (spec_pstep recs) 0 ops1).
Proof.
  intros ap Hap B HB h vl fmt recs evl f g backends junk Wl Wz Hf Hg Hb.
  destruct (conf_transparent_cursor ap Hap B HB h vl fmt recs evl f g backends junk Wl Wz Hf Hg Hb)
    as (rs & rz & s0 & _ & Hz & Hs & Hops).
  exists rz, s0. split; [exact Hz|]. split; [exact Hs|]. intros ops1 ops2 Hok.
  rewrite prun_prefix. split; [reflexivity|].
  exact (proj2 (Hops ops1 (ops_ok_prefix ops1 ops2 _ _ Hok))).
Qed.
Print Assumptions conf_results_persist.
