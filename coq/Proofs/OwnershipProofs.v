(* Proofs for C18 (Model/Ownership.v). The facts about the generated skeleton (Gen/GenOwnership.v) are obtained by
   computation on the generated terms: narrowing an except clause, dropping a closefd guard, turning a close into a
   no-op or creating the empty point reader without its source changes those terms and the lemmas below stop checking. *)
From Coq Require Import ZArith List Bool Lia ZifyBool.
From LasV Require Import Lib.Base Gen.GenCursor Gen.GenOwnership Model.Ownership.
Import ListNotations.
Open Scope Z_scope.
Open Scope bool_scope.

(* ---------------- facts read off the generated skeleton ---------------- *)
Lemma gen_cf_id m b : gen_init_closefd m (gen_open_ctor_closefd m b) = b.
Proof. destruct m, b; reflexivity. Qed.

Lemma gen_read_las_cf_id b : gen_read_las_closefd b = b.
Proof. destruct b; reflexivity. Qed.

Lemma gen_exit_closes_all m : gen_exit_closes m = true.
Proof. destruct m; reflexivity. Qed.

Lemma gen_lasdata_cf : gen_init_closefd MW gen_lasdata_write_closefd = false.
Proof. reflexivity. Qed.

Lemma gen_pre_assert_r : gen_open_pre_assert_seekable MR = false.
Proof. reflexivity. Qed.

Definition ps_ok (p : psrc) : Prop := match p with PNone => True | PReal b | PNull b => b = true end.

(* a point source that was built holds the reader's source; building it may have raised (LAZ-flagged file, no backend) *)
Definition made_ok (m : made) : Prop := match m with Made p => ps_ok p | NotMade _ => True end.

Lemma new_ps_ok f : made_ok (new_ps f).
Proof. unfold new_ps. destruct (0 <? f_count f), (is_laz f); cbn; try reflexivity; exact I. Qed.

Lemma is_laz_none f : f_laz f = None -> is_laz f = false.
Proof. unfold is_laz. intros ->. reflexivity. Qed.

Lemma is_laz_some f x : f_laz f = Some x -> is_laz f = true.
Proof. unfold is_laz. intros ->. reflexivity. Qed.

Lemma new_ps_real f : 0 < f_count f -> f_laz f = None -> new_ps f = Made (PReal true).
Proof. intros H Hl. unfold new_ps. replace (0 <? f_count f) with true by lia. rewrite (is_laz_none f Hl). reflexivity. Qed.

(* a LAZ-flagged file with points, in an environment where no backend builds a reader: building the point source raises *)
Lemma new_ps_laz f x : 0 < f_count f -> f_laz f = Some x -> new_ps f = NotMade x.
Proof. intros H Hl. unfold new_ps. replace (0 <? f_count f) with true by lia. rewrite (is_laz_some f x Hl), Hl. reflexivity. Qed.

Lemma ensure_ps_ok h : ps_ok (h_ps h) -> made_ok (ensure_ps h).
Proof. unfold ensure_ps. destruct (h_ps h) eqn:E; intros H; try exact H. apply new_ps_ok. Qed.

(* ---------------- closing ---------------- *)
Lemma close_handle_closed h s : s_closed s = false -> ps_ok (h_ps h) ->
  s_closed (close_handle h s) = h_closefd h.
Proof.
  intros Hs Hp. destruct h as [m cf d p f r pe]. cbn in Hp.
  destruct m, cf, p as [|b|b]; cbn in Hp; subst; cbn; try reflexivity; exact Hs.
Qed.

Lemma close_handle_pos h s : s_pos (close_handle h s) = s_pos s /\ s_cap (close_handle h s) = s_cap s.
Proof.
  destruct h as [m cf d p f r pe].
  destruct m, cf, p as [|b|b]; try destruct b; cbn; split; reflexivity.
Qed.

Lemma handle_exn_closed m cf x s : s_closed s = false ->
  s_closed (handle_exn (gen_open_handlers m cf) x s) = cf.
Proof. intros Hs. destruct m, cf, x; cbn; try reflexivity; exact Hs. Qed.

(* ---------------- fault points of the close methods ---------------- *)
Lemma top_act_closed p a s : s_closed (top_act p s a) = s_closed s || acts_close p [a].
Proof. destruct a, p as [|b|b]; try destruct b; cbn; destruct (s_closed s); reflexivity. Qed.

Lemma fold_acts_closed p acts : forall s, s_closed (fold_left (top_act p) acts s) = s_closed s || acts_close p acts.
Proof.
  induction acts as [|a r IH]; intros s.
  - cbn. rewrite orb_false_r. reflexivity.
  - cbn [fold_left]. rewrite IH, top_act_closed. unfold acts_close at 3. cbn [fold_left]. rewrite IH, top_act_closed.
    cbn [s_closed orb]. rewrite orb_assoc. reflexivity.
Qed.

(* a stream laspy was told to leave open: whatever statement of a close method raises, no close action has run or runs *)
Lemma close_faults_keep_open m p : ps_ok p ->
  forallb (fun e => match e with None => true | Some acts => negb (acts_close p acts) end) (close_faults m false (has_ps p) true) = true.
Proof. intros Hp. destruct m, p as [|b|b]; cbn in Hp; subst; reflexivity. Qed.

Lemma close_faults_safe_spec m cf p acts j : close_faults_safeb = true -> ps_ok p ->
  nth_error (close_faults m cf (has_ps p) true) j = Some (Some acts) -> acts_close p acts = cf.
Proof.
  intros Hs Hp Hn. unfold close_faults_safeb in Hs. rewrite forallb_forall in Hs.
  assert (Hm : In m [MR; MW; MA]) by (destruct m; cbn; tauto). specialize (Hs m Hm). rewrite forallb_forall in Hs.
  assert (Hc : In cf [true; false]) by (destruct cf; cbn; tauto). specialize (Hs cf Hc). rewrite forallb_forall in Hs.
  assert (Hpp : In p [PNone; PReal true; PNull true]) by (destruct p as [|b|b]; cbn in Hp; subst; cbn; tauto).
  specialize (Hs p Hpp). rewrite forallb_forall in Hs. specialize (Hs _ (nth_error_In _ _ Hn)). cbn in Hs.
  apply eqb_prop. exact Hs.
Qed.

(* ---------------- invariant ---------------- *)
Definition h_ok (s : stream) (h : handle) : Prop :=
  s_closed s = false /\ h_closefd h = h_declared h /\ ps_ok (h_ps h).

Definition same_own (h h' : handle) : Prop :=
  h_mode h' = h_mode h /\ h_closefd h' = h_closefd h /\ h_declared h' = h_declared h /\ h_file h' = h_file h.

Lemma same_own_refl h : same_own h h.
Proof. repeat split. Qed.

Lemma do_read_points_ok n h s : h_ok s h ->
  let r := do_read_points n h s in h_ok (snd (fst r)) (fst (fst r)) /\ same_own h (fst (fst r)).
Proof.
  intros (Hc & Hd & Hp). unfold do_read_points.
  destruct (gen_read_points (f_count (h_file h)) (h_read h) n) as [pr k].
  destruct (k <? 0); cbn.
  - split; [repeat split; assumption | repeat split].
  - pose proof (ensure_ps_ok h Hp) as He.
    destruct (ensure_ps h) as [[|b|b]|x] eqn:E; cbn; try destruct (torn _ _); cbn;
      (split; [repeat split; assumption | repeat split]).
Qed.

Lemma do_seek_ok pos wh h s : h_ok s h ->
  let r := do_seek pos wh h s in h_ok (snd (fst r)) (fst (fst r)) /\ same_own h (fst (fst r)).
Proof.
  intros (Hc & Hd & Hp). unfold do_seek.
  destruct (gen_seek (f_count (h_file h)) (h_read h) pos wh) as [[pr idx]|e]; cbn.
  - pose proof (ensure_ps_ok h Hp) as He.
    destruct (ensure_ps h) as [[|b|b]|x] eqn:E; cbn; try destruct (s_seekable s); cbn;
      (split; [repeat split; assumption | repeat split]).
  - split; [repeat split; assumption | repeat split].
Qed.

Lemma load_pending_ok h s : h_ok s h ->
  let r := load_pending h s in h_ok (snd (fst r)) (fst (fst r)) /\ same_own h (fst (fst r)).
Proof.
  intros (Hc & Hd & Hp). unfold load_pending.
  destruct (query gen_reader_read_query (s_cap s)) as [[|]|];
    [destruct (evlr_query (h_file h) (s_cap s)) as [[|]|]; [destruct (f_evlr_bad (h_file h))| |]
    |destruct (is_laz (h_file h)); [|destruct (f_evlr_bad (h_file h))]|]; cbn;
    (split; [repeat split; assumption | repeat split]).
Qed.

Lemma do_read_all_ok h s : h_ok s h ->
  let r := do_read_all h s in h_ok (snd (fst r)) (fst (fst r)) /\ same_own h (fst (fst r)).
Proof.
  intros H. unfold do_read_all.
  pose proof (do_read_points_ok (-1) h s H) as (H1 & S1).
  destruct (do_read_points (-1) h s) as [[h1 s1] r1]. cbn [fst snd] in H1, S1.
  destruct H1 as (Hc & Hd & Hp). destruct S1 as (Sm & Sc & Sd & Sf).
  destruct r1; try (cbn; split; [repeat split; assumption | repeat split; assumption]).
  destruct (h_pending_evlrs h1).
  - pose proof (ensure_ps_ok h1 Hp) as He.
    destruct (ensure_ps h1) as [p1|x1]; [|cbn; split; [repeat split; assumption | repeat split; assumption]].
    cbn [made_ok] in He.
    destruct (ps_src_some p1).
    + assert (H2 : h_ok s1 (set_ps h1 p1)) by (repeat split; assumption).
      pose proof (load_pending_ok _ _ H2) as (Hok & (Tm & Tc & Td & Tf)).
      cbn zeta in Hok, Tm, Tc, Td, Tf. cbn zeta.
      split; [exact Hok|]. cbn [set_ps h_mode h_closefd h_declared h_file] in Tm, Tc, Td, Tf.
      repeat split; congruence.
    + cbn. split; [repeat split; assumption | repeat split; assumption].
  - cbn. split; [repeat split; assumption | repeat split; assumption].
Qed.

Lemma op_fault_ok h s : h_ok s h -> h_ok s (op_fault h) /\ same_own h (op_fault h).
Proof.
  intros (Hc & Hd & Hp). unfold op_fault. destruct (is_r (h_mode h)).
  - pose proof (ensure_ps_ok h Hp) as He. destruct (ensure_ps h) as [p1|x1].
    + split; [split; [exact Hc | split; [exact Hd | exact He]] | repeat split].
    + split; [repeat split; assumption | repeat split].
  - split; [repeat split; assumption | repeat split].
Qed.

Lemma obs_full_ok o : obs_ok_full o -> obs_ok o.
Proof.
  unfold obs_ok_full, obs_ok. intros H Hp Hw. specialize (H Hp Hw).
  destruct (is_close_fault (o_how o)); [intros Hc; rewrite <- H; exact Hc | exact H].
Qed.

(* The invariant of a run, in two readings of the log. strict = false: obs_ok (a close method that raises is judged in
   one direction); strict = true: obs_ok_full (the full iff there too), available when every fault point of the generated
   close methods still runs the close action. *)
Section Invariant.
Variable strict : bool.
Hypothesis Hstrict : strict = true -> close_faults_safeb = true.

Definition obs_good (o : obs) : Prop := if strict then obs_ok_full o else obs_ok o.

Lemma full_good o : obs_ok_full o -> obs_good o.
Proof. unfold obs_good. destruct strict; [trivial | apply obs_full_ok]. Qed.

Definition inv (t : st) : Prop :=
  Forall obs_good (st_log t) /\ match st_h t with Some h => h_ok (st_s t) h | None => True end.

Lemma obs_good_app l o : Forall obs_good l -> obs_good o -> Forall obs_good (l ++ [o]).
Proof. intros Hl Ho. apply Forall_app. split; [exact Hl | constructor; [exact Ho | constructor]]. Qed.

Lemma end_handle_facts hw via t h : hw <> HPrecondition -> inv t -> st_h t = Some h ->
  let t' := end_handle hw via t h in
  inv t' /\ st_h t' = None /\ s_closed (st_s t') = h_declared h.
Proof.
  intros Hhw (Hl & Hh) Eh. rewrite Eh in Hh. destruct Hh as (Hc & Hd & Hp).
  unfold end_handle. rewrite gen_exit_closes_all. rewrite andb_false_r. cbn [st_s st_h st_log].
  pose proof (close_handle_closed h (st_s t) Hc Hp) as Hcl. rewrite Hd in Hcl.
  split; [|split; [reflexivity | exact Hcl]].
  split; [|exact I]. cbn [st_log]. unfold add_obs. apply obs_good_app; [exact Hl|]. apply full_good.
  intros _ _. cbn. exact Hcl.
Qed.

(* the close method itself raises: no handle is left; a stream laspy was told to leave open is open; under `strict`
   a stream laspy owns is closed *)
Lemma end_handle_fault_facts via j t h t' : inv t -> st_h t = Some h -> end_handle_fault via j t h = Some t' ->
  inv t' /\ st_h t' = None /\ (h_declared h = false -> s_closed (st_s t') = false)
  /\ (strict = true -> s_closed (st_s t') = h_declared h).
Proof.
  intros (Hl & Hh) Eh. rewrite Eh in Hh. destruct Hh as (Hc & Hd & Hp).
  unfold end_handle_fault. rewrite gen_exit_closes_all, andb_false_r.
  destruct (nth_error (close_faults (h_mode h) (h_closefd h) (has_ps (h_ps h)) true) j) as [[acts|]|] eqn:En; try discriminate.
  intros H. injection H as <-. cbn [st_s st_h st_log].
  assert (Hcl : s_closed (fold_left (top_act (h_ps h)) acts (st_s t)) = acts_close (h_ps h) acts).
  { rewrite fold_acts_closed, Hc. reflexivity. }
  assert (Hopen : h_declared h = false -> acts_close (h_ps h) acts = false).
  { intros Hf. rewrite Hd, Hf in En. pose proof (close_faults_keep_open (h_mode h) (h_ps h) Hp) as Hk.
    rewrite forallb_forall in Hk. specialize (Hk _ (nth_error_In _ _ En)). cbn in Hk.
    destruct (acts_close (h_ps h) acts); [discriminate | reflexivity]. }
  assert (Hfull : strict = true -> acts_close (h_ps h) acts = h_declared h).
  { intros Hs. rewrite <- Hd. exact (close_faults_safe_spec _ _ _ _ _ (Hstrict Hs) Hp En). }
  split; [|split; [reflexivity | split; [intros Hf; rewrite Hcl; exact (Hopen Hf) | intros Hs; rewrite Hcl; exact (Hfull Hs)]]].
  split; [|exact I]. unfold add_obs. apply obs_good_app; [exact Hl|].
  unfold obs_good. destruct strict eqn:Es.
  - intros _ _. cbn. rewrite Hcl. exact (Hfull eq_refl).
  - intros _ _. cbn. rewrite Hcl. intros Ht. destruct (h_declared h); [reflexivity|]. rewrite (Hopen eq_refl) in Ht. discriminate.
Qed.

Lemma do_open_inv declared m cf re f o t : declared = cf -> inv t -> inv (fst (do_open declared m cf re f o t)).
Proof.
  intros Hdecl (Hl & Hh). unfold do_open.
  destruct (st_h t) as [h|] eqn:Eh; [cbn; split; [exact Hl | rewrite Eh; exact Hh]|].
  destruct (gen_open_pre_assert_seekable m && (s_closed (st_s t) || negb (s_seekable (st_s t)))).
  - cbn. split; [|exact I]. unfold add_obs. apply obs_good_app; [exact Hl|]. apply full_good. intros Hne. cbn in Hne. congruence.
  - destruct (s_closed (st_s t)) eqn:Ec.
    + cbn. split; [|exact I]. unfold add_obs. apply obs_good_app; [exact Hl|]. apply full_good.
      intros _ Hw. cbn in Hw. rewrite Ec in Hw. discriminate.
    + assert (Hfail : forall x, inv (mkSt (handle_exn (gen_open_handlers m cf) x (st_s t)) None
                                      (add_obs t (handle_exn (gen_open_handlers m cf) x (st_s t)) HFailedOpen declared))).
      { intros x. split; [|exact I]. unfold add_obs. apply obs_good_app; [exact Hl|]. apply full_good. intros _ _. cbn.
        rewrite (handle_exn_closed m cf x _ Ec). symmetry. exact Hdecl. }
      destruct (is_a m && negb (s_seekable (st_s t))); [apply Hfail|].
      destruct (open_exn m o f re (s_cap (st_s t))) as [x|]; [apply Hfail|].
      cbn. split; [exact Hl|]. split; [|split].
      * destruct (is_r m); [cbn; exact Ec | exact Ec].
      * cbn. rewrite gen_cf_id. symmetry. exact Hdecl.
      * cbn. exact I.
Qed.

Lemma lasdata_write_inv o t : inv t -> inv (fst (do_lasdata_write o t)).
Proof.
  intros (Hl & Hh).
  assert (Hobs : forall s', s_closed s' = s_closed (st_s t) -> obs_good (mkO HLasDataWrite false (negb (s_closed (st_s t))) (s_closed s'))).
  { intros s' E. apply full_good. intros _ Hw. cbn in *. rewrite E. destruct (s_closed (st_s t)); [discriminate|reflexivity]. }
  unfold do_lasdata_write.
  destruct (s_closed (st_s t) || negb (s_seekable (st_s t))).
  - cbn. split; [apply obs_good_app; [exact Hl | apply Hobs; reflexivity] | exact Hh].
  - destruct (fail_exn MW o).
    + cbn. split; [apply obs_good_app; [exact Hl | apply Hobs; reflexivity] | exact Hh].
    + rewrite gen_exit_closes_all.
      assert (Hs : close_handle (mkH MW (gen_init_closefd MW gen_lasdata_write_closefd) false PNone f_none 0 false) (st_s t) = st_s t)
        by reflexivity.
      rewrite Hs. cbn [fst st_s st_h st_log].
      split; [apply obs_good_app; [exact Hl | apply Hobs; reflexivity] | exact Hh].
Qed.

Lemma upd_inv t h s : Forall obs_good (st_log t) -> h_ok s h -> inv (upd t h s).
Proof. intros Hl Hh. split; [exact Hl | exact Hh]. Qed.

Lemma read_las_facts cf f o t : inv t -> st_h t = None -> s_closed (st_s t) = false ->
  let t' := fst (step t (EReadLas cf f o)) in
  inv t' /\ st_h t' = None /\ s_closed (st_s t') = cf.
Proof.
  intros Hi Eh Ec. cbn [step]. rewrite Eh.
  pose proof (do_open_inv cf MR (gen_read_las_closefd cf) true f o t) as Hopen.
  rewrite gen_read_las_cf_id in *. specialize (Hopen eq_refl Hi).
  unfold do_open in *. rewrite Eh in *. rewrite gen_pre_assert_r in *. cbn [andb] in *.
  rewrite Ec in *. cbn [is_a andb] in *.
  destruct (open_exn MR o f true (s_cap (st_s t))) as [x|].
  - cbn [fst st_h st_s] in *. split; [exact Hopen | split; [reflexivity | apply handle_exn_closed; exact Ec]].
  - cbn [fst st_h st_s is_r] in *.
    set (h0 := mkH MR _ _ _ _ _ _) in *. set (s0 := set_pos _ _) in *.
    destruct Hopen as (Hl0 & Hh0). cbn [st_h st_s st_log] in Hl0, Hh0.
    pose proof (do_read_all_ok h0 s0 Hh0) as (Hok & Hsame).
    destruct (do_read_all h0 s0) as [[h' s'] r]. cbn [fst snd] in Hok, Hsame.
    assert (Hi' : inv (upd (mkSt s0 (Some h0) (st_log t)) h' s')) by (apply upd_inv; assumption).
    assert (Hne : (match r with RDone => HExit | _ => HBodyRaised end) <> HPrecondition) by (destruct r; discriminate).
    pose proof (end_handle_facts _ true _ h' Hne Hi' eq_refl) as (Ha & Hb & Hc).
    cbn [fst]. split; [exact Ha | split; [exact Hb|]].
    rewrite Hc. destruct Hsame as (_ & _ & Hd & _). rewrite Hd. reflexivity.
Qed.

(* laspy.read whose read() fails because the stream did: the same exits as any other failure of read() *)
Lemma read_las_fault_facts cf f x t : inv t -> st_h t = None -> s_closed (st_s t) = false ->
  let t' := fst (step t (EReadLasFault cf f x)) in
  inv t' /\ st_h t' = None /\ s_closed (st_s t') = cf.
Proof.
  intros Hi Eh Ec. cbn [step]. rewrite Eh.
  pose proof (do_open_inv cf MR (gen_read_las_closefd cf) true f OOk t) as Hopen.
  rewrite gen_read_las_cf_id in *. specialize (Hopen eq_refl Hi).
  unfold do_open in *. rewrite Eh in *. rewrite gen_pre_assert_r in *. cbn [andb] in *.
  rewrite Ec in *. cbn [is_a andb] in *.
  destruct (open_exn MR OOk f true (s_cap (st_s t))) as [y|].
  - cbn [fst st_h st_s] in *. split; [exact Hopen | split; [reflexivity | apply handle_exn_closed; exact Ec]].
  - cbn [fst st_h st_s is_r] in *.
    set (h0 := mkH MR _ _ _ _ _ _) in *. set (s0 := set_pos _ _) in *.
    destruct Hopen as (Hl0 & Hh0). cbn [st_h st_s st_log] in Hl0, Hh0.
    pose proof (op_fault_ok h0 s0 Hh0) as (Hok & Hsame).
    assert (Hi' : inv (upd (mkSt s0 (Some h0) (st_log t)) (op_fault h0) s0)) by (apply upd_inv; assumption).
    pose proof (end_handle_facts HBodyRaised true _ (op_fault h0) ltac:(discriminate) Hi' eq_refl) as (Ha & Hb & Hc).
    split; [exact Ha | split; [exact Hb|]].
    rewrite Hc. destruct Hsame as (_ & _ & Hd & _). rewrite Hd. reflexivity.
Qed.

Lemma step_inv t e : inv t -> inv (fst (step t e)).
Proof.
  intros Hi. pose proof Hi as (Hl & Hh).
  destruct e as [m cf re f o|n|pos wh| | | |x| | |o|cf f o|p|x|via j x|cf f x| |m cf p|m]; cbn [step].
  - apply do_open_inv; [reflexivity | exact Hi].
  - unfold on_reader. destruct (st_h t) as [h|] eqn:Eh; [|exact Hi]. destruct (is_r (h_mode h)); [|exact Hi].
    pose proof (do_read_points_ok n h (st_s t) Hh) as (Hok & _).
    destruct (do_read_points n h (st_s t)) as [[h' s'] r]. cbn [fst]. apply upd_inv; assumption.
  - unfold on_reader. destruct (st_h t) as [h|] eqn:Eh; [|exact Hi]. destruct (is_r (h_mode h)); [|exact Hi].
    pose proof (do_seek_ok pos wh h (st_s t) Hh) as (Hok & _).
    destruct (do_seek pos wh h (st_s t)) as [[h' s'] r]. cbn [fst]. apply upd_inv; assumption.
  - unfold on_reader. destruct (st_h t) as [h|] eqn:Eh; [|exact Hi]. destruct (is_r (h_mode h)); [|exact Hi].
    pose proof (do_read_all_ok h (st_s t) Hh) as (Hok & _).
    destruct (do_read_all h (st_s t)) as [[h' s'] r]. cbn [fst]. apply upd_inv; assumption.
  - unfold on_reader. destruct (st_h t) as [h|] eqn:Eh; [|exact Hi]. destruct (is_r (h_mode h)); [|exact Hi].
    destruct Hh as (Hc & Hd & Hp). pose proof (ensure_ps_ok h Hp) as He.
    destruct (ensure_ps h) as [p1|x1]; cbn [fst]; [|exact Hi].
    apply upd_inv; [exact Hl|]. split; [exact Hc | split; [exact Hd | exact He]].
  - unfold on_handle. destruct (st_h t) as [h|] eqn:Eh; [|exact Hi]. destruct (is_r (h_mode h)); exact Hi.
  - unfold on_handle. destruct (st_h t) as [h|] eqn:Eh; [|exact Hi]. cbn [fst].
    apply (end_handle_facts HBodyRaised true t h); [discriminate | exact Hi | exact Eh].
  - unfold on_handle. destruct (st_h t) as [h|] eqn:Eh; [|exact Hi]. cbn [fst].
    apply (end_handle_facts HExit true t h); [discriminate | exact Hi | exact Eh].
  - unfold on_handle. destruct (st_h t) as [h|] eqn:Eh; [|exact Hi]. cbn [fst].
    apply (end_handle_facts HClose false t h); [discriminate | exact Hi | exact Eh].
  - apply lasdata_write_inv. exact Hi.
  - destruct (st_h t) as [h|] eqn:Eh.
    + cbn [fst]. exact Hi.
    + destruct (s_closed (st_s t)) eqn:Ec.
      * (* the stream is already closed: opening fails, nothing changes but the log *)
        pose proof (do_open_inv cf MR (gen_read_las_closefd cf) true f o t) as Hopen.
        rewrite gen_read_las_cf_id in *. specialize (Hopen eq_refl Hi).
        unfold do_open in *. rewrite Eh in *. rewrite gen_pre_assert_r in *. cbn [andb] in *. rewrite Ec in *.
        cbn [fst st_h] in *. exact Hopen.
      * pose proof (read_las_facts cf f o t Hi Eh Ec) as (Ha & _). cbn [step] in Ha. rewrite Eh in Ha. exact Ha.
  - destruct (s_closed (st_s t) || negb (s_seekable (st_s t))) eqn:E; cbn [fst]; [exact Hi|].
    split; [exact Hl|]. cbn [st_h st_s]. destruct (st_h t) as [h|]; [|exact I].
    destruct Hh as (Hc & Hd & Hp). split; [exact Hc | split; assumption].
  - unfold on_handle. destruct (st_h t) as [h|] eqn:Eh; [|exact Hi]. cbn [fst].
    apply upd_inv; [exact Hl | exact (proj1 (op_fault_ok h (st_s t) Hh))].
  - unfold on_handle. destruct (st_h t) as [h|] eqn:Eh; [|exact Hi].
    destruct (end_handle_fault via j t h) as [t'|] eqn:Ef; cbn [fst]; [|exact Hi].
    exact (proj1 (end_handle_fault_facts via j t h t' Hi Eh Ef)).
  - destruct (st_h t) as [h|] eqn:Eh.
    + cbn [fst]. exact Hi.
    + destruct (s_closed (st_s t)) eqn:Ec.
      * pose proof (do_open_inv cf MR (gen_read_las_closefd cf) true f OOk t) as Hopen.
        rewrite gen_read_las_cf_id in *. specialize (Hopen eq_refl Hi).
        unfold do_open in *. rewrite Eh in *. rewrite gen_pre_assert_r in *. cbn [andb] in *. rewrite Ec in *.
        cbn [fst st_h] in *. exact Hopen.
      * pose proof (read_las_fault_facts cf f x t Hi Eh Ec) as (Ha & _). cbn [step] in Ha. rewrite Eh in Ha. exact Ha.
  - unfold on_handle. destruct (st_h t) as [h|] eqn:Eh; [|exact Hi]. cbn [fst]. split; [exact Hl | exact I].
  - destruct (st_h t) as [h|] eqn:Eh; cbn [fst]; [exact Hi | split; [exact Hl | exact I]].
  - destruct (st_h t) as [h|] eqn:Eh; cbn [fst]; exact Hi.
Qed.

Lemma run_inv evs : forall t, inv t -> inv (run t evs).
Proof.
  induction evs as [|e r IH]; intros t Hi; [exact Hi|].
  cbn [run fold_left]. apply IH. apply step_inv. exact Hi.
Qed.

Lemma init_at_inv c p : inv (init_at c p).
Proof. split; [constructor | exact I]. Qed.
End Invariant.

Lemma lasdata_write_stream o t :
  s_closed (st_s (fst (do_lasdata_write o t))) = s_closed (st_s t) /\ st_h (fst (do_lasdata_write o t)) = st_h t.
Proof.
  unfold do_lasdata_write.
  destruct (s_closed (st_s t) || negb (s_seekable (st_s t))); [split; reflexivity|].
  destruct (fail_exn MW o); [split; reflexivity|].
  rewrite gen_exit_closes_all. cbn. split; reflexivity.
Qed.

Lemma loose : false = true -> close_faults_safeb = true.
Proof. discriminate. Qed.

(* the invariant in the reading that needs no hypothesis *)
Definition inv0 := inv false.
Definition run_inv0 evs t : inv0 t -> inv0 (run t evs) := run_inv false loose evs t.
Definition init_at_inv0 c p : inv0 (init_at c p) := init_at_inv false c p.

(* ---------------- the theorems ---------------- *)
Theorem ownership_iff c p evs : Forall obs_ok (st_log (run (init_at c p) evs)).
Proof. exact (proj1 (run_inv0 evs (init_at c p) (init_at_inv0 c p))). Qed.

(* the full iff for a close method that raises too, when every fault point of the generated close methods still runs
   the close action *)
Theorem ownership_iff_full c p evs : close_faults_safeb = true -> Forall obs_ok_full (st_log (run (init_at c p) evs)).
Proof. intros Hs. exact (proj1 (run_inv true (fun _ => Hs) evs (init_at c p) (init_at_inv true c p))). Qed.

(* every observation that is not the w-mode seekability assertion satisfies the boolean reading as well *)
Lemma obs_ok_b o : obs_ok o -> obs_okb o = true.
Proof.
  unfold obs_ok, obs_okb. intros H. destruct (o_how o) eqn:E; try reflexivity; cbn [is_close_fault] in H;
    (destruct (o_was_open o); [cbn | reflexivity]).
  all: try (rewrite H; [apply eqb_reflx | discriminate | reflexivity]).
  destruct (o_closed o); [cbn; apply H; [discriminate | reflexivity | reflexivity] | reflexivity].
Qed.

Theorem ownership_iff_b c p evs : forallb obs_okb (st_log (run (init_at c p) evs)) = true.
Proof.
  apply forallb_forall. intros o Hin. apply obs_ok_b.
  pose proof (ownership_iff c p evs) as H. rewrite Forall_forall in H. exact (H o Hin).
Qed.

Theorem failed_open t m cf re f o x : st_h t = None -> s_closed (st_s t) = false ->
  (gen_open_pre_assert_seekable m = true -> s_seekable (st_s t) = true) ->
  snd (step t (EOpen m cf re f o)) = RRaised x ->
  st_h (fst (step t (EOpen m cf re f o))) = None /\ s_closed (st_s (fst (step t (EOpen m cf re f o)))) = cf.
Proof.
  intros Eh Ec Hpre. cbn [step]. unfold do_open. rewrite Eh, Ec. cbn [orb].
  assert (Hp : gen_open_pre_assert_seekable m && negb (s_seekable (st_s t)) = false).
  { destruct (gen_open_pre_assert_seekable m); [rewrite Hpre by reflexivity; reflexivity | reflexivity]. }
  rewrite Hp.
  destruct (is_a m && negb (s_seekable (st_s t))).
  - cbn. intros _. split; [reflexivity | apply handle_exn_closed; exact Ec].
  - destruct (open_exn m o f re (s_cap (st_s t))) as [y|]; cbn; intros H; [|discriminate].
    split; [reflexivity | apply handle_exn_closed; exact Ec].
Qed.

(* a failed open on a stream that was open always raises: no silent failure, no handle *)
Theorem open_outcome t m cf re f o : st_h t = None -> s_closed (st_s t) = false ->
  (gen_open_pre_assert_seekable m = true -> s_seekable (st_s t) = true) ->
  (is_a m = true -> s_seekable (st_s t) = true) ->
  match open_exn m o f re (s_cap (st_s t)) with
  | Some x => snd (step t (EOpen m cf re f o)) = RRaised x
  | None => snd (step t (EOpen m cf re f o)) = RDone /\
            exists h, st_h (fst (step t (EOpen m cf re f o))) = Some h /\ h_mode h = m /\ h_closefd h = cf /\ h_ps h = PNone /\
                      s_closed (st_s (fst (step t (EOpen m cf re f o)))) = false
  end.
Proof.
  intros Eh Ec Hpre Ha. cbn [step]. unfold do_open. rewrite Eh, Ec. cbn [orb].
  assert (Hp : gen_open_pre_assert_seekable m && negb (s_seekable (st_s t)) = false).
  { destruct (gen_open_pre_assert_seekable m); [rewrite Hpre by reflexivity; reflexivity | reflexivity]. }
  assert (Hq : is_a m && negb (s_seekable (st_s t)) = false).
  { destruct (is_a m); [rewrite Ha by reflexivity; reflexivity | reflexivity]. }
  rewrite Hp, Hq. destruct (open_exn m o f re (s_cap (st_s t))) as [x|]; cbn [fst snd]; [reflexivity|].
  split; [reflexivity|]. eexists. split; [reflexivity|]. cbn [h_mode h_closefd h_ps st_s].
  rewrite gen_cf_id. repeat split. destruct (is_r m); [cbn; exact Ec | exact Ec].
Qed.

Theorem handle_gone c p evs e h : is_end e = true -> st_h (run (init_at c p) evs) = Some h ->
  st_h (fst (step (run (init_at c p) evs) e)) = None /\
  s_closed (st_s (fst (step (run (init_at c p) evs) e))) = h_declared h /\ h_closefd h = h_declared h.
Proof.
  intros He Eh. pose proof (run_inv0 evs (init_at c p) (init_at_inv0 c p)) as Hi.
  set (t := run (init_at c p) evs) in *.
  assert (Hd : h_closefd h = h_declared h) by (destruct Hi as (_ & Hh); rewrite Eh in Hh; exact (proj1 (proj2 Hh))).
  destruct e; try discriminate He; cbn [step]; unfold on_handle; rewrite Eh; cbn [fst].
  - pose proof (end_handle_facts false loose HBodyRaised true t h ltac:(discriminate) Hi Eh) as (_ & A & B). repeat split; assumption.
  - pose proof (end_handle_facts false loose HExit true t h ltac:(discriminate) Hi Eh) as (_ & A & B). repeat split; assumption.
  - pose proof (end_handle_facts false loose HClose false t h ltac:(discriminate) Hi Eh) as (_ & A & B). repeat split; assumption.
Qed.

(* the closefd a live handle carries is the one its Open event was given: the handle of a run is created by an EOpen *)
Theorem write_keeps_open t o :
  s_closed (st_s (fst (step t (ELasDataWrite o)))) = s_closed (st_s t) /\ st_h (fst (step t (ELasDataWrite o))) = st_h t.
Proof. cbn [step]. apply lasdata_write_stream. Qed.

Theorem read_las_closes c p evs cf f o :
  st_h (run (init_at c p) evs) = None -> s_closed (st_s (run (init_at c p) evs)) = false ->
  st_h (fst (step (run (init_at c p) evs) (EReadLas cf f o))) = None /\
  s_closed (st_s (fst (step (run (init_at c p) evs) (EReadLas cf f o)))) = cf.
Proof.
  intros Eh Ec. pose proof (run_inv0 evs (init_at c p) (init_at_inv0 c p)) as Hi.
  pose proof (read_las_facts false loose cf f o _ Hi Eh Ec) as (_ & A & B). split; assumption.
Qed.

(* ---------------- position ---------------- *)
Lemma rd_within size pos n : 0 <= n -> pos + n <= size -> rd size pos n = pos + n.
Proof. intros Hn Hs. unfold rd. replace (n <? 0) with false by lia. lia. Qed.

Lemma prefetch_pos f pos : 227 <= f_offset f -> pos + f_offset f <= f_size f ->
  run_sops f gen_prefetch_ops pos = pos + f_offset f.
Proof.
  intros Ho Hs. unfold run_sops, gen_prefetch_ops. cbn [fold_left sop_step c_pos c_saved c_got].
  rewrite (rd_within (f_size f) pos 227) by lia.
  replace (f_offset f - (0 + (pos + 227 - pos))) with (f_offset f - 227) by lia.
  rewrite rd_within by lia. lia.
Qed.

Lemma evlrs_restore f p : run_sops f gen_read_evlrs_ops p = p.
Proof. reflexivity. Qed.

Theorem open_position t cf re f o : st_h t = None -> s_closed (st_s t) = false ->
  227 <= f_offset f -> s_pos (st_s t) + f_offset f <= f_size f ->
  snd (step t (EOpen MR cf re f o)) = RDone ->
  s_pos (st_s (fst (step t (EOpen MR cf re f o)))) = s_pos (st_s t) + f_offset f.
Proof.
  intros Eh Ec Ho Hs. cbn [step]. unfold do_open. rewrite Eh, Ec, gen_pre_assert_r. cbn [andb orb is_a].
  destruct (open_exn MR o f re (s_cap (st_s t))) as [x|]; cbn [fst snd is_r st_s]; [discriminate|]. intros _.
  unfold set_pos. cbn [s_pos]. unfold header_read_pos. rewrite prefetch_pos by assumption.
  destruct (gen_read_from_prefetch_then_evlrs && re && evlr_guard f (s_cap (st_s t))); [apply evlrs_restore | reflexivity].
Qed.

(* the stream can be asked whether it can seek: LasHeader.read_evlrs does not raise AttributeError *)
Lemma evlr_raises_false f c : query gen_read_evlrs_query c <> None -> evlr_raises f c = false.
Proof.
  intros H. unfold evlr_raises, evlr_query.
  destruct (_ && _); [|reflexivity]. destruct (query gen_read_evlrs_query c); [reflexivity | congruence].
Qed.

Lemma query_answers q c : c <> CapAbsent -> query q c <> None.
Proof. destruct c; cbn; congruence. Qed.

(* a well-formed file whose EVLRs decode opens on every stream that can be asked whether it can seek (with the
   `getattr(.., lambda: False)` spelling of the question that is every stream: read_only_source_opens below): the
   hypothesis of open_position is not vacuous *)
Theorem open_ok_succeeds t cf re f : st_h t = None -> s_closed (st_s t) = false -> f_evlr_bad f = false ->
  query gen_read_evlrs_query (s_cap (st_s t)) <> None ->
  snd (step t (EOpen MR cf re f OOk)) = RDone.
Proof.
  intros Eh Ec Hb Hq. cbn [step]. unfold do_open. rewrite Eh, Ec, gen_pre_assert_r. cbn [andb orb is_a].
  unfold open_exn. cbn [fail_exn]. rewrite Hb, andb_false_r, (evlr_raises_false f _ Hq). cbn [orb]. rewrite andb_false_r. reflexivity.
Qed.

Lemma asked_when_announced : gen_read_evlrs_query_asked true = true.
Proof. reflexivity. Qed.

Lemma evlr_query_announced f c : 4 <= f_minor f -> 0 < f_nevlrs f -> evlr_query f c = query gen_read_evlrs_query c.
Proof.
  intros H4 Hn. unfold evlr_query. replace (4 <=? f_minor f) with true by lia. replace (0 <? f_nevlrs f) with true by lia.
  cbn [andb]. rewrite asked_when_announced. reflexivity.
Qed.

Lemma evlr_guard_announced f c : 4 <= f_minor f -> 0 < f_nevlrs f ->
  evlr_guard f c = match query gen_read_evlrs_query c with Some b => b | None => false end.
Proof.
  intros H4 Hn. unfold evlr_guard. rewrite evlr_query_announced by assumption.
  replace (4 <=? f_minor f) with true by lia. replace (0 <? f_nevlrs f) with true by lia. reflexivity.
Qed.

(* a source that offers only read() (no `seekable` attribute) handed to a reader, the file announcing EVLRs: with the
   question spelt `getattr(stream, "seekable", lambda: False)()` it is a legal source that cannot seek - the open succeeds,
   the stream stays open and the EVLRs are left for read(), which takes them where the stream stands after the last
   point; with `stream.seekable()` loading the EVLRs at opening fails with AttributeError and the stream is closed iff closefd *)
Theorem read_only_source t cf re f : st_h t = None -> s_closed (st_s t) = false -> s_cap (st_s t) = CapAbsent ->
  f_evlr_bad f = false -> f_laz f = None -> 4 <= f_minor f -> 0 < f_nevlrs f ->
  let r := step t (EOpen MR cf re f OOk) in
  match gen_read_evlrs_query with
  | QGetattrFalse =>
      snd r = RDone /\ s_closed (st_s (fst r)) = false /\
      exists h, st_h (fst r) = Some h /\ h_closefd h = cf /\ h_pending_evlrs h = true /\
        match gen_reader_read_query with
        | QGetattrFalse => forall s, s_cap s = CapAbsent ->
            do_read_all (set_ps (set_read h (f_count f)) (PReal true)) s =
            (clear_pending (set_ps (set_read h (f_count f)) (PReal true)), set_pos s (rd (f_size f) (s_pos s) (f_evlr_bytes f)), RDone)
        | QCall => forall s, s_cap s = CapAbsent -> snd (do_read_all (set_ps (set_read h (f_count f)) (PReal true)) s) = RRaised XOther
        end
  | QCall => if re then snd r = RRaised XOther /\ st_h (fst r) = None /\ s_closed (st_s (fst r)) = cf
             else snd r = RDone /\ s_closed (st_s (fst r)) = false
  end.
Proof.
  intros Eh Ec Ea Hb Hl H4 Hn. cbn [step]. unfold do_open. rewrite Eh, Ec, gen_pre_assert_r. cbn [andb orb is_a].
  unfold open_exn, evlr_raises, pending_evlrs. cbn [fail_exn is_r is_a andb]. rewrite Ea, Hb.
  rewrite evlr_query_announced, evlr_guard_announced by assumption.
  replace (4 <=? f_minor f) with true by lia. replace (0 <? f_nevlrs f) with true by lia.
  change gen_read_from_prefetch_then_evlrs with true. cbn [andb].
  destruct gen_read_evlrs_query eqn:E; cbn [query andb orb negb]; rewrite ?andb_true_r, ?andb_false_r, ?orb_true_r.
  - (* x.seekable() *)
    destruct re; cbn [fst snd st_s st_h]; repeat split; try exact Ec. apply handle_exn_closed. exact Ec.
  - (* getattr(x, "seekable", lambda: False)() *)
    cbn [fst snd st_s st_h]. split; [reflexivity|]. split; [exact Ec|]. eexists. split; [reflexivity|].
    cbn [h_closefd h_pending_evlrs]. split; [apply gen_cf_id|]. split; [reflexivity|].
    destruct gen_reader_read_query eqn:E2; intros s Es;
      unfold do_read_all, do_read_points; cbn [h_file set_ps set_read h_read]; unfold gen_read_points;
      replace (f_count f - f_count f <=? 0) with true by lia; cbn [Z.ltb Z.compare Z.opp h_pending_evlrs set_read set_ps ensure_ps h_ps ps_src_some];
      unfold load_pending; rewrite E2, Es; cbn [query h_file set_ps set_read]; rewrite ?(is_laz_none f Hl); try rewrite Hb; reflexivity.
Qed.

(* the first read after opening takes its records from where opening left the stream: no seek is needed *)
Theorem points_follow t h n base : st_h t = Some h -> h_mode h = MR -> h_ps h = PNone -> h_read h = 0 ->
  let f := h_file h in
  f_laz f = None -> s_pos (st_s t) = base + f_offset f -> 0 < f_count f -> 0 <= f_psize f -> base + f_offset f + f_count f * f_psize f <= f_size f ->
  let k := if n <? 0 then f_count f else Z.min n (f_count f) in
  snd (step t (EReadPoints n)) = RDone /\
  s_pos (st_s (fst (step t (EReadPoints n)))) = base + f_offset f + k * f_psize f.
Proof.
  intros Eh Em Ep Er f Hlz Hpos Hc Hps Hsz k. cbn [step]. unfold on_reader. rewrite Eh, Em. cbn [is_r].
  unfold do_read_points. fold f. rewrite Er. unfold gen_read_points.
  replace (f_count f - 0 <=? 0) with false by lia.
  unfold ensure_ps. rewrite Ep. fold f. rewrite (new_ps_real f Hc Hlz).
  assert (Hnt : forall j, 0 <= j <= f_count f ->
            rd (f_size f) (s_pos (st_s t)) (j * f_psize f) = s_pos (st_s t) + j * f_psize f
            /\ torn (f_psize f) (rd (f_size f) (s_pos (st_s t)) (j * f_psize f) - s_pos (st_s t)) = false).
  { intros j Hj. rewrite rd_within by nia. split; [reflexivity|].
    unfold torn. replace (s_pos (st_s t) + j * f_psize f - s_pos (st_s t)) with (j * f_psize f) by lia.
    destruct (0 <? f_psize f) eqn:E; [|reflexivity]. rewrite Z.mod_mul by lia. reflexivity. }
  subst k. destruct (n <? 0) eqn:En.
  - replace (f_count f - 0 <? 0) with false by lia.
    destruct (Hnt (f_count f - 0) ltac:(lia)) as [R T]. rewrite T, R. cbn [fst snd upd st_s set_pos s_pos].
    rewrite Hpos. replace (f_count f - 0) with (f_count f) by lia. split; reflexivity.
  - replace (Z.min n (f_count f - 0) <? 0) with false by lia.
    destruct (Hnt (Z.min n (f_count f - 0)) ltac:(lia)) as [R T]. rewrite T, R. cbn [fst snd upd st_s set_pos s_pos].
    replace (f_count f - 0) with (f_count f) by lia. rewrite Hpos. split; reflexivity.
Qed.

(* a point area that ends inside a record: the read that reaches the end raises, and what follows (the with-exit, a
   close, laspy.read's own exit) still closes iff closefd - that part is ownership_iff / read_las_closes *)
Lemma torn_read_points h s base : h_ps h = PNone -> h_read h = 0 ->
  let f := h_file h in
  f_laz f = None -> s_pos s = base + f_offset f -> 0 < f_count f -> 0 < f_psize f ->
  base + f_offset f <= f_size f < base + f_offset f + f_count f * f_psize f ->
  (f_size f - (base + f_offset f)) mod f_psize f <> 0 ->
  do_read_points (-1) h s = (set_ps h (PReal true), set_pos s (f_size f), RRaised XOther).
Proof.
  intros Ep Er f Hlz Hpos Hc Hps Hsz Hmod.
  unfold do_read_points. fold f. rewrite Er. unfold gen_read_points.
  replace (f_count f - 0 <=? 0) with false by lia. change (-1 <? 0) with true. cbv iota.
  replace (f_count f - 0 <? 0) with false by lia.
  unfold ensure_ps. rewrite Ep. fold f. rewrite (new_ps_real f Hc Hlz).
  assert (rd (f_size f) (s_pos s) ((f_count f - 0) * f_psize f) = f_size f) as R.
  { unfold rd. assert (0 <= (f_count f - 0) * f_psize f) by nia.
    assert (f_size f < s_pos s + (f_count f - 0) * f_psize f) by nia.
    destruct ((f_count f - 0) * f_psize f <? 0) eqn:E; lia. }
  rewrite R. unfold torn. replace (0 <? f_psize f) with true by lia. rewrite Hpos.
  replace ((f_size f - (base + f_offset f)) mod f_psize f =? 0) with false; [reflexivity|].
  symmetry. apply Z.eqb_neq. exact Hmod.
Qed.

(* a point area that ends inside a record: the read that reaches the end raises, and what follows (the with-exit, a
   close, laspy.read's own exit) still closes iff closefd - that part is ownership_iff / read_las_closes *)
Theorem torn_points_raise t h base : st_h t = Some h -> h_mode h = MR -> h_ps h = PNone -> h_read h = 0 ->
  let f := h_file h in
  f_laz f = None -> s_pos (st_s t) = base + f_offset f -> 0 < f_count f -> 0 < f_psize f ->
  base + f_offset f <= f_size f < base + f_offset f + f_count f * f_psize f ->
  (f_size f - (base + f_offset f)) mod f_psize f <> 0 ->
  snd (step t EReadAll) = RRaised XOther /\ snd (step t (EReadPoints (-1))) = RRaised XOther
  /\ s_closed (st_s (fst (step t EReadAll))) = s_closed (st_s t).
Proof.
  intros Eh Em Ep Er f Hlz Hpos Hc Hps Hsz Hmod. cbn [step]. unfold on_reader. rewrite Eh, Em. cbn [is_r].
  unfold do_read_all. rewrite (torn_read_points h (st_s t) base Ep Er Hlz Hpos Hc Hps Hsz Hmod).
  cbn. repeat split.
Qed.

(* EVLRs that cannot be decoded: the failure comes where they are loaded - at opening when that was asked for and the
   stream can seek to them (then the stream is closed iff closefd, as for any failed open), in read() otherwise (on any
   stream the reader may stand on by then) *)
Theorem bad_evlrs_fail_where_loaded t cf re f : st_h t = None -> s_closed (st_s t) = false ->
  f_evlr_bad f = true -> f_laz f = None -> 4 <= f_minor f -> 0 < f_nevlrs f ->
  query gen_read_evlrs_query (s_cap (st_s t)) <> None ->
  let r := step t (EOpen MR cf re f OOk) in
  if re && s_seekable (st_s t)
  then snd r = RRaised XOther /\ st_h (fst r) = None /\ s_closed (st_s (fst r)) = cf
  else snd r = RDone /\ exists h, st_h (fst r) = Some h /\ h_pending_evlrs h = true /\
       forall s, snd (do_read_all (set_ps (set_read h (f_count f)) (PReal true)) s) = RRaised XOther.
Proof.
  intros Eh Ec Hb Hlz H4 Hn Hq. cbn [step]. unfold do_open. rewrite Eh, Ec, gen_pre_assert_r. cbn [andb orb is_a].
  unfold open_exn, pending_evlrs. cbn [fail_exn is_r is_a andb]. rewrite (evlr_raises_false f _ Hq). cbn [orb].
  rewrite !(evlr_guard_announced f _ H4 Hn), Hb.
  replace (4 <=? f_minor f) with true by lia. replace (0 <? f_nevlrs f) with true by lia.
  change gen_read_from_prefetch_then_evlrs with true. cbn [andb]. rewrite !andb_true_r.
  assert (Hans : match query gen_read_evlrs_query (s_cap (st_s t)) with Some b => b | None => false end = s_seekable (st_s t)).
  { unfold s_seekable. revert Hq. destruct (s_cap (st_s t)); [reflexivity | reflexivity |].
    destruct gen_read_evlrs_query; cbn [query cap_seekable]; [congruence | reflexivity]. }
  rewrite !Hans.
  destruct (re && s_seekable (st_s t)) eqn:E.
  - cbn [fst snd st_h st_s]. split; [reflexivity|]. split; [reflexivity|]. apply handle_exn_closed. exact Ec.
  - cbn [fst snd st_h]. split; [reflexivity|]. eexists. split; [reflexivity|]. cbn [h_pending_evlrs].
    split; [destruct re, (s_seekable (st_s t)); cbn in *; congruence|].
    intros s. unfold do_read_all, do_read_points. cbn [h_file set_ps set_read h_read]. unfold gen_read_points.
    replace (f_count f - f_count f <=? 0) with true by lia. cbn.
    assert (Hp : negb re || negb (s_seekable (st_s t)) = true) by (destruct re, (s_seekable (st_s t)); cbn in *; congruence).
    rewrite Hp. cbn. unfold load_pending. cbn [h_file set_ps set_read]. rewrite (evlr_query_announced f _ H4 Hn), Hb, (is_laz_none f Hlz).
    destruct (s_cap s); cbn [query]; try reflexivity;
      destruct gen_reader_read_query; try reflexivity; destruct gen_read_evlrs_query; reflexivity.
Qed.

(* what the one excluded exit does: the w-mode seekability assertion leaves the stream as it was *)
Theorem precondition_untouched t m cf re f o : st_h t = None ->
  gen_open_pre_assert_seekable m = true -> s_seekable (st_s t) = false ->
  st_s (fst (step t (EOpen m cf re f o))) = st_s t /\ st_h (fst (step t (EOpen m cf re f o))) = None.
Proof.
  intros Eh Hp Hs. cbn [step]. unfold do_open. rewrite Eh, Hp, Hs. cbn [negb orb andb].
  rewrite orb_true_r. cbn. split; reflexivity.
Qed.

(* ---------------- failures of the stream's own methods ---------------- *)
Lemma run_snoc t evs e : run t (evs ++ [e]) = fst (step (run t evs) e).
Proof. unfold run. rewrite fold_left_app. reflexivity. Qed.

(* while opening, in any mode: the constructor raises what the stream raised (an Exception or not), one except clause of
   open_las sees it: no handle, closed iff closefd *)
Theorem open_fault t m cf re f x : st_h t = None -> s_closed (st_s t) = false ->
  (gen_open_pre_assert_seekable m = true -> s_seekable (st_s t) = true) ->
  (is_a m = true -> s_seekable (st_s t) = true) ->
  let r := step t (EOpen m cf re f (OFault x)) in
  snd r = RRaised x /\ st_h (fst r) = None /\ s_closed (st_s (fst r)) = cf.
Proof.
  intros Eh Ec Hpre Ha r.
  pose proof (open_outcome t m cf re f (OFault x) Eh Ec Hpre Ha) as Ho.
  unfold open_exn in Ho. cbn [fail_exn] in Ho. fold r in Ho.
  split; [exact Ho|]. exact (failed_open t m cf re f (OFault x) x Eh Ec Hpre Ho).
Qed.

(* under an operation on the handle: the operation raises, the stream is as it was (not closed, whatever closefd), the
   handle is still there with the closefd it had *)
Theorem op_fault_keeps t h x : st_h t = Some h ->
  let r := step t (EOpFault x) in
  snd r = RRaised x /\ st_s (fst r) = st_s t /\
  exists h', st_h (fst r) = Some h' /\ h_closefd h' = h_closefd h /\ h_declared h' = h_declared h /\ h_mode h' = h_mode h.
Proof.
  intros Eh. cbn [step]. unfold on_handle. rewrite Eh. cbn [fst snd upd st_s st_h].
  split; [reflexivity | split; [reflexivity|]]. exists (op_fault h). split; [reflexivity|].
  unfold op_fault. destruct (is_r (h_mode h)); [destruct (ensure_ps h)|]; repeat split.
Qed.

(* ... and when the caller then lets go of the handle (the exception leaves the with block, or it was caught inside and
   the block is left normally, or close() is called): closed iff closefd *)
Theorem op_fault_then_gone c p evs x e h : is_end e = true -> st_h (run (init_at c p) evs) = Some h ->
  let t := fst (step (run (init_at c p) evs) (EOpFault x)) in
  st_h (fst (step t e)) = None /\ s_closed (st_s (fst (step t e))) = h_declared h.
Proof.
  intros He Eh t.
  destruct (op_fault_keeps _ h x Eh) as (_ & _ & (h' & Eh' & _ & Hd & _)).
  pose proof (handle_gone c p (evs ++ [EOpFault x]) e h' He) as Hg. rewrite run_snoc in Hg.
  destruct (Hg Eh') as (A & B & _). split; [exact A | rewrite <- Hd; exact B].
Qed.

(* inside the close method (with-exit after a body that raised or not, explicit close): the handle is gone; a stream
   laspy was told to leave open is open; a stream laspy owns is closed provided every fault point of the generated close
   methods still runs the close action *)
Theorem close_fault_gone c p evs via j x h : st_h (run (init_at c p) evs) = Some h ->
  let r := step (run (init_at c p) evs) (EEndFault via j x) in
  snd r = RRaised x ->
  st_h (fst r) = None /\ (h_declared h = false -> s_closed (st_s (fst r)) = false)
  /\ (close_faults_safeb = true -> s_closed (st_s (fst r)) = h_declared h).
Proof.
  intros Eh r. subst r. cbn [step]. unfold on_handle. rewrite Eh.
  destruct (end_handle_fault via j (run (init_at c p) evs) h) as [t'|] eqn:Ef; cbn [fst snd]; [intros _ | discriminate].
  pose proof (end_handle_fault_facts false loose via j _ h t' (run_inv0 evs _ (init_at_inv0 c p)) Eh Ef) as (_ & A & B & _).
  split; [exact A | split; [exact B|]]. intros Hs.
  pose proof (end_handle_fault_facts true (fun _ => Hs) via j _ h t' (run_inv true (fun _ => Hs) evs _ (init_at_inv true c p)) Eh Ef)
    as (_ & _ & _ & C).
  exact (C eq_refl).
Qed.

(* the reader's close (and the point readers' it delegates to) has no statement that uses the stream other than its close:
   it cannot fail half-way *)
Theorem reader_close_no_fault_point cf hp ss :
  gen_close_reader_faults cf hp ss = [] /\ gen_close_uncompressed_faults cf hp ss = [] /\ gen_close_empty_faults cf hp ss = [].
Proof. repeat split. Qed.

Theorem reader_end_fault_ignored t h via j x : st_h t = Some h -> h_mode h = MR -> step t (EEndFault via j x) = (t, RIgnored).
Proof.
  intros Eh Em. cbn [step]. unfold on_handle. rewrite Eh. unfold end_handle_fault. rewrite Em.
  rewrite gen_exit_closes_all, andb_false_r. cbn [close_faults].
  rewrite (proj1 (reader_close_no_fault_point _ _ _)). destruct j; reflexivity.
Qed.

Theorem read_las_fault_closes c p evs cf f x :
  st_h (run (init_at c p) evs) = None -> s_closed (st_s (run (init_at c p) evs)) = false ->
  st_h (fst (step (run (init_at c p) evs) (EReadLasFault cf f x))) = None /\
  s_closed (st_s (fst (step (run (init_at c p) evs) (EReadLasFault cf f x)))) = cf.
Proof.
  intros Eh Ec. pose proof (run_inv0 evs (init_at c p) (init_at_inv0 c p)) as Hi.
  pose proof (read_las_fault_facts false loose cf f x _ Hi Eh Ec) as (_ & A & B). split; assumption.
Qed.

(* ---------------- LAZ-flagged files whose point reader cannot be built ---------------- *)
(* no backend selected / available, or the backend's constructor fails with x: whatever needs the point source raises x,
   and NOTHING changes - no point source is kept, the stream stands where it stood and stays open, the handle is as it was
   (a later attempt fails in the same way) *)
Theorem laz_unreadable t h x : st_h t = Some h -> h_mode h = MR -> h_ps h = PNone ->
  f_laz (h_file h) = Some x -> 0 <= h_read h < f_count (h_file h) ->
  (forall n, step t (EReadPoints n) = (t, RRaised x)) /\ step t EReadAll = (t, RRaised x)
  /\ step t EPointSource = (t, RRaised x)
  /\ (forall pos wh pr idx, gen_seek (f_count (h_file h)) (h_read h) pos wh = Ok (pr, idx) -> step t (ESeek pos wh) = (t, RRaised x)).
Proof.
  intros Eh Em Ep Hl Hr. destruct t as [s oh l]. cbn [st_h st_s st_log] in *. subst oh.
  assert (He : ensure_ps h = NotMade x).
  { unfold ensure_ps. rewrite Ep. apply new_ps_laz; [lia | exact Hl]. }
  assert (Hp : forall n, do_read_points n h s = (h, s, RRaised x)).
  { intros n. unfold do_read_points, gen_read_points.
    replace (f_count (h_file h) - h_read h <=? 0) with false by lia.
    destruct (n <? 0) eqn:En.
    - replace (f_count (h_file h) - h_read h <? 0) with false by lia. rewrite He. reflexivity.
    - replace (Z.min n (f_count (h_file h) - h_read h) <? 0) with false by lia. rewrite He. reflexivity. }
  split; [|split; [|split]].
  - intros n. cbn [step]. unfold on_reader. cbn [st_h st_s]. rewrite Em. cbn [is_r]. rewrite Hp. reflexivity.
  - cbn [step]. unfold on_reader. cbn [st_h st_s]. rewrite Em. cbn [is_r]. unfold do_read_all. rewrite Hp. reflexivity.
  - cbn [step]. unfold on_reader. cbn [st_h st_s]. rewrite Em. cbn [is_r]. rewrite He. reflexivity.
  - intros pos wh pr idx Hs. cbn [step]. unfold on_reader. cbn [st_h st_s]. rewrite Em. cbn [is_r].
    unfold do_seek. rewrite Hs, He. reflexivity.
Qed.

(* an appender refuses such a file while it is being constructed (inside the try of open_las): closed iff closefd *)
Theorem laz_append_refused t cf re f x : st_h t = None -> s_closed (st_s t) = false -> s_seekable (st_s t) = true ->
  f_laz f = Some x ->
  let r := step t (EOpen MA cf re f OOk) in
  snd r = RRaised gen_appender_laz_exn /\ st_h (fst r) = None /\ s_closed (st_s (fst r)) = cf.
Proof.
  intros Eh Ec Hs Hl r.
  pose proof (open_outcome t MA cf re f OOk Eh Ec ltac:(discriminate) (fun _ => Hs)) as Ho.
  unfold open_exn in Ho. cbn [fail_exn is_a andb] in Ho. rewrite (is_laz_some f x Hl) in Ho. fold r in Ho.
  split; [exact Ho|]. exact (failed_open t MA cf re f OOk _ Eh Ec ltac:(discriminate) Ho).
Qed.

(* ---------------- a whole read session ---------------- *)
(* the operations a caller performs on a reader between opening it and letting go of it: they may succeed, fail because of the
   content (torn records, undecodable EVLRs), because the point source cannot be built (LAZ-flagged file, no backend), or
   because the stream failed under them *)
Definition reader_op (e : event) : bool :=
  match e with EReadPoints _ | ESeek _ _ | EReadAll | EPointSource | EOpFault _ => true | _ => false end.

Lemma reader_op_keeps t e h : inv0 t -> st_h t = Some h -> reader_op e = true ->
  exists h', st_h (fst (step t e)) = Some h' /\ h_declared h' = h_declared h.
Proof.
  intros (Hl & Hh) Eh He. rewrite Eh in Hh.
  destruct e; try discriminate He; cbn [step]; unfold on_reader, on_handle; rewrite Eh.
  - destruct (is_r (h_mode h)); [|exists h; split; [exact Eh | reflexivity]].
    pose proof (do_read_points_ok n h (st_s t) Hh) as (_ & (_ & _ & Sd & _)).
    destruct (do_read_points n h (st_s t)) as [[h' s'] r]. cbn [fst snd] in *. exists h'. split; [reflexivity | exact Sd].
  - destruct (is_r (h_mode h)); [|exists h; split; [exact Eh | reflexivity]].
    pose proof (do_seek_ok pos whence h (st_s t) Hh) as (_ & (_ & _ & Sd & _)).
    destruct (do_seek pos whence h (st_s t)) as [[h' s'] r]. cbn [fst snd] in *. exists h'. split; [reflexivity | exact Sd].
  - destruct (is_r (h_mode h)); [|exists h; split; [exact Eh | reflexivity]].
    pose proof (do_read_all_ok h (st_s t) Hh) as (_ & (_ & _ & Sd & _)).
    destruct (do_read_all h (st_s t)) as [[h' s'] r]. cbn [fst snd] in *. exists h'. split; [reflexivity | exact Sd].
  - destruct (is_r (h_mode h)); [|exists h; split; [exact Eh | reflexivity]].
    destruct (ensure_ps h) as [p1|x1]; cbn [fst]; [eexists; split; [reflexivity | reflexivity] | exists h; split; [exact Eh | reflexivity]].
  - cbn [fst upd st_h]. exists (op_fault h). split; [reflexivity|]. exact (proj1 (proj2 (proj2 (proj2 (op_fault_ok h (st_s t) Hh))))).
Qed.

Lemma reader_ops_keep ops : forall t h, inv0 t -> st_h t = Some h -> forallb reader_op ops = true ->
  exists h', st_h (run t ops) = Some h' /\ h_declared h' = h_declared h.
Proof.
  induction ops as [|e r IH]; intros t h Hi Eh Ho.
  - exists h. split; [exact Eh | reflexivity].
  - cbn [forallb] in Ho. apply andb_prop in Ho. destruct Ho as (He & Hr).
    destruct (reader_op_keeps t e h Hi Eh He) as (h1 & E1 & D1).
    cbn [run fold_left]. destruct (IH (fst (step t e)) h1 (step_inv false loose t e Hi) E1 Hr) as (h2 & E2 & D2).
    exists h2. split; [exact E2 | congruence].
Qed.

Lemma open_declared t m cf re f o h : st_h t = None -> st_h (fst (step t (EOpen m cf re f o))) = Some h -> h_declared h = cf.
Proof.
  intros Eh. cbn [step]. unfold do_open. rewrite Eh.
  destruct (gen_open_pre_assert_seekable m && _); [cbn; discriminate|].
  destruct (if s_closed (st_s t) then _ else _); [cbn; discriminate|].
  cbn [fst st_h]. intros H. injection H as <-. reflexivity.
Qed.

Lemma run_app t a b : run t (a ++ b) = run (run t a) b.
Proof. unfold run. apply fold_left_app. Qed.

(* after any history: an open for reading that gives a handle, then any operations on the reader - whatever each of them
   does: succeeds, fails on the content, fails because the LAZ point reader cannot be built, fails because the stream did -,
   then the with statement is left (normally or by an exception) or close() is called: the handle is gone and the stream is
   closed iff the caller said closefd *)
Theorem read_session c p evs cf re f o ops e h : is_end e = true -> forallb reader_op ops = true ->
  st_h (run (init_at c p) evs) = None ->
  st_h (fst (step (run (init_at c p) evs) (EOpen MR cf re f o))) = Some h ->
  let t2 := run (init_at c p) (evs ++ EOpen MR cf re f o :: ops) in
  st_h (fst (step t2 e)) = None /\ s_closed (st_s (fst (step t2 e))) = cf.
Proof.
  intros He Ho Eh Eo. cbv zeta.
  pose proof (open_declared _ _ _ _ _ _ _ Eh Eo) as Hd.
  pose proof (run_inv0 evs (init_at c p) (init_at_inv0 c p)) as Hi.
  pose proof (step_inv false loose _ (EOpen MR cf re f o) Hi) as Hi1.
  destruct (reader_ops_keep ops _ h Hi1 Eo Ho) as (h2 & E2 & D2).
  assert (Et : run (init_at c p) (evs ++ EOpen MR cf re f o :: ops) = run (fst (step (run (init_at c p) evs) (EOpen MR cf re f o))) ops).
  { rewrite run_app. reflexivity. }
  rewrite <- Et in E2.
  destruct (handle_gone c p (evs ++ EOpen MR cf re f o :: ops) e h2 He E2) as (A & B & _).
  split; [exact A | rewrite B; congruence].
Qed.

(* ---------------- the close methods do not build anything ---------------- *)
(* no close method reaches the point source through the lazy property (`self.point_source.close()` would build it - for a
   LAZ-flagged file: try to - just to close it): closing never raises by itself ... *)
Theorem close_does_not_build m cf hp : existsb is_lazy (close_prog m cf hp true) = false.
Proof. destruct m, cf, hp; reflexivity. Qed.

Theorem close_never_raises_by_itself h : close_exn h = None.
Proof. unfold close_exn, close_acts. rewrite close_does_not_build. reflexivity. Qed.

(* ... so that leaving the with statement normally and calling close() succeed, and an exception of the with-body is the one
   that leaves the with statement - whatever the file (LAZ-flagged without a backend included), whatever was done before *)
Theorem ends_do_not_raise t h : st_h t = Some h ->
  snd (step t EExit) = RDone /\ snd (step t EClose) = RDone /\ forall x, snd (step t (EBodyRaises x)) = RRaised x.
Proof.
  intros Eh. cbn [step]. unfold on_handle. rewrite Eh. cbn [snd]. unfold end_res.
  rewrite close_never_raises_by_itself, gen_exit_closes_all. cbn. repeat split.
Qed.

(* ---------------- a handle that is only dropped; a stream laspy was never told to close ---------------- *)
(* the caller lets go of the handle without close() and without a with statement: the stream is as it was (closed or not,
   where it stood), whatever closefd is and whether the reader had created its point source; the log gets no entry *)
Theorem drop_leaves_stream t h : st_h t = Some h -> step t EDrop = (mkSt (st_s t) None (st_log t), RDone).
Proof. intros Eh. cbn [step]. unfold on_handle. rewrite Eh. reflexivity. Qed.

Theorem drop_after_any_history c p evs :
  st_s (run (init_at c p) (evs ++ [EDrop])) = st_s (run (init_at c p) evs)
  /\ st_h (run (init_at c p) (evs ++ [EDrop])) = None
  /\ st_log (run (init_at c p) (evs ++ [EDrop])) = st_log (run (init_at c p) evs).
Proof.
  rewrite run_snoc. cbn [step]. unfold on_handle.
  destruct (st_h (run (init_at c p) evs)) as [h|] eqn:Eh; cbn [fst st_s st_h st_log]; repeat split. exact Eh.
Qed.

(* ---------------- a second close ---------------- *)
(* closing never re-opens *)
Lemma reclose_monotone m cf p s : s_closed s = true -> s_closed (reclose m cf p s) = true.
Proof. intros H. unfold reclose. rewrite fold_acts_closed, H. reflexivity. Qed.

(* the close method of an object that was given closefd=False closes nothing, the second time either *)
Lemma reclose_unasked m p s : s_closed (reclose m false p s) = s_closed s.
Proof. unfold reclose. destruct m, p as [|b|b]; reflexivity. Qed.

Theorem reclose_keeps_unasked t m p : st_h t = None ->
  s_closed (st_s (fst (step t (EReclose m false p)))) = s_closed (st_s t).
Proof. intros Eh. cbn [step]. rewrite Eh. cbn [fst st_s]. apply reclose_unasked. Qed.

(* the second close of an appender does nothing at all (its flag is set), and has no statement that could fail *)
Theorem appender_reclose_noop t cf p : st_h t = None ->
  step t (EReclose MA cf p) = (t, RDone) /\ forall hp ss, gen_close_appender_again_faults cf hp ss = [].
Proof.
  intros Eh. split; [|reflexivity]. cbn [step]. rewrite Eh. destruct t as [s h l]. cbn in Eh. subst h. reflexivity.
Qed.

(* points given to a closed appender are refused with a LaspyException, nothing happens *)
Theorem closed_appender_refuses t : st_h t = None -> step t (EUseClosed MA) = (t, RRaised XLaspy).
Proof. intros Eh. cbn [step]. rewrite Eh. reflexivity. Qed.

(* any history, an end of the session (exit, close(), the with-body raising), then close() / a with-exit once more on the same
   object: the stream is still closed iff the caller said closefd *)
Theorem close_twice c p evs e h : is_end e = true -> st_h (run (init_at c p) evs) = Some h ->
  let t1 := fst (step (run (init_at c p) evs) e) in
  s_closed (st_s (fst (step t1 (EReclose (h_mode h) (h_declared h) (h_ps h))))) = h_declared h.
Proof.
  intros He Eh t1. destruct (handle_gone c p evs e h He Eh) as (A & B & _). fold t1 in A, B.
  cbn [step]. rewrite A. cbn [fst st_s].
  destruct (h_declared h) eqn:Ed; [apply reclose_monotone; exact B | rewrite reclose_unasked; exact B].
Qed.

(* events that never ask laspy to close: every open / laspy.read says closefd=False (LasData.write never closes) *)
Definition asks_no_close (e : event) : bool :=
  match e with
  | EOpen _ cf _ _ _ => negb cf
  | EReadLas cf _ _ => negb cf
  | EReadLasFault cf _ _ => negb cf
  | EReclose _ cf _ => negb cf
  | _ => true
  end.

Definition kept_open (t : st) : Prop :=
  inv0 t /\ s_closed (st_s t) = false /\ match st_h t with Some h => h_declared h = false | None => True end.

Lemma kept_open_step t e : kept_open t -> asks_no_close e = true -> kept_open (fst (step t e)).
Proof.
  intros (Hi & Hc & Hd) Ha.
  split; [exact (step_inv false loose t e Hi)|].
  pose proof Hi as (Hl & Hh).
  destruct e as [m cf re f o|n|pos wh| | | |x| | |o|cf f o|p|x|via j x|cf f x| |m cf p|m]; cbn [step].
  - cbn in Ha. destruct cf; [discriminate|]. unfold do_open.
    destruct (st_h t) as [h|] eqn:Eh; [cbn [fst st_s st_h]; rewrite Eh; split; assumption|].
    destruct (gen_open_pre_assert_seekable m && (s_closed (st_s t) || negb (s_seekable (st_s t)))); [cbn; split; [exact Hc | exact I]|].
    rewrite Hc.
    destruct (is_a m && negb (s_seekable (st_s t))); [cbn [fst st_s st_h]; split; [apply handle_exn_closed; exact Hc | exact I]|].
    destruct (open_exn m o f re (s_cap (st_s t))) as [x|]; [cbn [fst st_s st_h]; split; [apply handle_exn_closed; exact Hc | exact I]|].
    cbn [fst st_s st_h h_declared]. split; [destruct (is_r m); [cbn; exact Hc | exact Hc] | reflexivity].
  - unfold on_reader. destruct (st_h t) as [h|] eqn:Eh; [|cbn [fst]; rewrite Eh; split; assumption].
    destruct (is_r (h_mode h)); [|cbn [fst]; rewrite Eh; split; assumption].
    pose proof (do_read_points_ok n h (st_s t) Hh) as ((Hc' & _) & (_ & _ & Sd & _)).
    destruct (do_read_points n h (st_s t)) as [[h' s'] r]. cbn [fst snd upd st_s st_h] in *. split; [exact Hc' | rewrite Sd; exact Hd].
  - unfold on_reader. destruct (st_h t) as [h|] eqn:Eh; [|cbn [fst]; rewrite Eh; split; assumption].
    destruct (is_r (h_mode h)); [|cbn [fst]; rewrite Eh; split; assumption].
    pose proof (do_seek_ok pos wh h (st_s t) Hh) as ((Hc' & _) & (_ & _ & Sd & _)).
    destruct (do_seek pos wh h (st_s t)) as [[h' s'] r]. cbn [fst snd upd st_s st_h] in *. split; [exact Hc' | rewrite Sd; exact Hd].
  - unfold on_reader. destruct (st_h t) as [h|] eqn:Eh; [|cbn [fst]; rewrite Eh; split; assumption].
    destruct (is_r (h_mode h)); [|cbn [fst]; rewrite Eh; split; assumption].
    pose proof (do_read_all_ok h (st_s t) Hh) as ((Hc' & _) & (_ & _ & Sd & _)).
    destruct (do_read_all h (st_s t)) as [[h' s'] r]. cbn [fst snd upd st_s st_h] in *. split; [exact Hc' | rewrite Sd; exact Hd].
  - unfold on_reader. destruct (st_h t) as [h|] eqn:Eh; [|cbn [fst]; rewrite Eh; split; assumption].
    destruct (is_r (h_mode h)); [|cbn [fst]; rewrite Eh; split; assumption].
    destruct (ensure_ps h) as [p1|x1]; cbn [fst upd st_s st_h set_ps h_declared]; [split; assumption | rewrite Eh; split; assumption].
  - unfold on_handle. destruct (st_h t) as [h|] eqn:Eh; [|cbn [fst]; rewrite Eh; split; assumption].
    destruct (is_r (h_mode h)); cbn [fst]; rewrite Eh; split; assumption.
  - unfold on_handle. destruct (st_h t) as [h|] eqn:Eh; [|cbn [fst]; rewrite Eh; split; assumption]. cbn [fst].
    pose proof (end_handle_facts false loose HBodyRaised true t h ltac:(discriminate) Hi Eh) as (_ & A & B).
    rewrite A, B. split; [exact Hd | exact I].
  - unfold on_handle. destruct (st_h t) as [h|] eqn:Eh; [|cbn [fst]; rewrite Eh; split; assumption]. cbn [fst].
    pose proof (end_handle_facts false loose HExit true t h ltac:(discriminate) Hi Eh) as (_ & A & B).
    rewrite A, B. split; [exact Hd | exact I].
  - unfold on_handle. destruct (st_h t) as [h|] eqn:Eh; [|cbn [fst]; rewrite Eh; split; assumption]. cbn [fst].
    pose proof (end_handle_facts false loose HClose false t h ltac:(discriminate) Hi Eh) as (_ & A & B).
    rewrite A, B. split; [exact Hd | exact I].
  - destruct (lasdata_write_stream o t) as (A & B). rewrite A, B. split; assumption.
  - cbn in Ha. destruct cf; [discriminate|].
    destruct (st_h t) as [h|] eqn:Eh; [cbn [fst]; rewrite Eh; split; assumption|].
    pose proof (read_las_facts false loose false f o t Hi Eh Hc) as (_ & A & B). cbn [step] in A, B. rewrite Eh in A, B.
    rewrite A, B. split; [reflexivity | exact I].
  - destruct (s_closed (st_s t) || negb (s_seekable (st_s t))); cbn [fst st_s st_h set_pos s_closed]; split; assumption.
  - unfold on_handle. destruct (st_h t) as [h|] eqn:Eh; [|cbn [fst]; rewrite Eh; split; assumption]. cbn [fst upd st_s st_h].
    split; [exact Hc|]. destruct (op_fault_ok h (st_s t) Hh) as (_ & (_ & _ & Sd & _)). rewrite Sd. exact Hd.
  - unfold on_handle. destruct (st_h t) as [h|] eqn:Eh; [|cbn [fst]; rewrite Eh; split; assumption].
    destruct (end_handle_fault via j t h) as [t'|] eqn:Ef; cbn [fst]; [|cbn [fst]; rewrite Eh; split; assumption].
    pose proof (end_handle_fault_facts false loose via j t h t' Hi Eh Ef) as (_ & A & B & _).
    rewrite A. split; [exact (B Hd) | exact I].
  - cbn in Ha. destruct cf; [discriminate|].
    destruct (st_h t) as [h|] eqn:Eh; [cbn [fst]; rewrite Eh; split; assumption|].
    pose proof (read_las_fault_facts false loose false f x t Hi Eh Hc) as (_ & A & B). cbn [step] in A, B. rewrite Eh in A, B.
    rewrite A, B. split; [reflexivity | exact I].
  - unfold on_handle. destruct (st_h t) as [h|] eqn:Eh; [|cbn [fst]; rewrite Eh; split; assumption]. cbn [fst st_s st_h]. split; [exact Hc | exact I].
  - cbn in Ha. destruct cf; [discriminate|].
    destruct (st_h t) as [h|] eqn:Eh; [cbn [fst]; rewrite Eh; split; assumption|].
    cbn [fst st_s st_h]. split; [rewrite reclose_unasked; exact Hc | exact I].
  - destruct (st_h t) as [h|] eqn:Eh; cbn [fst]; rewrite Eh; split; assumption.
Qed.

(* the "only if" half at EVERY moment, not only when laspy lets go: in a history in which laspy is never told to close
   (closefd=False at every open and every laspy.read; LasData.write; reads, seeks, writes, failures of the stream, failing
   close methods, handles that are closed, left by an exception or only dropped) the caller's stream is never closed *)
Theorem never_told_never_closed c p evs : forallb asks_no_close evs = true ->
  s_closed (st_s (run (init_at c p) evs)) = false.
Proof.
  intros Ha.
  assert (H : forall evs t, kept_open t -> forallb asks_no_close evs = true -> kept_open (run t evs)).
  { clear. induction evs as [|e r IH]; intros t Hk Ha; [exact Hk|].
    cbn [forallb] in Ha. apply andb_true_iff in Ha. destruct Ha as (Ha & Hr).
    cbn [run fold_left]. apply IH; [apply kept_open_step; assumption | exact Hr]. }
  assert (H0 : kept_open (init_at c p)) by (split; [apply init_at_inv0 | split; [reflexivity | exact I]]).
  exact (proj1 (proj2 (H evs _ H0 Ha))).
Qed.
