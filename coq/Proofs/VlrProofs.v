(* VLR / EVLR codec: decode after encode is the identity, sizes, refusal of over-long payloads. *)
From Coq Require Import String.
From Coq Require Import ZArith List Bool Lia ZifyBool.
From LasV Require Import Lib.Base Lib.BaseFacts Lib.Layout Proofs.LayoutProofs Gen.GenHeaderLayout Gen.GenFormatBits Gen.GenDims
  Spec.Asprs Proofs.AsprsLayoutProofs Model.Las Model.LasSpec Proofs.HeaderLen.
Import ListNotations.
Open Scope list_scope.
Open Scope Z_scope.

(* ---------------- generic helpers ---------------- *)
Lemma bytes_ok_app a b : bytes_ok (a ++ b) = bytes_ok a && bytes_ok b.
Proof. unfold bytes_ok. apply forallb_app. Qed.

Lemma bytes_ok_zeros n : bytes_ok (zeros n) = true.
Proof. unfold zeros, bytes_ok. induction n as [|n IH]; [reflexivity|]. cbn [repeat forallb]. rewrite IH. reflexivity. Qed.

Lemma enc_field_bytes_ok k w v b : wf_field k w v = true -> enc_field k w v = Ok b -> bytes_ok b = true.
Proof.
  intros Hwf He. destruct k, v as [z|s]; simpl in Hwf; try discriminate; simpl in He.
  - apply andb_true_iff in Hwf as [Hl Hb]. rewrite Hl in He. now injection He as <-.
  - now destruct (to_bytes_ok _ _ _ He) as (_ & _ & ?).
  - now destruct (to_bytes_ok _ _ _ He) as (_ & _ & ?).
  - apply andb_true_iff in Hwf as [Hl Hb]. rewrite Hl in He. now injection He as <-.
  - apply andb_true_iff in Hwf as [Hwf Hb]. apply andb_true_iff in Hwf as [Hl Hn].
    apply Nat.leb_le in Hl. injection He as <-. rewrite null_pad_exact by assumption.
    now rewrite bytes_ok_app, Hb, bytes_ok_zeros.
  - apply andb_true_iff in Hwf as [Hwf Hb]. apply andb_true_iff in Hwf as [Hl Hn].
    apply Nat.ltb_lt in Hl. injection He as <-. rewrite null_pad_exact_c by assumption.
    now rewrite bytes_ok_app, Hb, bytes_ok_zeros.
Qed.

Lemma enc_fields_bytes_ok l : forall vals bs, wf_fields l vals = true -> enc_fields l vals = Ok bs -> bytes_ok bs = true.
Proof.
  induction l as [|[[k w] n] l IH]; intros vals bs Hwf He.
  - destruct vals; [|discriminate]. now injection He as <-.
  - destruct vals as [|v vals]; [discriminate|]. cbn [wf_fields] in Hwf.
    apply andb_true_iff in Hwf as [Hf Hr]. cbn [enc_fields] in He.
    destruct (enc_field k w v) as [b|e] eqn:Eb; [|discriminate]. cbn [bind] in He.
    destruct (enc_fields l vals) as [r|e] eqn:Er; [|discriminate]. cbn [bind] in He. injection He as <-.
    rewrite bytes_ok_app, (enc_field_bytes_ok _ _ _ _ Hf Eb), (IH _ _ Hr Er). reflexivity.
Qed.

Lemma to_nat_len {A} (l : list A) : Z.to_nat (len l) = length l.
Proof. unfold len. apply Nat2Z.id. Qed.

(* ---------------- the fixed part of the (E)VLR header ---------------- *)
Definition vlr_fixed (ext : bool) : layout :=
  [(KConst, 2%nat, "reserved"%string); (KStr, 16%nat, "user_id"%string); (KUInt, 2%nat, "record_id"%string);
   (KUInt, if ext then 8%nat else 2%nat, "record_length"%string); (KStr, 32%nat, "description"%string)].

Lemma vlr_w_fixed ext : fixed_part (vlr_w_layout ext) = vlr_fixed ext.
Proof.
  unfold vlr_w_layout. destruct ext; [rewrite vlr_write_ext|rewrite vlr_write_std]; reflexivity.
Qed.
Lemma vlr_r_fixed ext : fixed_part (vlr_r_layout ext) = vlr_fixed ext.
Proof.
  unfold vlr_r_layout. destruct ext; [rewrite vlr_read_ext|rewrite vlr_read_std]; reflexivity.
Qed.

Lemma vlr_fixed_width ext : layout_width (vlr_fixed ext) = if ext then 60 else 54.
Proof. destruct ext; reflexivity. Qed.

Lemma wf_vlr_fields ext v : wf_vlr ext v = true -> wf_fields (vlr_fixed ext) (vlr_vals v) = true.
Proof.
  unfold wf_vlr. intros H.
  apply andb_true_iff in H as [H H11]. apply andb_true_iff in H as [H H10].
  apply andb_true_iff in H as [H H9]. apply andb_true_iff in H as [H H8].
  apply andb_true_iff in H as [H H7]. apply andb_true_iff in H as [H H6].
  apply andb_true_iff in H as [H H5]. apply andb_true_iff in H as [H H4].
  apply andb_true_iff in H as [H H3]. apply andb_true_iff in H as [H1 H2].
  unfold vlr_fixed, vlr_vals. cbn [wf_fields wf_field].
  rewrite H1, H2, H4, H7, H8, H9. cbn [length Nat.eqb bytes_ok forallb byte_ok andb].
  change (256 ^ Z.of_nat 2) with 65536.
  change (byte_ok 0) with true. rewrite H5, H6. cbn [andb].
  pose proof (len_nonneg (v_data v)) as Hn.
  destruct ext.
  - change (256 ^ Z.of_nat 8) with 18446744073709551616. change (2 ^ 64) with 18446744073709551616 in H11. lia.
  - change (256 ^ Z.of_nat 2) with 65536. lia.
Qed.

Lemma wf_vlr_ascii ext v : wf_vlr ext v = true -> ascii_ok (v_uid v) = true.
Proof.
  unfold wf_vlr. intros H.
  do 8 (apply andb_true_iff in H; destruct H as [H _]).
  apply andb_true_iff in H as [_ H]. assumption.
Qed.

Lemma wf_vlr_data ext v : wf_vlr ext v = true ->
  bytes_ok (v_data v) = true /\ (ext = false -> len (v_data v) <= 65535).
Proof.
  unfold wf_vlr. intros H.
  apply andb_true_iff in H as [H H11]. apply andb_true_iff in H as [H H10].
  split; [assumption|]. intros ->. lia.
Qed.

(* ---------------- one record ---------------- *)
Lemma enc_vlr_inv ext v b : wf_vlr ext v = true -> enc_vlr ext v = Ok b ->
  exists hb, enc_fields (vlr_fixed ext) (vlr_vals v) = Ok hb /\ b = hb ++ v_data v.
Proof.
  intros Hwf He. unfold enc_vlr in He. rewrite vlr_w_fixed in He.
  destruct (negb ext && (len (v_data v) >? 65535)) eqn:E; [discriminate|].
  destruct (enc_fields (vlr_fixed ext) (vlr_vals v)) as [hb|e]; [|discriminate].
  cbn [bind] in He. injection He as <-. eauto.
Qed.

Lemma enc_vlr_ok ext v : wf_vlr ext v = true ->
  exists b, enc_vlr ext v = Ok b /\ len b = (if ext then 60 else 54) + len (v_data v) /\ bytes_ok b = true.
Proof.
  intros Hwf. pose proof (wf_vlr_fields _ _ Hwf) as Hf.
  destruct (enc_fields_wf _ _ Hf) as [hb Hhb].
  destruct (wf_vlr_data _ _ Hwf) as [Hd Hl].
  exists (hb ++ v_data v). split; [|split].
  - unfold enc_vlr. rewrite vlr_w_fixed, Hhb.
    destruct ext; cbn [negb andb bind]; [reflexivity|].
    specialize (Hl eq_refl). destruct (len (v_data v) >? 65535) eqn:E; [lia|reflexivity].
  - destruct (dec_enc_fields _ _ _ [] Hf Hhb) as [_ Hw].
    rewrite len_app, Hw, vlr_fixed_width. reflexivity.
  - rewrite bytes_ok_app, (enc_fields_bytes_ok _ _ _ Hf Hhb), Hd. reflexivity.
Qed.

Lemma dec_enc_vlr_fields ext v hb rest : wf_vlr ext v = true ->
  enc_fields (vlr_fixed ext) (vlr_vals v) = Ok hb ->
  dec_fields (vlr_fixed ext) (hb ++ rest) = (combine (layout_names (vlr_fixed ext)) (vlr_vals v), rest).
Proof.
  intros Hwf Hhb. pose proof (wf_vlr_fields _ _ Hwf) as Hf.
  now destruct (dec_enc_fields _ _ _ rest Hf Hhb) as [-> _].
Qed.

(* ---------------- lists of records ---------------- *)
Theorem dec_enc_vlrs : forall ext vl bs rest,
  forallb (wf_vlr ext) vl = true -> enc_vlrs ext vl = Ok bs ->
  dec_vlrs ext (length vl) (bs ++ rest) = Ok (vl, rest).
Proof.
  intros ext vl. induction vl as [|v vl IH]; intros bs rest Hwf He.
  - cbn [enc_vlrs] in He. injection He as <-. reflexivity.
  - cbn [forallb] in Hwf. apply andb_true_iff in Hwf as [Hv Hr].
    cbn [enc_vlrs] in He.
    destruct (enc_vlr ext v) as [a|e] eqn:Ea; [|discriminate]. cbn [bind] in He.
    destruct (enc_vlrs ext vl) as [b|e] eqn:Eb; [|discriminate]. cbn [bind] in He. injection He as <-.
    destruct (enc_vlr_inv _ _ _ Hv Ea) as (hb & Hhb & ->).
    cbn [length dec_vlrs]. rewrite vlr_r_fixed.
    rewrite <- !app_assoc.
    rewrite (dec_enc_vlr_fields _ _ _ (v_data v ++ b ++ rest) Hv Hhb).
    assert (aint (combine (layout_names (vlr_fixed ext)) (vlr_vals v)) "record_length" = len (v_data v)) as -> by reflexivity.
    assert (abytes (combine (layout_names (vlr_fixed ext)) (vlr_vals v)) "user_id" = v_uid v) as -> by reflexivity.
    assert (aint (combine (layout_names (vlr_fixed ext)) (vlr_vals v)) "record_id" = v_rid v) as -> by reflexivity.
    assert (abytes (combine (layout_names (vlr_fixed ext)) (vlr_vals v)) "description" = v_desc v) as -> by reflexivity.
    rewrite (wf_vlr_ascii _ _ Hv). rewrite to_nat_len.
    rewrite skipn_app_exact by reflexivity. rewrite firstn_app_exact by reflexivity.
    rewrite (IH b rest Hr eq_refl). cbn [bind fst snd].
    destruct v; reflexivity.
Qed.
Print Assumptions dec_enc_vlrs.

Theorem enc_vlrs_ok : forall ext vl, forallb (wf_vlr ext) vl = true ->
  exists bs, enc_vlrs ext vl = Ok bs
   /\ len bs = fold_right (fun v acc => (if ext then 60 else 54) + len (v_data v) + acc) 0 vl
   /\ bytes_ok bs = true.
Proof.
  intros ext vl. induction vl as [|v vl IH]; intros Hwf.
  - exists []. repeat split.
  - cbn [forallb] in Hwf. apply andb_true_iff in Hwf as [Hv Hr].
    destruct (enc_vlr_ok _ _ Hv) as (a & Ha & Hla & Hba).
    destruct (IH Hr) as (b & Hb & Hlb & Hbb).
    exists (a ++ b). cbn [enc_vlrs fold_right]. rewrite Ha, Hb. cbn [bind].
    split; [reflexivity|]. split.
    + rewrite len_app, Hla, Hlb. lia.
    + rewrite bytes_ok_app, Hba, Hbb. reflexivity.
Qed.
Print Assumptions enc_vlrs_ok.

(* an over-long VLR payload is refused, never truncated *)
Theorem enc_vlrs_oversize : forall vl v, In v vl -> len (v_data v) > 65535 -> is_ok (enc_vlrs false vl) = false.
Proof.
  intros vl v. induction vl as [|x vl IH]; intros Hin Hlen; [destruct Hin|].
  cbn [enc_vlrs]. destruct Hin as [->|Hin].
  - unfold enc_vlr. cbn [negb andb].
    destruct (len (v_data v) >? 65535) eqn:E; [reflexivity|lia].
  - destruct (enc_vlr false x) as [a|e]; [|reflexivity]. cbn [bind].
    specialize (IH Hin Hlen). destruct (enc_vlrs false vl) as [b|e]; [discriminate|reflexivity].
Qed.
Print Assumptions enc_vlrs_oversize.

Theorem enc_vlrs_app : forall ext a b ba bb, enc_vlrs ext a = Ok ba -> enc_vlrs ext b = Ok bb ->
  enc_vlrs ext (a ++ b) = Ok (ba ++ bb).
Proof.
  intros ext a. induction a as [|v a IH]; intros b ba bb Ha Hb.
  - cbn [enc_vlrs] in Ha. injection Ha as <-. exact Hb.
  - cbn [enc_vlrs app] in *.
    destruct (enc_vlr ext v) as [x|e]; [|discriminate]. cbn [bind] in *.
    destruct (enc_vlrs ext a) as [y|e] eqn:Ey; [|discriminate]. cbn [bind] in Ha. injection Ha as <-.
    rewrite (IH b y bb eq_refl Hb). cbn [bind]. now rewrite app_assoc.
Qed.
Print Assumptions enc_vlrs_app.
