(* C15 — the traversal terminates on every hierarchy, well-formed or not: fuel_bound t always suffices. *)
From Coq Require Import String.
From Coq Require Import ZArith List Bool Lia ZifyBool Arith.
From LasV Require Import Lib.Base Gen.GenCopc Model.Copc Proofs.CopcKeys Proofs.CopcDict.
Import ListNotations.
Open Scope list_scope.
Open Scope Z_scope.

Definition b2n (b : bool) : nat := if b then 1%nat else 0%nat.

Lemma list_sum_rev : forall l, list_sum (rev l) = list_sum l.
Proof.
  induction l as [|x xs IH]; [reflexivity|]. cbn [rev]. rewrite list_sum_app, IH. simpl. lia.
Qed.

Lemma list_sum_map_le : forall {A} (f g : A -> nat) l, (forall x, In x l -> (f x <= g x)%nat) ->
  (list_sum (map f l) <= list_sum (map g l))%nat.
Proof.
  intros A f g l. induction l as [|x xs IH]; intros H; simpl; [lia|].
  assert (f x <= g x)%nat by (apply H; simpl; auto).
  assert (list_sum (map f xs) <= list_sum (map g xs))%nat by (apply IH; intros; apply H; simpl; auto). lia.
Qed.

Lemma list_sum_map_add : forall {A} (f g : A -> nat) l,
  list_sum (map (fun x => (f x + g x)%nat) l) = (list_sum (map f l) + list_sum (map g l))%nat.
Proof. intros A f g l. induction l as [|x xs IH]; simpl; [reflexivity | rewrite IH; lia]. Qed.

Lemma list_sum_map_const : forall {A} (c : nat) (l : list A), list_sum (map (fun _ => c) l) = (c * length l)%nat.
Proof. intros A c l. induction l as [|x xs IH]; simpl; [lia | rewrite IH; lia]. Qed.

Lemma list_sum_flat_map : forall {A B} (f : B -> nat) (g : A -> list B) l,
  list_sum (map f (flat_map g l)) = list_sum (map (fun a => list_sum (map f (g a))) l).
Proof.
  intros A B f g l. induction l as [|x xs IH]; simpl; [reflexivity|]. rewrite map_app, list_sum_app, IH. reflexivity.
Qed.

Section Term.
Variable t : tree.
Variable g : geom.
Variable ob : option box.
Variable lv : option (Z * Z).

Let E := all_entries t.

Definition has_entry (P : entry -> bool) (es : list entry) (k : vkey) : bool :=
  existsb (fun e => key_eqb (e_key e) k && P e) es.
Definition refE (k : vkey) : bool := has_entry is_ref E k.
Definition resE (k : vkey) : bool := has_entry (fun e => negb (is_ref e)) E k.

Lemma has_entry_in : forall P es e, In e es -> P e = true -> has_entry P es (e_key e) = true.
Proof.
  intros P es e Hin HP. unfold has_entry. apply existsb_exists. exists e. split; [exact Hin|].
  rewrite key_eqb_refl, HP. reflexivity.
Qed.

Definition depth_of (es : list entry) : Z := fold_right (fun e a => Z.max (kl (e_key e) + 1) a) 0 es.

Lemma depth_of_spec : forall es e, In e es -> kl (e_key e) < depth_of es.
Proof.
  induction es as [|x xs IH]; intros e H; [contradiction|]. cbn [depth_of fold_right].
  destruct H as [<- | H]; [lia | specialize (IH e H); unfold depth_of in IH; lia].
Qed.

Lemma has_entry_level : forall P k, has_entry P E k = true -> kl k < depth_of E.
Proof.
  intros P k H. unfold has_entry in H. apply existsb_exists in H. destruct H as [e [Hin He]].
  apply andb_prop in He. destruct He as [He _]. apply key_eqb_eq in He. subst k. apply depth_of_spec. exact Hin.
Qed.

(* static cost of the sub-tree of key k *)
Fixpoint W (n : nat) (k : vkey) : nat :=
  (1 + b2n (refE k) +
   (if resE k then match n with O => 0 | S m => list_sum (map (W m) (children k)) end else 0))%nat.

Definition idx (k : vkey) : nat := Z.to_nat (depth_of E - kl k).

Definition vis_res (h : list entry) (k : vkey) : bool :=
  match lookup k h with Some e => negb (is_ref e) | None => false end.

Definition pend (h : list entry) (k : vkey) : nat := if vis_res h k then 0%nat else b2n (refE k).

Definition cost (h : list entry) (k : vkey) : nat :=
  (1 + pend h k + (if resE k then list_sum (map (fun c => W (idx c) c) (children k)) else 0))%nat.

Definition phi (h : list entry) (st : list vkey) : nat := list_sum (map (cost h) st).

Lemma cost_le_W : forall h k, (cost h k <= W (idx k) k)%nat.
Proof.
  intros h k. unfold cost.
  assert (Hp : (pend h k <= b2n (refE k))%nat) by (unfold pend; destruct (vis_res h k); lia).
  destruct (resE k) eqn:Er.
  - assert (Hl : kl k < depth_of E) by (eapply has_entry_level; exact Er).
    assert (Hi : idx k = S (Z.to_nat (depth_of E - (kl k + 1)))) by (unfold idx; lia).
    rewrite Hi. cbn [W]. rewrite Er.
    assert (Hs : list_sum (map (fun c => W (idx c) c) (children k))
                 = list_sum (map (W (Z.to_nat (depth_of E - (kl k + 1)))) (children k))).
    { apply f_equal. apply map_ext_in. intros c Hc. apply in_children_parent in Hc. destruct Hc as [_ Hc].
      unfold idx. rewrite Hc. reflexivity. }
    rewrite Hs. lia.
  - destruct (idx k); cbn [W]; rewrite Er; lia.
Qed.

Lemma vis_res_merge : forall h p k, vis_res h k = true -> vis_res (merge h p) k = true.
Proof.
  intros h p k H. unfold vis_res in *. destruct (lookup k h) as [o|] eqn:Eo; [|discriminate].
  rewrite (merge_resolved_kept k h p o Eo); [exact H|]. destruct (is_ref o); [discriminate | reflexivity].
Qed.

Lemma pend_merge : forall h p k, (pend (merge h p) k <= pend h k)%nat.
Proof.
  intros h p k. unfold pend. destruct (vis_res h k) eqn:Ev.
  - rewrite (vis_res_merge h p k Ev). lia.
  - destruct (vis_res (merge h p) k); lia.
Qed.

Lemma cost_merge : forall h p k, (cost (merge h p) k <= cost h k)%nat.
Proof. intros h p k. unfold cost. pose proof (pend_merge h p k). lia. Qed.

Lemma phi_merge : forall h p st, (phi (merge h p) st <= phi h st)%nat.
Proof. intros h p st. unfold phi. apply list_sum_map_le. intros x _. apply cost_merge. Qed.

Lemma phi_app : forall h a b, phi h (a ++ b) = (phi h a + phi h b)%nat.
Proof. intros h a b. unfold phi. rewrite map_app, list_sum_app. reflexivity. Qed.

Lemma incl_merge_E : forall h off size, incl h E -> incl (merge h (page_at (t_pages t) off size)) E.
Proof.
  intros h off size Hh e He. apply in_merge in He. destruct He as [He | He]; [apply Hh; exact He|].
  unfold E, all_entries. apply in_or_app. right. eapply page_at_in. exact He.
Qed.

Lemma traverse_fuel : forall fuel h st acc, incl h E -> (phi h st <= fuel)%nat ->
  traverse fuel t g ob lv h st acc <> Err EFuel.
Proof.
  induction fuel as [|f IH]; intros h st acc Hh Hphi.
  - destruct st as [|k st']; cbn [traverse]; [discriminate|].
    exfalso. assert (Hk : phi h (k :: st') = (cost h k + phi h st')%nat) by reflexivity.
    assert (Hc1 : (1 <= cost h k)%nat) by (unfold cost; lia). lia.
  - destruct st as [|k st']; cbn [traverse]; [discriminate|].
    assert (Hk : phi h (k :: st') = (cost h k + phi h st')%nat) by reflexivity.
    assert (Hc1 : (1 <= cost h k)%nat) by (unfold cost; lia).
    destruct (negb (in_bounds g ob k)); [apply IH; [exact Hh | lia]|].
    destruct (negb (below_stop lv k)); [apply IH; [exact Hh | lia]|].
    destruct (lookup k h) as [e|] eqn:Ee; [|apply IH; [exact Hh | lia]].
    pose proof (lookup_some k h e Ee) as [Eke Hine].
    destruct (is_ref e) eqn:Er.
    + set (h' := merge h (page_at (t_pages t) (e_off e) (e_size e))).
      destruct (page_describes k (page_at (t_pages t) (e_off e) (e_size e))) eqn:Ed; [|discriminate].
      destruct (page_describes_merge k h _ e Ee Er Ed) as [e' [_ [Ee' Er']]]. fold h' in Ee'.
      apply IH; [apply incl_merge_E; exact Hh|].
      rewrite phi_app. pose proof (phi_merge h (page_at (t_pages t) (e_off e) (e_size e)) st') as Hm. fold h' in Hm.
      assert (Hck : (cost h' k + 1 <= cost h k)%nat).
      { unfold cost, pend, vis_res. rewrite Ee, Ee', Er, Er'. cbn [negb].
        assert (Href : refE k = true).
        { rewrite <- Eke. apply has_entry_in; [apply Hh; exact Hine | exact Er]. }
        rewrite Href. cbn [b2n]. lia. }
      assert (H1 : phi h' [k] = (cost h' k + 0)%nat) by reflexivity. lia.
    + assert (Hres : resE k = true).
      { rewrite <- Eke. apply has_entry_in; [apply Hh; exact Hine | rewrite Er; reflexivity]. }
      destruct (e_cnt e >=? gen_node_min_count).
      * apply IH; [exact Hh|]. rewrite phi_app.
        assert (Hch : (phi h (rev (children k)) <= list_sum (map (fun c => W (idx c) c) (children k)))%nat).
        { unfold phi. rewrite map_rev, list_sum_rev. apply list_sum_map_le. intros c _. apply cost_le_W. }
        assert (Hck : (1 + list_sum (map (fun c => W (idx c) c) (children k)) <= cost h k)%nat).
        { unfold cost. rewrite Hres. lia. }
        lia.
      * apply IH; [exact Hh | lia].
Qed.

(* ---------- the closed bound ---------- *)
Definition weight (x : vkey) : nat := (b2n (refE x) + 8 * b2n (resE x))%nat.

Lemma list_sum_cons : forall x l, list_sum (x :: l) = (x + list_sum l)%nat.
Proof. reflexivity. Qed.

Lemma W_le_enum : forall n k, (W n k <= 1 + list_sum (map weight (enum n k)))%nat.
Proof.
  induction n as [|n IH]; intros k; cbn [W enum map]; rewrite list_sum_cons; unfold weight at 1.
  - destruct (resE k); cbn [b2n map list_sum]; simpl; lia.
  - destruct (resE k) eqn:Er; cbn [b2n]; [|lia].
    rewrite list_sum_flat_map.
    assert (H : (list_sum (map (W n) (children k))
                 <= list_sum (map (fun a => (1 + list_sum (map weight (enum n a)))%nat) (children k)))%nat).
    { apply list_sum_map_le. intros c _. apply IH. }
    rewrite (list_sum_map_add (fun _ => 1%nat) (fun a => list_sum (map weight (enum n a)))) in H.
    rewrite list_sum_map_const, length_children in H. lia.
Qed.

Lemma sum_key_absent : forall a (b : bool) l, ~ In a l -> list_sum (map (fun x => b2n (key_eqb a x && b)) l) = 0%nat.
Proof.
  intros a b l. induction l as [|x xs IH]; intros H; simpl; [reflexivity|].
  assert (Hx : key_eqb a x = false) by (apply key_eqb_neq; intros ->; apply H; simpl; auto).
  rewrite Hx. cbn [andb b2n]. apply IH. intros Hin. apply H. simpl; auto.
Qed.

Lemma sum_key_nodup : forall a (b : bool) l, NoDup l -> (list_sum (map (fun x => b2n (key_eqb a x && b)) l) <= b2n b)%nat.
Proof.
  intros a b l. induction l as [|x xs IH]; intros H; simpl; [lia|].
  inversion H as [|? ? Hx Hxs]; subst.
  destruct (key_eqb a x) eqn:Ea.
  - apply key_eqb_eq in Ea. subst x. rewrite (sum_key_absent a b xs Hx). cbn [andb]. lia.
  - cbn [andb b2n]. apply IH. exact Hxs.
Qed.

Lemma count_has_entry : forall P es l, NoDup l ->
  (list_sum (map (fun x => b2n (has_entry P es x)) l) <= length (filter P es))%nat.
Proof.
  intros P es. induction es as [|e es IH]; intros l Hnd.
  - unfold has_entry. cbn [existsb b2n filter length]. rewrite list_sum_map_const. lia.
  - assert (H1 : (list_sum (map (fun x => b2n (has_entry P (e :: es) x)) l)
                  <= list_sum (map (fun x => (b2n (key_eqb (e_key e) x && P e) + b2n (has_entry P es x))%nat) l))%nat).
    { apply list_sum_map_le. intros x _. unfold has_entry. cbn [existsb].
      destruct (key_eqb (e_key e) x && P e); destruct (existsb _ es); cbn [orb b2n]; lia. }
    rewrite list_sum_map_add in H1.
    pose proof (sum_key_nodup (e_key e) (P e) l Hnd) as H2. pose proof (IH l Hnd) as H3.
    cbn [filter]. destruct (P e); cbn [length b2n] in *; lia.
Qed.

Lemma weight_sum_le : forall l, NoDup l -> (list_sum (map weight l) <= n_refs t + 8 * n_nodes t)%nat.
Proof.
  intros l Hnd. unfold weight.
  rewrite (list_sum_map_add (fun x => b2n (refE x)) (fun x => (8 * b2n (resE x))%nat)).
  assert (H8 : list_sum (map (fun x => (8 * b2n (resE x))%nat) l) = (8 * list_sum (map (fun x => b2n (resE x)) l))%nat).
  { clear Hnd. induction l as [|x xs IH]; [reflexivity|]. cbn [map]. rewrite !list_sum_cons, IH. lia. }
  rewrite H8.
  pose proof (count_has_entry is_ref E l Hnd) as H1.
  pose proof (count_has_entry (fun e => negb (is_ref e)) E l Hnd) as H2.
  unfold refE, resE, n_refs, n_nodes. fold E. lia.
Qed.

Theorem load_octree_terminates : forall fuel, (fuel_bound t <= fuel)%nat -> load_octree fuel t g ob lv <> Err EFuel.
Proof.
  intros fuel Hf. unfold load_octree. apply traverse_fuel.
  - intros e He. unfold page_dict in He. apply in_rev in He. unfold E, all_entries. apply in_or_app. left. exact He.
  - assert (H0 : phi (page_dict (t_root t)) [root_key] = (cost (page_dict (t_root t)) root_key + 0)%nat) by reflexivity.
    pose proof (cost_le_W (page_dict (t_root t)) root_key) as H1.
    pose proof (W_le_enum (idx root_key) root_key) as H2.
    pose proof (weight_sum_le (enum (idx root_key) root_key) (NoDup_enum _ _)) as H3.
    unfold fuel_bound in Hf. lia.
Qed.

End Term.
