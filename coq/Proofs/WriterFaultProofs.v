(* Proofs about Model/WriterFault.v (C04, round 6). *)
From Coq Require Import String.
From Coq Require Import ZArith List Bool Lia.
From LasV Require Import Lib.Base Lib.Layout Lib.BaseFacts Gen.GenHeaderLayout Gen.GenFormatBits Gen.GenDims
     Model.Las Model.LasSpec Model.WriterFault Proofs.WriterProofs.
Import ListNotations.
Open Scope list_scope.
Open Scope Z_scope.

(* ---------------- the decision is the exact equality of values ---------------- *)
Lemma f64_veq_canon : forall a b, f64_veq a b = true -> f64_canon a = f64_canon b.
Proof.
  intros a b H. unfold f64_veq in H. apply andb_prop in H as [_ H].
  apply orb_prop in H as [H|H].
  - apply Z.eqb_eq in H. now subst.
  - apply andb_prop in H as [Ha Hb]. unfold f64_canon. now rewrite Ha, Hb.
Qed.

Lemma all_veq_canon : forall a b, all_veq a b = true -> map f64_canon a = map f64_canon b.
Proof.
  induction a as [|x a IH]; destruct b as [|y b]; simpl; intros H; try discriminate; [reflexivity|].
  apply andb_prop in H as [H1 H2]. f_equal; [now apply f64_veq_canon | now apply IH].
Qed.

Lemma all_veq_refl : forall a, forallb (fun x => negb (f64_is_nan x)) a = true -> all_veq a a = true.
Proof.
  induction a as [|x a IH]; simpl; intros H; [reflexivity|].
  apply andb_prop in H as [H1 H2]. rewrite (IH H2), andb_true_r.
  unfold f64_veq. rewrite H1. simpl. now rewrite Z.eqb_refl.
Qed.

(* no tolerance: scalings for which the chunk is stored as it is denote the same six values *)
Theorem stored_raw_only_if_same_values : forall h c,
  all_veq (sa_scaling c) (scaling_of h) = true -> map f64_canon (sa_scaling c) = map f64_canon (scaling_of h).
Proof. intros h c. apply all_veq_canon. Qed.

Theorem express_same : forall h c, all_veq (sa_scaling c) (scaling_of h) = true -> express h c = sa_raw c.
Proof. intros h c H. unfold express. now rewrite H. Qed.

Theorem express_other : forall h c, all_veq (sa_scaling c) (scaling_of h) = false -> express h c = sa_resc c.
Proof. intros h c H. unfold express. now rewrite H. Qed.

(* ---------------- write_points never touches the writer's header ---------------- *)
Lemma wstep_points_h : forall ap s recs b, w_h (fst (wstep ap s (WPoints recs b))) = w_h s.
Proof.
  intros ap s recs b. unfold wstep. destruct recs as [|r recs]; [reflexivity|].
  destruct (w_done s); [reflexivity|]. destruct (negb b); [reflexivity|].
  match goal with |- context [if ?c then _ else _] => destruct c end; reflexivity.
Qed.

(* ---------------- fold_left run = recursive run ---------------- *)
Lemma wrun_acc : forall ap ops s acc,
  fold_left (fun acc op => let '(s', o) := wstep ap (fst acc) op in (s', snd acc ++ [o])) ops (s, acc)
  = (fst (wrun_list ap s ops), acc ++ snd (wrun_list ap s ops)).
Proof.
  intros ap. induction ops as [|op ops IH]; intros s acc; simpl.
  - now rewrite app_nil_r.
  - destruct (wstep ap s op) as [s' o] eqn:E. simpl. rewrite IH.
    destruct (wrun_list ap s' ops) as [s'' os]. simpl. now rewrite <- app_assoc.
Qed.

Lemma wrun_is_wrun_list : forall ap s ops, wrun ap s ops = wrun_list ap s ops.
Proof.
  intros. unfold wrun. rewrite wrun_acc. simpl. now destruct (wrun_list ap s ops).
Qed.

(* ---------------- a session of chunks, scale-aware or not, is the session of what is stored for each ---------------- *)
Fixpoint lower_all (h : assoc) (ops : list fop) : list wop :=
  match ops with
  | [] => []
  | op :: r => match lower h op with Some o => o :: lower_all h r | None => lower_all h r end
  end.

Lemma frun_cons : forall ap s op r,
  frun ap s (op :: r) = (fst (frun ap (fst (fstep ap s op)) r), snd (fstep ap s op) :: snd (frun ap (fst (fstep ap s op)) r)).
Proof.
  intros. simpl. destruct (fstep ap s op) as [s' o]. simpl. now destruct (frun ap s' r).
Qed.

Lemma wrun_list_cons : forall ap s op r,
  wrun_list ap s (op :: r) = (fst (wrun_list ap (fst (wstep ap s op)) r), snd (wstep ap s op) :: snd (wrun_list ap (fst (wstep ap s op)) r)).
Proof.
  intros. simpl. destruct (wstep ap s op) as [s' o]. simpl. now destruct (wrun_list ap s' r).
Qed.

Lemma frun_chunks : forall ap ops s, forallb is_chunk ops = true ->
  frun ap s ops = wrun_list ap s (lower_all (w_h s) ops).
Proof.
  intros ap. induction ops as [|op ops IH]; intros s H; [reflexivity|].
  simpl in H. apply andb_prop in H as [Hc Hr].
  destruct op as [o|c same|l k|recs same|]; simpl in Hc; try discriminate.
  - destruct o as [recs b| |]; try discriminate.
    rewrite frun_cons. cbn [lower_all lower]. rewrite wrun_list_cons. cbn [fstep].
    rewrite (IH _ Hr), wstep_points_h. reflexivity.
  - rewrite frun_cons. cbn [lower_all lower]. rewrite wrun_list_cons. cbn [fstep].
    rewrite (IH _ Hr), wstep_points_h. reflexivity.
Qed.

Lemma frun_fop : forall ap ops s, frun ap s (map FOp ops) = wrun_list ap s ops.
Proof.
  intros ap. induction ops as [|op ops IH]; intros s; [reflexivity|].
  simpl. destruct (wstep ap s op) as [s' o]. now rewrite IH.
Qed.

Lemma frun_app : forall ap a b s,
  frun ap s (a ++ b) = let '(s', o1) := frun ap s a in let '(s'', o2) := frun ap s' b in (s'', o1 ++ o2).
Proof.
  intros ap. induction a as [|op a IH]; intros b s; simpl.
  - now destruct (frun ap s b).
  - destruct (fstep ap s op) as [s1 o]. rewrite IH.
    destruct (frun ap s1 a) as [s2 o1]. destruct (frun ap s2 b) as [s3 o2]. reflexivity.
Qed.

Lemma wrun_list_app : forall ap a b s,
  wrun_list ap s (a ++ b) = let '(s', o1) := wrun_list ap s a in let '(s'', o2) := wrun_list ap s' b in (s'', o1 ++ o2).
Proof.
  intros ap. induction a as [|op a IH]; intros b s; simpl.
  - now destruct (wrun_list ap s b).
  - destruct (wstep ap s op) as [s1 o]. rewrite IH.
    destruct (wrun_list ap s1 a) as [s2 o1]. destruct (wrun_list ap s2 b) as [s3 o2]. reflexivity.
Qed.

Lemma lower_all_scaled : forall h cl, lower_all h (map (fun c => FScaled c true) cl) = map (fun c => WPoints (express h c) true) cl.
Proof. induction cl as [|c cl IH]; simpl; [reflexivity|now rewrite IH]. Qed.

Lemma is_chunk_scaled : forall cl, forallb is_chunk (map (fun c => FScaled c true) cl) = true.
Proof. induction cl; simpl; auto. Qed.

(* chunked writing of scale-aware chunks of ANY scalings = one-shot writing of the points in the writer's system *)
Theorem scaled_chunks_equiv : forall ap, ap_ok ap -> forall h vl fmt (cl : list sachunk) evl s0 s outs,
  wopen h vl fmt = Ok s0 ->
  frun ap s0 (map (fun c => FScaled c true) cl ++ map FOp ((match evl with [] => [] | _ => [WEvlrs evl] end) ++ [WClose])) = (s, outs) ->
  all_ok outs ->
  file_of ap h vl fmt (concat (map (express (w_h s0)) cl)) evl = Ok (w_file s).
Proof.
  intros ap Hap h vl fmt cl evl s0 s outs Ho Hr Hok.
  apply (writer_refines ap Hap h vl fmt (map (express (w_h s0)) cl) evl s0 s outs Ho); [|exact Hok].
  rewrite wrun_is_wrun_list. unfold chunk_ops. rewrite map_map.
  rewrite frun_app in Hr. rewrite (frun_chunks ap _ s0 (is_chunk_scaled cl)) in Hr.
  rewrite lower_all_scaled in Hr.
  rewrite wrun_list_app.
  destruct (wrun_list ap s0 (map (fun c => WPoints (express (w_h s0) c) true) cl)) as [s1 o1].
  rewrite frun_fop in Hr. exact Hr.
Qed.

(* ---------------- faults ---------------- *)
(* a write_evlrs that fails after ANY number of bytes leaves a finished writer: every later non-empty chunk is refused and
   nothing changes any more *)
Theorem failed_evlrs_finishes : forall ap s l k recs b,
  aint (w_h s) "version.minor" <? 4 = false -> l <> [] -> recs <> [] ->
  let s' := fst (fstep ap s (FEvlrsFault l k)) in
  snd (fstep ap s (FEvlrsFault l k)) <> Ok tt
  /\ w_done s' = true /\ wstep ap s' (WPoints recs b) = (s', Err ELaspy)
  /\ forall c, fstep ap s' (FScaled c b) = (s', match express (w_h s') c with [] => Ok tt | _ => Err ELaspy end).
Proof.
  intros ap s l k recs b Hv Hl Hr. unfold fstep at 1 2. rewrite Hv.
  destruct l as [|v l]; [contradiction|].
  assert (G : forall s1, w_done s1 = true ->
            wstep ap s1 (WPoints recs b) = (s1, Err ELaspy)
            /\ forall c, fstep ap s1 (FScaled c b) = (s1, match express (w_h s1) c with [] => Ok tt | _ => Err ELaspy end)).
  { intros s1 Hd. split; [now apply write_after_done|].
    intros c. cbn [fstep]. destruct (express (w_h s1) c) as [|r rr] eqn:Ex; [reflexivity|].
    apply write_after_done; [exact Hd | intro HH; discriminate HH]. }
  destruct (enc_vlrs true (v :: l)) as [eb|e]; cbn [fst snd]; (split; [discriminate|]); (split; [reflexivity|]); apply G; reflexivity.
Qed.

(* the bytes below the EVLR section - the header written at open and every accepted point record - are not touched by
   the failed call *)
Lemma firstn_write_at : forall f pos bs, 0 <= pos -> (Z.to_nat pos <= length f)%nat ->
  firstn (Z.to_nat pos) (write_at f pos bs) = firstn (Z.to_nat pos) f.
Proof.
  intros f pos bs Hp Hl. unfold write_at.
  rewrite firstn_app. rewrite firstn_firstn, Nat.min_id.
  rewrite firstn_length. rewrite (Nat.min_l _ _ Hl), Nat.sub_diag. simpl. now rewrite app_nil_r.
Qed.

Theorem failed_evlrs_keeps_points : forall ap s l k s' o,
  fstep ap s (FEvlrsFault l k) = (s', o) -> 0 <= w_pos s -> (Z.to_nat (w_pos s) <= length (w_file s))%nat ->
  firstn (Z.to_nat (w_pos s)) (w_file s') = firstn (Z.to_nat (w_pos s)) (w_file s) /\ s_count (w_st s') = s_count (w_st s).
Proof.
  intros ap s l k s' o H Hp Hl. unfold fstep in H.
  destruct (aint (w_h s) "version.minor" <? 4); [inversion H; subst; auto|].
  destruct l as [|v l]; [inversion H; subst; auto|].
  destruct (enc_vlrs true (v :: l)) as [eb|e]; inversion H; subst; auto.
  simpl. split; [now apply firstn_write_at|reflexivity].
Qed.

(* a chunk the destination refused is not there: the writer is exactly as before the call *)
Theorem refused_by_destination_is_noop : forall ap s recs b, fst (fstep ap s (FPointsFault recs b)) = s.
Proof.
  intros ap s recs b. unfold fstep. destruct recs as [|r recs]; [reflexivity|].
  destruct (snd (wstep ap s (WPoints (r :: recs) b))); reflexivity.
Qed.

Theorem refused_by_destination_raises : forall ap s recs b, recs <> [] -> snd (fstep ap s (FPointsFault recs b)) <> Ok tt.
Proof.
  intros ap s recs b Hr. unfold fstep. destruct recs as [|r recs]; [contradiction|].
  destruct (snd (wstep ap s (WPoints (r :: recs) b))); simpl; discriminate.
Qed.

(* a close() whose header rewrite was refused finishes the writer, leaves the file alone, and a later successful close() gives
   exactly the file (and the outcome) the first one would have given *)
Theorem failed_close_finishes : forall ap s recs b, recs <> [] ->
  let s' := fst (fstep ap s FCloseFault) in
  w_file s' = w_file s /\ wstep ap s' (WPoints recs b) = (s', Err ELaspy).
Proof.
  intros ap s recs b Hr. cbn [fstep fst]. split; [reflexivity|]. now apply write_after_done.
Qed.

Theorem close_after_failed_close : forall ap s,
  snd (fstep ap (fst (fstep ap s FCloseFault)) (FOp WClose)) = snd (fstep ap s (FOp WClose))
  /\ w_file (fst (fstep ap (fst (fstep ap s FCloseFault)) (FOp WClose))) = w_file (fst (fstep ap s (FOp WClose))).
Proof.
  intros ap s. cbn [fstep fst]. unfold wstep. cbn [w_h w_st w_vlrs w_fmt w_file w_pos w_done].
  destruct (enc_header _ _ _) as [hb|e]; split; reflexivity.
Qed.
