From Coq Require Import ZArith List Bool Lia.
From LasV Require Import Lib.Base Lib.BaseFacts Gen.GenGlobalEncoding Model.GlobalEnc Proofs.GlobalEncProofs Model.GlobalEncPy.
Import ListNotations.
Open Scope Z_scope.

(* on a legal target the boolean handed to the generated setter is the truth value of the assigned object *)
Lemma flag_arg_truthy i x : target_ok i x = true -> flag_arg i x = truthy x.
Proof.
  unfold target_ok, flag_arg, truthy. intros H. apply andb_true_iff in H as [_ H].
  destruct i as [|i]; [|reflexivity].
  apply andb_true_iff in H as [H0 H1]. apply Z.leb_le in H0, H1.
  assert (pv_int x = 0 \/ pv_int x = 1) as [-> | ->] by lia; reflexivity.
Qed.

(* whatever the representation of the assigned object: read-back, no other bit, 16-bit range *)
Theorem ge_set_py_sound v i x :
  0 <= v < 65536 -> (i < 5)%nat -> target_ok i x = true ->
  ge_get i (ge_set_py i v x) = truthy x
  /\ Z.land (Z.lxor (ge_set_py i v x) v) (Z.lnot (ge_mask i)) = 0
  /\ 0 <= ge_set_py i v x < 65536.
Proof.
  intros Hv Hi Hx. unfold ge_set_py.
  destruct (ge_flag_sound v i (flag_arg i x) Hv Hi) as (Hg & Ho & Hr).
  rewrite Hg. split; [now apply flag_arg_truthy|]. split; assumption.
Qed.

(* even outside the legal targets (gps_time_type = 2, 3, -1 ...: bit 0 of the integer is kept) nothing but the flag's bit moves *)
Theorem ge_set_py_other_bits v i x n :
  0 <= v < 65536 -> (i < 5)%nat -> 0 <= n -> Z.testbit (ge_mask i) n = false ->
  Z.testbit (ge_set_py i v x) n = Z.testbit v n.
Proof. intros Hv Hi Hn Hm. unfold ge_set_py. now apply ge_other_bits. Qed.

(* the result depends on the assigned object through int(value) only: a numpy scalar, a 0-d array, a Python bool or an enum
   member holding the same integer give the same field *)
Theorem ge_set_py_repr i v x y : pv_int x = pv_int y -> ge_set_py i v x = ge_set_py i v y.
Proof. intros H. unfold ge_set_py, flag_arg, truthy. rewrite H. reflexivity. Qed.

Lemma ge_run_py_eq ops : forall v, ge_run_py v ops = ge_run v (map as_bool_op ops).
Proof.
  induction ops as [|[j x] r IH]; intros v; [reflexivity|].
  cbn [ge_run_py ge_run fold_left map as_bool_op fst snd].
  fold (ge_run_py (ge_set_py j v x) r). fold (ge_run (ge_set j v (flag_arg j x)) (map as_bool_op r)).
  rewrite IH. reflexivity.
Qed.

Definition ops_ok_py (ops : list (nat * pyval)) : Prop :=
  Forall (fun op => (fst op < 5)%nat /\ target_ok (fst op) (snd op) = true) ops.

Lemma ops_ok_py_bool ops : ops_ok_py ops -> ops_ok (map as_bool_op ops).
Proof.
  unfold ops_ok_py, ops_ok. intros H. induction H as [|op r [Hi _] _ IH]; [constructor|].
  cbn [map]. constructor; [exact Hi|exact IH].
Qed.

(* last object assigned to flag i *)
Fixpoint last_assign_py (i : nat) (ops : list (nat * pyval)) (acc : option pyval) : option pyval :=
  match ops with
  | [] => acc
  | (j, x) :: r => last_assign_py i r (if (i =? j)%nat then Some x else acc)
  end.

Lemma last_assign_py_bool i ops : ops_ok_py ops -> forall acc,
  last_assign i (map as_bool_op ops) (option_map truthy acc) = option_map truthy (last_assign_py i ops acc).
Proof.
  intros H. induction H as [|[j x] r [Hj Hx] _ IH]; intros acc; [reflexivity|].
  cbn [map as_bool_op fst snd last_assign last_assign_py] in *.
  destruct (Nat.eqb_spec i j) as [->|Hne].
  - rewrite (flag_arg_truthy j x Hx). apply (IH (Some x)).
  - apply IH.
Qed.

Theorem ge_run_py_flags v ops i : 0 <= v < 65536 -> ops_ok_py ops -> (i < 5)%nat ->
  ge_get i (ge_run_py v ops) = match last_assign_py i ops None with Some x => truthy x | None => ge_get i v end.
Proof.
  intros Hv Hops Hi. rewrite ge_run_py_eq.
  rewrite (ge_run_flags v _ i Hv (ops_ok_py_bool ops Hops) Hi).
  pose proof (last_assign_py_bool i ops Hops None) as H. cbn [option_map] in H. rewrite H.
  destruct (last_assign_py i ops None); reflexivity.
Qed.

Theorem ge_run_py_other_bits v ops n : 0 <= v < 65536 -> ops_ok_py ops -> 0 <= n ->
  (forall i, (i < 5)%nat -> Z.testbit (ge_mask i) n = false) ->
  Z.testbit (ge_run_py v ops) n = Z.testbit v n.
Proof.
  intros Hv Hops Hn Hm. rewrite ge_run_py_eq. apply ge_run_other_bits; auto. now apply ops_ok_py_bool.
Qed.
