(* Proofs about Model/ReadBack.v (C01, round 6). *)
From Coq Require Import ZArith List Bool Lia.
From LasV Require Import Lib.Base Model.Cursor Model.ReadBack.
Import ListNotations.
Open Scope Z_scope.

Definition cur_ok (s : sstate) : Prop := 0 <= sp_c s <= sp_n s.

Lemma spec_read_facts : forall s k, cur_ok s ->
  let '(s', a, b) := spec_read s k in
  a = sp_c s /\ sp_n s' = sp_n s /\ sp_c s' = b /\ a <= b <= sp_n s
  /\ (k <> 0 -> a = b -> sp_c s = sp_n s).
Proof.
  intros s k [H0 H1]. unfold spec_read. cbn [sp_n sp_c].
  repeat split; try lia; destruct (k <? 0) eqn:E; try apply Z.ltb_lt in E; try apply Z.ltb_ge in E; lia.
Qed.

Lemma spec_step_ok : forall s op, cur_ok s -> cur_ok (fst (spec_step s op)) /\ sp_n (fst (spec_step s op)) = sp_n s.
Proof.
  intros s op H. destruct op as [n|pos wh|k|]; cbn [spec_step].
  - pose proof (spec_read_facts s n H) as P. destruct (spec_read s n) as [[s' a] b]. cbn [fst].
    destruct P as (Ha & Hn & Hc & Hb & _). unfold cur_ok in *. lia.
  - destruct ((wh =? 0) || (wh =? 1) || (wh =? 2)); [|now split].
    match goal with |- context [if ?c then _ else _] => destruct c eqn:E end; cbn [fst]; [|now split].
    apply andb_prop in E as [E1 E2]. apply Z.leb_le in E1. apply Z.ltb_lt in E2. unfold cur_ok. cbn [sp_n sp_c]. lia.
  - pose proof (spec_read_facts s k H) as P. destruct (spec_read s k) as [[s' a] b].
    destruct P as (Ha & Hn & Hc & Hb & _). destruct (a =? b); cbn [fst]; unfold cur_ok in *; lia.
  - pose proof (spec_read_facts s (-1) H) as P. destruct (spec_read s (-1)) as [[s' a] b]. cbn [fst].
    destruct P as (Ha & Hn & Hc & Hb & _). unfold cur_ok in *. lia.
Qed.

Lemma after_ok_gen : forall ops s, cur_ok s ->
  cur_ok (fold_left (fun s op => fst (spec_step s op)) ops s)
  /\ sp_n (fold_left (fun s op => fst (spec_step s op)) ops s) = sp_n s.
Proof.
  induction ops as [|op ops IH]; intros s H; [now split|].
  cbn [fold_left]. destruct (spec_step_ok s op H) as [H1 H2].
  destruct (IH _ H1) as [H3 H4]. split; [exact H3|congruence].
Qed.

Lemma after_ok : forall n ops, 0 <= n -> cur_ok (after n ops) /\ sp_n (after n ops) = n.
Proof. intros n ops Hn. apply (after_ok_gen ops (mkSp n 0)). unfold cur_ok. cbn. lia. Qed.

(* draining gives the rest, in consecutive non-empty pieces, and leaves the cursor at the end *)
Lemma drain_tiles : forall k, k <> 0 -> forall fuel s, cur_ok s -> sp_n s - sp_c s < Z.of_nat fuel ->
  tiles (sp_c s) (sp_n s) (snd (drain fuel s k)) /\ sp_c (fst (drain fuel s k)) = sp_n s.
Proof.
  intros k Hk. induction fuel as [|f IH]; intros s H Hf.
  - unfold cur_ok in H. cbn in Hf. lia.
  - cbn [drain spec_step].
    pose proof (spec_read_facts s k H) as P. destruct (spec_read s k) as [[s' a] b].
    destruct P as (Ha & Hn & Hc & Hb & Hz).
    destruct (a =? b) eqn:E.
    + apply Z.eqb_eq in E. cbn [fst snd tiles]. specialize (Hz Hk E). lia.
    + apply Z.eqb_neq in E.
      assert (H' : cur_ok s') by (unfold cur_ok in *; lia).
      assert (Hf' : sp_n s' - sp_c s' < Z.of_nat f) by lia.
      destruct (IH s' H' Hf') as [T C]. destruct (drain f s' k) as [s'' l]. cbn [fst snd tiles] in *.
      rewrite Hc, Hn in T. repeat split; try lia; try exact T; try congruence.
Qed.

(* whatever was done on the reader before - reads, seeks, steps of this or another iterator -, draining an iterator gives exactly the
   records from the cursor to the end *)
Theorem drain_after_any_history : forall n k ops fuel, 0 <= n -> k <> 0 -> n < Z.of_nat fuel ->
  let s := after n ops in
  tiles (sp_c s) n (snd (drain fuel s k)) /\ sp_c (fst (drain fuel s k)) = n.
Proof.
  intros n k ops fuel Hn Hk Hf s. destruct (after_ok n ops Hn) as [H1 H2].
  assert (Hc : sp_n s - sp_c s < Z.of_nat fuel) by (subst s; unfold cur_ok in H1; lia).
  destruct (drain_tiles k Hk fuel s H1 Hc) as [T C]. subst s. rewrite H2 in *. now split.
Qed.

(* a second pass: after ANY history, seek(0) and draining an iterator - a fresh one or one created long before - reads every record *)
Theorem second_pass_reads_everything : forall n k ops fuel, 0 < n -> k <> 0 -> n < Z.of_nat fuel ->
  let s := fst (spec_step (after n ops) (CSeek 0 0)) in
  tiles 0 n (snd (drain fuel s k)) /\ sp_c (fst (drain fuel s k)) = n.
Proof.
  intros n k ops fuel Hn Hk Hf s.
  destruct (after_ok n ops (Z.lt_le_incl _ _ Hn)) as [H1 H2].
  assert (Hs : s = mkSp n 0).
  { subst s. cbn [spec_step]. rewrite Z.eqb_refl. cbn [orb]. rewrite H2.
    replace ((0 <=? 0) && (0 <? n)) with true by (symmetry; apply andb_true_intro; split; [reflexivity|now apply Z.ltb_lt]).
    reflexivity. }
  rewrite Hs.
  assert (Hok : cur_ok (mkSp n 0)) by (unfold cur_ok; cbn; lia).
  destruct (drain_tiles k Hk fuel (mkSp n 0) Hok) as [T C]; cbn [sp_n sp_c] in *; [lia|]. now split.
Qed.

(* pieces that tile [a, b) carry exactly the records a .. b-1 *)
Lemma firstn_app_skipn : forall {A} (m1 m2 : nat) (t : list A),
  firstn m1 t ++ firstn m2 (skipn m1 t) = firstn (m1 + m2) t.
Proof.
  induction m1 as [|m1 IH]; intros m2 t; [reflexivity|].
  destruct t as [|x t]; cbn [firstn skipn Nat.add app]; [now rewrite firstn_nil|].
  f_equal. apply IH.
Qed.

Lemma skipn_add : forall {A} (a m : nat) (l : list A), skipn (a + m) l = skipn m (skipn a l).
Proof.
  induction a as [|a IH]; intros m l; [reflexivity|].
  destruct l as [|x l]; cbn [Nat.add skipn]; [now destruct m|]. apply IH.
Qed.

Lemma firstn_skipn_split : forall {A} (l : list A) (a m1 m2 : nat),
  firstn m1 (skipn a l) ++ firstn m2 (skipn (a + m1) l) = firstn (m1 + m2) (skipn a l).
Proof.
  intros A l a m1 m2. rewrite skipn_add. apply firstn_app_skipn.
Qed.

Theorem tiles_carry_the_records : forall {A} (recs : list A) l a b, 0 <= a -> tiles a b l ->
  concat (map (piece recs) l) = firstn (Z.to_nat (b - a)) (skipn (Z.to_nat a) recs).
Proof.
  intros A recs. induction l as [|[x y] l IH]; intros a b Ha T; cbn [tiles] in T.
  - subst. now rewrite Z.sub_diag.
  - destruct T as (-> & H1 & H2 & T). cbn [map concat]. rewrite (IH y b) by (try lia; exact T).
    unfold piece. cbn [fst snd].
    replace (Z.to_nat y) with (Z.to_nat a + Z.to_nat (y - a))%nat by lia.
    rewrite firstn_skipn_split. f_equal. lia.
Qed.
