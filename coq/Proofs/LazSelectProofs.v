(* C14 - proofs about the decompression selection (Model/LazSelect.v). *)
From Coq Require Import String.
From Coq Require Import ZArith List Bool Lia.
From LasV Require Import Lib.Base Lib.BaseFacts Lib.Layout Gen.GenDims Gen.GenC14 Model.Las Model.LasSpec Model.Laz Model.LazSelect
  Proofs.LazContract.
Import ListNotations.
Open Scope list_scope.
Open Scope Z_scope.

(* ---- the Flag class (finite: the dumped member table) ---- *)
Lemma sel_all_is_or : selection_all = or_all (map snd selection_members).
Proof. vm_compute. reflexivity. Qed.

Lemma sel_all_has_every_member : forall e, In e selection_members -> Z.land selection_all (snd e) = snd e /\ 0 < snd e.
Proof.
  assert (H : forallb (fun e => (Z.land selection_all (snd e) =? snd e) && (0 <? snd e)) selection_members = true)
    by (vm_compute; reflexivity).
  intros e He. rewrite forallb_forall in H. specialize (H e He). apply andb_true_iff in H. destruct H as [A B].
  apply Z.eqb_eq in A. apply Z.ltb_lt in B. split; assumption.
Qed.

Lemma sel_defaults_all : forall e, In e selection_defaults -> snd e = selection_all.
Proof.
  assert (H : forallb (fun e => snd e =? selection_all) selection_defaults = true) by (vm_compute; reflexivity).
  intros e He. rewrite forallb_forall in H. apply Z.eqb_eq. exact (H e He).
Qed.

Lemma sel_defaults_three : length selection_defaults = 3%nat.
Proof. reflexivity. Qed.

Lemma sel_base_is_xy : selection_base = selection_xy_returns_channel /\ In selection_base (map snd selection_members)
  /\ sel_to_lazrs selection_base = 0.
Proof. vm_compute. repeat split; auto. Qed.

(* the model of to_lazrs() agrees with the running function where the translator evaluated it *)
Lemma sel_to_lazrs_dumped :
  sel_to_lazrs selection_all = selection_all_to_lazrs /\ sel_to_lazrs selection_base = selection_base_to_lazrs
  /\ sel_to_lazrs 0 = selection_none_to_lazrs
  /\ forall e, In e selection_to_lazrs_table -> sel_to_lazrs (fst e) = snd e.
Proof.
  repeat split; try (vm_compute; reflexivity).
  assert (H : forallb (fun e => sel_to_lazrs (fst e) =? snd e) selection_to_lazrs_table = true) by (vm_compute; reflexivity).
  intros e He. rewrite forallb_forall in H. apply Z.eqb_eq. exact (H e He).
Qed.

(* every layer of the backend is the image of exactly one member, and all() reaches every layer *)
Definition all_layers (sel : Z) : Prop := forall l, In l lz_layers -> has sel l = true.

Lemma sel_all_every_layer : all_layers (sel_to_lazrs selection_all).
Proof.
  assert (H : forallb (has (sel_to_lazrs selection_all)) lz_layers = true) by (vm_compute; reflexivity).
  intros l Hl. rewrite forallb_forall in H. exact (H l Hl).
Qed.

Lemma sel_layers_one_member_each : forall l, In l lz_layers ->
  exists m, In (m, l) selection_to_lazrs_table /\ In m (map snd selection_members).
Proof.
  assert (H : forallb (fun l => existsb (fun e => (snd e =? l) && existsb (Z.eqb (fst e)) (map snd selection_members))
                                        selection_to_lazrs_table) lz_layers = true) by (vm_compute; reflexivity).
  intros l Hl. rewrite forallb_forall in H. specialize (H l Hl). apply existsb_exists in H. destruct H as ([m l'] & Hin & Hc).
  cbn [fst snd] in Hc. apply andb_true_iff in Hc. destruct Hc as [A B]. apply Z.eqb_eq in A. subst l'.
  apply existsb_exists in B. destruct B as (m' & Hm' & E). apply Z.eqb_eq in E. subst m'. exists m. split; assumption.
Qed.

(* to_lazrs() sends every member to the layer of the same name (and a member without a known layer fails this) *)
Lemma sel_members_map_to_their_layers : forall e, In e selection_members ->
  exists l, layer_of_member (fst e) member_layer = Some l /\ In (snd e, l) selection_to_lazrs_table.
Proof.
  assert (H : forallb member_maps_to_its_layer selection_members = true) by (vm_compute; reflexivity).
  intros e He. rewrite forallb_forall in H. specialize (H e He). unfold member_maps_to_its_layer in H.
  destruct (layer_of_member (fst e) member_layer) as [l|]; [|discriminate]. exists l. split; [reflexivity|].
  apply existsb_exists in H. destruct H as ([m l'] & Hin & Hc). cbn [fst snd] in Hc. apply andb_true_iff in Hc.
  destruct Hc as [A B]. apply Z.eqb_eq in A. apply Z.eqb_eq in B. subst. exact Hin.
Qed.

Lemma sel_member_names_all_known : length selection_members = length member_layer.
Proof. reflexivity. Qed.

(* skip_<m> / decompress_<m> / is_set_<m> of every member, as evaluated on the running class *)
Lemma sel_methods : forall m s d i1 i2, In (m, s, d, i1, i2) selection_method_table ->
  s = Z.land selection_all (Z.lnot m) /\ d = Z.lor selection_base m /\ i1 = 1 /\ i2 = 0.
Proof.
  assert (H : forallb (fun e => let '(m, s, d, i1, i2) := e in
     (s =? Z.land selection_all (Z.lnot m)) && (d =? Z.lor selection_base m) && (i1 =? 1) && (i2 =? 0)) selection_method_table = true)
    by (vm_compute; reflexivity).
  intros m s d i1 i2 Hin. rewrite forallb_forall in H. specialize (H _ Hin). cbn in H.
  repeat (apply andb_true_iff in H; destruct H as [H ?]).
  repeat match goal with X : (_ =? _) = true |- _ => apply Z.eqb_eq in X end. repeat split; assumption.
Qed.

Lemma sel_methods_cover : map (fun e => let '(m, _, _, _, _) := e in m) selection_method_table = map snd selection_members.
Proof. vm_compute. reflexivity. Qed.

(* ---- what a selection does to a record ---- *)
(* every byte of the standard part of a layered format belongs to a dimension with a known layer *)
Definition covered (dims : list (string * Z * Z * string)) (i : Z) : bool :=
  match dim_at dims i with
  | None => false
  | Some n => match layer_of n layer_table with
              | None => false
              | Some (l, _) => (l =? 0) || existsb (Z.eqb l) lz_layers
              end
  end.

Lemma table_covered :
  forallb (fun e => let '(f, std, dims) := e in (f <? 6) || forall_below std (covered dims)) point_formats = true.
Proof. vm_compute. reflexivity. Qed.

Lemma layered_formats_known : forall f, 6 <= f <= 10 -> exists std dims, fmt_entry f = Some (f, std, dims).
Proof.
  intros f Hf. assert (f = 6 \/ f = 7 \/ f = 8 \/ f = 9 \/ f = 10) as C by lia.
  destruct C as [-> | [-> | [-> | [-> | ->]]]]; vm_compute; eauto.
Qed.

Lemma keep_byte_all sel fmt i : all_layers sel -> 6 <= fmt -> 0 <= i -> keep_byte sel fmt i = 255.
Proof.
  intros Hs Hf Hi. unfold keep_byte. destruct (fmt_entry fmt) as [[[f std] dims]|] eqn:E; [|reflexivity].
  unfold fmt_entry in E. apply find_some in E. destruct E as [Hin Hf']. cbn [fst] in Hf'. apply Z.eqb_eq in Hf'. subst f.
  destruct (std <=? i) eqn:Hsi.
  - rewrite (Hs L_EXTRA_BYTES); [reflexivity|]. unfold lz_layers. repeat (try (left; reflexivity); right).
  - pose proof table_covered as T. rewrite forallb_forall in T. specialize (T _ Hin). cbn beta iota in T.
    apply orb_true_iff in T. destruct T as [T|T]; [apply Z.ltb_lt in T; lia|].
    apply Z.leb_gt in Hsi.
    pose proof (forall_below_spec _ _ T i (conj Hi Hsi)) as C. unfold covered in C. unfold keep_std.
    destruct (dim_at dims i) as [n|]; [|discriminate]. destruct (layer_of n layer_table) as [[l bb]|]; [|discriminate].
    apply orb_true_iff in C. destruct C as [C|C]; [rewrite C; reflexivity|].
    apply existsb_exists in C. destruct C as (l' & Hl' & El). apply Z.eqb_eq in El. subst l'.
    rewrite (Hs l Hl'). rewrite orb_true_r. reflexivity.
Qed.

Lemma land_255 b : byte_ok b = true -> Z.land b 255 = b.
Proof.
  unfold byte_ok. intros H. apply andb_true_iff in H. destruct H as [A B]. apply Z.leb_le in A. apply Z.ltb_lt in B.
  change 255 with (Z.ones 8). rewrite Z.land_ones by lia. apply Z.mod_small. change (2 ^ 8) with 256. lia.
Qed.

Lemma mask_from_all sel fmt : all_layers sel -> 6 <= fmt -> forall rec i, 0 <= i -> bytes_ok rec = true ->
  mask_from sel fmt i rec = rec.
Proof.
  intros Hs Hf. induction rec as [|b r IH]; intros i Hi Hb; [reflexivity|].
  unfold bytes_ok in Hb. cbn [forallb] in Hb. apply andb_true_iff in Hb. destruct Hb as [Hb Hr].
  cbn [mask_from]. rewrite (keep_byte_all sel fmt i Hs Hf Hi), (land_255 b Hb). f_equal. apply IH; [lia|exact Hr].
Qed.

(* a selection that holds every layer - in particular what all() becomes - changes nothing, whatever the format and
   however many extra bytes the records carry *)
Theorem mask_all_identity : forall sel, all_layers sel -> forall fmt rec, bytes_ok rec = true -> mask_record sel fmt rec = rec.
Proof.
  intros sel Hs fmt rec Hb. unfold mask_record. destruct (fmt <? 6) eqn:E; [reflexivity|].
  apply Z.ltb_ge in E. apply mask_from_all; [exact Hs|exact E|lia|exact Hb].
Qed.

(* byte by byte: what is selected comes back as it is, what is not comes back as zero (but for the two scanner-channel
   bits of the flags byte) *)
Lemma mask_from_nth sel fmt : forall rec i k,
  nth k (mask_from sel fmt i rec) 0 = Z.land (nth k rec 0) (keep_byte sel fmt (i + Z.of_nat k)).
Proof.
  induction rec as [|b r IH]; intros i k.
  - destruct k; reflexivity.
  - destruct k as [|k]; cbn [mask_from nth].
    + rewrite Z.add_0_r. reflexivity.
    + rewrite IH. f_equal. f_equal. lia.
Qed.

Theorem mask_bytewise : forall sel fmt rec k, 6 <= fmt ->
  nth k (mask_record sel fmt rec) 0 = Z.land (nth k rec 0) (keep_byte sel fmt (Z.of_nat k))
  /\ length (mask_record sel fmt rec) = length rec.
Proof.
  intros sel fmt rec k Hf. unfold mask_record. destruct (fmt <? 6) eqn:E; [apply Z.ltb_lt in E; lia|].
  split; [apply mask_from_nth|].
  generalize 0. induction rec as [|b r IH]; intros i; [reflexivity|]. cbn [mask_from length]. f_equal. apply IH.
Qed.

(* the extra bytes of a record of a layered format come back exactly when ALL_EXTRA_BYTES is part of the selection *)
Theorem extra_bytes_need_their_flag : forall sel f std dims i, fmt_entry f = Some (f, std, dims) -> std <= i ->
  keep_byte sel f i = if has sel L_EXTRA_BYTES then 255 else 0.
Proof.
  intros sel f std dims i E Hi. unfold keep_byte. rewrite E. apply Z.leb_le in Hi. rewrite Hi. reflexivity.
Qed.

(* the formats without layers ignore the selection *)
Theorem mask_ignored_below_6 : forall sel fmt rec, fmt < 6 -> mask_record sel fmt rec = rec.
Proof. intros sel fmt rec H. unfold mask_record. apply Z.ltb_lt in H. rewrite H. reflexivity. Qed.

(* ---- transparency with the selection in place ---- *)
Lemma map_fix {A} (f : A -> A) (l : list A) : (forall x, In x l -> f x = x) -> map f l = l.
Proof. induction l as [|x r IH]; intros H; [reflexivity|]. cbn. rewrite (H x (or_introl eq_refl)), IH; [reflexivity|]. intros y Hy. apply H. right. exact Hy. Qed.

Lemma recs_ok_bytes ps recs : recs_ok ps recs = true -> forall r, In r recs -> bytes_ok r = true.
Proof.
  unfold recs_ok. intros H r Hr. rewrite forallb_forall in H. specialize (H r Hr). apply andb_true_iff in H. exact (proj2 H).
Qed.

Lemma lz_select_default sel lz : gen_selection_reaches_decompressor = true ->
  (sel = None \/ sel = Some selection_all) ->
  (forall r, In r (lz_points lz) -> bytes_ok r = true) -> lz_select sel lz = lz.
Proof.
  intros G Hs Hb. unfold lz_select. rewrite G.
  assert (E : match sel with Some s => s | None => selection_all end = selection_all) by (destruct Hs as [-> | ->]; reflexivity).
  rewrite E. rewrite map_fix; [destruct lz; reflexivity|].
  intros r Hr. apply mask_all_identity; [exact sel_all_every_layer|exact (Hb r Hr)].
Qed.

(* reading the compressed file with the selection laspy uses when the user passes none (the default of laspy.open /
   laspy.read / LasReader, the fallback of create_reader), or with an explicit all(), returns what the uncompressed
   file of the same data returns - for every format and any number of extra bytes *)
Theorem sel_transparent_whole : forall ap, ap_ok ap -> forall B, conforming B -> forall h vl fmt recs evl f g backends junk sel,
  wf_las ap h vl fmt recs evl -> wf_laz ap B h vl fmt recs evl ->
  file_of ap h vl fmt recs evl = Ok f -> B_file_of ap B h vl fmt recs evl = Ok g ->
  backends <> [] -> (sel = None \/ sel = Some selection_all) ->
  exists lf lg, read_file f = Ok lf /\ B_read_sel B sel backends (g ++ junk) = Ok lg
    /\ lz_points lg = lf_points lf /\ lf_points lf = recs
    /\ rh_vlrs (lz_h lg) = rh_vlrs (lf_h lf) /\ rh_evlrs (lz_h lg) = rh_evlrs (lf_h lf).
Proof.
  intros ap Hap B HB h vl fmt recs evl f g backends junk sel Wl Wz Hf Hg Hb Hs.
  destruct (conf_transparent_whole ap Hap B HB h vl fmt recs evl f g backends junk Wl Wz Hf Hg Hb)
    as (lf & lg & R1 & R2 & P1 & P2 & V1 & V2 & E & _).
  exists lf, lg. split; [exact R1|]. unfold B_read_sel. rewrite R2. cbn.
  rewrite lz_select_default; [|reflexivity|exact Hs|].
  - repeat split; congruence.
  - rewrite P1. destruct Wl as (h' & _ & _ & _ & Hr & _). exact (recs_ok_bytes _ _ Hr).
Qed.

Theorem sel_transparent_nonseekable : forall ap, ap_ok ap -> forall B, conforming B -> forall h vl fmt recs evl g backends junk sel,
  wf_las ap h vl fmt recs evl -> wf_laz ap B h vl fmt recs evl ->
  B_file_of ap B h vl fmt recs evl = Ok g -> In false backends -> (sel = None \/ sel = Some selection_all) ->
  exists lg, B_read_ns_sel B sel backends (g ++ junk) = Ok lg /\ lz_points lg = recs /\ rh_vlrs (lz_h lg) = vl.
Proof.
  intros ap Hap B HB h vl fmt recs evl g backends junk sel Wl Wz Hg Hb Hs.
  destruct (conf_transparent_nonseekable ap Hap B HB h vl fmt recs evl g backends junk Wl Wz Hg Hb) as (lg & R & P & V & _).
  exists lg. unfold B_read_ns_sel. rewrite R. cbn.
  rewrite lz_select_default; [|reflexivity|exact Hs|].
  - repeat split; assumption.
  - rewrite P. destruct Wl as (h' & _ & _ & _ & Hr & _). exact (recs_ok_bytes _ _ Hr).
Qed.
