(* Header codec: every field in its legal domain survives write + read, VLRs included. *)
From Coq Require Import String.
From Coq Require Import ZArith List Bool Lia ZifyBool.
From LasV Require Import Lib.Base Lib.BaseFacts Lib.Layout Proofs.LayoutProofs Gen.GenHeaderLayout Gen.GenFormatBits Gen.GenDims
  Spec.Asprs Proofs.AsprsLayoutProofs Model.Las Model.LasSpec Proofs.HeaderLen Proofs.VlrProofs.
Import ListNotations.
Open Scope list_scope.
Open Scope Z_scope.

(* ---------------- generic list / layout helpers ---------------- *)
Lemma skipn_add {A} a : forall b (l : list A), skipn (a + b) l = skipn b (skipn a l).
Proof.
  induction a as [|a IH]; intros b l; [reflexivity|].
  destruct l as [|x l]; cbn [Nat.add skipn]; [now rewrite skipn_nil|apply IH].
Qed.

Lemma layout_width_nonneg l : 0 <= layout_width l.
Proof.
  induction l as [|f l IH]; [cbn; lia|].
  unfold layout_width in *. cbn [fold_right]. lia.
Qed.

Lemma layout_width_cons f l : layout_width (f :: l) = Z.of_nat (snd (fst f)) + layout_width l.
Proof. reflexivity. Qed.

(* decoding with another layout of the same kinds and widths only changes the labels *)
Lemma dec_enc_fields_relabel l1 : forall l2 vals bs rest,
  map fst l1 = map fst l2 -> wf_fields l2 vals = true -> enc_fields l2 vals = Ok bs ->
  dec_fields l1 (bs ++ rest) = (combine (layout_names l1) vals, rest).
Proof.
  induction l1 as [|[[k w] n] l1 IH]; intros l2 vals bs rest Hm Hwf He.
  - destruct l2 as [|f l2]; [|discriminate]. destruct vals; [|discriminate]. injection He as <-. reflexivity.
  - destruct l2 as [|[[k2 w2] n2] l2]; [discriminate|]. cbn [map fst] in Hm.
    injection Hm as Hk Hw Hm. subst k2 w2.
    destruct vals as [|v vals]; [discriminate|]. cbn [wf_fields] in Hwf.
    apply andb_true_iff in Hwf as [Hf Hr]. cbn [enc_fields] in He.
    destruct (enc_field k w v) as [b|e] eqn:Eb; [|discriminate]. cbn [bind] in He.
    destruct (enc_fields l2 vals) as [r|e] eqn:Er; [|discriminate]. cbn [bind] in He. injection He as <-.
    destruct (dec_enc_field k w v b (r ++ rest) Hf Eb) as [Hd Hl].
    cbn [dec_fields]. rewrite <- app_assoc, Hd, (IH l2 vals r rest Hm Hr Er). reflexivity.
Qed.

(* the bytes of the p-th field sit at the offset given by the widths before it *)
Lemma enc_fields_nth p : forall l vals bs rest k w n,
  nth_error l p = Some (k, w, n) -> layout_fixed_ok (firstn (S p) l) = true ->
  enc_fields l vals = Ok bs ->
  exists b, enc_field k w (nth p vals (VInt 0)) = Ok b /\ length b = w /\
            firstn w (skipn (Z.to_nat (layout_width (firstn p l))) (bs ++ rest)) = b.
Proof.
  induction p as [|p IH]; intros l vals bs rest k w n Hn Hok He.
  - destruct l as [|[[k1 w1] n1] l]; [discriminate|]. cbn [nth_error] in Hn. injection Hn as -> -> ->.
    destruct vals as [|v vals]; [discriminate|]. cbn [enc_fields] in He.
    destruct (enc_field k w v) as [b|e] eqn:Eb; [|discriminate]. cbn [bind] in He.
    destruct (enc_fields l vals) as [r|e] eqn:Er; [|discriminate]. cbn [bind] in He. injection He as <-.
    exists b. cbn [nth]. split; [exact Eb|].
    assert (length b = w) as Hl.
    { apply (enc_field_len _ _ _ _ Eb). cbn [firstn layout_fixed_ok forallb fst snd] in Hok.
      apply andb_true_iff in Hok as [Hk _]. destruct k; try exact I; [now apply Nat.ltb_lt|discriminate]. }
    split; [exact Hl|]. cbn [firstn]. change (Z.to_nat (layout_width [])) with 0%nat. cbn [skipn].
    rewrite <- app_assoc. now apply firstn_app_exact.
  - destruct l as [|[[k1 w1] n1] l]; [discriminate|]. cbn [nth_error] in Hn.
    destruct vals as [|v vals]; [discriminate|]. cbn [enc_fields] in He.
    destruct (enc_field k1 w1 v) as [b1|e] eqn:Eb; [|discriminate]. cbn [bind] in He.
    destruct (enc_fields l vals) as [r|e] eqn:Er; [|discriminate]. cbn [bind] in He. injection He as <-.
    change (firstn (S (S p)) ((k1, w1, n1) :: l)) with ((k1, w1, n1) :: firstn (S p) l) in Hok.
    cbn [layout_fixed_ok forallb fst snd] in Hok. apply andb_true_iff in Hok as [Hk Hok].
    fold (layout_fixed_ok (firstn (S p) l)) in Hok.
    assert (length b1 = w1) as Hl1.
    { apply (enc_field_len _ _ _ _ Eb). destruct k1; try exact I; [now apply Nat.ltb_lt|discriminate]. }
    destruct (IH l vals r rest k w n Hn Hok Er) as (b & Hb & Hl & Hf).
    exists b. cbn [nth]. split; [exact Hb|]. split; [exact Hl|].
    change (firstn (S p) ((k1, w1, n1) :: l)) with ((k1, w1, n1) :: firstn p l).
    rewrite layout_width_cons. cbn [fst snd].
    rewrite Z2Nat.inj_add by (try apply layout_width_nonneg; lia). rewrite Nat2Z.id.
    rewrite skipn_add. rewrite <- app_assoc. rewrite (skipn_app_exact b1 (r ++ rest) w1 Hl1). exact Hf.
Qed.

(* ---------------- wval / aint ---------------- *)
Lemma wval_aint h n z : String.eqb n "zero" = false -> String.eqb n "signature" = false ->
  wval h n = VInt z -> aint h n = z.
Proof.
  unfold wval, aint. intros -> ->. destruct (aget h n) as [[x|b]|]; intros E; try discriminate; now injection E.
Qed.

Lemma aint_of_get a h n : String.eqb n "zero" = false -> String.eqb n "signature" = false ->
  aget a n = Some (wval h n) -> aint a n = aint h n.
Proof.
  intros Hz Hs Hg. unfold aint at 1. rewrite Hg. unfold wval, aint. rewrite Hz, Hs.
  destruct (aget h n) as [[x|b]|]; reflexivity.
Qed.

Lemma nth_hdr_vals h l p k w n : nth_error l p = Some (k, w, n) -> nth p (hdr_vals h l) (VInt 0) = wval h n.
Proof.
  intros Hn. unfold hdr_vals. apply nth_error_nth.
  now rewrite (map_nth_error (fun f => wval h (snd f)) p l Hn).
Qed.

Lemma enc_uint_at p w n off : forall l h fb rest,
  nth_error l p = Some (KUInt, w, n) -> layout_fixed_ok (firstn (S p) l) = true ->
  Z.to_nat (layout_width (firstn p l)) = off ->
  String.eqb n "zero" = false -> String.eqb n "signature" = false ->
  enc_fields l (hdr_vals h l) = Ok fb ->
  le_dec (firstn w (skipn off (fb ++ rest))) = aint h n.
Proof.
  intros l h fb rest Hn Hok Hoff Hz Hs He.
  destruct (enc_fields_nth p l _ fb rest _ _ _ Hn Hok He) as (b & Hb & Hl & Hf).
  rewrite (nth_hdr_vals h l p _ _ _ Hn) in Hb. rewrite Hoff in Hf. rewrite Hf.
  destruct (wval h n) as [z|s] eqn:E; [|discriminate]. cbn [enc_field] in Hb.
  destruct (to_bytes_ok _ _ _ Hb) as (Hd & _ & _). rewrite Hd. symmetry. now apply wval_aint.
Qed.

Lemma enc_sig_at : forall l h fb rest,
  nth_error l 0 = Some (KConst, 4%nat, "signature"%string) ->
  enc_fields l (hdr_vals h l) = Ok fb ->
  firstn 4 (fb ++ rest) = LASF.
Proof.
  intros l h fb rest Hn He.
  assert (layout_fixed_ok (firstn 1 l) = true) as Hok.
  { destruct l as [|f l]; [discriminate|]. cbn [nth_error] in Hn. injection Hn as ->. reflexivity. }
  destruct (enc_fields_nth 0 l _ fb rest _ _ _ Hn Hok He) as (b & Hb & Hl & Hf).
  rewrite (nth_hdr_vals h l 0 _ _ _ Hn) in Hb.
  change (Z.to_nat (layout_width (firstn 0 l))) with 0%nat in Hf.
  change (skipn 0 (fb ++ rest)) with (fb ++ rest) in Hf. rewrite Hf.
  change (Ok LASF = Ok b) in Hb. now injection Hb.
Qed.

Lemma in_by_existsb l (n : string) : existsb (String.eqb n) l = true -> In n l.
Proof.
  intros H. apply existsb_exists in H as (x & Hx & He). apply String.eqb_eq in He. now subst.
Qed.

(* ---------------- per-version facts (the layouts are concrete lists) ---------------- *)
Definition rd_assoc (m : Z) (h : assoc) : assoc :=
  combine (layout_names (fixed_part (hr_layout m))) (hdr_vals h (fixed_part (hw_layout m))).

Definition lookup_ok (m : Z) (h : assoc) (n : string) : Prop :=
  aget (rd_assoc m h) n = Some (wval h n)
  /\ String.eqb "extra_header_bytes" n = false /\ String.eqb "extra_vlr_bytes" n = false
  /\ String.eqb n "zero" = false.

Ltac solve_lookup Hin :=
  vm_compute in Hin;
  repeat (destruct Hin as [Hin|Hin]; [rewrite <- Hin; vm_compute; repeat split|]);
  destruct Hin.

Lemma rd_lookup_1 h n : In n (header_field_names 1) -> lookup_ok 1 h n.
Proof. intros Hin. solve_lookup Hin. Qed.
Lemma rd_lookup_2 h n : In n (header_field_names 2) -> lookup_ok 2 h n.
Proof. intros Hin. solve_lookup Hin. Qed.
Lemma rd_lookup_3 h n : In n (header_field_names 3) -> lookup_ok 3 h n.
Proof. intros Hin. solve_lookup Hin. Qed.
Lemma rd_lookup_4 h n : In n (header_field_names 4) -> lookup_ok 4 h n.
Proof. intros Hin. solve_lookup Hin. Qed.

Lemma rd_lookup m h n : 1 <= m <= 4 -> In n (header_field_names m) -> lookup_ok m h n.
Proof.
  intros Hm. assert (m = 1 \/ m = 2 \/ m = 3 \/ m = 4) as [->|[->|[->| ->]]] by lia.
  - apply rd_lookup_1. - apply rd_lookup_2. - apply rd_lookup_3. - apply rd_lookup_4.
Qed.

Lemma core_names m : 1 <= m <= 4 ->
  forall n, In n ["header_size"; "number_of_vlrs"; "offset_to_point_data"; "point_format_id"; "point_size"]%string ->
  In n (header_field_names m) /\ String.eqb n "signature" = false.
Proof.
  intros Hm n Hin. assert (m = 1 \/ m = 2 \/ m = 3 \/ m = 4) as [->|[->|[->| ->]]] by lia;
  cbn [In] in Hin; repeat (destruct Hin as [<-|Hin]; [split; [apply in_by_existsb|]; vm_compute; reflexivity|]);
  destruct Hin.
Qed.

Lemma rd_core_int m h n : 1 <= m <= 4 ->
  In n ["header_size"; "number_of_vlrs"; "offset_to_point_data"; "point_format_id"; "point_size"]%string ->
  aint (rd_assoc m h) n = aint h n.
Proof.
  intros Hm Hin. destruct (core_names m Hm n Hin) as [Hn Hs].
  destruct (rd_lookup m h n Hm Hn) as (Hg & _ & _ & Hz).
  now apply aint_of_get.
Qed.

Lemma rd_nevlrs m h : 1 <= m <= 4 -> aint h "number_of_evlrs" <= MAX_VLRS ->
  aint (rd_assoc m h) "number_of_evlrs" <= MAX_VLRS.
Proof.
  intros Hm Hle. assert (m = 1 \/ m = 2 \/ m = 3 \/ m = 4) as [->|[->|[->| ->]]] by lia.
  - now vm_compute.
  - now vm_compute.
  - now vm_compute.
  - assert (In "number_of_evlrs"%string (header_field_names 4)) as Hn by (apply in_by_existsb; vm_compute; reflexivity).
    destruct (rd_lookup_4 h _ Hn) as (Hg & _ & _ & Hz).
    rewrite (aint_of_get _ h _ Hz eq_refl Hg). exact Hle.
Qed.

Lemma hdr_shape m : 1 <= m <= 4 -> map fst (fixed_part (hr_layout m)) = map fst (fixed_part (hw_layout m)).
Proof.
  intros Hm. assert (m = 1 \/ m = 2 \/ m = 3 \/ m = 4) as [->|[->|[->| ->]]] by lia; vm_compute; reflexivity.
Qed.

Lemma header_prefix m h fb rest : 1 <= m <= 4 ->
  enc_fields (fixed_part (hw_layout m)) (hdr_vals h (fixed_part (hw_layout m))) = Ok fb ->
  firstn 4 (fb ++ rest) = LASF
  /\ le_dec (firstn 1 (skipn 25 (fb ++ rest))) = aint h "version.minor"
  /\ le_dec (firstn 4 (skipn 96 (fb ++ rest))) = aint h "offset_to_point_data".
Proof.
  intros Hm He. assert (m = 1 \/ m = 2 \/ m = 3 \/ m = 4) as [->|[->|[->| ->]]] by lia.
  all: match type of He with enc_fields ?l _ = _ =>
    split; [exact (enc_sig_at l h fb rest eq_refl He)|split];
    [exact (enc_uint_at 5 1 "version.minor" 25 l h fb rest eq_refl eq_refl eq_refl eq_refl eq_refl He)
    |exact (enc_uint_at 11 4 "offset_to_point_data" 96 l h fb rest eq_refl eq_refl eq_refl eq_refl eq_refl He)] end.
Qed.

Lemma tbl_cases_range maj m hs0 : header_size_tbl maj m = Some hs0 -> maj = 1 /\ 1 <= m <= 4 /\ 227 <= hs0.
Proof. intros H. destruct (header_size_tbl_cases _ _ _ H) as (Hmaj & Hc). lia. Qed.

Lemma filter_none {A} (f : A -> bool) l : forallb (fun v => negb (f v)) l = true -> filter f l = [].
Proof.
  induction l as [|x l IH]; intros H; [reflexivity|]. cbn [forallb] in H.
  apply andb_true_iff in H as [Hx Hl]. cbn [filter]. apply negb_true_iff in Hx. rewrite Hx. now apply IH.
Qed.

(* ---------------- the round trip ---------------- *)
Theorem dec_enc_header : forall h vl es h' bs rest,
  enc_header h vl es = Ok (h', bs) -> wf_header h' vl = true ->
  exists rh, dec_header (bs ++ rest) false = Ok rh
    /\ rh_vlrs rh = vl
    /\ rh_offset rh = len bs
    /\ rh_psize rh = aint h' "point_size"
    /\ rh_fmt rh = compressed_id_to_uncompressed (aint h' "point_format_id")
    /\ (forall n, In n (header_field_names (aint h' "version.minor")) -> aget (rh_fields rh) n = Some (wval h' n))
    /\ abytes (rh_fields rh) "extra_header_bytes" = abytes h' "extra_header_bytes"
    /\ abytes (rh_fields rh) "extra_vlr_bytes" = abytes h' "extra_vlr_bytes".
Proof.
  intros h vl es h' bs rest He Hwf.
  pose proof (enc_header_len _ _ _ _ _ He) as Hlen.
  destruct (enc_header_inv _ _ _ _ _ He) as (vb & hs0 & fb & Hv & Hh & _ & _ & Hh' & Hf & Hbs).
  assert (aint h' "version.minor" = aint h "version.minor") as Hmn
    by (rewrite Hh'; rewrite !aint_aset_other by reflexivity; reflexivity).
  assert (aint h' "version.major" = aint h "version.major") as Hmj
    by (rewrite Hh'; rewrite !aint_aset_other by reflexivity; reflexivity).
  assert (aint h' "header_size" = hs0 + len (abytes h "extra_header_bytes")) as Hhs
    by (rewrite Hh'; rewrite aint_aset_other by reflexivity; now rewrite aint_aset_same).
  assert (aint h' "number_of_vlrs" = len vl) as Hnv
    by (rewrite Hh'; now rewrite aint_aset_same).
  assert (abytes h' "extra_header_bytes" = abytes h "extra_header_bytes") as Heh
    by (rewrite Hh'; rewrite !abytes_aset_other by reflexivity; reflexivity).
  assert (abytes h' "extra_vlr_bytes" = abytes h "extra_vlr_bytes") as Hev
    by (rewrite Hh'; rewrite !abytes_aset_other by reflexivity; reflexivity).
  clear Hh'.
  rewrite Hmn, Heh, Hev.
  set (m := aint h "version.minor") in *.
  set (ehb := abytes h "extra_header_bytes") in *.
  set (evb := abytes h "extra_vlr_bytes") in *.
  destruct (tbl_cases_range _ _ _ Hh) as (_ & Hm & Hhs0).
  destruct (hw_layout_width _ _ _ Hh) as [Hw Hok].
  pose proof (enc_fields_len _ _ _ Hok Hf) as Hfb. rewrite Hw in Hfb.
  (* well-formedness *)
  unfold wf_header in Hwf. rewrite Hmn, Hmj in Hwf. fold m in Hwf. rewrite Hh in Hwf.
  destruct (std_size (compressed_id_to_uncompressed (aint h' "point_format_id"))) as [std|] eqn:Hstd; [|discriminate].
  apply andb_true_iff in Hwf as [Hwf Hnev]. apply andb_true_iff in Hwf as [Hwf Hnvl].
  apply andb_true_iff in Hwf as [Hwf Hps]. apply andb_true_iff in Hwf as [Hwf Hbev].
  apply andb_true_iff in Hwf as [Hwf Hbeh]. apply andb_true_iff in Hwf as [Hwf Hneb].
  apply andb_true_iff in Hwf as [Hwff Hwfv].
  (* the decoded field list *)
  pose proof (dec_enc_fields_relabel _ _ _ _ (ehb ++ vb ++ evb) (hdr_shape m Hm) Hwff Hf) as Hdec.
  fold (rd_assoc m h') in Hdec.
  pose proof (rd_core_int m h' "header_size" Hm ltac:(cbn; tauto)) as Ahs.
  pose proof (rd_core_int m h' "number_of_vlrs" Hm ltac:(cbn; tauto)) as Anv.
  pose proof (rd_core_int m h' "offset_to_point_data" Hm ltac:(cbn; tauto)) as Aoff.
  pose proof (rd_core_int m h' "point_format_id" Hm ltac:(cbn; tauto)) as Afid.
  pose proof (rd_core_int m h' "point_size" Hm ltac:(cbn; tauto)) as Aps.
  pose proof (rd_nevlrs m h' Hm ltac:(lia)) as Anev.
  pose proof (fun n => rd_lookup m h' n Hm) as Hlook. unfold lookup_ok in Hlook.
  set (a := rd_assoc m h') in *. clearbody a.
  (* raw positions *)
  assert (bs ++ rest = fb ++ (ehb ++ vb ++ evb) ++ rest) as Hsrc by (rewrite Hbs, <- !app_assoc; reflexivity).
  destruct (header_prefix m h' fb ((ehb ++ vb ++ evb) ++ rest) Hm Hf) as (Psig & _ & Poff).
  destruct (header_prefix m h' fb (ehb ++ vb ++ evb) Hm Hf) as (_ & Pmnr & _).
  rewrite <- Hsrc in Psig, Poff. rewrite <- Hbs in Pmnr. rewrite Hmn in Pmnr. rewrite <- Hlen in Poff.
  assert (227 <= length (bs ++ rest))%nat as Hlsrc.
  { rewrite Hsrc, app_length. unfold len in Hfb. lia. }
  pose proof (len_nonneg ehb) as Nehb. pose proof (len_nonneg vb) as Nvb. pose proof (len_nonneg evb) as Nevb.
  assert (len bs = hs0 + len ehb + len vb + len evb) as Hlbs by (rewrite Hbs, !len_app; lia).
  exists (mkRH (aset (aset a "extra_header_bytes" (VBytes ehb)) "extra_vlr_bytes" (VBytes evb)) vl None
               (compressed_id_to_uncompressed (aint h' "point_format_id"))
               (is_point_format_compressed (aint h' "point_format_id")) (aint h' "point_size") (len bs)).
  split.
  - unfold dec_header. cbv zeta.
    rewrite firstn_firstn. change (Init.Nat.min 4 227) with 4%nat. rewrite Psig.
    change (length LASF =? 0)%nat with false. change (list_eqb LASF LASF) with true. cbn [negb].
    rewrite firstn_length. replace (Init.Nat.min 227 (length (bs ++ rest))) with 227%nat by lia.
    change (227 <? 227)%nat with false.
    rewrite skipn_firstn_comm, firstn_firstn. change (Init.Nat.min 4 (227 - 96)) with 4%nat. rewrite Poff.
    replace (len bs <? 227) with false by lia.
    rewrite to_nat_len. rewrite (firstn_app_exact bs rest (length bs) eq_refl).
    rewrite Pmnr. rewrite Hbs at 1. rewrite Hdec. cbv beta iota.
    rewrite Ahs, Hhs.
    replace (len bs - len (ehb ++ vb ++ evb)) with hs0 by (rewrite !len_app; lia).
    replace (hs0 >? hs0 + len ehb) with false by lia.
    replace (hs0 + len ehb - hs0) with (len ehb) by lia. rewrite to_nat_len.
    rewrite (firstn_app_exact ehb (vb ++ evb) (length ehb) eq_refl).
    rewrite (skipn_app_exact ehb (vb ++ evb) (length ehb) eq_refl).
    rewrite Anv, Hnv. replace (len vl >? MAX_VLRS) with false by lia.
    rewrite to_nat_len. rewrite (dec_enc_vlrs false vl vb evb Hwfv Hv). cbn [bind]. cbv beta iota.
    rewrite Aoff, <- Hlen.
    replace (len bs - len evb >? len bs) with false by lia.
    replace (len bs - (len bs - len evb)) with (len evb) by lia. rewrite to_nat_len, firstn_all.
    rewrite Afid, Hstd, Aps. rewrite (filter_none _ _ Hneb).
    replace (aint h' "point_size" <? std) with false by lia.
    replace (aint a "number_of_evlrs" >? MAX_VLRS) with false by lia.
    destruct (m >=? 4); reflexivity.
  - cbn [rh_vlrs rh_offset rh_psize rh_fmt rh_fields].
    repeat split.
    + intros n Hin. destruct (Hlook n Hin) as (Hg & H1 & H2 & _).
      rewrite aget_aset_other by exact H2. rewrite aget_aset_other by exact H1. exact Hg.
    + rewrite abytes_aset_other by reflexivity. now rewrite abytes_aset_same.
    + now rewrite abytes_aset_same.
Qed.
Print Assumptions dec_enc_header.

(* header size per version: 227 / 227 / 235 / 375 plus the user's extra bytes *)
Theorem header_size_exact : forall h vl es h' bs,
  enc_header h vl es = Ok (h', bs) ->
  aint h' "header_size" = nth (Z.to_nat (aint h "version.minor")) [0; 227; 227; 235; 375] 0 + len (abytes h "extra_header_bytes")
  /\ 1 <= aint h "version.minor" <= 4 /\ aint h "version.major" = 1.
Proof.
  intros h vl es h' bs He.
  destruct (enc_header_offset _ _ _ _ _ He) as (vb & hs0 & _ & Hh & Hhs & _).
  rewrite Hhs. destruct (header_size_tbl_cases _ _ _ Hh) as (Hmaj & [[-> ->]|[[-> ->]|[[-> ->]|[-> ->]]]]);
  (split; [reflexivity|split; [lia|exact Hmaj]]).
Qed.
Print Assumptions header_size_exact.
