(* C02 — record i of a file is at offset_to_point_data + i * record_length: for files laid out by a writer, after an append
   session on ANY file that holds its records (whatever follows them), after an edit in place. *)
From Coq Require Import String.
From Coq Require Import ZArith List Bool Lia.
From LasV Require Import Lib.Base Lib.BaseFacts Gen.GenC02 Spec.AsprsPoints Model.PointLayout Proofs.PointLayoutProofs Model.RecordPlace.
Import ListNotations.
Open Scope list_scope.
Open Scope Z_scope.

(* ---------------- take / drop / slice ---------------- *)

Lemma len_take {A} n (l : list A) : 0 <= n <= len l -> len (take n l) = n.
Proof. intros H. unfold take, len in *. rewrite firstn_length. lia. Qed.

Lemma len_drop {A} n (l : list A) : 0 <= n <= len l -> len (drop n l) = len l - n.
Proof. intros H. unfold drop, len in *. rewrite skipn_length. lia. Qed.

Lemma take_drop_id {A} n (l : list A) : take n l ++ drop n l = l.
Proof. apply firstn_skipn. Qed.

Lemma drop_app_plus {A} (a b : list A) k : 0 <= k -> drop (len a + k) (a ++ b) = drop k b.
Proof.
  intros Hk. unfold drop, len. rewrite Z2Nat.inj_add by lia. rewrite Nat2Z.id.
  rewrite skipn_app. replace (length a + Z.to_nat k - length a)%nat with (Z.to_nat k) by lia.
  rewrite skipn_all2 by lia. reflexivity.
Qed.

Lemma drop_drop {A} a b (l : list A) : 0 <= a -> 0 <= b -> drop a (drop b l) = drop (b + a) l.
Proof.
  intros Ha Hb. unfold drop. rewrite Z2Nat.inj_add by lia. revert l.
  induction (Z.to_nat b) as [|k IH]; intros l; [reflexivity|].
  destruct l as [|x l]; cbn [skipn Nat.add]; [now rewrite !skipn_nil|apply IH].
Qed.

Lemma slice_mid (pre r post : list Z) : slice (pre ++ r ++ post) (len pre) (len r) = r.
Proof. unfold slice. rewrite drop_app_exact. apply take_app_exact. Qed.

Lemma slice_prefix (p q : list Z) a n : 0 <= a -> 0 <= n -> a + n <= len p -> slice (p ++ q) a n = slice p a n.
Proof.
  intros Ha Hn Hl. unfold slice, take, drop, len in *.
  rewrite skipn_app. replace (Z.to_nat a - length p)%nat with 0%nat by lia. cbn [skipn].
  rewrite firstn_app. rewrite skipn_length.
  replace (Z.to_nat n - (length p - Z.to_nat a))%nat with 0%nat by lia. cbn [firstn]. apply app_nil_r.
Qed.

(* ---------------- a run of records ---------------- *)

Lemma concat_split (recs : list (list Z)) ps : Forall (fun r => len r = ps) recs ->
  forall i, (i < length recs)%nat ->
  concat recs = concat (firstn i recs) ++ nth i recs [] ++ concat (skipn (S i) recs)
  /\ len (concat (firstn i recs)) = Z.of_nat i * ps /\ len (nth i recs []) = ps.
Proof.
  intros HF. induction HF as [|r recs Hr HF IH]; intros i Hi; [cbn in Hi; lia|].
  destruct i as [|i].
  - cbn [firstn nth skipn concat app]. split; [reflexivity|]. split; [cbn; lia|exact Hr].
  - cbn [length] in Hi. destruct (IH i ltac:(lia)) as (E & L & N).
    cbn [firstn nth skipn concat]. split; [|split].
    + rewrite E at 1. rewrite <- app_assoc. reflexivity.
    + rewrite len_app, L, Hr. lia.
    + exact N.
Qed.

Lemma record_in_run (pre post : list Z) (recs : list (list Z)) off ps i :
  len pre = off -> Forall (fun r => len r = ps) recs -> 0 <= i < len recs ->
  record_at (pre ++ concat recs ++ post) off ps i = nth (Z.to_nat i) recs [].
Proof.
  intros Hp HF Hi. unfold len in Hi.
  destruct (concat_split recs ps HF (Z.to_nat i) ltac:(lia)) as (E & L & N).
  unfold record_at. rewrite E. rewrite Z2Nat.id in L by lia.
  replace (pre ++ (concat (firstn (Z.to_nat i) recs) ++ nth (Z.to_nat i) recs [] ++ concat (skipn (S (Z.to_nat i)) recs)) ++ post)
    with ((pre ++ concat (firstn (Z.to_nat i) recs)) ++ nth (Z.to_nat i) recs [] ++ (concat (skipn (S (Z.to_nat i)) recs) ++ post))
    by (rewrite <- !app_assoc; reflexivity).
  replace (off + i * ps) with (len (pre ++ concat (firstn (Z.to_nat i) recs))) by (rewrite len_app; lia).
  pose proof (slice_mid (pre ++ concat (firstn (Z.to_nat i) recs)) (nth (Z.to_nat i) recs []) (concat (skipn (S (Z.to_nat i)) recs) ++ post)) as S.
  rewrite N in S. exact S.
Qed.

Lemma map_nth_seq {A} (l : list A) d : map (fun i => nth i l d) (seq 0 (length l)) = l.
Proof.
  apply nth_ext with (d := d) (d' := d); [rewrite map_length, seq_length; reflexivity|].
  intros n Hn. rewrite map_length, seq_length in Hn.
  rewrite nth_indep with (d' := nth 0 l d) by (rewrite map_length, seq_length; exact Hn).
  rewrite map_nth with (f := fun i => nth i l d) (d := 0%nat). rewrite seq_nth by exact Hn. reflexivity.
Qed.

Lemma records_in_run (pre post : list Z) (recs : list (list Z)) off ps :
  len pre = off -> Forall (fun r => len r = ps) recs ->
  records_of (pre ++ concat recs ++ post) off ps (len recs) = recs.
Proof.
  intros Hp HF. unfold records_of, len. rewrite Nat2Z.id.
  rewrite <- (map_nth_seq recs []) at 2. apply map_ext_in. intros i Hi. apply in_seq in Hi.
  rewrite record_in_run by (try assumption; unfold len; lia). rewrite Nat2Z.id. reflexivity.
Qed.

Lemma all_ok_map {A B} (f : A -> result B) (l : list A) (out : list B) :
  Forall2 (fun a b => f a = Ok b) l out -> all_ok (map f l) = Ok out.
Proof. induction 1 as [|a b l out H _ IH]; [reflexivity|]. cbn. rewrite H, IH. reflexivity. Qed.

(* ---------------- writes to a stream ---------------- *)

Lemma write_at_inside (file : list Z) pos data : 0 <= pos <= len file ->
  write_at file pos data = take pos file ++ data ++ drop (pos + len data) file.
Proof. intros H. unfold write_at. replace (Z.to_nat (pos - len file)) with 0%nat by lia. reflexivity. Qed.

Lemma len_write_at (file : list Z) pos data : 0 <= pos <= len file -> pos + len data <= len (write_at file pos data).
Proof. intros H. rewrite write_at_inside by exact H. rewrite !len_app, len_take by exact H. pose proof (len_nonneg (drop (pos + len data) file)). lia. Qed.

Lemma write_at_nil (file : list Z) pos : 0 <= pos <= len file -> write_at file pos [] = file.
Proof. intros H. rewrite write_at_inside by exact H. cbn [len length app]. rewrite Z.add_0_r. apply take_drop_id. Qed.

Lemma write_at_seq (file : list Z) pos a b : 0 <= pos <= len file ->
  write_at (write_at file pos a) (pos + len a) b = write_at file pos (a ++ b).
Proof.
  intros H. pose proof (len_write_at file pos a H) as HW. pose proof (len_nonneg a) as Ha. pose proof (len_nonneg b) as Hb.
  rewrite (write_at_inside (write_at file pos a)) by lia.
  rewrite (write_at_inside file pos a) by exact H. rewrite (write_at_inside file pos (a ++ b)) by exact H.
  replace (take pos file ++ a ++ drop (pos + len a) file) with ((take pos file ++ a) ++ drop (pos + len a) file)
    by (rewrite <- app_assoc; reflexivity).
  replace (pos + len a) with (len (take pos file ++ a)) at 1 3 by (rewrite len_app, len_take by exact H; reflexivity).
  rewrite take_app_exact. rewrite drop_app_plus by exact Hb.
  rewrite drop_drop by lia. rewrite len_app. rewrite <- !app_assoc.
  replace (pos + len a + len b) with (pos + (len a + len b)) by lia. reflexivity.
Qed.

Lemma write_chunks_concat (chunks : list (list Z)) : forall file pos, 0 <= pos <= len file ->
  write_chunks file pos chunks = write_at file pos (concat chunks).
Proof.
  induction chunks as [|c r IH]; intros file pos H; cbn [write_chunks concat].
  - symmetry. apply write_at_nil. exact H.
  - rewrite IH by (pose proof (len_write_at file pos c H); pose proof (len_nonneg c); lia).
    apply write_at_seq. exact H.
Qed.

Lemma slice_write_before (file : list Z) pos data a n : 0 <= a -> 0 <= n -> a + n <= pos -> pos <= len file ->
  slice (write_at file pos data) a n = slice file a n.
Proof.
  intros Ha Hn Hp Hl. rewrite write_at_inside by lia.
  rewrite slice_prefix by (try rewrite len_take; lia).
  rewrite <- (take_drop_id pos file) at 2. symmetry. apply slice_prefix; try rewrite len_take; lia.
Qed.

Lemma slice_write_data (file : list Z) pos d1 r d2 : 0 <= pos <= len file ->
  slice (write_at file pos (d1 ++ r ++ d2)) (pos + len d1) (len r) = r.
Proof.
  intros H. rewrite write_at_inside by exact H.
  replace (take pos file ++ (d1 ++ r ++ d2) ++ drop (pos + len (d1 ++ r ++ d2)) file)
    with ((take pos file ++ d1) ++ r ++ (d2 ++ drop (pos + len (d1 ++ r ++ d2)) file))
    by (rewrite <- !app_assoc; reflexivity).
  replace (pos + len d1) with (len (take pos file ++ d1)) by (rewrite len_app, len_take by exact H; reflexivity).
  apply slice_mid.
Qed.

Lemma take_write_at (file : list Z) pos data k : 0 <= k <= pos -> pos <= len file -> take k (write_at file pos data) = take k file.
Proof.
  intros Hk Hl. pose proof (slice_write_before file pos data 0 k ltac:(lia) ltac:(lia) ltac:(lia) Hl) as S.
  unfold slice, drop in S. exact S.
Qed.

Lemma drop_write_at (file : list Z) pos data k : 0 <= pos -> pos + len data <= k -> pos + len data <= len file ->
  drop k (write_at file pos data) = drop k file.
Proof.
  intros Hp Hk Hl. pose proof (len_nonneg data) as Hd. rewrite write_at_inside by lia.
  replace (take pos file ++ data ++ drop (pos + len data) file) with ((take pos file ++ data) ++ drop (pos + len data) file)
    by (rewrite <- app_assoc; reflexivity).
  replace k with (len (take pos file ++ data) + (k - (pos + len data))) at 1 by (rewrite len_app, len_take by lia; lia).
  rewrite drop_app_plus by lia. rewrite drop_drop by lia. f_equal. lia.
Qed.

Lemma len_write_at_within (file : list Z) pos data : 0 <= pos -> pos + len data <= len file -> len (write_at file pos data) = len file.
Proof.
  intros Hp Hl. pose proof (len_nonneg data) as Hd. rewrite write_at_inside by lia.
  rewrite !len_app. rewrite len_take by lia. rewrite len_drop by lia. lia.
Qed.

(* ---------------- the appender ---------------- *)

(* LasAppender.__init__ (translated on every run): the stream is left at the end of the point records the header announces,
   whatever the file's length, version, EVLRs *)
Lemma append_start_spec off n ps flen minor nev sfe : append_start off n ps flen minor nev sfe = off + n * ps.
Proof. unfold append_start. lia. Qed.

Lemma concat_map_concat (chunks : list (list (list Z))) : concat (map (@concat Z) chunks) = concat (concat chunks).
Proof. induction chunks as [|c r IH]; [reflexivity|]. cbn. rewrite concat_app, IH. reflexivity. Qed.

Lemma Forall_concat' {A} (P : A -> Prop) (ll : list (list A)) : Forall (Forall P) ll -> Forall P (concat ll).
Proof. induction 1 as [|l ll H _ IH]; [constructor|]. cbn. apply Forall_app. split; assumption. Qed.

Lemma append_places_records (file : list Z) off n ps minor nev sfe (chunks : list (list (list Z))) :
  0 <= off -> 0 <= n -> 0 < ps -> off + n * ps <= len file ->
  Forall (Forall (fun r => len r = ps)) chunks ->
  let file' := append_session file off n ps minor nev sfe chunks in
  (forall i, 0 <= i < n -> record_at file' off ps i = record_at file off ps i)
  /\ (forall j, 0 <= j < len (concat chunks) -> record_at file' off ps (n + j) = nth (Z.to_nat j) (concat chunks) [])
  /\ take off file' = take off file.
Proof.
  intros Ho Hn Hps Hl HF file'. subst file'. unfold append_session.
  rewrite append_start_spec. rewrite write_chunks_concat by nia. rewrite concat_map_concat.
  pose proof (Forall_concat' _ _ HF) as HF'. set (news := concat chunks) in *.
  repeat split.
  - intros i Hi. unfold record_at. apply slice_write_before; nia.
  - intros j Hj. unfold len in Hj.
    destruct (concat_split news ps HF' (Z.to_nat j) ltac:(lia)) as (E & L & N).
    rewrite Z2Nat.id in L by lia. unfold record_at. rewrite E.
    replace (off + (n + j) * ps) with (off + n * ps + len (concat (firstn (Z.to_nat j) news))) by lia.
    pose proof (slice_write_data file (off + n * ps) (concat (firstn (Z.to_nat j) news)) (nth (Z.to_nat j) news [])
                  (concat (skipn (S (Z.to_nat j)) news)) ltac:(nia)) as S.
    rewrite N in S. exact S.
  - apply take_write_at; nia.
Qed.

Lemma decoder_reads_appended f ebs t (file : list Z) off n ps minor nev sfe (chunks : list (list (list Z))) :
  0 <= f <= 10 -> 0 <= off -> 0 <= n -> 0 < ps -> off + n * ps <= len file ->
  Forall (Forall (fun r => len r = ps)) chunks ->
  forall j vals, 0 <= j < len (concat chunks) ->
    gen_enc_point_rl f ebs t vals = Ok (nth (Z.to_nat j) (concat chunks) []) ->
    spec_dec_point_rl f ebs t (record_at (append_session file off n ps minor nev sfe chunks) off ps (n + j)) = Ok vals.
Proof.
  intros Hf Ho Hn Hps Hl HF j vals Hj He.
  destruct (append_places_records file off n ps minor nev sfe chunks Ho Hn Hps Hl HF) as (_ & H2 & _).
  rewrite H2 by exact Hj. apply spec_reads_laspy_rl; assumption.
Qed.

(* the decoder on a file laid out as the specification says: header and VLR area, the records one after the other, anything
   behind them — every record the laspy-layout encoder produced is read back *)
Lemma decoder_finds_all_records f ebs t (pre post : list Z) (recs valss : list (list Z)) off ps :
  0 <= f <= 10 -> len pre = off -> Forall (fun r => len r = ps) recs ->
  Forall2 (fun vals r => gen_enc_point_rl f ebs t vals = Ok r) valss recs ->
  spec_dec_records f ebs t (pre ++ concat recs ++ post) off ps (len recs) = Ok valss.
Proof.
  intros Hf Hp HF H2. unfold spec_dec_records. rewrite records_in_run by assumption.
  apply all_ok_map. induction H2 as [|v r vs rs H _ IH]; constructor.
  - apply spec_reads_laspy_rl; assumption.
  - apply IH. inversion HF; assumption.
Qed.

(* ---------------- edits in place (memory map) ---------------- *)

Lemma edit_in_place (file : list Z) off n ps i (rec : list Z) :
  0 <= off -> 0 < ps -> 0 <= i < n -> off + n * ps <= len file -> len rec = ps ->
  let file' := edit_record file off ps i rec in
  record_at file' off ps i = rec
  /\ (forall k, 0 <= k < n -> k <> i -> record_at file' off ps k = record_at file off ps k)
  /\ take off file' = take off file
  /\ drop (off + n * ps) file' = drop (off + n * ps) file
  /\ len file' = len file.
Proof.
  intros Ho Hps Hi Hl Hr file'. subst file'. unfold edit_record.
  assert (Hpos : 0 <= off + i * ps /\ off + i * ps + ps <= len file) by nia.
  repeat split.
  - unfold record_at. pose proof (slice_write_data file (off + i * ps) [] rec [] ltac:(lia)) as S.
    cbn [app] in S. rewrite app_nil_r in S. cbn [len length] in S. rewrite Z.add_0_r in S. fold (len rec) in S. rewrite Hr in S. exact S.
  - intros k Hk Hne. unfold record_at, slice.
    destruct (Z_lt_le_dec k i) as [Hlt|Hge].
    + apply slice_write_before; nia.
    + rewrite drop_write_at by (rewrite ?Hr; nia). reflexivity.
  - apply take_write_at; nia.
  - apply drop_write_at; rewrite ?Hr; nia.
  - apply len_write_at_within; rewrite ?Hr; nia.
Qed.

(* ---------------- a record handed to a header that was not made from it ---------------- *)

Lemma dim_info_eq_shape a b : dim_info_eq a b = true ->
  dim_shape a = dim_shape b
  /\ np_all_eq (dim_offsets a) (dim_offsets b) = true /\ np_all_eq (dim_scales a) (dim_scales b) = true.
Proof.
  destruct a as [[[[[[[an ak] ab] ae] ast] ad] ao] asc]. destruct b as [[[[[[[bn bk] bb] be] bst] bd] bo] bsc].
  unfold dim_info_eq, dim_shape, dim_offsets, dim_scales. rewrite !andb_true_iff. intros H. decompose [and] H. clear H.
  repeat match goal with
         | E : String.eqb _ _ = true |- _ => apply String.eqb_eq in E
         | E : (_ =? _) = true |- _ => apply Z.eqb_eq in E
         end.
  subst. split; [reflexivity|]. split; assumption.
Qed.

Lemma extra_dimensions_eq_shapes a : forall b, extra_dimensions_eq a b = true ->
  map dim_shape a = map dim_shape b /\ Forall2 same_scaling a b.
Proof.
  induction a as [|x a IH]; intros [|y b] H; cbn [extra_dimensions_eq] in H; try discriminate.
  - split; constructor.
  - destruct (dim_info_eq x y) eqn:E; cbn [negb] in H; [|discriminate].
    destruct (dim_info_eq_shape _ _ E) as (S & O & C). destruct (IH _ H) as [M F].
    split; [cbn [map]; now rewrite S, M|]. constructor; [split; assumption|exact F].
Qed.

Lemma dim_name_of_shape d : dim_name d = fst (fst (fst (dim_shape d))).
Proof. destruct d as [[[[[[[n k] b] e] s] ds] o] sc]. reflexivity. Qed.

Lemma same_shapes_same_descriptors a b : map dim_shape a = map dim_shape b ->
  ebs_of_dims a = ebs_of_dims b /\ map dim_name a = map dim_name b.
Proof.
  intros H. unfold ebs_of_dims, eb_of_dim. split.
  - rewrite <- !(map_map dim_shape eb_of_shape). now rewrite H.
  - rewrite !(map_ext _ _ dim_name_of_shape). rewrite <- !(map_map dim_shape (fun s => fst (fst (fst s)))). now rewrite H.
Qed.

(* what a hand-over accepts has the header's point format id, the header's dimensions position by position (name, kind,
   width, number of elements: hence the same Extra Bytes descriptors) and numerically the same scales and offsets; the
   record's bytes, laid out by the record's own dimensions, are read back by the specification's decoder under the
   descriptors the header declares *)
Theorem accepted_record_same_layout hid hdims rid rdims : handover_accepts hid hdims rid rdims = true ->
  hid = rid /\ map dim_shape hdims = map dim_shape rdims /\ map dim_name hdims = map dim_name rdims
  /\ ebs_of_dims hdims = ebs_of_dims rdims /\ Forall2 same_scaling rdims hdims.
Proof.
  unfold handover_accepts, point_format_eq. intros H.
  destruct (rid =? hid) eqn:E; cbn [negb] in H; [|discriminate]. apply Z.eqb_eq in E.
  destruct (extra_dimensions_eq_shapes _ _ H) as [M F]. destruct (same_shapes_same_descriptors _ _ M) as [D N].
  repeat split; auto.
Qed.

Theorem accepted_record_decodes hid hdims rid rdims ebs vals bs : 0 <= hid <= 10 ->
  handover_accepts hid hdims rid rdims = true ->
  ebs_of_dims rdims = Some ebs -> gen_enc_point rid ebs vals = Ok bs ->
  ebs_of_dims hdims = Some ebs /\ map dim_name hdims = map dim_name rdims /\ spec_dec_point hid ebs bs = Ok vals.
Proof.
  intros Hf Ha He Hb. destruct (accepted_record_same_layout _ _ _ _ Ha) as (I & _ & N & D & _). subst rid.
  split; [now rewrite D|]. split; [exact N|]. now apply spec_reads_laspy.
Qed.

Lemma handover_guards_all :
  handover_guards = ["LasWriter.write_points"; "LasAppender.append_points"; "LasData.__init__"; "LasData.points"]%string.
Proof. reflexivity. Qed.

(* ---------------- assignments into the elements of an extra dimension ---------------- *)

Lemma upd_nil {A} i (v : A) : upd [] i v = [].
Proof. unfold upd. now rewrite firstn_nil, skipn_nil. Qed.
Lemma upd_cons_0 {A} (x : A) l v : upd (x :: l) 0 v = v :: l.
Proof. reflexivity. Qed.
Lemma upd_cons_S {A} (x : A) l i v : upd (x :: l) (S i) v = x :: upd l i v.
Proof. reflexivity. Qed.

Lemma length_upd {A} (l : list A) : forall i v, length (upd l i v) = length l.
Proof.
  induction l as [|x l IH]; intros i v; [now rewrite upd_nil|].
  destruct i as [|i]; [reflexivity|]. rewrite upd_cons_S. cbn [length]. now rewrite IH.
Qed.

Lemma nth_upd_same {A} (l : list A) : forall i v d, (i < length l)%nat -> nth i (upd l i v) d = v.
Proof.
  induction l as [|x l IH]; intros i v d Hi; [cbn in Hi; lia|].
  destruct i as [|i]; [reflexivity|]. rewrite upd_cons_S. cbn [nth]. apply IH. cbn [length] in Hi. lia.
Qed.

Lemma nth_upd_other {A} (l : list A) : forall i j v d, i <> j -> nth j (upd l i v) d = nth j l d.
Proof.
  induction l as [|x l IH]; intros i j v d Hij; [now rewrite upd_nil|].
  destruct i as [|i], j as [|j]; try congruence; try reflexivity.
  rewrite upd_cons_S. cbn [nth]. apply IH. congruence.
Qed.

Lemma map_length_upd (g : grid) : forall i r, length r = length (nth i g []) ->
  map (@length Z) (upd g i r) = map (@length Z) g.
Proof.
  induction g as [|x g IH]; intros i r Hr; [now rewrite upd_nil|].
  destruct i as [|i].
  - rewrite upd_cons_0. cbn [map nth] in *. now rewrite Hr.
  - rewrite upd_cons_S. cbn [map nth] in *. now rewrite IH.
Qed.

Lemma set_elem_shape g i k v : map (@length Z) (set_elem g i k v) = map (@length Z) g.
Proof. unfold set_elem. apply map_length_upd. apply length_upd. Qed.

Lemma row_length (g : grid) i : length (nth i g []) = nth i (map (@length Z) g) 0%nat.
Proof. exact (eq_sym (map_nth (@length Z) g [] i)). Qed.

Lemma get_set_same g i k v : (i < length g)%nat -> (k < length (nth i g []))%nat -> get_elem (set_elem g i k v) i k = v.
Proof. intros Hi Hk. unfold get_elem, set_elem. rewrite nth_upd_same by exact Hi. now apply nth_upd_same. Qed.

Lemma get_set_other g i k v i' k' : (i, k) <> (i', k') -> get_elem (set_elem g i k v) i' k' = get_elem g i' k'.
Proof.
  intros H. unfold get_elem, set_elem. destruct (Nat.eq_dec i i') as [E|E].
  - subst i'. assert (Hk : k <> k') by congruence.
    destruct (Nat.lt_ge_cases i (length g)) as [Hi|Hi].
    + rewrite nth_upd_same by exact Hi. now apply nth_upd_other.
    + rewrite (nth_overflow (upd g i _)) by (rewrite length_upd; lia). now rewrite (nth_overflow g) by lia.
  - now rewrite nth_upd_other by exact E.
Qed.

Lemma assign_elems_app a : forall g b, assign_elems g (a ++ b) = assign_elems (assign_elems g a) b.
Proof. induction a as [|[[i k] v] a IH]; intros g b; [reflexivity|]. cbn [app assign_elems]. apply IH. Qed.

Lemma assign_elems_shape sel : forall g, map (@length Z) (assign_elems g sel) = map (@length Z) g.
Proof.
  induction sel as [|[[i k] v] sel IH]; intros g; [reflexivity|]. cbn [assign_elems]. rewrite IH. apply set_elem_shape.
Qed.

Lemma assign_elems_miss sel : forall g i k, ~ In (i, k) (map sel_pos sel) ->
  get_elem (assign_elems g sel) i k = get_elem g i k.
Proof.
  induction sel as [|[[i' k'] v] sel IH]; intros g i k H; [reflexivity|]. cbn [assign_elems map In sel_pos fst] in *.
  rewrite IH by (intro X; apply H; now right). apply get_set_other. intro X. apply H. now left.
Qed.

Lemma assign_elems_hit sel : forall g i k v, NoDup (map sel_pos sel) -> In (i, k, v) sel ->
  (i < length g)%nat -> (k < length (nth i g []))%nat -> get_elem (assign_elems g sel) i k = v.
Proof.
  induction sel as [|[[i' k'] v'] sel IH]; intros g i k v Hnd Hin Hi Hk; [contradiction|].
  cbn [map sel_pos fst] in Hnd. inversion Hnd as [|p ps Hnot Hnd']. subst p ps. cbn [assign_elems].
  destruct Hin as [E|Hin].
  - inversion E. subst i' k' v'. rewrite assign_elems_miss by exact Hnot. now apply get_set_same.
  - apply IH; auto.
    + unfold set_elem. now rewrite length_upd.
    + rewrite row_length, set_elem_shape, <- row_length. exact Hk.
Qed.

(* an assignment that names distinct (point, element) positions stores the given value at each of them, leaves every other
   element of every point as it was and keeps the shape; assignments made one after the other compose *)
Theorem element_assignment (g : grid) (sel : list (nat * nat * Z)) : NoDup (map sel_pos sel) ->
  (forall i k v, In (i, k, v) sel -> (i < length g)%nat -> (k < length (nth i g []))%nat -> get_elem (assign_elems g sel) i k = v)
  /\ (forall i k, ~ In (i, k) (map sel_pos sel) -> get_elem (assign_elems g sel) i k = get_elem g i k)
  /\ map (@length Z) (assign_elems g sel) = map (@length Z) g.
Proof.
  intros Hnd. split; [|split].
  - intros i k v Hin Hi Hk. now apply assign_elems_hit.
  - intros i k H. now apply assign_elems_miss.
  - apply assign_elems_shape.
Qed.

(* ---------------- a header between two files ---------------- *)

(* what the file of a writer announces about EVLRs is what the writer was given — nothing when write_evlrs was not called or was
   called with an empty list, k records right behind the points otherwise — whatever the header said before it came to the writer *)
Theorem writer_announces_its_own_evlrs (minor hs hc e : Z) (given : option Z) (r : Z * Z) :
  writer_evlr_fields minor hs hc e given = Some r ->
  r = match given with
      | Some k => if 0 <? k then (e, k) else (0, 0)
      | None => (0, 0)
      end.
Proof.
  unfold writer_evlr_fields, writer_init_resets, partial_reset_evlrs, write_evlrs_fields.
  destruct given as [k|]; [destruct (minor <? 4); [discriminate|]; destruct (0 <? k)|]; intros H; inversion H; reflexivity.
Qed.

Theorem writer_evlrs_need_1_4 (minor hs hc e k : Z) : minor < 4 -> writer_evlr_fields minor hs hc e (Some k) = None.
Proof.
  intros H. unfold writer_evlr_fields, writer_init_resets, partial_reset_evlrs, write_evlrs_fields.
  apply Z.ltb_lt in H. rewrite H. reflexivity.
Qed.

Theorem writer_evlrs_accepted (minor hs hc e : Z) (given : option Z) : 4 <= minor ->
  exists r, writer_evlr_fields minor hs hc e given = Some r.
Proof.
  intros H. unfold writer_evlr_fields, writer_init_resets, partial_reset_evlrs, write_evlrs_fields.
  destruct given as [k|]; [|eexists; reflexivity].
  replace (minor <? 4) with false by (symmetry; apply Z.ltb_ge; lia). destruct (0 <? k); eexists; reflexivity.
Qed.

Lemma point_format_writers_all_sync : point_format_writers_sync = true.
Proof. vm_compute. reflexivity. Qed.
