(* C14 - proofs about Model/Laz.v, part 1: the compressed bit, the compress decision, the LasZip record discipline.
   (The backend contract and the transparency theorems are in Proofs/LazBackendProofs.v.) *)
From Coq Require Import String.
From Coq Require Import ZArith List Bool Lia ZifyBool.
From LasV Require Import Lib.Base Lib.BaseFacts Lib.Layout Gen.GenFormatBits Gen.GenC14 Model.Las Model.Laz.
Import ListNotations.
Open Scope list_scope.
Open Scope Z_scope.

(* ------------------------------------------------------------------------------------ *)
(* the compressed bit (functions translated from laspy/_compression/format.py)           *)
(* ------------------------------------------------------------------------------------ *)
Definition bit_ok64 (f : Z) : bool :=
  is_point_format_compressed (uncompressed_id_to_compressed f)
  && (compressed_id_to_uncompressed (uncompressed_id_to_compressed f) =? f)
  && negb (is_point_format_compressed f)
  && (uncompressed_id_to_compressed f <? 256).

Theorem bits_64 : forall f, 0 <= f < 64 ->
  is_point_format_compressed (uncompressed_id_to_compressed f) = true
  /\ compressed_id_to_uncompressed (uncompressed_id_to_compressed f) = f
  /\ is_point_format_compressed f = false
  /\ 0 <= uncompressed_id_to_compressed f < 256.
Proof.
  assert (forall_below 64 bit_ok64 = true) as H by (vm_compute; reflexivity).
  intros f Hf. pose proof (forall_below_spec 64 bit_ok64 H f Hf) as B. unfold bit_ok64 in B.
  apply andb_true_iff in B as [B B4]. apply andb_true_iff in B as [B B3]. apply andb_true_iff in B as [B1 B2].
  split; [exact B1|]. split; [lia|]. split; [now apply negb_true_iff|].
  split; [|lia]. unfold uncompressed_id_to_compressed. apply Z.lor_nonneg. lia.
Qed.

(* every byte value: compressed <-> bit 7 set and bit 6 clear; the plain id is below 64; a compressed id is
   rebuilt from its plain id *)
Definition bit_ok256 (b : Z) : bool :=
  Bool.eqb (is_point_format_compressed b) ((128 <=? b) && (b <? 192))
  && (0 <=? compressed_id_to_uncompressed b) && (compressed_id_to_uncompressed b <? 64)
  && (if is_point_format_compressed b then uncompressed_id_to_compressed (compressed_id_to_uncompressed b) =? b else true).

Theorem bits_256 : forall b, 0 <= b < 256 ->
  (is_point_format_compressed b = true <-> 128 <= b < 192)
  /\ 0 <= compressed_id_to_uncompressed b < 64
  /\ (is_point_format_compressed b = true -> uncompressed_id_to_compressed (compressed_id_to_uncompressed b) = b).
Proof.
  assert (forall_below 256 bit_ok256 = true) as H by (vm_compute; reflexivity).
  intros b Hb. pose proof (forall_below_spec 256 bit_ok256 H b Hb) as B. unfold bit_ok256 in B.
  apply andb_true_iff in B as [B B4]. apply andb_true_iff in B as [B B3]. apply andb_true_iff in B as [B1 B2].
  apply Bool.eqb_prop in B1. split; [rewrite B1; lia|]. split; [lia|].
  intros Hc. rewrite Hc in B4. lia.
Qed.

(* ------------------------------------------------------------------------------------ *)
(* the decision                                                                          *)
(* ------------------------------------------------------------------------------------ *)
Lemma lower_eq_const c k : (k < 65 \/ 122 < k) -> (c14_lower c =? k) = (c =? k).
Proof. intros Hk. unfold c14_lower. destruct ((65 <=? c) && (c <=? 90)) eqn:E; lia. Qed.

Lemma lower_eq_letter c k : 97 <= k <= 122 -> (c14_lower c =? k) = ci c k.
Proof. intros Hk. unfold c14_lower, ci. destruct ((65 <=? c) && (c <=? 90)) eqn:E; lia. Qed.

(* the test the source performs on the suffix is ".laz" up to letter case *)
Lemma gen_ext_lower suffix : c14_list_eqb (map c14_lower suffix) [46; 108; 97; 122] = ext_is_laz suffix.
Proof.
  destruct suffix as [|a [|b [|c [|d [|e r]]]]]; cbn [map c14_list_eqb ext_is_laz];
    rewrite ?andb_false_r; try reflexivity.
  rewrite (lower_eq_const a 46) by lia.
  rewrite (lower_eq_letter b 108), (lower_eq_letter c 97), (lower_eq_letter d 122) by lia.
  rewrite andb_true_r, !andb_assoc. reflexivity.
Qed.

Theorem decision_open : forall is_path is_bytes suffix dc bg,
  decide_open is_path is_bytes suffix dc bg = rule dc is_path (ext_is_laz suffix) bg.
Proof.
  intros. unfold decide_open, gen_writer_decision, gen_open_decision. rewrite gen_ext_lower.
  destruct dc as [[|]|], is_path, bg, (ext_is_laz suffix); reflexivity.
Qed.

(* LasData.write: the path form documents no do_compress ("will be ignored"): it is the rule with do_compress = None *)
Theorem decision_lasdata : forall is_path suffix dc bg,
  decide_lasdata is_path suffix dc bg = rule (if is_path then None else dc) is_path (ext_is_laz suffix) bg.
Proof.
  intros. unfold decide_lasdata, gen_writer_decision, gen_lasdata_decision. rewrite gen_ext_lower.
  destruct dc as [[|]|], is_path, bg, (ext_is_laz suffix); reflexivity.
Qed.

Theorem decision_writer : forall dc bg, decide_writer dc bg = rule dc false false bg.
Proof. intros. unfold decide_writer, gen_writer_decision. destruct dc as [[|]|], bg; reflexivity. Qed.

(* the eight spellings, and nothing else *)
Definition LAZ_SPELLINGS : list (list Z) :=
  [[46;108;97;122]; [46;108;97;90]; [46;108;65;122]; [46;108;65;90]; [46;76;97;122]; [46;76;97;90]; [46;76;65;122]; [46;76;65;90]].
Theorem ext_is_laz_spec : forall suffix, ext_is_laz suffix = true <-> In suffix LAZ_SPELLINGS.
Proof.
  intros suffix. split.
  - destruct suffix as [|a [|b [|c [|d [|e r]]]]]; cbn [ext_is_laz]; try discriminate.
    unfold ci. intros H.
    assert (a = 46 /\ (b = 108 \/ b = 76) /\ (c = 97 \/ c = 65) /\ (d = 122 \/ d = 90)) as (-> & Hb & Hc & Hd) by lia.
    destruct Hb as [-> | ->], Hc as [-> | ->], Hd as [-> | ->]; cbn; tauto.
  - intros H. cbn in H. intuition (subst suffix; reflexivity).
Qed.

(* ------------------------------------------------------------------------------------ *)
(* the LasZip record in VLR lists                                                        *)
(* ------------------------------------------------------------------------------------ *)
Lemma is_laszip_mk d : is_laszip (mk_laszip d) = true.
Proof. reflexivity. Qed.

Lemma count_lz_nonneg l : 0 <= count_lz l.
Proof. apply len_nonneg. Qed.

Lemma count_lz_cons v l : count_lz (v :: l) = (if is_laszip v then 1 else 0) + count_lz l.
Proof. unfold count_lz. cbn [filter]. destruct (is_laszip v); unfold len; cbn [length]; lia. Qed.

Lemma count_lz_app a b : count_lz (a ++ b) = count_lz a + count_lz b.
Proof. unfold count_lz. rewrite filter_app, len_app. reflexivity. Qed.

Lemma count_remove_first l : count_lz (remove_first is_laszip l) = Z.max 0 (count_lz l - 1).
Proof.
  induction l as [|v l IH]; [reflexivity|]. cbn [remove_first]. rewrite count_lz_cons.
  pose proof (count_lz_nonneg l). destruct (is_laszip v) eqn:E.
  - lia.
  - rewrite count_lz_cons, E, IH. lia.
Qed.

Lemma remove_first_none l : count_lz l = 0 -> remove_first is_laszip l = l.
Proof.
  induction l as [|v l IH]; [reflexivity|]. rewrite count_lz_cons. pose proof (count_lz_nonneg l).
  cbn [remove_first]. destruct (is_laszip v); [lia|]. intros Hc. f_equal. apply IH. lia.
Qed.

Lemma remove_first_last l d : count_lz l = 0 -> remove_first is_laszip (l ++ [mk_laszip d]) = l.
Proof.
  induction l as [|v l IH]; [reflexivity|]. rewrite count_lz_cons. pose proof (count_lz_nonneg l).
  cbn [app remove_first]. destruct (is_laszip v); [lia|]. intros Hc. f_equal. apply IH. lia.
Qed.

Lemma find_laszip_last l d : count_lz l = 0 -> find is_laszip (l ++ [mk_laszip d]) = Some (mk_laszip d).
Proof.
  induction l as [|v l IH]; [reflexivity|]. rewrite count_lz_cons. pose proof (count_lz_nonneg l).
  cbn [app find]. destruct (is_laszip v); [lia|]. intros Hc. apply IH. lia.
Qed.

(* the user's own records are never lost, reordered or duplicated by the strip *)
Lemma others_remove_first l :
  filter (fun v => negb (is_laszip v)) (remove_first is_laszip l) = filter (fun v => negb (is_laszip v)) l.
Proof.
  induction l as [|v l IH]; [reflexivity|]. cbn [remove_first filter]. destruct (is_laszip v) eqn:E; cbn [negb].
  - reflexivity.
  - cbn [filter]. rewrite E. cbn [negb]. now rewrite IH.
Qed.

(* with the statement shapes the translator found, the writer's list is: strip the first, append the fresh one *)
Lemma writer_vlrs_eq user c d :
  writer_vlrs user c d = remove_first is_laszip user ++ (if c then [mk_laszip d] else []).
Proof. unfold writer_vlrs. destruct c; reflexivity. Qed.

Theorem writer_keeps_others : forall user c d,
  filter (fun v => negb (is_laszip v)) (writer_vlrs user c d) = filter (fun v => negb (is_laszip v)) user.
Proof.
  intros. rewrite writer_vlrs_eq, filter_app, others_remove_first.
  destruct c; cbn [filter]; [rewrite is_laszip_mk; cbn [negb]|]; now rewrite app_nil_r.
Qed.

Theorem writer_count : forall user c d, count_lz user <= 1 -> count_lz (writer_vlrs user c d) = if c then 1 else 0.
Proof.
  intros user c d H. rewrite writer_vlrs_eq, count_lz_app, count_remove_first.
  pose proof (count_lz_nonneg user).
  destruct c; [rewrite count_lz_cons, is_laszip_mk|]; change (count_lz []) with 0; lia.
Qed.

(* the invariant of all histories *)
Definition vinv (s : vstate) : Prop :=
  count_lz (u_held s) = (if r_lazy s && r_comp s && (r_count s >? 0) then 1 else 0)
  /\ count_lz (f_vlrs s) = (if f_comp s then 1 else 0)
  /\ 0 <= r_count s /\ 0 <= f_count s.

Definition vop_ok (op : vop) : Prop := match op with VWrite _ n _ => 0 <= n | _ => True end.

Lemma vstep_inv s op : vinv s -> vop_ok op -> vinv (vstep s op).
Proof.
  intros (Hh & Hf & Hr & Hc) Hop. destruct op as [c n d| | |v]; unfold vstep.
  - (* write *)
    unfold vinv. cbn [u_held r_comp r_count r_lazy f_vlrs f_comp f_count].
    split; [exact Hh|]. split; [|split; [exact Hr|exact Hop]].
    apply writer_count. rewrite Hh. destruct (r_lazy s && r_comp s && (r_count s >? 0)); lia.
  - (* open *)
    unfold vinv. cbn [u_held r_comp r_count r_lazy f_vlrs f_comp f_count].
    split; [|split; [exact Hf|split; exact Hc]].
    unfold reader_open_vlrs. change gen_reader_pops_laszip_when_empty with true. rewrite andb_true_r. cbn [andb].
    destruct (f_comp s); cbn [andb].
    + destruct (f_count s =? 0) eqn:E0.
      * rewrite count_remove_first, Hf. replace (f_count s >? 0) with false by lia. reflexivity.
      * replace (f_count s >? 0) with true by lia. exact Hf.
    + exact Hf.
  - (* touch *)
    destruct (r_lazy s) eqn:El; [|split; [rewrite Hh, ?El; reflexivity|split; [exact Hf|split; assumption]]].
    unfold vinv. cbn [u_held r_comp r_count r_lazy f_vlrs f_comp f_count andb].
    split; [|split; [exact Hf|split; assumption]].
    unfold reader_touch_vlrs. change gen_reader_pops_laszip with true. rewrite andb_true_r.
    rewrite ?El in Hh. cbn [andb] in Hh.
    destruct (r_comp s && (r_count s >? 0)).
    + rewrite count_remove_first, Hh. reflexivity.
    + exact Hh.
  - (* the user adds a record of his own *)
    destruct (is_laszip v) eqn:E; [split; [exact Hh|split; [exact Hf|split; assumption]]|].
    unfold vinv. cbn [u_held r_comp r_count r_lazy f_vlrs f_comp f_count].
    split; [|split; [exact Hf|split; assumption]].
    rewrite count_lz_app, count_lz_cons, E. change (count_lz []) with 0. lia.
Qed.

Theorem laszip_discipline : forall user ops, count_lz user = 0 -> Forall vop_ok ops ->
  vinv (vrun (vinit user) ops).
Proof.
  intros user ops Hu Hops. unfold vrun.
  assert (vinv (vinit user)) as H0 by (unfold vinv, vinit; cbn; lia).
  revert H0. generalize (vinit user). induction Hops as [|op ops Hop _ IH]; intros s Hs; [exact Hs|].
  cbn [fold_left]. apply IH. now apply vstep_inv.
Qed.

(* the readable consequences *)
Corollary laszip_exactly_one_in_file : forall user ops, count_lz user = 0 -> Forall vop_ok ops ->
  let s := vrun (vinit user) ops in count_lz (f_vlrs s) = if f_comp s then 1 else 0.
Proof. intros user ops Hu Hops. apply (laszip_discipline user ops Hu Hops). Qed.

(* after the reader built its point source, or for an empty file straight after opening, the user sees none *)
Corollary laszip_hidden_after_read : forall user ops, count_lz user = 0 -> Forall vop_ok ops ->
  let s := vrun (vinit user) ops in (r_lazy s = false \/ r_count s = 0 \/ r_comp s = false) -> count_lz (u_held s) = 0.
Proof.
  intros user ops Hu Hops s H. destruct (laszip_discipline user ops Hu Hops) as (Hh & _). fold s in Hh.
  rewrite Hh. destruct H as [-> | [-> | ->]]; [reflexivity| |]; destruct (r_lazy s); cbn; try reflexivity;
    destruct (r_comp s); reflexivity.
Qed.

(* whatever header is held (even one taken from a LAZ reader before its point source exists), an uncompressed
   copy carries no LasZip record and a compressed copy exactly one *)
Corollary laszip_never_leaks : forall user ops c n d, count_lz user = 0 -> Forall vop_ok ops -> 0 <= n ->
  count_lz (f_vlrs (vstep (vrun (vinit user) ops) (VWrite c n d))) = if c then 1 else 0.
Proof.
  intros user ops c n d Hu Hops Hn.
  pose proof (laszip_discipline user (ops ++ [VWrite c n d]) Hu) as H.
  unfold vrun in H. rewrite fold_left_app in H. cbn [fold_left] in H.
  apply H. apply Forall_app. split; [exact Hops|]. constructor; [exact Hn|constructor].
Qed.
