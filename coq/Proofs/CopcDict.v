(* C15 — the hierarchy dictionary: lookup and the merge of a loaded page. *)
From Coq Require Import String.
From Coq Require Import ZArith List Bool Lia ZifyBool.
From LasV Require Import Lib.Base Gen.GenCopc Model.Copc Proofs.CopcKeys.
Import ListNotations.
Open Scope list_scope.
Open Scope Z_scope.

Lemma lookup_some : forall k h e, lookup k h = Some e -> e_key e = k /\ In e h.
Proof.
  intros k h. induction h as [|x xs IH]; intros e H; cbn [lookup] in H; [discriminate|].
  destruct (key_eqb (e_key x) k) eqn:E.
  - inversion H; subst. apply key_eqb_eq in E. split; [exact E | simpl; auto].
  - destruct (IH e H) as [H1 H2]. split; [exact H1 | simpl; auto].
Qed.

Lemma lookup_none : forall k h, lookup k h = None <-> (forall e, In e h -> e_key e <> k).
Proof.
  intros k h. induction h as [|x xs IH]; cbn [lookup].
  - split; [intros _ e [] | reflexivity].
  - destruct (key_eqb (e_key x) k) eqn:E.
    + split; [discriminate|]. intros H. apply key_eqb_eq in E. exfalso. apply (H x); simpl; auto.
    + rewrite IH. apply key_eqb_neq in E. split.
      * intros H e [<- | He]; [exact E | apply H; exact He].
      * intros H e He. apply H. simpl; auto.
Qed.

Lemma lookup_in_some : forall k h e, In e h -> e_key e = k -> exists e', lookup k h = Some e'.
Proof.
  intros k h e Hin Hk. destruct (lookup k h) as [e'|] eqn:E; [eauto|].
  exfalso. apply (proj1 (lookup_none k h) E e Hin Hk).
Qed.

Lemma lookup_app : forall k a b,
  lookup k (a ++ b) = match lookup k a with Some e => Some e | None => lookup k b end.
Proof.
  intros k a b. induction a as [|x xs IH]; cbn [lookup app]; [reflexivity|].
  destruct (key_eqb (e_key x) k); [reflexivity | exact IH].
Qed.

Lemma lookup_map : forall (f : entry -> entry) k h, (forall e, e_key (f e) = e_key e) ->
  lookup k (map f h) = option_map f (lookup k h).
Proof.
  intros f k h Hf. induction h as [|x xs IH]; cbn [lookup map]; [reflexivity|].
  rewrite Hf. destruct (key_eqb (e_key x) k); [reflexivity | exact IH].
Qed.

Lemma lookup_filter_keep : forall (P : entry -> bool) k l, (forall e, e_key e = k -> P e = true) ->
  lookup k (filter P l) = lookup k l.
Proof.
  intros P k l HP. induction l as [|x xs IH]; cbn [filter lookup]; [reflexivity|].
  destruct (key_eqb (e_key x) k) eqn:E.
  - pose proof E as E'. apply key_eqb_eq in E'. rewrite (HP x E'). cbn [lookup]. rewrite E. reflexivity.
  - destruct (P x); [cbn [lookup]; rewrite E|]; exact IH.
Qed.

Lemma lookup_filter_drop : forall (P : entry -> bool) k l, (forall e, e_key e = k -> P e = false) ->
  lookup k (filter P l) = None.
Proof.
  intros P k l HP. apply lookup_none. intros e He Hk. apply filter_In in He. destruct He as [_ He].
  rewrite (HP e Hk) in He. discriminate.
Qed.

Lemma has_key_true : forall k h, has_key k h = true <-> exists e, lookup k h = Some e.
Proof.
  intros k h. unfold has_key. destruct (lookup k h) as [e|]; split; intros H; eauto; try discriminate.
  destruct H as [e H]. discriminate.
Qed.

Lemma merge_spec : forall k h p,
  lookup k (merge h p) =
  match lookup k h with
  | Some o => if is_ref o then match lookup k (page_dict p) with Some e => Some e | None => Some o end else Some o
  | None => lookup k (page_dict p)
  end.
Proof.
  intros k h p. unfold merge. rewrite lookup_app.
  rewrite lookup_map.
  2:{ intros e. destruct (is_ref e); [|reflexivity].
      destruct (lookup (e_key e) (page_dict p)) as [e'|] eqn:E; [|reflexivity].
      apply lookup_some in E. apply E. }
  destruct (lookup k h) as [o|] eqn:Eo; cbn [option_map].
  - apply lookup_some in Eo. destruct Eo as [Ek _]. rewrite Ek. destruct (is_ref o); [|reflexivity].
    destruct (lookup k (page_dict p)); reflexivity.
  - apply lookup_filter_keep. intros e Ek. unfold has_key. rewrite Ek, Eo. reflexivity.
Qed.

Lemma page_describes_merge : forall k h p e, lookup k h = Some e -> is_ref e = true -> page_describes k p = true ->
  exists e', lookup k (page_dict p) = Some e' /\ lookup k (merge h p) = Some e' /\ is_ref e' = false.
Proof.
  intros k h p e Hl Hr Hd. unfold page_describes in Hd. rewrite merge_spec, Hl, Hr.
  destruct (lookup k (page_dict p)) as [d|]; [|discriminate].
  exists d. split; [reflexivity|]. split; [reflexivity|]. destruct (is_ref d); [discriminate | reflexivity].
Qed.

Lemma in_merge : forall e h p, In e (merge h p) -> In e h \/ In e p.
Proof.
  intros e h p H. unfold merge in H. apply in_app_or in H. destruct H as [H | H].
  - apply in_map_iff in H. destruct H as [o [Ho Hin]]. destruct (is_ref o).
    + destruct (lookup (e_key o) (page_dict p)) as [e'|] eqn:E.
      * subst. apply lookup_some in E. right. apply in_rev. apply E.
      * subst. auto.
    + subst. auto.
  - apply filter_In in H. right. apply in_rev. apply H.
Qed.

(* a resolved entry stays what it is *)
Lemma merge_resolved_kept : forall k h p o, lookup k h = Some o -> is_ref o = false -> lookup k (merge h p) = Some o.
Proof. intros k h p o H1 H2. rewrite merge_spec, H1, H2. reflexivity. Qed.

Lemma merge_present_kept : forall k h p, lookup k h <> None -> lookup k (merge h p) <> None.
Proof.
  intros k h p H. rewrite merge_spec. destruct (lookup k h) as [o|]; [|contradiction].
  destruct (is_ref o); [destruct (lookup k (page_dict p))|]; discriminate.
Qed.

Lemma page_at_in : forall ps off size e, In e (page_at ps off size) -> In e (concat (map snd ps)).
Proof.
  induction ps as [|[[o s] p] r IH]; intros off size e H; cbn [page_at] in H; [contradiction|].
  cbn [map concat snd]. apply in_or_app. destruct ((o =? off) && (s =? size)); [left; exact H | right; eapply IH; exact H].
Qed.
