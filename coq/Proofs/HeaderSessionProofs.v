From Coq Require Import String.
From Coq Require Import ZArith List Bool Lia.
From LasV Require Import Lib.Base Lib.Layout Proofs.LayoutProofs Model.Las Model.LasSpec Proofs.HeaderLen Proofs.HeaderMisc
  Model.HeaderObj Model.HeaderSession.
Import ListNotations.
Open Scope list_scope.
Open Scope Z_scope.

Lemma apply_edit_offset o e : edit_public e = true ->
  aint (ho_fields (apply_edit o e)) "offset_to_point_data" = aint (ho_fields o) "offset_to_point_data".
Proof.
  destruct e as [n v|vl]; cbn [edit_public apply_edit ho_fields]; intros H; [|reflexivity].
  apply aint_aset_other. now apply negb_true_iff in H.
Qed.

(* no edit of the public API reaches the remembered offset *)
Theorem edits_keep_offset es : forall o, forallb edit_public es = true ->
  aint (ho_fields (apply_edits o es)) "offset_to_point_data" = aint (ho_fields o) "offset_to_point_data".
Proof.
  induction es as [|e es IH]; intros o H; [reflexivity|].
  cbn [forallb] in H. apply andb_true_iff in H as [He Hes].
  unfold apply_edits. cbn [fold_left]. fold (apply_edits (apply_edit o e) es).
  rewrite (IH _ Hes). now apply apply_edit_offset.
Qed.

Lemma open_session_inv o o1 bs1 : open_session o = Ok (o1, bs1) ->
  len bs1 = aint (ho_fields o1) "offset_to_point_data".
Proof.
  unfold open_session, write_obj. destruct (enc_header (ho_fields o) (ho_vlrs o) false) as [[h' bs]|e] eqn:E; [|discriminate].
  intros [= <- <-]. cbn [ho_fields]. exact (enc_header_len _ _ _ _ _ E).
Qed.

(* whatever was edited between open and close: a rewrite that is accepted has the size and the offset of the first write *)
Theorem session_keeps_offset o o1 bs1 es h2 bs2 :
  open_session o = Ok (o1, bs1) -> forallb edit_public es = true ->
  close_session (apply_edits o1 es) = Ok (h2, bs2) ->
  len bs2 = len bs1 /\ aint h2 "offset_to_point_data" = len bs1.
Proof.
  intros Ho He Hc. unfold close_session, write_obj in Hc.
  destruct (enc_header_same_size _ _ _ _ Hc) as [A B].
  rewrite (edits_keep_offset es o1 He) in A, B. rewrite (open_session_inv _ _ _ Ho). split; assumption.
Qed.

Lemma rewrite_same_length (hdr newh rest : list Z) : length newh = length hdr -> rewrite_in_place (hdr ++ rest) newh = newh ++ rest.
Proof.
  intros H. unfold rewrite_in_place. rewrite H, skipn_app, skipn_all, Nat.sub_diag. reflexivity.
Qed.

(* ... hence the file after close() is a block of the SAME length followed by exactly the bytes that followed the first header (the
   point records, the EVLRs): the rewrite is refused (file untouched) or it stays in front of the first point record *)
Theorem session_never_overwrites o o1 bs1 es rest :
  open_session o = Ok (o1, bs1) -> forallb edit_public es = true ->
  exists hdr', file_after_close (bs1 ++ rest) (apply_edits o1 es) = hdr' ++ rest /\ length hdr' = length bs1.
Proof.
  intros Ho He. unfold file_after_close.
  destruct (close_session (apply_edits o1 es)) as [[h2 bs2]|e] eqn:Hc.
  - destruct (session_keeps_offset _ _ _ _ _ _ Ho He Hc) as [L _].
    assert (length bs2 = length bs1) as L' by (unfold len in L; lia).
    exists bs2. split; [now apply rewrite_same_length|exact L'].
  - exists bs1. split; reflexivity.
Qed.

(* an edit that changes the size of the header + VLR block is refused at close *)
Theorem session_refuses_resize o o1 bs1 es vb hs0 :
  open_session o = Ok (o1, bs1) -> forallb edit_public es = true ->
  let f := ho_fields (apply_edits o1 es) in
  aint f "point_count" <= max_point_count (aint f "version.major") (aint f "version.minor") ->
  enc_vlrs false (ho_vlrs (apply_edits o1 es)) = Ok vb ->
  header_size_tbl (aint f "version.major") (aint f "version.minor") = Some hs0 ->
  hs0 + len (abytes f "extra_header_bytes") + len vb + len (abytes f "extra_vlr_bytes") <> len bs1 ->
  close_session (apply_edits o1 es) = Err ELaspy.
Proof.
  intros Ho He f Hc Hv Hh Hne. unfold close_session, write_obj. subst f.
  apply (enc_header_refuses_shift _ _ vb hs0 Hc Hv Hh).
  rewrite (edits_keep_offset es o1 He), <- (open_session_inv _ _ _ Ho). exact Hne.
Qed.

(* necessity: an edit of the VLR list that refreshes the remembered offset from the new list leaves the guard nothing to compare
   with - the premise under which close() refuses can no longer hold, however much the block grew *)
Theorem refreshing_edit_defeats_guard o vl vb hs0 :
  let f := ho_fields (set_vlrs_refreshing o vl) in
  enc_vlrs false vl = Ok vb ->
  header_size_tbl (aint (ho_fields o) "version.major") (aint (ho_fields o) "version.minor") = Some hs0 ->
  hs0 + len (abytes f "extra_header_bytes") + len vb + len (abytes f "extra_vlr_bytes") = aint f "offset_to_point_data".
Proof.
  intros f Hv Hh. unfold f, set_vlrs_refreshing. cbn [ho_fields].
  rewrite aint_aset_same, !abytes_aset_other by reflexivity.
  unfold vlr_block_size. rewrite Hv, Hh. reflexivity.
Qed.
