(* Proofs about Model/RecView.v (C01, round 6). *)
From Coq Require Import ZArith List Bool Lia.
From LasV Require Import Lib.Base Model.WriterAlias Model.RecView.
Import ListNotations.
Open Scope list_scope.
Open Scope nat_scope.

(* ---------------- writing changes nothing ---------------- *)
Lemma vstep_write : forall w i, fst (vstep w (VWrite i)) = w.
Proof. reflexivity. Qed.

Lemma vrun_fst_cons : forall w op r, fst (vrun w (op :: r)) = fst (vrun (fst (vstep w op)) r).
Proof.
  intros. simpl. destruct (vstep w op) as [w' o]. simpl. destruct (vrun w' r) as [w'' os]. reflexivity.
Qed.

(* a history with its writes taken out leaves the same world: every later observation is the one of a world in which nothing
   was ever written *)
Theorem writes_transparent : forall ops w, fst (vrun w ops) = fst (vrun w (filter (fun op => negb (is_write op)) ops)).
Proof.
  induction ops as [|op ops IH]; intros w; [reflexivity|].
  destruct op as [i sel|i sel|i off vals|i]; cbn [filter is_write negb].
  - rewrite !vrun_fst_cons. apply IH.
  - rewrite !vrun_fst_cons. apply IH.
  - rewrite !vrun_fst_cons. apply IH.
  - rewrite vrun_fst_cons. apply IH.
Qed.

(* what is written is the records the object presents, packed *)
Theorem write_is_presented : forall w i, snd (vstep w (VWrite i)) = Some (concat (records_at w i)).
Proof. reflexivity. Qed.

(* ---------------- objects never change: which buffer, which positions ---------------- *)
Lemma vstep_keeps_objs : forall w op j o, nth_error (vw_objs w) j = Some o -> nth_error (vw_objs (fst (vstep w op))) j = Some o.
Proof.
  intros w op j o H. destruct op as [i sel|i sel|i off vals|i]; simpl; try exact H;
  destruct (nth_error (vw_objs w) i) as [oi|]; simpl; try exact H.
  - rewrite nth_error_app1; [exact H|]. apply nth_error_Some. congruence.
  - rewrite nth_error_app1; [exact H|]. apply nth_error_Some. congruence.
Qed.

Lemma vrun_keeps_objs : forall ops w j o, nth_error (vw_objs w) j = Some o -> nth_error (vw_objs (fst (vrun w ops))) j = Some o.
Proof.
  induction ops as [|op ops IH]; intros w j o H; [exact H|].
  rewrite vrun_fst_cons. apply IH. now apply vstep_keeps_objs.
Qed.

(* ---------------- a slice stays a view, whatever is done afterwards (writes included) ---------------- *)
Lemma nth_pick_records : forall w o sel, Forall (fun k => k < length (vo_idx o)) sel ->
  records_of w (mkVO (vo_buf o) (pick 0 (vo_idx o) sel)) = pick [] (records_of w o) sel.
Proof.
  intros w o sel H. unfold records_of, pick. cbn [vo_buf vo_idx]. rewrite map_map.
  apply map_ext_in. intros k Hk. rewrite Forall_forall in H. specialize (H k Hk).
  set (f := fun p : nat => nth p (buf_at w (vo_buf o)) []).
  symmetry. rewrite (nth_indep (map f (vo_idx o)) [] (f 0)) by (rewrite map_length; exact H).
  apply (map_nth f).
Qed.

Theorem view_stays_view : forall w i sel o ops, nth_error (vw_objs w) i = Some o ->
  Forall (fun k => k < length (vo_idx o)) sel ->
  let j := length (vw_objs w) in
  let w2 := fst (vrun (fst (vstep w (VView i sel))) ops) in
  records_at w2 j = pick [] (records_at w2 i) sel.
Proof.
  intros w i sel o ops Hi Hsel j w2.
  assert (Hj : nth_error (vw_objs (fst (vstep w (VView i sel)))) j = Some (mkVO (vo_buf o) (pick 0 (vo_idx o) sel))).
  { simpl. rewrite Hi. simpl. rewrite nth_error_app2 by apply Nat.le_refl. now rewrite Nat.sub_diag. }
  assert (Hi' : nth_error (vw_objs (fst (vstep w (VView i sel)))) i = Some o) by now apply vstep_keeps_objs.
  unfold records_at. subst w2.
  rewrite (vrun_keeps_objs ops _ j _ Hj), (vrun_keeps_objs ops _ i _ Hi').
  now apply nth_pick_records.
Qed.

(* ---------------- an edit goes to ONE buffer ---------------- *)
Lemma nth_set_nth_other : forall {A} (l : list A) a b x d, a <> b -> nth b (set_nth a x l) d = nth b l d.
Proof.
  induction l as [|y l IH]; intros a b x d H; [now destruct a|].
  destruct a, b; simpl; try reflexivity; [contradiction|]. apply IH. lia.
Qed.

Theorem edit_touches_one_buffer : forall w i off vals o b, nth_error (vw_objs w) i = Some o -> b <> vo_buf o ->
  buf_at (fst (vstep w (VEdit i off vals))) b = buf_at w b.
Proof.
  intros w i off vals o b Hi Hb. simpl. rewrite Hi. unfold buf_at. cbn [vw_bufs fst].
  apply nth_set_nth_other. congruence.
Qed.

(* so an object over another buffer - a copy made by a mask or an index list, or the cloud a copy was made from - does not see it *)
Theorem edit_unseen_over_other_buffer : forall w i off vals o j oj, nth_error (vw_objs w) i = Some o ->
  nth_error (vw_objs w) j = Some oj -> vo_buf oj <> vo_buf o ->
  records_at (fst (vstep w (VEdit i off vals))) j = records_at w j.
Proof.
  intros w i off vals o j oj Hi Hj Hb. unfold records_at.
  rewrite (vstep_keeps_objs w (VEdit i off vals) j oj Hj), Hj. unfold records_of.
  now rewrite (edit_touches_one_buffer w i off vals o (vo_buf oj) Hi Hb).
Qed.

(* a copy lives in a buffer of its own *)
Theorem copy_has_fresh_buffer : forall w i sel o, nth_error (vw_objs w) i = Some o ->
  nth_error (vw_objs (fst (vstep w (VCopy i sel)))) (length (vw_objs w)) = Some (mkVO (length (vw_bufs w)) (seq 0 (length sel))).
Proof.
  intros w i sel o Hi. simpl. rewrite Hi. simpl. rewrite nth_error_app2 by apply Nat.le_refl. now rewrite Nat.sub_diag.
Qed.
