(* Interrupted APPEND sessions never yield points that were not written (task K2, property C19). *)
From Coq Require Import String.
From Coq Require Import ZArith List Bool Lia ZifyBool.
From LasV Require Import Lib.Base Lib.BaseFacts Lib.Layout Proofs.LayoutProofs Gen.GenHeaderLayout Gen.GenFormatBits Gen.GenDims
  Model.Las Model.LasSpec Proofs.HeaderLen Proofs.VlrProofs Proofs.HeaderProofs Proofs.WriterProofs Proofs.RoundTripProofs
  Proofs.AppendProofs Proofs.CrashProofs.
Import ListNotations.
Open Scope list_scope.
Open Scope Z_scope.

(* crash images starting from an existing file: `crash_from base trace k j` of Proofs/CrashProofs.v *)

Definition append_trace (start : Z) (chunks : list (list (list Z))) (eb hdr1 : list Z) : list (Z * list Z) :=
  let pts := map (fun c => concat c) (filter (fun c => match c with [] => false | _ => true end) chunks) in
  let starts := fold_left (fun acc p => acc ++ [last acc 0 + len p]) pts [start] in
  combine starts pts
  ++ (match eb with [] => [] | _ => [(start + len (concat pts), eb)] end) ++ [(0, hdr1)].

(* ------------------------------------------------------------------------------------ *)
(* prefixes                                                                              *)
(* ------------------------------------------------------------------------------------ *)
Lemma is_prefix_app {A} (p a b : list A) : is_prefix p a -> is_prefix p (a ++ b).
Proof.
  intros [n ->]. exists (Nat.min n (length a)).
  rewrite firstn_app. replace (Nat.min n (length a) - length a)%nat with 0%nat by lia.
  cbn [firstn]. rewrite app_nil_r, <- firstn_firstn, firstn_all. reflexivity.
Qed.

Lemma reads_prefix_app src (a b : list (list Z)) :
  reads_prefix_or_fails src a -> reads_prefix_or_fails src (a ++ b).
Proof.
  unfold reads_prefix_or_fails. destruct (read_file src) as [lf|e]; [|trivial]. apply is_prefix_app.
Qed.

(* ------------------------------------------------------------------------------------ *)
(* the two headers of an append session: old count n0 <= new count n                     *)
(* ------------------------------------------------------------------------------------ *)
Definition hdr_facts2 (b0 b1 : list Z) (m ps n0 n : Z) : Prop :=
  (227 <= length b0)%nat /\ (cntp m + cntw m <= length b0)%nat
  /\ le_dec (firstn 4 (skipn 96 b0)) = len b0
  /\ le_dec (firstn 1 (skipn 25 b0)) = m
  /\ le_dec (firstn 2 (skipn 105 b0)) = ps
  /\ firstn (cntw m) (skipn (cntp m) b0) = le_enc (cntw m) n0
  /\ length b1 = length b0 /\ firstn 107 b1 = firstn 107 b0
  /\ firstn (cntw m) (skipn (cntp m) b1) = le_enc (cntw m) n
  /\ 0 <= n0 <= n /\ n < 256 ^ Z.of_nat (cntw m).

(* (A) the old header intact, all the old records present, anything behind: reads exactly the old records *)
Lemma safeA2 b0 b1 m ps A n X :
  hdr_facts2 b0 b1 m ps (len A) n -> recs_ok ps A = true -> 0 < ps ->
  reads_prefix_or_fails (b0 ++ concat A ++ X) A.
Proof.
  intros (F1 & F2 & F3 & F4 & F5 & F6 & _ & _ & _ & F10 & F11) Hrecs Hps.
  assert (count_raw m (firstn (length b0) (b0 ++ concat A ++ X)) = len A) as Ec.
  { rewrite (firstn_app_exact b0 _ (length b0) eq_refl). unfold count_raw. rewrite F6.
    apply le_dec_enc. lia. }
  apply (read_core _ b0 m ps A); try assumption.
  - apply firstn_app_le. lia.
  - rewrite Ec. lia.
  - intros _. exists X. now apply skipn_app_exact.
Qed.

(* (B) the new header partially written over the old one, all the records (old and new) present *)
Lemma safeB2 b0 b1 m ps recs n0 tail j :
  hdr_facts2 b0 b1 m ps n0 (len recs) -> recs_ok ps recs = true -> 0 < ps -> (j <= length b0)%nat ->
  reads_prefix_or_fails (firstn j b1 ++ skipn j b0 ++ concat recs ++ tail) recs.
Proof.
  intros (F1 & F2 & F3 & F4 & F5 & F6 & F7 & F8 & F9 & F10 & F11) Hrecs Hps Hj.
  rewrite app_assoc. set (mix := firstn j b1 ++ skipn j b0).
  assert (length mix = length b0) as Lmix by (unfold mix; rewrite mix_length; lia).
  assert (firstn (length b0) (mix ++ concat recs ++ tail) = mix) as Est by now apply firstn_app_exact.
  assert (0 <= count_raw m mix <= len recs) as Hc.
  { unfold count_raw, mix. rewrite mix_field by exact F7. rewrite F6, F9.
    destruct (le_lt_dec (j - cntp m) (cntw m)) as [Hle|Hgt].
    - now apply torn_le_mono.
    - rewrite firstn_all2 by (rewrite le_enc_length; lia).
      rewrite skipn_all2 by (rewrite le_enc_length; lia).
      rewrite app_nil_r, le_dec_enc by lia. lia. }
  apply (read_core _ b0 m ps recs); try assumption.
  - rewrite firstn_app_le by lia. change (firstn 107 mix) with (firstn 107 (skipn 0 mix)).
    unfold mix. rewrite mix_field by exact F7. rewrite Nat.sub_0_r.
    change (skipn 0 b1) with b1. change (skipn 0 b0) with b0. rewrite F8. apply firstn_skipn.
  - rewrite Est. exact Hc.
  - intros _. exists tail. now apply skipn_app_exact.
Qed.

(* the rewrite of the header at position 0, possibly torn, then nothing more *)
Lemma last_write2 b0 b1 m ps recs n0 tail j :
  hdr_facts2 b0 b1 m ps n0 (len recs) -> recs_ok ps recs = true -> 0 < ps ->
  reads_prefix_or_fails (write_at (b0 ++ concat recs ++ tail) 0 (firstn j b1)) recs.
Proof.
  intros HF Hrecs Hps. pose proof HF as (_ & _ & _ & _ & _ & _ & F7 & _).
  assert (firstn j b1 = firstn (Nat.min j (length b1)) b1) as ->.
  { rewrite <- firstn_firstn, firstn_all. reflexivity. }
  rewrite write_at_torn by lia.
  apply (safeB2 b0 b1 m ps recs n0); try assumption. lia.
Qed.

Lemma last_step2 b0 b1 m ps recs n0 tail k j :
  hdr_facts2 b0 b1 m ps n0 (len recs) -> recs_ok ps recs = true -> 0 < ps ->
  reads_prefix_or_fails (crash_from (b0 ++ concat recs ++ tail) [(0, b1)] k j) recs.
Proof.
  intros HF Hrecs Hps. destruct k as [|k].
  - rewrite crash_from_0. now apply (last_write2 b0 b1 m ps recs n0).
  - rewrite crash_from_S, crash_from_nil. unfold apply_write. cbn [fst snd].
    rewrite <- (firstn_all b1) at 1. now apply (last_write2 b0 b1 m ps recs n0).
Qed.

(* ------------------------------------------------------------------------------------ *)
(* re-encoding the opening header with any statistics keeps length and first 107 bytes   *)
(* ------------------------------------------------------------------------------------ *)
Lemma reenc_prefix W0 vl h0 b0 st h1 b1 :
  enc_header W0 vl false = Ok (h0, b0) -> enc_header (with_stats h0 st) vl true = Ok (h1, b1) ->
  length b1 = length b0 /\ firstn 107 b1 = firstn 107 b0.
Proof.
  intros H0 H1.
  destruct (reenc_agree _ _ _ _ _ _ _ H0 H1) as (Hag & Emn & vb & fb0 & fb1 & Hf0 & Hf1 & -> & ->).
  destruct (enc_header_inv _ _ _ _ _ H0) as (_ & hs0 & _ & _ & Hh & _).
  destruct (hw_layout_width _ _ _ Hh) as [Hw Hok].
  pose proof (enc_fields_len _ _ _ Hok Hf0) as L0. pose proof (enc_fields_len _ _ _ Hok Hf1) as L1.
  rewrite Hw in L0, L1.
  destruct (tbl_cases_range _ _ _ Hh) as (_ & Hm & Hhs0).
  split.
  - rewrite !app_length. unfold len in *. lia.
  - set (m := aint W0 "version.minor") in *.
    rewrite !firstn_app_le by (unfold len in *; lia).
    destruct (l15_facts m Hm) as (A1 & A2 & A3).
    clearbody m.
    assert (firstn 15 (hdr_vals h1 (fixed_part (hw_layout m))) = firstn 15 (hdr_vals h0 (fixed_part (hw_layout m)))) as Hvals.
    { unfold hdr_vals. rewrite !firstn_map. apply map_ext_in. intros f Hf.
      apply wval_get_ext, Hag.
      assert (In (snd f) (firstn 15 core_names)) as Hin by (rewrite <- A3; now apply in_map).
      rewrite <- (firstn_skipn 15 core_names). apply in_or_app. now left. }
    pose proof (enc_fields_prefix_agree 15 _ _ _ _ _ A2 Hvals Hf1 Hf0) as HH.
    rewrite A1 in HH. exact HH.
Qed.

(* the headers of the file of A and of the file of A ++ B, both re-encodings of the same opening header *)
Lemma append_session_facts W0 vl h0 b0 stA stB hA bA hB bB :
  enc_header W0 vl false = Ok (h0, b0) ->
  enc_header (with_stats h0 stA) vl true = Ok (hA, bA) ->
  enc_header (with_stats h0 stB) vl true = Ok (hB, bB) ->
  0 <= s_count stA <= s_count stB ->
  hdr_facts2 bA bB (aint W0 "version.minor") (aint h0 "point_size") (s_count stA) (s_count stB).
Proof.
  intros H0 HA HB Hc.
  destruct (hdr_bytes_facts _ _ _ _ _ _ HA (aget_with_stats_count h0 stA)) as (_ & A2 & A3 & A4 & A5 & A6 & A7 & A8).
  destruct (hdr_bytes_facts _ _ _ _ _ _ HB (aget_with_stats_count h0 stB)) as (_ & _ & _ & _ & _ & _ & B7 & B8).
  destruct (reenc_agree _ _ _ _ _ _ _ H0 HA) as (_ & EmA & _).
  destruct (reenc_agree _ _ _ _ _ _ _ H0 HB) as (_ & EmB & _).
  rewrite EmA in A3, A5, A7, A8. rewrite EmB in B7, B8.
  destruct (reenc_prefix _ _ _ _ _ _ _ H0 HA) as [LA PA].
  destruct (reenc_prefix _ _ _ _ _ _ _ H0 HB) as [LB PB].
  assert (aint (with_stats h0 stA) "point_size" = aint h0 "point_size") as Eps
    by (apply aint_get, with_stats_core; in_core).
  rewrite Eps in A6.
  unfold hdr_facts2. repeat split; try assumption; try lia.
  congruence.
Qed.

(* ------------------------------------------------------------------------------------ *)
(* the chunk writes of an append session: they start where the old EVLR bytes E start    *)
(* ------------------------------------------------------------------------------------ *)
Lemma crash_appends2 : forall pts P E rest k j,
  (exists t, crash_from (P ++ E) (cw (len P) pts ++ rest) k j = P ++ t)
  \/ ((length pts <= k)%nat
      /\ crash_from (P ++ E) (cw (len P) pts ++ rest) k j
         = crash_from (P ++ concat pts ++ skipn (length (concat pts)) E) rest (k - length pts) j).
Proof.
  induction pts as [|p ps IH]; intros P E rest k j.
  - right. cbn [cw app length concat skipn]. rewrite Nat.sub_0_r. split; [lia|reflexivity].
  - cbn [cw app]. destruct k as [|k].
    + left. rewrite crash_from_0, write_at_mid. eauto.
    + rewrite crash_from_S. unfold apply_write. cbn [fst snd]. rewrite write_at_mid.
      rewrite <- len_app, app_assoc.
      destruct (IH (P ++ p) (skipn (length p) E) rest k j) as [[t Ht]|[Hk Ht]].
      * left. exists (p ++ t). rewrite Ht. now rewrite app_assoc.
      * right. split; [cbn [length]; lia|]. rewrite Ht. cbn [concat length Nat.sub].
        rewrite app_length, skipn_add, <- !app_assoc. reflexivity.
Qed.

(* ------------------------------------------------------------------------------------ *)
(* C19, append                                                                           *)
(* ------------------------------------------------------------------------------------ *)
(* the session on abstract bytes *)
Lemma crash_append_core bA bB m ps A B eb Bs k j :
  hdr_facts2 bA bB m ps (len A) (len (A ++ B)) ->
  recs_ok ps A = true -> recs_ok ps (A ++ B) = true -> 0 < ps ->
  concat (map (fun c => concat c) (filter (fun c => match c with [] => false | _ => true end) Bs)) = concat B ->
  reads_prefix_or_fails
    (crash_from (bA ++ concat A ++ eb) (append_trace (len bA + len (concat A)) Bs eb bB) k j) (A ++ B).
Proof.
  intros HF HrA HrAB Hps Hpts.
  unfold append_trace. cbv zeta.
  set (pts := map (fun c => concat c) (filter (fun c => match c with [] => false | _ => true end) Bs)) in *.
  rewrite starts_eq. cbn [last app]. rewrite combine_cw.
  rewrite <- len_app. rewrite (app_assoc bA (concat A) eb).
  set (P := bA ++ concat A).
  match goal with |- context [cw (len P) pts ++ ?r] => set (rest := r) end.
  assert (forall t, reads_prefix_or_fails (P ++ t) (A ++ B)) as HsafeA.
  { intros t. unfold P. rewrite <- app_assoc. apply reads_prefix_app.
    apply (safeA2 bA bB m ps A (len (A ++ B)) t); assumption. }
  assert (forall tail k' j', reads_prefix_or_fails (crash_from (P ++ concat pts ++ tail) [(0, bB)] k' j') (A ++ B)) as HsafeB.
  { intros tail k' j'. unfold P. rewrite Hpts, <- app_assoc.
    rewrite (app_assoc (concat A) (concat B) tail), <- concat_app.
    apply (last_step2 bA bB m ps (A ++ B) (len A)); assumption. }
  destruct (crash_appends2 pts P eb rest k j) as [[t Ht]|[Hk Ht]]; rewrite Ht.
  - apply HsafeA.
  - unfold rest. clear Ht rest.
    destruct eb as [|e eb].
    + cbn [app]. apply HsafeB.
    + cbn [app]. set (ebs := e :: eb).
      rewrite <- len_app, (app_assoc P (concat pts)).
      destruct (k - length pts)%nat as [|k'].
      * rewrite crash_from_0, write_at_mid, <- app_assoc. apply HsafeA.
      * rewrite crash_from_S. unfold apply_write at 1. cbn [fst snd].
        rewrite write_at_mid, <- app_assoc. apply HsafeB.
Qed.

(* C19, append: every crash image of an append session on the file of A (after k complete low-level writes and j bytes of the
   next, the in-place header rewrite included) is refused or read as a prefix of A followed by the appended points *)
Theorem crash_safe_append : forall ap, ap_ok ap -> (forall s o x, 0 <= ap s o x) ->
  forall h vl fmt A evl Bs f0 f1 hA h1 eb k j,
  wf_las ap h vl fmt A evl -> wf_las ap h vl fmt (A ++ concat Bs) evl ->
  file_of ap h vl fmt A evl = Ok f0 -> final_hdr ap h vl fmt A evl = Ok hA ->
  file_of ap h vl fmt (A ++ concat Bs) evl = Ok f1 -> final_hdr ap h vl fmt (A ++ concat Bs) evl = Ok h1 ->
  enc_vlrs true evl = Ok eb ->
  let off := aint hA "offset_to_point_data" in
  reads_prefix_or_fails
    (crash_from f0 (append_trace (off + len (concat A)) Bs eb (firstn (Z.to_nat off) f1)) k j)
    (A ++ concat Bs).
Proof.
  intros ap _ _ h vl fmt A evl Bs f0 f1 hA h1 eb k j WA WB FA HA FB HB Eeb off.
  destruct (file_facts _ _ _ _ _ _ _ WA FA)
    as (h0 & b0 & ebA & hRA & bA & E0 & EebA & ERA & -> & _ & _ & RA & PsA & _).
  destruct (file_facts _ _ _ _ _ _ _ WB FB)
    as (h0' & b0' & ebB & hRB & bB & E0' & EebB & ERB & -> & _ & _ & RB & PsB & _).
  rewrite E0 in E0'. injection E0' as <- <-.
  rewrite Eeb in EebA, EebB. injection EebA as <-. injection EebB as <-.
  destruct (final_hdr_inv _ _ _ _ _ _ _ HA) as (h0' & b0' & eb' & bR' & E0' & _ & ER').
  rewrite E0 in E0'. injection E0' as <- <-. rewrite ERA in ER'. injection ER' as <- <-.
  clear HA HB WA WB FA FB.
  set (stA := fstats ap fmt h A evl (len b0)) in *.
  set (stB := fstats ap fmt h (A ++ concat Bs) evl (len b0)) in *.
  assert (aint hRA "point_size" = aint h0 "point_size") as EpA.
  { rewrite (enc_header_keeps _ _ _ _ _ "point_size" ERA) by reflexivity.
    apply aint_get, with_stats_core. in_core. }
  assert (aint hRB "point_size" = aint h0 "point_size") as EpB.
  { rewrite (enc_header_keeps _ _ _ _ _ "point_size" ERB) by reflexivity.
    apply aint_get, with_stats_core. in_core. }
  rewrite EpA in RA, PsA. rewrite EpB in RB.
  assert (s_count stA = len A) as CA by apply fstats_count.
  assert (s_count stB = len (A ++ concat Bs)) as CB by apply fstats_count.
  assert (0 <= s_count stA <= s_count stB) as Hc.
  { rewrite CA, CB, len_app. pose proof (len_nonneg A). pose proof (len_nonneg (concat Bs)). lia. }
  pose proof (append_session_facts _ _ _ _ _ _ _ _ _ _ E0 ERA ERB Hc) as HF.
  rewrite CA, CB in HF.
  assert (off = len bA) as Eoff by (unfold off; symmetry; exact (enc_header_len _ _ _ _ _ ERA)).
  assert (length bB = length bA) as Lb by apply HF.
  rewrite Eoff, to_nat_len.
  rewrite (firstn_app_exact bB _ (length bA) Lb).
  apply (crash_append_core bA bB (aint (with_stats h stats0) "version.minor") (aint h0 "point_size")); try assumption.
  apply concat_nonempty.
Qed.
Print Assumptions crash_safe_append.
