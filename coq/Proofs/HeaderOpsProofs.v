From Coq Require Import ZArith List Bool Lia ZifyBool.
From LasV Require Import Lib.Base Gen.GenDims Model.HeaderOps.
Import ListNotations.
Open Scope Z_scope.

Lemma checked_ok v f s : checked v f = Ok s -> hcompat s = true /\ s = mkHS v f.
Proof.
  unfold checked. destruct (version_known v); [|discriminate].
  destruct (compat_v v f) eqn:E; [|discriminate]. intros [= <-]. split; [exact E|reflexivity].
Qed.

(* every operation that succeeds lands on a compatible pair *)
Lemma hstep_compat s op s' : hstep s op = Ok s' -> hcompat s' = true.
Proof.
  destruct op as [[v|] [f|]|v|f|v f|[f|] [v|]|]; cbn [hstep]; intros H.
  - destruct (std_known f); [|discriminate]. now apply checked_ok in H.
  - destruct (min_fmt v); [|discriminate]. now apply checked_ok in H.
  - destruct (preferred f); [|discriminate]. now apply checked_ok in H.
  - now apply checked_ok in H.
  - now apply checked_ok in H.
  - now apply checked_ok in H.
  - now apply checked_ok in H.
  - now apply checked_ok in H.
  - destruct (preferred f); [|discriminate]. now apply checked_ok in H.
  - now apply checked_ok in H.
  - destruct (preferred (hs_f s)); [|discriminate]. now apply checked_ok in H.
  - now apply checked_ok in H.
Qed.

Lemma hrun1_compat s op : hcompat s = true -> hcompat (hrun1 s op) = true.
Proof. intros H. unfold hrun1. destruct (hstep s op) eqn:E; [now apply hstep_compat in E|exact H]. Qed.

Theorem never_incompatible ops : forall s, hcompat s = true -> hcompat (hrun s ops) = true.
Proof. induction ops as [|op ops IH]; intros s H; [exact H|]. cbn [hrun fold_left]. apply IH. now apply hrun1_compat. Qed.

(* from nothing: the first header is created by HNew *)
Theorem created_compatible v f s : hstep (mkHS (0, 0) 0) (HNew v f) = Ok s -> forall ops, hcompat (hrun s ops) = true.
Proof. intros H ops. apply never_incompatible. now apply hstep_compat in H. Qed.

(* the writer refuses an incompatible header *)
Theorem writer_refuses s : hcompat s = false -> hstep s HOpenWriter = Err ELaspy.
Proof. unfold hcompat. cbn [hstep]. unfold checked. intros ->. destruct (version_known (hs_v s)); reflexivity. Qed.

(* the defaults of the constructor are total on the tables: every known version has a minimal format, every known
   format a preferred version, and both are compatible pairs *)
Lemma defaults_total :
  forallb (fun row => let '(a, b, _) := row in match min_fmt (a, b) with Some f => compat_v (a, b) f | None => false end) version_to_point_fmt
  && forallb (fun row => match preferred (fst (fst row)) with Some v => compat_v v (fst (fst row)) && version_known v | None => false end) point_formats
  && compat_v (1, 2) 3 = true.
Proof. vm_compute. reflexivity. Qed.

(* convert never lowers the version unless one is requested *)
Lemma vmax_ge a b : let m := vmax a b in
  (fst a < fst m \/ (fst a = fst m /\ snd a <= snd m)).
Proof. unfold vmax. destruct ((fst a <? fst b) || ((fst a =? fst b) && (snd a <? snd b))) eqn:E; cbn; lia. Qed.

Theorem convert_keeps_version s f s' : hstep s (HConvert f None) = Ok s' ->
  fst (hs_v s) < fst (hs_v s') \/ (fst (hs_v s) = fst (hs_v s') /\ snd (hs_v s) <= snd (hs_v s')).
Proof.
  cbn [hstep]. set (g := match f with Some f0 => f0 | None => hs_f s end).
  destruct (preferred g) as [p|]; [|discriminate]. intros H. apply checked_ok in H as [_ ->]. cbn [hs_v].
  apply vmax_ge.
Qed.

(* ---------------- calendar ---------------- *)
From LasV Require Import Lib.BaseFacts.

(* complete sweep: both leap flags x months 1..12 x days 1..31 *)
Definition cal_ok (lp : bool) : bool :=
  forall_below 13 (fun m => forall_below 32 (fun d =>
    negb (valid_md lp m d) ||
    (match of_yday_l lp (yday_l lp m d) with Some (m', d') => (m' =? m) && (d' =? d) | None => false end
     && (1 <=? yday_l lp m d) && (yday_l lp m d <=? (if lp then 366 else 365))))).
Lemma cal_sweep : cal_ok true && cal_ok false = true.
Proof. vm_compute. reflexivity. Qed.

Lemma cal_l lp m d : valid_md lp m d = true ->
  of_yday_l lp (yday_l lp m d) = Some (m, d) /\ 1 <= yday_l lp m d <= (if lp then 366 else 365).
Proof.
  intros H. pose proof cal_sweep as S. apply andb_true_iff in S as [St Sf].
  assert (cal_ok lp = true) as Sl by (destruct lp; assumption).
  unfold valid_md in H. assert (0 <= m < 13 /\ 0 <= d < 32) as [Hm Hd].
  { unfold mdays_l in H. destruct (m =? 2); [destruct lp|destruct ((m =? 4) || (m =? 6) || (m =? 9) || (m =? 11))]; lia. }
  pose proof (forall_below_spec _ _ Sl m Hm) as S1. cbn beta in S1.
  pose proof (forall_below_spec _ _ S1 d Hd) as S2. cbn beta in S2.
  unfold valid_md in S2. rewrite H in S2. cbn [negb orb] in S2.
  destruct (of_yday_l lp (yday_l lp m d)) as [[m' d']|]; [|discriminate].
  repeat (apply andb_true_iff in S2 as [S2 ?]).
  split; [f_equal; f_equal; lia|lia].
Qed.

Theorem of_yday_yday y m d : valid_date y m d = true -> of_yday y (yday y m d) = Some (y, m, d).
Proof.
  unfold valid_date. intros H. apply andb_true_iff in H as [_ H].
  unfold of_yday, yday. now destruct (cal_l _ _ _ H) as [-> _].
Qed.

Theorem yday_range y m d : valid_date y m d = true -> 1 <= yday y m d <= (if leap y then 366 else 365).
Proof. unfold valid_date. intros H. apply andb_true_iff in H as [_ H]. unfold yday. now destruct (cal_l _ _ _ H). Qed.
