From Coq Require Import String.
From Coq Require Import ZArith List Bool Lia ZifyBool.
From LasV Require Import Lib.Base Lib.BaseFacts Lib.Layout Proofs.LayoutProofs Gen.GenHeaderLayout Gen.GenDims Model.Las Proofs.HeaderLen.
Import ListNotations.
Open Scope list_scope.
Open Scope Z_scope.

(* an in-place rewrite that would move the points is refused *)
Theorem enc_header_refuses_shift h vl vb hs0 :
  aint h "point_count" <= max_point_count (aint h "version.major") (aint h "version.minor") ->
  enc_vlrs false vl = Ok vb ->
  header_size_tbl (aint h "version.major") (aint h "version.minor") = Some hs0 ->
  hs0 + len (abytes h "extra_header_bytes") + len vb + len (abytes h "extra_vlr_bytes") <> aint h "offset_to_point_data" ->
  enc_header h vl true = Err ELaspy.
Proof.
  intros Hc Hv Hh Hne. unfold enc_header.
  destruct (aint h "point_count" >? max_point_count _ _) eqn:E; [lia|].
  rewrite Hv. cbn [bind]. rewrite Hh. cbn [andb].
  match goal with |- (if negb (?a =? ?b) then _ else _) = _ => destruct (Z.eqb_spec a b) as [Heq|Hn] end; [contradiction|reflexivity].
Qed.

(* too many points for the version: refused *)
Theorem enc_header_refuses_count h vl es :
  aint h "point_count" > max_point_count (aint h "version.major") (aint h "version.minor") -> enc_header h vl es = Err ELaspy.
Proof. intros H. unfold enc_header. destruct (aint h "point_count" >? max_point_count _ _) eqn:E; [reflexivity|lia]. Qed.

(* fixed-width strings: any NUL-free byte string of length 0..w comes back, full width included *)
Theorem string_roundtrip s w rest : no_nul s = true -> bytes_ok s = true -> (length s <= w)%nat ->
  dec_field KStr w (null_pad s w false ++ rest) = (VBytes s, rest) /\ length (null_pad s w false) = w.
Proof.
  intros Hn Hb Hl. apply (dec_enc_field KStr w (VBytes s) (null_pad s w false) rest); [|reflexivity].
  cbn [wf_field]. apply Nat.leb_le in Hl. now rewrite Hl, Hn, Hb.
Qed.

(* longer strings are truncated to the width, never overflow it *)
Theorem string_width s w nt : (0 < w)%nat \/ nt = false -> length (null_pad s w nt) = w.
Proof. apply null_pad_length. Qed.
