(* C04, round 5 - the running statistics of the streaming writer (header.grow) under ANY way of cutting the points into blocks,
   and for ANY values of the running box (all zeros included).
   - the count grows by exactly the number of points handed over, whatever the block structure;
   - folding block by block gives the statistics of folding at once (Proofs/WriterProofs.fold_grow restated on whole blocks,
     empty blocks included);
   - the running box never shrinks: no value of the box (in particular not "all zeros although points were counted") makes
     grow forget what was folded in before; and the box contains the image of the chunk's own extreme stored integers. *)
From Coq Require Import String.
From Coq Require Import ZArith List Bool Lia ZifyBool.
From LasV Require Import Lib.Base Lib.BaseFacts Lib.Layout Gen.GenHeaderLayout Gen.GenFormatBits Gen.GenDims Model.Las Model.LasSpec
  Proofs.WriterProofs.
Import ListNotations.
Open Scope list_scope.
Open Scope Z_scope.

Theorem grow_count : forall ap fmt h st recs, s_count (grow ap fmt h st recs) = s_count st + len recs.
Proof.
  intros ap fmt h st recs. destruct recs as [|r0 recs].
  - cbn [grow]. unfold len. cbn [length]. lia.
  - reflexivity.
Qed.
Print Assumptions grow_count.

Lemma len_concat_cons {A} (c : list A) cs : len (concat (c :: cs)) = len c + len (concat cs).
Proof. cbn [concat]. apply len_app. Qed.

(* whatever the blocks a record is cut into, the count after folding them is the count before plus the number of points *)
Theorem fold_grow_count : forall ap fmt h blocks st,
  s_count (fold_left (grow ap fmt h) blocks st) = s_count st + len (concat blocks).
Proof.
  intros ap fmt h. induction blocks as [|c cs IH]; intros st.
  - cbn [fold_left concat]. unfold len. cbn [length]. lia.
  - cbn [fold_left]. rewrite IH, grow_count, len_concat_cons. lia.
Qed.
Print Assumptions fold_grow_count.

(* block by block = at once, for the whole record of statistics (count, extrema, per-return counts) *)
Theorem fold_grow_blocks : forall ap, ap_ok ap -> forall fmt h blocks st,
  length (s_max st) = 3%nat -> length (s_min st) = 3%nat ->
  fold_left (grow ap fmt h) blocks st = grow ap fmt h st (concat blocks).
Proof. intros ap Hap fmt h blocks st H1 H2. now apply fold_grow. Qed.
Print Assumptions fold_grow_blocks.

(* ---- the running box never shrinks ---- *)
Lemma fmax_ge_l a b : f64_key a <= f64_key (fmax a b).
Proof. unfold fmax, f64_lt. destruct (f64_key a <? f64_key b) eqn:E; lia. Qed.

Lemma fmax_ge_r a b : f64_key b <= f64_key (fmax a b).
Proof. unfold fmax, f64_lt. destruct (f64_key a <? f64_key b) eqn:E; lia. Qed.

Lemma fmin_le_l a b : f64_key (fmin a b) <= f64_key a.
Proof. unfold fmin, f64_lt. destruct (f64_key b <? f64_key a) eqn:E; lia. Qed.

Lemma fmin_le_r a b : f64_key (fmin a b) <= f64_key b.
Proof. unfold fmin, f64_lt. destruct (f64_key b <? f64_key a) eqn:E; lia. Qed.

Theorem grow_box_never_shrinks : forall ap fmt h st recs i, (i < 3)%nat ->
  f64_key (nth i (s_max st) 0) <= f64_key (nth i (s_max (grow ap fmt h st recs)) 0)
  /\ f64_key (nth i (s_min (grow ap fmt h st recs)) 0) <= f64_key (nth i (s_min st) 0).
Proof.
  intros ap fmt h st recs i Hi. destruct recs as [|r0 recs]; [cbn [grow]; lia|].
  unfold grow. cbv beta zeta. cbn [s_max s_min]. rewrite !map_seq3.
  destruct i as [|[|[|i]]]; [| | |lia]; cbn [nth]; split; first [apply fmax_ge_l|apply fmin_le_l].
Qed.
Print Assumptions grow_box_never_shrinks.

Theorem fold_grow_box_never_shrinks : forall ap fmt h blocks st i, (i < 3)%nat ->
  f64_key (nth i (s_max st) 0) <= f64_key (nth i (s_max (fold_left (grow ap fmt h) blocks st)) 0)
  /\ f64_key (nth i (s_min (fold_left (grow ap fmt h) blocks st)) 0) <= f64_key (nth i (s_min st) 0).
Proof.
  intros ap fmt h. induction blocks as [|c cs IH]; intros st i Hi; [cbn [fold_left]; lia|].
  cbn [fold_left]. destruct (IH (grow ap fmt h st c) i Hi) as [A B].
  destruct (grow_box_never_shrinks ap fmt h st c i Hi) as [C D]. lia.
Qed.
Print Assumptions fold_grow_box_never_shrinks.

(* ... and contains the image of the largest / smallest stored integer of the chunk itself *)
Theorem grow_box_contains_chunk : forall ap fmt h st r0 recs i, (i < 3)%nat ->
  let sc := aint h (axis_name "scales" i) in
  let off := aint h (axis_name "offsets" i) in
  let st' := grow ap fmt h st (r0 :: recs) in
  f64_key (ap sc off (zmax_list (rec_coord i r0) (map (rec_coord i) (r0 :: recs)))) <= f64_key (nth i (s_max st') 0)
  /\ f64_key (nth i (s_min st') 0) <= f64_key (ap sc off (zmin_list (rec_coord i r0) (map (rec_coord i) (r0 :: recs)))).
Proof.
  intros ap fmt h st r0 recs i Hi sc off st'. unfold st', sc, off, grow. cbv beta zeta. cbn [s_max s_min]. rewrite !map_seq3.
  destruct i as [|[|[|i]]]; [| | |lia]; cbn [nth]; split; first [apply fmax_ge_r|apply fmin_le_r].
Qed.
Print Assumptions grow_box_contains_chunk.
