(* C01, round 5 - proofs about Model/Pairing.v: a pairing the gate accepts is written and read back as the very object
   that was paired (format: names, types, order, scales; records byte for byte; every dimension, under its name, the value
   it had in the caller's record); the gate refuses every record whose extra dimensions carry other names or the same
   names in another order; a gate "by name" would not do (concrete exchange of values); a header built from a PointFormat
   that carries extra dimensions describes them in exactly one extra-bytes VLR from the start. *)
From Coq Require Import String Ascii.
From Coq Require Import ZArith List Bool Lia ZifyBool.
From LasV Require Import Lib.Base Lib.BaseFacts Lib.Layout Proofs.LayoutProofs Gen.GenDims Gen.GenExtraBytes Model.Las Model.ExtraDims
  Proofs.ExtraDimsProofs Model.Pairing.
Import ListNotations.
Open Scope list_scope.
Open Scope Z_scope.

Lemma edim_same_facts a b : edim_same a b = true ->
  ed_name a = ed_name b /\ et_size (ed_type a) = et_size (ed_type b) /\ et_elems (ed_type a) = et_elems (ed_type b).
Proof.
  unfold edim_same. intros H. apply andb_true_iff in H as [H1 H2]. destruct (edim_eqv_facts _ _ H1) as [A B].
  repeat split; [exact A|exact B|lia].
Qed.

Lemma fmt_same_eqv a : forall b, fmt_same a b = true -> fmt_eqv a b = true.
Proof.
  induction a as [|x a IH]; intros [|y b] H; cbn [fmt_same] in H; try discriminate; [reflexivity|].
  apply andb_true_iff in H as [Hx Hr]. cbn [fmt_eqv]. unfold edim_same in Hx. apply andb_true_iff in Hx as [Hx _].
  now rewrite Hx, (IH _ Hr).
Qed.

Lemma fmt_same_names a b : fmt_same a b = true -> extra_names a = extra_names b.
Proof. intros H. now apply fmt_eqv_names, fmt_same_eqv. Qed.

Lemma fmt_same_size a b : fmt_same a b = true -> extras_size a = extras_size b.
Proof. intros H. now apply fmt_eqv_size, fmt_same_eqv. Qed.

Lemma fmt_same_length a : forall b, fmt_same a b = true -> length a = length b.
Proof.
  induction a as [|x a IH]; intros [|y b] H; cbn [fmt_same] in H; try discriminate; [reflexivity|].
  apply andb_true_iff in H as [_ Hr]. cbn [length]. f_equal. now apply IH.
Qed.

(* the record's own format and the header's format cut every point the same way *)
Lemma fmt_same_split a : forall b bs, fmt_same a b = true -> split_fields a bs = split_fields b bs.
Proof.
  induction a as [|x a IH]; intros [|y b] bs H; cbn [fmt_same] in H; try discriminate; [reflexivity|].
  apply andb_true_iff in H as [Hx Hr]. destruct (edim_same_facts _ _ Hx) as (Hn & Hs & _).
  cbn [split_fields]. rewrite Hn, Hs. f_equal. now apply IH.
Qed.

Lemma fmt_same_split_rec std a b bs : fmt_same a b = true -> split_rec std a bs = split_rec std b bs.
Proof. intros H. unfold split_rec. now rewrite (fmt_same_split a b _ H). Qed.

(* ---- the gate refuses ---- *)
Theorem gate_refuses_other_names : forall gh hex gr rex,
  extra_names rex <> extra_names hex -> gate gh hex gr rex = false.
Proof.
  intros gh hex gr rex Hn. unfold gate. destruct (fmt_same rex hex) eqn:E; [|apply andb_false_r].
  exfalso. apply Hn. now apply fmt_same_names.
Qed.
Print Assumptions gate_refuses_other_names.

Theorem gate_refuses_other_id : forall gh hex gr rex, gr <> gh -> gate gh hex gr rex = false.
Proof. intros gh hex gr rex Hn. unfold gate. destruct (gr =? gh) eqn:E; [lia|reflexivity]. Qed.
Print Assumptions gate_refuses_other_id.

Theorem gate_refuses_other_layout : forall gh hex gr rex,
  map (fun d => (et_size (ed_type d), et_elems (ed_type d))) rex <> map (fun d => (et_size (ed_type d), et_elems (ed_type d))) hex ->
  gate gh hex gr rex = false.
Proof.
  intros gh hex gr rex Hn. unfold gate. destruct (fmt_same rex hex) eqn:E; [|apply andb_false_r].
  exfalso. apply Hn. clear Hn. revert hex E. induction rex as [|x a IH]; intros [|y b] H; cbn [fmt_same] in H; try discriminate; [reflexivity|].
  apply andb_true_iff in H as [Hx Hr]. destruct (edim_same_facts _ _ Hx) as (_ & Hs & He). cbn [map]. rewrite Hs, He. f_equal. now apply IH.
Qed.
Print Assumptions gate_refuses_other_layout.

Theorem refused_pairing_is_an_error : forall gh hex others eb_last gr rex recs,
  gate gh hex gr rex = false -> pair_up gh hex others eb_last gr rex recs = Err ELaspy.
Proof. intros. unfold pair_up. now rewrite H. Qed.
Print Assumptions refused_pairing_is_an_error.

(* ---- an accepted pairing round-trips ---- *)
Lemma init_ex_recs fmt ex recs vl eb_last std s : std_size fmt = Some std -> init_ex fmt ex recs vl eb_last = Ok s ->
  st_recs s = map (split_rec std ex) recs.
Proof.
  intros Hstd H. unfold init_ex in H. rewrite Hstd in H. destruct (eb_payload ex) as [p|e]; cbn [bind] in H; [|discriminate].
  injection H as <-. reflexivity.
Qed.

Theorem paired_round_trip : forall gh hex others eb_last gr rex recs std,
  std_size gh = Some std ->
  forallb edim_okb hex = true -> nodupb (extra_names hex) = true ->
  forallb (fun n => negb (mem_name n (rec_names gh))) (extra_names hex) = true ->
  filter is_eb_vlr others = [] ->
  recs_okb std rex recs = true ->
  gate gh hex gr rex = true ->
  exists s w, pair_up gh hex others eb_last gr rex recs = Ok s
    /\ write_state s = Ok w /\ read_state w = Ok s
    /\ pair_write_read gh hex others eb_last gr rex recs = Ok s
    /\ st_fmt s = gh /\ st_extras s = hex
    /\ w_recs w = recs
    /\ st_recs s = caller_view std rex recs
    /\ filter not_eb (st_vlrs s) = others.
Proof.
  intros gh hex others eb_last gr rex recs std Hstd Hdims Hnd Hns Hv Hok Hg.
  unfold gate in Hg. apply andb_true_iff in Hg as [Hid Hsame]. apply Z.eqb_eq in Hid. subst gr.
  assert (forall b, In b recs -> len b = std + extras_size hex) as Hlen.
  { intros b Hb. rewrite <- (fmt_same_size _ _ Hsame). now apply (recs_okb_len std rex recs). }
  destruct (init_ex_inv gh hex recs others eb_last std Hstd Hdims Hnd Hns Hlen Hv) as (s & Hs & Hinv & Hf & Hex & Hrb & Hvl).
  destruct (roundtrip_id s (Inv_2 s Hinv)) as (w & Hw & Hr).
  assert (pair_up gh hex others eb_last gh rex recs = Ok s) as Hp.
  { unfold pair_up, gate. rewrite Z.eqb_refl, Hsame, Hstd, Hok. cbn [andb negb]. exact Hs. }
  exists s, w. repeat split; try assumption.
  - unfold pair_write_read. rewrite Hp. cbn [bind]. rewrite Hw. cbn [bind]. exact Hr.
  - assert (std_size (st_fmt s) = Some std) as Hstd' by now rewrite Hf.
    rewrite (write_state_eq s std Hstd') in Hw. injection Hw as <-. cbn [w_recs]. exact Hrb.
  - rewrite (init_ex_recs gh hex recs others eb_last std s Hstd Hs). unfold caller_view.
    apply map_ext. intros b. symmetry. now apply fmt_same_split_rec.
Qed.
Print Assumptions paired_round_trip.

(* ---- a header built from a PointFormat that carries extra dimensions describes them, from the start ---- *)
Theorem built_header_describes_format : forall gh hex recs others eb_last std,
  std_size gh = Some std ->
  forallb edim_okb hex = true -> nodupb (extra_names hex) = true ->
  forallb (fun n => negb (mem_name n (rec_names gh))) (extra_names hex) = true ->
  (forall b, In b recs -> len b = std + extras_size hex) -> filter is_eb_vlr others = [] ->
  exists s, init_ex gh hex recs others eb_last = Ok s
    /\ st_extras s = hex
    /\ match hex with
       | [] => filter is_eb_vlr (st_vlrs s) = []
       | _ => exists p, filter is_eb_vlr (st_vlrs s) = [eb_vlr p] /\ eb_payload hex = Ok p /\ dec_ebs (length p) p = Ok hex
       end
    /\ exists w, write_state s = Ok w /\ read_state w = Ok s.
Proof.
  intros gh hex recs others eb_last std Hstd Hdims Hnd Hns Hlen Hv.
  destruct (init_ex_inv gh hex recs others eb_last std Hstd Hdims Hnd Hns Hlen Hv) as (s & Hs & Hinv & Hf & Hex & Hrb & Hvl).
  exists s. split; [exact Hs|]. split; [exact Hex|]. split.
  - pose proof (inv_vlr_spelled s Hinv) as Hsp. rewrite Hex in Hsp. destruct hex as [|d hex]; [exact Hsp|].
    destruct Hsp as (p & H1 & H2 & _ & H4). exists p. repeat split; assumption.
  - apply roundtrip_id. now apply Inv_2.
Qed.
Print Assumptions built_header_describes_format.

(* ---- a gate "by name" is not enough: two uint16 dimensions in the other order ---- *)
Definition cx_a : edim := mkED [97] (TStd 3) None [].       (* "a": uint16 *)
Definition cx_b : edim := mkED [98] (TStd 3) None [].       (* "b": uint16 *)
Definition cx_point : list Z := repeat 0 20 ++ [1; 0; 2; 0]. (* format 0; the record is laid out (b, a): b = 1, a = 2 *)

Theorem by_name_gate_exchanges_values :
  gate_by_name 0 [cx_a; cx_b] 0 [cx_b; cx_a] = true
  /\ gate 0 [cx_a; cx_b] 0 [cx_b; cx_a] = false
  /\ field_of [97] (split_rec 20 [cx_b; cx_a] cx_point) = Some [2; 0]        (* what the caller's record holds under "a" *)
  /\ field_of [97] (split_rec 20 [cx_a; cx_b] cx_point) = Some [1; 0].       (* what a reader finds under "a" *)
Proof. vm_compute. repeat split. Qed.
Print Assumptions by_name_gate_exchanges_values.
