From Coq Require Import String.
From Coq Require Import ZArith List Bool Lia.
From LasV Require Import Lib.Base Lib.Layout Proofs.LayoutProofs Gen.GenHeaderLayout Gen.GenFormatBits Model.Las Model.LasSpec
  Proofs.HeaderLen Proofs.HeaderProofs Model.HeaderObj.
Import ListNotations.
Open Scope list_scope.
Open Scope Z_scope.

(* auxiliary state never reaches the bytes *)
Theorem write_obj_aux_irrelevant o o' es :
  ho_fields o = ho_fields o' -> ho_vlrs o = ho_vlrs o' -> write_obj o es = write_obj o' es.
Proof. unfold write_obj. intros -> ->. reflexivity. Qed.

Lemma derived_false n : derived_name n = false ->
  String.eqb "offset_to_point_data" n = false /\ String.eqb "header_size" n = false /\ String.eqb "number_of_vlrs" n = false
  /\ String.eqb n "zero" = false /\ String.eqb n "signature" = false.
Proof.
  unfold derived_name. intros H.
  apply orb_false_iff in H as [H H5]. apply orb_false_iff in H as [H H4].
  apply orb_false_iff in H as [H H3]. apply orb_false_iff in H as [H1 H2].
  rewrite (String.eqb_sym "offset_to_point_data" n), (String.eqb_sym "header_size" n), (String.eqb_sym "number_of_vlrs" n). auto.
Qed.

(* what write_to puts into a plain field is the field's own value *)
Lemma enc_header_keeps h vl es h' bs n : enc_header h vl es = Ok (h', bs) -> derived_name n = false -> wval h' n = wval h n.
Proof.
  intros H Hd. destruct (enc_header_inv _ _ _ _ _ H) as (vb & hs0 & fb & _ & _ & _ & _ & -> & _ & _).
  destruct (derived_false n Hd) as (A & B & C & Z0 & S0).
  unfold wval. rewrite Z0, S0. rewrite !aget_aset_other by assumption. reflexivity.
Qed.

Lemma enc_header_minor h vl es h' bs : enc_header h vl es = Ok (h', bs) -> aint h' "version.minor" = aint h "version.minor".
Proof.
  intros H. destruct (enc_header_inv _ _ _ _ _ H) as (vb & hs0 & fb & _ & _ & _ & _ & -> & _ & _).
  rewrite !aint_aset_other by reflexivity. reflexivity.
Qed.

(* every plain field is read back as the value of that field in the object that was written: whatever else the object
   carries (other fields, VLRs, EVLR list, attached points, origin) has no say *)
Theorem field_own_value o es h' bs rest n :
  write_obj o es = Ok (h', bs) -> wf_header h' (ho_vlrs o) = true ->
  In n (header_field_names (aint (ho_fields o) "version.minor")) -> derived_name n = false ->
  exists rh, dec_header (bs ++ rest) false = Ok rh /\ aget (rh_fields rh) n = Some (wval (ho_fields o) n).
Proof.
  unfold write_obj. intros He Hwf Hin Hd.
  destruct (dec_enc_header _ _ _ _ _ rest He Hwf) as (rh & Hdec & _ & _ & _ & _ & Hf & _).
  exists rh. split; [exact Hdec|].
  rewrite <- (enc_header_minor _ _ _ _ _ He) in Hin.
  rewrite (Hf n Hin). now rewrite (enc_header_keeps _ _ _ _ _ n He Hd).
Qed.

(* two header objects that agree on field n read back the same n, whatever else differs between them *)
Theorem field_independent o1 o2 es1 es2 h1 b1 h2 b2 r1 r2 n :
  write_obj o1 es1 = Ok (h1, b1) -> write_obj o2 es2 = Ok (h2, b2) ->
  wf_header h1 (ho_vlrs o1) = true -> wf_header h2 (ho_vlrs o2) = true ->
  In n (header_field_names (aint (ho_fields o1) "version.minor")) -> In n (header_field_names (aint (ho_fields o2) "version.minor")) ->
  derived_name n = false -> aget (ho_fields o1) n = aget (ho_fields o2) n ->
  exists rh1 rh2, dec_header (b1 ++ r1) false = Ok rh1 /\ dec_header (b2 ++ r2) false = Ok rh2
    /\ aget (rh_fields rh1) n = aget (rh_fields rh2) n.
Proof.
  intros E1 E2 W1 W2 I1 I2 Hd Heq.
  destruct (field_own_value o1 es1 h1 b1 r1 n E1 W1 I1 Hd) as (rh1 & D1 & F1).
  destruct (field_own_value o2 es2 h2 b2 r2 n E2 W2 I2 Hd) as (rh2 & D2 & F2).
  exists rh1, rh2. split; [exact D1|]. split; [exact D2|].
  rewrite F1, F2. unfold wval. rewrite Heq. reflexivity.
Qed.
