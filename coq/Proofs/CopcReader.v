(* C15 — the reader: a cached hierarchy that every query updates in place, transient faults of the source, several
   queries on one reader.  On a well-formed hierarchy every query of every history either ends by the injected fault or
   returns what a fresh reader returns. *)
From Coq Require Import String.
From Coq Require Import ZArith List Bool Lia ZifyBool Arith Permutation.
From LasV Require Import Lib.Base Gen.GenCopc Model.Copc Proofs.CopcKeys Proofs.CopcDict Proofs.CopcTerm Proofs.CopcNodes
  Proofs.CopcPoints.
Import ListNotations.
Open Scope list_scope.
Open Scope Z_scope.

Lemma tick_none : forall fault, tick fault <> None -> fault <> None.
Proof. intros [n|] H; [discriminate | exact H]. Qed.

(* until the fault fires the traversal is the pure one; the fault counter only ever comes from an injected fault *)
Lemma rd_outcome : forall t g ob lv fuel fault h st acc,
  (snd (traverse_rd fuel t g ob lv fault h st acc) = IOFault /\ fault <> None)
  \/ (snd (traverse_rd fuel t g ob lv fault h st acc) = Ans (traverse fuel t g ob lv h st acc)
      /\ (snd (fst (traverse_rd fuel t g ob lv fault h st acc)) <> None -> fault <> None)).
Proof.
  intros t g ob lv. induction fuel as [|f IH]; intros fault h st acc.
  - destruct st as [|k st']; cbn [traverse_rd traverse fst snd]; right; split; auto.
  - destruct st as [|k st']; cbn [traverse_rd traverse].
    { right. cbn [fst snd]. split; auto. }
    destruct (negb (in_bounds g ob k)); [apply IH|].
    destruct (negb (below_stop lv k)); [apply IH|].
    destruct (lookup k h) as [e|]; [|apply IH].
    destruct (is_ref e).
    + destruct (fails_now fault) eqn:Ef.
      * left. cbn [fst snd]. split; [reflexivity|]. destruct fault as [[|n]|]; cbn [fails_now] in Ef; discriminate.
      * destruct (page_describes k (page_at (t_pages t) (e_off e) (e_size e))).
        -- destruct (IH (tick fault) (merge h (page_at (t_pages t) (e_off e) (e_size e))) (st' ++ [k]) acc) as [[H1 H2] | [H1 H2]].
           ++ left. split; [exact H1 | apply tick_none; exact H2].
           ++ right. split; [exact H1|]. intros H. apply tick_none. apply H2. exact H.
        -- right. cbn [fst snd]. split; [reflexivity | apply tick_none].
    + destruct (e_cnt e >=? gen_node_min_count); apply IH.
Qed.

Section Reader.
Variable t : tree.
Hypothesis WF : wf_tree t.

Lemma inv_root : forall h st, inv t h st -> inv t h [root_key].
Proof.
  intros h st [A [B _]]. split; [exact A|]. split; [exact B|]. intros a [<- | []]. left. reflexivity.
Qed.

Lemma inv_tail : forall h k st, inv t h (k :: st) -> inv t h st.
Proof.
  intros h k st [A [B C]]. split; [exact A|]. split; [exact B|]. intros a Ha. apply C. simpl; auto.
Qed.

(* the cache a query leaves behind - however it ends - is as good as the one it found *)
Lemma rd_cache : forall g ob lv fuel fault h st acc, inv t h st ->
  inv t (fst (fst (traverse_rd fuel t g ob lv fault h st acc))) [root_key].
Proof.
  intros g ob lv. induction fuel as [|f IH]; intros fault h st acc Hinv.
  - destruct st as [|k st']; cbn [traverse_rd fst]; eapply inv_root; exact Hinv.
  - destruct st as [|k st']; cbn [traverse_rd].
    { cbn [fst]. eapply inv_root; exact Hinv. }
    pose proof (inv_tail h k st' Hinv) as Hinv'.
    destruct (negb (in_bounds g ob k)); [apply IH; exact Hinv'|].
    destruct (negb (below_stop lv k)); [apply IH; exact Hinv'|].
    destruct (lookup k h) as [e|] eqn:Ee; [|apply IH; exact Hinv'].
    destruct (is_ref e) eqn:Er.
    + destruct (fails_now fault).
      * cbn [fst]. eapply inv_root; exact Hinv.
      * assert (Hm : forall st2, (forall a, In a st2 -> In a (k :: st')) ->
                       inv t (merge h (page_at (t_pages t) (e_off e) (e_size e))) st2).
        { intros st2 H2. apply (inv_merge t WF h (k :: st')); assumption. }
        destruct (page_describes k (page_at (t_pages t) (e_off e) (e_size e))).
        -- apply IH. apply Hm. intros a Ha. apply in_app_or in Ha. destruct Ha as [Ha | [<- | []]]; simpl; auto.
        -- cbn [fst]. eapply inv_root; exact Hinv.
    + destruct (e_cnt e >=? gen_node_min_count); [|apply IH; exact Hinv'].
      apply IH. destruct Hinv as [A [B C]]. split; [exact A|]. split; [exact B|].
      intros a Ha. apply in_app_or in Ha. destruct Ha as [Ha | Ha].
      * right. apply in_rev in Ha. apply in_children_parent in Ha. destruct Ha as [Hp _]. rewrite Hp.
        unfold vis_res. rewrite Ee, Er. reflexivity.
      * apply C. simpl; auto.
Qed.

(* the fuel of a fresh reader suffices from every cache *)
Lemma fuel_from_cache : forall h, incl h (all_entries t) -> (phi t h [root_key] <= fuel_bound t)%nat.
Proof.
  intros h _.
  assert (H0 : phi t h [root_key] = (cost t h root_key + 0)%nat) by reflexivity.
  pose proof (cost_le_W t h root_key) as H1.
  pose proof (W_le_enum t (idx t root_key) root_key) as H2.
  pose proof (weight_sum_le t (enum (idx t root_key) root_key) (NoDup_enum _ _)) as H3.
  unfold fuel_bound. lia.
Qed.

Lemma traverse_from_cache : forall g ob lv h, 0 <= g_side g -> inv t h [root_key] ->
  exists ns, traverse (fuel_bound t) t g ob lv h [root_key] [] = Ok ns /\ Permutation ns (target t g ob lv).
Proof.
  intros g ob lv h Hs Hinv.
  assert (Hne : traverse (fuel_bound t) t g ob lv h [root_key] [] <> Err EFuel).
  { apply traverse_fuel; [destruct Hinv as [A _]; exact A | apply fuel_from_cache; destruct Hinv as [A _]; exact A]. }
  destruct (traverse_wf t g ob lv WF (fuel_bound t) h [root_key] [] Hinv) as [Hx | [ns [Hns Hp]]]; [contradiction|].
  exists ns. split; [exact Hns|]. eapply Permutation_trans; [exact Hp|].
  cbn [rev app flat_map]. rewrite app_nil_r. apply F_root_target; assumption.
Qed.

End Reader.

Lemma fetch_target : forall pts ns tg, Permutation ns tg -> Permutation (fetch pts ns) (flat_map pts tg).
Proof.
  intros pts ns tg Hp. unfold fetch. rewrite <- flat_map_concat_map. apply Permutation_flat_map.
  eapply Permutation_trans; [apply sort_off_perm | exact Hp].
Qed.

Lemma result_of_perm : forall qb q a b, Permutation a b -> Permutation (result_of qb q a) (result_of qb q b).
Proof. intros qb q a b H. unfold result_of. destruct qb; [exact H | |]; apply Permutation_filter'; exact H. Qed.

(* one query of a reader whose cache is sound: the cache stays sound, the outcome is the fault or the fresh answer *)
Lemma query_rd_spec : forall f h q, wf_tree (f_tree f) -> 0 <= g_side (f_geom f) -> inv (f_tree f) h [root_key] ->
  inv (f_tree f) (fst (query_rd f h q)) [root_key] /\ step_ok f q (snd (query_rd f h q)).
Proof.
  intros f h q WF Hs Hinv. unfold query_rd.
  set (ob := ensure_3d (r_box q) (f_hz0 f) (f_hz1 f)). set (lv := level_range (r_lv q)).
  pose proof (rd_cache (f_tree f) WF (f_geom f) ob lv (fuel_bound (f_tree f)) (r_fault q) h [root_key] [] Hinv) as Hc.
  pose proof (rd_outcome (f_tree f) (f_geom f) ob lv (fuel_bound (f_tree f)) (r_fault q) h [root_key] []) as Ho.
  destruct (traverse_from_cache (f_tree f) WF (f_geom f) ob lv h Hs Hinv) as [ns [Hns Hp]].
  destruct (traverse_rd (fuel_bound (f_tree f)) (f_tree f) (f_geom f) ob lv (r_fault q) h [root_key] []) as [[h' fl] o].
  cbn [fst snd] in Hc, Ho.
  destruct Ho as [[Ho Hf] | [Ho Hf]].
  - subst o. cbn [fst snd]. split; [exact Hc|]. left. split; [reflexivity | exact Hf].
  - subst o. rewrite Hns. cbn [fst snd]. split; [exact Hc|].
    assert (Hans : Permutation (result_of (r_box q) (r_grid q) (fetch (f_pts f) ns)) (answer_of f q)).
    { unfold answer_of. apply result_of_perm. apply fetch_target. exact Hp. }
    destruct fl as [n|].
    + destruct (n <? n_fetches ns)%nat.
      * left. split; [reflexivity|]. apply Hf. discriminate.
      * right. eexists. split; [reflexivity | exact Hans].
    + right. eexists. split; [reflexivity | exact Hans].
Qed.

Lemma reader_session_spec : forall f qs h, wf_tree (f_tree f) -> 0 <= g_side (f_geom f) -> inv (f_tree f) h [root_key] ->
  Forall2 (step_ok f) qs (map snd (reader_session f h qs)).
Proof.
  intros f. induction qs as [|q r IH]; intros h WF Hs Hinv; cbn [reader_session map]; [constructor|].
  destruct (query_rd_spec f h q WF Hs Hinv) as [Hc Ho]. constructor; [exact Ho|]. apply IH; assumption.
Qed.

(* every history of queries on one reader, with any transient faults of the source at any reads *)
Theorem reader_session_ok : forall f qs, wf_tree (f_tree f) -> 0 <= g_side (f_geom f) ->
  Forall2 (step_ok f) qs (map snd (reader_session f (open_cache f) qs)).
Proof.
  intros f qs WF Hs. apply reader_session_spec; [exact WF | exact Hs|]. unfold open_cache. apply inv_init. exact WF.
Qed.

Lemma last_cons : forall {A} (l : list A) x d, last (x :: l) d = last l x.
Proof.
  intros A. induction l as [|y ys IH]; intros x d; [reflexivity|].
  change (last (x :: y :: ys) d) with (last (y :: ys) d). rewrite (IH y d), (IH y x). reflexivity.
Qed.

Lemma reader_session_app : forall f a b h,
  reader_session f h (a ++ b)
  = reader_session f h a ++ reader_session f (last (map fst (reader_session f h a)) h) b.
Proof.
  intros f. induction a as [|q r IH]; intros b h; [reflexivity|].
  cbn [app reader_session map]. rewrite IH, last_cons. reflexivity.
Qed.

Lemma query_rd_cache : forall f h q, wf_tree (f_tree f) -> inv (f_tree f) h [root_key] ->
  inv (f_tree f) (fst (query_rd f h q)) [root_key].
Proof.
  intros f h q WF Hinv.
  pose proof (rd_cache (f_tree f) WF (f_geom f) (ensure_3d (r_box q) (f_hz0 f) (f_hz1 f)) (level_range (r_lv q))
                (fuel_bound (f_tree f)) (r_fault q) h [root_key] [] Hinv) as Hc.
  unfold query_rd.
  destruct (traverse_rd (fuel_bound (f_tree f)) (f_tree f) (f_geom f) (ensure_3d (r_box q) (f_hz0 f) (f_hz1 f))
              (level_range (r_lv q)) (r_fault q) h [root_key] []) as [[h' fl] o].
  cbn [fst] in Hc. destruct o as [[ns|e]|]; exact Hc.
Qed.

Lemma session_cache_ok : forall f qs h, wf_tree (f_tree f) -> inv (f_tree f) h [root_key] ->
  inv (f_tree f) (last (map fst (reader_session f h qs)) h) [root_key].
Proof.
  intros f. induction qs as [|q r IH]; intros h WF Hinv; [exact Hinv|].
  cbn [reader_session map]. rewrite last_cons. apply IH; [exact WF|]. apply query_rd_cache; assumption.
Qed.

(* after ANY history - queries that succeeded, queries aborted by faults at any read - a query without a fault returns
   what the same query returns on a fresh reader (`query`), as a multiset *)
Theorem reader_equals_fresh : forall f qs q, wf_tree (f_tree f) -> 0 <= g_side (f_geom f) -> r_fault q = None ->
  exists ps ps',
    last (map snd (reader_session f (open_cache f) (qs ++ [q]))) IOFault = Ans (Ok ps)
    /\ query (fuel_bound (f_tree f)) (f_tree f) (f_geom f) (r_box q) (f_hz0 f) (f_hz1 f) (r_grid q) (r_lv q) (f_pts f) = Ok ps'
    /\ Permutation ps ps'.
Proof.
  intros f qs q WF Hs Hnf.
  rewrite reader_session_app, map_app. cbn [reader_session map].
  set (h := last (map fst (reader_session f (open_cache f) qs)) (open_cache f)).
  assert (Hinv : inv (f_tree f) h [root_key]).
  { apply session_cache_ok; [exact WF|]. unfold open_cache. apply inv_init. exact WF. }
  destruct (query_rd_spec f h q WF Hs Hinv) as [_ Ho].
  assert (Hl : forall (l : list (outcome (list pt))) x d, last (l ++ [x]) d = x).
  { induction l as [|y ys IHl]; intros x d; [reflexivity|]. cbn [app last].
    destruct (ys ++ [x]) eqn:Ey; [destruct ys; discriminate|]. rewrite <- Ey. apply IHl. }
  rewrite Hl.
  destruct Ho as [[_ Hf] | [ps [Hps Hp]]]; [contradiction|].
  destruct (query_points (f_tree f) (f_geom f) (r_box q) (f_hz0 f) (f_hz1 f) (r_grid q) (r_lv q) (f_pts f)
              (fuel_bound (f_tree f)) WF Hs (le_n _)) as [ps' [Hq Hp']].
  exists ps, ps'. split; [exact Hps|]. split; [exact Hq|].
  eapply Permutation_trans; [exact Hp|]. apply Permutation_sym. exact Hp'.
Qed.

(* an aborted query keeps the pages it had loaded and nothing else: a fault before the first page leaves the cache as
   it was *)
Theorem fault_at_first_read : forall fuel t g ob lv h k st acc e,
  in_bounds g ob k = true -> below_stop lv k = true -> lookup k h = Some e -> is_ref e = true ->
  traverse_rd (S fuel) t g ob lv (Some O) h (k :: st) acc = ((h, None), IOFault).
Proof.
  intros fuel t g ob lv h k st acc e Hb Hs Hl Hr. cbn [traverse_rd]. rewrite Hb, Hs, Hl, Hr. reflexivity.
Qed.

(* a query that is refused (broken page reference) leaves the cache as it had reached it: nothing of the refused page is
   taken over *)
Theorem refused_keeps_cache : forall fuel t g ob lv fault h k st acc e,
  in_bounds g ob k = true -> below_stop lv k = true -> lookup k h = Some e -> is_ref e = true ->
  fails_now fault = false -> page_describes k (page_at (t_pages t) (e_off e) (e_size e)) = false ->
  traverse_rd (S fuel) t g ob lv fault h (k :: st) acc = ((h, tick fault), Ans (Err ELaspy)).
Proof.
  intros fuel t g ob lv fault h k st acc e Hb Hs Hl Hr Hf Hd. cbn [traverse_rd]. rewrite Hb, Hs, Hl, Hr, Hf, Hd. reflexivity.
Qed.

(* ... so a reader whose root reference is broken refuses every query that reaches it, however often it is asked *)
Lemma query_rd_refused_root : forall f h q e, reaches_root f q ->
  lookup root_key h = Some e -> is_ref e = true ->
  page_describes root_key (page_at (t_pages (f_tree f)) (e_off e) (e_size e)) = false ->
  query_rd f h q = (h, Ans (Err ELaspy)).
Proof.
  intros f h q e [Hb [Hs Hf]] Hl Hr Hd. unfold query_rd.
  assert (Hfu : exists n, fuel_bound (f_tree f) = S n).
  { unfold fuel_bound. exists (n_refs (f_tree f) + 8 * n_nodes (f_tree f))%nat. lia. }
  destruct Hfu as [n Hn]. rewrite Hn, Hf.
  rewrite (refused_keeps_cache n (f_tree f) (f_geom f) _ _ None h root_key [] [] e Hb Hs Hl Hr eq_refl Hd). reflexivity.
Qed.

Theorem refused_forever : forall f qs h e, Forall (reaches_root f) qs ->
  lookup root_key h = Some e -> is_ref e = true ->
  page_describes root_key (page_at (t_pages (f_tree f)) (e_off e) (e_size e)) = false ->
  Forall (fun ho => ho = (h, Ans (Err ELaspy))) (reader_session f h qs).
Proof.
  intros f. induction qs as [|q r IH]; intros h e Hq Hl Hr Hd; cbn [reader_session]; [constructor|].
  inversion Hq as [|q' r' Hq1 Hq2]; subst.
  rewrite (query_rd_refused_root f h q e Hq1 Hl Hr Hd). cbn [fst]. constructor; [reflexivity|].
  apply (IH h e); assumption.
Qed.
