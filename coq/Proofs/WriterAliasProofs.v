(* Proofs about the aliasing model of a writer session (Model/WriterAlias.v). *)
From Coq Require Import String.
From Coq Require Import ZArith List Bool Lia ZifyBool.
From LasV Require Import Lib.Base Lib.BaseFacts Lib.Layout Gen.GenHeaderLayout Gen.GenDims
  Model.Las Model.LasSpec Proofs.HeaderLen Proofs.WriterProofs Model.WriterAlias.
Import ListNotations.
Open Scope list_scope.
Open Scope Z_scope.

(* ------------------------------------------------------------------------------------ *)
(* a refused call leaves the writer exactly as it was                                    *)
(* ------------------------------------------------------------------------------------ *)
Lemma wstep_err_unchanged ap s op e : snd (wstep ap s op) = Err e -> fst (wstep ap s op) = s.
Proof.
  destruct op as [recs same| l |]; unfold wstep.
  - destruct recs as [|r recs]; [discriminate|].
    destruct (w_done s); [reflexivity|]. destruct (negb same); [reflexivity|].
    destruct (_ <? _); [reflexivity|]. discriminate.
  - destruct (_ <? 4); [reflexivity|]. destruct l as [|v l]; [discriminate|].
    destruct (enc_vlrs true (v :: l)); [discriminate|reflexivity].
  - destruct (enc_header _ _ true) as [hb|e']; [discriminate|reflexivity].
Qed.

Theorem refusals_leave_no_trace : forall ap ops s,
  fst (wrun ap s ops) = fst (wrun ap s (accepted_wops ap s ops))
  /\ all_ok (snd (wrun ap s (accepted_wops ap s ops))).
Proof.
  intros ap ops. induction ops as [|o r IH]; intros s.
  - split; [reflexivity|constructor].
  - cbn [accepted_wops]. rewrite wrun_cons. cbn [fst snd].
    destruct (snd (wstep ap s o)) as [u|e] eqn:E; cbn [is_ok].
    + rewrite wrun_cons. cbn [fst snd]. destruct (IH (fst (wstep ap s o))) as [A B]. split; [exact A|].
      rewrite E. destruct u. constructor; [reflexivity|exact B].
    + rewrite (wstep_err_unchanged _ _ _ _ E). apply IH.
Qed.
Print Assumptions refusals_leave_no_trace.

(* ------------------------------------------------------------------------------------ *)
(* the session seen from the writer: the caller's edits never reach it                   *)
(* ------------------------------------------------------------------------------------ *)
Lemma sstate_eta st : mkSS (ss_c st) (ss_w st) (ss_d st) = st.
Proof. now destruct st. Qed.

Lemma plain_run_cons ap st op r :
  plain_run ap st (op :: r)
  = (fst (plain_run ap (fst (sstep ap st op)) r),
     match snd (sstep ap st op) with Some x => x :: snd (plain_run ap (fst (sstep ap st op)) r)
                                   | None => snd (plain_run ap (fst (sstep ap st op)) r) end).
Proof.
  cbn [plain_run]. destruct (sstep ap st op) as [st' o]. cbn [fst snd].
  destruct (plain_run ap st' r) as [st'' os]. reflexivity.
Qed.

Lemma on_writer_eq ap st o :
  on_writer ap st o = (mkSS (ss_c st) (fst (wstep ap (ss_w st) o)) (ss_d st), Some (snd (wstep ap (ss_w st) o))).
Proof. unfold on_writer. now destruct (wstep ap (ss_w st) o). Qed.

Theorem plain_run_resolve : forall ap ops st,
  plain_run ap st ops
  = (mkSS (fold_left apply_cedit (edits_of ops) (ss_c st))
          (fst (wrun ap (ss_w st) (resolve (ss_c st) (ss_d st) ops))) (ss_d st),
     snd (wrun ap (ss_w st) (resolve (ss_c st) (ss_d st) ops))).
Proof.
  intros ap ops. induction ops as [|op r IH]; intros st.
  - cbn [plain_run edits_of resolve fold_left]. rewrite wrun_nil. cbn [fst snd]. now rewrite sstate_eta.
  - rewrite plain_run_cons.
    destruct op as [e|recs a|l| |]; cbn [sstep edits_of resolve fold_left]; rewrite ?on_writer_eq; cbn [fst snd];
      rewrite IH; cbn [fst snd ss_c ss_w ss_d]; rewrite ?wrun_cons; cbn [fst snd]; reflexivity.
Qed.
Print Assumptions plain_run_resolve.

(* writing never modifies the caller's objects: after the session they are what the caller's own edits made them *)
Theorem caller_untouched : forall ap ops st,
  ss_c (fst (plain_run ap st ops)) = fold_left apply_cedit (edits_of ops) (ss_c st)
  /\ ss_d (fst (plain_run ap st ops)) = ss_d st.
Proof. intros. rewrite plain_run_resolve. split; reflexivity. Qed.
Print Assumptions caller_untouched.

(* ------------------------------------------------------------------------------------ *)
(* edits that do not touch the format objects of the chunks can be erased                *)
(* ------------------------------------------------------------------------------------ *)
Lemma nth_error_set_nth_other {A} (x : A) : forall l a b, a <> b -> nth_error (set_nth a x l) b = nth_error l b.
Proof.
  induction l as [|y l IH]; intros a b Hab; [now destruct a|].
  destruct a as [|a], b as [|b]; cbn [set_nth nth_error]; try reflexivity; try congruence.
  apply IH. congruence.
Qed.

Lemma nth_error_set_nth_same {A} (x : A) : forall l a, (a < length l)%nat -> nth_error (set_nth a x l) a = Some x.
Proof.
  induction l as [|y l IH]; intros a Ha; cbn [length] in Ha; [lia|].
  destruct a as [|a]; cbn [set_nth nth_error]; [reflexivity|]. apply IH. lia.
Qed.

Lemma nth_error_set_nth_out {A} (x : A) : forall l a, (length l <= a)%nat -> nth_error (set_nth a x l) a = None.
Proof.
  induction l as [|y l IH]; intros a Ha; cbn [length] in Ha.
  - cbn [set_nth]. now destruct a.
  - destruct a as [|a]; [lia|]. cbn [set_nth nth_error]. apply IH. lia.
Qed.

Definition agree_on (addrs : list nat) (c c' : cworld) : Prop := forall a, In a addrs -> fmt_at c a = fmt_at c' a.

Lemma existsb_eqb_false a addrs : existsb (Nat.eqb a) addrs = false -> forall b, In b addrs -> a <> b.
Proof.
  intros H b Hb Eq. subst b. assert (existsb (Nat.eqb a) addrs = true) as T.
  { apply existsb_exists. exists a. split; [exact Hb|apply Nat.eqb_refl]. }
  congruence.
Qed.

Lemma avoided_edit_agrees addrs c e : edit_avoids addrs e = true -> agree_on addrs (apply_cedit c e) c.
Proof.
  intros H a Ha. destruct e as [n v|l|a' d|a']; cbn [apply_cedit]; unfold fmt_at; cbn [cw_fmts]; try reflexivity.
  cbn [edit_avoids] in H. apply negb_true_iff in H.
  apply nth_error_set_nth_other. exact (existsb_eqb_false _ _ H a Ha).
Qed.

Lemma resolve_strip_gen d : forall ops addrs c c',
  (forall a, In a (chunk_addrs ops) -> In a addrs) -> agree_on addrs c c' ->
  forallb (edit_avoids addrs) (edits_of ops) = true ->
  resolve c d ops = resolve c' d (strip_edits ops).
Proof.
  induction ops as [|op r IH]; intros addrs c c' Hin Hag Hav; [reflexivity|].
  destruct op as [e|recs a|l| |]; cbn [resolve strip_edits edits_of chunk_addrs forallb] in *.
  - apply andb_true_iff in Hav as [He Hr]. apply (IH addrs); [exact Hin| |exact Hr].
    intros a Ha. rewrite (avoided_edit_agrees addrs c e He a Ha). now apply Hag.
  - f_equal.
    + f_equal. unfold chunk_same. rewrite (Hag a); [reflexivity|]. apply Hin. now left.
    + apply (IH addrs); [|exact Hag|exact Hav]. intros b Hb. apply Hin. now right.
  - f_equal. now apply (IH addrs).
  - f_equal. now apply (IH addrs).
  - now apply (IH addrs).
Qed.

Lemma strip_edits_no_edits ops : edits_of (strip_edits ops) = [].
Proof. induction ops as [|op r IH]; [reflexivity|]. destruct op; cbn [strip_edits edits_of]; exact IH. Qed.

(* THE ERASURE THEOREM: the file (the whole writer state) and the outcomes of a session interleaved with any caller edits
   - header fields, VLR list, global encoding, re-binding, in-place changes of format objects other than those the
   session's chunks are built on - are those of the session without the edits *)
Theorem caller_edits_irrelevant : forall ap ops st,
  forallb (edit_avoids (chunk_addrs ops)) (edits_of ops) = true ->
  ss_w (fst (plain_run ap st ops)) = ss_w (fst (plain_run ap st (strip_edits ops)))
  /\ snd (plain_run ap st ops) = snd (plain_run ap st (strip_edits ops)).
Proof.
  intros ap ops st H. rewrite !plain_run_resolve. cbn [fst snd ss_w].
  rewrite (resolve_strip_gen (ss_d st) ops (chunk_addrs ops) (ss_c st) (ss_c st)); auto.
  intros a _. reflexivity.
Qed.
Print Assumptions caller_edits_irrelevant.

(* composed with the refinement theorem of the writer: whatever the caller does meanwhile, an accepted session writes
   the one-shot file of the header AS IT WAS WHEN THE WRITER WAS OPENED *)
Theorem session_writes_header_at_open : forall ap, ap_ok ap -> forall c d st0 ops chunks evl st outs,
  fmt_at c (cw_hfmt c) = Some d ->
  sopen c = Ok st0 ->
  resolve c d ops = chunk_ops chunks evl ->
  plain_run ap st0 ops = (st, outs) ->
  all_ok outs ->
  file_of ap (hdr_of (cw_h c) d) (cw_vlrs c) (fd_id d) (concat chunks) evl = Ok (w_file (ss_w st)).
Proof.
  intros ap Hap c d st0 ops chunks evl st outs Hd Hopen Hres Hrun Hok.
  unfold sopen in Hopen. rewrite Hd in Hopen.
  destruct (wopen (hdr_of (cw_h c) d) (cw_vlrs c) (fd_id d)) as [w0|e] eqn:Ew; [|discriminate].
  cbn [bind] in Hopen. injection Hopen as <-.
  rewrite plain_run_resolve in Hrun. cbn [ss_c ss_w ss_d] in Hrun. rewrite Hres in Hrun.
  injection Hrun as <- <-. cbn [ss_w].
  apply (writer_refines ap Hap _ _ _ _ _ w0 _ (snd (wrun ap w0 (chunk_ops chunks evl))) Ew); [|exact Hok].
  now destruct (wrun ap w0 (chunk_ops chunks evl)).
Qed.
Print Assumptions session_writes_header_at_open.

(* ------------------------------------------------------------------------------------ *)
(* the format check is by value, at the time of the call                                 *)
(* ------------------------------------------------------------------------------------ *)
Theorem differing_format_refused : forall ap st recs a, recs <> [] ->
  chunk_same (ss_c st) (ss_d st) a = false ->
  sstep ap st (SChunk recs a) = (st, Some (Err ELaspy)).
Proof.
  intros ap st recs a Hr Hs. cbn [sstep]. unfold on_writer. rewrite Hs, write_wrong_format by exact Hr.
  now rewrite sstate_eta.
Qed.
Print Assumptions differing_format_refused.

(* the same OBJECT as an accepted chunk's, changed in place since: refused, whatever happened before *)
Theorem mutated_format_object_refused : forall ap st a d' recs, recs <> [] ->
  fdesc_eqb d' (ss_d st) = false ->
  let st1 := fst (sstep ap st (SEdit (CFmt a d'))) in
  sstep ap st1 (SChunk recs a) = (st1, Some (Err ELaspy)).
Proof.
  intros ap st a d' recs Hr Hne st1. apply differing_format_refused; [exact Hr|].
  unfold st1. cbn [sstep fst ss_c ss_d apply_cedit]. unfold chunk_same, fmt_at. cbn [cw_fmts].
  destruct (Nat.lt_ge_cases a (length (cw_fmts (ss_c st)))) as [Hlt|Hge].
  - now rewrite nth_error_set_nth_same.
  - now rewrite nth_error_set_nth_out.
Qed.
Print Assumptions mutated_format_object_refused.

(* an equal value is accepted exactly as the writer's own format would be: object identity plays no part *)
Theorem equal_format_value_accepted : forall ap st recs a x,
  fmt_at (ss_c st) a = Some x -> fdesc_eqb x (ss_d st) = true ->
  sstep ap st (SChunk recs a)
  = (mkSS (ss_c st) (fst (wstep ap (ss_w st) (WPoints recs true))) (ss_d st), Some (snd (wstep ap (ss_w st) (WPoints recs true)))).
Proof.
  intros ap st recs a x Hx He. cbn [sstep]. unfold on_writer, chunk_same. rewrite Hx, He.
  now destruct (wstep ap (ss_w st) (WPoints recs true)).
Qed.
Print Assumptions equal_format_value_accepted.

(* ------------------------------------------------------------------------------------ *)
(* a with-block left by an exception                                                     *)
(* ------------------------------------------------------------------------------------ *)
Lemma with_body_executed : forall ap ops st,
  with_body ap st ops = plain_run ap st (executed ap st ops).
Proof.
  intros ap ops. induction ops as [|op r IH]; intros st; [reflexivity|].
  destruct op as [e|recs a|l| |]; try reflexivity;
    cbn [with_body executed];
    match goal with |- context [sstep ap st ?o] => destruct (sstep ap st o) as [st' [[u|er]|]] eqn:E end;
    cbn [plain_run]; rewrite ?E; try rewrite IH; try reflexivity.
  all: try (destruct (plain_run ap st' (executed ap st' r)); reflexivity).
Qed.

(* the file after `with writer: ops` left by the first refused call (or by the caller's own exception) is the file of the
   ACCEPTED calls followed by close: what was refused - and everything the caller did to its own objects - left no trace *)
Theorem with_block_left_by_exception : forall ap st ops,
  let pre := resolve (ss_c st) (ss_d st) (executed ap st ops) in
  ss_w (fst (fst (with_run ap st ops)))
  = fst (wrun ap (ss_w st) (accepted_wops ap (ss_w st) pre ++ [WClose])).
Proof.
  intros ap st ops pre. unfold with_run. rewrite with_body_executed, plain_run_resolve. fold pre.
  cbn [ss_w ss_c ss_d].
  destruct (wstep ap (fst (wrun ap (ss_w st) pre)) WClose) as [w' r] eqn:E. cbn [fst ss_w].
  rewrite wrun_app, wrun_cons, wrun_nil. cbn [fst].
  destruct (refusals_leave_no_trace ap pre (ss_w st)) as [A _]. rewrite <- A, E. reflexivity.
Qed.
Print Assumptions with_block_left_by_exception.
