(* C15 — resolution -> levels, broken page references, grouping of contiguous chunks.
   (keys: CopcKeys, dictionary: CopcDict, termination: CopcTerm, nodes: CopcNodes, points: CopcPoints) *)
From Coq Require Import String.
From Coq Require Import ZArith List Bool Lia ZifyBool Arith Permutation Sorted.
From LasV Require Import Lib.Base Gen.GenCopc Model.Copc Proofs.CopcKeys Proofs.CopcDict Proofs.CopcTerm Proofs.CopcNodes Proofs.CopcPoints.
Import ListNotations.
Open Scope list_scope.
Open Scope Z_scope.

(* ---------- resolution ---------- *)
Lemma cdiv_spec : forall n m, 0 < m -> m * (cdiv n m - 1) < n <= m * cdiv n m.
Proof.
  intros n m Hm. unfold cdiv.
  pose proof (Z.mul_div_le (- n) m Hm). pose proof (Z.mul_succ_div_gt (- n) m Hm). lia.
Qed.

Lemma res_level_spec : forall sn sd rn rd, 0 < sn -> 0 < sd -> 0 < rn -> 0 < rd ->
  let L := res_level sn sd rn rd in
  0 <= L /\ sn * rd <= rn * sd * 2 ^ L /\ (forall L', 0 <= L' < L -> rn * sd * 2 ^ L' < sn * rd).
Proof.
  intros sn sd rn rd Hsn Hsd Hrn Hrd. unfold res_level.
  assert (HN : 0 < sn * rd) by (apply Z.mul_pos_pos; assumption).
  assert (HM : 0 < rn * sd) by (apply Z.mul_pos_pos; assumption).
  set (N := sn * rd) in *. set (M := rn * sd) in *.
  destruct (N <=? M) eqn:E.
  - cbn zeta. split; [lia|]. split; [change (2 ^ 0) with 1; lia | intros L' HL'; lia].
  - cbn zeta. pose proof (cdiv_spec N M HM) as [C1 C2]. set (cc := cdiv N M) in *.
    assert (Hc : 1 < cc).
    { destruct (Z_lt_le_dec 1 cc) as [H | H]; [exact H|]. exfalso.
      assert (M * cc <= M * 1) by (apply Z.mul_le_mono_nonneg_l; lia). lia. }
    pose proof (Z.log2_up_spec cc Hc) as [S1 S2].
    pose proof (Z.log2_up_nonneg cc) as Hnn.
    split; [exact Hnn|]. split.
    + assert (M * cc <= M * 2 ^ Z.log2_up cc) by (apply Z.mul_le_mono_nonneg_l; lia). lia.
    + intros L' HL'.
      assert (P1 : 2 ^ L' <= 2 ^ Z.pred (Z.log2_up cc)) by (apply Z.pow_le_mono_r; lia).
      assert (P2 : M * 2 ^ L' <= M * (cc - 1)) by (apply Z.mul_le_mono_nonneg_l; lia). lia.
Qed.

(* the levels a resolution selects are exactly 0 .. L *)
Theorem resolution_levels : forall sn sd rn rd l, 0 < sn -> 0 < sd -> 0 < rn -> 0 < rd ->
  in_level (level_range (LvRes sn sd rn rd)) (mkKey l 0 0 0) = true <-> 0 <= l <= res_level sn sd rn rd.
Proof.
  intros sn sd rn rd l Hsn Hsd Hrn Hrd. destruct (res_level_spec sn sd rn rd Hsn Hsd Hrn Hrd) as [HL _].
  cbn [level_range in_level kl]. lia.
Qed.


Lemma in_level_key : forall lv k, in_level lv k = in_level lv (mkKey (kl k) 0 0 0).
Proof. intros lv k. reflexivity. Qed.

Theorem resolution_spec : forall sn sd rn rd, 0 < sn -> 0 < sd -> 0 < rn -> 0 < rd ->
  let L := res_level sn sd rn rd in
  (0 <= L /\ sn * rd <= rn * sd * 2 ^ L /\ (forall L', 0 <= L' < L -> rn * sd * 2 ^ L' < sn * rd))
  /\ (forall k, in_level (level_range (LvRes sn sd rn rd)) k = true <-> 0 <= kl k <= L).
Proof.
  intros sn sd rn rd H1 H2 H3 H4. split; [exact (res_level_spec sn sd rn rd H1 H2 H3 H4)|].
  intros k. rewrite in_level_key. exact (resolution_levels sn sd rn rd (kl k) H1 H2 H3 H4).
Qed.

(* ---------- broken page references ---------- *)
Theorem broken_reference : forall fuel t g ob lv h k st acc e,
  in_bounds g ob k = true -> below_stop lv k = true ->
  lookup k h = Some e -> is_ref e = true ->
  (forall e', lookup k (page_dict (page_at (t_pages t) (e_off e) (e_size e))) = Some e' -> is_ref e' = true) ->
  traverse (S fuel) t g ob lv h (k :: st) acc = Err ELaspy.
Proof.
  intros fuel t g ob lv h k st acc e Hb Hs Hl Hr Hp. cbn [traverse]. rewrite Hb, Hs, Hl, Hr. cbn [negb].
  unfold page_describes.
  destruct (lookup k (page_dict (page_at (t_pages t) (e_off e) (e_size e)))) as [e'|] eqn:E'.
  - rewrite (Hp e' eq_refl). reflexivity.
  - reflexivity.
Qed.

Theorem broken_root_reference : forall fuel t g ob lv e,
  in_bounds g ob root_key = true -> below_stop lv root_key = true ->
  lookup root_key (page_dict (t_root t)) = Some e -> is_ref e = true ->
  (forall e', lookup root_key (page_dict (page_at (t_pages t) (e_off e) (e_size e))) = Some e' -> is_ref e' = true) ->
  load_octree (S fuel) t g ob lv = Err ELaspy.
Proof. intros. unfold load_octree. eapply broken_reference; eauto. Qed.

(* an empty interior node (count 0) does not hide its descendants: one step of the traversal *)
Theorem empty_node_expands : forall fuel t g ob lv h k st acc e,
  in_bounds g ob k = true -> below_stop lv k = true -> lookup k h = Some e -> e_cnt e = 0 ->
  traverse (S fuel) t g ob lv h (k :: st) acc =
  traverse fuel t g ob lv h (rev (children k) ++ st) (if in_level lv k then e :: acc else acc).
Proof.
  intros fuel t g ob lv h k st acc e Hb Hs Hl Hc. cbn [traverse]. rewrite Hb, Hs, Hl. cbn [negb].
  unfold is_ref. rewrite Hc. reflexivity.
Qed.

(* ---------- grouping of contiguous chunks ---------- *)
Section Grouping.
Context {A : Type}.
Variable dec : list Z -> Z -> list A.
Variable file : list Z.

Fixpoint dec_run (off : Z) (tb : list (Z * Z)) : list A :=
  match tb with
  | [] => []
  | (cnt, size) :: r => dec (read_range file off size) cnt ++ dec_run (off + size) r
  end.

Lemma sum_sizes_cons : forall c s r, sum_sizes ((c, s) :: r) = s + sum_sizes r.
Proof. reflexivity. Qed.
Lemma sum_sizes_nil : sum_sizes [] = 0.
Proof. reflexivity. Qed.

Lemma sum_sizes_app : forall a b, sum_sizes (a ++ b) = sum_sizes a + sum_sizes b.
Proof.
  induction a as [|[c s] a IH]; intros b; cbn [app]; [rewrite sum_sizes_nil; lia|].
  rewrite !sum_sizes_cons, IH. lia.
Qed.

Lemma dec_run_app : forall a b off, dec_run off (a ++ b) = dec_run off a ++ dec_run (off + sum_sizes a) b.
Proof.
  induction a as [|[c s] a IH]; intros b off; cbn [dec_run app].
  - rewrite sum_sizes_nil, Z.add_0_r. reflexivity.
  - rewrite IH, <- app_assoc. f_equal. f_equal. f_equal. rewrite sum_sizes_cons. lia.
Qed.

Definition tb_ok (tb : list (Z * Z)) : Prop := Forall (fun cs => 0 <= snd cs) tb.

Lemma sum_sizes_nonneg : forall tb, tb_ok tb -> 0 <= sum_sizes tb.
Proof.
  induction tb as [|[c s] r IH]; intros H; [rewrite sum_sizes_nil; lia|]. rewrite sum_sizes_cons.
  inversion H as [|? ? H1 H2]; subst. cbn [snd] in H1. specialize (IH H2). lia.
Qed.

Lemma skipn_skipn' : forall {B} (a b : nat) (l : list B), skipn a (skipn b l) = skipn (b + a) l.
Proof.
  intros B a b. induction b as [|b IH]; intros l; [reflexivity|].
  destruct l as [|x l]; [cbn [skipn plus]; apply skipn_nil | cbn [skipn plus]; apply IH].
Qed.

Lemma take_read_range : forall off s rest, 0 <= s -> 0 <= rest ->
  take s (read_range file off (s + rest)) = read_range file off s.
Proof.
  intros off s rest Hs Hr. unfold read_range, take. rewrite firstn_firstn. f_equal. lia.
Qed.

Lemma drop_read_range : forall off s rest, 0 <= off -> 0 <= s -> 0 <= rest ->
  drop s (read_range file off (s + rest)) = read_range file (off + s) rest.
Proof.
  intros off s rest Ho Hs Hr. unfold read_range, take, drop.
  rewrite Z2Nat.inj_add by lia. rewrite skipn_firstn_comm.
  replace (Z.to_nat s + Z.to_nat rest - Z.to_nat s)%nat with (Z.to_nat rest) by lia.
  rewrite skipn_skipn'. f_equal. f_equal. lia.
Qed.

(* one fetched range, cut by the table's sizes *)
Lemma dec_table_range : forall tb off, 0 <= off -> tb_ok tb ->
  dec_table dec (read_range file off (sum_sizes tb)) tb = dec_run off tb.
Proof.
  induction tb as [|[c s] r IH]; intros off Ho Hok; [reflexivity|].
  inversion Hok as [|? ? H1 H2]; subst. cbn [snd] in H1. pose proof (sum_sizes_nonneg r H2) as Hr.
  cbn [dec_table dec_run]. rewrite sum_sizes_cons.
  rewrite take_read_range, drop_read_range by lia. rewrite IH by (try lia; assumption). reflexivity.
Qed.

Lemma len_read_range : forall off s, 0 <= off -> 0 <= s -> off + s <= len file -> len (read_range file off s) = s.
Proof.
  intros off s Ho Hs H. unfold read_range, take, drop, len in *. rewrite firstn_length, skipn_length. lia.
Qed.

Lemma dec_table_app : forall t1 t2 b1 b2, tb_ok t1 -> len b1 = sum_sizes t1 ->
  dec_table dec (b1 ++ b2) (t1 ++ t2) = dec_table dec b1 t1 ++ dec_table dec b2 t2.
Proof.
  induction t1 as [|[c s] r IH]; intros t2 b1 b2 Hok Hlen.
  - rewrite sum_sizes_nil in Hlen. destruct b1; [reflexivity | unfold len in Hlen; simpl in Hlen; lia].
  - inversion Hok as [|? ? H1 H2]; subst. cbn [snd] in H1. pose proof (sum_sizes_nonneg r H2) as Hr.
    rewrite sum_sizes_cons in Hlen.
    cbn [dec_table app]. unfold take, drop in *. unfold len in Hlen.
    assert (Hl : (Z.to_nat s <= length b1)%nat) by lia.
    rewrite firstn_app, skipn_app.
    replace (Z.to_nat s - length b1)%nat with 0%nat by lia. cbn [firstn skipn]. rewrite app_nil_r.
    rewrite IH; [rewrite app_assoc; reflexivity | exact H2 |].
    unfold len. rewrite skipn_length. lia.
Qed.

Definition group_ok (gr : Z * list (Z * Z)) : Prop :=
  0 <= fst gr /\ tb_ok (snd gr) /\ fst gr + sum_sizes (snd gr) <= len file.

Lemma fetch_groups : forall gs, Forall group_ok gs ->
  dec_table dec (fetch_bytes file (byte_queries gs)) (chunk_table gs) = flat_map (fun gr => dec_run (fst gr) (snd gr)) gs.
Proof.
  induction gs as [|[off tb] gs IH]; intros H; [reflexivity|].
  inversion H as [|? ? [H1 [H2 H3]] H4]; subst. cbn [fst snd] in *.
  unfold fetch_bytes, byte_queries, chunk_table in *. cbn [map concat flat_map fst snd].
  rewrite dec_table_app; [| exact H2 | apply len_read_range; [lia | apply sum_sizes_nonneg; exact H2 | lia]].
  rewrite dec_table_range by assumption. rewrite IH by exact H4. reflexivity.
Qed.

Lemma group_from_dec : forall ns cur_off cur last_end, last_end = cur_off + sum_sizes (rev cur) ->
  flat_map (fun gr => dec_run (fst gr) (snd gr)) (group_from cur_off cur last_end ns)
  = dec_run cur_off (rev cur) ++ flat_map (node_dec dec file) ns.
Proof.
  induction ns as [|n r IH]; intros cur_off cur last_end Hle; cbn [group_from flat_map].
  - rewrite app_nil_r. destruct cur as [|x cur']; [reflexivity|]. cbn [flat_map fst snd]. rewrite app_nil_r. reflexivity.
  - destruct (e_off n =? last_end) eqn:Eo.
    + rewrite IH.
      2:{ cbn [rev]. rewrite sum_sizes_app, sum_sizes_cons, sum_sizes_nil. lia. }
      cbn [rev]. rewrite dec_run_app, <- app_assoc. f_equal. cbn [dec_run]. rewrite app_nil_r.
      unfold node_dec. f_equal. f_equal. f_equal. lia.
    + cbn [flat_map fst snd]. rewrite IH.
      2:{ cbn [rev app]. rewrite sum_sizes_cons, sum_sizes_nil. lia. }
      f_equal. cbn [rev app dec_run]. rewrite app_nil_r. reflexivity.
Qed.

Lemma group_from_ok : forall ns cur_off cur last_end,
  last_end = cur_off + sum_sizes (rev cur) -> 0 <= cur_off -> tb_ok (rev cur) -> last_end <= len file ->
  Forall (node_in_file file) ns ->
  Forall group_ok (group_from cur_off cur last_end ns).
Proof.
  induction ns as [|n r IH]; intros cur_off cur last_end Hle Ho Hok Hlen Hns; cbn [group_from].
  - destruct cur as [|x cur']; [constructor|]. constructor; [|constructor].
    unfold group_ok. cbn [fst snd]. repeat split; [exact Ho | exact Hok | lia].
  - pose proof (Forall_inv Hns) as [N1 [N2 N3]]. pose proof (Forall_inv_tail Hns) as Hr.
    destruct (e_off n =? last_end) eqn:Eo.
    + apply IH; [cbn [rev]; rewrite sum_sizes_app, sum_sizes_cons, sum_sizes_nil; lia | exact Ho | | lia | exact Hr].
      cbn [rev]. apply Forall_app. split; [exact Hok | constructor; [cbn [snd]; exact N2 | constructor]].
    + constructor.
      * unfold group_ok. cbn [fst snd]. repeat split; [exact Ho | exact Hok | lia].
      * apply IH; [cbn [rev app]; rewrite sum_sizes_cons, sum_sizes_nil; lia | exact N1 | | lia | exact Hr].
        cbn [rev app]. constructor; [cbn [snd]; exact N2 | constructor].
Qed.

(* the concatenated fetched ranges with the explicit chunk table decode to the nodes' chunks, in the order given *)
Theorem grouping_correct : forall ns, Forall (node_in_file file) ns ->
  dec_table dec (fetch_bytes file (byte_queries (groups ns))) (chunk_table (groups ns))
  = flat_map (node_dec dec file) ns.
Proof.
  intros ns Hns. destruct ns as [|n r]; [reflexivity|]. unfold groups.
  inversion Hns as [|? ? [N1 [N2 N3]] Hr]; subst.
  rewrite fetch_groups.
  - rewrite group_from_dec by (cbn [rev]; rewrite sum_sizes_nil; lia). reflexivity.
  - apply group_from_ok; [cbn [rev]; rewrite sum_sizes_nil; lia | exact N1 | constructor | lia | exact Hns].
Qed.

Theorem fetch_and_decode_correct : forall ns, Forall (node_in_file file) ns ->
  fetch_and_decode dec file ns = flat_map (node_dec dec file) (sort_off ns).
Proof.
  intros ns Hns. unfold fetch_and_decode. apply grouping_correct.
  apply Forall_forall. intros n Hn. apply (Permutation_in _ (sort_off_perm ns)) in Hn.
  revert n Hn. apply Forall_forall. exact Hns.
Qed.

End Grouping.

(* the offsets of the fetched sequence ascend *)
Fixpoint ascending (l : list entry) : Prop :=
  match l with
  | [] => True
  | x :: r => (forall y, In y r -> e_off x <= e_off y) /\ ascending r
  end.

Lemma ins_off_in : forall n l x, In x (ins_off n l) -> x = n \/ In x l.
Proof. intros n l x H. apply (Permutation_in _ (ins_off_perm n l)) in H. simpl in H. intuition. Qed.

Lemma ins_off_asc : forall n l, ascending l -> ascending (ins_off n l).
Proof.
  intros n l. induction l as [|m r IH]; intros H; cbn [ins_off].
  - simpl. split; [intros y []|exact I].
  - destruct (e_off n <=? e_off m) eqn:E.
    + cbn [ascending]. split; [|exact H]. intros y [<- | Hy]; [lia|]. destruct H as [H1 _]. specialize (H1 y Hy). lia.
    + destruct H as [H1 H2]. cbn [ascending]. split; [|apply IH; exact H2].
      intros y Hy. apply ins_off_in in Hy. destruct Hy as [-> | Hy]; [lia | apply H1; exact Hy].
Qed.

Theorem sort_off_ascending : forall l, ascending (sort_off l).
Proof. induction l as [|x xs IH]; cbn [sort_off fold_right]; [exact I | apply ins_off_asc; exact IH]. Qed.

Theorem grouping_spec : forall (A : Type) (dec : list Z -> Z -> list A) file ns, Forall (node_in_file file) ns ->
  fetch_and_decode dec file ns = flat_map (node_dec dec file) (sort_off ns) /\ ascending (sort_off ns).
Proof. intros A dec file ns H. split; [exact (fetch_and_decode_correct dec file ns H) | exact (sort_off_ascending ns)]. Qed.

(* ---------- the fetch strategies: buffer filled in offset order (http queue) = buffer filled in request order ---------- *)
Definition q_le (a b : Z * Z) : Prop := fst a <= fst b.
Definition q_lt (a b : Z * Z) : Prop := fst a < fst b.

Lemma ins_q_perm : forall q l, Permutation (ins_q q l) (q :: l).
Proof.
  intros q l. induction l as [|m r IH]; cbn [ins_q]; [apply Permutation_refl|].
  destruct (fst q <=? fst m); [apply Permutation_refl|].
  eapply Permutation_trans; [apply perm_skip; exact IH | apply perm_swap].
Qed.

Lemma sort_q_perm : forall l, Permutation (sort_q l) l.
Proof.
  induction l as [|x xs IH]; cbn [sort_q fold_right]; [constructor|].
  eapply Permutation_trans; [apply ins_q_perm | apply perm_skip; exact IH].
Qed.

Lemma ins_q_sorted : forall q l, StronglySorted q_le l -> StronglySorted q_le (ins_q q l).
Proof.
  intros q l. induction l as [|m r IH]; intros H; cbn [ins_q].
  - constructor; constructor.
  - destruct (fst q <=? fst m) eqn:E.
    + constructor; [exact H|]. apply StronglySorted_inv in H. destruct H as [_ Hm].
      constructor; [unfold q_le; lia|].
      apply Forall_forall. intros y Hy. rewrite Forall_forall in Hm. specialize (Hm y Hy). unfold q_le in *. lia.
    + apply StronglySorted_inv in H. destruct H as [Hr Hm]. constructor; [apply IH; exact Hr|].
      apply Forall_forall. intros y Hy. apply (Permutation_in _ (ins_q_perm q r)) in Hy.
      destruct Hy as [<- | Hy]; [unfold q_le; lia|]. rewrite Forall_forall in Hm. apply Hm. exact Hy.
Qed.

Lemma sort_q_sorted : forall l, StronglySorted q_le (sort_q l).
Proof. induction l as [|x xs IH]; cbn [sort_q fold_right]; [constructor | apply ins_q_sorted; exact IH]. Qed.

(* a list sorted by offset that is a permutation of a list with strictly ascending offsets is that list *)
Lemma sorted_perm_unique : forall l1 l2, StronglySorted q_le l1 -> StronglySorted q_lt l2 -> Permutation l1 l2 -> l1 = l2.
Proof.
  induction l1 as [|a r1 IH]; intros l2 H1 H2 HP.
  - apply Permutation_nil in HP. subst. reflexivity.
  - destruct l2 as [|b r2]; [apply Permutation_sym, Permutation_nil in HP; discriminate|].
    apply StronglySorted_inv in H1. destruct H1 as [S1 F1]. apply StronglySorted_inv in H2. destruct H2 as [S2 F2].
    assert (Hab : a = b).
    { assert (Ha : In a (b :: r2)) by (apply (Permutation_in _ HP); left; reflexivity).
      assert (Hb : In b (a :: r1)) by (apply (Permutation_in _ (Permutation_sym HP)); left; reflexivity).
      destruct Ha as [Ha | Ha]; [symmetry; exact Ha|]. destruct Hb as [Hb | Hb]; [exact Hb|].
      rewrite Forall_forall in F1, F2. specialize (F1 b Hb). specialize (F2 a Ha). unfold q_le, q_lt in *. lia. }
    subst b. f_equal. apply IH; [exact S1 | exact S2 | exact (Permutation_cons_inv HP)].
Qed.

(* the first offsets of the groups ascend strictly when, in offset order, every chunk ends before the next begins *)
Lemma group_from_strict : forall ns cur_off cur last_end, apart ns -> cur_off <= last_end ->
  (forall n, In n ns -> last_end <= e_off n) ->
  Forall (fun gr => cur_off <= fst gr) (group_from cur_off cur last_end ns)
  /\ StronglySorted (fun a b : Z * list (Z * Z) => fst a < fst b) (group_from cur_off cur last_end ns).
Proof.
  induction ns as [|n r IH]; intros cur_off cur last_end Hap Hle Hall; cbn [group_from].
  - destruct cur as [|x cur']; [split; constructor|]. split; [constructor; [cbn [fst]; lia | constructor] | constructor; constructor].
  - cbn [apart] in Hap. destruct Hap as [Hs [Hnext Hr]].
    destruct (e_off n =? last_end) eqn:Eo.
    + apply Z.eqb_eq in Eo. apply IH; [exact Hr | lia |]. intros m Hm. specialize (Hnext m Hm). lia.
    + apply Z.eqb_neq in Eo. assert (Hn : last_end <= e_off n) by (apply Hall; left; reflexivity).
      destruct (IH (e_off n) [(e_cnt n, e_size n)] (e_off n + e_size n) Hr) as [F S]; [lia | intros m Hm; apply Hnext; exact Hm |].
      split.
      * constructor; [cbn [fst]; lia|]. eapply Forall_impl; [|exact F]. cbn beta. intros g Hg. lia.
      * constructor; [exact S|]. eapply Forall_impl; [|exact F]. cbn beta. intros g Hg. cbn [fst]. lia.
Qed.

Lemma groups_strict : forall ns, apart ns -> StronglySorted (fun a b : Z * list (Z * Z) => fst a < fst b) (groups ns).
Proof.
  intros ns Hap. destruct ns as [|n r]; [constructor|]. unfold groups.
  apply group_from_strict; [exact Hap | lia |].
  intros m [<- | Hm]; [lia|]. cbn [apart] in Hap. destruct Hap as [Hs [Hnext _]]. specialize (Hnext m Hm). lia.
Qed.

Lemma byte_queries_strict : forall gs, StronglySorted (fun a b : Z * list (Z * Z) => fst a < fst b) gs ->
  StronglySorted q_lt (byte_queries gs).
Proof.
  induction gs as [|g r IH]; intros H; [constructor|].
  apply StronglySorted_inv in H. destruct H as [S F]. unfold byte_queries in *. cbn [map]. constructor; [apply IH; exact S|].
  apply Forall_forall. intros y Hy. apply in_map_iff in Hy. destruct Hy as [g' [<- Hg]].
  rewrite Forall_forall in F. specialize (F g' Hg). unfold q_lt. cbn [fst]. exact F.
Qed.

(* the byte queries handed to the fetch strategy are in strictly ascending offset order: whatever order the ranges come
   back in, sorting them by offset restores the order of the chunk table *)
Theorem queue_order : forall ns arrival, apart (sort_off ns) ->
  Permutation arrival (byte_queries (groups (sort_off ns))) -> sort_q arrival = byte_queries (groups (sort_off ns)).
Proof.
  intros ns arrival Hap HP. apply sorted_perm_unique.
  - apply sort_q_sorted.
  - apply byte_queries_strict, groups_strict. exact Hap.
  - eapply Permutation_trans; [apply sort_q_perm | exact HP].
Qed.

Theorem queue_strategy_spec : forall (A : Type) (dec : list Z -> Z -> list A) file ns arrival,
  Forall (node_in_file file) ns -> apart (sort_off ns) ->
  Permutation arrival (byte_queries (groups (sort_off ns))) ->
  fetch_and_decode_queue dec file arrival ns = fetch_and_decode dec file ns
  /\ fetch_and_decode_queue dec file arrival ns = flat_map (node_dec dec file) (sort_off ns).
Proof.
  intros A dec file ns arrival Hns Hap HP.
  assert (E : fetch_and_decode_queue dec file arrival ns = fetch_and_decode dec file ns).
  { unfold fetch_and_decode_queue, fetch_and_decode. change gen_queue_sorts_by_offset with true. cbv iota.
    rewrite (queue_order ns arrival Hap HP). reflexivity. }
  split; [exact E | rewrite E; apply fetch_and_decode_correct; exact Hns].
Qed.

Lemma apartb_sound : forall l, apartb l = true -> apart l.
Proof.
  induction l as [|x r IH]; intros H; [exact I|]. cbn [apartb] in H.
  apply andb_true_iff in H. destruct H as [H H3]. apply andb_true_iff in H. destruct H as [H1 H2].
  cbn [apart]. split; [lia|]. split; [|apply IH; exact H3].
  intros y Hy. rewrite forallb_forall in H2. specialize (H2 y Hy). lia.
Qed.

(* ---------- the caller's Bounds object: a query leaves it as it was, so an object used again - on the same file or
   on another one - gives the answers of a Bounds object of its own ---------- *)
Lemma query_st_spec : forall s qb, query_st s qb = (qb, query_fresh qb s).
Proof.
  intros s qb. unfold query_st, ensure_3d_st, query_fresh, query, result_of. change gen_ensure3d_fresh with true. cbv iota.
  f_equal. destruct (load_octree _ _ _ _ _); [|reflexivity].
  destruct qb; reflexivity.
Qed.

Theorem session_shared_bounds : forall ss qb, session qb ss = (qb, map (query_fresh qb) ss).
Proof.
  induction ss as [|s r IH]; intros qb; cbn [session map]; [reflexivity|].
  rewrite query_st_spec, IH. reflexivity.
Qed.
