(* Capacity of the file and refused append calls (property C06, classes "append at the capacity of the version" and "a refused chunk
   followed by re-use"). *)
From Coq Require Import String.
From Coq Require Import ZArith List Bool Lia ZifyBool.
From LasV Require Import Lib.Base Lib.BaseFacts Lib.Layout Model.Las Model.AppendCap.
Import ListNotations.
Open Scope list_scope.
Open Scope Z_scope.

Lemma takes_more_spec : forall maj mnr count n, takes_more maj mnr count n = true <-> count + n <= max_point_count maj mnr.
Proof. intros. unfold takes_more. lia. Qed.

(* the capacities: 32-bit counter up to LAS 1.3, 64-bit counter from 1.4 *)
Lemma capacity_values : max_point_count 1 0 = 2 ^ 32 - 1 /\ max_point_count 1 1 = 2 ^ 32 - 1 /\ max_point_count 1 2 = 2 ^ 32 - 1
  /\ max_point_count 1 3 = 2 ^ 32 - 1 /\ max_point_count 1 4 = 2 ^ 64 - 1.
Proof. repeat split; reflexivity. Qed.

Lemma grow_count : forall ap fmt h st recs, s_count (grow ap fmt h st recs) = s_count st + len recs.
Proof. intros ap fmt h st [|r0 recs]; cbn [grow s_count]; [change (len (@nil (list Z))) with 0; lia | reflexivity]. Qed.

(* a non-empty chunk of the file's format is accepted EXACTLY when the total stays within the capacity of the version - reaching the
   maximum itself is accepted -; then the records are stored at the current position and counted *)
Theorem append_accepts_iff : forall ap s recs, recs <> [] ->
  let maj := aint (a_h s) "version.major" in let mnr := aint (a_h s) "version.minor" in
  (takes_more maj mnr (s_count (a_st s)) (len recs) = true ->
     snd (apoints ap s recs true) = Ok tt
     /\ s_count (a_st (fst (apoints ap s recs true))) = s_count (a_st s) + len recs
     /\ a_file (fst (apoints ap s recs true)) = write_at (a_file s) (a_pos s) (concat recs)
     /\ a_pos (fst (apoints ap s recs true)) = a_pos s + len (concat recs))
  /\ (takes_more maj mnr (s_count (a_st s)) (len recs) = false -> apoints ap s recs true = (s, Err ELaspy)).
Proof.
  intros ap s recs Hne maj mnr. unfold takes_more. subst maj mnr.
  destruct recs as [|r0 recs]; [congruence|].
  unfold apoints. cbn [negb].
  destruct (max_point_count (aint (a_h s) "version.major") (aint (a_h s) "version.minor") - s_count (a_st s) <? len (r0 :: recs)) eqn:E.
  - split; [discriminate|reflexivity].
  - split; [|discriminate]. intros _. cbn [fst snd a_st a_file a_pos].
    repeat split. rewrite grow_count.
    destruct (s_count (a_st s) =? 0); reflexivity.
Qed.

(* whatever is refused - too many points, another point format - leaves the appender exactly as it was *)
Theorem append_refused_unchanged : forall ap s recs same e, snd (apoints ap s recs same) = Err e -> fst (apoints ap s recs same) = s.
Proof.
  intros ap s recs same e. unfold apoints. destruct recs as [|r0 recs]; [discriminate|].
  destruct (negb same); [reflexivity|].
  destruct (_ <? _); [reflexivity|discriminate].
Qed.

(* the writer decides with the same rule: at equal version and equal count an open writer accepts a chunk iff the appender does.
   Appending is refused exactly when writing the total in one go would be *)
Theorem capacity_same_rule : forall ap (s : astate) (w : wstate) recs, recs <> [] -> w_done w = false ->
  aint (w_h w) "version.major" = aint (a_h s) "version.major" -> aint (w_h w) "version.minor" = aint (a_h s) "version.minor" ->
  s_count (w_st w) = s_count (a_st s) ->
  (snd (apoints ap s recs true) = Ok tt <-> snd (wstep ap w (WPoints recs true)) = Ok tt).
Proof.
  intros ap s w recs Hne Hd Hmaj Hmnr Hc. destruct recs as [|r0 recs]; [congruence|].
  unfold apoints, wstep. rewrite Hd, Hmaj, Hmnr, Hc. cbn [negb].
  destruct (_ <? _); cbn [snd]; split; congruence.
Qed.

(* a session with refused calls in it ends in the state of the session made of the accepted chunks only: a refused chunk leaves no trace,
   the calls that follow - the same record again once the caller repaired it, a part of it that fits - behave as if it had never been tried *)
Theorem refused_calls_no_trace : forall ap calls s,
  acalls ap s calls = fold_left (fun s c => fst (apoints ap s c true)) (taken ap s calls) s.
Proof.
  intros ap calls. induction calls as [|[recs same] r IH]; intros s; [reflexivity|].
  cbn [acalls fold_left taken fst snd]. fold (acalls ap (fst (apoints ap s recs same)) r).
  destruct (snd (apoints ap s recs same)) as [u|e] eqn:E.
  - cbn [fold_left]. rewrite IH.
    assert (fst (apoints ap s recs same) = fst (apoints ap s recs true)) as ->; [|reflexivity].
    unfold apoints in *. destruct recs as [|r0 recs]; [reflexivity|].
    destruct same; [reflexivity|]. cbn [negb snd] in E. discriminate.
  - rewrite IH. rewrite (append_refused_unchanged ap s recs same e E). reflexivity.
Qed.

(* hence the file of the session is the file of the accepted chunks *)
Corollary refused_calls_file : forall ap src s calls,
  aopen src = Ok s -> aclose (acalls ap s calls) = arun ap src (taken ap s calls).
Proof.
  intros ap src s calls Ho. unfold arun. rewrite Ho. cbn [bind]. rewrite refused_calls_no_trace. reflexivity.
Qed.
