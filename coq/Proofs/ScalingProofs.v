(* C11: proofs about Model/Scaling.v *)
From Coq Require Import ZArith QArith Qabs List Bool Lia Lqa ZifyBool.
From LasV Require Import Lib.Base Gen.GenScaling Model.Scaling.
Import ListNotations.
Open Scope list_scope.
Open Scope Z_scope.

(* ------------------------------------------------------------------------------------------------ *)
(* A. exact rationals                                                                                *)
(* ------------------------------------------------------------------------------------------------ *)

Lemma rhe_frac_spec : forall n d, 0 < d -> 2 * Z.abs (rhe_frac n d * d - n) <= d.
Proof.
  intros n d Hd. unfold rhe_frac.
  pose proof (Z.div_mod n d ltac:(lia)) as Hdm.
  pose proof (Z.mod_pos_bound n d Hd) as Hr.
  set (f := n / d) in *. set (r := n mod d) in *.
  destruct (Z.compare_spec (2 * r) d) as [He|Hl|Hg].
  - destruct (Z.even f); nia.
  - nia.
  - nia.
Qed.

(* the rounded integer is at most one half away *)
Lemma rhe_half : forall q, (Qabs (inject_Z (rhe q) - q) <= 1 # 2)%Q.
Proof.
  intros [n d]. unfold rhe. cbn [Qnum Qden].
  pose proof (rhe_frac_spec n (Zpos d) ltac:(lia)) as H.
  set (X := rhe_frac n (Zpos d)) in *.
  apply Qabs_Qle_condition. unfold Qle, Qminus, Qplus, Qopp, inject_Z. cbn [Qnum Qden].
  split; lia.
Qed.

(* any integer strictly closer than one half is the rounded one *)
Lemma rhe_unique : forall q X, (Qabs (inject_Z X - q) < 1 # 2)%Q -> rhe q = X.
Proof.
  intros [n d] X H. unfold rhe. cbn [Qnum Qden].
  pose proof (rhe_frac_spec n (Zpos d) ltac:(lia)) as HR.
  set (R := rhe_frac n (Zpos d)) in *.
  apply Qabs_Qlt_condition in H. unfold Qlt, Qminus, Qplus, Qopp, inject_Z in H. cbn [Qnum Qden] in H.
  destruct H as [H1 H2]. nia.
Qed.

Lemma rhe_inject : forall X, rhe (inject_Z X) = X.
Proof.
  intros X. apply rhe_unique. setoid_replace (inject_Z X - inject_Z X)%Q with 0%Q by ring. reflexivity.
Qed.

Lemma rhe_Qeq : forall p q, (p == q)%Q -> rhe p = rhe q.
Proof.
  intros p q E.
    destruct p as [n d], q as [m e]. unfold rhe in *. cbn [Qnum Qden] in *.
    unfold Qeq in E. cbn [Qnum Qden] in E.
    unfold rhe_frac.
    assert (Hq1 : n / Zpos d = m / Zpos e).
    { rewrite <- (Z.div_mul_cancel_r n (Zpos d) (Zpos e)) by lia.
      rewrite E, (Z.mul_comm (Zpos d) (Zpos e)). apply Z.div_mul_cancel_r; lia. }
    pose proof (Z.div_mod n (Zpos d) ltac:(lia)) as D1. pose proof (Z.mod_pos_bound n (Zpos d) ltac:(lia)) as B1.
    pose proof (Z.div_mod m (Zpos e) ltac:(lia)) as D2. pose proof (Z.mod_pos_bound m (Zpos e) ltac:(lia)) as B2.
    rewrite Hq1 in *. set (f := m / Zpos e) in *.
    set (r1 := n mod Zpos d) in *. set (r2 := m mod Zpos e) in *.
    assert (Hr : r1 * Zpos e = r2 * Zpos d) by nia.
    destruct (Z.compare_spec (2 * r1) (Zpos d)); destruct (Z.compare_spec (2 * r2) (Zpos e)); try reflexivity; nia.
Qed.

Lemma q_present_law : forall X s o, (q_present X s o == inject_Z X * s + o)%Q.
Proof. intros. unfold q_present, gen_apply_scale. reflexivity. Qed.

Lemma q_store_law : forall v s o, q_store v s o = rhe ((v - o) / s)%Q.
Proof. intros. reflexivity. Qed.

Lemma q_restore_law : forall v s o, q_restore v s o = rhe ((v - o) / s)%Q.
Proof. intros. reflexivity. Qed.

Lemma q_half_step : forall v s o, (0 < s)%Q -> (Qabs (q_present (q_store v s o) s o - v) <= s / 2)%Q.
Proof.
  intros v s o Hs. rewrite q_present_law, q_store_law.
  set (q := ((v - o) / s)%Q). pose proof (rhe_half q) as Hh. set (X := rhe q) in *.
  assert (E : (inject_Z X * s + o - v == s * (inject_Z X - q))%Q).
  { subst q. field. intro Z0. rewrite Z0 in Hs. discriminate. }
  rewrite E, Qabs_Qmult, (Qabs_pos s) by (apply Qlt_le_weak; exact Hs).
  setoid_replace (s / 2)%Q with (s * (1 # 2))%Q by (field).
  apply Qmult_le_l; assumption.
Qed.

(* no other integer presents a value closer to v *)
Lemma q_nearest : forall v s o Y, (0 < s)%Q ->
  (Qabs (q_present (q_store v s o) s o - v) <= Qabs (q_present Y s o - v))%Q.
Proof.
  intros v s o Y Hs. rewrite !q_present_law, q_store_law.
  set (q := ((v - o) / s)%Q). pose proof (rhe_half q) as Hh. set (X := rhe q) in *.
  assert (Hne : ~ (s == 0)%Q) by (intro Z0; rewrite Z0 in Hs; discriminate).
  assert (E : forall W, (inject_Z W * s + o - v == s * (inject_Z W - q))%Q) by (intro W; subst q; field; exact Hne).
  rewrite (E X), (E Y), !Qabs_Qmult, (Qabs_pos s) by (apply Qlt_le_weak; exact Hs).
  apply Qmult_le_l; [exact Hs|].
  destruct (Z.eq_dec X Y) as [->|Hxy]; [apply Qle_refl|].
  apply Qle_trans with (1 # 2)%Q; [exact Hh|].
  (* |Y - q| >= |Y - X| - |X - q| >= 1 - 1/2 *)
  assert (H1 : (1 <= Qabs (inject_Z Y - inject_Z X))%Q).
  { unfold Qminus. rewrite <- inject_Z_opp, <- inject_Z_plus.
    unfold Qabs, inject_Z, Qle. cbn [Qnum Qden]. lia. }
  assert (H2 : (Qabs (inject_Z Y - inject_Z X) <= Qabs (inject_Z Y - q) + Qabs (inject_Z X - q))%Q).
  { setoid_replace (inject_Z Y - inject_Z X)%Q with ((inject_Z Y - q) + - (inject_Z X - q))%Q by ring.
    eapply Qle_trans; [apply Qabs_triangle|]. rewrite Qabs_opp. apply Qle_refl. }
  lra.
Qed.

(* storing what is presented under the same scaling gives the integer back *)
Lemma q_store_present : forall X s o, (0 < s)%Q -> q_store (q_present X s o) s o = X.
Proof.
  intros X s o Hs. rewrite q_store_law. apply rhe_unique.
  assert (Hne : ~ (s == 0)%Q) by (intro Z0; rewrite Z0 in Hs; discriminate).
  setoid_replace (inject_Z X - (q_present X s o - o) / s)%Q with 0%Q
    by (rewrite q_present_law; field; exact Hne).
  reflexivity.
Qed.

Lemma coord_fits_range : forall X, coord_fits X = true <-> - 2 ^ 31 <= X < 2 ^ 31.
Proof. intros X. unfold coord_fits, gen_setitem_fits, gen_coord_min, gen_coord_max. lia. Qed.

Lemma rescale_fits_range : forall X, rescale_fits X = true <-> - 2 ^ 31 <= X < 2 ^ 31.
Proof. intros X. unfold rescale_fits, gen_rescale_fits, gen_coord_min, gen_coord_max. lia. Qed.

Lemma q_checked_ok : forall v s o X,
  q_store_checked v s o = Ok X <-> X = q_store v s o /\ - 2 ^ 31 <= X < 2 ^ 31.
Proof.
  intros v s o X. unfold q_store_checked.
  destruct (coord_fits (q_store v s o)) eqn:F.
  - apply coord_fits_range in F. split.
    + intros H. inversion H. subst. split; [reflexivity|exact F].
    + intros [-> _]. reflexivity.
  - split; [discriminate|]. intros [-> H]. apply coord_fits_range in H. congruence.
Qed.

Lemma q_checked_err : forall v s o e,
  q_store_checked v s o = Err e <-> e = EOverflow /\ ~ (- 2 ^ 31 <= q_store v s o < 2 ^ 31).
Proof.
  intros v s o e. unfold q_store_checked.
  destruct (coord_fits (q_store v s o)) eqn:F.
  - apply coord_fits_range in F. split; [discriminate|]. intros [_ H]. contradiction.
  - split.
    + intros H. inversion H. split; [reflexivity|]. intro R. apply coord_fits_range in R. congruence.
    + intros [-> _]. reflexivity.
Qed.

Lemma q_rechecked_ok : forall v s o X,
  q_restore_checked v s o = Ok X <-> X = q_restore v s o /\ - 2 ^ 31 <= X < 2 ^ 31.
Proof.
  intros v s o X. unfold q_restore_checked.
  destruct (rescale_fits (q_restore v s o)) eqn:F.
  - apply rescale_fits_range in F. split.
    + intros H. inversion H. subst. split; [reflexivity|exact F].
    + intros [-> _]. reflexivity.
  - split; [discriminate|]. intros [-> H]. apply rescale_fits_range in H. congruence.
Qed.

Lemma q_rechecked_err : forall v s o e,
  q_restore_checked v s o = Err e <-> e = EOverflow /\ ~ (- 2 ^ 31 <= q_restore v s o < 2 ^ 31).
Proof.
  intros v s o e. unfold q_restore_checked.
  destruct (rescale_fits (q_restore v s o)) eqn:F.
  - apply rescale_fits_range in F. split; [discriminate|]. intros [_ H]. contradiction.
  - split.
    + intros H. inversion H. split; [reflexivity|]. intro R. apply rescale_fits_range in R. congruence.
    + intros [-> _]. reflexivity.
Qed.

(* ------------------------------------------------------------------------------------------------ *)
(* B. binary64: the stored integer is the tested one                                                 *)
(* ------------------------------------------------------------------------------------------------ *)

Lemma f_checked_ok : forall v s o X,
  f_store_checked v s o = Ok X <-> f_store v s o = Some X /\ - 2 ^ 31 <= X < 2 ^ 31.
Proof.
  intros v s o X. unfold f_store_checked. destruct (f_store v s o) as [Y|].
  - destruct (coord_fits Y) eqn:F.
    + apply coord_fits_range in F. split.
      * intros H. inversion H. subst. split; [reflexivity|exact F].
      * intros [H _]. inversion H. reflexivity.
    + split; [discriminate|]. intros [H R]. inversion H. subst. apply coord_fits_range in R. congruence.
  - split; [discriminate|]. intros [H _]. discriminate.
Qed.

Lemma f_checked_err : forall v s o e,
  f_store_checked v s o = Err e <->
  e = EOverflow /\ (f_store v s o = None \/ exists Y, f_store v s o = Some Y /\ ~ (- 2 ^ 31 <= Y < 2 ^ 31)).
Proof.
  intros v s o e. unfold f_store_checked. destruct (f_store v s o) as [Y|].
  - destruct (coord_fits Y) eqn:F.
    + apply coord_fits_range in F. split; [discriminate|].
      intros [_ [H|[Z [H N]]]]; [discriminate|]. inversion H. subst. contradiction.
    + split.
      * intros H. inversion H. split; [reflexivity|]. right. exists Y. split; [reflexivity|].
        intro R. apply coord_fits_range in R. congruence.
      * intros [-> _]. reflexivity.
  - split.
    + intros H. inversion H. split; [reflexivity|]. left. reflexivity.
    + intros [-> _]. reflexivity.
Qed.

Lemma f_rechecked_ok : forall v s o X,
  f_restore_checked v s o = Ok X <-> f_restore v s o = Some X /\ - 2 ^ 31 <= X < 2 ^ 31.
Proof.
  intros v s o X. unfold f_restore_checked. destruct (f_restore v s o) as [Y|].
  - destruct (rescale_fits Y) eqn:F.
    + apply rescale_fits_range in F. split.
      * intros H. inversion H. subst. split; [reflexivity|exact F].
      * intros [H _]. inversion H. reflexivity.
    + split; [discriminate|]. intros [H R]. inversion H. subst. apply rescale_fits_range in R. congruence.
  - split; [discriminate|]. intros [H _]. discriminate.
Qed.

Lemma f_rechecked_err : forall v s o e, f_restore_checked v s o = Err e -> e = EOverflow.
Proof.
  intros v s o e. unfold f_restore_checked. destruct (f_restore v s o) as [Y|].
  - destruct (rescale_fits Y); [discriminate|]. intros H. inversion H. reflexivity.
  - intros H. inversion H. reflexivity.
Qed.

(* ------------------------------------------------------------------------------------------------ *)
(* C. histories, for any arithmetic whose stores are range-checked                                   *)
(* ------------------------------------------------------------------------------------------------ *)

Definition fitsP (X : Z) : Prop := - 2 ^ 31 <= X < 2 ^ 31.

Section HistoryProofs.
  Variable T : Type.
  Variable present : Z -> T -> T -> T.
  Variable store restore : T -> T -> T -> result Z.
  Variable teqb : T -> T -> bool.
  Variable tdefault : T.
  Hypothesis store_fits : forall v s o X, store v s o = Ok X -> fitsP X.
  Hypothesis restore_fits : forall v s o X, restore v s o = Ok X -> fitsP X.
  Hypothesis store_err : forall v s o e, store v s o = Err e -> e = EOverflow.
  Hypothesis restore_err : forall v s o e, restore v s o = Err e -> e = EOverflow.

  Notation st := (st T).
  Notation step := (step T present store restore teqb tdefault).
  Notation run := (run T present store restore teqb tdefault).
  Notation write_points := (write_points T present restore teqb tdefault).
  Notation presented := (presented T present tdefault).
  Notation new_columns := (new_columns T present restore tdefault).
  Notation new_column := (new_column T present restore tdefault).
  Notation rec_change_scaling := (rec_change_scaling T present restore tdefault).
  Notation assign_rec := (assign_rec T store tdefault).
  Notation get := (get T).
  Notation column := (column T).
  Notation alloc := (alloc T).
  Notation rec_scale := (rec_scale T tdefault).
  Notation rec_offset := (rec_offset T tdefault).
  Notation at3 := (at3 T tdefault).

  (* ---- lists ---- *)
  Lemma mapM_ok : forall A B (f : A -> result B) l l',
    mapM f l = Ok l' -> Forall2 (fun a b => f a = Ok b) l l'.
  Proof.
    intros A B f l. induction l as [|a r IH]; intros l' H; cbn [mapM] in H.
    - inversion H. constructor.
    - destruct (f a) as [b|e] eqn:Fa; [|discriminate].
      destruct (mapM f r) as [bs|e] eqn:Fr; [|discriminate].
      inversion H. subst. constructor; [exact Fa|apply IH; reflexivity].
  Qed.

  Lemma mapM_err : forall A B (f : A -> result B) l e,
    mapM f l = Err e -> exists a, In a l /\ f a = Err e.
  Proof.
    intros A B f l. induction l as [|a r IH]; intros e H; cbn [mapM] in H.
    - discriminate.
    - destruct (f a) as [b|e1] eqn:Fa.
      + destruct (mapM f r) as [bs|e2] eqn:Fr; [discriminate|].
        inversion H. subst. destruct (IH e eq_refl) as [x [Hin Hx]]. exists x. split; [right; exact Hin|exact Hx].
      + inversion H. subst. exists a. split; [left; reflexivity|exact Fa].
  Qed.

  Lemma mapM_all_ok : forall A B (f : A -> result B) l,
    (forall a, In a l -> exists b, f a = Ok b) -> exists l', mapM f l = Ok l'.
  Proof.
    intros A B f l. induction l as [|a r IH]; intros H; cbn [mapM].
    - exists []. reflexivity.
    - destruct (H a (or_introl eq_refl)) as [b Hb]. rewrite Hb.
      destruct (IH (fun x Hx => H x (or_intror Hx))) as [bs Hbs]. rewrite Hbs. exists (b :: bs). reflexivity.
  Qed.

  Lemma Forall2_Forall_r : forall A B (R : A -> B -> Prop) (P : B -> Prop) l l',
    Forall2 R l l' -> (forall a b, R a b -> P b) -> Forall P l'.
  Proof. intros A B R P l l' H HP. induction H; constructor; eauto. Qed.

  Lemma set_at_length : forall A (l : list A) i x, length (set_at l i x) = length l.
  Proof. intros A l. induction l as [|a r IH]; intros [|i] x; cbn; auto. Qed.

  Lemma nth_set_at_same : forall A (l : list A) i x d, (i < length l)%nat -> nth i (set_at l i x) d = x.
  Proof.
    intros A l. induction l as [|a r IH]; intros [|i] x d H; cbn in *; try lia; auto. apply IH. lia.
  Qed.

  Lemma nth_set_at_other : forall A (l : list A) i j x d, i <> j -> nth j (set_at l i x) d = nth j l d.
  Proof.
    intros A l. induction l as [|a r IH]; intros [|i] [|j] x d H; cbn; auto; try congruence.
  Qed.

  Lemma Forall_set_at : forall A (P : A -> Prop) (l : list A) i x, Forall P l -> P x -> Forall P (set_at l i x).
  Proof.
    intros A P l. induction l as [|a r IH]; intros [|i] x Hl Hx; cbn; auto; inversion Hl; subst; constructor; auto.
  Qed.

  Lemma get_app_old : forall h a i, (i < length h)%nat -> get (h ++ [a]) i = get h i.
  Proof. intros h a i H. unfold Scaling.get. apply app_nth1. exact H. Qed.

  Lemma get_app_new : forall h a, get (h ++ [a]) (length h) = a.
  Proof. intros h a. unfold Scaling.get. rewrite app_nth2 by lia. rewrite Nat.sub_diag. reflexivity. Qed.

  (* ---- the invariant: ids point into the heap, every stored integer fits in 32 bits ---- *)
  Definition cols_fit (cols : list (list Z)) : Prop := Forall (Forall fitsP) cols.

  Record wf (s : st) : Prop := mkwf {
    wf_hs : (h_s s < length (heap s))%nat;
    wf_ho : (h_o s < length (heap s))%nat;
    wf_rs : (r_s s < length (heap s))%nat;
    wf_ro : (r_o s < length (heap s))%nat;
    wf_fit : cols_fit (ints s)
  }.

  (* the caller's objects: record integers, the arrays the record and the header refer to, and every array
     that existed before (arrays are only ever added) *)
  Definition same_objects (s s' : st) : Prop :=
    ints s' = ints s /\ r_s s' = r_s s /\ r_o s' = r_o s /\ h_s s' = h_s s /\ h_o s' = h_o s
    /\ (length (heap s) <= length (heap s'))%nat
    /\ forall i, (i < length (heap s))%nat -> get (heap s') i = get (heap s) i.

  Lemma same_objects_refl : forall s, same_objects s s.
  Proof. intros s. unfold same_objects. repeat split; auto. Qed.

  Lemma same_objects_trans : forall a b c, same_objects a b -> same_objects b c -> same_objects a c.
  Proof.
    intros a b c (A1 & A2 & A3 & A4 & A5 & A6 & A7) (B1 & B2 & B3 & B4 & B5 & B6 & B7).
    unfold same_objects. repeat split; try congruence; try lia.
    intros i Hi. rewrite B7 by lia. apply A7. exact Hi.
  Qed.

  Lemma alloc_same : forall s a, same_objects s (fst (alloc s a)).
  Proof.
    intros s a. unfold Scaling.alloc, same_objects. cbn. repeat split; auto.
    - rewrite app_length. cbn. lia.
    - intros i Hi. apply get_app_old. exact Hi.
  Qed.

  Lemma alloc_wf : forall s a, wf s -> wf (fst (alloc s a)) /\ (snd (alloc s a) < length (heap (fst (alloc s a))))%nat
                                   /\ get (heap (fst (alloc s a))) (snd (alloc s a)) = a.
  Proof.
    intros s a [H1 H2 H3 H4 H5]. unfold Scaling.alloc. cbn. split; [|split].
    - constructor; cbn; try (rewrite app_length; cbn; lia). exact H5.
    - rewrite app_length. cbn. lia.
    - apply get_app_new.
  Qed.

  (* ---- record-level rescaling ---- *)
  Definition column_rescaled (s : st) (ns no : list T) (row : nat * nat * nat) (col : list Z) : Prop :=
    let '(a, i, j) := row in
    Forall2 (fun X X' => restore (present X (rec_scale s a) (rec_offset s a)) (at3 ns i) (at3 no j) = Ok X')
            (column s (rec_dim a)) col.

  Lemma new_column_ok : forall s ns no row col,
    new_column s ns no row = Ok col -> column_rescaled s ns no row col /\ Forall fitsP col.
  Proof.
    intros s ns no [[a i] j] col H. unfold Scaling.new_column in H. apply mapM_ok in H.
    unfold Scaling.presented in H. split.
    - unfold column_rescaled. revert col H. generalize (column s (rec_dim a)) as l.
      induction l as [|X r IH]; intros col H; cbn [map] in H; inversion H; subst; constructor; auto.
    - eapply Forall2_Forall_r; [exact H|]. intros v X Hv. eapply restore_fits. exact Hv.
  Qed.

  Lemma new_columns_ok : forall s ns no cols,
    new_columns s ns no = Ok cols ->
    Forall2 (column_rescaled s ns no) gen_rescale_axes cols /\ cols_fit cols.
  Proof.
    intros s ns no cols H. unfold Scaling.new_columns in H. apply mapM_ok in H. split.
    - revert H. generalize gen_rescale_axes as rows. intros rows H.
      induction H as [|row col rows cols Hrc Hrest IH]; constructor; auto. apply new_column_ok in Hrc. tauto.
    - unfold cols_fit. eapply Forall2_Forall_r; [exact H|]. intros row col Hrc. apply new_column_ok in Hrc. tauto.
  Qed.

  Lemma new_columns_err : forall s ns no e,
    new_columns s ns no = Err e ->
    e = EOverflow /\ exists a i j X, In (a, i, j) gen_rescale_axes /\ In X (column s (rec_dim a))
      /\ restore (present X (rec_scale s a) (rec_offset s a)) (at3 ns i) (at3 no j) = Err EOverflow.
  Proof.
    intros s ns no e H. unfold Scaling.new_columns in H. apply mapM_err in H.
    destruct H as [[[a i] j] [Hin H]]. unfold Scaling.new_column in H. apply mapM_err in H.
    destruct H as [v [Hv Hr]]. unfold Scaling.presented in Hv. apply in_map_iff in Hv. destruct Hv as [X [<- HX]].
    pose proof (restore_err _ _ _ _ Hr) as ->. split; [reflexivity|].
    exists a, i, j, X. auto.
  Qed.

  (* ---- write_points ---- *)
  Definition scaling_equal (s : st) (ws wo : list T) : bool :=
    arr_eqb T teqb (get (heap s) (r_s s)) ws && arr_eqb T teqb (get (heap s) (r_o s)) wo.

  (* what a file written from state s by a writer with scaling ws, wo holds *)
  Definition file_of (s : st) (ws wo : list T) (f : file T) : Prop :=
    f_scales f = ws /\ f_offsets f = wo /\
    (column s 0 = [] /\ f_ints f = [[]; []; []]
     \/ column s 0 <> [] /\ scaling_equal s ws wo = true /\ f_ints f = ints s
     \/ column s 0 <> [] /\ scaling_equal s ws wo = false /\ Forall2 (column_rescaled s ws wo) gen_rescale_axes (f_ints f)).

  Definition overflows (s : st) (ws wo : list T) : Prop :=
    exists a i j X, In (a, i, j) gen_rescale_axes /\ In X (column s (rec_dim a))
      /\ restore (present X (rec_scale s a) (rec_offset s a)) (at3 ws i) (at3 wo j) = Err EOverflow.

  Lemma write_points_spec : forall s wsid woid, wf s ->
    let ws := get (heap s) wsid in let wo := get (heap s) woid in
    fst (write_points s wsid woid) = s /\
    match snd (write_points s wsid woid) with
    | OFile f => file_of s ws wo f /\ cols_fit (f_ints f)
    | OErr e => e = EOverflow /\ column s 0 <> [] /\ scaling_equal s ws wo = false /\ overflows s ws wo
    | ONone => False
    end.
  Proof.
    intros s wsid woid W ws wo. unfold Scaling.write_points. fold ws wo.
    destruct (column s 0) as [|x0 r0] eqn:C0.
    - cbn. split; [reflexivity|]. split.
      + unfold file_of. cbn. repeat split. left. split; [exact C0|reflexivity].
      + unfold cols_fit. repeat constructor.
    - fold (scaling_equal s ws wo). destruct (scaling_equal s ws wo) eqn:SE.
      + cbn. split; [reflexivity|]. split.
        * unfold file_of. cbn. repeat split. right. left. rewrite C0. repeat split; auto. discriminate.
        * apply (wf_fit _ W).
      + unfold Scaling.rec_change_scaling. fold ws wo.
        destruct (new_columns s ws wo) as [cols|e] eqn:NC.
        * cbn. split; [destruct s; reflexivity|].
          apply new_columns_ok in NC. destruct NC as [N1 N2]. split; [|exact N2].
          unfold file_of. cbn. repeat split. right. right. rewrite C0. repeat split; auto. discriminate.
        * cbn. split; [reflexivity|]. apply new_columns_err in NC. destruct NC as [-> NC].
          repeat split; auto. rewrite C0. discriminate.
  Qed.

  (* ---- one step keeps the invariant ---- *)
  Lemma assign_rec_wf : forall s a vals, wf s -> wf (fst (assign_rec s a vals)).
  Proof.
    intros s a vals W. unfold Scaling.assign_rec. destruct vals as [|v0 vr]; [exact W|].
    destruct (mapM _ (v0 :: vr)) as [xs|e] eqn:M; [|exact W].
    destruct (Nat.eqb _ _); [|exact W]. cbn.
    destruct W as [H1 H2 H3 H4 H5]. constructor; cbn; auto.
    unfold cols_fit. apply Forall_set_at; [exact H5|].
    apply mapM_ok in M. eapply Forall2_Forall_r; [exact M|]. intros v X Hv. eapply store_fits. exact Hv.
  Qed.

  Lemma step_wf : forall s o, wf s -> wf (fst (step s o)).
  Proof.
    intros s o W. destruct o as [a|a|ax v|ax v|ax vals|ax vals|ns no| |ws wo]; cbn [Scaling.step].
    - destruct (alloc_wf s a W) as [[H1 H2 H3 H4 H5] [Hi _]]. destruct (alloc s a) as [s1 i] eqn:A. cbn in *.
      constructor; cbn; auto.
    - destruct (alloc_wf s a W) as [[H1 H2 H3 H4 H5] [Hi _]]. destruct (alloc s a) as [s1 i] eqn:A. cbn in *.
      constructor; cbn; auto.
    - destruct W as [H1 H2 H3 H4 H5]. cbn. constructor; cbn; rewrite ?set_at_length; auto.
    - destruct W as [H1 H2 H3 H4 H5]. cbn. constructor; cbn; rewrite ?set_at_length; auto.
    - apply assign_rec_wf. destruct W as [H1 H2 H3 H4 H5]. constructor; cbn; auto.
    - apply assign_rec_wf. exact W.
    - assert (A1 : exists s1 sid, (match ns with Some a => alloc s a | None => (s, r_s s) end) = (s1, sid)
                   /\ wf s1 /\ (sid < length (heap s1))%nat).
      { destruct ns as [a|].
        - destruct (alloc_wf s a W) as [Hw [Hi _]]. destruct (alloc s a) as [s1 i]. exists s1, i. auto.
        - exists s, (r_s s). split; [reflexivity|]. split; [exact W|apply (wf_rs _ W)]. }
      destruct A1 as (s1 & sid & -> & W1 & Hsid).
      assert (A2 : exists s2 oid, (match no with Some a => alloc s1 a | None => (s1, r_o s1) end) = (s2, oid)
                   /\ wf s2 /\ (oid < length (heap s2))%nat /\ (length (heap s1) <= length (heap s2))%nat).
      { destruct no as [a|].
        - destruct (alloc_wf s1 a W1) as [Hw [Hi _]]. pose proof (alloc_same s1 a) as Hs.
          destruct (alloc s1 a) as [s2 i]. exists s2, i. cbn in *. unfold same_objects in Hs. intuition.
        - exists s1, (r_o s1). split; [reflexivity|]. split; [exact W1|]. split; [apply (wf_ro _ W1)|lia]. }
      destruct A2 as (s2 & oid & -> & W2 & Hoid & Hlen).
      unfold Scaling.rec_change_scaling.
      destruct (new_columns s2 _ _) as [cols|e] eqn:NC; cbn; [|exact W2].
      apply new_columns_ok in NC. destruct NC as [_ NF].
      destruct W2 as [H1 H2 H3 H4 H5]. constructor; cbn; auto; try lia.
      + destruct ns; [lia|exact H1].
      + destruct no; [exact Hoid|exact H2].
    - destruct (alloc_wf s (get (heap s) (h_s s)) W) as [W1 _].
      destruct (alloc s (get (heap s) (h_s s))) as [s1 wsid]. cbn [fst] in W1.
      destruct (alloc_wf s1 (get (heap s1) (h_o s1)) W1) as [W2 _].
      destruct (alloc s1 (get (heap s1) (h_o s1))) as [s2 woid]. cbn [fst] in W2.
      destruct (write_points_spec s2 wsid woid W2) as [-> _]. exact W2.
    - destruct (alloc_wf s ws W) as [W1 _].
      destruct (alloc s ws) as [s1 wsid]. cbn [fst] in W1.
      destruct (alloc_wf s1 wo W1) as [W2 _].
      destruct (alloc s1 wo) as [s2 woid]. cbn [fst] in W2.
      destruct (write_points_spec s2 wsid woid W2) as [-> _]. exact W2.
  Qed.

  Lemma run_wf : forall ops s, wf s -> wf (fst (run s ops)).
  Proof.
    intros ops. induction ops as [|o r IH]; intros s W; cbn [Scaling.run]; [exact W|].
    pose proof (step_wf s o W) as W1. destruct (step s o) as [s1 x]. cbn [fst] in W1.
    specialize (IH s1 W1). destruct (run s1 r) as [s2 xs]. exact IH.
  Qed.
End HistoryProofs.
