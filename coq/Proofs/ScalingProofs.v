(* C11: proofs about Model/Scaling.v *)
From Coq Require Import ZArith QArith Qabs List Bool Lia Lqa ZifyBool.
From LasV Require Import Lib.Base Gen.GenScaling Model.Scaling.
Import ListNotations.
Open Scope list_scope.
Open Scope Z_scope.

(* ------------------------------------------------------------------------------------------------ *)
(* A. exact rationals                                                                                *)
(* ------------------------------------------------------------------------------------------------ *)

Lemma rhe_frac_spec : forall n d, 0 < d -> 2 * Z.abs (rhe_frac n d * d - n) <= d.
Proof.
  intros n d Hd. unfold rhe_frac.
  pose proof (Z.div_mod n d ltac:(lia)) as Hdm.
  pose proof (Z.mod_pos_bound n d Hd) as Hr.
  set (f := n / d) in *. set (r := n mod d) in *.
  destruct (Z.compare_spec (2 * r) d) as [He|Hl|Hg].
  - destruct (Z.even f); nia.
  - nia.
  - nia.
Qed.

(* the rounded integer is at most one half away *)
Lemma rhe_half : forall q, (Qabs (inject_Z (rhe q) - q) <= 1 # 2)%Q.
Proof.
  intros [n d]. unfold rhe. cbn [Qnum Qden].
  pose proof (rhe_frac_spec n (Zpos d) ltac:(lia)) as H.
  set (X := rhe_frac n (Zpos d)) in *.
  apply Qabs_Qle_condition. unfold Qle, Qminus, Qplus, Qopp, inject_Z. cbn [Qnum Qden].
  split; lia.
Qed.

(* any integer strictly closer than one half is the rounded one *)
Lemma rhe_unique : forall q X, (Qabs (inject_Z X - q) < 1 # 2)%Q -> rhe q = X.
Proof.
  intros [n d] X H. unfold rhe. cbn [Qnum Qden].
  pose proof (rhe_frac_spec n (Zpos d) ltac:(lia)) as HR.
  set (R := rhe_frac n (Zpos d)) in *.
  apply Qabs_Qlt_condition in H. unfold Qlt, Qminus, Qplus, Qopp, inject_Z in H. cbn [Qnum Qden] in H.
  destruct H as [H1 H2]. nia.
Qed.

Lemma rhe_inject : forall X, rhe (inject_Z X) = X.
Proof.
  intros X. apply rhe_unique. setoid_replace (inject_Z X - inject_Z X)%Q with 0%Q by ring. reflexivity.
Qed.

Lemma rhe_Qeq : forall p q, (p == q)%Q -> rhe p = rhe q.
Proof.
  intros p q E.
    destruct p as [n d], q as [m e]. unfold rhe in *. cbn [Qnum Qden] in *.
    unfold Qeq in E. cbn [Qnum Qden] in E.
    unfold rhe_frac.
    assert (Hq1 : n / Zpos d = m / Zpos e).
    { rewrite <- (Z.div_mul_cancel_r n (Zpos d) (Zpos e)) by lia.
      rewrite E, (Z.mul_comm (Zpos d) (Zpos e)). apply Z.div_mul_cancel_r; lia. }
    pose proof (Z.div_mod n (Zpos d) ltac:(lia)) as D1. pose proof (Z.mod_pos_bound n (Zpos d) ltac:(lia)) as B1.
    pose proof (Z.div_mod m (Zpos e) ltac:(lia)) as D2. pose proof (Z.mod_pos_bound m (Zpos e) ltac:(lia)) as B2.
    rewrite Hq1 in *. set (f := m / Zpos e) in *.
    set (r1 := n mod Zpos d) in *. set (r2 := m mod Zpos e) in *.
    assert (Hr : r1 * Zpos e = r2 * Zpos d) by nia.
    destruct (Z.compare_spec (2 * r1) (Zpos d)); destruct (Z.compare_spec (2 * r2) (Zpos e)); try reflexivity; nia.
Qed.

Lemma q_present_law : forall X s o, (q_present X s o == inject_Z X * s + o)%Q.
Proof. intros. unfold q_present, gen_apply_scale. reflexivity. Qed.

Lemma q_store_law : forall v s o, q_store v s o = rhe ((v - o) / s)%Q.
Proof. intros. reflexivity. Qed.

Lemma q_restore_law : forall v s o, q_restore v s o = rhe ((v - o) / s)%Q.
Proof. intros. reflexivity. Qed.

Lemma q_half_step : forall v s o, (0 < s)%Q -> (Qabs (q_present (q_store v s o) s o - v) <= s / 2)%Q.
Proof.
  intros v s o Hs. rewrite q_present_law, q_store_law.
  set (q := ((v - o) / s)%Q). pose proof (rhe_half q) as Hh. set (X := rhe q) in *.
  assert (E : (inject_Z X * s + o - v == s * (inject_Z X - q))%Q).
  { subst q. field. intro Z0. rewrite Z0 in Hs. discriminate. }
  rewrite E, Qabs_Qmult, (Qabs_pos s) by (apply Qlt_le_weak; exact Hs).
  setoid_replace (s / 2)%Q with (s * (1 # 2))%Q by (field).
  apply Qmult_le_l; assumption.
Qed.

(* no other integer presents a value closer to v *)
Lemma q_nearest : forall v s o Y, (0 < s)%Q ->
  (Qabs (q_present (q_store v s o) s o - v) <= Qabs (q_present Y s o - v))%Q.
Proof.
  intros v s o Y Hs. rewrite !q_present_law, q_store_law.
  set (q := ((v - o) / s)%Q). pose proof (rhe_half q) as Hh. set (X := rhe q) in *.
  assert (Hne : ~ (s == 0)%Q) by (intro Z0; rewrite Z0 in Hs; discriminate).
  assert (E : forall W, (inject_Z W * s + o - v == s * (inject_Z W - q))%Q) by (intro W; subst q; field; exact Hne).
  rewrite (E X), (E Y), !Qabs_Qmult, (Qabs_pos s) by (apply Qlt_le_weak; exact Hs).
  apply Qmult_le_l; [exact Hs|].
  destruct (Z.eq_dec X Y) as [->|Hxy]; [apply Qle_refl|].
  apply Qle_trans with (1 # 2)%Q; [exact Hh|].
  (* |Y - q| >= |Y - X| - |X - q| >= 1 - 1/2 *)
  assert (H1 : (1 <= Qabs (inject_Z Y - inject_Z X))%Q).
  { unfold Qminus. rewrite <- inject_Z_opp, <- inject_Z_plus.
    unfold Qabs, inject_Z, Qle. cbn [Qnum Qden]. lia. }
  assert (H2 : (Qabs (inject_Z Y - inject_Z X) <= Qabs (inject_Z Y - q) + Qabs (inject_Z X - q))%Q).
  { setoid_replace (inject_Z Y - inject_Z X)%Q with ((inject_Z Y - q) + - (inject_Z X - q))%Q by ring.
    eapply Qle_trans; [apply Qabs_triangle|]. rewrite Qabs_opp. apply Qle_refl. }
  lra.
Qed.

(* storing what is presented under the same scaling gives the integer back *)
Lemma q_store_present : forall X s o, (0 < s)%Q -> q_store (q_present X s o) s o = X.
Proof.
  intros X s o Hs. rewrite q_store_law. apply rhe_unique.
  assert (Hne : ~ (s == 0)%Q) by (intro Z0; rewrite Z0 in Hs; discriminate).
  setoid_replace (inject_Z X - (q_present X s o - o) / s)%Q with 0%Q
    by (rewrite q_present_law; field; exact Hne).
  reflexivity.
Qed.

Lemma coord_fits_range : forall X, coord_fits X = true <-> - 2 ^ 31 <= X < 2 ^ 31.
Proof. intros X. unfold coord_fits, gen_setitem_fits, gen_coord_min, gen_coord_max. lia. Qed.

Lemma rescale_fits_range : forall X, rescale_fits X = true <-> - 2 ^ 31 <= X < 2 ^ 31.
Proof. intros X. unfold rescale_fits, gen_rescale_fits, gen_coord_min, gen_coord_max. lia. Qed.

Lemma q_checked_ok : forall v s o X,
  q_store_checked v s o = Ok X <-> X = q_store v s o /\ - 2 ^ 31 <= X < 2 ^ 31.
Proof.
  intros v s o X. unfold q_store_checked.
  destruct (coord_fits (q_store v s o)) eqn:F.
  - apply coord_fits_range in F. split.
    + intros H. inversion H. subst. split; [reflexivity|exact F].
    + intros [-> _]. reflexivity.
  - split; [discriminate|]. intros [-> H]. apply coord_fits_range in H. congruence.
Qed.

Lemma q_checked_err : forall v s o e,
  q_store_checked v s o = Err e <-> e = EOverflow /\ ~ (- 2 ^ 31 <= q_store v s o < 2 ^ 31).
Proof.
  intros v s o e. unfold q_store_checked.
  destruct (coord_fits (q_store v s o)) eqn:F.
  - apply coord_fits_range in F. split; [discriminate|]. intros [_ H]. contradiction.
  - split.
    + intros H. inversion H. split; [reflexivity|]. intro R. apply coord_fits_range in R. congruence.
    + intros [-> _]. reflexivity.
Qed.

Lemma q_rechecked_ok : forall v s o X,
  q_restore_checked v s o = Ok X <-> X = q_restore v s o /\ - 2 ^ 31 <= X < 2 ^ 31.
Proof.
  intros v s o X. unfold q_restore_checked.
  destruct (rescale_fits (q_restore v s o)) eqn:F.
  - apply rescale_fits_range in F. split.
    + intros H. inversion H. subst. split; [reflexivity|exact F].
    + intros [-> _]. reflexivity.
  - split; [discriminate|]. intros [-> H]. apply rescale_fits_range in H. congruence.
Qed.

Lemma q_rechecked_err : forall v s o e,
  q_restore_checked v s o = Err e <-> e = EOverflow /\ ~ (- 2 ^ 31 <= q_restore v s o < 2 ^ 31).
Proof.
  intros v s o e. unfold q_restore_checked.
  destruct (rescale_fits (q_restore v s o)) eqn:F.
  - apply rescale_fits_range in F. split; [discriminate|]. intros [_ H]. contradiction.
  - split.
    + intros H. inversion H. split; [reflexivity|]. intro R. apply rescale_fits_range in R. congruence.
    + intros [-> _]. reflexivity.
Qed.

(* ------------------------------------------------------------------------------------------------ *)
(* B. binary64: the stored integer is the tested one                                                 *)
(* ------------------------------------------------------------------------------------------------ *)

Lemma f_checked_ok : forall v s o X,
  f_store_checked v s o = Ok X <-> f_store v s o = Some X /\ - 2 ^ 31 <= X < 2 ^ 31.
Proof.
  intros v s o X. unfold f_store_checked. destruct (f_store v s o) as [Y|].
  - destruct (coord_fits Y) eqn:F.
    + apply coord_fits_range in F. split.
      * intros H. inversion H. subst. split; [reflexivity|exact F].
      * intros [H _]. inversion H. reflexivity.
    + split; [discriminate|]. intros [H R]. inversion H. subst. apply coord_fits_range in R. congruence.
  - split; [discriminate|]. intros [H _]. discriminate.
Qed.

Lemma f_checked_err : forall v s o e,
  f_store_checked v s o = Err e <->
  e = EOverflow /\ (f_store v s o = None \/ exists Y, f_store v s o = Some Y /\ ~ (- 2 ^ 31 <= Y < 2 ^ 31)).
Proof.
  intros v s o e. unfold f_store_checked. destruct (f_store v s o) as [Y|].
  - destruct (coord_fits Y) eqn:F.
    + apply coord_fits_range in F. split; [discriminate|].
      intros [_ [H|[Z [H N]]]]; [discriminate|]. inversion H. subst. contradiction.
    + split.
      * intros H. inversion H. split; [reflexivity|]. right. exists Y. split; [reflexivity|].
        intro R. apply coord_fits_range in R. congruence.
      * intros [-> _]. reflexivity.
  - split.
    + intros H. inversion H. split; [reflexivity|]. left. reflexivity.
    + intros [-> _]. reflexivity.
Qed.

Lemma f_rechecked_ok : forall v s o X,
  f_restore_checked v s o = Ok X <-> f_restore v s o = Some X /\ - 2 ^ 31 <= X < 2 ^ 31.
Proof.
  intros v s o X. unfold f_restore_checked. destruct (f_restore v s o) as [Y|].
  - destruct (rescale_fits Y) eqn:F.
    + apply rescale_fits_range in F. split.
      * intros H. inversion H. subst. split; [reflexivity|exact F].
      * intros [H _]. inversion H. reflexivity.
    + split; [discriminate|]. intros [H R]. inversion H. subst. apply rescale_fits_range in R. congruence.
  - split; [discriminate|]. intros [H _]. discriminate.
Qed.

Lemma f_rechecked_err : forall v s o e, f_restore_checked v s o = Err e -> e = EOverflow.
Proof.
  intros v s o e. unfold f_restore_checked. destruct (f_restore v s o) as [Y|].
  - destruct (rescale_fits Y); [discriminate|]. intros H. inversion H. reflexivity.
  - intros H. inversion H. reflexivity.
Qed.

(* ------------------------------------------------------------------------------------------------ *)
(* C. histories, for any arithmetic whose stores are range-checked                                   *)
(* ------------------------------------------------------------------------------------------------ *)

Definition fitsP (X : Z) : Prop := - 2 ^ 31 <= X < 2 ^ 31.

Section HistoryProofs.
  Variable T : Type.
  Variable present : Z -> T -> T -> T.
  Variable store restore : T -> T -> T -> result Z.
  Variable teqb : T -> T -> bool.
  Variable tdefault : T.
  Hypothesis store_fits : forall v s o X, store v s o = Ok X -> fitsP X.
  Hypothesis restore_fits : forall v s o X, restore v s o = Ok X -> fitsP X.
  Hypothesis store_err : forall v s o e, store v s o = Err e -> e = EOverflow.
  Hypothesis restore_err : forall v s o e, restore v s o = Err e -> e = EOverflow.

  Notation st := (st T).
  Notation step := (step T present store restore teqb tdefault).
  Notation run := (run T present store restore teqb tdefault).
  Notation write_points := (write_points T present restore teqb tdefault).
  Notation presented := (presented T present tdefault).
  Notation new_columns := (new_columns T present restore tdefault).
  Notation new_column := (new_column T present restore tdefault).
  Notation rec_change_scaling := (rec_change_scaling T present restore tdefault).
  Notation assign_rec := (assign_rec T store tdefault).
  Notation get := (get T).
  Notation column := (column T).
  Notation alloc := (alloc T).
  Notation rec_scale := (rec_scale T tdefault).
  Notation rec_offset := (rec_offset T tdefault).
  Notation at3 := (at3 T tdefault).

  (* ---- lists ---- *)
  Lemma mapM_ok : forall A B (f : A -> result B) l l',
    mapM f l = Ok l' -> Forall2 (fun a b => f a = Ok b) l l'.
  Proof.
    intros A B f l. induction l as [|a r IH]; intros l' H; cbn [mapM] in H.
    - inversion H. constructor.
    - destruct (f a) as [b|e] eqn:Fa; [|discriminate].
      destruct (mapM f r) as [bs|e] eqn:Fr; [|discriminate].
      inversion H. subst. constructor; [exact Fa|apply IH; reflexivity].
  Qed.

  Lemma mapM_err : forall A B (f : A -> result B) l e,
    mapM f l = Err e -> exists a, In a l /\ f a = Err e.
  Proof.
    intros A B f l. induction l as [|a r IH]; intros e H; cbn [mapM] in H.
    - discriminate.
    - destruct (f a) as [b|e1] eqn:Fa.
      + destruct (mapM f r) as [bs|e2] eqn:Fr; [discriminate|].
        inversion H. subst. destruct (IH e eq_refl) as [x [Hin Hx]]. exists x. split; [right; exact Hin|exact Hx].
      + inversion H. subst. exists a. split; [left; reflexivity|exact Fa].
  Qed.

  Lemma mapM_all_ok : forall A B (f : A -> result B) l,
    (forall a, In a l -> exists b, f a = Ok b) -> exists l', mapM f l = Ok l'.
  Proof.
    intros A B f l. induction l as [|a r IH]; intros H; cbn [mapM].
    - exists []. reflexivity.
    - destruct (H a (or_introl eq_refl)) as [b Hb]. rewrite Hb.
      destruct (IH (fun x Hx => H x (or_intror Hx))) as [bs Hbs]. rewrite Hbs. exists (b :: bs). reflexivity.
  Qed.

  Lemma Forall2_Forall_r : forall A B (R : A -> B -> Prop) (P : B -> Prop) l l',
    Forall2 R l l' -> (forall a b, R a b -> P b) -> Forall P l'.
  Proof. intros A B R P l l' H HP. induction H; constructor; eauto. Qed.

  Lemma set_at_length : forall A (l : list A) i x, length (set_at l i x) = length l.
  Proof. intros A l. induction l as [|a r IH]; intros [|i] x; cbn; auto. Qed.

  Lemma nth_set_at_same : forall A (l : list A) i x d, (i < length l)%nat -> nth i (set_at l i x) d = x.
  Proof.
    intros A l. induction l as [|a r IH]; intros [|i] x d H; cbn in *; try lia; auto. apply IH. lia.
  Qed.

  Lemma nth_set_at_other : forall A (l : list A) i j x d, i <> j -> nth j (set_at l i x) d = nth j l d.
  Proof.
    intros A l. induction l as [|a r IH]; intros [|i] [|j] x d H; cbn; auto; try congruence.
  Qed.

  Lemma Forall_set_at : forall A (P : A -> Prop) (l : list A) i x, Forall P l -> P x -> Forall P (set_at l i x).
  Proof.
    intros A P l. induction l as [|a r IH]; intros [|i] x Hl Hx; cbn; auto; inversion Hl; subst; constructor; auto.
  Qed.

  Lemma get_app_old : forall h a i, (i < length h)%nat -> get (h ++ [a]) i = get h i.
  Proof. intros h a i H. unfold Scaling.get. apply app_nth1. exact H. Qed.

  Lemma get_app_new : forall h a, get (h ++ [a]) (length h) = a.
  Proof. intros h a. unfold Scaling.get. rewrite app_nth2 by lia. rewrite Nat.sub_diag. reflexivity. Qed.

  (* ---- the invariant: ids point into the heap, every stored integer fits in 32 bits ---- *)
  Definition cols_fit (cols : list (list Z)) : Prop := Forall (Forall fitsP) cols.

  Record wf (s : st) : Prop := mkwf {
    wf_hs : (h_s s < length (heap s))%nat;
    wf_ho : (h_o s < length (heap s))%nat;
    wf_rs : (r_s s < length (heap s))%nat;
    wf_ro : (r_o s < length (heap s))%nat;
    wf_fit : cols_fit (ints s)
  }.

  (* the caller's objects: record integers, the arrays the record and the header refer to, and every array
     that existed before (arrays are only ever added) *)
  Definition same_objects (s s' : st) : Prop :=
    ints s' = ints s /\ r_s s' = r_s s /\ r_o s' = r_o s /\ h_s s' = h_s s /\ h_o s' = h_o s
    /\ (length (heap s) <= length (heap s'))%nat
    /\ forall i, (i < length (heap s))%nat -> get (heap s') i = get (heap s) i.

  Lemma same_objects_refl : forall s, same_objects s s.
  Proof. intros s. unfold same_objects. repeat split; auto. Qed.

  Lemma same_objects_trans : forall a b c, same_objects a b -> same_objects b c -> same_objects a c.
  Proof.
    intros a b c (A1 & A2 & A3 & A4 & A5 & A6 & A7) (B1 & B2 & B3 & B4 & B5 & B6 & B7).
    unfold same_objects. repeat split; try congruence; try lia.
    intros i Hi. rewrite B7 by lia. apply A7. exact Hi.
  Qed.

  Lemma alloc_same : forall s a, same_objects s (fst (alloc s a)).
  Proof.
    intros s a. unfold Scaling.alloc, same_objects. cbn. repeat split; auto.
    - rewrite app_length. cbn. lia.
    - intros i Hi. apply get_app_old. exact Hi.
  Qed.

  Lemma alloc_wf : forall s a, wf s -> wf (fst (alloc s a)) /\ (snd (alloc s a) < length (heap (fst (alloc s a))))%nat
                                   /\ get (heap (fst (alloc s a))) (snd (alloc s a)) = a.
  Proof.
    intros s a [H1 H2 H3 H4 H5]. unfold Scaling.alloc. cbn. split; [|split].
    - constructor; cbn; try (rewrite app_length; cbn; lia). exact H5.
    - rewrite app_length. cbn. lia.
    - apply get_app_new.
  Qed.

  (* ---- record-level rescaling ---- *)
  (* stated on the record's contents: integer columns cols, the arrays rs, ro its scales/offsets refer to *)
  Definition scale_of (rs : list T) (a : nat) : T := at3 rs (snd (fst (view_row a))).
  Definition offset_of (ro : list T) (a : nat) : T := at3 ro (snd (view_row a)).
  Definition col_of (cols : list (list Z)) (k : nat) : list Z := nth k cols [].
  Definition column_rescaled_c (cols : list (list Z)) (rs ro ns no : list T) (row : nat * nat * nat) (col : list Z) : Prop :=
    let '(a, i, j) := row in
    Forall2 (fun X X' => restore (present X (scale_of rs a) (offset_of ro a)) (at3 ns i) (at3 no j) = Ok X')
            (col_of cols (rec_dim a)) col.
  Definition column_rescaled (s : st) := column_rescaled_c (ints s) (get (heap s) (r_s s)) (get (heap s) (r_o s)).

  Lemma new_column_ok : forall s ns no row col,
    new_column s ns no row = Ok col -> column_rescaled s ns no row col /\ Forall fitsP col.
  Proof.
    intros s ns no [[a i] j] col H. unfold Scaling.new_column in H. apply mapM_ok in H.
    unfold Scaling.presented in H. split.
    - unfold column_rescaled, column_rescaled_c. change (col_of (ints s) (rec_dim a)) with (column s (rec_dim a)).
      revert col H. generalize (column s (rec_dim a)) as l.
      induction l as [|X r IH]; intros col H; cbn [map] in H; inversion H; subst; constructor; auto.
    - eapply Forall2_Forall_r; [exact H|]. intros v X Hv. eapply restore_fits. exact Hv.
  Qed.

  Lemma new_columns_ok : forall s ns no cols,
    new_columns s ns no = Ok cols ->
    Forall2 (column_rescaled s ns no) gen_rescale_axes cols /\ cols_fit cols.
  Proof.
    intros s ns no cols H. unfold Scaling.new_columns in H. apply mapM_ok in H. split.
    - revert H. generalize gen_rescale_axes as rows. intros rows H.
      induction H as [|row col rows cols Hrc Hrest IH]; constructor; auto. apply new_column_ok in Hrc. tauto.
    - unfold cols_fit. eapply Forall2_Forall_r; [exact H|]. intros row col Hrc. apply new_column_ok in Hrc. tauto.
  Qed.

  Lemma new_columns_err : forall s ns no e,
    new_columns s ns no = Err e ->
    e = EOverflow /\ exists a i j X, In (a, i, j) gen_rescale_axes /\ In X (column s (rec_dim a))
      /\ restore (present X (rec_scale s a) (rec_offset s a)) (at3 ns i) (at3 no j) = Err EOverflow.
  Proof.
    intros s ns no e H. unfold Scaling.new_columns in H. apply mapM_err in H.
    destruct H as [[[a i] j] [Hin H]]. unfold Scaling.new_column in H. apply mapM_err in H.
    destruct H as [v [Hv Hr]]. unfold Scaling.presented in Hv. apply in_map_iff in Hv. destruct Hv as [X [<- HX]].
    pose proof (restore_err _ _ _ _ Hr) as ->. split; [reflexivity|].
    exists a, i, j, X. auto.
  Qed.

  (* ---- write_points ---- *)
  Definition scaling_equal_c (rs ro ws wo : list T) : bool := arr_eqb T teqb rs ws && arr_eqb T teqb ro wo.
  Definition scaling_equal (s : st) := scaling_equal_c (get (heap s) (r_s s)) (get (heap s) (r_o s)).

  (* what a file written from a record (cols, rs, ro) by a writer with scaling ws, wo holds *)
  Definition file_of_c (cols : list (list Z)) (rs ro ws wo : list T) (f : file T) : Prop :=
    f_scales f = ws /\ f_offsets f = wo /\
    (col_of cols 0 = [] /\ f_ints f = [[]; []; []]
     \/ col_of cols 0 <> [] /\ scaling_equal_c rs ro ws wo = true /\ f_ints f = cols
     \/ col_of cols 0 <> [] /\ scaling_equal_c rs ro ws wo = false
        /\ Forall2 (column_rescaled_c cols rs ro ws wo) gen_rescale_axes (f_ints f)).
  Definition file_of (s : st) := file_of_c (ints s) (get (heap s) (r_s s)) (get (heap s) (r_o s)).

  Definition overflows_c (cols : list (list Z)) (rs ro ws wo : list T) : Prop :=
    exists a i j X, In (a, i, j) gen_rescale_axes /\ In X (col_of cols (rec_dim a))
      /\ restore (present X (scale_of rs a) (offset_of ro a)) (at3 ws i) (at3 wo j) = Err EOverflow.
  Definition overflows (s : st) := overflows_c (ints s) (get (heap s) (r_s s)) (get (heap s) (r_o s)).

  Lemma write_points_spec : forall s wsid woid, wf s ->
    let ws := get (heap s) wsid in let wo := get (heap s) woid in
    fst (write_points s wsid woid) = s /\
    match snd (write_points s wsid woid) with
    | OFile f => file_of s ws wo f /\ cols_fit (f_ints f)
    | OErr e => e = EOverflow /\ column s 0 <> [] /\ scaling_equal s ws wo = false /\ overflows s ws wo
    | ONone => False
    end.
  Proof.
    intros s wsid woid W ws wo. unfold Scaling.write_points. fold ws wo.
    destruct (Scaling.column T s 0) as [|x0 r0] eqn:C0.
    - cbn [fst snd]. split; [reflexivity|]. split.
      + unfold file_of. cbn [f_scales f_offsets f_ints]. split; [reflexivity|]. split; [reflexivity|].
        left. split; [exact C0|reflexivity].
      + unfold cols_fit. repeat constructor.
    - assert (NE : column s 0 <> []) by (rewrite C0; discriminate).
      change (arr_eqb T teqb (get (heap s) (r_s s)) ws && arr_eqb T teqb (get (heap s) (r_o s)) wo)
        with (scaling_equal s ws wo). destruct (scaling_equal s ws wo) eqn:SE.
      + cbn [fst snd]. split; [reflexivity|]. split.
        * unfold file_of. cbn [f_scales f_offsets f_ints]. split; [reflexivity|]. split; [reflexivity|].
          right. left. auto.
        * apply (wf_fit _ W).
      + unfold Scaling.rec_change_scaling. fold ws wo.
        destruct (new_columns s ws wo) as [cols|e] eqn:NC.
        * cbn [fst snd heap h_s h_o r_s r_o ints]. split; [destruct s; reflexivity|].
          apply new_columns_ok in NC. destruct NC as [N1 N2]. split; [|exact N2].
          unfold file_of. cbn [f_scales f_offsets f_ints]. split; [reflexivity|]. split; [reflexivity|].
          right. right. auto.
        * cbn [fst snd]. split; [reflexivity|]. apply new_columns_err in NC. destruct NC as [-> NC].
          repeat split; auto. discriminate.
  Qed.

  (* ---- one step keeps the invariant ---- *)
  Lemma assign_rec_wf : forall s a vals, wf s -> wf (fst (assign_rec s a vals)).
  Proof.
    intros s a vals W. unfold Scaling.assign_rec. destruct vals as [|v0 vr]; [exact W|].
    destruct (mapM _ (v0 :: vr)) as [xs|e] eqn:M; [|exact W].
    destruct (Nat.eqb _ _); [|exact W]. cbn.
    destruct W as [H1 H2 H3 H4 H5]. constructor; cbn; auto.
    unfold cols_fit. apply Forall_set_at; [exact H5|].
    apply mapM_ok in M. eapply Forall2_Forall_r; [exact M|]. intros v X Hv. eapply store_fits. exact Hv.
  Qed.

  Lemma grow_fit : forall cols m, cols_fit cols -> cols_fit (grow cols m).
  Proof.
    intros cols m H. unfold cols_fit, grow in *. induction H as [|c r Hc Hr IH]; cbn [map]; constructor; auto.
    apply Forall_app. split; [exact Hc|]. apply Forall_forall. intros x Hx. apply repeat_spec in Hx. subst x.
    unfold fitsP. lia.
  Qed.

  Lemma sync_wf : forall b s, wf s -> wf (sync T b s).
  Proof. intros [|] s W; cbn; [|exact W]. destruct W as [H1 H2 H3 H4 H5]. constructor; cbn; auto. Qed.

  Lemma lasdata_assign_wf : forall b s a vals, wf s -> wf (fst (lasdata_assign T store tdefault b s a vals)).
  Proof.
    intros b s a vals W. unfold Scaling.lasdata_assign.
    pose proof (sync_wf b s W) as W1.
    assert (W2 : wf (fst (assign_rec (mkst (heap (sync T b s)) (h_s (sync T b s)) (h_o (sync T b s)) (r_s (sync T b s)) (r_o (sync T b s))
                                          (grow (ints (sync T b s)) (length vals))) a vals))).
    { apply assign_rec_wf. destruct W1 as [H1 H2 H3 H4 H5]. constructor; cbn [heap h_s h_o r_s r_o ints]; auto. apply grow_fit. exact H5. }
    destruct (assign_rec _ a vals) as [s' x]. cbn [fst snd] in *. destruct x; cbn [fst]; auto.
  Qed.

  Lemma assign_axes_wf : forall axes s k vals, wf s -> wf (fst (assign_axes T store tdefault s axes k vals)).
  Proof.
    intros axes. induction axes as [|a r IH]; intros s k vals W; cbn [Scaling.assign_axes]; [exact W|].
    pose proof (lasdata_assign_wf false s a (nth k vals []) W) as W1.
    destruct (lasdata_assign T store tdefault false s a (nth k vals [])) as [s1 x]. cbn [fst] in W1.
    destruct x; [apply IH; exact W1|exact W1|exact W1].
  Qed.

  Lemma step_wf : forall s o, wf s -> wf (fst (step s o)).
  Proof.
    intros s o W. destruct o as [a|a|ax v|ax v|ax vals|vals|ax vals|ns no| |ws wo]; cbn [Scaling.step].
    - destruct (alloc_wf s a W) as [[H1 H2 H3 H4 H5] [Hi _]]. destruct (alloc s a) as [s1 i] eqn:A. cbn in *.
      constructor; cbn; auto.
    - destruct (alloc_wf s a W) as [[H1 H2 H3 H4 H5] [Hi _]]. destruct (alloc s a) as [s1 i] eqn:A. cbn in *.
      constructor; cbn; auto.
    - destruct W as [H1 H2 H3 H4 H5]. cbn. constructor; cbn; rewrite ?set_at_length; auto.
    - destruct W as [H1 H2 H3 H4 H5]. cbn. constructor; cbn; rewrite ?set_at_length; auto.
    - apply lasdata_assign_wf. exact W.
    - apply assign_axes_wf. apply sync_wf. exact W.
    - apply assign_rec_wf. exact W.
    - assert (A1 : exists s1 sid, (match ns with Some a => alloc s a | None => (s, r_s s) end) = (s1, sid)
                   /\ wf s1 /\ (sid < length (heap s1))%nat).
      { destruct ns as [a|].
        - destruct (alloc_wf s a W) as [Hw [Hi _]]. destruct (alloc s a) as [s1 i]. exists s1, i. auto.
        - exists s, (r_s s). split; [reflexivity|]. split; [exact W|apply (wf_rs _ W)]. }
      destruct A1 as (s1 & sid & -> & W1 & Hsid).
      assert (A2 : exists s2 oid, (match no with Some a => alloc s1 a | None => (s1, r_o s1) end) = (s2, oid)
                   /\ wf s2 /\ (oid < length (heap s2))%nat /\ (length (heap s1) <= length (heap s2))%nat).
      { destruct no as [a|].
        - destruct (alloc_wf s1 a W1) as [Hw [Hi _]]. pose proof (alloc_same s1 a) as Hs.
          destruct (alloc s1 a) as [s2 i]. exists s2, i. cbn in *. unfold same_objects in Hs. intuition.
        - exists s1, (r_o s1). split; [reflexivity|]. split; [exact W1|]. split; [apply (wf_ro _ W1)|lia]. }
      destruct A2 as (s2 & oid & -> & W2 & Hoid & Hlen).
      unfold Scaling.rec_change_scaling.
      destruct (new_columns s2 _ _) as [cols|e] eqn:NC; cbn; [|exact W2].
      apply new_columns_ok in NC. destruct NC as [_ NF].
      destruct W2 as [H1 H2 H3 H4 H5]. constructor; cbn; auto; try lia.
      + destruct ns; [lia|exact H1].
      + destruct no; [exact Hoid|exact H2].
    - destruct (alloc_wf s (get (heap s) (h_s s)) W) as [W1 _].
      destruct (alloc s (get (heap s) (h_s s))) as [s1 wsid]. cbn [fst] in W1.
      destruct (alloc_wf s1 (get (heap s1) (h_o s1)) W1) as [W2 _].
      destruct (alloc s1 (get (heap s1) (h_o s1))) as [s2 woid]. cbn [fst] in W2.
      destruct (write_points_spec s2 wsid woid W2) as [-> _]. exact W2.
    - destruct (alloc_wf s ws W) as [W1 _].
      destruct (alloc s ws) as [s1 wsid]. cbn [fst] in W1.
      destruct (alloc_wf s1 wo W1) as [W2 _].
      destruct (alloc s1 wo) as [s2 woid]. cbn [fst] in W2.
      destruct (write_points_spec s2 wsid woid W2) as [-> _]. exact W2.
  Qed.

  Lemma run_wf : forall ops s, wf s -> wf (fst (run s ops)).
  Proof.
    intros ops. induction ops as [|o r IH]; intros s W; cbn [Scaling.run]; [exact W|].
    pose proof (step_wf s o W) as W1. destruct (step s o) as [s1 x]. cbn [fst] in W1.
    specialize (IH s1 W1). destruct (run s1 r) as [s2 xs]. exact IH.
  Qed.

  (* ---- the writer: Write and StreamInto ---- *)
  Lemma alloc2_facts : forall s a b, wf s ->
    let s2 := mkst ((heap s ++ [a]) ++ [b]) (h_s s) (h_o s) (r_s s) (r_o s) (ints s) in
    wf s2 /\ same_objects s s2 /\ get (heap s2) (length (heap s)) = a /\ get (heap s2) (length (heap s ++ [a])) = b
    /\ get (heap s2) (r_s s2) = get (heap s) (r_s s) /\ get (heap s2) (r_o s2) = get (heap s) (r_o s).
  Proof.
    intros s a b [H1 H2 H3 H4 H5] s2. subst s2. cbn [heap h_s h_o r_s r_o ints].
    assert (L : forall i, (i < length (heap s))%nat -> get ((heap s ++ [a]) ++ [b]) i = get (heap s) i).
    { intros i Hi. rewrite get_app_old by (rewrite app_length; cbn; lia). apply get_app_old. exact Hi. }
    split; [|split; [|split; [|split; [|split]]]].
    - constructor; cbn [heap h_s h_o r_s r_o ints]; rewrite ?app_length; cbn [length]; try lia. exact H5.
    - unfold same_objects. cbn [heap h_s h_o r_s r_o ints]. repeat split; auto.
      rewrite !app_length. cbn. lia.
    - rewrite get_app_old by (rewrite app_length; cbn; lia). apply get_app_new.
    - apply get_app_new.
    - apply L. exact H3.
    - apply L. exact H4.
  Qed.

  Definition written (s : st) (ws wo : list T) (r : st * out T) : Prop :=
    same_objects s (fst r) /\
    match snd r with
    | OFile f => file_of_c (ints s) (get (heap s) (r_s s)) (get (heap s) (r_o s)) ws wo f /\ cols_fit (f_ints f)
    | OErr e => e = EOverflow /\ col_of (ints s) 0 <> []
                /\ scaling_equal_c (get (heap s) (r_s s)) (get (heap s) (r_o s)) ws wo = false
                /\ overflows_c (ints s) (get (heap s) (r_s s)) (get (heap s) (r_o s)) ws wo
    | ONone => False
    end.

  Lemma write_points_alloc2 : forall s a b, wf s ->
    written s a b (write_points (mkst ((heap s ++ [a]) ++ [b]) (h_s s) (h_o s) (r_s s) (r_o s) (ints s))
                                (length (heap s)) (length (heap s ++ [a]))).
  Proof.
    intros s a b W. destruct (alloc2_facts s a b W) as (W2 & SO & Ga & Gb & Grs & Gro).
    pose proof (write_points_spec _ (length (heap s)) (length (heap s ++ [a])) W2) as HS. cbv zeta in HS.
    unfold written. unfold Scaling.arr3 in *.
    match goal with |- context [fst ?w] => set (r := w) in * end.
    destruct r as [s' x]. cbn [fst snd] in *. destruct HS as [F S]. subst s'. split; [exact SO|].
    unfold file_of, overflows, scaling_equal, Scaling.column in S.
    cbn [heap h_s h_o r_s r_o ints] in *.
    rewrite Ga, Gb, Grs, Gro in S. exact S.
  Qed.

  Lemma step_stream_spec : forall s ws wo, wf s -> written s ws wo (step s (StreamInto ws wo)).
  Proof. intros s ws wo W. cbn [Scaling.step Scaling.alloc heap h_s h_o r_s r_o ints]. apply write_points_alloc2. exact W. Qed.

  (* las.write: the file carries the header's scaling *)
  Lemma step_write_spec : forall s, wf s ->
    written s (get (heap s) (h_s s)) (get (heap s) (h_o s)) (step s Write).
  Proof.
    intros s W. cbn [Scaling.step Scaling.alloc heap h_s h_o r_s r_o ints].
    rewrite (get_app_old (heap s) (get (heap s) (h_s s)) (h_o s)) by apply (wf_ho _ W).
    apply write_points_alloc2. exact W.
  Qed.

  (* ---- las.x = vals ---- *)
  (* cols0: the columns before the assignment, cols: the same with the zero points appended for a longer value;
     a refused assignment leaves cols0 *)
  Definition assigned (cols0 cols : list (list Z)) (ss so : list T) (a : nat) (vals : list T) (cols' : list (list Z)) (x : out T) : Prop :=
    match x with
    | ONone => vals = [] /\ cols' = cols
               \/ exists xs, Forall2 (fun v X => store v (scale_of ss a) (offset_of so a) = Ok X) vals xs
                             /\ length xs = length (col_of cols (rec_dim a)) /\ cols' = set_at cols (rec_dim a) xs
    | OErr e => cols' = cols0 /\
                (e = EOverflow /\ (exists v, In v vals /\ store v (scale_of ss a) (offset_of so a) = Err EOverflow)
                 \/ e = EValue /\ length vals <> length (col_of cols (rec_dim a)))
    | OFile _ => False
    end.

  Lemma assign_rec_spec : forall s a vals,
    let r := assign_rec s a vals in
    heap (fst r) = heap s /\ h_s (fst r) = h_s s /\ h_o (fst r) = h_o s /\ r_s (fst r) = r_s s /\ r_o (fst r) = r_o s /\
    assigned (ints s) (ints s) (get (heap s) (r_s s)) (get (heap s) (r_o s)) a vals (ints (fst r)) (snd r).
  Proof.
    intros s a vals. unfold Scaling.assign_rec. destruct vals as [|v0 vr].
    - cbn. repeat split; auto.
    - destruct (mapM _ (v0 :: vr)) as [xs|e] eqn:M.
      + pose proof (mapM_ok _ _ _ _ _ M) as F.
        assert (L : length xs = length (v0 :: vr)).
        { clear M. revert F. generalize (v0 :: vr) as l. intros l F. induction F; cbn; auto. }
        destruct (Nat.eqb (length xs) (length (column s (rec_dim a)))) eqn:E.
        * apply Nat.eqb_eq in E. cbn [fst snd heap h_s h_o r_s r_o ints]. repeat split; auto.
          unfold assigned. right. exists xs. repeat split; auto.
        * apply Nat.eqb_neq in E. cbn [fst snd heap h_s h_o r_s r_o ints]. repeat split; auto.
          right. split; [reflexivity|]. rewrite <- L. exact E.
      + cbn [fst snd heap h_s h_o r_s r_o ints]. repeat split; auto. apply mapM_err in M. destruct M as [v [Hin Hv]].
        pose proof (store_err _ _ _ _ Hv) as ->. left. split; [reflexivity|]. exists v. auto.
  Qed.

  Lemma step_assign_spec : forall s a vals,
    let r := step s (Assign a vals) in
    heap (fst r) = heap s /\ h_s (fst r) = h_s s /\ h_o (fst r) = h_o s
    /\ r_s (fst r) = h_s s /\ r_o (fst r) = h_o s      (* the record now uses the header's arrays, even when the assignment fails *)
    /\ assigned (ints s) (grow (ints s) (length vals)) (get (heap s) (h_s s)) (get (heap s) (h_o s)) a vals (ints (fst r)) (snd r).
  Proof.
    intros s a vals. cbn [Scaling.step]. unfold Scaling.lasdata_assign. change gen_setattr_syncs with true.
    cbn [Scaling.sync heap h_s h_o r_s r_o ints].
    pose proof (assign_rec_spec (mkst (heap s) (h_s s) (h_o s) (h_s s) (h_o s) (grow (ints s) (length vals))) a vals) as H.
    cbv zeta in H. cbn [heap h_s h_o r_s r_o ints] in H.
    destruct (assign_rec (mkst (heap s) (h_s s) (h_o s) (h_s s) (h_o s) (grow (ints s) (length vals))) a vals) as [s' x].
    cbn [fst snd] in *. destruct H as (A & B & C & D & E & F).
    destruct x as [|e|f]; cbn [fst snd heap h_s h_o r_s r_o ints].
    - repeat (split; [assumption|]). exact F.
    - do 5 (split; [reflexivity|]). unfold assigned in *. destruct F as [_ F]. split; [reflexivity|exact F].
    - repeat (split; [assumption|]). exact F.
  Qed.

  Lemma lasdata_assign_refs : forall b s a vals,
    let r := lasdata_assign T store tdefault b s a vals in
    heap (fst r) = heap s /\ h_s (fst r) = h_s s /\ h_o (fst r) = h_o s
    /\ r_s (fst r) = r_s (sync T b s) /\ r_o (fst r) = r_o (sync T b s).
  Proof.
    intros b s a vals. unfold Scaling.lasdata_assign.
    set (s1 := sync T b s).
    assert (HS : heap s1 = heap s /\ h_s s1 = h_s s /\ h_o s1 = h_o s) by (destruct b; cbn; auto).
    destruct HS as (S1 & S2 & S3).
    pose proof (assign_rec_spec (mkst (heap s1) (h_s s1) (h_o s1) (r_s s1) (r_o s1) (grow (ints s1) (length vals))) a vals) as H.
    cbv zeta in H. cbn [heap h_s h_o r_s r_o ints] in H.
    destruct (assign_rec (mkst (heap s1) (h_s s1) (h_o s1) (r_s s1) (r_o s1) (grow (ints s1) (length vals))) a vals) as [s' x].
    cbn [fst snd] in *. destruct H as (A & B & C & D & E & _).
    destruct x as [|e|f]; cbn [fst snd]; rewrite ?A, ?B, ?C, ?D, ?E; auto.
  Qed.

  (* las.xyz = value is las.x = column 0; las.y = column 1; las.z = column 2, stopping at the first error *)
  Definition then_assign (r : st * out T) (a : nat) (vals : list T) : st * out T :=
    match snd r with ONone => step (fst r) (Assign a vals) | _ => r end.

  Lemma assign_rec_refs : forall s a vals,
    r_s (fst (assign_rec s a vals)) = r_s s /\ r_o (fst (assign_rec s a vals)) = r_o s
    /\ h_s (fst (assign_rec s a vals)) = h_s s /\ h_o (fst (assign_rec s a vals)) = h_o s.
  Proof. intros s a vals. destruct (assign_rec_spec s a vals) as (A & B & C & D & E & _). auto. Qed.

  Lemma sync_synced : forall s, r_s s = h_s s -> r_o s = h_o s -> sync T true s = s.
  Proof. intros [hp hs ho rs ro it] E1 E2. cbn in *. subst. reflexivity. Qed.

  Lemma step_assign_xyz_seq : forall s vals,
    step s (AssignXYZ vals) =
    then_assign (then_assign (step s (Assign 0 (nth 0 vals []))) 1 (nth 1 vals [])) 2 (nth 2 vals []).
  Proof.
    intros s vals. cbn [Scaling.step]. change gen_xyz_syncs with true. change gen_setattr_syncs with true.
    change gen_xyz_axes with [0; 1; 2]%nat. cbn [Scaling.assign_axes].
    (* the first axis: both sides assign on the synced record *)
    assert (E0 : lasdata_assign T store tdefault false (sync T true s) 0 (nth 0 vals [])
                 = lasdata_assign T store tdefault true s 0 (nth 0 vals [])).
    { unfold Scaling.lasdata_assign. cbn [Scaling.sync heap h_s h_o r_s r_o ints]. reflexivity. }
    rewrite E0.
    assert (Synced : forall s' a v, r_s s' = h_s s' -> r_o s' = h_o s' ->
              lasdata_assign T store tdefault false s' a v = lasdata_assign T store tdefault true s' a v
              /\ r_s (fst (lasdata_assign T store tdefault true s' a v)) = h_s (fst (lasdata_assign T store tdefault true s' a v))
              /\ r_o (fst (lasdata_assign T store tdefault true s' a v)) = h_o (fst (lasdata_assign T store tdefault true s' a v))).
    { intros s' a v E1 E2. split.
      - unfold Scaling.lasdata_assign. rewrite (sync_synced s' E1 E2). cbn [Scaling.sync]. reflexivity.
      - destruct (lasdata_assign_refs true s' a v) as (A & B & C & D & E). cbv zeta in *. cbn [Scaling.sync r_s r_o] in D, E.
        rewrite B, C, D, E. auto. }
    assert (S0 : r_s (fst (lasdata_assign T store tdefault true s 0 (nth 0 vals []))) = h_s (fst (lasdata_assign T store tdefault true s 0 (nth 0 vals [])))
                 /\ r_o (fst (lasdata_assign T store tdefault true s 0 (nth 0 vals []))) = h_o (fst (lasdata_assign T store tdefault true s 0 (nth 0 vals [])))).
    { destruct (lasdata_assign_refs true s 0%nat (nth 0 vals [])) as (A & B & C & D & E). cbv zeta in *. cbn [Scaling.sync r_s r_o] in D, E.
      rewrite B, C, D, E. auto. }
    unfold then_assign. cbn [Scaling.step]. change gen_setattr_syncs with true.
    destruct (lasdata_assign T store tdefault true s 0 (nth 0 vals [])) as [s1 x1]. cbn [fst snd] in *.
    destruct x1; [|reflexivity|reflexivity].
    destruct S0 as [E1 E2]. destruct (Synced s1 1%nat (nth 1 vals []) E1 E2) as (-> & F1 & F2).
    destruct (lasdata_assign T store tdefault true s1 1 (nth 1 vals [])) as [s2 x2]. cbn [fst snd] in *.
    destruct x2; [|reflexivity|reflexivity].
    destruct (Synced s2 2%nat (nth 2 vals []) F1 F2) as (-> & _ & _).
    destruct (lasdata_assign T store tdefault true s2 2 (nth 2 vals [])) as [s3 x3]. destruct x3; reflexivity.
  Qed.

  Lemma step_rec_assign_spec : forall s a vals,
    let r := step s (RecAssign a vals) in
    heap (fst r) = heap s /\ h_s (fst r) = h_s s /\ h_o (fst r) = h_o s /\ r_s (fst r) = r_s s /\ r_o (fst r) = r_o s
    /\ assigned (ints s) (ints s) (get (heap s) (r_s s)) (get (heap s) (r_o s)) a vals (ints (fst r)) (snd r).
  Proof. intros s a vals. cbn [Scaling.step]. apply assign_rec_spec. Qed.

  (* ---- las.change_scaling ---- *)
  Lemma step_change_scaling_spec : forall s ns no, wf s ->
    let r := step s (ChangeScaling ns no) in
    let rs := get (heap s) (r_s s) in let ro := get (heap s) (r_o s) in
    let ns' := match ns with Some a => a | None => rs end in
    let no' := match no with Some a => a | None => ro end in
    (forall i, (i < length (heap s))%nat -> get (heap (fst r)) i = get (heap s) i) /\
    match snd r with
    | ONone => get (heap (fst r)) (r_s (fst r)) = ns' /\ get (heap (fst r)) (r_o (fst r)) = no'
               /\ h_s (fst r) = (match ns with Some _ => r_s (fst r) | None => h_s s end)
               /\ h_o (fst r) = (match no with Some _ => r_o (fst r) | None => h_o s end)
               /\ Forall2 (column_rescaled_c (ints s) rs ro ns' no') gen_rescale_axes (ints (fst r))
    | OErr e => e = EOverflow /\ overflows_c (ints s) rs ro ns' no'
                /\ ints (fst r) = ints s /\ r_s (fst r) = r_s s /\ r_o (fst r) = r_o s /\ h_s (fst r) = h_s s /\ h_o (fst r) = h_o s
    | OFile _ => False
    end.
  Proof.
    intros s ns no W r rs ro ns' no'. subst r. cbn [Scaling.step].
    set (p1 := match ns with Some a => alloc s a | None => (s, r_s s) end).
    assert (A1 : wf (fst p1) /\ same_objects s (fst p1) /\ get (heap (fst p1)) (snd p1) = ns' /\ (snd p1 < length (heap (fst p1)))%nat).
    { subst p1 ns'. destruct ns as [a|].
      - destruct (alloc_wf s a W) as (Hw & Hi & Hg). pose proof (alloc_same s a). auto.
      - cbn. split; [exact W|]. split; [apply same_objects_refl|]. split; [reflexivity|apply (wf_rs _ W)]. }
    destruct p1 as [s1 sid]. cbn [fst snd] in A1. destruct A1 as (W1 & SO1 & G1 & L1).
    set (p2 := match no with Some a => alloc s1 a | None => (s1, r_o s1) end).
    assert (A2 : wf (fst p2) /\ same_objects s1 (fst p2) /\ get (heap (fst p2)) (snd p2) = no' /\ (snd p2 < length (heap (fst p2)))%nat).
    { subst p2 no'. destruct no as [a|].
      - destruct (alloc_wf s1 a W1) as (Hw & Hi & Hg). pose proof (alloc_same s1 a). auto.
      - cbn. split; [exact W1|]. split; [apply same_objects_refl|]. split; [|apply (wf_ro _ W1)].
        destruct SO1 as (_ & _ & -> & _ & _ & _ & Hh). apply Hh. apply (wf_ro _ W). }
    destruct p2 as [s2 oid]. cbn [fst snd] in A2. destruct A2 as (W2 & SO2 & G2 & L2).
    pose proof (same_objects_trans _ _ _ SO1 SO2) as SO.
    assert (G1' : get (heap s2) sid = ns').
    { destruct SO2 as (_ & _ & _ & _ & _ & _ & Hh). rewrite Hh by exact L1. exact G1. }
    destruct SO as (I & RS & RO & HS & HO & LL & HH).
    assert (Grs : get (heap s2) (r_s s2) = rs) by (rewrite RS; apply HH; apply (wf_rs _ W)).
    assert (Gro : get (heap s2) (r_o s2) = ro) by (rewrite RO; apply HH; apply (wf_ro _ W)).
    unfold Scaling.rec_change_scaling. rewrite G1', G2.
    destruct (new_columns s2 ns' no') as [cols|e] eqn:NC; cbn [fst snd heap h_s h_o r_s r_o ints].
    - split; [exact HH|]. apply new_columns_ok in NC. destruct NC as [N1 _].
      unfold column_rescaled in N1. rewrite Grs, Gro, I in N1.
      split; [exact G1'|]. split; [exact G2|]. split; [destruct ns; auto|]. split; [destruct no; auto|]. exact N1.
    - split; [exact HH|]. apply new_columns_err in NC. destruct NC as [-> NC].
      split; [reflexivity|]. split; [|auto].
      unfold overflows_c. change (column s2) with (col_of (ints s2)) in NC.
      unfold Scaling.rec_scale, Scaling.rec_offset in NC. rewrite Grs, Gro, I in NC. exact NC.
  Qed.
End HistoryProofs.

Arguments wf {T}. Arguments same_objects {T}.

(* ------------------------------------------------------------------------------------------------ *)
(* D. the axis tables of the source, and the per-axis reading of the generic statements              *)
(* ------------------------------------------------------------------------------------------------ *)

Lemma rescale_axes_table : gen_rescale_axes = [(0, 0, 0); (1, 1, 1); (2, 2, 2)]%nat.
Proof. reflexivity. Qed.
Lemma view_axes_table : gen_view_axes = [(0, 0, 0); (1, 1, 1); (2, 2, 2)]%nat.
Proof. reflexivity. Qed.

Lemma view_row_axis : forall k, (k < 3)%nat -> view_row k = (k, k, k).
Proof. intros [|[|[|k]]] H; try lia; reflexivity. Qed.

Section Axes.
  Variable T : Type.
  Variable present : Z -> T -> T -> T.
  Variable restore : T -> T -> T -> result Z.
  Variable teqb : T -> T -> bool.
  Variable d : T.

  (* X' is what the record-level rescaling stores for the integer X of axis k *)
  Definition rescaled_int (rs ro ws wo : list T) (k : nat) (X X' : Z) : Prop :=
    restore (present X (at3 T d rs k) (at3 T d ro k)) (at3 T d ws k) (at3 T d wo k) = Ok X'.

  Lemma rescaled_axes : forall cols rs ro ns no fcols,
    Forall2 (column_rescaled_c T present restore d cols rs ro ns no) gen_rescale_axes fcols ->
    length fcols = 3%nat /\
    forall k, (k < 3)%nat -> Forall2 (rescaled_int rs ro ns no k) (nth k cols []) (nth k fcols []).
  Proof.
    intros cols rs ro ns no fcols H. rewrite rescale_axes_table in H.
    inversion H as [|r0 c0 l0 l0' H0 T0]; subst. inversion T0 as [|r1 c1 l1 l1' H1 T1]; subst.
    inversion T1 as [|r2 c2 l2 l2' H2 T2]; subst. inversion T2; subst.
    split; [reflexivity|]. intros [|[|[|k]]] Hk; try lia; cbn [nth]; [exact H0|exact H1|exact H2].
  Qed.

  Lemma overflows_axes : forall cols rs ro ws wo,
    overflows_c T present restore d cols rs ro ws wo ->
    exists k X, (k < 3)%nat /\ In X (nth k cols []) /\
      restore (present X (at3 T d rs k) (at3 T d ro k)) (at3 T d ws k) (at3 T d wo k) = Err EOverflow.
  Proof.
    intros cols rs ro ws wo (a & i & j & X & Hin & HX & HR). rewrite rescale_axes_table in Hin.
    cbn [In] in Hin. destruct Hin as [E|[E|[E|[]]]]; inversion E; subst.
    - exists 0%nat, X. split; [lia|]. split; [exact HX|exact HR].
    - exists 1%nat, X. split; [lia|]. split; [exact HX|exact HR].
    - exists 2%nat, X. split; [lia|]. split; [exact HX|exact HR].
  Qed.

  (* the outcome of a write by a writer with scaling ws, wo, read axis by axis *)
  Definition file_axes (cols : list (list Z)) (rs ro ws wo : list T) (f : file T) : Prop :=
    f_scales f = ws /\ f_offsets f = wo /\ cols_fit (f_ints f) /\
    (nth 0 cols [] = [] /\ f_ints f = [[]; []; []]
     \/ nth 0 cols [] <> [] /\ scaling_equal_c T teqb rs ro ws wo = true /\ f_ints f = cols
     \/ nth 0 cols [] <> [] /\ scaling_equal_c T teqb rs ro ws wo = false /\ length (f_ints f) = 3%nat
        /\ forall k, (k < 3)%nat -> Forall2 (rescaled_int rs ro ws wo k) (nth k cols []) (nth k (f_ints f) [])).

  Definition write_outcome (s : st T) (ws wo : list T) (r : st T * out T) : Prop :=
    let rs := get T (heap s) (r_s s) in let ro := get T (heap s) (r_o s) in
    same_objects s (fst r) /\
    match snd r with
    | OFile f => file_axes (ints s) rs ro ws wo f
    | OErr e => e = EOverflow /\ nth 0 (ints s) [] <> [] /\ scaling_equal_c T teqb rs ro ws wo = false /\
                exists k X, (k < 3)%nat /\ In X (nth k (ints s) []) /\
                  restore (present X (at3 T d rs k) (at3 T d ro k)) (at3 T d ws k) (at3 T d wo k) = Err EOverflow
    | ONone => False
    end.

  Lemma written_outcome : forall s ws wo r,
    written T present restore teqb d s ws wo r -> write_outcome s ws wo r.
  Proof.
    intros s ws wo [s' x] [SO H]. unfold write_outcome. cbn [fst snd] in *. split; [exact SO|].
    destruct x as [|e|f]; [exact H| |].
    - destruct H as (-> & NE & SE & OV). repeat split; auto. apply overflows_axes. exact OV.
    - destruct H as [(FS & FO & FI) CF]. unfold file_axes. repeat split; auto.
      destruct FI as [[E1 E2]|[(N & SE & E)|(N & SE & F2)]]; [left; auto|right; left; auto|right; right].
      apply rescaled_axes in F2. destruct F2 as [L F2]. auto.
  Qed.
End Axes.

(* ------------------------------------------------------------------------------------------------ *)
(* E. the two instances                                                                              *)
(* ------------------------------------------------------------------------------------------------ *)

Lemma q_store_fits : forall v s o X, q_store_checked v s o = Ok X -> fitsP X.
Proof. intros v s o X H. apply q_checked_ok in H. exact (proj2 H). Qed.
Lemma q_restore_fits : forall v s o X, q_restore_checked v s o = Ok X -> fitsP X.
Proof. intros v s o X H. apply q_rechecked_ok in H. exact (proj2 H). Qed.
Lemma q_store_err : forall v s o e, q_store_checked v s o = Err e -> e = EOverflow.
Proof. intros v s o e H. apply q_checked_err in H. exact (proj1 H). Qed.
Lemma q_restore_err : forall v s o e, q_restore_checked v s o = Err e -> e = EOverflow.
Proof. intros v s o e H. apply q_rechecked_err in H. exact (proj1 H). Qed.

Lemma f_store_fits : forall v s o X, f_store_checked v s o = Ok X -> fitsP X.
Proof. intros v s o X H. apply f_checked_ok in H. exact (proj2 H). Qed.
Lemma f_restore_fits : forall v s o X, f_restore_checked v s o = Ok X -> fitsP X.
Proof. intros v s o X H. apply f_rechecked_ok in H. exact (proj2 H). Qed.
Lemma f_store_err : forall v s o e, f_store_checked v s o = Err e -> e = EOverflow.
Proof. intros v s o e H. apply f_checked_err in H. exact (proj1 H). Qed.

(* after any history the invariant holds: every integer of the record fits in 32 bits *)
Lemma q_run_wf : forall ops s, wf s -> wf (fst (q_run s ops)).
Proof. intros ops s. apply run_wf; [exact q_store_fits|exact q_restore_fits|exact q_restore_err]. Qed.
Lemma f_run_wf : forall ops s, wf s -> wf (fst (f_run s ops)).
Proof. intros ops s. apply run_wf; [exact f_store_fits|exact f_restore_fits|exact f_rechecked_err]. Qed.

Lemma init_wf : forall T sc off cols, cols_fit cols -> wf (init T sc off cols).
Proof. intros T sc off cols H. constructor; cbn; try lia. exact H. Qed.

(* write / stream after any history *)
Lemma q_write_after : forall ops s0, wf s0 ->
  let s := fst (q_run s0 ops) in
  write_outcome Q q_present q_restore_checked Qeq_bool 0%Q s (get Q (heap s) (h_s s)) (get Q (heap s) (h_o s)) (q_step s Write).
Proof.
  intros ops s0 W s. apply written_outcome.
  apply step_write_spec; [exact q_restore_fits|exact q_restore_err|]. apply q_run_wf. exact W.
Qed.

Lemma q_stream_after : forall ops s0 ws wo, wf s0 ->
  let s := fst (q_run s0 ops) in
  write_outcome Q q_present q_restore_checked Qeq_bool 0%Q s ws wo (q_step s (StreamInto ws wo)).
Proof.
  intros ops s0 ws wo W s. apply written_outcome.
  apply step_stream_spec; [exact q_restore_fits|exact q_restore_err|]. apply q_run_wf. exact W.
Qed.

Lemma f_write_after : forall ops s0, wf s0 ->
  let s := fst (f_run s0 ops) in
  write_outcome fl f_present f_restore_checked fl_eqb None s (get fl (heap s) (h_s s)) (get fl (heap s) (h_o s)) (f_step s Write).
Proof.
  intros ops s0 W s. apply written_outcome.
  apply step_write_spec; [exact f_restore_fits|exact f_rechecked_err|]. apply f_run_wf. exact W.
Qed.

Lemma f_stream_after : forall ops s0 ws wo, wf s0 ->
  let s := fst (f_run s0 ops) in
  write_outcome fl f_present f_restore_checked fl_eqb None s ws wo (f_step s (StreamInto ws wo)).
Proof.
  intros ops s0 ws wo W s. apply written_outcome.
  apply step_stream_spec; [exact f_restore_fits|exact f_rechecked_err|]. apply f_run_wf. exact W.
Qed.

(* ---- exact instance: what the file shows is within half a step of what the record showed ---- *)
Lemma q_present_wd : forall X s s' o o', (s == s')%Q -> (o == o')%Q -> (q_present X s o == q_present X s' o')%Q.
Proof. intros X s s' o o' Hs Ho. rewrite !q_present_law, Hs, Ho. reflexivity. Qed.

Lemma arr_eqb_at3 : forall a b, arr_eqb Q Qeq_bool a b = true -> forall k, (at3 Q 0%Q a k == at3 Q 0%Q b k)%Q.
Proof.
  intros a b H. unfold arr_eqb in H. apply andb_true_iff in H. destruct H as [L F]. apply Nat.eqb_eq in L.
  revert b L F. induction a as [|x a IH]; intros [|y b] L F k; cbn in L; try discriminate.
  - reflexivity.
  - cbn [combine forallb fst snd] in F. apply andb_true_iff in F. destruct F as [F1 F2].
    destruct k as [|k]; unfold at3; cbn [nth].
    + apply Qeq_bool_iff. exact F1.
    + apply (IH b); [lia|exact F2].
Qed.

Definition q_close (rs ro ws wo : list Q) (k : nat) (X X' : Z) : Prop :=
  (0 < at3 Q 0 ws k)%Q ->
  (Qabs (q_present X' (at3 Q 0 ws k) (at3 Q 0 wo k) - q_present X (at3 Q 0 rs k) (at3 Q 0 ro k)) <= at3 Q 0 ws k / 2)%Q.

Lemma Forall2_same : forall A (R : A -> A -> Prop) l, (forall x, R x x) -> Forall2 R l l.
Proof. intros A R l H. induction l; constructor; auto. Qed.

Lemma Forall2_impl : forall A B (R R' : A -> B -> Prop) l l', (forall a b, R a b -> R' a b) -> Forall2 R l l' -> Forall2 R' l l'.
Proof. intros A B R R' l l' H F. induction F; constructor; auto. Qed.

Lemma q_file_half_step : forall cols rs ro ws wo f,
  file_axes Q q_present q_restore_checked Qeq_bool 0%Q cols rs ro ws wo f ->
  nth 0 cols [] = [] /\ f_ints f = [[]; []; []]
  \/ forall k, (k < 3)%nat -> Forall2 (q_close rs ro ws wo k) (nth k cols []) (nth k (f_ints f) []).
Proof.
  intros cols rs ro ws wo f (FS & FO & CF & [[E1 E2]|[(N & SE & E)|(N & SE & L & F2)]]).
  - left. auto.
  - right. intros k Hk. rewrite E. apply Forall2_same. intros X Hpos.
    unfold scaling_equal_c in SE. apply andb_true_iff in SE. destruct SE as [S1 S2].
    pose proof (arr_eqb_at3 _ _ S1 k) as Hs. pose proof (arr_eqb_at3 _ _ S2 k) as Ho.
    rewrite (q_present_wd X _ _ _ _ Hs Ho).
    setoid_replace (q_present X (at3 Q 0 ws k) (at3 Q 0 wo k) - q_present X (at3 Q 0 ws k) (at3 Q 0 wo k))%Q with 0%Q by ring.
    cbn [Qabs Z.abs Qnum Qden]. apply Qlt_le_weak. apply Qlt_shift_div_l; [reflexivity|]. rewrite Qmult_0_l. exact Hpos.
  - right. intros k Hk. eapply Forall2_impl; [|apply F2; exact Hk].
    intros X X' HR Hpos. unfold rescaled_int in HR. apply q_rechecked_ok in HR. destruct HR as [-> _].
    rewrite q_restore_law, <- q_store_law. apply q_half_step. exact Hpos.
Qed.

(* ------------------------------------------------------------------------------------------------ *)
(* F. assignments and change_scaling, axis by axis                                                   *)
(* ------------------------------------------------------------------------------------------------ *)

Section AxesAssign.
  Variable T : Type.
  Variable present : Z -> T -> T -> T.
  Variable store restore : T -> T -> T -> result Z.
  Variable teqb : T -> T -> bool.
  Variable d : T.
  Hypothesis store_err : forall v s o e, store v s o = Err e -> e = EOverflow.
  Hypothesis restore_fits : forall v s o X, restore v s o = Ok X -> fitsP X.
  Hypothesis restore_err : forall v s o e, restore v s o = Err e -> e = EOverflow.

  (* the record's column of axis a after `<axis> = vals` under scaling (sc, off), and the outcome *)
  Definition assign_outcome (cols0 cols : list (list Z)) (sc off : T) (a : nat) (vals : list T) (cols' : list (list Z)) (x : out T) : Prop :=
    match x with
    | ONone => vals = [] /\ cols' = cols
               \/ exists xs, Forall2 (fun v X => store v sc off = Ok X) vals xs
                             /\ length xs = length (nth a cols []) /\ cols' = set_at cols a xs
    | OErr e => cols' = cols0 /\
                (e = EOverflow /\ (exists v, In v vals /\ store v sc off = Err EOverflow)
                 \/ e = EValue /\ length vals <> length (nth a cols []))
    | OFile _ => False
    end.

  Lemma assigned_axis : forall cols0 cols ss so a vals cols' x, (a < 3)%nat ->
    assigned T store d cols0 cols ss so a vals cols' x ->
    assign_outcome cols0 cols (at3 T d ss a) (at3 T d so a) a vals cols' x.
  Proof.
    intros cols0 cols ss so a vals cols' x Ha H. unfold assigned, scale_of, offset_of, rec_dim, col_of in H.
    rewrite (view_row_axis a Ha) in H. exact H.
  Qed.

  Lemma step_assign_axis : forall s a vals, (a < 3)%nat ->
    let r := step T present store restore teqb d s (Assign a vals) in
    heap (fst r) = heap s /\ h_s (fst r) = h_s s /\ h_o (fst r) = h_o s /\ r_s (fst r) = h_s s /\ r_o (fst r) = h_o s
    /\ assign_outcome (ints s) (grow (ints s) (length vals)) (at3 T d (get T (heap s) (h_s s)) a) (at3 T d (get T (heap s) (h_o s)) a) a vals (ints (fst r)) (snd r).
  Proof.
    intros s a vals Ha r. destruct (step_assign_spec T present store restore teqb d store_err s a vals) as (A & B & C & D & E & F).
    repeat split; auto. apply assigned_axis; assumption.
  Qed.

  Lemma step_rec_assign_axis : forall s a vals, (a < 3)%nat ->
    let r := step T present store restore teqb d s (RecAssign a vals) in
    heap (fst r) = heap s /\ h_s (fst r) = h_s s /\ h_o (fst r) = h_o s /\ r_s (fst r) = r_s s /\ r_o (fst r) = r_o s
    /\ assign_outcome (ints s) (ints s) (at3 T d (get T (heap s) (r_s s)) a) (at3 T d (get T (heap s) (r_o s)) a) a vals (ints (fst r)) (snd r).
  Proof.
    intros s a vals Ha r. destruct (step_rec_assign_spec T present store restore teqb d store_err s a vals) as (A & B & C & D & E & F).
    repeat split; auto. apply assigned_axis; assumption.
  Qed.

  (* las.change_scaling(ns, no): None keeps the record's own array *)
  Definition change_outcome (s : st T) (ns no : option (list T)) (r : st T * out T) : Prop :=
    let rs := get T (heap s) (r_s s) in let ro := get T (heap s) (r_o s) in
    let ns' := match ns with Some a => a | None => rs end in
    let no' := match no with Some a => a | None => ro end in
    (forall i, (i < length (heap s))%nat -> get T (heap (fst r)) i = get T (heap s) i) /\
    match snd r with
    | ONone => get T (heap (fst r)) (r_s (fst r)) = ns' /\ get T (heap (fst r)) (r_o (fst r)) = no'
               /\ h_s (fst r) = (match ns with Some _ => r_s (fst r) | None => h_s s end)
               /\ h_o (fst r) = (match no with Some _ => r_o (fst r) | None => h_o s end)
               /\ length (ints (fst r)) = 3%nat
               /\ forall k, (k < 3)%nat ->
                    Forall2 (rescaled_int T present restore d rs ro ns' no' k) (nth k (ints s) []) (nth k (ints (fst r)) [])
    | OErr e => e = EOverflow
                /\ (exists k X, (k < 3)%nat /\ In X (nth k (ints s) []) /\
                      restore (present X (at3 T d rs k) (at3 T d ro k)) (at3 T d ns' k) (at3 T d no' k) = Err EOverflow)
                /\ ints (fst r) = ints s /\ r_s (fst r) = r_s s /\ r_o (fst r) = r_o s /\ h_s (fst r) = h_s s /\ h_o (fst r) = h_o s
    | OFile _ => False
    end.

  Lemma step_change_scaling_axes : forall s ns no, wf s ->
    change_outcome s ns no (step T present store restore teqb d s (ChangeScaling ns no)).
  Proof.
    intros s ns no W.
    pose proof (step_change_scaling_spec T present store restore teqb d restore_fits restore_err s ns no W) as H.
    cbv zeta in H. unfold change_outcome.
    destruct (step T present store restore teqb d s (ChangeScaling ns no)) as [s' x]. cbn [fst snd] in *.
    destruct H as [HH H]. split; [exact HH|]. destruct x as [|e|f]; [| |exact H].
    - destruct H as (A & B & C & D & F2). apply rescaled_axes in F2. destruct F2 as [L F2]. repeat split; auto.
    - destruct H as (-> & OV & R). split; [reflexivity|]. split; [|exact R]. apply overflows_axes in OV. exact OV.
  Qed.
End AxesAssign.

(* exact instance *)
Definition q_assigned_int (sc off : Q) (v : Q) (X : Z) : Prop :=
  X = q_store v sc off /\ fitsP X /\ ((0 < sc)%Q -> (Qabs (q_present X sc off - v) <= sc / 2)%Q).

Lemma q_assign_after : forall ops s0 a vals, wf s0 -> (a < 3)%nat ->
  let s := fst (q_run s0 ops) in
  let sc := at3 Q 0%Q (get Q (heap s) (h_s s)) a in let off := at3 Q 0%Q (get Q (heap s) (h_o s)) a in
  let r := q_step s (Assign a vals) in
  let cols := grow (ints s) (length vals) in    (* zero points are appended first when vals is longer than the record *)
  heap (fst r) = heap s /\ h_s (fst r) = h_s s /\ h_o (fst r) = h_o s /\ r_s (fst r) = h_s s /\ r_o (fst r) = h_o s /\
  match snd r with
  | ONone => vals = [] /\ ints (fst r) = cols
             \/ exists xs, Forall2 (q_assigned_int sc off) vals xs
                           /\ length xs = length (nth a cols []) /\ ints (fst r) = set_at cols a xs
  | OErr e => ints (fst r) = ints s /\     (* a refused assignment does not leave the record grown *)
              (e = EOverflow /\ (exists v, In v vals /\ ~ fitsP (q_store v sc off))
               \/ e = EValue /\ length vals <> length (nth a cols []))
  | OFile _ => False
  end.
Proof.
  intros ops s0 a vals W Ha s sc off r cols.
  pose proof (step_assign_axis Q q_present q_store_checked q_restore_checked Qeq_bool 0%Q q_store_err s a vals Ha) as H.
  cbv zeta in H. change (step Q q_present q_store_checked q_restore_checked Qeq_bool 0%Q s (Assign a vals)) with r in H.
  fold sc off cols in H. destruct r as [s' x]. cbn [fst snd] in *. destruct H as (A & B & C & D & E & F). repeat split; auto.
  unfold assign_outcome in F. destruct x as [|e|f]; [| |exact F].
  - destruct F as [F|(xs & F1 & F2 & F3)]; [left; exact F|right]. exists xs. repeat split; auto.
    eapply Forall2_impl; [|exact F1]. intros v X HX. apply q_checked_ok in HX. destruct HX as [-> HX].
    unfold q_assigned_int. repeat split; auto; try apply HX. intros Hs. apply q_half_step. exact Hs.
  - destruct F as [F0 [[-> (v & Hin & Hv)]|F]]; (split; [exact F0|]); [left|right; exact F].
    split; [reflexivity|]. exists v. split; [exact Hin|]. apply q_checked_err in Hv. exact (proj2 Hv).
Qed.

Lemma f_assign_after : forall ops s0 a vals, wf s0 -> (a < 3)%nat ->
  let s := fst (f_run s0 ops) in
  let sc := at3 fl None (get fl (heap s) (h_s s)) a in let off := at3 fl None (get fl (heap s) (h_o s)) a in
  let r := f_step s (Assign a vals) in
  let cols := grow (ints s) (length vals) in
  heap (fst r) = heap s /\ h_s (fst r) = h_s s /\ h_o (fst r) = h_o s /\ r_s (fst r) = h_s s /\ r_o (fst r) = h_o s /\
  match snd r with
  | ONone => vals = [] /\ ints (fst r) = cols
             \/ exists xs, Forall2 (fun v X => f_store v sc off = Some X /\ fitsP X) vals xs
                           /\ length xs = length (nth a cols []) /\ ints (fst r) = set_at cols a xs
  | OErr e => ints (fst r) = ints s /\
              (e = EOverflow /\ (exists v, In v vals /\ f_store_checked v sc off = Err EOverflow)
               \/ e = EValue /\ length vals <> length (nth a cols []))
  | OFile _ => False
  end.
Proof.
  intros ops s0 a vals W Ha s sc off r cols.
  pose proof (step_assign_axis fl f_present f_store_checked f_restore_checked fl_eqb None f_store_err s a vals Ha) as H.
  cbv zeta in H. change (step fl f_present f_store_checked f_restore_checked fl_eqb None s (Assign a vals)) with r in H.
  fold sc off cols in H. destruct r as [s' x]. cbn [fst snd] in *. destruct H as (A & B & C & D & E & F). repeat split; auto.
  unfold assign_outcome in F. destruct x as [|e|f]; [| |exact F].
  - destruct F as [F|(xs & F1 & F2 & F3)]; [left; exact F|right]. exists xs. repeat split; auto.
    eapply Forall2_impl; [|exact F1]. intros v X HX. apply f_checked_ok in HX. exact HX.
  - exact F.
Qed.

Definition q_rescaled_int (rs ro ns no : list Q) (k : nat) (X X' : Z) : Prop :=
  X' = q_store (q_present X (at3 Q 0%Q rs k) (at3 Q 0%Q ro k)) (at3 Q 0%Q ns k) (at3 Q 0%Q no k) /\ fitsP X' /\ q_close rs ro ns no k X X'.

Lemma q_rescaled_int_of : forall rs ro ns no k X X',
  rescaled_int Q q_present q_restore_checked 0%Q rs ro ns no k X X' -> q_rescaled_int rs ro ns no k X X'.
Proof.
  intros rs ro ns no k X X' H. unfold rescaled_int in H. apply q_rechecked_ok in H. destruct H as [-> F].
  unfold q_rescaled_int. split; [reflexivity|]. split; [exact F|].
  intros Hpos. rewrite q_restore_law, <- q_store_law. apply q_half_step. exact Hpos.
Qed.

Lemma q_change_scaling_after : forall ops s0 ns no, wf s0 ->
  let s := fst (q_run s0 ops) in
  change_outcome Q q_present q_restore_checked 0%Q s ns no (q_step s (ChangeScaling ns no)).
Proof.
  intros ops s0 ns no W s. apply step_change_scaling_axes; [exact q_restore_fits|exact q_restore_err|].
  apply q_run_wf. exact W.
Qed.

Lemma f_change_scaling_after : forall ops s0 ns no, wf s0 ->
  let s := fst (f_run s0 ops) in
  change_outcome fl f_present f_restore_checked None s ns no (f_step s (ChangeScaling ns no)).
Proof.
  intros ops s0 ns no W s. apply step_change_scaling_axes; [exact f_restore_fits|exact f_rechecked_err|].
  apply f_run_wf. exact W.
Qed.

(* las.xyz = value, both instances: the three attribute assignments in sequence, stopping at the first error *)
Definition q_then_assign := then_assign Q q_present q_store_checked q_restore_checked Qeq_bool 0%Q.
Definition f_then_assign := then_assign fl f_present f_store_checked f_restore_checked fl_eqb None.

Lemma q_assign_xyz_seq : forall s vals,
  q_step s (AssignXYZ vals) =
  q_then_assign (q_then_assign (q_step s (Assign 0 (nth 0 vals []))) 1 (nth 1 vals [])) 2 (nth 2 vals []).
Proof. intros s vals. apply step_assign_xyz_seq. exact q_store_err. Qed.

Lemma f_assign_xyz_seq : forall s vals,
  f_step s (AssignXYZ vals) =
  f_then_assign (f_then_assign (f_step s (Assign 0 (nth 0 vals []))) 1 (nth 1 vals [])) 2 (nth 2 vals []).
Proof. intros s vals. apply step_assign_xyz_seq. exact f_store_err. Qed.

Lemma then_assign_def : forall T present store restore teqb d r a vals,
  then_assign T present store restore teqb d r a vals =
  match snd r with ONone => step T present store restore teqb d (fst r) (Assign a vals) | _ => r end.
Proof. reflexivity. Qed.

Lemma sync_tables : gen_setattr_syncs = true /\ gen_xyz_syncs = true /\ gen_xyz_axes = [0; 1; 2]%nat.
Proof. repeat split; reflexivity. Qed.
