(* C17 — sources that return short counts (Model/Access.v, last section): one call is a prefix of what the complete call
   gives; asking again until the bytes are there gives exactly what ONE call gives on a source that is never short. *)
From Coq Require Import String.
From Coq Require Import ZArith List Bool Lia ZifyBool.
From LasV Require Import Lib.Base Lib.BaseFacts Model.Las Model.Access Proofs.HeaderProofs Proofs.AccessProofs.
Import ListNotations.
Open Scope list_scope.
Open Scope Z_scope.

Lemma firstn_firstn_min {A} a b (l : list A) : firstn a (firstn b l) = firstn (Nat.min a b) l.
Proof. apply firstn_firstn. Qed.

(* a call that is not capped below what is asked is the call of the model *)
Theorem full_count_call : forall cap n s, n <= cap \/ n < 0 ->
  s_read_short cap n s = s_read n s /\ (0 <= n -> s_readinto_short cap n s = s_readinto n s).
Proof.
  intros cap n s H. unfold s_read_short, s_readinto_short, s_read, s_readinto, short_take. split.
  - destruct (n <? 0) eqn:E; [reflexivity|]. replace (Z.min n (Z.max 1 cap)) with n by lia. reflexivity.
  - intros Hn. replace (Z.max 0 n) with n by lia. destruct (n <? 0) eqn:E; [lia|].
    destruct (Z.eq_dec n 0) as [->|Hz].
    + replace (Z.min 0 (Z.max 1 cap)) with 0 by lia. reflexivity.
    + replace (Z.min n (Z.max 1 cap)) with n by lia. reflexivity.
Qed.

(* what one call gives, in terms of the bytes that are left *)
Lemma short_call_spec (into : bool) cap n s : 0 <= n -> 0 <= st_pos s ->
  let r := if into then s_readinto_short cap n s else s_read_short cap n s in
  let k := Z.to_nat (Z.min n (Z.max 1 cap)) in
  fst r = firstn k (avail s) /\ avail (snd r) = skipn k (avail s) /\ st_bytes (snd r) = st_bytes s
  /\ st_pos (snd r) = st_pos s + len (fst r)
  /\ st_log (snd r) = st_log s ++ [if into then OReadInto n else ORead n].
Proof.
  intros Hn Hp. destruct into; cbv zeta; unfold s_readinto_short, s_read_short, short_take; cbn [fst snd st_bytes st_pos st_log].
  - replace (Z.max 0 n) with n by lia. destruct (n <? 0) eqn:E; [lia|].
    split; [reflexivity|]. split; [apply avail_step; exact Hp|]. repeat split.
  - destruct (n <? 0) eqn:E; [lia|].
    split; [reflexivity|]. split; [apply avail_step; exact Hp|]. repeat split.
Qed.

(* one call on a source that is short: a proper prefix of what the complete call gives *)
Theorem short_call_is_a_prefix : forall cap n s, 0 <= st_pos s -> 1 <= cap < n -> cap < len (avail s) ->
  fst (s_read_short cap n s) = firstn (Z.to_nat cap) (fst (s_read n s))
  /\ len (fst (s_read_short cap n s)) = cap
  /\ cap < len (fst (s_read n s))
  /\ fst (s_readinto_short cap n s) = fst (s_read_short cap n s).
Proof.
  intros cap n s Hp Hc Ha.
  destruct (short_call_spec false cap n s ltac:(lia) Hp) as (A & _). cbv zeta in A. cbn [fst] in A.
  destruct (s_read_spec n s ltac:(lia) Hp) as (B & _).
  replace (Z.min n (Z.max 1 cap)) with cap in A by lia.
  unfold len in *.
  split; [|split; [|split]].
  - rewrite A, B, firstn_firstn. f_equal. lia.
  - rewrite A, firstn_length. lia.
  - rewrite B, firstn_length. lia.
  - unfold s_readinto_short, s_read_short. cbn [fst]. now replace (Z.max 0 n) with n by lia.
Qed.

Lemma skipn_skipn_nat {A} a b (l : list A) : skipn a (skipn b l) = skipn (b + a) l.
Proof. symmetry. apply skipn_add. Qed.

(* asking again: the bytes, what is left and the calls made *)
Lemma s_read_exact_spec into : forall fuel caps n s, 0 <= n -> 0 <= st_pos s -> (Z.to_nat n < fuel)%nat ->
  let r := s_read_exact fuel into caps n s in
  fst r = firstn (Z.to_nat n) (avail s) /\ avail (snd r) = skipn (Z.to_nat n) (avail s)
  /\ st_bytes (snd r) = st_bytes s /\ st_pos (snd r) = st_pos s + len (fst r)
  /\ exists ext, st_log (snd r) = st_log s ++ ext /\ forallb is_read_call ext = true
       /\ (into = false -> forallb (fun o => match o with ORead _ => true | _ => false end) ext = true).
Proof.
  induction fuel as [|fu IH]; intros caps n s Hn Hp Hf; [lia|].
  cbv zeta. cbn [s_read_exact]. destruct (n <=? 0) eqn:En.
  - assert (n = 0) by lia. subst n. cbn [fst snd Z.to_nat firstn skipn]. unfold len. cbn [length].
    repeat split; try lia. exists []. rewrite app_nil_r. repeat split.
  - set (cap := match caps with [] => n | c :: _ => c end).
    pose proof (short_call_spec into cap n s Hn Hp) as Q. cbv zeta in Q.
    set (k := Z.to_nat (Z.min n (Z.max 1 cap))) in *.
    assert (Hk : (1 <= k <= Z.to_nat n)%nat) by (subst k; lia).
    destruct (if into then s_readinto_short cap n s else s_read_short cap n s) as [d s1].
    cbn [fst snd] in Q. destruct Q as (Q1 & Q2 & Q3 & Q4 & Q5).
    assert (Hd : len d = Z.of_nat (Nat.min k (length (avail s)))) by (unfold len; rewrite Q1, firstn_length; reflexivity).
    destruct (len d =? 0) eqn:Ed.
    + (* nothing came: nothing is left *)
      assert (Hz : length (avail s) = 0%nat) by lia.
      apply length_zero_iff_nil in Hz. cbn [fst snd]. rewrite Hz in *. rewrite firstn_nil, skipn_nil in *.
      unfold len. cbn [length]. repeat split; try congruence; try lia.
      exists [if into then OReadInto n else ORead n]. split; [exact Q5|]. destruct into; repeat split; intros; discriminate.
    + assert (Hp1 : 0 <= st_pos s1) by (pose proof (len_nonneg d); lia).
      assert (Hn1 : 0 <= n - len d) by lia.
      assert (Hf1 : (Z.to_nat (n - len d) < fu)%nat) by lia.
      specialize (IH (tl caps) (n - len d) s1 Hn1 Hp1 Hf1). cbv zeta in IH.
      destruct (s_read_exact fu into (tl caps) (n - len d) s1) as [d2 s2]. cbn [fst snd] in *.
      destruct IH as (I1 & I2 & I3 & I4 & (ext & I5 & I6 & I7)).
      assert (Hsplit : Z.to_nat n = (length d + Z.to_nat (n - len d))%nat) by (unfold len in *; lia).
      assert (Hdk : d = firstn (length d) (avail s)).
      { rewrite Q1 at 1. rewrite Q1, firstn_length.
        destruct (Nat.le_gt_cases k (length (avail s))) as [L|L].
        - now rewrite Nat.min_l by exact L.
        - rewrite Nat.min_r by lia. rewrite !firstn_all2 by lia. reflexivity. }
      assert (Hsk : avail s1 = skipn (length d) (avail s)).
      { rewrite Q2. rewrite Q1, firstn_length.
        destruct (Nat.le_gt_cases k (length (avail s))) as [L|L].
        - now rewrite Nat.min_l by exact L.
        - rewrite Nat.min_r by lia. rewrite !skipn_all2 by lia. reflexivity. }
      split; [|split; [|split; [|split]]].
      * rewrite I1, Hsk, Hsplit, firstn_add. now rewrite <- Hdk.
      * rewrite I2, Hsk, Hsplit. apply skipn_skipn_nat.
      * congruence.
      * rewrite I4, Q4, len_app. lia.
      * exists ((if into then OReadInto n else ORead n) :: ext). split.
        -- rewrite I5, Q5, <- app_assoc. reflexivity.
        -- split.
           ++ cbn [forallb]. rewrite I6. now destruct into.
           ++ intros E. cbn [forallb]. rewrite (I7 E). now subst into.
Qed.

(* ... which is what ONE call gives on a source that is never short: the same bytes, the same position afterwards,
   and only read / readinto calls were made (so nothing the source may lack beyond those, and no seek or tell) *)
Theorem exact_read_ignores_short_counts : forall into caps n s, 0 <= n -> 0 <= st_pos s ->
  let r := read_exact into caps n s in
  fst r = fst (s_read n s) /\ st_pos (snd r) = st_pos (snd (s_read n s)) /\ st_bytes (snd r) = st_bytes s
  /\ avail (snd r) = avail (snd (s_read n s))
  /\ exists ext, st_log (snd r) = st_log s ++ ext /\ forallb is_read_call ext = true /\ no_seek_tell ext = true
       /\ (into = false -> only_reads ext = true).
Proof.
  intros into caps n s Hn Hp. cbv zeta. unfold read_exact.
  destruct (s_read_exact_spec into (S (Z.to_nat n)) caps n s Hn Hp ltac:(lia)) as (A1 & A2 & A3 & A4 & (ext & A5 & A6 & A7)).
  destruct (s_read_spec n s Hn Hp) as (B1 & B2 & B3 & B4).
  split; [congruence|]. split.
  - rewrite A4, A1, <- B1. unfold s_read. destruct (n <? 0) eqn:E; [lia|]. reflexivity.
  - split; [exact A3|]. split; [congruence|].
    exists ext. split; [exact A5|]. split; [exact A6|]. split.
    + unfold no_seek_tell. rewrite forallb_forall in *. intros o Ho. specialize (A6 o Ho). now destruct o.
    + exact A7.
Qed.

(* ------------------------------------------------------------------------------------ *)
(* the point format does not depend on the access path (Model/Access.v, section "the point format a header shows")       *)
(* ------------------------------------------------------------------------------------ *)
Theorem format_ignores_evlrs : forall rh ev, format_of (with_evlrs rh ev) = format_of rh.
Proof. reflexivity. Qed.

Lemma opened_header_format c e f rh rh1 : opened_header c e f rh = Ok rh1 -> format_of rh1 = format_of rh.
Proof.
  unfold opened_header. destruct (loads_at_open c e rh).
  - destruct (evlrs_of f rh); intros H; inversion H; subst. apply format_ignores_evlrs.
  - intros H; inversion H; subst. reflexivity.
Qed.

(* at every moment and through every access path the header shows the point format the file's own header and VLRs give:
   right after laspy.open (EVLRs loaded or left for read()), after the reader was consumed without read(), when everything
   is read, through the memory map - also when the EVLRs hold a record of the Extra Bytes type *)
Theorem format_path_independent : forall f rh, laid_out f rh ->
  (forall c e rh1, fst (open_via c e f) = Ok rh1 -> format_of rh1 = format_of rh)
  /\ (forall c e steps lf, fst (consume_via c e steps f) = Ok lf -> format_of (lf_h lf) = format_of rh)
  /\ (forall c e steps lf, (can_seek c = true \/ evlrs_after_points rh) -> fst (read_via c e steps f) = Ok lf -> format_of (lf_h lf) = format_of rh)
  /\ (forall lf, (h_minor rh >= 4 -> h_nev rh > 0 -> h_evstart rh <= len f) -> read_mmap f = Ok lf -> format_of (lf_h lf) = format_of rh).
Proof.
  intros f rh Hlo.
  assert (Hfile : forall lf, read_file f = Ok lf -> format_of (lf_h lf) = format_of rh).
  { intros lf H. destruct (before_read f rh [] Hlo) as (m & R & _ & Hr & _). rewrite Hr in H.
    destruct (evlrs_of f rh); inversion H; subst. apply format_ignores_evlrs. }
  split; [|split; [|split]].
  - intros c e rh1 H. rewrite (open_stage f rh c e Hlo) in H. exact (opened_header_format c e f rh rh1 H).
  - intros c e steps lf H. destruct (before_read f rh steps Hlo) as (m & R & _ & _ & Hc). rewrite Hc in H.
    destruct (opened_header c e f rh) as [rh1|er] eqn:E; inversion H; subst. exact (opened_header_format c e f rh rh1 E).
  - intros c e steps lf Hcase H. rewrite (read_via_spec_gap c e steps f rh Hlo Hcase) in H. exact (Hfile lf H).
  - intros lf Hin H. rewrite (read_mmap_spec f rh Hlo Hin) in H. exact (Hfile lf H).
Qed.
