(* Two-level histories (property C19): the file an interrupted session LEFT is the original of a second append session.
   What an interrupted appender (or a writer whose chunk was refused half way and which was then closed) leaves is a header announcing the
   records A, the records A, and then ANY bytes g: left-over records of the lost session, a torn record, the old EVLRs half overwritten.
   A reader returns A from it. The second session's point writes start where the header says the points end (NOT at the end of the file),
   its header rewrite counts A ++ the chunks it accepted. Every crash image of the second session - failed chunk writes included, the final
   file in particular - is refused by the reader or read as a prefix of A ++ accepted chunks: the left-over bytes never show up as points. *)
From Coq Require Import String.
From Coq Require Import ZArith List Bool Lia ZifyBool.
From LasV Require Import Lib.Base Lib.BaseFacts Lib.Layout Proofs.LayoutProofs Gen.GenHeaderLayout Gen.GenFormatBits Gen.GenDims
  Model.Las Model.LasSpec Proofs.HeaderLen Proofs.VlrProofs Proofs.HeaderProofs Proofs.WriterProofs Proofs.RoundTripProofs
  Proofs.AppendProofs Proofs.CrashProofs Proofs.CrashAppendProofs Proofs.FaultProofs Proofs.FaultAppendProofs.
Import ListNotations.
Open Scope list_scope.
Open Scope Z_scope.

(* the session on abstract bytes: like fault_append_core, but what lies behind the announced records (g) is unrelated to what the session
   writes behind its points (eb) *)
Lemma fault_append_core_g bA bB m ps A evs g epos eb k j :
  hdr_facts2 bA bB m ps (len A) (len (A ++ accepted evs)) ->
  recs_ok ps A = true -> recs_ok ps (A ++ accepted evs) = true -> 0 < ps ->
  len bA + len (concat A) + len (concat (accepted evs)) <= epos ->
  reads_prefix_or_fails
    (crash_from (bA ++ concat A ++ g) (fault_append_trace (len bA + len (concat A)) evs epos eb bB) k j) (A ++ accepted evs).
Proof.
  intros HF HrA HrAB Hps Hepos.
  unfold fault_append_trace.
  set (B := accepted evs) in *.
  match goal with |- context [fault_writes _ evs ++ ?r] => set (rest := r) end.
  assert (forall t, reads_prefix_or_fails (bA ++ concat A ++ t) (A ++ B)) as HsafeA.
  { intros t. apply reads_prefix_app.
    apply (safeA2 bA bB m ps A (len (A ++ B)) t); assumption. }
  assert (forall tail k' j', reads_prefix_or_fails (crash_from (bA ++ concat (A ++ B) ++ tail) [(0, bB)] k' j') (A ++ B)) as HsafeB.
  { intros tail k' j'. apply (last_step2 bA bB m ps (A ++ B) (len A)); assumption. }
  destruct (crash_faults evs bA A g rest k j) as [[t Ht]|[junk' [Hk Ht]]]; rewrite Ht.
  - apply HsafeA.
  - fold B. unfold rest. clear Ht rest.
    destruct eb as [|e eb].
    + cbn [app]. apply HsafeB.
    + cbn [app]. set (ebs := e :: eb).
      assert (len bA + len (concat (A ++ B)) <= epos) as Hepos' by (rewrite concat_app, len_app; lia).
      destruct (k - length evs)%nat as [|k'].
      * rewrite crash_from_0.
        destruct (write_at_beyond2 bA (concat (A ++ B)) junk' epos (firstn j ebs) Hepos') as [t Ht]. rewrite Ht.
        rewrite concat_app, <- app_assoc. apply HsafeA.
      * rewrite crash_from_S. unfold apply_write at 1. cbn [fst snd].
        destruct (write_at_beyond2 bA (concat (A ++ B)) junk' epos ebs Hepos') as [t Ht]. rewrite Ht.
        apply HsafeB.
Qed.

(* SECOND LEVEL. The original of the session is ANY file made of a header - the re-encoding, with ANY statistics stA that count the records
   A, of the header h0 the file was created with -, the records A and any bytes g. The session: chunk writes (some of them failing, Proofs/
   FaultProofs.v) starting at len bA + len (concat A), the EVLR bytes eb (any) anywhere at or behind the accepted points, the header
   re-encoded with ANY statistics stB that count A ++ the accepted chunks. *)
Theorem history_safe_append : forall W0 vl h0 b0 stA stB hA bA hB bB A evs g epos eb k j,
  enc_header W0 vl false = Ok (h0, b0) ->
  enc_header (with_stats h0 stA) vl true = Ok (hA, bA) ->
  enc_header (with_stats h0 stB) vl true = Ok (hB, bB) ->
  s_count stA = len A -> s_count stB = len (A ++ accepted evs) ->
  recs_ok (aint h0 "point_size") A = true -> recs_ok (aint h0 "point_size") (A ++ accepted evs) = true -> 0 < aint h0 "point_size" ->
  len bA + len (concat A) + len (concat (accepted evs)) <= epos ->
  reads_prefix_or_fails
    (crash_from (bA ++ concat A ++ g) (fault_append_trace (len bA + len (concat A)) evs epos eb bB) k j) (A ++ accepted evs).
Proof.
  intros W0 vl h0 b0 stA stB hA bA hB bB A evs g epos eb k j E0 EA EB CA CB RA RB Hps Hepos.
  assert (0 <= s_count stA <= s_count stB) as Hc.
  { rewrite CA, CB, len_app. pose proof (len_nonneg A). pose proof (len_nonneg (accepted evs)). lia. }
  pose proof (append_session_facts _ _ _ _ _ _ _ _ _ _ E0 EA EB Hc) as HF.
  rewrite CA, CB in HF.
  apply (fault_append_core_g bA bB (aint W0 "version.minor") (aint h0 "point_size")); assumption.
Qed.
Print Assumptions history_safe_append.

(* FIRST LEVEL. A session interrupted while it is still writing points (k < number of its chunk events; whatever `rest` it would have
   written afterwards: EVLRs, header) leaves the header and the announced records untouched, followed by something *)
Lemma history_image_shape : forall evs b0 acc junk rest k j, (k < length evs)%nat ->
  exists t, crash_from (b0 ++ concat acc ++ junk) (fault_writes (len b0 + len (concat acc)) evs ++ rest) k j = b0 ++ concat acc ++ t.
Proof.
  intros evs b0 acc junk rest k j Hk.
  destruct (crash_faults evs b0 acc junk rest k j) as [[t Ht]|[junk' [Hk' _]]].
  - exists t. exact Ht.
  - lia.
Qed.

(* BOTH LEVELS. Session 1 (chunk events evs1, then `rest1`) on a file of the shape above is interrupted during its point writes - at a
   write call (j1 = 0) or inside one (j1 bytes); session 2 is an append session on the image it left. Every crash image of session 2 is
   refused or read as a prefix of the records the image announced (A) followed by the chunks session 2 accepted - never a record of the
   lost session 1 *)
Theorem two_level_safe : forall W0 vl h0 b0 stA stB hA bA hB bB A g evs1 rest1 k1 j1 evs2 epos eb k2 j2,
  enc_header W0 vl false = Ok (h0, b0) ->
  enc_header (with_stats h0 stA) vl true = Ok (hA, bA) ->
  enc_header (with_stats h0 stB) vl true = Ok (hB, bB) ->
  s_count stA = len A -> s_count stB = len (A ++ accepted evs2) ->
  recs_ok (aint h0 "point_size") A = true -> recs_ok (aint h0 "point_size") (A ++ accepted evs2) = true -> 0 < aint h0 "point_size" ->
  len bA + len (concat A) + len (concat (accepted evs2)) <= epos ->
  (k1 < length evs1)%nat ->
  let image1 := crash_from (bA ++ concat A ++ g) (fault_writes (len bA + len (concat A)) evs1 ++ rest1) k1 j1 in
  reads_prefix_or_fails image1 A
  /\ reads_prefix_or_fails
       (crash_from image1 (fault_append_trace (len bA + len (concat A)) evs2 epos eb bB) k2 j2) (A ++ accepted evs2).
Proof.
  intros W0 vl h0 b0 stA stB hA bA hB bB A g evs1 rest1 k1 j1 evs2 epos eb k2 j2 E0 EA EB CA CB RA RB Hps Hepos Hk1 image1.
  destruct (history_image_shape evs1 bA A g rest1 k1 j1 Hk1) as [t Ht].
  unfold image1. rewrite Ht. split.
  - assert (0 <= s_count stA <= s_count stB) as Hc.
    { rewrite CA, CB, len_app. pose proof (len_nonneg A). pose proof (len_nonneg (accepted evs2)). lia. }
    pose proof (append_session_facts _ _ _ _ _ _ _ _ _ _ E0 EA EB Hc) as HF.
    rewrite CA, CB in HF.
    apply (safeA2 bA bB (aint W0 "version.minor") (aint h0 "point_size") A (len (A ++ accepted evs2)) t); assumption.
  - eapply history_safe_append; eassumption.
Qed.
Print Assumptions two_level_safe.
