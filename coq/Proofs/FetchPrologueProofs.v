(* C16 — (a) HttpRangeStream.read as extracted from the source, against any server (status classes, connection errors,
   empty ranges); (b) http_queue_strategy's prologue step by step (one step per put / per thread start) refines the atomic
   prologue of Model/Fetch.v, so that everything proved in FetchProofs.v holds for every interleaving of main's puts and
   starts with the workers already started. *)
From Coq Require Import ZArith List Bool Lia Permutation Sorted.
From LasV Require Import Lib.Base Gen.GenFetch Model.Fetch Proofs.FetchProofs Proofs.FetchExecProofs.
Import ListNotations.
Open Scope list_scope.
Open Scope Z_scope.

(* ------------------------------------------------------------------------------------------------ one range request *)
Lemma sr_shape : gen_stream_read = [SZeroEmpty; SRequest; SRaiseForStatus; SAdvance; SReturnContent].
Proof. reflexivity. Qed.

(* a request fails exactly when one is made (n <> 0) and the server does not answer or answers with a 4xx / 5xx status *)
Theorem stream_fails_gen : forall server pos n,
  stream_fails gen_stream_read server (pos, n) =
  negb (n =? 0) && match server (pos, n) with None => true | Some r => http_error (r_status r) end.
Proof.
  intros server pos n. unfold stream_fails, stream_read. rewrite sr_shape. cbn [fst snd sread].
  destruct (n =? 0); cbn [negb andb]; auto.
  destruct (server (pos, n)) as [r|]; auto.
  destruct (http_error (r_status r)); reflexivity.
Qed.

(* the abstraction used by the transition systems: a fetch of range (pos, n) either fails, leaving the stream where it was,
   or yields exactly the bytes of the range and moves the stream behind it *)
Theorem stream_read_spec : forall file server pos n, honest file server ->
  stream_read gen_stream_read server pos n =
  if stream_fails gen_stream_read server (pos, n) then RExc pos else RData (slice file (pos, n)) (pos + n).
Proof.
  intros file server pos n Hh. unfold stream_fails, stream_read. rewrite sr_shape. cbn [fst snd sread].
  destruct (n =? 0) eqn:E.
  - apply Z.eqb_eq in E. subst n. unfold slice, take. cbn. rewrite Z.add_0_r. reflexivity.
  - destruct (server (pos, n)) as [r|] eqn:Hs; auto.
    destruct (http_error (r_status r)) eqn:He; auto.
    rewrite (Hh _ _ Hs He). reflexivity.
Qed.

(* an empty range needs no request: it cannot fail, whatever the server does *)
Theorem stream_empty_range : forall server pos,
  stream_read gen_stream_read server pos 0 = RData [] pos /\ stream_fails gen_stream_read server (pos, 0) = false.
Proof. intros server pos. rewrite stream_fails_gen. split; reflexivity. Qed.

Theorem http_error_classes : forall st, http_error st = true <-> 400 <= st < 600.
Proof. intro st. unfold http_error. rewrite andb_true_iff, Z.leb_le, Z.ltb_lt. tauto. Qed.

Theorem fetch_workers_id : forall n, gen_fetch_workers n = n.
Proof. reflexivity. Qed.

(* ------------------------------------------------------------------------------------------------ lists *)
Lemma set_nth_app : forall A (l extra : list A) i x, (i < length l)%nat -> set_nth i x (l ++ extra) = set_nth i x l ++ extra.
Proof.
  intros A l extra i x H. unfold set_nth.
  rewrite firstn_app, skipn_app.
  replace (i - length l)%nat with O by lia. replace (S i - length l)%nat with O by lia.
  cbn [firstn skipn]. rewrite app_nil_r, <- app_assoc. reflexivity.
Qed.

(* ------------------------------------------------------------------------------------------------ frame of a worker step *)
Section Frame.
Variable wp : list winstr.
Variable fails : range -> bool.

(* a worker step reads the two queues, the counter and the worker's own state, and writes only those *)
Lemma wstep_form : forall s i s', wstep wp fails s i = Some s' ->
  exists w q u rq, s' = with_w s i w q u rq /\
    forall s2, s_q s2 = s_q s -> s_unf s2 = s_unf s -> s_resq s2 = s_resq s -> nth_error (s_ws s2) i = nth_error (s_ws s) i ->
      wstep wp fails s2 i = Some (with_w s2 i w q u rq).
Proof.
  intros s i s' Hstep. unfold wstep in Hstep.
  destruct (nth_error (s_ws s) i) as [[pc cur failed|]|] eqn:Hn; try discriminate.
  destruct (nth_error wp pc) as [ins|] eqn:Hi; try discriminate.
  destruct ins as [|b| | | | |].
  - destruct (s_q s) as [|r q'] eqn:Hq; inversion Hstep; subst s'; do 4 eexists; (split; [reflexivity|]);
      intros s2 H1 H2 H3 H4; unfold wstep; rewrite H4, Hi, ?H1, ?H2, ?H3; reflexivity.
  - destruct (s_q s) as [|r q'] eqn:Hq; [destruct b; try discriminate|]; inversion Hstep; subst s'; do 4 eexists;
      (split; [reflexivity|]); intros s2 H1 H2 H3 H4; unfold wstep; rewrite H4, Hi, ?H1, ?H2, ?H3; reflexivity.
  - destruct cur as [r|]; inversion Hstep; subst s'; do 4 eexists; (split; [reflexivity|]);
      intros s2 H1 H2 H3 H4; unfold wstep; rewrite H4, Hi, ?H1, ?H2, ?H3; reflexivity.
  - destruct cur as [r|]; [destruct failed|]; inversion Hstep; subst s'; do 4 eexists; (split; [reflexivity|]);
      intros s2 H1 H2 H3 H4; unfold wstep; rewrite H4, Hi, ?H1, ?H2, ?H3; reflexivity.
  - destruct cur as [r|]; [destruct failed|]; inversion Hstep; subst s'; do 4 eexists; (split; [reflexivity|]);
      intros s2 H1 H2 H3 H4; unfold wstep; rewrite H4, Hi, ?H1, ?H2, ?H3; reflexivity.
  - destruct (s_unf s) as [|k] eqn:Hu; inversion Hstep; subst s'; do 4 eexists; (split; [reflexivity|]);
      intros s2 H1 H2 H3 H4; unfold wstep; rewrite H4, Hi, ?H1, ?H2, ?H3; reflexivity.
  - destruct failed; inversion Hstep; subst s'; do 4 eexists; (split; [reflexivity|]);
      intros s2 H1 H2 H3 H4; unfold wstep; rewrite H4, Hi, ?H1, ?H2, ?H3; reflexivity.
Qed.

Lemma wstep_lt : forall s i s', wstep wp fails s i = Some s' -> (i < length (s_ws s))%nat.
Proof.
  intros s i s' H. unfold wstep in H. apply nth_error_Some. destruct (nth_error (s_ws s) i); [discriminate|discriminate].
Qed.

Lemma wstep_keeps : forall s i s', wstep wp fails s i = Some s' ->
  s_todo s' = s_todo s /\ s_local s' = s_local s /\ s_buf s' = s_buf s /\ s_status s' = s_status s.
Proof. intros s i s' H. destruct (wstep_form _ _ _ H) as (w & q & u & rq & -> & _). cbn. auto. Qed.

(* workers that exist but have not moved, and another todo list of main, do not change what a worker does *)
Lemma wstep_pad : forall s i s' extra todo', wstep wp fails s i = Some s' ->
  wstep wp fails (mkS (s_q s) (s_unf s) (s_resq s) (s_ws s ++ extra) todo' (s_local s) (s_buf s) (s_status s)) i
  = Some (mkS (s_q s') (s_unf s') (s_resq s') (s_ws s' ++ extra) todo' (s_local s') (s_buf s') (s_status s')).
Proof.
  intros s i s' extra todo' H. pose proof (wstep_lt _ _ _ H) as Hlt.
  destruct (wstep_form _ _ _ H) as (w & q & u & rq & -> & Hf).
  rewrite (Hf (mkS (s_q s) (s_unf s) (s_resq s) (s_ws s ++ extra) todo' (s_local s) (s_buf s) (s_status s))); cbn; auto.
  - unfold with_w. cbn. rewrite set_nth_app by exact Hlt. reflexivity.
  - apply nth_error_app1. exact Hlt.
Qed.
End Frame.

(* ------------------------------------------------------------------------------------------------ the prologue *)
Definition nopro (i : minstr) : Prop := match i with MPutAll | MStart _ => False | _ => True end.

Lemma strip_nopro : forall l, Forall nopro l -> strip_prologue l = l.
Proof. intros l H. destruct H as [|i l Hi Hl]; auto. destruct i; cbn in *; auto; contradiction. Qed.
Lemma nopro_len : forall l, Forall nopro l -> prologue_len l = O.
Proof.
  unfold prologue_len. induction l as [|i l IH]; intro H; auto. inversion H as [|? ? Hi Hl]; subst.
  destruct i; cbn in *; try contradiction; auto.
Qed.

Lemma mstep_nopro : forall file s s', mstep file s = Some s' -> Forall nopro (s_todo s) -> Forall nopro (s_todo s').
Proof.
  intros file s s' H Hn. unfold mstep in H. destruct (s_status s); try discriminate.
  destruct (s_todo s) as [|ins t] eqn:Ht.
  - inversion H; subst s'; cbn. constructor.
  - inversion Hn as [|? ? Hi Hl]; subst.
    destruct ins; cbn in Hi; try contradiction.
    + destruct (Nat.eqb (s_unf s) 0); inversion H; subst s'; cbn; auto.
    + destruct (s_resq s) as [|[r|r] rq]; inversion H; subst s'; cbn; auto; constructor; auto.
    + inversion H; subst s'; cbn; auto.
    + inversion H; subst s'; cbn; auto.
Qed.

Section PrologueProofs.
Variable file : list Z.
Variable fails : range -> bool.
Variable ranges : list range.
Variable workers : nat.

Notation qpstep := (pstep gen_worker_prog file fails).
Notation qstep := (step gen_worker_prog file fails).
Notation pinit0 := (pinit gen_main_prog ranges workers).
Notation init0 := (init gen_main_prog ranges workers).

Definition rest_prog : list minstr := [MJoin; MDrain; MSort; MAssemble].
Definition extras (ps : pstate) : nat := (length (p_toput ps) + p_tostart ps + prologue_len (s_todo (p_s ps)))%nat.

Inductive phase (ps : pstate) : Prop :=
| PhA : s_todo (p_s ps) = MPutAll :: MStart true :: rest_prog -> s_status (p_s ps) = MRunning -> s_ws (p_s ps) = [] ->
        phase ps
| PhB : s_todo (p_s ps) = MStart true :: rest_prog -> s_status (p_s ps) = MRunning -> p_toput ps = [] -> phase ps
| PhC : Forall nopro (s_todo (p_s ps)) -> p_toput ps = [] -> p_tostart ps = O -> phase ps.

Lemma pabs_C : forall ps, Forall nopro (s_todo (p_s ps)) -> p_toput ps = [] -> p_tostart ps = O -> pabs ps = p_s ps.
Proof.
  intros [tp ts s] Hn Hp Hs. cbn in *. subst tp ts. unfold pabs. cbn [p_s p_toput p_tostart repeat length].
  rewrite !app_nil_r, Nat.add_0_r, (strip_nopro _ Hn). destruct s; reflexivity.
Qed.

Lemma pmstep_C : forall ps, Forall nopro (s_todo (p_s ps)) ->
  pmstep file ps = option_map (mkP (p_toput ps) (p_tostart ps)) (mstep file (p_s ps)).
Proof.
  intros ps Hn. unfold pmstep. destruct (s_status (p_s ps)); auto.
  destruct (s_todo (p_s ps)) as [|i t]; auto. inversion Hn as [|? ? Hi Hl]; subst.
  destruct i; cbn in Hi; try contradiction; auto.
Qed.

(* every step of the step-by-step system is either invisible to the atomic one (a put, a start, leaving a loop: the rest of
   the prologue gets shorter) or the same step of the same thread there *)
Lemma sim_step : forall ps t ps', phase ps -> qpstep ps t = Some ps' ->
  phase ps' /\ ((pabs ps' = pabs ps /\ (extras ps' < extras ps)%nat) \/ (qstep (pabs ps) t = Some (pabs ps') /\ extras ps' = extras ps)).
Proof.
  intros [tp ts s] t ps' Hph Hstep. destruct Hph as [Htd Hst Hws|Htd Hst Htp|Hn Htp Hts]; cbn [p_s p_toput p_tostart] in *.
  - (* putting *)
    destruct t as [|i]; cbn [pstep] in Hstep.
    + unfold pmstep in Hstep. cbn [p_s p_toput p_tostart] in Hstep. rewrite Hst, Htd in Hstep.
      destruct tp as [|r rest]; inversion Hstep; subst ps'; clear Hstep.
      * split; [apply PhB; cbn; auto|]. left. split.
        -- unfold pabs. cbn. rewrite Htd, Hst. reflexivity.
        -- unfold extras. cbn. rewrite Htd. cbn. lia.
      * split; [apply PhA; cbn; auto|]. left. split.
        -- unfold pabs. cbn [p_s p_toput p_tostart s_q s_unf s_resq s_ws s_todo s_local s_buf s_status length].
           rewrite <- app_assoc, ?Htd, ?Hst. cbn [app]. f_equal. lia.
        -- unfold extras. cbn. rewrite ?Htd. cbn. lia.
    + cbn [p_s p_toput p_tostart] in Hstep. unfold wstep in Hstep. rewrite Hws in Hstep. destruct i; cbn in Hstep; discriminate.
  - (* starting *)
    subst tp. destruct t as [|i]; cbn [pstep] in Hstep.
    + unfold pmstep in Hstep. cbn [p_s p_toput p_tostart] in Hstep. rewrite Hst, Htd in Hstep.
      destruct ts as [|k]; inversion Hstep; subst ps'; clear Hstep.
      * split; [apply PhC; cbn; auto; repeat constructor|]. left. split.
        -- unfold pabs. cbn. rewrite Htd, Hst. reflexivity.
        -- unfold extras. cbn. rewrite Htd. cbn. lia.
      * split; [apply PhB; cbn; auto|]. left. split.
        -- unfold pabs. cbn [p_s p_toput p_tostart s_q s_unf s_resq s_ws s_todo s_local s_buf s_status repeat].
           rewrite <- app_assoc, ?Htd, ?Hst. reflexivity.
        -- unfold extras. cbn. rewrite ?Htd. cbn. lia.
    + cbn [p_s p_toput p_tostart] in Hstep.
      destruct (wstep gen_worker_prog fails s i) as [s'|] eqn:Hw; inversion Hstep; subst ps'; clear Hstep.
      destruct (wstep_keeps _ _ _ _ _ Hw) as (Ht' & Hl' & Hb' & Hs').
      split; [apply PhB; cbn; congruence|]. right. split.
      * cbn [step]. unfold pabs. cbn [p_s p_toput p_tostart length]. rewrite !app_nil_r, !Nat.add_0_r, Ht'.
        apply wstep_pad. exact Hw.
      * unfold extras. cbn. rewrite Ht'. reflexivity.
  - (* past the prologue *)
    subst tp ts. assert (Hab : pabs (mkP [] O s) = s) by (apply pabs_C; auto).
    destruct t as [|i]; cbn [pstep] in Hstep.
    + rewrite pmstep_C in Hstep by exact Hn. cbn [p_s p_toput p_tostart] in Hstep.
      destruct (mstep file s) as [s'|] eqn:Hm; inversion Hstep; subst ps'; clear Hstep.
      pose proof (mstep_nopro _ _ _ Hm Hn) as Hn'.
      split; [apply PhC; cbn; auto|]. right. split.
      * rewrite Hab, (pabs_C (mkP [] O s')) by (cbn; auto). exact Hm.
      * unfold extras. cbn. rewrite !nopro_len by auto. reflexivity.
    + cbn [p_s p_toput p_tostart] in Hstep.
      destruct (wstep gen_worker_prog fails s i) as [s'|] eqn:Hw; inversion Hstep; subst ps'; clear Hstep.
      destruct (wstep_keeps _ _ _ _ _ Hw) as (Ht' & Hl' & Hb' & Hs').
      split; [apply PhC; cbn; auto; rewrite Ht'; auto|]. right. split.
      * rewrite Hab, (pabs_C (mkP [] O s')) by (cbn; auto; rewrite Ht'; auto). exact Hw.
      * unfold extras. cbn. rewrite Ht'. reflexivity.
Qed.

Lemma phase_init : phase pinit0 /\ pabs pinit0 = init0.
Proof.
  rewrite mp_shape. split.
  - apply PhA; reflexivity.
  - reflexivity.
Qed.

Definition pqreach (ps : pstate) : Prop := preach gen_worker_prog file fails pinit0 ps.

(* refinement: whatever the step-by-step system reaches, the atomic one reaches too (seen through pabs) *)
Theorem prologue_refines : forall ps, pqreach ps -> phase ps /\ reach gen_worker_prog file fails init0 (pabs ps).
Proof.
  intros ps Hr. induction Hr as [|ps t ps' Hr [Hph IH] Hs].
  - destruct phase_init as [Hp Ha]. split; auto. rewrite Ha. constructor.
  - destruct (sim_step _ _ _ Hph Hs) as [Hph' [[He _]|[Hq _]]]; split; auto.
    + rewrite He. exact IH.
    + eapply reach_step; eauto.
Qed.

Lemma pabs_status : forall ps, s_status (pabs ps) = s_status (p_s ps) /\ s_buf (pabs ps) = s_buf (p_s ps)
  /\ main_done (pabs ps) = main_done (p_s ps).
Proof. intros ps. repeat split. Qed.

Theorem prologue_equals_local : forall ps, (1 <= workers)%nat ->
  StronglySorted (fun a b : range => fst a < fst b) ranges ->
  (forall r, In r ranges -> fails r = false) ->
  pqreach ps -> main_done (p_s ps) = true ->
  s_status (p_s ps) = MReturned /\ s_buf (p_s ps) = local_read file ranges.
Proof.
  intros ps Hw Hso Hok Hr Hd. destruct (prologue_refines _ Hr) as [_ Hq].
  exact (queue_equals_local file fails ranges workers (pabs ps) Hw Hso Hok Hq Hd).
Qed.

Theorem prologue_failure_raises : forall ps, (1 <= workers)%nat -> pqreach ps -> main_done (p_s ps) = true ->
  (exists r, In r ranges /\ fails r = true) ->
  exists r, s_status (p_s ps) = MRaised r /\ In r ranges /\ fails r = true.
Proof.
  intros ps Hw Hr Hd Hf. destruct (prologue_refines _ Hr) as [_ Hq].
  exact (queue_safe_fail file fails ranges workers (pabs ps) Hw Hq Hd Hf).
Qed.

(* no deadlock: when no thread can move main has put everything, started every worker, returned or raised, and every worker
   has left its loop *)
Theorem prologue_progress : forall ps, (1 <= workers)%nat -> pqreach ps -> pstuck gen_worker_prog file fails ps ->
  p_toput ps = [] /\ p_tostart ps = O /\ main_done (p_s ps) = true /\ all_exited (p_s ps) = true.
Proof.
  intros ps Hw Hr Hstuck. destruct (prologue_refines _ Hr) as [Hph Hq].
  destruct Hph as [Htd Hst Hws|Htd Hst Htp|Hn Htp Hts].
  - specialize (Hstuck O). cbn [pstep] in Hstuck. unfold pmstep in Hstuck. rewrite Hst, Htd in Hstuck.
    destruct (p_toput ps); discriminate.
  - specialize (Hstuck O). cbn [pstep] in Hstuck. unfold pmstep in Hstuck. rewrite Hst, Htd in Hstuck.
    destruct (p_tostart ps); discriminate.
  - rewrite (pabs_C _ Hn Htp Hts) in Hq.
    assert (Hs : stuck gen_worker_prog file fails (p_s ps)).
    { intros [|i].
      - specialize (Hstuck O). cbn [pstep step] in *. rewrite pmstep_C in Hstuck by exact Hn.
        destruct (mstep file (p_s ps)); [discriminate|reflexivity].
      - specialize (Hstuck (S i)). cbn [pstep step] in *.
        destruct (wstep gen_worker_prog fails (p_s ps) i); [discriminate|reflexivity]. }
    destruct (queue_progress file fails ranges workers (p_s ps) Hw Hq Hs). auto.
Qed.

(* when main has returned or raised: every range was put and taken and marked done, every worker was started, none holds a range *)
Theorem prologue_quiet : forall ps, (1 <= workers)%nat -> pqreach ps -> main_done (p_s ps) = true ->
  p_toput ps = [] /\ p_tostart ps = O /\ s_q (p_s ps) = [] /\ s_unf (p_s ps) = O /\ forallb w_idle (s_ws (p_s ps)) = true.
Proof.
  intros ps Hw Hr Hd. destruct (prologue_refines _ Hr) as [Hph Hq]. unfold main_done in Hd.
  destruct Hph as [Htd Hst Hws|Htd Hst Htp|Hn Htp Hts]; try (rewrite Hst in Hd; discriminate).
  rewrite (pabs_C _ Hn Htp Hts) in Hq.
  destruct (queue_quiet file fails ranges workers (p_s ps) Hw Hq Hd) as (H1 & H2 & H3). auto.
Qed.

(* ... and all that can still happen is a worker finding the queue empty and leaving its loop: no put, no thread start, no
   request, no result and no task_done after the call has returned or raised *)
Theorem prologue_after_done : forall ps t ps', (1 <= workers)%nat -> pqreach ps -> main_done (p_s ps) = true ->
  qpstep ps t = Some ps' ->
  exists i, t = S i /\ ps' = mkP [] O (with_w (p_s ps) i WExit [] O (s_resq (p_s ps))).
Proof.
  intros ps t ps' Hw Hr Hd Hstep. destruct (prologue_quiet _ Hw Hr Hd) as (Htp & Hts & Hq & Hu & _).
  destruct (prologue_refines _ Hr) as [Hph Hre]. pose proof Hd as Hd'. unfold main_done in Hd'.
  destruct Hph as [Htd Hst Hws|Htd Hst Htp'|Hn _ _]; try (rewrite Hst in Hd'; discriminate).
  rewrite (pabs_C _ Hn Htp Hts) in Hre.
  destruct t as [|i]; cbn [pstep] in Hstep.
  - rewrite pmstep_C in Hstep by exact Hn. unfold mstep in Hstep. destruct (s_status (p_s ps)); discriminate.
  - exists i. split; auto.
    destruct (wstep gen_worker_prog fails (p_s ps) i) as [s'|] eqn:Hws; [|discriminate].
    destruct (queue_after_done file fails ranges workers (p_s ps) (S i) s' Hw Hre Hd Hws) as (j & Hj & Hs').
    inversion Hj; subst j. cbn in Hstep. inversion Hstep. rewrite Htp, Hts, Hs', Hq, Hu. reflexivity.
Qed.

Theorem prologue_terminates : forall ps t ps', pqreach ps -> qpstep ps t = Some ps' ->
  (pmeasure gen_worker_prog ps' < pmeasure gen_worker_prog ps)%nat.
Proof.
  intros ps t ps' Hr Hs. destruct (prologue_refines _ Hr) as [Hph _].
  destruct (sim_step _ _ _ Hph Hs) as [_ [[He Hx]|[Hq Hx]]]; unfold pmeasure; unfold extras in Hx.
  - rewrite He. lia.
  - apply queue_terminates in Hq. lia.
Qed.

End PrologueProofs.

(* ------------------------------------------------------------------------------------------------ the query over http *)
(* the queue strategy as CopcReader calls it: workers = gen_fetch_workers http_num_threads, requests answered by any server *)
Theorem queue_http : forall file server ranges n ps, (1 <= n)%nat ->
  StronglySorted (fun a b : range => fst a < fst b) ranges ->
  preach gen_worker_prog file (stream_fails gen_stream_read server) (pinit gen_main_prog ranges (gen_fetch_workers n)) ps ->
  main_done (p_s ps) = true ->
  if existsb (stream_fails gen_stream_read server) ranges
  then exists r, s_status (p_s ps) = MRaised r /\ In r ranges /\ snd r <> 0 /\
         (server r = None \/ exists resp, server r = Some resp /\ 400 <= r_status resp < 600)
  else s_status (p_s ps) = MReturned /\ s_buf (p_s ps) = local_read file ranges.
Proof.
  intros file server ranges n ps Hn Hso Hr Hd. rewrite fetch_workers_id in Hr.
  destruct (existsb (stream_fails gen_stream_read server) ranges) eqn:E.
  - apply existsb_exists in E as (r0 & Hin0 & Hf0).
    destruct (prologue_failure_raises file (stream_fails gen_stream_read server) ranges n ps Hn Hr Hd (ex_intro _ r0 (conj Hin0 Hf0))) as (r & Hst & Hin & Hf).
    exists r. repeat split; auto.
    + destruct r as [o k]. rewrite stream_fails_gen in Hf. apply andb_true_iff in Hf as [Hk _]. cbn.
      intro H0. subst k. discriminate.
    + destruct r as [o k]. rewrite stream_fails_gen in Hf. apply andb_true_iff in Hf as [_ Hs].
      destruct (server (o, k)) as [resp|]; auto. right. exists resp. split; auto. apply http_error_classes. exact Hs.
  - apply (prologue_equals_local file (stream_fails gen_stream_read server) ranges n ps Hn Hso); auto.
    intros r Hin. destruct (stream_fails gen_stream_read server r) eqn:Hf; auto.
    assert (existsb (stream_fails gen_stream_read server) ranges = true) by (apply existsb_exists; eauto). congruence.
Qed.

Theorem exec_http : forall file server ranges n s o, (1 <= n)%nat ->
  xreach gen_exec_stream_per_job gen_exec_collect gen_exec_job file (stream_fails gen_stream_read server)
         (xinit ranges (gen_fetch_workers n)) s ->
  x_main s = XShutdown o \/ x_main s = XDone o ->
  o = match first_failing (stream_fails gen_stream_read server) ranges with
      | None => OReturned (local_read file ranges) | Some r => ORaised r end.
Proof. intros file server ranges n s o Hn. rewrite fetch_workers_id. apply exec_safe. exact Hn. Qed.

(* why the worker count must be at least 1 (what a cap at the number of non-empty ranges breaks): one empty range, no worker —
   main has queued the range, started nobody, and waits in join() for ever *)
Theorem zero_workers_deadlock :
  let fails := fun _ : range => false in
  let ps := prun gen_worker_prog [] fails (pinit gen_main_prog [(0, 0)] 0) [0; 0; 0]%nat in
  pstuck gen_worker_prog [] fails ps /\ main_done (p_s ps) = false /\ s_unf (p_s ps) = 1%nat.
Proof.
  cbv zeta. split; [|split; vm_compute; reflexivity].
  intros [|[|i]]; vm_compute; reflexivity.
Qed.

(* ------------------------------------------------------------------------------------------------ successive queries of one reader *)
Lemma fetch_site_direct : gen_fetch_site = FsDirect.
Proof. reflexivity. Qed.

(* the reader keeps nothing of a query: each query of a session yields exactly what ITS strategy run yields on ITS ranges,
   whatever was asked before *)
Theorem session_direct : forall m qs, reader_session gen_fetch_site m qs = map (fun q => snd q (fst q)) qs.
Proof.
  rewrite fetch_site_direct. intros m qs. revert m. induction qs as [|[rs f] t IH]; intro m; cbn; [reflexivity|].
  f_equal. apply IH.
Qed.

Lemma first_failing_spec : forall fails ranges,
  match first_failing fails ranges with
  | None => existsb fails ranges = false
  | Some r => In r ranges /\ fails r = true /\ existsb fails ranges = true
  end.
Proof.
  intros fails ranges. induction ranges as [|r t IH]; cbn; auto.
  destruct (fails r) eqn:E; cbn; auto.
  destruct (first_failing fails t) as [r'|]; auto. destruct IH as (H1 & H2 & H3). auto.
Qed.

(* a complete run of either strategy on the ranges of a query yields what the query has to yield *)
Theorem strategy_run_spec : forall file server ranges o,
  StronglySorted (fun a b : range => fst a < fst b) ranges ->
  strategy_run file server ranges o -> query_spec file server ranges o.
Proof.
  intros file server ranges o Hso Hrun. unfold query_spec.
  destruct Hrun as [n ps Hn Hr Hd|n s o Hn Hr Hm].
  - rewrite fetch_workers_id in Hr.
    destruct (existsb (stream_fails gen_stream_read server) ranges) eqn:E.
    + apply existsb_exists in E as (r0 & Hin0 & Hf0).
      destruct (prologue_failure_raises file (stream_fails gen_stream_read server) ranges n ps Hn Hr Hd
                  (ex_intro _ r0 (conj Hin0 Hf0))) as (r & Hst & Hin & Hf).
      rewrite Hst. exists r. auto.
    + destruct (prologue_equals_local file (stream_fails gen_stream_read server) ranges n ps Hn Hso) as [Hst Hb]; auto.
      * intros r Hin. destruct (stream_fails gen_stream_read server r) eqn:Hf; auto.
        assert (existsb (stream_fails gen_stream_read server) ranges = true) by (apply existsb_exists; eauto). congruence.
      * rewrite Hst, Hb. reflexivity.
  - pose proof (exec_http file server ranges n s o Hn Hr (or_intror Hm)) as Ho.
    pose proof (first_failing_spec (stream_fails gen_stream_read server) ranges) as Hff.
    destruct (first_failing (stream_fails gen_stream_read server) ranges) as [r|].
    + destruct Hff as (Hin & Hf & He). rewrite He. exists r. auto.
    + rewrite Hff. exact Ho.
Qed.

(* a session on one reader: whatever the earlier queries were, each query yields the local read of its own ranges or the
   exception of one of its own failed requests *)
Theorem session_each_query : forall file (qs : list squery),
  Forall (fun q => StronglySorted (fun a b : range => fst a < fst b) (q_ranges q) /\
                   strategy_run file (q_server q) (q_ranges q) (q_fetch q (q_ranges q))) qs ->
  Forall2 (fun q o => query_spec file (q_server q) (q_ranges q) o) qs
          (reader_session gen_fetch_site [] (map (fun q => (q_ranges q, q_fetch q)) qs)).
Proof.
  intros file qs H. rewrite session_direct, map_map. cbn [fst snd].
  induction H as [|q t [Hso Hrun] Ht IH]; cbn; constructor; auto.
  apply strategy_run_spec; auto.
Qed.

(* why a block cache in the reader must not be keyed by the start offset of a range: the byte range of a query is the run of
   contiguous chunks behind that offset, so two queries can start ranges of different lengths at the same offset - the later
   query is then answered from the shorter block.  Keyed by (offset, size), and without any cache (the source), it is right *)
Theorem memo_by_offset_refuted :
  let file := [1; 2; 3; 4] in
  let honest := fun rs : list range => OReturned (local_read file rs) in
  let qs := [([(0, 2)], honest); ([(0, 4)], honest)] in
  reader_session (FsMemo true) [] qs = [OReturned [1; 2]; OReturned [1; 2]] /\
  reader_session (FsMemo false) [] qs = [OReturned [1; 2]; OReturned [1; 2; 3; 4]] /\
  reader_session gen_fetch_site [] qs = [OReturned [1; 2]; OReturned [1; 2; 3; 4]].
Proof. vm_compute. repeat split; reflexivity. Qed.
