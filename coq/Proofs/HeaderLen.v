(* The encoded header occupies exactly offset_to_point_data bytes (C07 size / offset identity). *)
From Coq Require Import String.
From Coq Require Import ZArith List Bool Lia.
From LasV Require Import Lib.Base Lib.BaseFacts Lib.Layout Proofs.LayoutProofs Gen.GenHeaderLayout Gen.GenDims Model.Las.
Import ListNotations.
Open Scope list_scope.
Open Scope Z_scope.

Lemma header_size_tbl_cases maj mnr hs0 : header_size_tbl maj mnr = Some hs0 ->
  maj = 1 /\ ((mnr = 1 /\ hs0 = 227) \/ (mnr = 2 /\ hs0 = 227) \/ (mnr = 3 /\ hs0 = 235) \/ (mnr = 4 /\ hs0 = 375)).
Proof.
  unfold header_size_tbl, las_headers_size. cbn [find].
  destruct (Z.eqb_spec 1 maj) as [<-|Hm]; cbn [andb].
  - destruct (Z.eqb_spec 1 mnr) as [<-|H1]; [cbn [snd]; intros [= <-]; lia|].
    destruct (Z.eqb_spec 2 mnr) as [<-|H2]; [cbn [snd]; intros [= <-]; lia|].
    destruct (Z.eqb_spec 3 mnr) as [<-|H3]; [cbn [snd]; intros [= <-]; lia|].
    destruct (Z.eqb_spec 4 mnr) as [<-|H4]; [cbn [snd]; intros [= <-]; lia|].
    discriminate.
  - discriminate.
Qed.

Lemma hw_layout_width maj mnr hs0 : header_size_tbl maj mnr = Some hs0 ->
  layout_width (fixed_part (hw_layout mnr)) = hs0 /\ layout_fixed_ok (fixed_part (hw_layout mnr)) = true.
Proof.
  intros H. destruct (header_size_tbl_cases _ _ _ H) as (_ & [[-> ->]|[[-> ->]|[[-> ->]|[-> ->]]]]);
  split; vm_compute; reflexivity.
Qed.

Lemma hr_layout_width maj mnr hs0 : header_size_tbl maj mnr = Some hs0 ->
  layout_width (fixed_part (hr_layout mnr)) = hs0.
Proof.
  intros H. destruct (header_size_tbl_cases _ _ _ H) as (_ & [[-> ->]|[[-> ->]|[[-> ->]|[-> ->]]]]);
  vm_compute; reflexivity.
Qed.

(* what enc_header computes, spelled out *)
Lemma enc_header_inv h vl es h' bs : enc_header h vl es = Ok (h', bs) ->
  exists vb hs0 fb,
    enc_vlrs false vl = Ok vb
    /\ header_size_tbl (aint h "version.major") (aint h "version.minor") = Some hs0
    /\ aint h "point_count" <= max_point_count (aint h "version.major") (aint h "version.minor")
    /\ let hs := hs0 + len (abytes h "extra_header_bytes") in
       let off := hs + len vb + len (abytes h "extra_vlr_bytes") in
       (es = true -> off = aint h "offset_to_point_data")
       /\ h' = aset (aset (aset h "offset_to_point_data" (VInt off)) "header_size" (VInt hs)) "number_of_vlrs" (VInt (len vl))
       /\ enc_fields (fixed_part (hw_layout (aint h "version.minor"))) (hdr_vals h' (fixed_part (hw_layout (aint h "version.minor")))) = Ok fb
       /\ bs = fb ++ abytes h "extra_header_bytes" ++ vb ++ abytes h "extra_vlr_bytes".
Proof.
  unfold enc_header. intros H.
  destruct (aint h "point_count" >? max_point_count _ _) eqn:Ec; [discriminate|].
  destruct (enc_vlrs false vl) as [vb|e] eqn:Ev; [|discriminate]. cbn [bind] in H.
  destruct (header_size_tbl _ _) as [hs0|] eqn:Eh; [|discriminate].
  match type of H with (if ?c then _ else _) = _ => destruct c eqn:Es; [discriminate|] end.
  match type of H with bind ?e _ = _ => destruct e as [fb|e'] eqn:Ef; [|discriminate] end.
  cbn [bind] in H. injection H as <- <-.
  exists vb, hs0, fb. repeat split; try assumption; try lia.
  intros ->. cbn [andb] in Es. apply negb_false_iff, Z.eqb_eq in Es. exact Es.
Qed.

Theorem enc_header_len h vl es h' bs : enc_header h vl es = Ok (h', bs) ->
  len bs = aint h' "offset_to_point_data".
Proof.
  intros H. destruct (enc_header_inv _ _ _ _ _ H) as (vb & hs0 & fb & Hv & Hh & _ & _ & -> & Hf & ->).
  destruct (hw_layout_width _ _ _ Hh) as [Hw Hok].
  rewrite !len_app, (enc_fields_len _ _ _ Hok Hf), Hw.
  rewrite aint_aset_other by reflexivity. rewrite aint_aset_other by reflexivity.
  rewrite aint_aset_same. lia.
Qed.

(* offset identity: offset = header size + VLR bytes + padding *)
Theorem enc_header_offset h vl es h' bs : enc_header h vl es = Ok (h', bs) ->
  exists vb hs0, enc_vlrs false vl = Ok vb
    /\ header_size_tbl (aint h "version.major") (aint h "version.minor") = Some hs0
    /\ aint h' "header_size" = hs0 + len (abytes h "extra_header_bytes")
    /\ aint h' "offset_to_point_data" = aint h' "header_size" + len vb + len (abytes h "extra_vlr_bytes").
Proof.
  intros H. destruct (enc_header_inv _ _ _ _ _ H) as (vb & hs0 & fb & Hv & Hh & _ & _ & -> & _ & _).
  exists vb, hs0. repeat split; try assumption.
  - rewrite aint_aset_other by reflexivity. now rewrite aint_aset_same.
  - rewrite !aint_aset_other by reflexivity. rewrite aint_aset_same.
    rewrite aint_aset_other by reflexivity. rewrite aint_aset_same. reflexivity.
Qed.

(* an in-place rewrite never moves the points: same offset or refused *)
Theorem enc_header_same_size h vl h' bs : enc_header h vl true = Ok (h', bs) ->
  aint h' "offset_to_point_data" = aint h "offset_to_point_data" /\ len bs = aint h "offset_to_point_data".
Proof.
  intros H. pose proof (enc_header_len _ _ _ _ _ H) as HL.
  destruct (enc_header_inv _ _ _ _ _ H) as (vb & hs0 & fb & _ & _ & _ & Hes & -> & _ & _).
  specialize (Hes eq_refl).
  assert (aint (aset (aset (aset h "offset_to_point_data" (VInt (hs0 + len (abytes h "extra_header_bytes") + len vb + len (abytes h "extra_vlr_bytes")))) "header_size" (VInt (hs0 + len (abytes h "extra_header_bytes")))) "number_of_vlrs" (VInt (len vl))) "offset_to_point_data" = aint h "offset_to_point_data") as E.
  { rewrite !aint_aset_other by reflexivity. rewrite aint_aset_same. exact Hes. }
  split; [exact E|]. rewrite HL. exact E.
Qed.
