(* C15 — the executable well-formedness check implies wf_tree. *)
From Coq Require Import String.
From Coq Require Import ZArith List Bool Lia ZifyBool.
From LasV Require Import Lib.Base Gen.GenCopc Model.Copc Proofs.CopcKeys Proofs.CopcDict.
Import ListNotations.
Open Scope list_scope.
Open Scope Z_scope.

Lemma nodupb_sound : forall l, nodupb l = true -> NoDup l.
Proof.
  induction l as [|x r IH]; intros H; [constructor|]. cbn [nodupb] in H. apply andb_prop in H. destruct H as [H1 H2].
  constructor; [|apply IH; exact H2]. intros Hin. apply negb_true_iff in H1.
  assert (He : existsb (key_eqb x) r = true) by (apply existsb_exists; exists x; split; [exact Hin | apply key_eqb_refl]).
  congruence.
Qed.

Lemma mentions_sound : forall p k, mentions p k = true -> exists e, In e p /\ e_key e = k.
Proof.
  intros p k H. unfold mentions in H. apply existsb_exists in H. destruct H as [e [Hin He]].
  exists e. split; [exact Hin | apply key_eqb_eq; exact He].
Qed.

Theorem wf_treeb_sound : forall t, wf_treeb t = true -> wf_tree t.
Proof.
  intros t H. unfold wf_treeb in H.
  apply andb_prop in H. destruct H as [H H5]. apply andb_prop in H. destruct H as [H H4].
  apply andb_prop in H. destruct H as [H H3]. apply andb_prop in H. destruct H as [H1 H2].
  rewrite forallb_forall in H2, H3, H4, H5.
  assert (N2 : forall e, In e (nodes_of t) ->
            0 <= e_cnt e /\ 0 <= kl (e_key e) /\
            (if kl (e_key e) =? 0 then key_eqb (e_key e) root_key else has_node t (parent (e_key e))) = true).
  { intros e He. specialize (H2 e He). apply andb_prop in H2. destruct H2 as [H2 Hc]. apply andb_prop in H2. lia. }
  constructor.
  - apply nodupb_sound. exact H1.
  - intros e He. apply (N2 e He).
  - intros e He. apply (N2 e He).
  - intros e He Hl. destruct (N2 e He) as [_ [_ Hc]]. rewrite Hl in Hc. cbn in Hc. apply key_eqb_eq. exact Hc.
  - intros e He Hl. destruct (N2 e He) as [_ [_ Hc]].
    destruct (kl (e_key e) =? 0) eqn:E0; [lia|]. unfold has_node in Hc. apply existsb_exists in Hc.
    destruct Hc as [ep [Hin Hk]]. exists ep. split; [exact Hin | apply key_eqb_eq; exact Hk].
  - intros e He Hr. specialize (H3 e He). rewrite Hr in H3.
    destruct (lookup (e_key e) (page_dict (page_at (t_pages t) (e_off e) (e_size e)))) as [e'|]; [|discriminate].
    exists e'. split; [reflexivity | apply negb_true_iff; exact H3].
  - intros p ep e Hp Hep Hr He Hl Hk. specialize (H4 p Hp). rewrite forallb_forall in H4. specialize (H4 ep Hep).
    rewrite Hr in H4. cbn [orb] in H4. rewrite forallb_forall in H4. specialize (H4 e He).
    assert (Hc : (0 <? kl (e_key e)) && key_eqb (parent (e_key e)) (e_key ep) = true).
    { apply andb_true_intro. split; [lia | apply key_eqb_eq; exact Hk]. }
    rewrite Hc in H4. apply mentions_sound. exact H4.
  - intros e He Hk. specialize (H5 e He). rewrite Hk, key_eqb_refl in H5. apply mentions_sound. exact H5.
Qed.

Lemma in_cube1b_sound : forall D a rlo side l x X, in_cube1b D a rlo side l x X = true -> in_cube1 D a rlo side l x X.
Proof. intros D a rlo side l x X H. unfold in_cube1b in H. unfold in_cube1. apply andb_prop in H. lia. Qed.

Theorem pts_okb_sound : forall t c g hz0 hz1 pts, pts_okb t c g hz0 hz1 pts = true -> pts_ok t c g hz0 hz1 pts.
Proof.
  intros t c g hz0 hz1 pts H e p He Hp. unfold pts_okb in H. rewrite forallb_forall in H. specialize (H e He).
  rewrite forallb_forall in H. specialize (H p Hp). unfold pt_okb in H.
  apply andb_prop in H. destruct H as [H Hz]. apply andb_prop in H. destruct H as [H I3].
  apply andb_prop in H. destruct H as [H I2]. apply andb_prop in H. destruct H as [H I1].
  apply andb_prop in H. destruct H as [H C3]. apply andb_prop in H. destruct H as [C1 C2].
  split; [|split; [|exact Hz]].
  - unfold in_cube. repeat split; apply in_cube1b_sound; assumption.
  - unfold pt_i32, i32b in *. lia.
Qed.

Theorem csys_okb_sound : forall c, csys_okb c = true -> csys_ok c.
Proof.
  intros c H. unfold csys_okb in H. unfold csys_ok, axis_ok.
  repeat (apply andb_prop in H; let H' := fresh "K" in destruct H as [H H']). lia.
Qed.
