(* Appending equals writing the concatenation; rewriting what was read is idempotent (task A). *)
From Coq Require Import String.
From Coq Require Import ZArith List Bool Lia ZifyBool.
From LasV Require Import Lib.Base Lib.BaseFacts Lib.Layout Proofs.LayoutProofs Gen.GenHeaderLayout Gen.GenFormatBits Gen.GenDims
  Model.Las Model.LasSpec Proofs.HeaderLen Proofs.VlrProofs Proofs.HeaderProofs Proofs.WriterProofs.
Import ListNotations.
Open Scope list_scope.
Open Scope Z_scope.

(* ------------------------------------------------------------------------------------ *)
(* values seen through wval                                                              *)
(* ------------------------------------------------------------------------------------ *)
Definition vint (v : value) : Z := match v with VInt z => z | _ => 0 end.
Definition vbytes (v : value) : list Z := match v with VBytes b => b | _ => [] end.

Lemma aint_wval g n : String.eqb n "zero" = false -> String.eqb n "signature" = false ->
  aint g n = vint (wval g n).
Proof.
  intros Hz Hs. unfold aint, wval. rewrite Hz, Hs. destruct (aget g n) as [[z|b]|]; reflexivity.
Qed.

Lemma abytes_wval g n : String.eqb n "zero" = false -> String.eqb n "signature" = false ->
  abytes g n = vbytes (wval g n).
Proof.
  intros Hz Hs. unfold abytes, wval. rewrite Hz, Hs. destruct (aget g n) as [[z|b]|]; reflexivity.
Qed.

Lemma wval_aget g1 g2 n : aget g1 n = aget g2 n -> wval g1 n = wval g2 n.
Proof. intros H. unfold wval. now rewrite H. Qed.

Lemma wval_aset_ext h1 h2 m v n : wval h1 n = wval h2 n -> wval (aset h1 m v) n = wval (aset h2 m v) n.
Proof.
  unfold wval. destruct (String.eqb n "zero"); [reflexivity|].
  destruct (String.eqb n "signature"); [reflexivity|].
  destruct (String.eqb m n) eqn:E.
  - apply String.eqb_eq in E. subst m. now rewrite !aget_aset_same.
  - now rewrite !aget_aset_other by exact E.
Qed.

Lemma wval_aset_hit h1 h2 m v n : String.eqb m n = true -> wval (aset h1 m v) n = wval (aset h2 m v) n.
Proof.
  intros E. apply String.eqb_eq in E. subst m. unfold wval. now rewrite !aget_aset_same.
Qed.

Lemma wval_aset_other h m v n : String.eqb m n = false -> wval (aset h m v) n = wval h n.
Proof. intros E. unfold wval. now rewrite aget_aset_other by exact E. Qed.

(* the three fields enc_header overwrites *)
Definition derived (n : string) : bool :=
  String.eqb "offset_to_point_data" n || String.eqb "header_size" n || String.eqb "number_of_vlrs" n.

Lemma wval_aset3 h1 h2 a b c n : (derived n = false -> wval h1 n = wval h2 n) ->
  wval (aset (aset (aset h1 "offset_to_point_data" a) "header_size" b) "number_of_vlrs" c) n
  = wval (aset (aset (aset h2 "offset_to_point_data" a) "header_size" b) "number_of_vlrs" c) n.
Proof.
  intros H. unfold derived in H.
  destruct (String.eqb "number_of_vlrs" n) eqn:E3; [now apply wval_aset_hit|].
  rewrite !(wval_aset_other _ "number_of_vlrs") by exact E3.
  destruct (String.eqb "header_size" n) eqn:E2; [now apply wval_aset_hit|].
  rewrite !(wval_aset_other _ "header_size") by exact E2.
  destruct (String.eqb "offset_to_point_data" n) eqn:E1; [now apply wval_aset_hit|].
  rewrite !(wval_aset_other _ "offset_to_point_data") by exact E1.
  apply H. reflexivity.
Qed.

Lemma wval_aset3_other h a b c n : derived n = false ->
  wval (aset (aset (aset h "offset_to_point_data" a) "header_size" b) "number_of_vlrs" c) n = wval h n.
Proof.
  unfold derived. intros H. apply orb_false_iff in H as [H H3]. apply orb_false_iff in H as [H1 H2].
  now rewrite !wval_aset_other by assumption.
Qed.

Definition wnames (m : Z) : list string := layout_names (fixed_part (hw_layout m)).

(* ------------------------------------------------------------------------------------ *)
(* enc_header depends on its field list only through the write layout                    *)
(* ------------------------------------------------------------------------------------ *)
Definition same_out (r1 r2 : result (assoc * list Z)) : Prop :=
  match r1, r2 with
  | Ok (_, b1), Ok (_, b2) => b1 = b2
  | Err _, Err _ => True
  | _, _ => False
  end.

Lemma enc_header_ext_gen : forall h1 h2 vl es,
  aint h1 "version.major" = aint h2 "version.major" ->
  aint h1 "version.minor" = aint h2 "version.minor" ->
  aint h1 "point_count" = aint h2 "point_count" ->
  (es = true -> aint h1 "offset_to_point_data" = aint h2 "offset_to_point_data") ->
  (forall n, In n (wnames (aint h1 "version.minor")) -> derived n = false -> wval h1 n = wval h2 n) ->
  abytes h1 "extra_header_bytes" = abytes h2 "extra_header_bytes" ->
  abytes h1 "extra_vlr_bytes" = abytes h2 "extra_vlr_bytes" ->
  same_out (enc_header h1 vl es) (enc_header h2 vl es).
Proof.
  intros h1 h2 vl es Hmaj Hmnr Hpc Hoff Hw Heh Hev.
  unfold enc_header. cbv zeta. rewrite <- Hmaj, <- Hmnr, <- Hpc, <- Heh, <- Hev.
  destruct (aint h1 "point_count" >? max_point_count (aint h1 "version.major") (aint h1 "version.minor"));
    [exact I|].
  destruct (enc_vlrs false vl) as [vb|e]; cbn [bind]; [|exact I].
  destruct (header_size_tbl (aint h1 "version.major") (aint h1 "version.minor")) as [hs0|]; [|exact I].
  assert (forall o, (es && negb (o =? aint h1 "offset_to_point_data"))
                  = (es && negb (o =? aint h2 "offset_to_point_data"))) as Ho.
  { intros o. destruct es; [|reflexivity]. now rewrite Hoff. }
  rewrite <- Ho.
  match goal with |- context [if ?c then _ else _] => destruct c; [exact I|] end.
  match goal with |- same_out (bind (enc_fields ?l (hdr_vals ?a ?l)) _) (bind (enc_fields ?l (hdr_vals ?b ?l)) _) =>
    assert (hdr_vals a l = hdr_vals b l) as Hv end.
  { unfold hdr_vals. apply map_ext_in. intros f Hf. apply wval_aset3. intros Hd.
    apply Hw; [|exact Hd]. unfold wnames, layout_names. now apply in_map. }
  rewrite Hv.
  match goal with |- same_out (bind ?e _) _ => destruct e as [fb|e']; cbn [bind same_out]; [reflexivity|exact I] end.
Qed.

Lemma enc_header_ext : forall h1 h2 vl es,
  (forall n, wval h1 n = wval h2 n) ->
  abytes h1 "extra_header_bytes" = abytes h2 "extra_header_bytes" ->
  abytes h1 "extra_vlr_bytes" = abytes h2 "extra_vlr_bytes" ->
  match enc_header h1 vl es, enc_header h2 vl es with
  | Ok (_, b1), Ok (_, b2) => b1 = b2
  | Err _, Err _ => True
  | _, _ => False
  end.
Proof.
  intros h1 h2 vl es Hw Heh Hev.
  apply (enc_header_ext_gen h1 h2 vl es); try assumption;
    try (intros; rewrite !aint_wval by reflexivity; now rewrite Hw).
  intros n _ _. apply Hw.
Qed.
Print Assumptions enc_header_ext.

(* the usable form: a successful encoding transfers *)
Lemma enc_header_transfer : forall h1 h2 vl es h2' b,
  enc_header h2 vl es = Ok (h2', b) ->
  same_out (enc_header h1 vl es) (enc_header h2 vl es) ->
  exists h1', enc_header h1 vl es = Ok (h1', b).
Proof.
  intros h1 h2 vl es h2' b H2 Hs. rewrite H2 in Hs.
  destruct (enc_header h1 vl es) as [[h1' b1]|e]; cbn [same_out] in Hs; [|contradiction].
  subst b1. now exists h1'.
Qed.

(* ------------------------------------------------------------------------------------ *)
(* with_stats as a list of bindings                                                      *)
(* ------------------------------------------------------------------------------------ *)
Definition aset_all (bs : list (string * Z)) (h : assoc) : assoc :=
  fold_left (fun h p => aset h (fst p) (VInt (snd p))) bs h.

Fixpoint blookup (bs : list (string * Z)) (n : string) : option Z :=
  match bs with
  | [] => None
  | (m, z) :: r => match blookup r n with Some x => Some x | None => if String.eqb m n then Some z else None end
  end.

Lemma aget_aset_all bs : forall h n,
  aget (aset_all bs h) n = match blookup bs n with Some z => Some (VInt z) | None => aget h n end.
Proof.
  induction bs as [|[m z] bs IH]; intros h n; [reflexivity|].
  unfold aset_all. cbn [fold_left fst snd blookup]. fold (aset_all bs (aset h m (VInt z))).
  rewrite IH. destruct (blookup bs n) as [x|]; [reflexivity|].
  destruct (String.eqb m n) eqn:E.
  - apply String.eqb_eq in E. subst m. apply aget_aset_same.
  - now apply aget_aset_other.
Qed.

Lemma aset_all_app a b h : aset_all (a ++ b) h = aset_all b (aset_all a h).
Proof. unfold aset_all. apply fold_left_app. Qed.

Definition lbinds (pre : nat -> string) (l : list Z) : list (string * Z) :=
  map (fun p => (pre (fst p), snd p)) (combine (seq 0 (length l)) l).

Lemma set_list_binds pre l h : set_list pre l h = aset_all (lbinds pre l) h.
Proof.
  unfold set_list, lbinds, aset_all. generalize (combine (seq 0 (length l)) l). intros ps. revert h.
  induction ps as [|p ps IH]; intros h; [reflexivity|]. cbn [map fold_left fst snd]. apply IH.
Qed.

Definition sbinds (st : stats) : list (string * Z) :=
  lbinds (axis_name "maxs") (s_max st) ++ lbinds (axis_name "mins") (s_min st) ++ lbinds by_return_name (s_ret st)
  ++ [("point_count"%string, s_count st); ("start_of_first_evlr"%string, s_evlr_start st);
      ("number_of_evlrs"%string, s_nevlr st)].

Lemma with_stats_binds h st : with_stats h st = aset_all (sbinds st) h.
Proof.
  unfold with_stats, sbinds. cbv zeta. rewrite !set_list_binds, !aset_all_app. reflexivity.
Qed.

Definition sval (st : stats) (n : string) : option Z := blookup (sbinds st) n.

Lemma aget_with_stats h st n :
  aget (with_stats h st) n = match sval st n with Some z => Some (VInt z) | None => aget h n end.
Proof. rewrite with_stats_binds. apply aget_aset_all. Qed.

Lemma wval_with_stats_cong h1 h2 st1 st2 n : sval st1 n = sval st2 n ->
  (sval st2 n = None -> wval h1 n = wval h2 n) ->
  wval (with_stats h1 st1) n = wval (with_stats h2 st2) n.
Proof.
  intros Hs Hw. unfold wval in *. rewrite !aget_with_stats, Hs.
  destruct (String.eqb n "zero"); [reflexivity|]. destruct (String.eqb n "signature"); [reflexivity|].
  destruct (sval st2 n); [reflexivity|]. now apply Hw.
Qed.

Lemma wval_with_stats_none h st n : sval st n = None -> wval (with_stats h st) n = wval h n.
Proof. intros H. unfold wval. now rewrite aget_with_stats, H. Qed.

Lemma aint_with_stats_none h st n : sval st n = None -> aint (with_stats h st) n = aint h n.
Proof. intros H. unfold aint. now rewrite aget_with_stats, H. Qed.

Lemma aint_with_stats_some h st n z : sval st n = Some z -> aint (with_stats h st) n = z.
Proof. intros H. unfold aint. now rewrite aget_with_stats, H. Qed.

Lemma wval_with_stats_some h st n z : sval st n = Some z ->
  String.eqb n "zero" = false -> String.eqb n "signature" = false -> wval (with_stats h st) n = VInt z.
Proof. intros H Hz Hs. unfold wval. now rewrite Hz, Hs, aget_with_stats, H. Qed.

Lemma abytes_with_stats_none h st n : sval st n = None -> abytes (with_stats h st) n = abytes h n.
Proof. intros H. unfold abytes. now rewrite aget_with_stats, H. Qed.

(* well-shaped statistics *)
Definition wfst (st : stats) : Prop :=
  length (s_max st) = 3%nat /\ length (s_min st) = 3%nat /\ length (s_ret st) = 15%nat.

Definition stat_names : list string :=
  map (axis_name "maxs") (seq 0 3) ++ map (axis_name "mins") (seq 0 3) ++ map by_return_name (seq 0 15)
   ++ ["point_count"%string; "start_of_first_evlr"%string; "number_of_evlrs"%string].

Definition is_stat (n : string) : bool := existsb (String.eqb n) stat_names.

Lemma blookup_none bs n : existsb (String.eqb n) (map fst bs) = false -> blookup bs n = None.
Proof.
  induction bs as [|[m z] bs IH]; intros H; [reflexivity|].
  cbn [map fst existsb] in H. apply orb_false_iff in H as [H1 H2]. cbn [blookup].
  rewrite (IH H2). rewrite String.eqb_sym, H1. reflexivity.
Qed.

Lemma lbinds_names pre l : map fst (lbinds pre l) = map pre (seq 0 (length l)).
Proof.
  unfold lbinds. rewrite map_map. cbn [fst].
  rewrite <- (map_map fst pre). f_equal.
  generalize 0%nat. induction l as [|x l IH]; intros k; [reflexivity|].
  cbn [length seq combine map fst]. now rewrite IH.
Qed.

Lemma sbinds_names st : wfst st -> map fst (sbinds st) = stat_names.
Proof.
  intros (H1 & H2 & H3). unfold sbinds. rewrite !map_app, !lbinds_names, H1, H2, H3. reflexivity.
Qed.

Lemma sval_none st n : wfst st -> is_stat n = false -> sval st n = None.
Proof.
  intros Hw Hn. unfold sval. apply blookup_none. rewrite (sbinds_names st Hw). exact Hn.
Qed.

Lemma wfst_explicit st : wfst st -> exists c x0 x1 x2 n0 n1 n2 r0 r1 r2 r3 r4 r5 r6 r7 r8 r9 r10 r11 r12 r13 r14 e k,
  st = mkS c [x0; x1; x2] [n0; n1; n2] [r0; r1; r2; r3; r4; r5; r6; r7; r8; r9; r10; r11; r12; r13; r14] e k.
Proof.
  destruct st as [c mx mn rt e k]. intros (H1 & H2 & H3). cbn [s_max s_min s_ret] in *.
  destruct mx as [|x0 [|x1 [|x2 [|? ?]]]]; try discriminate H1.
  destruct mn as [|n0 [|n1 [|n2 [|? ?]]]]; try discriminate H2.
  do 15 (destruct rt as [|? rt]; [discriminate H3|]). destruct rt; [|discriminate H3].
  repeat eexists.
Qed.

Lemma sval_count st : wfst st -> sval st "point_count" = Some (s_count st).
Proof. intros H. destruct (wfst_explicit st H) as (c&x0&x1&x2&n0&n1&n2&r0&r1&r2&r3&r4&r5&r6&r7&r8&r9&r10&r11&r12&r13&r14&e&k&->). reflexivity. Qed.
Lemma sval_start st : wfst st -> sval st "start_of_first_evlr" = Some (s_evlr_start st).
Proof. intros H. destruct (wfst_explicit st H) as (c&x0&x1&x2&n0&n1&n2&r0&r1&r2&r3&r4&r5&r6&r7&r8&r9&r10&r11&r12&r13&r14&e&k&->). reflexivity. Qed.
Lemma sval_nevlr st : wfst st -> sval st "number_of_evlrs" = Some (s_nevlr st).
Proof. intros H. destruct (wfst_explicit st H) as (c&x0&x1&x2&n0&n1&n2&r0&r1&r2&r3&r4&r5&r6&r7&r8&r9&r10&r11&r12&r13&r14&e&k&->). reflexivity. Qed.
Lemma sval_max st i : wfst st -> (i < 3)%nat -> sval st (axis_name "maxs" i) = Some (nth i (s_max st) 0).
Proof.
  intros H Hi. destruct (wfst_explicit st H) as (c&x0&x1&x2&n0&n1&n2&r0&r1&r2&r3&r4&r5&r6&r7&r8&r9&r10&r11&r12&r13&r14&e&k&->).
  destruct i as [|[|[|i]]]; [reflexivity..|lia].
Qed.
Lemma sval_min st i : wfst st -> (i < 3)%nat -> sval st (axis_name "mins" i) = Some (nth i (s_min st) 0).
Proof.
  intros H Hi. destruct (wfst_explicit st H) as (c&x0&x1&x2&n0&n1&n2&r0&r1&r2&r3&r4&r5&r6&r7&r8&r9&r10&r11&r12&r13&r14&e&k&->).
  destruct i as [|[|[|i]]]; [reflexivity..|lia].
Qed.
Lemma sval_ret st i : wfst st -> (i < 15)%nat -> sval st (by_return_name i) = Some (nth i (s_ret st) 0).
Proof.
  intros H Hi. destruct (wfst_explicit st H) as (c&x0&x1&x2&n0&n1&n2&r0&r1&r2&r3&r4&r5&r6&r7&r8&r9&r10&r11&r12&r13&r14&e&k&->).
  do 15 (destruct i as [|i]; [reflexivity|]). lia.
Qed.

(* ------------------------------------------------------------------------------------ *)
(* classification of the names of the write layouts                                      *)
(* ------------------------------------------------------------------------------------ *)
Definition hfn := header_field_names.

(* the statistic names a version's header holds *)
Definition cov (m : Z) : list string :=
  map (axis_name "maxs") (seq 0 3) ++ map (axis_name "mins") (seq 0 3)
  ++ map by_return_name (seq 0 (if m <? 4 then 5 else 15))
  ++ ["point_count"%string] ++ (if m <? 4 then [] else ["start_of_first_evlr"%string; "number_of_evlrs"%string]).

Definition mem (n : string) (l : list string) : bool := existsb (String.eqb n) l.

Lemma mem_In n l : mem n l = true -> In n l.
Proof. apply in_by_existsb. Qed.

Lemma In_mem n l : In n l -> mem n l = true.
Proof. intros H. unfold mem. apply existsb_exists. exists n. split; [exact H|apply String.eqb_refl]. Qed.

Definition class_ok (m : Z) (n : string) : bool :=
  String.eqb n "zero" || String.eqb n "signature" || (mem n (hfn m) && (negb (is_stat n) || mem n (cov m))).

Lemma wnames_class_b m : 1 <= m <= 4 -> forallb (class_ok m) (wnames m) = true.
Proof.
  intros Hm. assert (m = 1 \/ m = 2 \/ m = 3 \/ m = 4) as [->|[->|[->| ->]]] by lia; vm_compute; reflexivity.
Qed.

Lemma wnames_class m n : 1 <= m <= 4 -> In n (wnames m) ->
  (String.eqb n "zero" = true \/ String.eqb n "signature" = true)
  \/ (In n (hfn m) /\ (is_stat n = false \/ In n (cov m))).
Proof.
  intros Hm Hin. pose proof (wnames_class_b m Hm) as H. rewrite forallb_forall in H.
  specialize (H n Hin). unfold class_ok in H.
  apply orb_true_iff in H as [H|H]; [left; now apply orb_true_iff in H|].
  right. apply andb_true_iff in H as [H1 H2]. split; [now apply mem_In|].
  apply orb_true_iff in H2 as [H2|H2]; [left; now apply negb_true_iff in H2|right; now apply mem_In].
Qed.

Lemma cov_hfn m n : 1 <= m <= 4 -> In n (cov m) -> In n (hfn m).
Proof.
  intros Hm Hin. apply mem_In.
  assert (forallb (fun n => mem n (hfn m)) (cov m) = true) as H.
  { assert (m = 1 \/ m = 2 \/ m = 3 \/ m = 4) as [->|[->|[->| ->]]] by lia; vm_compute; reflexivity. }
  rewrite forallb_forall in H. now apply H.
Qed.

Lemma hfn_plain m n : 1 <= m <= 4 -> In n (hfn m) ->
  String.eqb n "zero" = false /\ String.eqb n "signature" = false.
Proof.
  intros Hm Hin.
  assert (forallb (fun n => negb (String.eqb n "zero") && negb (String.eqb n "signature")) (hfn m) = true) as H.
  { assert (m = 1 \/ m = 2 \/ m = 3 \/ m = 4) as [->|[->|[->| ->]]] by lia; vm_compute; reflexivity. }
  rewrite forallb_forall in H. specialize (H n Hin). apply andb_true_iff in H as [H1 H2].
  split; now apply negb_true_iff.
Qed.

(* plain (non statistic) names every version holds *)
Definition plain_core : list string :=
  ["version.major"; "version.minor"; "offset_to_point_data"; "header_size"; "number_of_vlrs"; "point_format_id"; "point_size";
   "scales[0]"; "scales[1]"; "scales[2]"; "offsets[0]"; "offsets[1]"; "offsets[2]"]%string.

Lemma plain_core_ok m n : 1 <= m <= 4 -> In n plain_core -> In n (hfn m) /\ is_stat n = false.
Proof.
  intros Hm Hin.
  assert (forallb (fun n => mem n (hfn m) && negb (is_stat n)) plain_core = true) as H.
  { assert (m = 1 \/ m = 2 \/ m = 3 \/ m = 4) as [->|[->|[->| ->]]] by lia; vm_compute; reflexivity. }
  rewrite forallb_forall in H. specialize (H n Hin). apply andb_true_iff in H as [H1 H2].
  split; [now apply mem_In|now apply negb_true_iff].
Qed.

Lemma extra_names_not_stat : is_stat "extra_header_bytes" = false /\ is_stat "extra_vlr_bytes" = false.
Proof. split; reflexivity. Qed.

(* the covered names, spelled out *)
Lemma cov_cases m n : 1 <= m <= 4 -> In n (cov m) ->
  (exists i, (i < 3)%nat /\ n = axis_name "maxs" i) \/ (exists i, (i < 3)%nat /\ n = axis_name "mins" i)
  \/ (exists i, (i < (if (m <? 4)%Z then 5 else 15))%nat /\ n = by_return_name i)
  \/ n = "point_count"%string
  \/ (m = 4 /\ (n = "start_of_first_evlr"%string \/ n = "number_of_evlrs"%string)).
Proof.
  intros Hm Hin. unfold cov in Hin.
  apply in_app_or in Hin as [Hin|Hin].
  { left. apply in_map_iff in Hin as (i & <- & Hi). apply in_seq in Hi. exists i. split; [lia|reflexivity]. }
  apply in_app_or in Hin as [Hin|Hin].
  { right; left. apply in_map_iff in Hin as (i & <- & Hi). apply in_seq in Hi. exists i. split; [lia|reflexivity]. }
  apply in_app_or in Hin as [Hin|Hin].
  { right; right; left. apply in_map_iff in Hin as (i & <- & Hi). apply in_seq in Hi. exists i. split; [lia|reflexivity]. }
  apply in_app_or in Hin as [Hin|Hin].
  { right; right; right; left. destruct Hin as [<-|[]]. reflexivity. }
  right; right; right; right. destruct (m <? 4) eqn:E; [destruct Hin|].
  split; [lia|]. destruct Hin as [<-|[<-|[]]]; [now left|now right].
Qed.

(* ------------------------------------------------------------------------------------ *)
(* statistics that agree on what a version's header holds                                *)
(* ------------------------------------------------------------------------------------ *)
Definition sagree (m : Z) (s1 s2 : stats) : Prop :=
  wfst s1 /\ wfst s2 /\ s_count s1 = s_count s2 /\ s_max s1 = s_max s2 /\ s_min s1 = s_min s2
  /\ (forall i, (i < (if (m <? 4)%Z then 5 else 15))%nat -> nth i (s_ret s1) 0 = nth i (s_ret s2) 0)
  /\ (m = 4 -> s_evlr_start s1 = s_evlr_start s2 /\ s_nevlr s1 = s_nevlr s2).

Lemma sagree_refl m s : wfst s -> sagree m s s.
Proof. intros H. repeat split; try apply H; reflexivity. Qed.

Lemma sagree_sval m s1 s2 n : 1 <= m <= 4 -> sagree m s1 s2 -> In n (cov m) -> sval s1 n = sval s2 n.
Proof.
  intros Hm (W1 & W2 & Hc & Hx & Hn & Hr & He) Hin.
  destruct (cov_cases m n Hm Hin) as [(i & Hi & ->)|[(i & Hi & ->)|[(i & Hi & ->)|[->|(-> & [->| ->])]]]].
  - rewrite !sval_max by assumption. now rewrite Hx.
  - rewrite !sval_min by assumption. now rewrite Hn.
  - assert (i < 15)%nat by (destruct (m <? 4); lia). rewrite !sval_ret by assumption. now rewrite Hr.
  - rewrite !sval_count by assumption. now rewrite Hc.
  - rewrite !sval_start by assumption. now destruct (He eq_refl) as [-> _].
  - rewrite !sval_nevlr by assumption. now destruct (He eq_refl) as [_ ->].
Qed.

Definition set_ev (st : stats) (e k : Z) : stats := mkS (s_count st) (s_max st) (s_min st) (s_ret st) e k.

Lemma nth_grow_ret fmt recs r i : length r = 15%nat -> (i < 15)%nat ->
  nth i (map (fun p => snd p + count_ret fmt recs (Z.of_nat (fst p) + 1)) (combine (seq 0 15) r)) 0
  = nth i r 0 + count_ret fmt recs (Z.of_nat i + 1).
Proof.
  intros Hl Hi. do 15 (destruct r as [|? r]; [discriminate Hl|]). destruct r; [|discriminate Hl].
  do 15 (destruct i as [|i]; [reflexivity|]). lia.
Qed.

Lemma wfst_grow ap fmt g st c : wfst st -> wfst (grow ap fmt g st c).
Proof.
  intros (H1 & H2 & H3). destruct c as [|r c]; [repeat split; assumption|].
  unfold grow, wfst. cbn [s_max s_min s_ret]. rewrite !map_length, combine_length, seq_length, H3.
  repeat split.
Qed.

Lemma sagree_grow ap m fmt g1 g2 s1 s2 c :
  (forall i, aint g1 (axis_name "scales" i) = aint g2 (axis_name "scales" i)) ->
  (forall i, aint g1 (axis_name "offsets" i) = aint g2 (axis_name "offsets" i)) ->
  sagree m s1 s2 -> sagree m (grow ap fmt g1 s1 c) (grow ap fmt g2 s2 c).
Proof.
  intros Hs Ho Ha. rewrite (grow_ext ap fmt g1 g2 s1 c Hs Ho).
  destruct Ha as (W1 & W2 & Hc & Hx & Hn & Hr & He).
  split; [now apply wfst_grow|]. split; [now apply wfst_grow|].
  destruct c as [|r c]; [cbn [grow]; repeat split; try assumption; now apply He|].
  unfold grow. cbn [s_count s_max s_min s_ret s_evlr_start s_nevlr]. rewrite Hc, Hx, Hn.
  split; [reflexivity|]. split; [reflexivity|]. split; [reflexivity|]. split; [|exact He].
  intros i Hi. assert (i < 15)%nat by (destruct (m <? 4); lia).
  destruct W1 as (_ & _ & L1). destruct W2 as (_ & _ & L2).
  rewrite !nth_grow_ret by assumption. now rewrite Hr.
Qed.

Lemma sagree_reset m s1 s2 : sagree m s1 s2 -> sagree m (reset_extrema s1) (reset_extrema s2).
Proof.
  intros (W1 & W2 & Hc & Hx & Hn & Hr & He). unfold reset_extrema, sagree, wfst.
  cbn [s_count s_max s_min s_ret s_evlr_start s_nevlr length].
  destruct W1 as (_ & _ & L1). destruct W2 as (_ & _ & L2). repeat split; try assumption; now apply He.
Qed.

Lemma sagree_set_ev m s1 s2 e k : sagree m s1 s2 -> sagree m (set_ev s1 e k) (set_ev s2 e k).
Proof.
  intros (W1 & W2 & Hc & Hx & Hn & Hr & He). unfold set_ev, sagree, wfst.
  cbn [s_count s_max s_min s_ret s_evlr_start s_nevlr]. repeat split; try assumption; try apply W1; apply W2.
Qed.

(* the appender's update of the statistics on one chunk *)
Definition astep (ap : Z -> Z -> Z -> Z) (fmt : Z) (g : assoc) (st : stats) (c : list (list Z)) : stats :=
  match c with
  | [] => st
  | _ => grow ap fmt g (if s_count st =? 0 then reset_extrema st else st) c
  end.

Lemma sagree_astep ap m fmt g1 g2 s1 s2 c :
  (forall i, aint g1 (axis_name "scales" i) = aint g2 (axis_name "scales" i)) ->
  (forall i, aint g1 (axis_name "offsets" i) = aint g2 (axis_name "offsets" i)) ->
  sagree m s1 s2 -> sagree m (astep ap fmt g1 s1 c) (astep ap fmt g2 s2 c).
Proof.
  intros Hs Ho Ha. destruct c as [|r c]; [exact Ha|]. unfold astep.
  assert (s_count s1 = s_count s2) as -> by apply Ha.
  apply sagree_grow; try assumption. destruct (s_count s2 =? 0); [now apply sagree_reset|exact Ha].
Qed.

Lemma astep_set_ev ap fmt g st c e k : astep ap fmt g (set_ev st e k) c = set_ev (astep ap fmt g st c) e k.
Proof.
  destruct c as [|r c]; [reflexivity|]. unfold astep. cbn [set_ev s_count].
  destruct (s_count st =? 0); reflexivity.
Qed.

Lemma astep_stats_of ap : ap_ok ap -> forall fmt h R c,
  astep ap fmt h (stats_of ap fmt h R) c = stats_of ap fmt h (R ++ c).
Proof.
  intros Hap fmt h R c. destruct c as [|r c]; [now rewrite app_nil_r|]. unfold astep.
  destruct R as [|r0 R]; [reflexivity|].
  rewrite stats_of_count.
  replace (len (r0 :: R) =? 0) with false by (pose proof (len_nonneg R); unfold len in *; cbn [length]; lia).
  unfold stats_of. cbn [app]. change (r0 :: R ++ r :: c) with ((r0 :: R) ++ r :: c).
  apply grow_app; try assumption; try discriminate; reflexivity.
Qed.

Lemma fold_astep ap : ap_ok ap -> forall fmt h Bs R,
  fold_left (astep ap fmt h) Bs (stats_of ap fmt h R) = stats_of ap fmt h (R ++ concat Bs).
Proof.
  intros Hap fmt h. induction Bs as [|c Bs IH]; intros R; cbn [fold_left concat]; [now rewrite app_nil_r|].
  rewrite (astep_stats_of ap Hap), IH, app_assoc. reflexivity.
Qed.

Lemma wfst_stats_of ap fmt h R : wfst (stats_of ap fmt h R).
Proof.
  destruct R as [|r R]; [repeat split|]. unfold stats_of. apply wfst_grow. repeat split.
Qed.

(* ------------------------------------------------------------------------------------ *)
(* the header of a file: written in place over the opening header, then read back        *)
(* ------------------------------------------------------------------------------------ *)
Lemma cov_max m i : (i < 3)%nat -> In (axis_name "maxs" i) (cov m).
Proof. intros Hi. unfold cov. apply in_or_app. left. apply in_map. apply in_seq. lia. Qed.
Lemma cov_min m i : (i < 3)%nat -> In (axis_name "mins" i) (cov m).
Proof. intros Hi. unfold cov. apply in_or_app. right. apply in_or_app. left. apply in_map. apply in_seq. lia. Qed.
Lemma cov_ret m i : (i < (if (m <? 4)%Z then 5 else 15))%nat -> In (by_return_name i) (cov m).
Proof.
  intros Hi. unfold cov. apply in_or_app. right. apply in_or_app. right. apply in_or_app. left.
  apply in_map. apply in_seq. lia.
Qed.
Lemma cov_count m : In "point_count"%string (cov m).
Proof. unfold cov. apply in_or_app. right. apply in_or_app. right. apply in_or_app. right. now left. Qed.
Lemma cov_start : In "start_of_first_evlr"%string (cov 4).
Proof. apply mem_In. reflexivity. Qed.
Lemma cov_nevlr : In "number_of_evlrs"%string (cov 4).
Proof. apply mem_In. reflexivity. Qed.

Lemma cov_is_stat m n : 1 <= m <= 4 -> In n (cov m) -> is_stat n = true.
Proof.
  intros Hm Hin.
  assert (forallb is_stat (cov m) = true) as H.
  { assert (m = 1 \/ m = 2 \/ m = 3 \/ m = 4) as [->|[->|[->| ->]]] by lia; vm_compute; reflexivity. }
  rewrite forallb_forall in H. now apply H.
Qed.

Lemma wval_of_get a h n : String.eqb n "zero" = false -> String.eqb n "signature" = false ->
  aget a n = Some (wval h n) -> wval a n = wval h n.
Proof. intros Hz Hs Hg. unfold wval at 1. now rewrite Hz, Hs, Hg. Qed.

Section ReadBack.
  Variables (g : assoc) (vl : list vlr) (h0 : assoc) (b0 : list Z) (st : stats) (hR : assoc) (bR : list Z).
  Hypothesis E0 : enc_header g vl false = Ok (h0, b0).
  Hypothesis Wst : wfst st.
  Hypothesis ER : enc_header (with_stats h0 st) vl true = Ok (hR, bR).
  Let m := aint h0 "version.minor".

  Lemma rb_minor_ws : aint (with_stats h0 st) "version.minor" = m.
  Proof. apply aint_with_stats_none. now apply sval_none. Qed.

  Lemma rb_range : 1 <= m <= 4.
  Proof. destruct (header_size_exact _ _ _ _ _ ER) as (_ & H & _). now rewrite rb_minor_ws in H. Qed.

  Lemma rb_g_version : aint g "version.minor" = m /\ aint g "version.major" = aint h0 "version.major".
  Proof.
    unfold m. split; symmetry; apply (enc_header_keeps _ _ _ _ _ _ E0); reflexivity.
  Qed.

  Lemma rb_aget n : aget hR n = aget (with_stats h0 st) n.
  Proof.
    destruct (enc_header_inv _ _ _ _ _ ER) as (vb & hs0 & fb & Hv & Hh & _ & _ & HhR & _ & _).
    destruct (enc_header_inv _ _ _ _ _ E0) as (vb' & hs0' & fb' & Hv' & Hh' & _ & _ & Hh0 & _ & _).
    rewrite Hv in Hv'. injection Hv' as <-.
    rewrite rb_minor_ws in Hh.
    rewrite (aint_with_stats_none h0 st "version.major") in Hh by (now apply sval_none).
    destruct rb_g_version as [G1 G2]. rewrite G1, G2, Hh in Hh'. injection Hh' as <-.
    rewrite !(abytes_with_stats_none h0 st) in HhR by (now apply sval_none).
    assert (abytes h0 "extra_header_bytes" = abytes g "extra_header_bytes") as Be
      by (rewrite Hh0; now rewrite !abytes_aset_other by reflexivity).
    assert (abytes h0 "extra_vlr_bytes" = abytes g "extra_vlr_bytes") as Bv
      by (rewrite Hh0; now rewrite !abytes_aset_other by reflexivity).
    rewrite Be, Bv in HhR. rewrite HhR.
    set (G := with_stats h0 st).
    assert (forall k, is_stat k = false -> aget G k = aget h0 k) as HG.
    { intros k Hk. unfold G. rewrite aget_with_stats. now rewrite sval_none. }
    destruct (String.eqb "number_of_vlrs" n) eqn:E3.
    { apply String.eqb_eq in E3. subst n. rewrite aget_aset_same. rewrite HG by reflexivity.
      rewrite Hh0. now rewrite aget_aset_same. }
    rewrite aget_aset_other by exact E3.
    destruct (String.eqb "header_size" n) eqn:E2.
    { apply String.eqb_eq in E2. subst n. rewrite aget_aset_same. rewrite HG by reflexivity.
      rewrite Hh0. rewrite aget_aset_other by reflexivity. now rewrite aget_aset_same. }
    rewrite aget_aset_other by exact E2.
    destruct (String.eqb "offset_to_point_data" n) eqn:E1.
    { apply String.eqb_eq in E1. subst n. rewrite aget_aset_same. rewrite HG by reflexivity.
      rewrite Hh0. rewrite !aget_aset_other by reflexivity. now rewrite aget_aset_same. }
    now rewrite aget_aset_other by exact E1.
  Qed.

  Lemma rb_wvalR n : wval hR n = wval (with_stats h0 st) n.
  Proof. apply wval_aget, rb_aget. Qed.
  Lemma rb_aintR n : aint hR n = aint (with_stats h0 st) n.
  Proof. unfold aint. now rewrite rb_aget. Qed.
  Lemma rb_abytesR n : abytes hR n = abytes (with_stats h0 st) n.
  Proof. unfold abytes. now rewrite rb_aget. Qed.

  Lemma rb_minorR : aint hR "version.minor" = m.
  Proof. rewrite rb_aintR. apply rb_minor_ws. Qed.

  Lemma rb_len : len bR = len b0.
  Proof.
    destruct (enc_header_same_size _ _ _ _ ER) as [_ L]. rewrite L, with_stats_offset.
    symmetry. exact (enc_header_len _ _ _ _ _ E0).
  Qed.

  Lemma rb_count_max : s_count st <= max_point_count (aint h0 "version.major") m.
  Proof.
    destruct (enc_header_inv _ _ _ _ _ ER) as (vb & hs0 & fb & _ & _ & Hc & _).
    rewrite rb_minor_ws in Hc.
    rewrite (aint_with_stats_none h0 st "version.major") in Hc by (now apply sval_none).
    now rewrite (aint_with_stats_some h0 st "point_count" _ (sval_count st Wst)) in Hc.
  Qed.

  (* a field list that holds what a reader recovers of hR *)
  Variable hd : assoc.
  Hypothesis Hget : forall n, In n (hfn m) -> aget hd n = Some (wval hR n).
  Hypothesis Heh : abytes hd "extra_header_bytes" = abytes hR "extra_header_bytes".
  Hypothesis Hev : abytes hd "extra_vlr_bytes" = abytes hR "extra_vlr_bytes".

  Lemma rb_wval n : In n (hfn m) -> wval hd n = wval (with_stats h0 st) n.
  Proof.
    intros Hin. destruct (hfn_plain m n rb_range Hin) as [Hz Hs].
    rewrite <- rb_wvalR. apply wval_of_get; auto.
  Qed.

  Lemma rb_aint n : In n (hfn m) -> aint hd n = aint (with_stats h0 st) n.
  Proof.
    intros Hin. destruct (hfn_plain m n rb_range Hin) as [Hz Hs].
    rewrite !aint_wval by assumption. now rewrite rb_wval.
  Qed.

  Lemma rb_plain_wval n : In n (hfn m) -> is_stat n = false -> wval hd n = wval h0 n.
  Proof. intros Hin Hn. rewrite rb_wval by exact Hin. apply wval_with_stats_none. now apply sval_none. Qed.

  Lemma rb_plain_aint n : In n (hfn m) -> is_stat n = false -> aint hd n = aint h0 n.
  Proof. intros Hin Hn. rewrite rb_aint by exact Hin. apply aint_with_stats_none. now apply sval_none. Qed.

  Lemma rb_core n : In n plain_core -> aint hd n = aint h0 n /\ wval hd n = wval h0 n.
  Proof.
    intros Hin. destruct (plain_core_ok m n rb_range Hin) as [H1 H2].
    split; [now apply rb_plain_aint|now apply rb_plain_wval].
  Qed.

  Lemma rb_bytes : abytes hd "extra_header_bytes" = abytes h0 "extra_header_bytes"
                /\ abytes hd "extra_vlr_bytes" = abytes h0 "extra_vlr_bytes".
  Proof.
    rewrite Heh, Hev, !rb_abytesR. split; apply abytes_with_stats_none; now apply sval_none.
  Qed.

  Lemma rb_stat n z : In n (cov m) -> sval st n = Some z -> aint hd n = z.
  Proof.
    intros Hin Hs. rewrite rb_aint by (now apply cov_hfn; [apply rb_range|]).
    now apply aint_with_stats_some.
  Qed.

  Lemma rb_minor_hd : aint hd "version.minor" = m.
  Proof. apply rb_core. cbn. tauto. Qed.

  Lemma rb_stats : sagree m (stats_of_header hd) st.
  Proof.
    split; [repeat split|]. split; [exact Wst|].
    unfold stats_of_header. cbn [s_count s_max s_min s_ret s_evlr_start s_nevlr].
    split; [apply rb_stat; [apply cov_count|now apply sval_count]|].
    split.
    { destruct Wst as (L & _ & _). destruct (s_max st) as [|x0 [|x1 [|x2 [|? ?]]]] eqn:E; try discriminate L.
      rewrite map_seq3.
      rewrite (rb_stat _ x0 (cov_max m 0 ltac:(lia))) by (rewrite sval_max by (auto; lia); now rewrite E).
      rewrite (rb_stat _ x1 (cov_max m 1 ltac:(lia))) by (rewrite sval_max by (auto; lia); now rewrite E).
      rewrite (rb_stat _ x2 (cov_max m 2 ltac:(lia))) by (rewrite sval_max by (auto; lia); now rewrite E).
      reflexivity. }
    split.
    { destruct Wst as (_ & L & _). destruct (s_min st) as [|x0 [|x1 [|x2 [|? ?]]]] eqn:E; try discriminate L.
      rewrite map_seq3.
      rewrite (rb_stat _ x0 (cov_min m 0 ltac:(lia))) by (rewrite sval_min by (auto; lia); now rewrite E).
      rewrite (rb_stat _ x1 (cov_min m 1 ltac:(lia))) by (rewrite sval_min by (auto; lia); now rewrite E).
      rewrite (rb_stat _ x2 (cov_min m 2 ltac:(lia))) by (rewrite sval_min by (auto; lia); now rewrite E).
      reflexivity. }
    split.
    { intros i Hi. assert (i < 15)%nat as Hi' by (destruct (m <? 4); lia).
      assert (nth i (map (fun i0 : nat => aint hd (by_return_name i0)) (seq 0 15)) 0 = aint hd (by_return_name i)) as ->.
      { clear Hi. do 15 (destruct i as [|i]; [reflexivity|]). lia. }
      apply rb_stat; [now apply cov_ret|now apply sval_ret]. }
    intros M4. fold m in M4. split.
    - apply rb_stat; [rewrite M4; apply cov_start|now apply sval_start].
    - apply rb_stat; [rewrite M4; apply cov_nevlr|now apply sval_nevlr].
  Qed.
End ReadBack.

(* ------------------------------------------------------------------------------------ *)
(* the one-shot file, taken apart                                                        *)
(* ------------------------------------------------------------------------------------ *)
Definition fstats (ap : Z -> Z -> Z -> Z) (fmt : Z) (h : assoc) (R : list (list Z)) (evl : list vlr) (off : Z) : stats :=
  match evl with
  | [] => stats_of ap fmt h R
  | _ => set_ev (stats_of ap fmt h R) (off + len (concat R)) (len evl)
  end.

Lemma wfst_fstats ap fmt h R evl off : wfst (fstats ap fmt h R evl off).
Proof. unfold fstats. destruct evl; [apply wfst_stats_of|]. apply (wfst_stats_of ap fmt h R). Qed.

Lemma file_of_inv ap h vl fmt R evl f : file_of ap h vl fmt R evl = Ok f ->
  exists h0 b0 eb hR bR,
    enc_header (with_stats h stats0) vl false = Ok (h0, b0) /\ enc_vlrs true evl = Ok eb
    /\ enc_header (with_stats h0 (fstats ap fmt h R evl (len b0))) vl true = Ok (hR, bR)
    /\ f = bR ++ concat R ++ eb.
Proof.
  unfold file_of. intros H.
  destruct (enc_header (with_stats h stats0) vl false) as [[h0 b0]|e] eqn:E0; [|discriminate].
  cbn [bind fst snd] in H.
  destruct (enc_vlrs true evl) as [eb|e] eqn:Eeb; [|discriminate]. cbn [bind] in H.
  match type of H with bind ?e _ = _ => destruct e as [[hR bR]|e'] eqn:ER; [|discriminate] end.
  cbn [bind fst snd] in H. injection H as <-.
  exists h0, b0, eb, hR, bR. repeat split. unfold fstats, set_ev. destruct evl; exact ER.
Qed.

Lemma final_hdr_inv ap h vl fmt R evl h' : final_hdr ap h vl fmt R evl = Ok h' ->
  exists h0 b0 eb bR,
    enc_header (with_stats h stats0) vl false = Ok (h0, b0) /\ enc_vlrs true evl = Ok eb
    /\ enc_header (with_stats h0 (fstats ap fmt h R evl (len b0))) vl true = Ok (h', bR).
Proof.
  unfold final_hdr. intros H.
  destruct (enc_header (with_stats h stats0) vl false) as [[h0 b0]|e] eqn:E0; [|discriminate].
  cbn [bind fst snd] in H.
  destruct (enc_vlrs true evl) as [eb|e] eqn:Eeb; [|discriminate]. cbn [bind] in H.
  match type of H with bind ?e _ = _ => destruct e as [[hR bR]|e'] eqn:ER; [|discriminate] end.
  cbn [bind fst snd] in H. injection H as <-.
  exists h0, b0, eb, bR. repeat split. unfold fstats, set_ev. destruct evl; exact ER.
Qed.

Lemma file_of_intro ap h vl fmt R evl h0 b0 eb hR bR :
  enc_header (with_stats h stats0) vl false = Ok (h0, b0) -> enc_vlrs true evl = Ok eb ->
  enc_header (with_stats h0 (fstats ap fmt h R evl (len b0))) vl true = Ok (hR, bR) ->
  file_of ap h vl fmt R evl = Ok (bR ++ concat R ++ eb).
Proof.
  intros E0 Eeb ER. unfold file_of. rewrite E0. cbn [bind fst snd]. rewrite Eeb. cbn [bind].
  unfold fstats, set_ev in ER. destruct evl; rewrite ER; reflexivity.
Qed.

(* everything known of a well-formed file *)
Lemma file_facts ap h vl fmt R evl f : wf_las ap h vl fmt R evl -> file_of ap h vl fmt R evl = Ok f ->
  exists h0 b0 eb hR bR,
    enc_header (with_stats h stats0) vl false = Ok (h0, b0) /\ enc_vlrs true evl = Ok eb
    /\ enc_header (with_stats h0 (fstats ap fmt h R evl (len b0))) vl true = Ok (hR, bR)
    /\ f = bR ++ concat R ++ eb
    /\ wf_header hR vl = true /\ forallb (wf_vlr true) evl = true
    /\ recs_ok (aint hR "point_size") R = true /\ 0 < aint hR "point_size"
    /\ (evl = [] \/ aint h "version.minor" >= 4) /\ len evl <= MAX_VLRS
    /\ compressed_id_to_uncompressed (aint h "point_format_id") = fmt.
Proof.
  intros (h' & Hf & W1 & W2 & W3 & W4 & W5 & W6 & W7) Hfile.
  destruct (file_of_inv _ _ _ _ _ _ _ Hfile) as (h0 & b0 & eb & hR & bR & E0 & Eeb & ER & ->).
  destruct (final_hdr_inv _ _ _ _ _ _ _ Hf) as (h0' & b0' & eb' & bR' & E0' & _ & ER').
  rewrite E0 in E0'. injection E0' as <- <-. rewrite ER in ER'. injection ER' as <- <-.
  exists h0, b0, eb, hR, bR. repeat split; assumption.
Qed.

(* ------------------------------------------------------------------------------------ *)
(* bytes                                                                                 *)
(* ------------------------------------------------------------------------------------ *)
Lemma write_at_mid : forall P T bs, write_at (P ++ T) (len P) bs = P ++ bs ++ skipn (length bs) T.
Proof.
  intros P T bs. unfold write_at, len. rewrite Nat2Z.id.
  rewrite firstn_app_exact by reflexivity.
  replace (length P - length (P ++ T))%nat with 0%nat by (rewrite app_length; lia).
  cbn [zeros repeat app]. rewrite skipn_add. rewrite skipn_app_exact by reflexivity. reflexivity.
Qed.

Lemma len_concat_recs ps R : recs_ok ps R = true -> len (concat R) = len R * ps.
Proof.
  induction R as [|r R IH]; intros H; [reflexivity|].
  cbn [recs_ok forallb] in H. apply andb_true_iff in H as [Hr HR]. apply andb_true_iff in Hr as [Hl _].
  cbn [concat]. rewrite len_app, (IH HR). unfold len in *. cbn [length]. lia.
Qed.

Lemma chunks_of_concat ps R : (0 < ps)%nat -> Forall (fun r => length r = ps) R ->
  forall fuel, (length R <= fuel)%nat -> chunks_of fuel ps (concat R) = R.
Proof.
  intros Hps HF. induction HF as [|r R Hr HF IH]; intros fuel Hfuel.
  - destruct fuel; reflexivity.
  - destruct fuel as [|fuel]; [cbn [length] in Hfuel; lia|]. cbn [concat chunks_of length].
    destruct (r ++ concat R) as [|x xs] eqn:E.
    { destruct r; [cbn [length] in Hr; lia|discriminate E]. }
    rewrite <- E. rewrite firstn_app_exact by exact Hr. rewrite skipn_app_exact by exact Hr.
    f_equal. apply IH. cbn [length] in Hfuel. lia.
Qed.

Lemma recs_ok_Forall ps R : recs_ok ps R = true -> Forall (fun r => length r = Z.to_nat ps) R.
Proof.
  intros H. apply Forall_forall. intros r Hin. unfold recs_ok in H. rewrite forallb_forall in H.
  specialize (H r Hin). apply andb_true_iff in H as [H _]. unfold len in H. lia.
Qed.

(* ------------------------------------------------------------------------------------ *)
(* the opening header against the caller's field list                                    *)
(* ------------------------------------------------------------------------------------ *)
Lemma wfst_stats0 : wfst stats0.
Proof. repeat split. Qed.

Lemma open_plain h vl h0 b0 n : enc_header (with_stats h stats0) vl false = Ok (h0, b0) ->
  is_stat n = false -> derived n = false -> aget h0 n = aget h n.
Proof.
  intros E0 Hs Hd.
  destruct (enc_header_inv _ _ _ _ _ E0) as (vb & hs0 & fb & _ & _ & _ & _ & -> & _ & _).
  unfold derived in Hd. apply orb_false_iff in Hd as [Hd H3]. apply orb_false_iff in Hd as [H1 H2].
  rewrite !aget_aset_other by assumption. rewrite aget_with_stats.
  now rewrite (sval_none stats0 n wfst_stats0 Hs).
Qed.

Lemma open_plain_aint h vl h0 b0 n : enc_header (with_stats h stats0) vl false = Ok (h0, b0) ->
  is_stat n = false -> derived n = false -> aint h0 n = aint h n.
Proof. intros E0 Hs Hd. unfold aint. now rewrite (open_plain _ _ _ _ _ E0 Hs Hd). Qed.

Lemma open_plain_abytes h vl h0 b0 n : enc_header (with_stats h stats0) vl false = Ok (h0, b0) ->
  is_stat n = false -> derived n = false -> abytes h0 n = abytes h n.
Proof. intros E0 Hs Hd. unfold abytes. now rewrite (open_plain _ _ _ _ _ E0 Hs Hd). Qed.

Lemma s_nevlr_stats_of ap fmt h R : s_nevlr (stats_of ap fmt h R) = 0 /\ s_evlr_start (stats_of ap fmt h R) = 0.
Proof. destruct R; split; reflexivity. Qed.

Lemma fstats_count ap fmt h R evl off : s_count (fstats ap fmt h R evl off) = len R.
Proof. unfold fstats. destruct evl; cbn [set_ev s_count]; apply stats_of_count. Qed.

(* ------------------------------------------------------------------------------------ *)
(* opening a well-formed file for appending                                              *)
(* ------------------------------------------------------------------------------------ *)
Lemma list_cases {A} (l : list A) : l = [] \/ exists e es, l = e :: es.
Proof. destruct l as [|e es]; [now left|right; eauto]. Qed.

Definition reads (m : Z) (hd hR : assoc) : Prop :=
  (forall n, In n (hfn m) -> aget hd n = Some (wval hR n))
  /\ abytes hd "extra_header_bytes" = abytes hR "extra_header_bytes"
  /\ abytes hd "extra_vlr_bytes" = abytes hR "extra_vlr_bytes".

Section OneFile.
  Variable ap : Z -> Z -> Z -> Z.
  Variables (h : assoc) (vl : list vlr) (fmt : Z) (A : list (list Z)) (evl : list vlr).
  Variables (h0 : assoc) (b0 eb : list Z) (hA : assoc) (bA : list Z).
  Hypothesis E0 : enc_header (with_stats h stats0) vl false = Ok (h0, b0).
  Hypothesis Eeb : enc_vlrs true evl = Ok eb.
  Hypothesis EA : enc_header (with_stats h0 (fstats ap fmt h A evl (len b0))) vl true = Ok (hA, bA).
  Hypothesis WfA : wf_header hA vl = true.
  Hypothesis Wevl : forallb (wf_vlr true) evl = true.
  Hypothesis WrA : recs_ok (aint hA "point_size") A = true.
  Hypothesis Wps : 0 < aint hA "point_size".
  Hypothesis Wev4 : evl = [] \/ aint h "version.minor" >= 4.
  Hypothesis Wfmt : compressed_id_to_uncompressed (aint h "point_format_id") = fmt.
  Let m := aint h0 "version.minor".
  Let stA := fstats ap fmt h A evl (len b0).
  Let f0 := bA ++ concat A ++ eb.

  Lemma of_WstA : wfst stA.
  Proof. apply wfst_fstats. Qed.

  Lemma of_range : 1 <= m <= 4.
  Proof. exact (rb_range _ _ _ _ _ of_WstA EA). Qed.

  Lemma of_minor_h : aint h "version.minor" = m.
  Proof. symmetry. apply (open_plain_aint _ _ _ _ _ E0); reflexivity. Qed.

  Lemma of_evl_m4 : evl <> [] -> m = 4.
  Proof.
    intros Hne. pose proof of_range. destruct Wev4 as [->|H4]; [contradiction|]. rewrite of_minor_h in H4. lia.
  Qed.

  Lemma of_fmt : compressed_id_to_uncompressed (aint hA "point_format_id") = fmt.
  Proof.
    rewrite (rb_aintR _ _ _ _ _ _ _ E0 of_WstA EA).
    rewrite aint_with_stats_none by (apply sval_none; [apply of_WstA|reflexivity]).
    rewrite (open_plain_aint _ _ _ _ _ E0) by reflexivity. exact Wfmt.
  Qed.

  Lemma of_lenA : len (concat A) = len A * aint hA "point_size".
  Proof. now apply len_concat_recs. Qed.

  Lemma of_dec : exists rh, dec_header f0 false = Ok rh
    /\ rh_vlrs rh = vl /\ rh_offset rh = len bA /\ rh_psize rh = aint hA "point_size" /\ rh_fmt rh = fmt
    /\ reads m (rh_fields rh) hA.
  Proof.
    destruct (dec_enc_header _ _ _ _ _ (concat A ++ eb) EA WfA) as (rh & Hd & R1 & R2 & R3 & R4 & R5 & R6 & R7).
    exists rh. rewrite (rb_minorR _ _ _ _ _ _ _ E0 of_WstA EA) in R5.
    rewrite of_fmt in R4. repeat split; assumption.
  Qed.

  Lemma of_aopen : exists s0, aopen f0 = Ok s0
    /\ a_file s0 = f0 /\ a_pos s0 = len (bA ++ concat A) /\ a_vlrs s0 = vl /\ a_fmt s0 = fmt
    /\ a_evlrs s0 = match evl with [] => None | _ => Some evl end
    /\ a_st s0 = stats_of_header (a_h s0) /\ reads m (a_h s0) hA.
  Proof.
    destruct of_dec as (rh & Hd & R1 & R2 & R3 & R4 & Hr). pose proof Hr as (Hget & Heh & Hev).
    pose proof (rb_stats _ _ _ _ _ _ _ E0 of_WstA EA _ Hget) as Hag. fold m stA in Hag.
    pose proof (rb_minor_hd _ _ _ _ _ _ _ E0 of_WstA EA _ Hget) as Hmin. fold m in Hmin.
    pose proof of_range as Hm.
    unfold aopen. rewrite Hd. cbn [bind]. cbv zeta.
    set (hd := rh_fields rh) in *. set (stH := stats_of_header hd) in *.
    destruct Hag as (_ & _ & Hc & _ & _ & _ & He).
    assert (s_count stH = len A) as HcA by (rewrite Hc; apply fstats_count).
    assert (s_count stH * rh_psize rh + rh_offset rh = len (bA ++ concat A)) as Hpos
      by (rewrite HcA, R2, R3, len_app, of_lenA; lia).
    rewrite Hpos, Hmin.
    destruct (list_cases evl) as [Eevl|(e & es & Eevl)].
    - assert ((m >=? 4) && (s_nevlr stH >? 0) = false) as ->.
      { destruct (m >=? 4) eqn:E4; [|reflexivity]. assert (m = 4) as M4 by lia.
        destruct (He M4) as [_ Hn]. rewrite Hn. unfold stA, fstats. rewrite Eevl.
        destruct (s_nevlr_stats_of ap fmt h A) as [-> _]. reflexivity. }
      eexists. split; [reflexivity|]. cbn [a_file a_pos a_vlrs a_fmt a_evlrs a_st a_h]. rewrite Eevl.
      repeat split; assumption.
    - assert (m = 4) as M4 by (apply of_evl_m4; rewrite Eevl; discriminate).
      destruct (He M4) as [Hs Hn]. unfold stA, fstats in Hs, Hn. rewrite Eevl in Hs, Hn.
      cbn [set_ev s_evlr_start s_nevlr] in Hs, Hn. rewrite <- Eevl in Hn.
      rewrite Hs, Hn. rewrite M4.
      pose proof (len_nonneg es) as Hes.
      assert (len evl = 1 + len es) as Hl by (rewrite Eevl; unfold len; cbn [length]; lia).
      replace ((4 >=? 4) && (len evl >? 0)) with true by lia.
      rewrite <- (rb_len _ _ _ _ _ _ _ E0 EA), <- len_app.
      replace (len (bA ++ concat A) >? len (bA ++ concat A)) with false by lia.
      rewrite !to_nat_len. unfold f0. rewrite app_assoc, skipn_app_exact by reflexivity.
      rewrite <- (app_nil_r eb). rewrite (dec_enc_vlrs true evl eb [] Wevl Eeb). cbn [bind fst].
      eexists. split; [reflexivity|]. cbn [a_file a_pos a_vlrs a_fmt a_evlrs a_st a_h].
      rewrite app_nil_r, <- app_assoc. rewrite M4 in Hr.
      refine (conj eq_refl (conj eq_refl (conj R1 (conj R4 (conj _ (conj eq_refl Hr)))))). rewrite Eevl. reflexivity.
  Qed.
End OneFile.

(* ------------------------------------------------------------------------------------ *)
(* appending chunks                                                                      *)
(* ------------------------------------------------------------------------------------ *)
Lemma astep_count ap fmt g st c : s_count (astep ap fmt g st c) = s_count st + len c.
Proof.
  destruct c as [|r c]; [cbn [astep]; change (len (@nil (list Z))) with 0; lia|].
  unfold astep, grow. cbn [s_count]. destruct (s_count st =? 0); reflexivity.
Qed.

Lemma apoints_step ap s c P T :
  a_file s = P ++ T -> a_pos s = len P ->
  s_count (a_st s) + len c <= max_point_count (aint (a_h s) "version.major") (aint (a_h s) "version.minor") ->
  let s' := fst (apoints ap s c true) in
  a_h s' = a_h s /\ a_vlrs s' = a_vlrs s /\ a_fmt s' = a_fmt s /\ a_psize s' = a_psize s /\ a_evlrs s' = a_evlrs s
  /\ a_file s' = (P ++ concat c) ++ skipn (length (concat c)) T /\ a_pos s' = len (P ++ concat c)
  /\ a_st s' = astep ap (a_fmt s) (a_h s) (a_st s) c.
Proof.
  intros Hf Hp Hc. destruct c as [|r c].
  - cbn [apoints fst concat astep skipn length]. rewrite app_nil_r. repeat split; assumption.
  - unfold apoints. cbn [negb].
    match goal with |- context [if ?b then (s, Err ELaspy) else _] => destruct b eqn:E end; [lia|].
    cbn [fst a_h a_vlrs a_fmt a_psize a_evlrs a_file a_pos a_st].
    rewrite Hf, Hp, write_at_mid, len_app, <- app_assoc. repeat split.
Qed.

Lemma afold ap m fmt h : forall Bs s P T st,
  a_file s = P ++ T -> a_pos s = len P -> a_fmt s = fmt ->
  (forall i, aint (a_h s) (axis_name "scales" i) = aint h (axis_name "scales" i)) ->
  (forall i, aint (a_h s) (axis_name "offsets" i) = aint h (axis_name "offsets" i)) ->
  sagree m (a_st s) st ->
  s_count st + len (concat Bs) <= max_point_count (aint (a_h s) "version.major") (aint (a_h s) "version.minor") ->
  let s' := fold_left (fun s c => fst (apoints ap s c true)) Bs s in
  a_h s' = a_h s /\ a_vlrs s' = a_vlrs s /\ a_evlrs s' = a_evlrs s
  /\ a_file s' = (P ++ concat (concat Bs)) ++ skipn (length (concat (concat Bs))) T
  /\ a_pos s' = len (P ++ concat (concat Bs))
  /\ sagree m (a_st s') (fold_left (astep ap fmt h) Bs st).
Proof.
  induction Bs as [|c Bs IH]; intros s P T st Hf Hp Hfmt Hs Ho Hag Hc.
  - cbn [fold_left concat skipn length]. rewrite app_nil_r.
    repeat (split; [first [assumption|reflexivity]|]). assumption.
  - cbn [fold_left]. cbn [concat] in Hc. rewrite len_app in Hc.
    pose proof (len_nonneg (concat Bs)) as Hn1. pose proof (len_nonneg c) as Hn2.
    assert (s_count (a_st s) = s_count st) as Hcnt by apply Hag.
    destruct (apoints_step ap s c P T Hf Hp ltac:(lia)) as (A1 & A2 & A3 & A4 & A5 & A6 & A7 & A8).
    set (s1 := fst (apoints ap s c true)) in *.
    assert (sagree m (a_st s1) (astep ap fmt h st c)) as Hag1.
    { rewrite A8, Hfmt. now apply sagree_astep. }
    destruct (IH s1 (P ++ concat c) (skipn (length (concat c)) T) (astep ap fmt h st c) A6 A7
                 ltac:(now rewrite A3) ltac:(now rewrite A1) ltac:(now rewrite A1) Hag1
                 ltac:(rewrite A1, astep_count; lia)) as (B1 & B2 & B3 & B4 & B5 & B6).
    cbv zeta. rewrite B1, B2, B3, B4, B5, A1, A2, A5.
    cbn [concat]. rewrite concat_app, app_length, skipn_add, <- !app_assoc.
    repeat (split; [first [assumption|reflexivity]|]). exact B6.
Qed.

(* ------------------------------------------------------------------------------------ *)
(* two field lists + statistics that encode to the same header                           *)
(* ------------------------------------------------------------------------------------ *)
Lemma wval_const g1 g2 n : String.eqb n "zero" = true \/ String.eqb n "signature" = true -> wval g1 n = wval g2 n.
Proof.
  intros [H|H]; unfold wval; rewrite H; [reflexivity|]. destruct (String.eqb n "zero"); reflexivity.
Qed.

Lemma sval_cov_some m st n : 1 <= m <= 4 -> wfst st -> In n (cov m) -> exists z, sval st n = Some z.
Proof.
  intros Hm W Hin.
  destruct (cov_cases m n Hm Hin) as [(i & Hi & ->)|[(i & Hi & ->)|[(i & Hi & ->)|[->|(-> & [->| ->])]]]].
  - rewrite sval_max by assumption. eauto.
  - rewrite sval_min by assumption. eauto.
  - assert (i < 15)%nat by (destruct (m <? 4); lia). rewrite sval_ret by assumption. eauto.
  - rewrite sval_count by assumption. eauto.
  - rewrite sval_start by assumption. eauto.
  - rewrite sval_nevlr by assumption. eauto.
Qed.

Lemma enc_header_agree m g1 g2 st1 st2 vl es : 1 <= m <= 4 ->
  aint g1 "version.minor" = m -> aint g2 "version.minor" = m ->
  aint g1 "version.major" = aint g2 "version.major" ->
  (es = true -> aint g1 "offset_to_point_data" = aint g2 "offset_to_point_data") ->
  (forall n, In n (hfn m) -> is_stat n = false -> derived n = false -> wval g1 n = wval g2 n) ->
  abytes g1 "extra_header_bytes" = abytes g2 "extra_header_bytes" ->
  abytes g1 "extra_vlr_bytes" = abytes g2 "extra_vlr_bytes" ->
  sagree m st1 st2 ->
  same_out (enc_header (with_stats g1 st1) vl es) (enc_header (with_stats g2 st2) vl es).
Proof.
  intros Hm M1 M2 Hmaj Hoff Hpl Heh Hev Hag.
  pose proof Hag as (W1 & W2 & Hc & _).
  assert (forall k, is_stat k = false -> sval st1 k = None) as N1 by (intros; now apply sval_none).
  assert (forall k, is_stat k = false -> sval st2 k = None) as N2 by (intros; now apply sval_none).
  assert (aint (with_stats g1 st1) "version.minor" = m) as M1'
    by (rewrite aint_with_stats_none by (now apply N1); exact M1).
  apply enc_header_ext_gen.
  - rewrite !aint_with_stats_none by (first [now apply N1|now apply N2]). exact Hmaj.
  - rewrite M1'. rewrite aint_with_stats_none by (now apply N2). now rewrite M2.
  - rewrite (aint_with_stats_some _ _ _ _ (sval_count st1 W1)), (aint_with_stats_some _ _ _ _ (sval_count st2 W2)).
    exact Hc.
  - intros ->. rewrite !aint_with_stats_none by (first [now apply N1|now apply N2]). now apply Hoff.
  - rewrite M1'. intros n Hin Hd.
    destruct (wnames_class m n Hm Hin) as [Hk|(Hh & [Hs|Hcv])].
    + now apply wval_const.
    + apply wval_with_stats_cong; [now rewrite N1, N2|]. intros _. now apply Hpl.
    + apply wval_with_stats_cong; [now apply (sagree_sval m)|].
      destruct (sval_cov_some m st2 n Hm W2 Hcv) as (z & ->). discriminate.
  - rewrite !abytes_with_stats_none by (first [now apply N1|now apply N2]). exact Heh.
  - rewrite !abytes_with_stats_none by (first [now apply N1|now apply N2]). exact Hev.
Qed.

Lemma fold_astep_set_ev ap fmt g Bs : forall st e k,
  fold_left (astep ap fmt g) Bs (set_ev st e k) = set_ev (fold_left (astep ap fmt g) Bs st) e k.
Proof.
  induction Bs as [|c Bs IH]; intros st e k; [reflexivity|]. cbn [fold_left]. now rewrite astep_set_ev, IH.
Qed.

Lemma sagree_close m s1 s2 e e' k : m = 4 -> sagree m s1 (set_ev s2 e k) ->
  sagree m (mkS (s_count s1) (s_max s1) (s_min s1) (s_ret s1) e' (s_nevlr s1)) (set_ev s2 e' k).
Proof.
  intros M4 (W1 & W2 & Hc & Hx & Hn & Hr & He). destruct (He M4) as [_ Hk].
  exact (conj W1 (conj W2 (conj Hc (conj Hx (conj Hn (conj Hr (fun _ => conj eq_refl Hk))))))).
Qed.

(* ------------------------------------------------------------------------------------ *)
(* C06: append = one-shot write of the concatenation                                     *)
(* ------------------------------------------------------------------------------------ *)
Lemma axis_core pre i : (pre = "scales" \/ pre = "offsets")%string -> In (axis_name pre i) plain_core.
Proof. intros [-> | ->]; destruct i as [|[|i]]; cbn; tauto. Qed.

Lemma skipn_skipn_all {A} (l : list A) k : skipn (length l) (skipn k l) = [].
Proof. apply skipn_all2. rewrite skipn_length. lia. Qed.

Theorem append_equiv : forall ap, ap_ok ap -> (forall s o x, 0 <= ap s o x) ->
  forall h vl fmt A evl Bs f0 f1,
  wf_las ap h vl fmt A evl -> wf_las ap h vl fmt (A ++ concat Bs) evl ->
  file_of ap h vl fmt A evl = Ok f0 ->
  file_of ap h vl fmt (A ++ concat Bs) evl = Ok f1 ->
  arun ap f0 Bs = Ok f1.
Proof.
  intros ap Hap _ h vl fmt A evl Bs f0 f1 WA WAB FA FAB.
  destruct (file_facts _ _ _ _ _ _ _ WA FA)
    as (h0 & b0 & eb & hA & bA & E0 & Eeb & EA & -> & WfA & Wevl & WrA & Wps & Wev4 & Wnev & Wfmt).
  destruct (file_facts _ _ _ _ _ _ _ WAB FAB)
    as (h0' & b0' & eb' & hAB & bAB & E0' & Eeb' & EAB & -> & WfAB & _ & WrAB & _ & _ & _ & _).
  rewrite E0 in E0'. injection E0' as <- <-. rewrite Eeb in Eeb'. injection Eeb' as <-.
  set (m := aint h0 "version.minor").
  pose proof (wfst_fstats ap fmt h A evl (len b0)) as WstA.
  pose proof (wfst_fstats ap fmt h (A ++ concat Bs) evl (len b0)) as WstAB.
  pose proof (rb_range _ _ _ _ _ WstA EA) as Hm. fold m in Hm.
  destruct (of_aopen ap h vl fmt A evl h0 b0 eb hA bA E0 Eeb EA WfA Wevl WrA Wev4 Wfmt)
    as (s0 & Hopen & S1 & S2 & S3 & S4 & S5 & S6 & Hr).
  fold m in Hr. destruct Hr as (Hget & Heh & Hev).
  pose proof (rb_core _ _ _ _ _ _ _ E0 WstA EA _ Hget) as Hcore.
  destruct (rb_bytes _ _ _ _ _ _ _ E0 WstA EA _ Heh Hev) as [Beh Bev].
  pose proof (rb_stats _ _ _ _ _ _ _ E0 WstA EA _ Hget) as Hag0. fold m in Hag0. rewrite <- S6 in Hag0.
  pose proof (rb_plain_wval _ _ _ _ _ _ _ E0 WstA EA _ Hget) as Hplain. fold m in Hplain.
  pose proof (rb_count_max _ _ _ _ _ WstAB EAB) as Hmax. fold m in Hmax.
  rewrite fstats_count, len_app in Hmax.
  unfold arun. rewrite Hopen. cbn [bind].
  rewrite app_assoc in S1.
  (* the chunks *)
  destruct (afold ap m fmt h Bs s0 (bA ++ concat A) eb (fstats ap fmt h A evl (len b0)) S1 S2 S4) as (F1 & F2 & F3 & F4 & F5 & F6).
  { intros i. destruct (Hcore _ (axis_core "scales" i (or_introl eq_refl))) as [-> _].
    apply (open_plain_aint _ _ _ _ _ E0); destruct i as [|[|i]]; reflexivity. }
  { intros i. destruct (Hcore _ (axis_core "offsets" i (or_intror eq_refl))) as [-> _].
    apply (open_plain_aint _ _ _ _ _ E0); destruct i as [|[|i]]; reflexivity. }
  { exact Hag0. }
  { rewrite fstats_count.
    destruct (Hcore "version.major"%string ltac:(cbn; tauto)) as [-> _].
    destruct (Hcore "version.minor"%string ltac:(cbn; tauto)) as [-> _]. exact Hmax. }
  set (s' := fold_left (fun s c => fst (apoints ap s c true)) Bs s0) in *.
  set (N := concat (concat Bs)) in *.
  (* the statistics after the chunks *)
  assert (exists st', sagree m st' (fstats ap fmt h (A ++ concat Bs) evl (len b0)) /\
            exists f, (let '(st'', f') :=
                         match a_evlrs s' with
                         | Some (e :: es) =>
                           match enc_vlrs true (e :: es) with
                           | Ok eb0 => (mkS (s_count (a_st s')) (s_max (a_st s')) (s_min (a_st s')) (s_ret (a_st s'))
                                            (a_pos s') (s_nevlr (a_st s')), write_at (a_file s') (a_pos s') eb0)
                           | Err _ => (a_st s', a_file s')
                           end
                         | _ => (a_st s', a_file s')
                         end in (st'', f')) = (st', f) /\ f = bA ++ concat (A ++ concat Bs) ++ eb) as (st' & Hag' & f & Hcl & Hf).
  { rewrite F3, S5. destruct (list_cases evl) as [Eevl|(e & es & Eevl)].
    - rewrite Eevl. exists (a_st s'). split.
      + unfold fstats in *. rewrite Eevl in *. rewrite (fold_astep ap Hap) in F6. exact F6.
      + exists (a_file s'). split; [reflexivity|]. rewrite F4.
        rewrite Eevl in Eeb. cbn [enc_vlrs] in Eeb. injection Eeb as <-.
        rewrite skipn_nil, !app_nil_r, concat_app, <- app_assoc. reflexivity.
    - assert (m = 4) as M4.
      { destruct Wev4 as [W|W]; [rewrite Eevl in W; discriminate|].
        rewrite <- (open_plain_aint _ _ _ _ "version.minor" E0 eq_refl eq_refl) in W. fold m in W. lia. }
      subst evl. cbv beta iota. rewrite Eeb.
      eexists. split; [|eexists; split; [reflexivity|]].
      + unfold fstats in F6 |- *.
        rewrite fold_astep_set_ev, (fold_astep ap Hap) in F6.
        replace (len b0 + len (concat (A ++ concat Bs))) with (a_pos s').
        * apply (sagree_close m _ _ _ _ _ M4 F6).
        * rewrite F5, concat_app, !len_app. fold N. rewrite (rb_len _ _ _ _ _ _ _ E0 EA). lia.
      + rewrite F4, F5, write_at_mid. unfold N. rewrite skipn_skipn_all, app_nil_r.
        rewrite concat_app, <- !app_assoc. reflexivity. }
  (* the header *)
  assert (same_out (enc_header (with_stats (a_h s0) st') vl true)
                   (enc_header (with_stats h0 (fstats ap fmt h (A ++ concat Bs) evl (len b0))) vl true)) as Hso.
  { apply (enc_header_agree m); try assumption.
    - apply Hcore. cbn; tauto.
    - reflexivity.
    - apply Hcore. cbn; tauto.
    - intros _. apply Hcore. cbn; tauto.
    - intros n Hin Hs _. now apply Hplain. }
  destruct (enc_header_transfer _ _ _ _ _ _ EAB Hso) as (h1' & Hh1).
  unfold aclose. cbv zeta. rewrite F1, F2, S3.
  match goal with |- context [let '(a, b) := ?X in _] => destruct X as [st2 f2] end.
  injection Hcl as -> ->. rewrite Hh1. cbn [bind snd]. rewrite Hf. f_equal.
  apply write_at_prefix.
  pose proof (rb_len _ _ _ _ _ _ _ E0 EA) as L1. pose proof (rb_len _ _ _ _ _ _ _ E0 EAB) as L2.
  unfold len in *. lia.
Qed.
Print Assumptions append_equiv.

Corollary append_sessions : forall ap, ap_ok ap -> (forall s o x, 0 <= ap s o x) ->
  forall h vl fmt A evl Bs Cs f0 f1 f2,
  wf_las ap h vl fmt A evl -> wf_las ap h vl fmt (A ++ concat Bs) evl -> wf_las ap h vl fmt ((A ++ concat Bs) ++ concat Cs) evl ->
  file_of ap h vl fmt A evl = Ok f0 -> file_of ap h vl fmt (A ++ concat Bs) evl = Ok f1 ->
  file_of ap h vl fmt ((A ++ concat Bs) ++ concat Cs) evl = Ok f2 ->
  arun ap f0 Bs = Ok f1 /\ arun ap f1 Cs = Ok f2 /\ arun ap f0 (Bs ++ Cs) = Ok f2.
Proof.
  intros ap Hap Hnn h vl fmt A evl Bs Cs f0 f1 f2 W0 W1 W2 F0 F1 F2.
  split; [exact (append_equiv ap Hap Hnn h vl fmt A evl Bs f0 f1 W0 W1 F0 F1)|].
  split; [exact (append_equiv ap Hap Hnn h vl fmt (A ++ concat Bs) evl Cs f1 f2 W1 W2 F1 F2)|].
  assert ((A ++ concat Bs) ++ concat Cs = A ++ concat (Bs ++ Cs)) as E
    by (now rewrite concat_app, app_assoc).
  rewrite E in W2, F2.
  exact (append_equiv ap Hap Hnn h vl fmt A evl (Bs ++ Cs) f0 f2 W0 W2 F0 F2).
Qed.
Print Assumptions append_sessions.

(* refusals *)
Theorem append_wrong_format : forall ap s recs, recs <> [] -> apoints ap s recs false = (s, Err ELaspy).
Proof. intros ap s recs Hr. destruct recs as [|r recs]; [contradiction|]. reflexivity. Qed.
Print Assumptions append_wrong_format.

Theorem append_empty_chunk : forall ap s b, apoints ap s [] b = (s, Ok tt).
Proof. reflexivity. Qed.
Print Assumptions append_empty_chunk.

(* ------------------------------------------------------------------------------------ *)
(* reading with EVLRs: the same header, plus the EVLR list                               *)
(* ------------------------------------------------------------------------------------ *)
Definition raw_minor (src : list Z) : Z :=
  let hb := firstn 227 src in
  let off0 := le_dec (firstn 4 (skipn 96 hb)) in
  let stream := if off0 <? 227 then src else firstn (Z.to_nat off0) src in
  le_dec (firstn 1 (skipn 25 stream)).

Definition read_evl (src : list Z) (a : assoc) : result (option (list vlr)) :=
  if raw_minor src >=? 4 then
    if aint a "number_of_evlrs" >? 0 then
      do r <- dec_vlrs true (Z.to_nat (aint a "number_of_evlrs")) (skipn (Z.to_nat (aint a "start_of_first_evlr")) src);
      Ok (Some (fst r))
    else Ok (Some [])
  else Ok None.

Lemma dec_header_flag src rh : dec_header src false = Ok rh ->
  dec_header src true =
    do ev <- read_evl src (rh_fields rh);
    Ok (mkRH (rh_fields rh) (rh_vlrs rh) ev (rh_fmt rh) (rh_compressed rh) (rh_psize rh) (rh_offset rh)).
Proof.
  intros H. unfold read_evl, raw_minor. unfold dec_header in *. cbv zeta in *. unfold bind in *.
  repeat match type of H with
  | (match ?x with _ => _ end) = _ => destruct x; try discriminate H
  end.
  injection H as <-. cbn [rh_fields rh_vlrs rh_fmt rh_compressed rh_psize rh_offset].
  rewrite !aint_aset_other by reflexivity. reflexivity.
Qed.

Lemma raw_minor_enc g vl es hR bR rest : enc_header g vl es = Ok (hR, bR) ->
  raw_minor (bR ++ rest) = aint hR "version.minor".
Proof.
  intros He. pose proof (enc_header_len _ _ _ _ _ He) as Hlen.
  destruct (enc_header_inv _ _ _ _ _ He) as (vb & hs0 & fb & Hv & Hh & _ & _ & HhR & Hf & Hbs).
  destruct (tbl_cases_range _ _ _ Hh) as (_ & Hm & Hhs0).
  destruct (hw_layout_width _ _ _ Hh) as [Hw Hok].
  pose proof (enc_fields_len _ _ _ Hok Hf) as Hfb. rewrite Hw in Hfb.
  set (tail := abytes g "extra_header_bytes" ++ vb ++ abytes g "extra_vlr_bytes") in *.
  destruct (header_prefix _ hR fb (tail ++ rest) Hm Hf) as (_ & _ & Poff).
  destruct (header_prefix _ hR fb tail Hm Hf) as (_ & Pmnr & _).
  assert (bR ++ rest = fb ++ tail ++ rest) as Hsrc by (rewrite Hbs, <- app_assoc; reflexivity).
  rewrite <- Hsrc in Poff. rewrite <- Hbs in Pmnr. rewrite <- Hlen in Poff.
  pose proof (len_nonneg tail) as Nt.
  assert (len bR = hs0 + len tail) as HlbR by (rewrite Hbs, len_app; lia).
  unfold raw_minor. cbv zeta.
  rewrite skipn_firstn_comm, firstn_firstn. change (Init.Nat.min 4 (227 - 96)) with 4%nat. rewrite Poff.
  replace (len bR <? 227) with false by lia.
  rewrite to_nat_len. rewrite (firstn_app_exact bR rest (length bR) eq_refl). exact Pmnr.
Qed.

(* ------------------------------------------------------------------------------------ *)
(* reading a well-formed file back                                                       *)
(* ------------------------------------------------------------------------------------ *)
Definition evl_of (o : option (list vlr)) : list vlr := match o with Some l => l | None => [] end.

Section ReadFile.
  Variable ap : Z -> Z -> Z -> Z.
  Variables (h : assoc) (vl : list vlr) (fmt : Z) (A : list (list Z)) (evl : list vlr).
  Variables (h0 : assoc) (b0 eb : list Z) (hA : assoc) (bA : list Z).
  Hypothesis E0 : enc_header (with_stats h stats0) vl false = Ok (h0, b0).
  Hypothesis Eeb : enc_vlrs true evl = Ok eb.
  Hypothesis EA : enc_header (with_stats h0 (fstats ap fmt h A evl (len b0))) vl true = Ok (hA, bA).
  Hypothesis WfA : wf_header hA vl = true.
  Hypothesis Wevl : forallb (wf_vlr true) evl = true.
  Hypothesis WrA : recs_ok (aint hA "point_size") A = true.
  Hypothesis Wps : 0 < aint hA "point_size".
  Hypothesis Wev4 : evl = [] \/ aint h "version.minor" >= 4.
  Hypothesis Wfmt : compressed_id_to_uncompressed (aint h "point_format_id") = fmt.
  Let m := aint h0 "version.minor".
  Let stA := fstats ap fmt h A evl (len b0).
  Let f0 := bA ++ concat A ++ eb.

  Lemma rf_evl hd : reads m hd hA -> exists ev, read_evl f0 hd = Ok ev /\ evl_of ev = evl.
  Proof.
    intros (Hget & Heh & Hev).
    pose proof (wfst_fstats ap fmt h A evl (len b0)) as WstA.
    pose proof (rb_stats _ _ _ _ _ _ _ E0 WstA EA _ Hget) as Hag. fold m in Hag.
    pose proof (rb_range _ _ _ _ _ WstA EA) as Hm. fold m in Hm.
    destruct Hag as (_ & _ & _ & _ & _ & _ & He).
    unfold read_evl, f0. rewrite (raw_minor_enc _ _ _ _ _ _ EA).
    rewrite (rb_minorR _ _ _ _ _ _ _ E0 WstA EA). fold m.
    destruct (m >=? 4) eqn:E4.
    - assert (m = 4) as M4 by lia. destruct (He M4) as [Hs Hn].
      unfold stats_of_header in Hs, Hn. cbn [s_evlr_start s_nevlr] in Hs, Hn. rewrite Hs, Hn.
      unfold fstats. destruct (list_cases evl) as [Eevl|(e & es & Eevl)].
      + rewrite Eevl. destruct (s_nevlr_stats_of ap fmt h A) as [-> _].
        change (0 >? 0) with false. exists (Some []). split; reflexivity.
      + rewrite Eevl. cbn [set_ev s_evlr_start s_nevlr]. rewrite <- Eevl.
        pose proof (len_nonneg es) as Hes.
        assert (len evl = 1 + len es) as Hl by (rewrite Eevl; unfold len; cbn [length]; lia).
        replace (len evl >? 0) with true by lia.
        rewrite <- (rb_len _ _ _ _ _ _ _ E0 EA), <- len_app.
        rewrite !to_nat_len. rewrite app_assoc, skipn_app_exact by reflexivity.
        rewrite <- (app_nil_r eb). rewrite (dec_enc_vlrs true evl eb [] Wevl Eeb). cbn [bind fst].
        exists (Some evl). split; reflexivity.
    - exists None. split; [reflexivity|]. cbn [evl_of].
      destruct Wev4 as [->|H4]; [reflexivity|].
      rewrite <- (open_plain_aint _ _ _ _ "version.minor" E0 eq_refl eq_refl) in H4. fold m in H4. lia.
  Qed.

  Lemma rf_read lf : read_file f0 = Ok lf ->
    reads m (rh_fields (lf_h lf)) hA /\ rh_vlrs (lf_h lf) = vl /\ rh_fmt (lf_h lf) = fmt
    /\ lf_points lf = A /\ evl_of (rh_evlrs (lf_h lf)) = evl.
  Proof.
    intros Hrd.
    destruct (of_dec ap h vl fmt A evl h0 b0 eb hA bA E0 EA WfA Wfmt) as (rh & Hd & R1 & R2 & R3 & R4 & Hr).
    fold m f0 in Hd, Hr.
    destruct (rf_evl _ Hr) as (ev & Hev & Hevl).
    pose proof Hr as (Hget & _ & _).
    pose proof (wfst_fstats ap fmt h A evl (len b0)) as WstA.
    pose proof (rb_stats _ _ _ _ _ _ _ E0 WstA EA _ Hget) as Hag. fold m in Hag.
    destruct Hag as (_ & _ & Hc & _). unfold stats_of_header in Hc. cbn [s_count] in Hc.
    rewrite fstats_count in Hc.
    unfold read_file in Hrd. rewrite (dec_header_flag _ _ Hd), Hev in Hrd. cbn [bind rh_fields rh_offset rh_psize] in Hrd.
    rewrite Hc in Hrd.
    pose proof (len_concat_recs _ _ WrA) as HlA.
    destruct (len A <=? 0) eqn:E0'.
    - injection Hrd as <-. cbn [lf_h lf_points rh_fields rh_vlrs rh_fmt rh_evlrs].
      assert (A = []) as EA' by (destruct A; [reflexivity|unfold len in E0'; cbn [length] in E0'; lia]).
      exact (conj Hr (conj R1 (conj R4 (conj (eq_sym EA') Hevl)))).
    - assert (read_records f0 (rh_offset rh) (rh_psize rh) 0 (len A) = Ok A) as Hrr.
      { unfold read_records. cbv zeta. rewrite R2, R3.
        replace (len bA + 0 * aint hA "point_size") with (len bA) by lia.
        rewrite <- HlA, !to_nat_len. unfold f0.
        rewrite skipn_app_exact by reflexivity. rewrite firstn_app_exact by reflexivity.
        replace (aint hA "point_size" <=? 0) with false by lia.
        rewrite HlA, Z.mod_mul by lia. change (0 =? 0) with true. cbv iota.
        f_equal. apply chunks_of_concat; [lia|now apply recs_ok_Forall|].
        unfold len in HlA. nia. }
      rewrite Hrr in Hrd. cbn [bind] in Hrd. injection Hrd as <-.
      cbn [lf_h lf_points rh_fields rh_vlrs rh_fmt rh_evlrs].
      exact (conj Hr (conj R1 (conj R4 (conj eq_refl Hevl)))).
  Qed.
End ReadFile.

(* ------------------------------------------------------------------------------------ *)
(* C01: rewriting what was read                                                          *)
(* ------------------------------------------------------------------------------------ *)
Lemma enc_keeps_aget g vl es h' bs n : enc_header g vl es = Ok (h', bs) -> derived n = false -> aget h' n = aget g n.
Proof.
  intros H Hd. destruct (enc_header_inv _ _ _ _ _ H) as (vb & hs0 & fb & _ & _ & _ & _ & -> & _ & _).
  unfold derived in Hd. apply orb_false_iff in Hd as [Hd H3]. apply orb_false_iff in Hd as [H1 H2].
  now rewrite !aget_aset_other by assumption.
Qed.

Lemma stats_of_ext ap fmt g1 g2 R :
  (forall i, aint g1 (axis_name "scales" i) = aint g2 (axis_name "scales" i)) ->
  (forall i, aint g1 (axis_name "offsets" i) = aint g2 (axis_name "offsets" i)) ->
  stats_of ap fmt g1 R = stats_of ap fmt g2 R.
Proof. intros Hs Ho. destruct R as [|r R]; [reflexivity|]. unfold stats_of. now apply grow_ext. Qed.

Theorem rewrite_idempotent : forall ap, ap_ok ap -> (forall s o x, 0 <= ap s o x) ->
  forall h vl fmt recs evl f lf,
  wf_las ap h vl fmt recs evl ->
  file_of ap h vl fmt recs evl = Ok f -> read_file f = Ok lf ->
  file_of ap (rh_fields (lf_h lf)) (rh_vlrs (lf_h lf)) (rh_fmt (lf_h lf)) (lf_points lf)
          (match rh_evlrs (lf_h lf) with Some l => l | None => [] end) = Ok f.
Proof.
  intros ap _ _ h vl fmt R evl f lf W F Hrd.
  destruct (file_facts _ _ _ _ _ _ _ W F)
    as (h0 & b0 & eb & hR & bR & E0 & Eeb & ER & -> & WfR & Wevl & WrR & Wps & Wev4 & Wnev & Wfmt).
  destruct (rf_read ap h vl fmt R evl h0 b0 eb hR bR E0 Eeb ER WfR Wevl WrR Wps Wev4 Wfmt lf Hrd)
    as (Hr & -> & -> & -> & Hevl).
  clear Hrd F W.
  change (match rh_evlrs (lf_h lf) with Some l => l | None => [] end) with (evl_of (rh_evlrs (lf_h lf))).
  rewrite Hevl. set (hd := rh_fields (lf_h lf)) in *. set (m := aint h0 "version.minor") in *.
  destruct Hr as (Hget & Heh & Hev).
  pose proof (wfst_fstats ap fmt h R evl (len b0)) as Wst.
  pose proof (rb_range _ _ _ _ _ Wst ER) as Hm. fold m in Hm.
  pose proof (rb_core _ _ _ _ _ _ _ E0 Wst ER _ Hget) as Hcore.
  destruct (rb_bytes _ _ _ _ _ _ _ E0 Wst ER _ Heh Hev) as [Beh Bev].
  pose proof (rb_plain_wval _ _ _ _ _ _ _ E0 Wst ER _ Hget) as Hplain. fold m in Hplain.
  assert (forall k, is_stat k = false -> sval stats0 k = None) as N0 by (intros; apply sval_none; [apply wfst_stats0|assumption]).
  (* the opening header *)
  assert (same_out (enc_header (with_stats hd stats0) vl false) (enc_header (with_stats h stats0) vl false)) as Hso0.
  { apply (enc_header_agree m); try assumption.
    - apply Hcore. cbn; tauto.
    - symmetry. apply (open_plain_aint _ _ _ _ _ E0); reflexivity.
    - destruct (Hcore "version.major"%string ltac:(cbn; tauto)) as [-> _].
      apply (open_plain_aint _ _ _ _ _ E0); reflexivity.
    - discriminate.
    - intros n Hin Hs Hd. rewrite (Hplain n Hin Hs). apply wval_aget. now apply (open_plain _ _ _ _ _ E0).
    - rewrite Beh. apply (open_plain_abytes _ _ _ _ _ E0); reflexivity.
    - rewrite Bev. apply (open_plain_abytes _ _ _ _ _ E0); reflexivity.
    - apply sagree_refl, wfst_stats0. }
  destruct (enc_header_transfer _ _ _ _ _ _ E0 Hso0) as (hd0 & Ed0).
  (* the statistics *)
  assert (fstats ap fmt hd R evl (len b0) = fstats ap fmt h R evl (len b0)) as Hfs.
  { unfold fstats. rewrite (stats_of_ext ap fmt hd h R); [reflexivity| |].
    - intros i. destruct (Hcore _ (axis_core "scales" i (or_introl eq_refl))) as [-> _].
      apply (open_plain_aint _ _ _ _ _ E0); destruct i as [|[|i]]; reflexivity.
    - intros i. destruct (Hcore _ (axis_core "offsets" i (or_intror eq_refl))) as [-> _].
      apply (open_plain_aint _ _ _ _ _ E0); destruct i as [|[|i]]; reflexivity. }
  (* the final header *)
  assert (forall n, derived n = false -> is_stat n = false -> aget hd0 n = aget hd n) as Hd0.
  { intros n Hd Hs. rewrite (enc_keeps_aget _ _ _ _ _ _ Ed0 Hd). rewrite aget_with_stats. rewrite (N0 n Hs). reflexivity. }
  assert (forall n, derived n = false -> is_stat n = false -> aint hd0 n = aint hd n) as Hd0i
    by (intros n Hd Hs; unfold aint; rewrite (Hd0 n Hd Hs); reflexivity).
  assert (forall n, derived n = false -> is_stat n = false -> abytes hd0 n = abytes hd n) as Hd0b
    by (intros n Hd Hs; unfold abytes; rewrite (Hd0 n Hd Hs); reflexivity).
  assert (same_out (enc_header (with_stats hd0 (fstats ap fmt h R evl (len b0))) vl true)
                   (enc_header (with_stats h0 (fstats ap fmt h R evl (len b0))) vl true)) as Hso1.
  { apply (enc_header_agree m); try assumption.
    - rewrite (Hd0i "version.minor"%string eq_refl eq_refl). apply (Hcore "version.minor"%string). cbn; tauto.
    - reflexivity.
    - rewrite (Hd0i "version.major"%string eq_refl eq_refl). apply (Hcore "version.major"%string). cbn; tauto.
    - intros _. rewrite <- (enc_header_len _ _ _ _ _ Ed0). exact (enc_header_len _ _ _ _ _ E0).
    - intros n Hin Hs Hd. rewrite <- (Hplain n Hin Hs). apply wval_aget. apply Hd0; assumption.
    - rewrite (Hd0b "extra_header_bytes"%string eq_refl eq_refl). exact Beh.
    - rewrite (Hd0b "extra_vlr_bytes"%string eq_refl eq_refl). exact Bev.
    - apply sagree_refl. exact Wst. }
  destruct (enc_header_transfer _ _ _ _ _ _ ER Hso1) as (hR' & ER').
  rewrite <- Hfs in ER'.
  exact (file_of_intro ap hd vl fmt R evl hd0 b0 eb hR' bR Ed0 Eeb ER').
Qed.
Print Assumptions rewrite_idempotent.
