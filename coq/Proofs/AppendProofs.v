(* Appending equals writing the concatenation; rewriting what was read is idempotent (task A). *)
From Coq Require Import String.
From Coq Require Import ZArith List Bool Lia ZifyBool.
From LasV Require Import Lib.Base Lib.BaseFacts Lib.Layout Proofs.LayoutProofs Gen.GenHeaderLayout Gen.GenFormatBits Gen.GenDims
  Model.Las Model.LasSpec Proofs.HeaderLen Proofs.VlrProofs Proofs.HeaderProofs Proofs.WriterProofs.
Import ListNotations.
Open Scope list_scope.
Open Scope Z_scope.

(* ------------------------------------------------------------------------------------ *)
(* values seen through wval                                                              *)
(* ------------------------------------------------------------------------------------ *)
Definition vint (v : value) : Z := match v with VInt z => z | _ => 0 end.
Definition vbytes (v : value) : list Z := match v with VBytes b => b | _ => [] end.

Lemma aint_wval g n : String.eqb n "zero" = false -> String.eqb n "signature" = false ->
  aint g n = vint (wval g n).
Proof.
  intros Hz Hs. unfold aint, wval. rewrite Hz, Hs. destruct (aget g n) as [[z|b]|]; reflexivity.
Qed.

Lemma abytes_wval g n : String.eqb n "zero" = false -> String.eqb n "signature" = false ->
  abytes g n = vbytes (wval g n).
Proof.
  intros Hz Hs. unfold abytes, wval. rewrite Hz, Hs. destruct (aget g n) as [[z|b]|]; reflexivity.
Qed.

Lemma wval_aget g1 g2 n : aget g1 n = aget g2 n -> wval g1 n = wval g2 n.
Proof. intros H. unfold wval. now rewrite H. Qed.

Lemma wval_aset_ext h1 h2 m v n : wval h1 n = wval h2 n -> wval (aset h1 m v) n = wval (aset h2 m v) n.
Proof.
  unfold wval. destruct (String.eqb n "zero"); [reflexivity|].
  destruct (String.eqb n "signature"); [reflexivity|].
  destruct (String.eqb m n) eqn:E.
  - apply String.eqb_eq in E. subst m. now rewrite !aget_aset_same.
  - now rewrite !aget_aset_other by exact E.
Qed.

Lemma wval_aset_hit h1 h2 m v n : String.eqb m n = true -> wval (aset h1 m v) n = wval (aset h2 m v) n.
Proof.
  intros E. apply String.eqb_eq in E. subst m. unfold wval. now rewrite !aget_aset_same.
Qed.

Lemma wval_aset_other h m v n : String.eqb m n = false -> wval (aset h m v) n = wval h n.
Proof. intros E. unfold wval. now rewrite aget_aset_other by exact E. Qed.

(* the three fields enc_header overwrites *)
Definition derived (n : string) : bool :=
  String.eqb "offset_to_point_data" n || String.eqb "header_size" n || String.eqb "number_of_vlrs" n.

Lemma wval_aset3 h1 h2 a b c n : (derived n = false -> wval h1 n = wval h2 n) ->
  wval (aset (aset (aset h1 "offset_to_point_data" a) "header_size" b) "number_of_vlrs" c) n
  = wval (aset (aset (aset h2 "offset_to_point_data" a) "header_size" b) "number_of_vlrs" c) n.
Proof.
  intros H. unfold derived in H.
  destruct (String.eqb "number_of_vlrs" n) eqn:E3; [now apply wval_aset_hit|].
  rewrite !(wval_aset_other _ "number_of_vlrs") by exact E3.
  destruct (String.eqb "header_size" n) eqn:E2; [now apply wval_aset_hit|].
  rewrite !(wval_aset_other _ "header_size") by exact E2.
  destruct (String.eqb "offset_to_point_data" n) eqn:E1; [now apply wval_aset_hit|].
  rewrite !(wval_aset_other _ "offset_to_point_data") by exact E1.
  apply H. reflexivity.
Qed.

Lemma wval_aset3_other h a b c n : derived n = false ->
  wval (aset (aset (aset h "offset_to_point_data" a) "header_size" b) "number_of_vlrs" c) n = wval h n.
Proof.
  unfold derived. intros H. apply orb_false_iff in H as [H H3]. apply orb_false_iff in H as [H1 H2].
  now rewrite !wval_aset_other by assumption.
Qed.

Definition wnames (m : Z) : list string := layout_names (fixed_part (hw_layout m)).

(* ------------------------------------------------------------------------------------ *)
(* enc_header depends on its field list only through the write layout                    *)
(* ------------------------------------------------------------------------------------ *)
Definition same_out (r1 r2 : result (assoc * list Z)) : Prop :=
  match r1, r2 with
  | Ok (_, b1), Ok (_, b2) => b1 = b2
  | Err _, Err _ => True
  | _, _ => False
  end.

Lemma enc_header_ext_gen : forall h1 h2 vl es,
  aint h1 "version.major" = aint h2 "version.major" ->
  aint h1 "version.minor" = aint h2 "version.minor" ->
  aint h1 "point_count" = aint h2 "point_count" ->
  (es = true -> aint h1 "offset_to_point_data" = aint h2 "offset_to_point_data") ->
  (forall n, In n (wnames (aint h1 "version.minor")) -> derived n = false -> wval h1 n = wval h2 n) ->
  abytes h1 "extra_header_bytes" = abytes h2 "extra_header_bytes" ->
  abytes h1 "extra_vlr_bytes" = abytes h2 "extra_vlr_bytes" ->
  same_out (enc_header h1 vl es) (enc_header h2 vl es).
Proof.
  intros h1 h2 vl es Hmaj Hmnr Hpc Hoff Hw Heh Hev.
  unfold enc_header. cbv zeta. rewrite <- Hmaj, <- Hmnr, <- Hpc, <- Heh, <- Hev.
  destruct (aint h1 "point_count" >? max_point_count (aint h1 "version.major") (aint h1 "version.minor"));
    [exact I|].
  destruct (enc_vlrs false vl) as [vb|e]; cbn [bind]; [|exact I].
  destruct (header_size_tbl (aint h1 "version.major") (aint h1 "version.minor")) as [hs0|]; [|exact I].
  assert (forall o, (es && negb (o =? aint h1 "offset_to_point_data"))
                  = (es && negb (o =? aint h2 "offset_to_point_data"))) as Ho.
  { intros o. destruct es; [|reflexivity]. now rewrite Hoff. }
  rewrite <- Ho.
  match goal with |- context [if ?c then _ else _] => destruct c; [exact I|] end.
  match goal with |- same_out (bind (enc_fields ?l (hdr_vals ?a ?l)) _) (bind (enc_fields ?l (hdr_vals ?b ?l)) _) =>
    assert (hdr_vals a l = hdr_vals b l) as Hv end.
  { unfold hdr_vals. apply map_ext_in. intros f Hf. apply wval_aset3. intros Hd.
    apply Hw; [|exact Hd]. unfold wnames, layout_names. now apply in_map. }
  rewrite Hv.
  match goal with |- same_out (bind ?e _) _ => destruct e as [fb|e']; cbn [bind same_out]; [reflexivity|exact I] end.
Qed.

Lemma enc_header_ext : forall h1 h2 vl es,
  (forall n, wval h1 n = wval h2 n) ->
  abytes h1 "extra_header_bytes" = abytes h2 "extra_header_bytes" ->
  abytes h1 "extra_vlr_bytes" = abytes h2 "extra_vlr_bytes" ->
  match enc_header h1 vl es, enc_header h2 vl es with
  | Ok (_, b1), Ok (_, b2) => b1 = b2
  | Err _, Err _ => True
  | _, _ => False
  end.
Proof.
  intros h1 h2 vl es Hw Heh Hev.
  apply (enc_header_ext_gen h1 h2 vl es); try assumption;
    try (intros; rewrite !aint_wval by reflexivity; now rewrite Hw).
  intros n _ _. apply Hw.
Qed.
Print Assumptions enc_header_ext.

(* the usable form: a successful encoding transfers *)
Lemma enc_header_transfer : forall h1 h2 vl es h2' b,
  enc_header h2 vl es = Ok (h2', b) ->
  same_out (enc_header h1 vl es) (enc_header h2 vl es) ->
  exists h1', enc_header h1 vl es = Ok (h1', b).
Proof.
  intros h1 h2 vl es h2' b H2 Hs. rewrite H2 in Hs.
  destruct (enc_header h1 vl es) as [[h1' b1]|e]; cbn [same_out] in Hs; [|contradiction].
  subst b1. now exists h1'.
Qed.

(* ------------------------------------------------------------------------------------ *)
(* with_stats as a list of bindings                                                      *)
(* ------------------------------------------------------------------------------------ *)
Definition aset_all (bs : list (string * Z)) (h : assoc) : assoc :=
  fold_left (fun h p => aset h (fst p) (VInt (snd p))) bs h.

Fixpoint blookup (bs : list (string * Z)) (n : string) : option Z :=
  match bs with
  | [] => None
  | (m, z) :: r => match blookup r n with Some x => Some x | None => if String.eqb m n then Some z else None end
  end.

Lemma aget_aset_all bs : forall h n,
  aget (aset_all bs h) n = match blookup bs n with Some z => Some (VInt z) | None => aget h n end.
Proof.
  induction bs as [|[m z] bs IH]; intros h n; [reflexivity|].
  unfold aset_all. cbn [fold_left fst snd blookup]. fold (aset_all bs (aset h m (VInt z))).
  rewrite IH. destruct (blookup bs n) as [x|]; [reflexivity|].
  destruct (String.eqb m n) eqn:E.
  - apply String.eqb_eq in E. subst m. apply aget_aset_same.
  - now apply aget_aset_other.
Qed.

Lemma aset_all_app a b h : aset_all (a ++ b) h = aset_all b (aset_all a h).
Proof. unfold aset_all. apply fold_left_app. Qed.

Definition lbinds (pre : nat -> string) (l : list Z) : list (string * Z) :=
  map (fun p => (pre (fst p), snd p)) (combine (seq 0 (length l)) l).

Lemma set_list_binds pre l h : set_list pre l h = aset_all (lbinds pre l) h.
Proof.
  unfold set_list, lbinds, aset_all. generalize (combine (seq 0 (length l)) l). intros ps. revert h.
  induction ps as [|p ps IH]; intros h; [reflexivity|]. cbn [map fold_left fst snd]. apply IH.
Qed.

Definition sbinds (st : stats) : list (string * Z) :=
  lbinds (axis_name "maxs") (s_max st) ++ lbinds (axis_name "mins") (s_min st) ++ lbinds by_return_name (s_ret st)
  ++ [("point_count"%string, s_count st); ("start_of_first_evlr"%string, s_evlr_start st);
      ("number_of_evlrs"%string, s_nevlr st)].

Lemma with_stats_binds h st : with_stats h st = aset_all (sbinds st) h.
Proof.
  unfold with_stats, sbinds. cbv zeta. rewrite !set_list_binds, !aset_all_app. reflexivity.
Qed.

Definition sval (st : stats) (n : string) : option Z := blookup (sbinds st) n.

Lemma aget_with_stats h st n :
  aget (with_stats h st) n = match sval st n with Some z => Some (VInt z) | None => aget h n end.
Proof. rewrite with_stats_binds. apply aget_aset_all. Qed.

Lemma wval_with_stats_cong h1 h2 st1 st2 n : sval st1 n = sval st2 n ->
  (sval st2 n = None -> wval h1 n = wval h2 n) ->
  wval (with_stats h1 st1) n = wval (with_stats h2 st2) n.
Proof.
  intros Hs Hw. unfold wval in *. rewrite !aget_with_stats, Hs.
  destruct (String.eqb n "zero"); [reflexivity|]. destruct (String.eqb n "signature"); [reflexivity|].
  destruct (sval st2 n); [reflexivity|]. now apply Hw.
Qed.

Lemma wval_with_stats_none h st n : sval st n = None -> wval (with_stats h st) n = wval h n.
Proof. intros H. unfold wval. now rewrite aget_with_stats, H. Qed.

Lemma aint_with_stats_none h st n : sval st n = None -> aint (with_stats h st) n = aint h n.
Proof. intros H. unfold aint. now rewrite aget_with_stats, H. Qed.

Lemma abytes_with_stats h st n : abytes (with_stats h st) n = abytes h n.
Proof.
  unfold abytes. rewrite aget_with_stats. destruct (sval st n); [|reflexivity].
Abort.

Lemma aint_with_stats_some h st n z : sval st n = Some z -> aint (with_stats h st) n = z.
Proof. intros H. unfold aint. now rewrite aget_with_stats, H. Qed.

Lemma wval_with_stats_some h st n z : sval st n = Some z ->
  String.eqb n "zero" = false -> String.eqb n "signature" = false -> wval (with_stats h st) n = VInt z.
Proof. intros H Hz Hs. unfold wval. now rewrite Hz, Hs, aget_with_stats, H. Qed.

Lemma abytes_with_stats_none h st n : sval st n = None -> abytes (with_stats h st) n = abytes h n.
Proof. intros H. unfold abytes. now rewrite aget_with_stats, H. Qed.

(* well-shaped statistics *)
Definition wfst (st : stats) : Prop :=
  length (s_max st) = 3%nat /\ length (s_min st) = 3%nat /\ length (s_ret st) = 15%nat.

Definition stat_names : list string :=
  map (axis_name "maxs") (seq 0 3) ++ map (axis_name "mins") (seq 0 3) ++ map by_return_name (seq 0 15)
   ++ ["point_count"%string; "start_of_first_evlr"%string; "number_of_evlrs"%string].

Definition is_stat (n : string) : bool := existsb (String.eqb n) stat_names.

Lemma blookup_none bs n : existsb (String.eqb n) (map fst bs) = false -> blookup bs n = None.
Proof.
  induction bs as [|[m z] bs IH]; intros H; [reflexivity|].
  cbn [map fst existsb] in H. apply orb_false_iff in H as [H1 H2]. cbn [blookup].
  rewrite (IH H2). rewrite String.eqb_sym, H1. reflexivity.
Qed.

Lemma lbinds_names pre l : map fst (lbinds pre l) = map pre (seq 0 (length l)).
Proof.
  unfold lbinds. rewrite map_map. cbn [fst].
  rewrite <- (map_map fst pre). f_equal.
  generalize 0%nat. induction l as [|x l IH]; intros k; [reflexivity|].
  cbn [length seq combine map fst]. now rewrite IH.
Qed.

Lemma sbinds_names st : wfst st -> map fst (sbinds st) = stat_names.
Proof.
  intros (H1 & H2 & H3). unfold sbinds. rewrite !map_app, !lbinds_names, H1, H2, H3. reflexivity.
Qed.

Lemma sval_none st n : wfst st -> is_stat n = false -> sval st n = None.
Proof.
  intros Hw Hn. unfold sval. apply blookup_none. rewrite (sbinds_names st Hw). exact Hn.
Qed.

Lemma wfst_explicit st : wfst st -> exists c x0 x1 x2 n0 n1 n2 r0 r1 r2 r3 r4 r5 r6 r7 r8 r9 r10 r11 r12 r13 r14 e k,
  st = mkS c [x0; x1; x2] [n0; n1; n2] [r0; r1; r2; r3; r4; r5; r6; r7; r8; r9; r10; r11; r12; r13; r14] e k.
Proof.
  destruct st as [c mx mn rt e k]. intros (H1 & H2 & H3). cbn [s_max s_min s_ret] in *.
  destruct mx as [|x0 [|x1 [|x2 [|? ?]]]]; try discriminate H1.
  destruct mn as [|n0 [|n1 [|n2 [|? ?]]]]; try discriminate H2.
  do 15 (destruct rt as [|? rt]; [discriminate H3|]). destruct rt; [|discriminate H3].
  repeat eexists.
Qed.

Lemma sval_count st : wfst st -> sval st "point_count" = Some (s_count st).
Proof. intros H. destruct (wfst_explicit st H) as (c&x0&x1&x2&n0&n1&n2&r0&r1&r2&r3&r4&r5&r6&r7&r8&r9&r10&r11&r12&r13&r14&e&k&->). reflexivity. Qed.
Lemma sval_start st : wfst st -> sval st "start_of_first_evlr" = Some (s_evlr_start st).
Proof. intros H. destruct (wfst_explicit st H) as (c&x0&x1&x2&n0&n1&n2&r0&r1&r2&r3&r4&r5&r6&r7&r8&r9&r10&r11&r12&r13&r14&e&k&->). reflexivity. Qed.
Lemma sval_nevlr st : wfst st -> sval st "number_of_evlrs" = Some (s_nevlr st).
Proof. intros H. destruct (wfst_explicit st H) as (c&x0&x1&x2&n0&n1&n2&r0&r1&r2&r3&r4&r5&r6&r7&r8&r9&r10&r11&r12&r13&r14&e&k&->). reflexivity. Qed.
Lemma sval_max st i : wfst st -> (i < 3)%nat -> sval st (axis_name "maxs" i) = Some (nth i (s_max st) 0).
Proof.
  intros H Hi. destruct (wfst_explicit st H) as (c&x0&x1&x2&n0&n1&n2&r0&r1&r2&r3&r4&r5&r6&r7&r8&r9&r10&r11&r12&r13&r14&e&k&->).
  destruct i as [|[|[|i]]]; [reflexivity..|lia].
Qed.
Lemma sval_min st i : wfst st -> (i < 3)%nat -> sval st (axis_name "mins" i) = Some (nth i (s_min st) 0).
Proof.
  intros H Hi. destruct (wfst_explicit st H) as (c&x0&x1&x2&n0&n1&n2&r0&r1&r2&r3&r4&r5&r6&r7&r8&r9&r10&r11&r12&r13&r14&e&k&->).
  destruct i as [|[|[|i]]]; [reflexivity..|lia].
Qed.
Lemma sval_ret st i : wfst st -> (i < 15)%nat -> sval st (by_return_name i) = Some (nth i (s_ret st) 0).
Proof.
  intros H Hi. destruct (wfst_explicit st H) as (c&x0&x1&x2&n0&n1&n2&r0&r1&r2&r3&r4&r5&r6&r7&r8&r9&r10&r11&r12&r13&r14&e&k&->).
  do 15 (destruct i as [|i]; [reflexivity|]). lia.
Qed.
