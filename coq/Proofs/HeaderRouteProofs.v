From Coq Require Import String.
From Coq Require Import ZArith List Bool Lia.
From LasV Require Import Lib.Base Lib.Layout Proofs.LayoutProofs Model.Las Model.LasSpec Proofs.AppendProofs
  Model.HeaderObj Proofs.HeaderObjProofs Model.HeaderRoute.
Import ListNotations.
Open Scope list_scope.
Open Scope Z_scope.

Lemma blookup_none bs n : (forall m z, In (m, z) bs -> String.eqb m n = false) -> blookup bs n = None.
Proof.
  induction bs as [|[m z] bs IH]; intros H; [reflexivity|]. cbn [blookup].
  rewrite IH by (intros m' z' Hin; apply (H m' z'); now right).
  now rewrite (H m z (or_introl eq_refl)).
Qed.

Lemma lbinds_names pre l m z : In (m, z) (lbinds pre l) -> exists i, m = pre i.
Proof.
  unfold lbinds. intros H. apply in_map_iff in H. destruct H as ([i x] & E & _). inversion E. now exists i.
Qed.

Lemma eqb_of_computed m n : route_computed n = false -> In m route_computed_names -> String.eqb m n = false.
Proof.
  unfold route_computed. intros H Hin. destruct (String.eqb m n) eqn:E; [|reflexivity].
  assert (existsb (fun m => String.eqb m n) route_computed_names = true) by (apply existsb_exists; now exists m).
  congruence.
Qed.

Lemma axis_in pre i : In (axis_name pre i) [axis_name pre 0; axis_name pre 1; axis_name pre 2].
Proof. destruct i as [|[|i]]; cbn; auto. Qed.

Lemma by_return_in i : In (by_return_name i) (map by_return_name (seq 0 15)).
Proof. do 15 (destruct i as [|i]; [cbn; tauto|]). cbn. tauto. Qed.

(* a field the routes do not compute is not among the bindings of ANY statistics record *)
Lemma sval_none st n : route_computed n = false -> sval st n = None.
Proof.
  intros H. unfold sval, sbinds. apply blookup_none. intros m z Hin.
  apply (eqb_of_computed m n H). unfold route_computed_names.
  repeat (apply in_app_or in Hin; destruct Hin as [Hin|Hin]).
  - destruct (lbinds_names _ _ _ _ Hin) as (i & ->). apply in_or_app. left. exact (axis_in "maxs" i).
  - destruct (lbinds_names _ _ _ _ Hin) as (i & ->). apply in_or_app. right. apply in_or_app. left. exact (axis_in "mins" i).
  - destruct (lbinds_names _ _ _ _ Hin) as (i & ->). apply in_or_app. right. apply in_or_app. right. apply in_or_app. left. apply by_return_in.
  - apply in_or_app. right. apply in_or_app. right. apply in_or_app. right.
    cbn in Hin. cbn. destruct Hin as [E|[E|[E|[]]]]; inversion E; auto.
Qed.

Lemma minor_not_computed : route_computed "version.minor" = false.
Proof. reflexivity. Qed.

(* whatever statistics a route pours into its header object and however it writes it: every field that is neither derived by
   write_to nor computed by the route is read back from the file as the CALLER's header held it *)
Theorem route_keeps_caller_fields o st es h' bs rest n :
  enc_header (with_stats (ho_fields o) st) (ho_vlrs o) es = Ok (h', bs) -> wf_header h' (ho_vlrs o) = true ->
  In n (header_field_names (aint (ho_fields o) "version.minor")) -> derived_name n = false -> route_computed n = false ->
  exists rh, dec_header (bs ++ rest) false = Ok rh /\ aget (rh_fields rh) n = Some (wval (ho_fields o) n).
Proof.
  intros He Hwf Hin Hd Hr.
  pose (o' := mkHO (with_stats (ho_fields o) st) (ho_vlrs o) (ho_evlrs o) (ho_attached_points o) (ho_origin o)).
  assert (Hin' : In n (header_field_names (aint (ho_fields o') "version.minor"))).
  { cbn [o' ho_fields]. now rewrite (aint_with_stats_none _ st _ (sval_none st _ minor_not_computed)). }
  destruct (field_own_value o' es h' bs rest n He Hwf Hin' Hd) as (rh & Hdec & Hf).
  exists rh. split; [exact Hdec|]. rewrite Hf. cbn [o' ho_fields]. now rewrite (wval_with_stats_none _ st n (sval_none st n Hr)).
Qed.

Theorem route_open_keeps o h' bs rest n :
  route_open o = Ok (h', bs) -> wf_header h' (ho_vlrs o) = true ->
  In n (header_field_names (aint (ho_fields o) "version.minor")) -> derived_name n = false -> route_computed n = false ->
  exists rh, dec_header (bs ++ rest) false = Ok rh /\ aget (rh_fields rh) n = Some (wval (ho_fields o) n).
Proof. unfold route_open. apply route_keeps_caller_fields. Qed.

Theorem route_close_keeps o st h' bs rest n :
  route_close o st = Ok (h', bs) -> wf_header h' (ho_vlrs o) = true ->
  In n (header_field_names (aint (ho_fields o) "version.minor")) -> derived_name n = false -> route_computed n = false ->
  exists rh, dec_header (bs ++ rest) false = Ok rh /\ aget (rh_fields rh) n = Some (wval (ho_fields o) n).
Proof. unfold route_close. apply route_keeps_caller_fields. Qed.

(* LasData.update_header: every field it does not compute (the waveform pointer is computed from 1.4 on) is left as it was *)
Theorem update_header_keeps h st n : sync_computed (aint h "version.minor") n = false ->
  aget (update_header_fields h st) n = aget h n.
Proof.
  unfold sync_computed, update_header_fields. intros H. apply orb_false_elim in H. destruct H as (Hr & Hw).
  assert (Hs : aget (with_stats h st) n = aget h n) by (rewrite aget_with_stats; now rewrite (sval_none st n Hr)).
  destruct (4 <=? aint h "version.minor"); [|exact Hs].
  cbn [andb] in Hw. rewrite aget_aset_other by (rewrite String.eqb_sym; exact Hw). exact Hs.
Qed.

(* before 1.4 update_header computes nothing but the statistics: the waveform pointer of a 1.3 header is the caller's *)
Theorem sync_computed_before_14 mnr n : mnr < 4 -> sync_computed mnr n = route_computed n.
Proof. intros H. unfold sync_computed. destruct (4 <=? mnr) eqn:E; [lia|]. cbn [andb]. now rewrite orb_false_r. Qed.

(* necessity: a reset that also clears a caller's field loses every non-zero value of it *)
Theorem reset_also_loses h n z : String.eqb n "zero" = false -> String.eqb n "signature" = false ->
  aget h n = Some (VInt z) -> z <> 0 -> wval (reset_also n h) n <> wval h n.
Proof.
  intros Hz Hs Hg Hne. unfold wval, reset_also. rewrite Hz, Hs, aget_aset_same, Hg. intros E. inversion E. congruence.
Qed.
