(* Fault sequences of an APPEND session (property C19 / C06): some chunk writes are torn, the session goes on, the EVLRs are
   re-emitted, the header is rewritten in place. Same discipline as Proofs/FaultProofs.v. Every crash image - the final file in
   particular - is refused or read as a prefix of the old points followed by the ACCEPTED new ones. *)
From Coq Require Import String.
From Coq Require Import ZArith List Bool Lia ZifyBool.
From LasV Require Import Lib.Base Lib.BaseFacts Lib.Layout Proofs.LayoutProofs Gen.GenHeaderLayout Gen.GenFormatBits Gen.GenDims
  Model.Las Model.LasSpec Proofs.HeaderLen Proofs.VlrProofs Proofs.HeaderProofs Proofs.WriterProofs Proofs.RoundTripProofs
  Proofs.AppendProofs Proofs.CrashProofs Proofs.CrashAppendProofs Proofs.FaultProofs.
Import ListNotations.
Open Scope list_scope.
Open Scope Z_scope.

(* epos: where the EVLRs are re-emitted (at or behind the end of the accepted points; laspy: right behind what a torn last write left) *)
Definition fault_append_trace (start : Z) (evs : list fev) (epos : Z) (eb hdr1 : list Z) : list (Z * list Z) :=
  fault_writes start evs
  ++ (match eb with [] => [] | _ => [(epos, eb)] end) ++ [(0, hdr1)].

(* the session on abstract bytes *)
Lemma fault_append_core bA bB m ps A evs epos eb k j :
  hdr_facts2 bA bB m ps (len A) (len (A ++ accepted evs)) ->
  recs_ok ps A = true -> recs_ok ps (A ++ accepted evs) = true -> 0 < ps ->
  len bA + len (concat A) + len (concat (accepted evs)) <= epos ->
  reads_prefix_or_fails
    (crash_from (bA ++ concat A ++ eb) (fault_append_trace (len bA + len (concat A)) evs epos eb bB) k j) (A ++ accepted evs).
Proof.
  intros HF HrA HrAB Hps Hepos.
  unfold fault_append_trace.
  set (B := accepted evs) in *.
  match goal with |- context [fault_writes _ evs ++ ?r] => set (rest := r) end.
  assert (forall t, reads_prefix_or_fails (bA ++ concat A ++ t) (A ++ B)) as HsafeA.
  { intros t. apply reads_prefix_app.
    apply (safeA2 bA bB m ps A (len (A ++ B)) t); assumption. }
  assert (forall tail k' j', reads_prefix_or_fails (crash_from (bA ++ concat (A ++ B) ++ tail) [(0, bB)] k' j') (A ++ B)) as HsafeB.
  { intros tail k' j'. apply (last_step2 bA bB m ps (A ++ B) (len A)); assumption. }
  destruct (crash_faults evs bA A eb rest k j) as [[t Ht]|[junk' [Hk Ht]]]; rewrite Ht.
  - apply HsafeA.
  - fold B. unfold rest. clear Ht rest.
    destruct eb as [|e eb].
    + cbn [app]. apply HsafeB.
    + cbn [app]. set (ebs := e :: eb).
      assert (len bA + len (concat (A ++ B)) <= epos) as Hepos' by (rewrite concat_app, len_app; lia).
      destruct (k - length evs)%nat as [|k'].
      * rewrite crash_from_0.
        destruct (write_at_beyond2 bA (concat (A ++ B)) junk' epos (firstn j ebs) Hepos') as [t Ht]. rewrite Ht.
        rewrite concat_app, <- app_assoc. apply HsafeA.
      * rewrite crash_from_S. unfold apply_write at 1. cbn [fst snd].
        destruct (write_at_beyond2 bA (concat (A ++ B)) junk' epos ebs Hepos') as [t Ht]. rewrite Ht.
        apply HsafeB.
Qed.

(* C19 / C06, append with torn chunk writes followed by continued use *)
Theorem fault_safe_append : forall ap, ap_ok ap -> (forall s o x, 0 <= ap s o x) ->
  forall h vl fmt A evl evs f0 f1 hA h1 epos eb k j,
  wf_las ap h vl fmt A evl -> wf_las ap h vl fmt (A ++ accepted evs) evl ->
  file_of ap h vl fmt A evl = Ok f0 -> final_hdr ap h vl fmt A evl = Ok hA ->
  file_of ap h vl fmt (A ++ accepted evs) evl = Ok f1 -> final_hdr ap h vl fmt (A ++ accepted evs) evl = Ok h1 ->
  enc_vlrs true evl = Ok eb ->
  let off := aint hA "offset_to_point_data" in
  off + len (concat A) + len (concat (accepted evs)) <= epos ->
  reads_prefix_or_fails
    (crash_from f0 (fault_append_trace (off + len (concat A)) evs epos eb (firstn (Z.to_nat off) f1)) k j)
    (A ++ accepted evs).
Proof.
  intros ap _ _ h vl fmt A evl evs f0 f1 hA h1 epos eb k j WA WB FA HA FB HB Eeb off Hepos.
  set (Bx := accepted evs) in *.
  destruct (file_facts _ _ _ _ _ _ _ WA FA)
    as (h0 & b0 & ebA & hRA & bA & E0 & EebA & ERA & -> & _ & _ & RA & PsA & _).
  destruct (file_facts _ _ _ _ _ _ _ WB FB)
    as (h0' & b0' & ebB & hRB & bB & E0' & EebB & ERB & -> & _ & _ & RB & PsB & _).
  rewrite E0 in E0'. injection E0' as <- <-.
  rewrite Eeb in EebA, EebB. injection EebA as <-. injection EebB as <-.
  destruct (final_hdr_inv _ _ _ _ _ _ _ HA) as (h0' & b0' & eb' & bR' & E0' & _ & ER').
  rewrite E0 in E0'. injection E0' as <- <-. rewrite ERA in ER'. injection ER' as <- <-.
  clear HA HB WA WB FA FB.
  set (stA := fstats ap fmt h A evl (len b0)) in *.
  set (stB := fstats ap fmt h (A ++ Bx) evl (len b0)) in *.
  assert (aint hRA "point_size" = aint h0 "point_size") as EpA.
  { rewrite (enc_header_keeps _ _ _ _ _ "point_size" ERA) by reflexivity.
    apply aint_get, with_stats_core. in_core. }
  assert (aint hRB "point_size" = aint h0 "point_size") as EpB.
  { rewrite (enc_header_keeps _ _ _ _ _ "point_size" ERB) by reflexivity.
    apply aint_get, with_stats_core. in_core. }
  rewrite EpA in RA, PsA. rewrite EpB in RB.
  assert (s_count stA = len A) as CA by apply fstats_count.
  assert (s_count stB = len (A ++ Bx)) as CB by apply fstats_count.
  assert (0 <= s_count stA <= s_count stB) as Hc.
  { rewrite CA, CB, len_app. pose proof (len_nonneg A). pose proof (len_nonneg Bx). lia. }
  pose proof (append_session_facts _ _ _ _ _ _ _ _ _ _ E0 ERA ERB Hc) as HF.
  rewrite CA, CB in HF.
  assert (off = len bA) as Eoff by (unfold off; symmetry; exact (enc_header_len _ _ _ _ _ ERA)).
  assert (length bB = length bA) as Lb by apply HF.
  rewrite Eoff in Hepos. rewrite Eoff, to_nat_len.
  rewrite (firstn_app_exact bB _ (length bA) Lb).
  apply (fault_append_core bA bB (aint (with_stats h stats0) "version.minor") (aint h0 "point_size")); assumption.
Qed.
Print Assumptions fault_safe_append.
