(* The parameter `ap` of the file model (Model/Las.v, Section Stats) instantiated with the binary64 formula ap64 of
   Model/F64Bits.v:
   1. on the domain good_scaling, ap64 is monotone for the binary64 order, finite, never negative;
   2. the total wrapper ap64w satisfies LasSpec.ap_ok and non-negativity for EVERY argument;
   3. the model only applies `ap` to the header's scale/offset patterns and to integers decoded from 4 signed bytes, so on a
      header whose scalings are good ap64w can be replaced by ap64 (extensionality);
   4. the C03 statements for ap := ap64 without ap_ok, satisfiability examples, and refutations outside the domain. *)
From Coq Require Import String.
From Coq Require Import ZArith QArith Qabs List Bool Lia Lqa.
From LasV Require Import Lib.Base Lib.BaseFacts Lib.Layout Gen.GenScaling Model.Las Model.LasSpec Model.Scaling Model.F64Bits
  Proofs.ScalingFloat Proofs.F64BitsProofs Proofs.WriterProofs Proofs.AppendProofs.
Import ListNotations.
Open Scope list_scope.
Open Scope Z_scope.

Local Notation P e := (Qpower (inject_Z 2) e).

(* ------------------------------------------------------------------------------------------------ *)
(* 1. x |-> fl (fl (x) * s) + o                                                                      *)
(* ------------------------------------------------------------------------------------------------ *)
Lemma present_unfold : forall x qs qo,
  f_present x (Some qs) (Some qo)
  = match rnd64 (inject_Z x) with
    | Some a => match rnd64 (a * qs) with Some b => rnd64 (b + qo) | None => None end
    | None => None
    end.
Proof.
  intros x qs qo. unfold f_present, gen_apply_scale, f_add, f_mul, f_lift2, f_of_Z.
  destruct (rnd64 (inject_Z x)) as [a|]; [|reflexivity]. destruct (rnd64 (a * qs)) as [b|]; reflexivity.
Qed.

Lemma present_stages : forall x qs qo c, f_present x (Some qs) (Some qo) = Some c ->
  exists a b, rnd64 (inject_Z x) = Some a /\ rnd64 (a * qs) = Some b /\ rnd64 (b + qo) = Some c.
Proof.
  intros x qs qo c H. rewrite present_unfold in H.
  destruct (rnd64 (inject_Z x)) as [a|]; [|discriminate]. destruct (rnd64 (a * qs)) as [b|] eqn:B; [|discriminate].
  exists a, b. repeat split; assumption.
Qed.

(* between two integers with finite images every image is finite, and in between *)
Lemma present_between : forall qs qo lo x hi cl ch, (0 < qs)%Q -> lo <= x -> x <= hi ->
  f_present lo (Some qs) (Some qo) = Some cl -> f_present hi (Some qs) (Some qo) = Some ch ->
  exists c, f_present x (Some qs) (Some qo) = Some c /\ (cl <= c)%Q /\ (c <= ch)%Q.
Proof.
  intros qs qo lo x hi cl ch Hs Hl Hh El Eh.
  destruct (present_stages _ _ _ _ El) as (al & bl & A1 & B1 & C1).
  destruct (present_stages _ _ _ _ Eh) as (ah & bh & A3 & B3 & C3).
  destruct (rnd64_between (inject_Z lo) (inject_Z x) (inject_Z hi) al ah) as (a & A2 & La & Ha);
    [rewrite <- Zle_Qle; exact Hl|rewrite <- Zle_Qle; exact Hh|exact A1|exact A3|].
  destruct (rnd64_between (al * qs) (a * qs) (ah * qs) bl bh) as (b & B2 & Lb & Hb);
    [apply Qmult_le_compat_r; [exact La|apply Qlt_le_weak, Hs]
    |apply Qmult_le_compat_r; [exact Ha|apply Qlt_le_weak, Hs]|exact B1|exact B3|].
  destruct (rnd64_between (bl + qo) (b + qo) (bh + qo) cl ch) as (c & C2 & Lc & Hc);
    [lra|lra|exact C1|exact C3|].
  exists c. split; [|split; assumption]. rewrite present_unfold, A2, B2. exact C2.
Qed.

Lemma present_le : forall qs qo x y cx cy, (0 < qs)%Q -> x <= y ->
  f_present x (Some qs) (Some qo) = Some cx -> f_present y (Some qs) (Some qo) = Some cy -> (cx <= cy)%Q.
Proof.
  intros qs qo x y cx cy Hs Hxy Ex Ey.
  destruct (present_between qs qo x x y cx cy Hs ltac:(lia) Hxy Ex Ey) as (c & E & _ & H).
  rewrite Ex in E. injection E as <-. exact H.
Qed.

Lemma present_bound : forall x qs qo c, f_present x (Some qs) (Some qo) = Some c -> (Qabs c < P 1024)%Q.
Proof.
  intros x qs qo c H. destruct (present_stages _ _ _ _ H) as (a & b & _ & _ & C). exact (rnd64_bound _ _ C).
Qed.

Lemma good_scaling_inv : forall s o, good_scaling s o = true ->
  exists qs qo cl ch, fl_of_bits s = Some qs /\ fl_of_bits o = Some qo /\ (0 < qs)%Q
    /\ f_present I32_MIN (Some qs) (Some qo) = Some cl /\ f_present I32_MAX (Some qs) (Some qo) = Some ch.
Proof.
  intros s o H. unfold good_scaling in H.
  destruct (fl_of_bits s) as [qs|]; [|discriminate]. destruct (fl_of_bits o) as [qo|]; [|discriminate].
  apply andb_true_iff in H as [H H3]. apply andb_true_iff in H as [H1 H2].
  destruct (f_present I32_MIN (Some qs) (Some qo)) as [cl|] eqn:El; [|discriminate].
  destruct (f_present I32_MAX (Some qs) (Some qo)) as [ch|] eqn:Eh; [|discriminate].
  exists qs, qo, cl, ch. split; [reflexivity|]. split; [reflexivity|]. split; [|split; assumption].
  apply Qpos_num. apply Z.ltb_lt in H1. exact H1.
Qed.

(* on the int32 range the formula is finite *)
Theorem ap64_finite : forall s o x, good_scaling s o = true -> I32_MIN <= x <= I32_MAX ->
  exists c, f_present x (fl_of_bits s) (fl_of_bits o) = Some c /\ (Qabs c < P 1024)%Q.
Proof.
  intros s o x G [Hl Hh]. destruct (good_scaling_inv s o G) as (qs & qo & cl & ch & -> & -> & Hs & El & Eh).
  destruct (present_between qs qo _ x _ cl ch Hs Hl Hh El Eh) as (c & E & _).
  exists c. split; [exact E|exact (present_bound _ _ _ _ E)].
Qed.
Print Assumptions ap64_finite.

(* THEOREM (brief 3): monotone for the binary64 order *)
Theorem ap64_mono : forall s o x y, good_scaling s o = true -> - 2 ^ 31 <= x -> x <= y -> y <= 2 ^ 31 - 1 ->
  f64_key (ap64 s o x) <= f64_key (ap64 s o y).
Proof.
  intros s o x y G Hl Hxy Hh.
  destruct (ap64_finite s o x G ltac:(unfold I32_MIN, I32_MAX; lia)) as (cx & Ex & _).
  destruct (ap64_finite s o y G ltac:(unfold I32_MIN, I32_MAX; lia)) as (cy & Ey & _).
  unfold ap64. rewrite Ex, Ey. apply bits_mono.
  destruct (good_scaling_inv s o G) as (qs & qo & cl & ch & Fs & Fo & Hs & _). rewrite Fs, Fo in *.
  exact (present_le qs qo x y cx cy Hs Hxy Ex Ey).
Qed.
Print Assumptions ap64_mono.

(* ... finite ... *)
Theorem ap64_range : forall s o x, good_scaling s o = true -> - 2 ^ 31 <= x <= 2 ^ 31 - 1 ->
  f64_key F64_MIN <= f64_key (ap64 s o x) <= f64_key F64_MAX.
Proof.
  intros s o x G Hx. destruct (ap64_finite s o x G ltac:(unfold I32_MIN, I32_MAX; lia)) as (c & E & B).
  unfold ap64. rewrite E. apply bits_fin, B.
Qed.
Print Assumptions ap64_range.

(* ... and a bit pattern the encoder produces (in particular never negative, never -0.0), for every argument *)
Theorem ap64_pattern : forall s o x, enc_pattern (ap64 s o x).
Proof. intros s o x. apply bits_pattern. Qed.

Theorem ap64_nonneg : forall s o x, 0 <= ap64 s o x.
Proof. intros s o x. destruct (ap64_pattern s o x) as [H|H]; unfold SIGN in *; lia. Qed.
Print Assumptions ap64_nonneg.

(* ------------------------------------------------------------------------------------------------ *)
(* 2. the total wrapper                                                                              *)
(* ------------------------------------------------------------------------------------------------ *)
Lemma clamp32_range : forall x, I32_MIN <= clamp32 x <= I32_MAX.
Proof. intros x. unfold clamp32, I32_MIN, I32_MAX. lia. Qed.

Lemma clamp32_mono : forall x y, x <= y -> clamp32 x <= clamp32 y.
Proof. intros x y H. unfold clamp32. lia. Qed.

Lemma clamp32_id : forall x, I32_MIN <= x <= I32_MAX -> clamp32 x = x.
Proof. intros x H. unfold clamp32. lia. Qed.

Lemma good_ONE_ZERO : good_scaling ONE ZERO = true.
Proof. vm_compute. reflexivity. Qed.

Lemma ap64w_as : forall s o, exists s' o', good_scaling s' o' = true /\ forall x, ap64w s o x = ap64 s' o' (clamp32 x).
Proof.
  intros s o. unfold ap64w. destruct (good_scaling s o) eqn:G.
  - exists s, o. split; [exact G|reflexivity].
  - exists ONE, ZERO. split; [exact good_ONE_ZERO|reflexivity].
Qed.

(* THEOREM (brief 4) *)
Theorem ap64w_ok : ap_ok ap64w.
Proof.
  unfold ap_ok. split; [|split].
  - intros s o x y H. destruct (ap64w_as s o) as (s' & o' & G & E). rewrite !E.
    pose proof (clamp32_range x) as Rx. pose proof (clamp32_range y) as Ry. unfold I32_MIN, I32_MAX in *.
    apply ap64_mono; [exact G|lia|apply clamp32_mono, H|lia].
  - intros s o x y H. destruct (ap64w_as s o) as (s' & o' & G & E). rewrite !E in *.
    apply key_inj; [apply ap64_pattern|apply ap64_pattern|exact H].
  - intros s o x. destruct (ap64w_as s o) as (s' & o' & G & E). rewrite E.
    apply ap64_range; [exact G|]. pose proof (clamp32_range x) as Rx. unfold I32_MIN, I32_MAX in *. lia.
Qed.
Print Assumptions ap64w_ok.

Theorem ap64w_nonneg : forall s o x, 0 <= ap64w s o x.
Proof. intros s o x. destruct (ap64w_as s o) as (s' & o' & _ & E). rewrite E. apply ap64_nonneg. Qed.
Print Assumptions ap64w_nonneg.

Lemma ap64w_eq : forall s o x, good_scaling s o = true -> I32_MIN <= x <= I32_MAX -> ap64w s o x = ap64 s o x.
Proof. intros s o x G Hx. unfold ap64w. rewrite G, (clamp32_id x Hx). reflexivity. Qed.

(* ------------------------------------------------------------------------------------------------ *)
(* 3. what the model applies `ap` to                                                                 *)
(* ------------------------------------------------------------------------------------------------ *)
Definition i32 (x : Z) : Prop := I32_MIN <= x <= I32_MAX.

Lemma bytes_ok_firstn : forall n bs, bytes_ok bs = true -> bytes_ok (firstn n bs) = true.
Proof.
  induction n as [|n IH]; intros [|b bs] H; try reflexivity.
  cbn [firstn bytes_ok forallb] in *. apply andb_true_iff in H as [H1 H2]. rewrite H1. exact (IH bs H2).
Qed.

Lemma bytes_ok_skipn : forall n bs, bytes_ok bs = true -> bytes_ok (skipn n bs) = true.
Proof.
  induction n as [|n IH]; intros [|b bs] H; try reflexivity; try exact H.
  cbn [skipn]. cbn [bytes_ok forallb] in H. apply andb_true_iff in H as [_ H2]. exact (IH bs H2).
Qed.

(* four bytes read as a signed little-endian integer are an int32 *)
Lemma sle32_range : forall bs, bytes_ok bs = true -> i32 (sle32 bs).
Proof.
  intros bs H. unfold sle32, i32, I32_MIN, I32_MAX. cbv zeta.
  pose proof (le_dec_bounds (firstn 4 bs) (bytes_ok_firstn 4 bs H)) as B.
  assert (L : 256 ^ Z.of_nat (length (firstn 4 bs)) <= 256 ^ 4).
  { apply Z.pow_le_mono_r; [lia|]. pose proof (firstn_le_length 4 bs). lia. }
  change (256 ^ 4) with 4294967296 in L. change (2 ^ 31) with 2147483648. change (2 ^ 32) with 4294967296.
  destruct (le_dec (firstn 4 bs) >=? 2147483648) eqn:E; lia.
Qed.

Lemma rec_coord_range : forall i r, bytes_ok r = true -> i32 (rec_coord i r).
Proof. intros i r H. unfold rec_coord. apply sle32_range, bytes_ok_skipn, H. Qed.

Lemma coords_range : forall i recs, forallb bytes_ok recs = true -> forall x, In x (map (rec_coord i) recs) -> i32 x.
Proof.
  intros i recs H x Hx. apply in_map_iff in Hx as (r & <- & Hr).
  apply rec_coord_range. rewrite forallb_forall in H. exact (H r Hr).
Qed.

Lemma zmax_list_range : forall d l, i32 d -> (forall x, In x l -> i32 x) -> i32 (zmax_list d l).
Proof.
  intros d l Hd Hl. unfold zmax_list. destruct (fold_max_spec l d) as (_ & _ & [E|E]); [rewrite E; exact Hd|exact (Hl _ E)].
Qed.

Lemma zmin_list_range : forall d l, i32 d -> (forall x, In x l -> i32 x) -> i32 (zmin_list d l).
Proof.
  intros d l Hd Hl. unfold zmin_list. destruct (fold_min_spec l d) as (_ & _ & [E|E]); [rewrite E; exact Hd|exact (Hl _ E)].
Qed.

(* EXTENSIONALITY (brief 5): grow only applies ap to the header's patterns of the three axes and to int32 values *)
Lemma grow_ap_ext : forall ap1 ap2 fmt h st recs,
  (forall i, (i < 3)%nat -> forall x, i32 x ->
     ap1 (aint h (axis_name "scales" i)) (aint h (axis_name "offsets" i)) x
     = ap2 (aint h (axis_name "scales" i)) (aint h (axis_name "offsets" i)) x) ->
  forallb bytes_ok recs = true ->
  Las.grow ap1 fmt h st recs = Las.grow ap2 fmt h st recs.
Proof.
  intros ap1 ap2 fmt h st recs H B. destruct recs as [|r0 recs]; [reflexivity|].
  assert (B0 : bytes_ok r0 = true) by (cbn [forallb] in B; apply andb_true_iff in B as [B0 _]; exact B0).
  unfold Las.grow. cbv beta zeta. f_equal.
  - apply map_ext_in. intros i Hi. apply in_seq in Hi. f_equal. apply H; [lia|].
    apply zmax_list_range; [apply rec_coord_range, B0|apply coords_range, B].
  - apply map_ext_in. intros i Hi. apply in_seq in Hi. f_equal. apply H; [lia|].
    apply zmin_list_range; [apply rec_coord_range, B0|apply coords_range, B].
Qed.

Lemma stats_of_ap_ext : forall ap1 ap2 fmt h recs,
  (forall i, (i < 3)%nat -> forall x, i32 x ->
     ap1 (aint h (axis_name "scales" i)) (aint h (axis_name "offsets" i)) x
     = ap2 (aint h (axis_name "scales" i)) (aint h (axis_name "offsets" i)) x) ->
  forallb bytes_ok recs = true ->
  stats_of ap1 fmt h recs = stats_of ap2 fmt h recs.
Proof.
  intros ap1 ap2 fmt h recs H B. unfold stats_of. destruct recs as [|r0 recs]; [reflexivity|].
  apply grow_ap_ext; assumption.
Qed.

Lemma file_of_ap_ext : forall ap1 ap2 h vl fmt recs evl,
  (forall i, (i < 3)%nat -> forall x, i32 x ->
     ap1 (aint h (axis_name "scales" i)) (aint h (axis_name "offsets" i)) x
     = ap2 (aint h (axis_name "scales" i)) (aint h (axis_name "offsets" i)) x) ->
  forallb bytes_ok recs = true ->
  file_of ap1 h vl fmt recs evl = file_of ap2 h vl fmt recs evl.
Proof.
  intros ap1 ap2 h vl fmt recs evl H B. unfold file_of. rewrite (stats_of_ap_ext ap1 ap2 fmt h recs H B). reflexivity.
Qed.

(* a header whose three (scale, offset) pairs are in the domain of the formula *)
Definition good_header (h : assoc) : Prop :=
  forall i, (i < 3)%nat -> good_scaling (aint h (axis_name "scales" i)) (aint h (axis_name "offsets" i)) = true.

Lemma good_header_agree : forall h, good_header h ->
  forall i, (i < 3)%nat -> forall x, i32 x ->
    ap64w (aint h (axis_name "scales" i)) (aint h (axis_name "offsets" i)) x
    = ap64 (aint h (axis_name "scales" i)) (aint h (axis_name "offsets" i)) x.
Proof. intros h G i Hi x Hx. apply ap64w_eq; [apply G, Hi|exact Hx]. Qed.

Theorem grow_ap64w : forall fmt h st recs, good_header h -> forallb bytes_ok recs = true ->
  Las.grow ap64w fmt h st recs = Las.grow ap64 fmt h st recs.
Proof. intros fmt h st recs G B. apply grow_ap_ext; [apply good_header_agree, G|exact B]. Qed.
Print Assumptions grow_ap64w.

Theorem stats_of_ap64w : forall fmt h recs, good_header h -> forallb bytes_ok recs = true ->
  stats_of ap64w fmt h recs = stats_of ap64 fmt h recs.
Proof. intros fmt h recs G B. apply stats_of_ap_ext; [apply good_header_agree, G|exact B]. Qed.
Print Assumptions stats_of_ap64w.

Theorem file_of_ap64w : forall h vl fmt recs evl, good_header h -> forallb bytes_ok recs = true ->
  file_of ap64w h vl fmt recs evl = file_of ap64 h vl fmt recs evl.
Proof. intros h vl fmt recs evl G B. apply file_of_ap_ext; [apply good_header_agree, G|exact B]. Qed.
Print Assumptions file_of_ap64w.

(* ------------------------------------------------------------------------------------------------ *)
(* 4. C03 for the binary64 formula                                                                   *)
(* ------------------------------------------------------------------------------------------------ *)
Lemma forallb_app_inv : forall (a b : list (list Z)), forallb bytes_ok (a ++ b) = true ->
  forallb bytes_ok a = true /\ forallb bytes_ok b = true.
Proof. intros a b H. rewrite forallb_app in H. apply andb_true_iff in H. exact H. Qed.

(* FINAL (brief 6).  Only the scaling of the axis concerned has to be good; the records have to be byte strings. *)
Theorem extrema_binary64 : forall fmt h r0 recs i, (i < 3)%nat ->
  let s := aint h (axis_name "scales" i) in let o := aint h (axis_name "offsets" i) in
  good_scaling s o = true -> forallb bytes_ok (r0 :: recs) = true ->
  let xs := map (rec_coord i) (r0 :: recs) in
  nth i (s_max (stats_of ap64 fmt h (r0 :: recs))) 0 = ap64 s o (zmax_list (rec_coord i r0) xs)
  /\ nth i (s_min (stats_of ap64 fmt h (r0 :: recs))) 0 = ap64 s o (zmin_list (rec_coord i r0) xs)
  /\ (forall x, In x xs -> x <= zmax_list (rec_coord i r0) xs) /\ In (zmax_list (rec_coord i r0) xs) xs
  /\ (forall x, In x xs -> zmin_list (rec_coord i r0) xs <= x) /\ In (zmin_list (rec_coord i r0) xs) xs.
Proof.
  intros fmt h r0 recs i Hi s o G B xs.
  (* the same statement for the wrapper, from the theorem that assumes ap_ok *)
  pose proof (stats_of_extrema_partial ap64w ap64w_ok ap64w_nonneg fmt h r0 recs i Hi) as W. cbv zeta in W.
  fold s o xs in W. destruct W as (W1 & W2 & W3 & W4 & W5 & W6).
  assert (B0 : bytes_ok r0 = true) by (cbn [forallb] in B; apply andb_true_iff in B as [B0 _]; exact B0).
  assert (Rmax : i32 (zmax_list (rec_coord i r0) xs))
    by (apply zmax_list_range; [apply rec_coord_range, B0|apply coords_range, B]).
  assert (Rmin : i32 (zmin_list (rec_coord i r0) xs))
    by (apply zmin_list_range; [apply rec_coord_range, B0|apply coords_range, B]).
  (* component i of the statistics only involves axis i *)
  assert (E : nth i (s_max (stats_of ap64 fmt h (r0 :: recs))) 0 = nth i (s_max (stats_of ap64w fmt h (r0 :: recs))) 0
           /\ nth i (s_min (stats_of ap64 fmt h (r0 :: recs))) 0 = nth i (s_min (stats_of ap64w fmt h (r0 :: recs))) 0).
  { unfold stats_of, Las.grow, stats0. cbv beta zeta. cbn [s_max s_min]. rewrite !map_seq3.
    fold xs. fold s. fold o.
    destruct i as [|[|[|i]]]; [| | |lia]; cbn [nth]; fold s; fold o; fold xs;
      rewrite (ap64w_eq s o _ G Rmax), (ap64w_eq s o _ G Rmin); split; reflexivity. }
  destruct E as [E1 E2]. rewrite E1, E2, W1, W2, (ap64w_eq s o _ G Rmax), (ap64w_eq s o _ G Rmin).
  repeat split; assumption.
Qed.
Print Assumptions extrema_binary64.

(* what the extrema mean on the domain: the header maximum (minimum) is the image of a stored point and no stored point
   has a larger (smaller) image *)
Theorem extrema_binary64_dominate : forall fmt h r0 recs i, (i < 3)%nat ->
  let s := aint h (axis_name "scales" i) in let o := aint h (axis_name "offsets" i) in
  good_scaling s o = true -> forallb bytes_ok (r0 :: recs) = true ->
  forall x, In x (map (rec_coord i) (r0 :: recs)) ->
    f64_key (nth i (s_min (stats_of ap64 fmt h (r0 :: recs))) 0) <= f64_key (ap64 s o x)
    /\ f64_key (ap64 s o x) <= f64_key (nth i (s_max (stats_of ap64 fmt h (r0 :: recs))) 0).
Proof.
  intros fmt h r0 recs i Hi s o G B x Hx.
  destruct (extrema_binary64 fmt h r0 recs i Hi G B) as (E1 & E2 & M1 & M2 & N1 & N2). fold s o in E1, E2.
  rewrite E1, E2.
  assert (B0 : bytes_ok r0 = true) by (cbn [forallb] in B; apply andb_true_iff in B as [B0 _]; exact B0).
  pose proof (coords_range i (r0 :: recs) B) as R.
  pose proof (R _ Hx) as Rx. pose proof (R _ M2) as RM. pose proof (R _ N2) as RN. unfold i32, I32_MIN, I32_MAX in *.
  split.
  - apply ap64_mono; [exact G|lia|apply N1, Hx|lia].
  - apply ap64_mono; [exact G|lia|apply M1, Hx|lia].
Qed.
Print Assumptions extrema_binary64_dominate.

(* statistics accumulate over chunk boundaries: this is where monotonicity is needed *)
Theorem grow_app_binary64 : forall fmt h st a b, good_header h ->
  a <> [] -> b <> [] -> forallb bytes_ok a = true -> forallb bytes_ok b = true ->
  Las.grow ap64 fmt h (Las.grow ap64 fmt h st a) b = Las.grow ap64 fmt h st (a ++ b).
Proof.
  intros fmt h st a b G Ha Hb Ba Bb.
  assert (Bab : forallb bytes_ok (a ++ b) = true) by (rewrite forallb_app, Ba, Bb; reflexivity).
  rewrite <- (grow_ap64w fmt h st a G Ba), <- (grow_ap64w fmt h _ b G Bb), <- (grow_ap64w fmt h st (a ++ b) G Bab).
  destruct a as [|a0 a']; [contradiction|]. destruct b as [|b0 b']; [contradiction|].
  (* grow_app does not use its two length hypotheses *)
  assert (K : forall st', Las.grow ap64w fmt h (Las.grow ap64w fmt h st' (a0 :: a')) (b0 :: b') = Las.grow ap64w fmt h st' ((a0 :: a') ++ b0 :: b')).
  { intros st'.
    set (st3 := mkS (s_count st') [nth 0 (s_max st') 0; nth 1 (s_max st') 0; nth 2 (s_max st') 0]
                    [nth 0 (s_min st') 0; nth 1 (s_min st') 0; nth 2 (s_min st') 0] (s_ret st') (s_evlr_start st') (s_nevlr st')).
    assert (S3 : forall recs, Las.grow ap64w fmt h st' recs = match recs with [] => st' | _ => Las.grow ap64w fmt h st3 recs end)
      by (intros [|r rs]; reflexivity).
    rewrite (S3 (a0 :: a')), (S3 ((a0 :: a') ++ b0 :: b')). cbn [app].
    apply (grow_app ap64w ap64w_ok fmt h st3 (a0 :: a') (b0 :: b')); try discriminate; reflexivity. }
  apply K.
Qed.
Print Assumptions grow_app_binary64.

(* the one-shot file of the binary64 model is the one of the wrapper, so every theorem stated for an `ap` satisfying ap_ok
   (C01, C04, C06 ...) speaks about it *)
Theorem file_of_binary64 : forall h vl fmt recs evl, good_header h -> forallb bytes_ok recs = true ->
  file_of ap64 h vl fmt recs evl = file_of ap64w h vl fmt recs evl.
Proof. intros. symmetry. apply file_of_ap64w; assumption. Qed.
Print Assumptions file_of_binary64.

(* ---- the hypothesis is satisfiable ---- *)
Definition hdr_scaled (s o : Z) : assoc :=
  [("scales[0]"%string, VInt s); ("scales[1]"%string, VInt s); ("scales[2]"%string, VInt s);
   ("offsets[0]"%string, VInt o); ("offsets[1]"%string, VInt o); ("offsets[2]"%string, VInt o)].

(* scale 0.01, offset 0.0 *)
Example good_scaling_centimetres : good_scaling 0x3F847AE147AE147B 0 = true.
Proof. vm_compute. reflexivity. Qed.
(* scale 1e-9, offset -1e9 *)
Example good_scaling_nanometres : good_scaling 0x3E112E0BE826D695 0xC1CDCD6500000000 = true.
Proof. vm_compute. reflexivity. Qed.

Example good_header_centimetres : good_header (hdr_scaled 0x3F847AE147AE147B 0).
Proof. intros [|[|[|i]]] Hi; [vm_compute; reflexivity ..|lia]. Qed.

(* three points X = 7, 3, -9 at scale 0.01: max 0.07 = 0x3FB1EB851EB851EC, min -0.09 = 0xBFB70A3D70A3D70A *)
Example extrema_binary64_nonvacuous :
  let st := stats_of ap64 0 (hdr_scaled 0x3F847AE147AE147B 0)
              [le_enc 4 7 ++ repeat 0 16; le_enc 4 3 ++ repeat 0 16; le_enc 4 (2 ^ 32 - 9) ++ repeat 0 16] in
  (nth 0 (s_max st) 0, nth 0 (s_min st) 0) = (0x3FB1EB851EB851EC, 0xBFB70A3D70A3D70A).
Proof. vm_compute. reflexivity. Qed.

(* ---- outside the domain the conclusions fail for the model: the restriction is not an artefact ---- *)
(* scale 1e308 (finite, positive) but 100 * 1e308 overflows: the header minimum stays at F64_MAX, it is NOT the image of the
   smallest X (python: min(F64_MAX, inf) = F64_MAX) *)
Example extrema_binary64_refuted :
  let h := hdr_scaled 0x7FE1CCF385EBC8A0 0 in let r0 := le_enc 4 100 ++ repeat 0 16 in
  good_scaling 0x7FE1CCF385EBC8A0 0 = false
  /\ nth 0 (s_min (stats_of ap64 0 h [r0])) 0 <> ap64 0x7FE1CCF385EBC8A0 0 (zmin_list (rec_coord 0 r0) (map (rec_coord 0) [r0])).
Proof. split; [vm_compute; reflexivity|vm_compute; discriminate]. Qed.

(* scale -1.0: one chunk after the other does not give the statistics of the concatenation (the maximum of X is not where
   the maximum of the image is), and the "maximum" of the one-shot statistics is below its "minimum" *)
Example grow_app_binary64_refuted :
  let h := hdr_scaled 0xBFF0000000000000 0 in
  let a := [le_enc 4 1 ++ repeat 0 16] in let b := [le_enc 4 2 ++ repeat 0 16] in
  good_scaling 0xBFF0000000000000 0 = false
  /\ Las.grow ap64 0 h (Las.grow ap64 0 h stats0 a) b <> Las.grow ap64 0 h stats0 (a ++ b)
  /\ f64_lt (nth 0 (s_max (stats_of ap64 0 h (a ++ b))) 0) (nth 0 (s_min (stats_of ap64 0 h (a ++ b))) 0) = true.
Proof. split; [vm_compute; reflexivity|split; [vm_compute; discriminate|vm_compute; reflexivity]]. Qed.

(* ------------------------------------------------------------------------------------------------ *)
(* 5. C06 for the binary64 formula: appending = having written the concatenation                     *)
(* ------------------------------------------------------------------------------------------------ *)
Definition ap_agree (ap1 ap2 : Z -> Z -> Z -> Z) (h : assoc) : Prop :=
  forall i, (i < 3)%nat -> forall x, i32 x ->
    ap1 (aint h (axis_name "scales" i)) (aint h (axis_name "offsets" i)) x
    = ap2 (aint h (axis_name "scales" i)) (aint h (axis_name "offsets" i)) x.

Lemma final_hdr_ap_ext : forall ap1 ap2 h vl fmt recs evl, ap_agree ap1 ap2 h -> forallb bytes_ok recs = true ->
  final_hdr ap1 h vl fmt recs evl = final_hdr ap2 h vl fmt recs evl.
Proof.
  intros ap1 ap2 h vl fmt recs evl H B. unfold final_hdr. rewrite (stats_of_ap_ext ap1 ap2 fmt h recs H B). reflexivity.
Qed.

Lemma recs_ok_bytes : forall ps recs, recs_ok ps recs = true -> forallb bytes_ok recs = true.
Proof.
  intros ps recs H. unfold recs_ok in H. rewrite forallb_forall in *. intros r Hr.
  specialize (H r Hr). apply andb_true_iff in H as [_ H]. exact H.
Qed.

Lemma wf_las_bytes : forall ap h vl fmt recs evl, wf_las ap h vl fmt recs evl -> forallb bytes_ok recs = true.
Proof. intros ap h vl fmt recs evl (h' & _ & _ & _ & R & _). exact (recs_ok_bytes _ _ R). Qed.

Lemma wf_las_ap_ext : forall ap1 ap2 h vl fmt recs evl, ap_agree ap1 ap2 h ->
  wf_las ap1 h vl fmt recs evl -> wf_las ap2 h vl fmt recs evl.
Proof.
  intros ap1 ap2 h vl fmt recs evl H W. pose proof (wf_las_bytes _ _ _ _ _ _ W) as B.
  destruct W as (h' & F & Rest). exists h'. split; [|exact Rest].
  rewrite <- F. symmetry. apply final_hdr_ap_ext; assumption.
Qed.

Lemma forallb_concat_inv : forall (Bs : list (list (list Z))), forallb bytes_ok (concat Bs) = true ->
  Forall (fun c => forallb bytes_ok c = true) Bs.
Proof.
  induction Bs as [|c Bs IH]; intros H; [constructor|]. cbn [concat] in H.
  apply forallb_app_inv in H as [H1 H2]. constructor; [exact H1|exact (IH H2)].
Qed.

(* the appender only applies ap inside grow, with the header it read from the file *)
Lemma apoints_ap_ext : forall ap1 ap2 s c b, ap_agree ap1 ap2 (a_h s) -> forallb bytes_ok c = true ->
  apoints ap1 s c b = apoints ap2 s c b.
Proof.
  intros ap1 ap2 s c b H B. unfold apoints. destruct c as [|r c]; [reflexivity|].
  destruct (negb b); [reflexivity|].
  match goal with |- context [if ?t then (s, Err ELaspy) else _] => destruct t end; [reflexivity|].
  rewrite (grow_ap_ext ap1 ap2 (a_fmt s) (a_h s) _ (r :: c) H B). reflexivity.
Qed.

Lemma apoints_keeps_h : forall ap s c b, a_h (fst (apoints ap s c b)) = a_h s.
Proof.
  intros ap s c b. unfold apoints. destruct c as [|r c]; [reflexivity|].
  destruct (negb b); [reflexivity|].
  match goal with |- context [if ?t then (s, Err ELaspy) else _] => destruct t end; reflexivity.
Qed.

Lemma afold_ap_ext : forall ap1 ap2 Bs s, ap_agree ap1 ap2 (a_h s) -> Forall (fun c => forallb bytes_ok c = true) Bs ->
  fold_left (fun s c => fst (apoints ap1 s c true)) Bs s = fold_left (fun s c => fst (apoints ap2 s c true)) Bs s.
Proof.
  intros ap1 ap2. induction Bs as [|c Bs IH]; intros s H F; [reflexivity|]. cbn [fold_left].
  inversion F as [|? ? Fc FBs]; subst. rewrite (apoints_ap_ext ap1 ap2 s c true H Fc).
  apply IH; [|exact FBs]. unfold ap_agree. rewrite apoints_keeps_h. exact H.
Qed.

Theorem arun_ap_ext : forall ap1 ap2 src Bs s0, aopen src = Ok s0 -> ap_agree ap1 ap2 (a_h s0) ->
  Forall (fun c => forallb bytes_ok c = true) Bs -> arun ap1 src Bs = arun ap2 src Bs.
Proof.
  intros ap1 ap2 src Bs s0 Ho H F. unfold arun. rewrite Ho. cbn [bind]. rewrite (afold_ap_ext ap1 ap2 Bs s0 H F). reflexivity.
Qed.
Print Assumptions arun_ap_ext.

Lemma ap_agree_good : forall h, good_header h -> ap_agree ap64w ap64 h.
Proof. intros h G. exact (good_header_agree h G). Qed.

Lemma ap_agree_sym : forall ap1 ap2 h, ap_agree ap1 ap2 h -> ap_agree ap2 ap1 h.
Proof. intros ap1 ap2 h H i Hi x Hx. symmetry. apply H; assumption. Qed.

(* C06_append_equiv with ap := ap64 and without ap_ok *)
Theorem append_equiv_binary64 : forall h vl fmt A evl Bs f0 f1, good_header h ->
  wf_las ap64 h vl fmt A evl -> wf_las ap64 h vl fmt (A ++ concat Bs) evl ->
  file_of ap64 h vl fmt A evl = Ok f0 ->
  file_of ap64 h vl fmt (A ++ concat Bs) evl = Ok f1 ->
  arun ap64 f0 Bs = Ok f1.
Proof.
  intros h vl fmt A evl Bs f0 f1 G WA WAB FA FAB.
  pose proof (ap_agree_good h G) as Agr. pose proof (ap_agree_sym _ _ _ Agr) as Agr'.
  pose proof (wf_las_bytes _ _ _ _ _ _ WA) as BA. pose proof (wf_las_bytes _ _ _ _ _ _ WAB) as BAB.
  pose proof (wf_las_ap_ext ap64 ap64w _ _ _ _ _ Agr' WA) as WA'.
  pose proof (wf_las_ap_ext ap64 ap64w _ _ _ _ _ Agr' WAB) as WAB'.
  rewrite (file_of_binary64 h vl fmt A evl G BA) in FA.
  rewrite (file_of_binary64 h vl fmt (A ++ concat Bs) evl G BAB) in FAB.
  pose proof (append_equiv ap64w ap64w_ok ap64w_nonneg h vl fmt A evl Bs f0 f1 WA' WAB' FA FAB) as R.
  rewrite <- R.
  (* the header the appender reads back from f0 has the scales and offsets of h *)
  destruct (file_facts _ _ _ _ _ _ _ WA' FA)
    as (h0 & b0 & eb & hA & bA & E0 & Eeb & EA & -> & WfA & Wevl & WrA & Wps & Wev4 & Wnev & Wfmt).
  pose proof (wfst_fstats ap64w fmt h A evl (len b0)) as WstA.
  destruct (of_aopen ap64w h vl fmt A evl h0 b0 eb hA bA E0 Eeb EA WfA Wevl WrA Wev4 Wfmt)
    as (s0 & Hopen & _ & _ & _ & _ & _ & _ & Hr).
  destruct Hr as (Hget & _ & _).
  pose proof (rb_core _ _ _ _ _ _ _ E0 WstA EA _ Hget) as Hcore.
  assert (Hs : forall i, aint (a_h s0) (axis_name "scales" i) = aint h (axis_name "scales" i)).
  { intros i. destruct (Hcore _ (axis_core "scales" i (or_introl eq_refl))) as [-> _].
    apply (open_plain_aint _ _ _ _ _ E0); destruct i as [|[|i]]; reflexivity. }
  assert (Ho : forall i, aint (a_h s0) (axis_name "offsets" i) = aint h (axis_name "offsets" i)).
  { intros i. destruct (Hcore _ (axis_core "offsets" i (or_intror eq_refl))) as [-> _].
    apply (open_plain_aint _ _ _ _ _ E0); destruct i as [|[|i]]; reflexivity. }
  apply (arun_ap_ext ap64 ap64w _ Bs s0 Hopen).
  - intros i Hi x Hx. rewrite Hs, Ho. apply Agr'; assumption.
  - apply forallb_concat_inv. apply forallb_app_inv in BAB as [_ B]. exact B.
Qed.
Print Assumptions append_equiv_binary64.
