From Coq Require Import String.
From Coq Require Import ZArith List Bool Lia.
From LasV Require Import Lib.Base Lib.BaseFacts Lib.Layout.
Import ListNotations.
Open Scope list_scope.
Open Scope Z_scope.

Lemma cut_nul_no_nul s : no_nul s = true -> cut_nul s = s.
Proof.
  induction s as [|b r IH]; intros H; [reflexivity|]. simpl in *.
  apply andb_true_iff in H as [Hb Hr]. destruct (b =? 0); [discriminate|]. now rewrite IH.
Qed.

Lemma cut_nul_app_zeros s n r : no_nul s = true -> cut_nul (s ++ 0 :: r) = s /\ cut_nul (s ++ zeros n) = s.
Proof.
  induction s as [|b t IH]; intros H.
  - split; [reflexivity|]. destruct n; reflexivity.
  - simpl in H. apply andb_true_iff in H as [Hb Ht]. simpl.
    destruct (b =? 0); [discriminate|]. destruct (IH Ht) as [A B]. now rewrite A, B.
Qed.

Lemma zeros_length n : length (zeros n) = n.
Proof. apply repeat_length. Qed.

Lemma null_pad_length s w nt : (0 < w)%nat \/ nt = false -> length (null_pad s w nt) = w.
Proof.
  intros Hw. unfold null_pad. rewrite app_length, zeros_length.
  set (lim := if nt then (w - 1)%nat else w).
  assert (length (firstn lim (cut_nul s)) <= lim)%nat by apply firstn_le_length.
  assert (lim <= w)%nat by (unfold lim; destruct nt; lia). lia.
Qed.

Lemma null_pad_exact s w : no_nul s = true -> (length s <= w)%nat ->
  null_pad s w false = s ++ zeros (w - length s).
Proof.
  intros Hn Hl. unfold null_pad. rewrite (cut_nul_no_nul _ Hn).
  now rewrite firstn_all2 by lia.
Qed.

Lemma null_pad_exact_c s w : no_nul s = true -> (length s < w)%nat ->
  null_pad s w true = s ++ zeros (w - length s).
Proof.
  intros Hn Hl. unfold null_pad. rewrite (cut_nul_no_nul _ Hn).
  now rewrite firstn_all2 by lia.
Qed.

Lemma firstn_app_exact {A} (a b : list A) n : length a = n -> firstn n (a ++ b) = a.
Proof. intros <-. rewrite firstn_app, Nat.sub_diag, firstn_all. simpl. apply app_nil_r. Qed.
Lemma skipn_app_exact {A} (a b : list A) n : length a = n -> skipn n (a ++ b) = b.
Proof. intros <-. rewrite skipn_app, Nat.sub_diag, skipn_all. reflexivity. Qed.

(* one field: decode after encode gives the value back, and consumes exactly its bytes *)
Lemma dec_enc_field k w v b rest :
  wf_field k w v = true -> enc_field k w v = Ok b ->
  dec_field k w (b ++ rest) = (v, rest) /\ length b = w.
Proof.
  intros Hwf He. destruct k, v as [z|s]; simpl in Hwf; try discriminate; simpl in He.
  - (* KConst *) apply andb_true_iff in Hwf as [Hl _]. rewrite Hl in He. injection He as <-.
    apply Nat.eqb_eq in Hl. unfold dec_field. now rewrite firstn_app_exact, skipn_app_exact.
  - (* KUInt *) destruct (to_bytes_ok _ _ _ He) as (Hd & Hl & _). unfold dec_field.
    rewrite firstn_app_exact, skipn_app_exact by assumption. now rewrite Hd.
  - (* KF64 *) destruct (to_bytes_ok _ _ _ He) as (Hd & Hl & _). unfold dec_field.
    rewrite firstn_app_exact, skipn_app_exact by assumption. now rewrite Hd.
  - (* KBytes *) apply andb_true_iff in Hwf as [Hl _]. rewrite Hl in He. injection He as <-.
    apply Nat.eqb_eq in Hl. unfold dec_field. now rewrite firstn_app_exact, skipn_app_exact.
  - (* KStr *) apply andb_true_iff in Hwf as [Hwf _]. apply andb_true_iff in Hwf as [Hl Hn].
    apply Nat.leb_le in Hl. injection He as <-.
    assert (length (null_pad s w false) = w) as HL by (apply null_pad_length; now right).
    unfold dec_field. rewrite firstn_app_exact, skipn_app_exact by assumption.
    rewrite null_pad_exact by assumption. destruct (cut_nul_app_zeros s (w - length s) [] Hn) as [_ ->].
    split; [reflexivity|]. rewrite <- null_pad_exact by assumption. exact HL.
  - (* KCStr *) apply andb_true_iff in Hwf as [Hwf _]. apply andb_true_iff in Hwf as [Hl Hn].
    apply Nat.ltb_lt in Hl. injection He as <-.
    assert (length (null_pad s w true) = w) as HL by (apply null_pad_length; left; lia).
    unfold dec_field. rewrite firstn_app_exact, skipn_app_exact by assumption.
    rewrite null_pad_exact_c by assumption. destruct (cut_nul_app_zeros s (w - length s) [] Hn) as [_ ->].
    split; [reflexivity|]. rewrite <- null_pad_exact_c by assumption. exact HL.
Qed.

(* whole layouts *)
Theorem dec_enc_fields l : forall vals bs rest,
  wf_fields l vals = true -> enc_fields l vals = Ok bs ->
  dec_fields l (bs ++ rest) = (combine (layout_names l) vals, rest) /\ len bs = layout_width l.
Proof.
  induction l as [|[[k w] n] l IH]; intros vals bs rest Hwf He.
  - destruct vals; [|discriminate]. injection He as <-. split; reflexivity.
  - destruct vals as [|v vals]; [discriminate|]. cbn [wf_fields] in Hwf.
    apply andb_true_iff in Hwf as [Hf Hr]. cbn [enc_fields] in He.
    destruct (enc_field k w v) as [b|e] eqn:Eb; [|discriminate]. cbn [bind] in He.
    destruct (enc_fields l vals) as [r|e] eqn:Er; [|discriminate]. cbn [bind] in He. injection He as <-.
    destruct (dec_enc_field k w v b (r ++ rest) Hf Eb) as [Hd Hl].
    destruct (IH vals r rest Hr Er) as [Hd' Hl'].
    cbn [dec_fields]. rewrite <- app_assoc, Hd, Hd'. split; [reflexivity|].
    rewrite len_app, Hl'. unfold len. rewrite Hl. reflexivity.
Qed.

(* encoding succeeds on well-formed values *)
Lemma enc_field_wf k w v : wf_field k w v = true -> exists b, enc_field k w v = Ok b.
Proof.
  destruct k, v as [z|s]; simpl; try discriminate; intros H.
  - apply andb_true_iff in H as [-> _]. eauto.
  - unfold to_bytes. rewrite H. eauto.
  - unfold to_bytes. rewrite H. eauto.
  - apply andb_true_iff in H as [-> _]. eauto.
  - eauto.
  - eauto.
Qed.

Lemma enc_fields_wf l : forall vals, wf_fields l vals = true -> exists bs, enc_fields l vals = Ok bs.
Proof.
  induction l as [|[[k w] n] l IH]; intros [|v vals] H; try discriminate.
  - exists []. reflexivity.
  - cbn [wf_fields] in H. apply andb_true_iff in H as [Hf Hr].
    destruct (enc_field_wf _ _ _ Hf) as [b Hb]. destruct (IH _ Hr) as [r Hr'].
    exists (b ++ r). cbn [enc_fields]. now rewrite Hb, Hr'.
Qed.

Lemma layout_eqb_eq a : forall b, layout_eqb a b = true -> a = b.
Proof.
  induction a as [|[[k w] n] a IH]; intros [|[[k' w'] n'] b] H; try discriminate; [reflexivity|].
  cbn [layout_eqb field_eqb] in H.
  apply andb_true_iff in H as [Hf Hr]. apply andb_true_iff in Hf as [Hkw Hn].
  apply andb_true_iff in Hkw as [Hk Hw].
  apply Nat.eqb_eq in Hw. apply String.eqb_eq in Hn. subst.
  f_equal; [|now apply IH]. destruct k, k'; try discriminate; reflexivity.
Qed.

(* ---------------- association lists ---------------- *)
Lemma aget_last_app a b n acc : aget_last (a ++ b) n acc = aget_last b n (aget_last a n acc).
Proof. revert acc; induction a as [|[m v] a IH]; intros acc; [reflexivity|]. cbn [app aget_last]. apply IH. Qed.

Lemma amem_false_aget a n acc : amem a n = false -> aget_last a n acc = acc.
Proof.
  revert acc; induction a as [|[m v] a IH]; intros acc H; [reflexivity|].
  unfold amem in H. cbn [existsb fst] in H. apply orb_false_iff in H as [Hm Hr].
  cbn [aget_last]. rewrite Hm. now apply IH.
Qed.

Lemma aget_last_map_same a n v acc :
  aget_last (map (fun p => if String.eqb (fst p) n then (fst p, v) else p) a) n acc
  = if amem a n then Some v else acc.
Proof.
  revert acc; induction a as [|[m x] a IH]; intros acc; [reflexivity|].
  cbn [map fst]. unfold amem. cbn [existsb fst]. fold (amem a n).
  destruct (String.eqb m n) eqn:E.
  - cbn [aget_last fst]. rewrite E. rewrite IH. cbn [orb]. destruct (amem a n); reflexivity.
  - cbn [aget_last]. rewrite E. rewrite IH. reflexivity.
Qed.

Lemma aget_last_map_other a m n v acc : String.eqb m n = false ->
  aget_last (map (fun p => if String.eqb (fst p) m then (fst p, v) else p) a) n acc = aget_last a n acc.
Proof.
  intros Hne. revert acc; induction a as [|[k x] a IH]; intros acc; [reflexivity|].
  cbn [map fst]. destruct (String.eqb k m) eqn:E.
  - cbn [aget_last]. apply String.eqb_eq in E. subst k. rewrite Hne. apply IH.
  - cbn [aget_last]. apply IH.
Qed.

Lemma aget_aset_same a n v : aget (aset a n v) n = Some v.
Proof.
  unfold aget, aset. destruct (amem a n) eqn:E.
  - rewrite aget_last_map_same, E. reflexivity.
  - rewrite aget_last_app. cbn [aget_last]. now rewrite String.eqb_refl.
Qed.

Lemma aget_aset_other a m n v : String.eqb m n = false -> aget (aset a m v) n = aget a n.
Proof.
  intros Hne. unfold aget, aset. destruct (amem a m).
  - now apply aget_last_map_other.
  - rewrite aget_last_app. cbn [aget_last]. now rewrite Hne.
Qed.

Lemma aint_aset_same a n z : aint (aset a n (VInt z)) n = z.
Proof. unfold aint. now rewrite aget_aset_same. Qed.
Lemma aint_aset_other a m n v : String.eqb m n = false -> aint (aset a m v) n = aint a n.
Proof. intros H. unfold aint. now rewrite aget_aset_other. Qed.
Lemma abytes_aset_same a n b : abytes (aset a n (VBytes b)) n = b.
Proof. unfold abytes. now rewrite aget_aset_same. Qed.
Lemma abytes_aset_other a m n v : String.eqb m n = false -> abytes (aset a m v) n = abytes a n.
Proof. intros H. unfold abytes. now rewrite aget_aset_other. Qed.

(* ---------------- encoded length ---------------- *)
Definition layout_fixed_ok (l : layout) : bool :=
  forallb (fun f => match fst (fst f) with KVar => false | KCStr => Nat.ltb 0 (snd (fst f)) | _ => true end) l.

Lemma enc_field_len k w v b : enc_field k w v = Ok b ->
  match k with KVar => False | KCStr => (0 < w)%nat | _ => True end -> length b = w.
Proof.
  intros He Hk. destruct k, v as [z|s]; simpl in He; try discriminate.
  - destruct (Nat.eqb_spec (length s) w); [now injection He as <-|discriminate].
  - now destruct (to_bytes_ok _ _ _ He) as (_ & ? & _).
  - now destruct (to_bytes_ok _ _ _ He) as (_ & ? & _).
  - destruct (Nat.eqb_spec (length s) w); [now injection He as <-|discriminate].
  - injection He as <-. apply null_pad_length. now right.
  - injection He as <-. apply null_pad_length. now left.
  - contradiction.
Qed.

Lemma enc_fields_len l : forall vals bs, layout_fixed_ok l = true -> enc_fields l vals = Ok bs -> len bs = layout_width l.
Proof.
  induction l as [|[[k w] n] l IH]; intros vals bs Hok He.
  - destruct vals; [|discriminate]. now injection He as <-.
  - destruct vals as [|v vals]; [discriminate|]. cbn [enc_fields] in He.
    destruct (enc_field k w v) as [b|e] eqn:Eb; [|discriminate]. cbn [bind] in He.
    destruct (enc_fields l vals) as [r|e] eqn:Er; [|discriminate]. cbn [bind] in He. injection He as <-.
    cbn [layout_fixed_ok forallb fst snd] in Hok. apply andb_true_iff in Hok as [Hk Hr].
    rewrite len_app, (IH _ _ Hr Er). unfold layout_width at 2. cbn [fold_right fst snd]. fold (layout_width l).
    unfold len. rewrite (enc_field_len _ _ _ _ Eb); [reflexivity|].
    destruct k; try exact I; [now apply Nat.ltb_lt|discriminate].
Qed.
