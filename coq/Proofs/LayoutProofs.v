From Coq Require Import String.
From Coq Require Import ZArith List Bool Lia.
From LasV Require Import Lib.Base Lib.BaseFacts Lib.Layout.
Import ListNotations.
Open Scope list_scope.
Open Scope Z_scope.

Lemma cut_nul_no_nul s : no_nul s = true -> cut_nul s = s.
Proof.
  induction s as [|b r IH]; intros H; [reflexivity|]. simpl in *.
  apply andb_true_iff in H as [Hb Hr]. destruct (b =? 0); [discriminate|]. now rewrite IH.
Qed.

Lemma cut_nul_app_zeros s n r : no_nul s = true -> cut_nul (s ++ 0 :: r) = s /\ cut_nul (s ++ zeros n) = s.
Proof.
  induction s as [|b t IH]; intros H.
  - split; [reflexivity|]. destruct n; reflexivity.
  - simpl in H. apply andb_true_iff in H as [Hb Ht]. simpl.
    destruct (b =? 0); [discriminate|]. destruct (IH Ht) as [A B]. now rewrite A, B.
Qed.

Lemma zeros_length n : length (zeros n) = n.
Proof. apply repeat_length. Qed.

Lemma null_pad_length s w nt : (0 < w)%nat \/ nt = false -> length (null_pad s w nt) = w.
Proof.
  intros Hw. unfold null_pad. rewrite app_length, zeros_length.
  set (lim := if nt then (w - 1)%nat else w).
  assert (length (firstn lim (cut_nul s)) <= lim)%nat by apply firstn_le_length.
  assert (lim <= w)%nat by (unfold lim; destruct nt; lia). lia.
Qed.

Lemma null_pad_exact s w : no_nul s = true -> (length s <= w)%nat ->
  null_pad s w false = s ++ zeros (w - length s).
Proof.
  intros Hn Hl. unfold null_pad. rewrite (cut_nul_no_nul _ Hn).
  now rewrite firstn_all2 by lia.
Qed.

Lemma null_pad_exact_c s w : no_nul s = true -> (length s < w)%nat ->
  null_pad s w true = s ++ zeros (w - length s).
Proof.
  intros Hn Hl. unfold null_pad. rewrite (cut_nul_no_nul _ Hn).
  now rewrite firstn_all2 by lia.
Qed.

Lemma firstn_app_exact {A} (a b : list A) n : length a = n -> firstn n (a ++ b) = a.
Proof. intros <-. rewrite firstn_app, Nat.sub_diag, firstn_all. simpl. apply app_nil_r. Qed.
Lemma skipn_app_exact {A} (a b : list A) n : length a = n -> skipn n (a ++ b) = b.
Proof. intros <-. rewrite skipn_app, Nat.sub_diag, skipn_all. reflexivity. Qed.

(* one field: decode after encode gives the value back, and consumes exactly its bytes *)
Lemma dec_enc_field k w v b rest :
  wf_field k w v = true -> enc_field k w v = Ok b ->
  dec_field k w (b ++ rest) = (v, rest) /\ length b = w.
Proof.
  intros Hwf He. destruct k, v as [z|s]; simpl in Hwf; try discriminate; simpl in He.
  - (* KConst *) apply andb_true_iff in Hwf as [Hl _]. rewrite Hl in He. injection He as <-.
    apply Nat.eqb_eq in Hl. unfold dec_field. now rewrite firstn_app_exact, skipn_app_exact.
  - (* KUInt *) destruct (to_bytes_ok _ _ _ He) as (Hd & Hl & _). unfold dec_field.
    rewrite firstn_app_exact, skipn_app_exact by assumption. now rewrite Hd.
  - (* KF64 *) destruct (to_bytes_ok _ _ _ He) as (Hd & Hl & _). unfold dec_field.
    rewrite firstn_app_exact, skipn_app_exact by assumption. now rewrite Hd.
  - (* KBytes *) apply andb_true_iff in Hwf as [Hl _]. rewrite Hl in He. injection He as <-.
    apply Nat.eqb_eq in Hl. unfold dec_field. now rewrite firstn_app_exact, skipn_app_exact.
  - (* KStr *) apply andb_true_iff in Hwf as [Hwf _]. apply andb_true_iff in Hwf as [Hl Hn].
    apply Nat.leb_le in Hl. injection He as <-.
    assert (length (null_pad s w false) = w) as HL by (apply null_pad_length; now right).
    unfold dec_field. rewrite firstn_app_exact, skipn_app_exact by assumption.
    rewrite null_pad_exact by assumption. destruct (cut_nul_app_zeros s (w - length s) [] Hn) as [_ ->].
    split; [reflexivity|]. rewrite <- null_pad_exact by assumption. exact HL.
  - (* KCStr *) apply andb_true_iff in Hwf as [Hwf _]. apply andb_true_iff in Hwf as [Hl Hn].
    apply Nat.ltb_lt in Hl. injection He as <-.
    assert (length (null_pad s w true) = w) as HL by (apply null_pad_length; left; lia).
    unfold dec_field. rewrite firstn_app_exact, skipn_app_exact by assumption.
    rewrite null_pad_exact_c by assumption. destruct (cut_nul_app_zeros s (w - length s) [] Hn) as [_ ->].
    split; [reflexivity|]. rewrite <- null_pad_exact_c by assumption. exact HL.
Qed.

(* whole layouts *)
Theorem dec_enc_fields l : forall vals bs rest,
  wf_fields l vals = true -> enc_fields l vals = Ok bs ->
  dec_fields l (bs ++ rest) = (combine (layout_names l) vals, rest) /\ len bs = layout_width l.
Proof.
  induction l as [|[[k w] n] l IH]; intros vals bs rest Hwf He.
  - destruct vals; [|discriminate]. injection He as <-. split; reflexivity.
  - destruct vals as [|v vals]; [discriminate|]. cbn [wf_fields] in Hwf.
    apply andb_true_iff in Hwf as [Hf Hr]. cbn [enc_fields] in He.
    destruct (enc_field k w v) as [b|e] eqn:Eb; [|discriminate]. cbn [bind] in He.
    destruct (enc_fields l vals) as [r|e] eqn:Er; [|discriminate]. cbn [bind] in He. injection He as <-.
    destruct (dec_enc_field k w v b (r ++ rest) Hf Eb) as [Hd Hl].
    destruct (IH vals r rest Hr Er) as [Hd' Hl'].
    cbn [dec_fields]. rewrite <- app_assoc, Hd, Hd'. split; [reflexivity|].
    rewrite len_app, Hl'. unfold len. rewrite Hl. reflexivity.
Qed.

(* encoding succeeds on well-formed values *)
Lemma enc_field_wf k w v : wf_field k w v = true -> exists b, enc_field k w v = Ok b.
Proof.
  destruct k, v as [z|s]; simpl; try discriminate; intros H.
  - apply andb_true_iff in H as [-> _]. eauto.
  - unfold to_bytes. rewrite H. eauto.
  - unfold to_bytes. rewrite H. eauto.
  - apply andb_true_iff in H as [-> _]. eauto.
  - eauto.
  - eauto.
Qed.

Lemma enc_fields_wf l : forall vals, wf_fields l vals = true -> exists bs, enc_fields l vals = Ok bs.
Proof.
  induction l as [|[[k w] n] l IH]; intros [|v vals] H; try discriminate.
  - exists []. reflexivity.
  - cbn [wf_fields] in H. apply andb_true_iff in H as [Hf Hr].
    destruct (enc_field_wf _ _ _ Hf) as [b Hb]. destruct (IH _ Hr) as [r Hr'].
    exists (b ++ r). cbn [enc_fields]. now rewrite Hb, Hr'.
Qed.

Lemma layout_eqb_eq a : forall b, layout_eqb a b = true -> a = b.
Proof.
  induction a as [|[[k w] n] a IH]; intros [|[[k' w'] n'] b] H; try discriminate; [reflexivity|].
  cbn [layout_eqb field_eqb] in H.
  apply andb_true_iff in H as [Hf Hr]. apply andb_true_iff in Hf as [Hkw Hn].
  apply andb_true_iff in Hkw as [Hk Hw].
  apply Nat.eqb_eq in Hw. apply String.eqb_eq in Hn. subst.
  f_equal; [|now apply IH]. destruct k, k'; try discriminate; reflexivity.
Qed.
