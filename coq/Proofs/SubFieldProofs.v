From Coq Require Import String.
From Coq Require Import ZArith List Bool Lia ZifyBool.
From LasV Require Import Lib.Base Lib.BaseFacts Gen.GenFormatBits Gen.GenDims Model.SubField.
Import ListNotations.
Open Scope list_scope.
Open Scope Z_scope.

(* complete sweep: every (format, sub-field) x 256 prior bytes x every in-range value *)
Lemma sf_sweep : forallb sf_entry_ok all_sub_fields = true.
Proof. vm_compute. reflexivity. Qed.

Lemma sf_entry e : In e all_sub_fields -> sf_entry_ok e = true.
Proof. intros H. pose proof sf_sweep as S. rewrite forallb_forall in S. now apply S. Qed.

Lemma sf_set_get fmt name composed m b v :
  In (fmt, name, composed, m) all_sub_fields -> 0 <= b < 256 -> 0 <= v <= sf_max m ->
  sf_assign m b v = Ok (sf_put m b v)
  /\ sf_get m (sf_put m b v) = v
  /\ 0 <= sf_put m b v < 256
  /\ Z.land (sf_put m b v) (Z.lnot m) = Z.land b (Z.lnot m)
  /\ (forall m', In m' (siblings fmt composed m) -> sf_get m' (sf_put m b v) = sf_get m' b).
Proof.
  intros Hin Hb Hv. pose proof (sf_entry _ Hin) as E. cbn [sf_entry_ok] in E.
  apply andb_true_iff in E as [E0 E]. 
  pose proof (forall_below_spec _ _ E b Hb) as E1. cbn beta in E1.
  assert (0 <= v < sf_max m + 1) as Hv' by lia.
  pose proof (forall_below_spec _ _ E1 v Hv') as E2. unfold sf_elem_ok in E2.
  apply andb_true_iff in E2 as [E2 Es]. apply andb_true_iff in E2 as [E2 Eo].
  apply andb_true_iff in E2 as [E2 Eh]. apply andb_true_iff in E2 as [Eg El].
  split. { unfold sf_assign. destruct (v >? sf_max m) eqn:X; [lia|]. destruct (v <? 0) eqn:Y; [lia|]. reflexivity. }
  split; [lia|]. split; [lia|]. split; [lia|].
  intros m' Hm'. rewrite forallb_forall in Es. specialize (Es m' Hm'). lia.
Qed.

Lemma sf_overflow m b v : v > sf_max m \/ v < 0 -> sf_assign m b v = Err EOverflow.
Proof.
  intros H. unfold sf_assign. destruct (v >? sf_max m) eqn:X; [reflexivity|].
  destruct (v <? 0) eqn:Y; [reflexivity|]. lia.
Qed.

(* ---------------- arrays ---------------- *)
Lemma set_nth_length l i x : length (set_nth l i x) = length l.
Proof. revert i; induction l as [|a r IH]; intros [|k]; cbn; auto. Qed.

Lemma nth_set_nth_same l i x : (i < length l)%nat -> nth i (set_nth l i x) 0 = x.
Proof. revert i; induction l as [|a r IH]; intros [|k] H; cbn in *; try lia; auto. apply IH. lia. Qed.

Lemma nth_set_nth_other l i j x : i <> j -> nth j (set_nth l i x) 0 = nth j l 0.
Proof.
  revert i j; induction l as [|a r IH]; intros [|i] [|j] H; cbn; auto; try congruence.
Qed.

Lemma set_nth_overflow l : forall i x, (length l <= i)%nat -> set_nth l i x = l.
Proof.
  induction l as [|a r IH]; intros [|i] x H; cbn in *; try reflexivity; try lia.
  f_equal. apply IH. lia.
Qed.

Lemma sf_arr_overflow m bs sel : (exists p, In p sel /\ (snd p > sf_max m \/ snd p < 0)) ->
  sf_assign_arr m bs sel = Err EOverflow.
Proof.
  intros (p & Hin & Hp). unfold sf_assign_arr.
  assert (existsb (fun p => (snd p >? sf_max m) || (snd p <? 0)) sel = true) as ->; [|reflexivity].
  apply existsb_exists. exists p. split; [exact Hin|]. lia.
Qed.

(* the fold touches only selected positions; an unselected byte is untouched *)
Lemma fold_untouched m sel : forall bs j, (forall p, In p sel -> fst p <> j) ->
  nth j (fold_left (fun bs p => set_nth bs (fst p) (sf_put m (nth (fst p) bs 0) (snd p))) sel bs) 0 = nth j bs 0.
Proof.
  induction sel as [|p sel IH]; intros bs j H; [reflexivity|]. cbn [fold_left].
  rewrite IH by (intros q Hq; apply H; now right).
  apply nth_set_nth_other. apply H. now left.
Qed.

Lemma fold_length m sel : forall bs,
  length (fold_left (fun bs p => set_nth bs (fst p) (sf_put m (nth (fst p) bs 0) (snd p))) sel bs) = length bs.
Proof. induction sel as [|p sel IH]; intros bs; [reflexivity|]. cbn [fold_left]. now rewrite IH, set_nth_length. Qed.

(* with in-range values every touched byte keeps its bits outside the mask, whatever the history on it *)
Lemma fold_outside_mask fmt name composed m sel : In (fmt, name, composed, m) all_sub_fields ->
  forall bs j, (forall p, In p sel -> 0 <= snd p <= sf_max m) -> Forall (fun b => 0 <= b < 256) bs ->
  let bs' := fold_left (fun bs p => set_nth bs (fst p) (sf_put m (nth (fst p) bs 0) (snd p))) sel bs in
  Forall (fun b => 0 <= b < 256) bs'
  /\ Z.land (nth j bs' 0) (Z.lnot m) = Z.land (nth j bs 0) (Z.lnot m)
  /\ (forall m', In m' (siblings fmt composed m) -> sf_get m' (nth j bs' 0) = sf_get m' (nth j bs 0)).
Proof.
  intros Hin. induction sel as [|p sel IH]; intros bs j Hv Hb; [cbn; auto|].
  cbn [fold_left].
  set (bs1 := set_nth bs (fst p) (sf_put m (nth (fst p) bs 0) (snd p))).
  assert (0 <= snd p <= sf_max m) as Hp by (apply Hv; now left).
  assert (0 <= nth (fst p) bs 0 < 256) as Hn.
  { destruct (Nat.lt_ge_cases (fst p) (length bs)) as [Hl|Hl].
    - rewrite Forall_forall in Hb. apply Hb. now apply nth_In.
    - rewrite nth_overflow by exact Hl. lia. }
  destruct (sf_set_get fmt name composed m _ _ Hin Hn Hp) as (_ & _ & Hr & Ho & Hs).
  assert (Forall (fun b => 0 <= b < 256) bs1) as Hb1.
  { apply Forall_forall. intros x Hx. apply (In_nth _ _ 0) in Hx as (i & Hi & <-).
    unfold bs1 in *. rewrite set_nth_length in Hi.
    destruct (Nat.eq_dec (fst p) i) as [He|Hne].
    - rewrite <- He. rewrite <- He in Hi. rewrite nth_set_nth_same by exact Hi. exact Hr.
    - rewrite nth_set_nth_other by exact Hne. rewrite Forall_forall in Hb. apply Hb. now apply nth_In. }
  destruct (IH bs1 j (fun q Hq => Hv q (or_intror Hq)) Hb1) as (A & B & C).
  split; [exact A|].
  destruct (Nat.eq_dec (fst p) j) as [Hj|Hj].
  - subst j. destruct (Nat.lt_ge_cases (fst p) (length bs)) as [Hl|Hl].
    + assert (nth (fst p) bs1 0 = sf_put m (nth (fst p) bs 0) (snd p)) as Hx
        by (unfold bs1; now apply nth_set_nth_same).
      rewrite Hx in B, C. split; [now rewrite B|].
      intros m' Hm'. rewrite (C m' Hm'). now apply Hs.
    + assert (bs1 = bs) as Hbs.
      { unfold bs1. now apply set_nth_overflow. }
      assert (nth (fst p) bs1 0 = nth (fst p) bs 0) as Hx by now rewrite Hbs.
      rewrite Hx in B, C. split; [exact B|exact C].
  - assert (nth j bs1 0 = nth j bs 0) as Hx by (unfold bs1; now apply nth_set_nth_other).
    rewrite Hx in B, C. split; [exact B|exact C].
Qed.

(* a position assigned exactly once reads back its value *)
Lemma fold_reads_back fmt name composed m : In (fmt, name, composed, m) all_sub_fields ->
  forall sel1 p sel2 bs, (forall q, In q (sel1 ++ p :: sel2) -> 0 <= snd q <= sf_max m) ->
  Forall (fun b => 0 <= b < 256) bs -> (fst p < length bs)%nat ->
  (forall q, In q sel2 -> fst q <> fst p) ->
  sf_get m (nth (fst p) (fold_left (fun bs p => set_nth bs (fst p) (sf_put m (nth (fst p) bs 0) (snd p))) (sel1 ++ p :: sel2) bs) 0) = snd p.
Proof.
  intros Hin sel1 p sel2 bs Hv Hb Hl Hlast.
  rewrite fold_left_app. cbn [fold_left].
  set (bs1 := fold_left _ sel1 bs).
  rewrite fold_untouched by exact Hlast.
  assert (length bs1 = length bs) as Hlen by apply fold_length.
  rewrite nth_set_nth_same by lia.
  assert (Forall (fun b => 0 <= b < 256) bs1) as Hb1.
  { apply (fold_outside_mask fmt name composed m sel1 Hin bs 0%nat); [|exact Hb].
    intros q Hq. apply Hv. apply in_or_app. now left. }
  assert (0 <= nth (fst p) bs1 0 < 256) as Hn by (rewrite Forall_forall in Hb1; apply Hb1, nth_In; lia).
  assert (0 <= snd p <= sf_max m) as Hp by (apply Hv, in_or_app; right; now left).
  now destruct (sf_set_get fmt name composed m _ _ Hin Hn Hp) as (_ & Hg & _).
Qed.

(* ---------------- C10: fast-path comparison = numpy's comparison on the field's values ---------------- *)
(* for constants inside [0, maxv] by sweep; outside by monotonicity of the shift *)
Definition sf_cmp_entry_ok (e : Z * string * string * Z) : bool :=
  let '(_, _, _, m) := e in
  forall_below 256 (fun b => (Z.land b m <=? m) && (0 <=? Z.land b m) &&
     (Z.shiftl (sf_get m b) (sf_lsb m) =? Z.land b m) && (sf_get m b <=? sf_max m) && (0 <=? sf_get m b)).
Lemma sf_cmp_sweep : forallb sf_cmp_entry_ok all_sub_fields = true.
Proof. vm_compute. reflexivity. Qed.

Lemma sf_cmp_correct fmt name composed m b op c :
  In (fmt, name, composed, m) all_sub_fields -> 0 <= b < 256 ->
  sf_cmp_fast m b op c = sf_cmp_spec m b op c.
Proof.
  intros Hin Hb. pose proof sf_cmp_sweep as S. rewrite forallb_forall in S. specialize (S _ Hin). cbn [sf_cmp_entry_ok] in S.
  pose proof (forall_below_spec _ _ S b Hb) as E. cbn beta in E.
  repeat (apply andb_true_iff in E as [E ?]).
  pose proof (sf_entry _ Hin) as E'. cbn [sf_entry_ok] in E'. apply andb_true_iff in E' as [E' _].
  repeat (apply andb_true_iff in E' as [E' ?]).
  unfold sf_cmp_fast, sf_cmp_spec.
  set (g := sf_get m b) in *. set (k := sf_lsb m) in *.
  assert (Z.land b m = Z.shiftl g k) as -> by lia.
  rewrite !Z.shiftl_mul_pow2 by lia.
  assert (0 < 2 ^ k) by (apply Z.pow_pos_nonneg; lia).
  unfold cmp_op. destruct (op =? 0); [nia|]. destruct (op =? 1); [nia|]. destruct (op =? 2); nia.
Qed.
