(* C02: the generic record codec round-trips over every well-formed layout (induction over the layout),
   laspy's generated layouts ARE the specification's (computation over the generated tables), hence the
   specification's decoder reads what the laspy-layout encoder wrote and vice versa. *)
From Coq Require Import String.
From Coq Require Import ZArith List Bool Lia ZifyBool.
From LasV Require Import Lib.Base Lib.BaseFacts Lib.Layout Proofs.LayoutProofs
  Gen.GenFormatBits Gen.GenDims Gen.GenHeaderLayout Gen.GenC02
  Spec.Asprs Spec.AsprsPoints Model.SubField Model.PointLayout Proofs.AsprsLayoutProofs.
Import ListNotations.
Open Scope list_scope.
Open Scope Z_scope.

(* ------------------------------------------------------------------------------------------ *)
(* bit fields                                                                                   *)
(* ------------------------------------------------------------------------------------------ *)
Lemma bits_seq_le subs : forall s, bits_seq s subs = true -> s <= 8.
Proof.
  induction subs as [|[[n lo] hi] r IH]; intros s H; cbn [bits_seq] in H.
  - lia.
  - apply andb_true_iff in H as [H Hr]. apply andb_true_iff in H as [Hlo Hle].
    specialize (IH _ Hr). lia.
Qed.

Lemma pow2_split a b : 0 <= a -> 0 <= b -> 2 ^ (a + b) = 2 ^ a * 2 ^ b.
Proof. intros. apply Z.pow_add_r; lia. Qed.

Lemma pow2_pos a : 0 <= a -> 0 < 2 ^ a.
Proof. intros. apply Z.pow_pos_nonneg; lia. Qed.

(* the encoded byte, seen from bit s on: a multiple of 2^s, and together with any lower part below 2^8 *)
Lemma enc_bits_shape subs : forall s vs, 0 <= s -> bits_seq s subs = true -> bits_range_ok subs vs = true ->
  exists k, 0 <= k /\ enc_bits subs vs = k * 2 ^ s /\ k * 2 ^ s + 2 ^ s <= 2 ^ 8.
Proof.
  induction subs as [|[[n lo] hi] r IH]; intros s vs Hs Hq Hr.
  - destruct vs; [|discriminate]. cbn [bits_seq] in Hq. assert (s = 8) by lia. subst s.
    exists 0. cbn [enc_bits]. lia.
  - destruct vs as [|v vs]; [discriminate|]. cbn [bits_seq] in Hq. cbn [bits_range_ok] in Hr.
    apply andb_true_iff in Hq as [Hq Hq']. apply andb_true_iff in Hq as [Hlo Hle].
    apply andb_true_iff in Hr as [Hv Hr']. apply andb_true_iff in Hv as [Hv0 Hv1].
    assert (lo = s) by lia. subst lo.
    destruct (IH (hi + 1) vs ltac:(lia) Hq' Hr') as (k & Hk & Hek & Hub).
    remember (hi - s + 1) as w eqn:Ew.
    assert (Hw : 0 < w) by lia.
    assert (Hp : 2 ^ (hi + 1) = 2 ^ s * 2 ^ w) by (replace (hi + 1) with (s + w) by lia; apply pow2_split; lia).
    pose proof (pow2_pos s Hs) as Ps. pose proof (pow2_pos w ltac:(lia)) as Pw.
    exists (v + k * 2 ^ w). cbn [enc_bits]. rewrite Hek, Hp in *.
    assert (0 <= v < 2 ^ w) by lia.
    split; [nia|]. split; [ring|]. nia.
Qed.

Lemma dec_enc_bits subs : forall s a vs, 0 <= s -> bits_seq s subs = true -> bits_range_ok subs vs = true ->
  0 <= a < 2 ^ s -> dec_bits subs (a + enc_bits subs vs) = vs.
Proof.
  induction subs as [|[[n lo] hi] r IH]; intros s a vs Hs Hq Hr Ha.
  - destruct vs; [reflexivity|discriminate].
  - destruct vs as [|v vs]; [discriminate|].
    pose proof Hq as Hq0. pose proof Hr as Hr0.
    cbn [bits_seq] in Hq. cbn [bits_range_ok] in Hr.
    apply andb_true_iff in Hq as [Hq Hq']. apply andb_true_iff in Hq as [Hlo Hle].
    apply andb_true_iff in Hr as [Hv Hr']. apply andb_true_iff in Hv as [Hv0 Hv1].
    assert (lo = s) by lia. subst lo.
    destruct (enc_bits_shape r (hi + 1) vs ltac:(lia) Hq' Hr') as (k & Hk & Hek & _).
    remember (hi - s + 1) as w eqn:Ew.
    assert (Hw : 0 < w) by lia.
    assert (Hp : 2 ^ (hi + 1) = 2 ^ s * 2 ^ w) by (replace (hi + 1) with (s + w) by lia; apply pow2_split; lia).
    pose proof (pow2_pos s Hs) as Ps. pose proof (pow2_pos w ltac:(lia)) as Pw.
    assert (Hv : 0 <= v < 2 ^ w) by lia.
    unfold dec_bits. cbn [map fst snd]. fold (dec_bits r (a + enc_bits ((n, s, hi) :: r) (v :: vs))).
    cbn [enc_bits]. f_equal.
    + rewrite <- Ew. rewrite Hek, Hp.
      replace (a + (v * 2 ^ s + k * (2 ^ s * 2 ^ w))) with (a + (v + k * 2 ^ w) * 2 ^ s) by ring.
      rewrite Z.div_add by lia. rewrite (Z.div_small a) by lia. rewrite Z.add_0_l.
      rewrite Z.mod_add by lia. apply Z.mod_small. lia.
    + rewrite Z.add_assoc. apply (IH (hi + 1)); try assumption; try lia.
      rewrite Hp. nia.
Qed.

Lemma dec_bits_cons n lo hi r b :
  dec_bits ((n, lo, hi) :: r) b = (b / 2 ^ lo) mod 2 ^ (hi - lo + 1) :: dec_bits r b.
Proof. reflexivity. Qed.

Lemma enc_dec_bits subs : forall s b, 0 <= s -> bits_seq s subs = true ->
  enc_bits subs (dec_bits subs b) = 2 ^ s * ((b / 2 ^ s) mod 2 ^ (8 - s))
  /\ bits_range_ok subs (dec_bits subs b) = true.
Proof.
  induction subs as [|[[n lo] hi] r IH]; intros s b Hs Hq.
  - cbn [bits_seq] in Hq. assert (s = 8) by lia. subst s. cbn [dec_bits map enc_bits bits_range_ok].
    split; [|reflexivity]. replace (8 - 8) with 0 by lia. rewrite Z.pow_0_r, Z.mod_1_r. lia.
  - pose proof (bits_seq_le _ _ Hq) as Hs8. cbn [bits_seq] in Hq.
    apply andb_true_iff in Hq as [Hq Hq']. apply andb_true_iff in Hq as [Hlo Hle].
    assert (lo = s) by lia. subst lo.
    pose proof (bits_seq_le _ _ Hq') as Hhi8.
    destruct (IH (hi + 1) b ltac:(lia) Hq') as [He Hr].
    remember (hi - s + 1) as w eqn:Ew.
    assert (Hw : 0 < w) by lia.
    remember (8 - (hi + 1)) as m eqn:Em.
    assert (Hm : 0 <= m) by lia.
    assert (Hp : 2 ^ (hi + 1) = 2 ^ s * 2 ^ w) by (replace (hi + 1) with (s + w) by lia; apply pow2_split; lia).
    assert (Hp8 : 2 ^ (8 - s) = 2 ^ w * 2 ^ m) by (replace (8 - s) with (w + m) by lia; apply pow2_split; lia).
    pose proof (pow2_pos s Hs) as Ps. pose proof (pow2_pos w ltac:(lia)) as Pw. pose proof (pow2_pos m Hm) as Pm.
    rewrite dec_bits_cons. cbn [enc_bits bits_range_ok]. rewrite <- Ew. rewrite He, Hr. split.
    + rewrite Hp8. rewrite (Z.rem_mul_r (b / 2 ^ s) (2 ^ w) (2 ^ m)) by lia.
      rewrite Hp. rewrite <- (Z.div_div b (2 ^ s) (2 ^ w)) by lia. ring.
    + rewrite andb_true_r. pose proof (Z.mod_pos_bound (b / 2 ^ s) (2 ^ w) Pw). lia.
Qed.

Lemma bits_range_length subs : forall vs, bits_range_ok subs vs = true -> length vs = length subs.
Proof.
  induction subs as [|[[n lo] hi] r IH]; intros [|v vs] H; try discriminate; [reflexivity|].
  cbn [bits_range_ok] in H. apply andb_true_iff in H as [_ H]. cbn [length]. now rewrite (IH _ H).
Qed.

(* ------------------------------------------------------------------------------------------ *)
(* signed fields                                                                                *)
(* ------------------------------------------------------------------------------------------ *)
Lemma pow256_pos w : 0 < pow256 w.
Proof. unfold pow256. apply Z.pow_pos_nonneg; lia. Qed.

Lemma pow256_even w : (1 <= w)%nat -> pow256 w = 2 * (pow256 w / 2) /\ 0 < pow256 w / 2.
Proof.
  intros Hw. destruct w as [|k]; [lia|]. unfold pow256. rewrite Nat2Z.inj_succ, Z.pow_succ_r by lia.
  assert (0 < 256 ^ Z.of_nat k) by (apply Z.pow_pos_nonneg; lia).
  replace (256 * 256 ^ Z.of_nat k) with ((128 * 256 ^ Z.of_nat k) * 2) by ring.
  rewrite Z.div_mul by lia. lia.
Qed.

Lemma smod_dec M h v : M = 2 * h -> 0 < h -> - h <= v < h ->
  (if v mod M <? h then v mod M else v mod M - M) = v.
Proof.
  intros HM Hh Hv. destruct (Z_lt_le_dec v 0) as [Hn|Hp].
  - assert (E : v mod M = v + M) by (symmetry; apply (Z.mod_unique v M (-1)); lia).
    rewrite E. destruct (v + M <? h) eqn:C; lia.
  - rewrite Z.mod_small by lia. destruct (v <? h) eqn:C; lia.
Qed.

Lemma smod_enc M h u : M = 2 * h -> 0 < h -> 0 <= u < M ->
  let v := if u <? h then u else u - M in - h <= v < h /\ v mod M = u.
Proof.
  intros HM Hh Hu. destruct (u <? h) eqn:C; cbn zeta.
  - split; [lia|]. apply Z.mod_small; lia.
  - split; [lia|]. symmetry. apply (Z.mod_unique (u - M) M (-1)); lia.
Qed.

(* ------------------------------------------------------------------------------------------ *)
(* one field                                                                                    *)
(* ------------------------------------------------------------------------------------------ *)
Lemma width_nonneg t : 0 <= width t.
Proof. destruct t; cbn [width]; lia. Qed.

Lemma enc_leaf_length t vs : length (enc_leaf t vs) = Z.to_nat (width t).
Proof.
  destruct t; cbn [enc_leaf width]; try (rewrite le_enc_length, Nat2Z.id; reflexivity). reflexivity.
Qed.

Lemma enc_leaf_len t vs : len (enc_leaf t vs) = width t.
Proof. unfold len. rewrite enc_leaf_length, Z2Nat.id; [reflexivity|apply width_nonneg]. Qed.

Lemma leaf_range_arity t vs : leaf_range_ok t vs = true -> length vs = arity t.
Proof.
  destruct t; cbn [leaf_range_ok arity]; intros H;
    try (destruct vs as [|v [|v' vs]]; try discriminate; reflexivity).
  now apply bits_range_length.
Qed.

Lemma dec_enc_leaf t vs : type_ok t = true -> leaf_range_ok t vs = true -> dec_leaf t (enc_leaf t vs) = vs.
Proof.
  intros Ht Hr. destruct t as [w|w|w|subs]; cbn [leaf_range_ok] in Hr.
  - destruct vs as [|v [|v' vs]]; try discriminate. cbn [enc_leaf dec_leaf hd].
    rewrite le_dec_enc; [reflexivity|unfold pow256 in Hr; lia].
  - destruct vs as [|v [|v' vs]]; try discriminate. cbn [enc_leaf dec_leaf hd type_ok] in *.
    apply Nat.leb_le in Ht. destruct (pow256_even w Ht) as [HM Hh].
    pose proof (pow256_pos w) as HP.
    rewrite le_dec_enc by (fold (pow256 w); apply Z.mod_pos_bound; lia).
    f_equal. apply smod_dec; lia.
  - destruct vs as [|v [|v' vs]]; try discriminate. cbn [enc_leaf dec_leaf hd].
    rewrite le_dec_enc; [reflexivity|unfold pow256 in Hr; lia].
  - cbn [enc_leaf dec_leaf hd type_ok] in *.
    rewrite <- (Z.add_0_l (enc_bits subs vs)). apply (dec_enc_bits subs 0); try assumption; lia.
Qed.

Lemma enc_bits_byte subs vs : bits_seq 0 subs = true -> bits_range_ok subs vs = true ->
  byte_ok (enc_bits subs vs) = true.
Proof.
  intros Hq Hr. destruct (enc_bits_shape subs 0 vs ltac:(lia) Hq Hr) as (k & Hk & He & Hub).
  rewrite He. unfold byte_ok. rewrite Z.pow_0_r in *. change (2 ^ 8) with 256 in Hub. lia.
Qed.

Lemma enc_leaf_bytes_ok t vs : type_ok t = true -> leaf_range_ok t vs = true -> bytes_ok (enc_leaf t vs) = true.
Proof.
  intros Ht Hr. destruct t; cbn [enc_leaf]; try apply le_enc_bytes_ok.
  cbn [bytes_ok forallb]. rewrite andb_true_r. now apply enc_bits_byte.
Qed.

Lemma enc_dec_leaf t bs : type_ok t = true -> length bs = Z.to_nat (width t) -> bytes_ok bs = true ->
  leaf_range_ok t (dec_leaf t bs) = true /\ enc_leaf t (dec_leaf t bs) = bs /\ length (dec_leaf t bs) = arity t.
Proof.
  intros Ht Hl Hb. destruct t as [w|w|w|subs]; cbn [width] in Hl; try rewrite Nat2Z.id in Hl.
  - pose proof (le_dec_bounds bs Hb) as B. rewrite Hl in B. cbn [dec_leaf leaf_range_ok enc_leaf hd arity length].
    unfold pow256. split; [lia|]. split; [|reflexivity]. rewrite <- Hl. now apply le_enc_dec.
  - pose proof (le_dec_bounds bs Hb) as B. rewrite Hl in B. fold (pow256 w) in B.
    cbn [type_ok] in Ht. apply Nat.leb_le in Ht. destruct (pow256_even w Ht) as [HM Hh].
    destruct (smod_enc (pow256 w) (pow256 w / 2) (le_dec bs) HM Hh B) as [R E].
    cbn [dec_leaf leaf_range_ok enc_leaf hd arity length]. split; [lia|]. split; [|reflexivity].
    rewrite E. rewrite <- Hl. now apply le_enc_dec.
  - pose proof (le_dec_bounds bs Hb) as B. rewrite Hl in B. cbn [dec_leaf leaf_range_ok enc_leaf hd arity length].
    unfold pow256. split; [lia|]. split; [|reflexivity]. rewrite <- Hl. now apply le_enc_dec.
  - destruct bs as [|b [|b' bs]]; try discriminate. cbn [bytes_ok forallb] in Hb. rewrite andb_true_r in Hb.
    unfold byte_ok in Hb. cbn [type_ok] in Ht.
    destruct (enc_dec_bits subs 0 b ltac:(lia) Ht) as [He Hr].
    cbn [dec_leaf leaf_range_ok enc_leaf hd arity]. split; [exact Hr|]. split.
    + rewrite He. rewrite Z.pow_0_r, Z.div_1_r, Z.mul_1_l. change (2 ^ (8 - 0)) with 256.
      rewrite Z.mod_small by lia. reflexivity.
    + unfold dec_bits. apply map_length.
Qed.

(* ------------------------------------------------------------------------------------------ *)
(* whole records, any layout: induction over the layout                                         *)
(* ------------------------------------------------------------------------------------------ *)
Lemma layout_len_nonneg L : 0 <= layout_len L.
Proof.
  induction L as [|[[n o] t] L IH]; unfold layout_len; cbn [fold_right snd]; [lia|].
  fold (layout_len L). pose proof (width_nonneg t). lia.
Qed.

Lemma layout_len_cons n o t L : layout_len ((n, o, t) :: L) = width t + layout_len L.
Proof. reflexivity. Qed.

Lemma dec_at_cons n o t L bytes :
  dec_at ((n, o, t) :: L) bytes = dec_leaf t (take (width t) (drop o bytes)) ++ dec_at L bytes.
Proof. reflexivity. Qed.

Theorem dec_enc_point_gen L : forall pre vals bs post,
  contig (len pre) L = true -> enc_point L vals = Ok bs ->
  dec_at L (pre ++ bs ++ post) = vals /\ len bs = layout_len L /\ bytes_ok bs = true.
Proof.
  induction L as [|[[n off] t] L IH]; intros pre vals bs post Hc He.
  - cbn [enc_point] in He. destruct vals; [|discriminate]. injection He as <-. repeat split.
  - cbn [contig] in Hc. apply andb_true_iff in Hc as [Hc Hc']. apply andb_true_iff in Hc as [Hoff Ht].
    assert (off = len pre) by lia. subst off.
    cbn [enc_point] in He. destruct (leaf_range_ok t (firstn (arity t) vals)) eqn:Hr; [|discriminate].
    destruct (enc_point L (skipn (arity t) vals)) as [r|e] eqn:Er; [|discriminate]. cbn [bind] in He.
    injection He as <-. set (e := enc_leaf t (firstn (arity t) vals)) in *.
    assert (Hle : len e = width t) by apply enc_leaf_len.
    assert (Hc2 : contig (len (pre ++ e)) L = true) by (rewrite len_app, Hle; exact Hc').
    destruct (IH (pre ++ e) _ r post Hc2 Er) as (Hd & Hl & Hb).
    rewrite dec_at_cons. split; [|split].
    + rewrite drop_app_exact. rewrite <- app_assoc. rewrite <- Hle. rewrite take_app_exact.
      unfold e at 1. rewrite dec_enc_leaf by assumption.
      replace (pre ++ e ++ r ++ post) with ((pre ++ e) ++ r ++ post) by (now rewrite <- app_assoc).
      rewrite Hd. apply firstn_skipn.
    + rewrite len_app, Hle, Hl. reflexivity.
    + unfold bytes_ok. rewrite forallb_app. fold (bytes_ok e) (bytes_ok r). rewrite Hb.
      unfold e. rewrite enc_leaf_bytes_ok by assumption. reflexivity.
Qed.

Lemma len_zero_nil {A} (l : list A) : len l = 0 -> l = [].
Proof. destruct l; [reflexivity|]. unfold len. cbn [length]. lia. Qed.

Theorem enc_dec_point_gen L : forall pre mid post,
  contig (len pre) L = true -> len mid = layout_len L -> bytes_ok mid = true ->
  enc_point L (dec_at L (pre ++ mid ++ post)) = Ok mid.
Proof.
  induction L as [|[[n off] t] L IH]; intros pre mid post Hc Hl Hb.
  - change (layout_len []) with 0 in Hl. apply len_zero_nil in Hl. subst mid. reflexivity.
  - cbn [contig] in Hc. apply andb_true_iff in Hc as [Hc Hc']. apply andb_true_iff in Hc as [Hoff Ht].
    assert (off = len pre) by lia. subst off. rewrite layout_len_cons in Hl.
    pose proof (width_nonneg t) as Hw. pose proof (layout_len_nonneg L) as HL.
    set (k := Z.to_nat (width t)).
    assert (Hk : (k <= length mid)%nat) by (unfold len in Hl; unfold k; lia).
    assert (Hsplit : mid = firstn k mid ++ skipn k mid) by (symmetry; apply firstn_skipn).
    assert (Hb1 : length (firstn k mid) = k) by (apply firstn_length_le; exact Hk).
    set (b1 := firstn k mid) in *. set (m' := skipn k mid) in *. clearbody b1 m'. subst mid.
    assert (Hlb1 : len b1 = width t) by (unfold len; rewrite Hb1; unfold k; lia).
    assert (Hm' : len m' = layout_len L) by (rewrite len_app in Hl; lia).
    unfold bytes_ok in Hb. rewrite forallb_app in Hb. apply andb_true_iff in Hb as [Hbb1 Hbm].
    fold (bytes_ok b1) in Hbb1. fold (bytes_ok m') in Hbm.
    destruct (enc_dec_leaf t b1 Ht Hb1 Hbb1) as (Hr & He & Ha).
    assert (Hitem : take (width t) (drop (len pre) (pre ++ (b1 ++ m') ++ post)) = b1).
    { rewrite drop_app_exact, <- app_assoc, <- Hlb1. apply take_app_exact. }
    rewrite dec_at_cons, Hitem.
    cbn [enc_point]. rewrite firstn_app_exact by exact Ha. rewrite Hr.
    rewrite skipn_app_exact by exact Ha.
    assert (Hc2 : contig (len (pre ++ b1)) L = true) by (rewrite len_app, Hlb1; exact Hc').
    replace (pre ++ (b1 ++ m') ++ post) with ((pre ++ b1) ++ m' ++ post) by (now rewrite <- !app_assoc).
    rewrite (IH (pre ++ b1) m' post Hc2 Hm' Hbm). cbn [bind]. now rewrite He.
Qed.

(* the two round trips at the level of [dec_point] *)
Theorem dec_enc_point L vals bs : layout_ok L = true -> enc_point L vals = Ok bs -> dec_point L bs = Ok vals.
Proof.
  intros Hok He. destruct (dec_enc_point_gen L [] vals bs [] Hok He) as (Hd & Hl & Hb).
  unfold dec_point. rewrite Hl, Z.eqb_refl, Hb. cbn [andb]. cbn [app] in Hd. rewrite app_nil_r in Hd. now rewrite Hd.
Qed.

Theorem enc_dec_point L bytes vals : layout_ok L = true -> dec_point L bytes = Ok vals -> enc_point L vals = Ok bytes.
Proof.
  intros Hok Hd. unfold dec_point in Hd.
  destruct ((len bytes =? layout_len L) && bytes_ok bytes) eqn:C; [|discriminate]. injection Hd as <-.
  apply andb_true_iff in C as [Hl Hb]. apply Z.eqb_eq in Hl.
  pose proof (enc_dec_point_gen L [] bytes [] Hok Hl Hb) as H. cbn [app] in H. now rewrite app_nil_r in H.
Qed.

Lemma enc_point_values_ok L : forall vals, values_ok L vals = true <-> exists bs, enc_point L vals = Ok bs.
Proof.
  induction L as [|[[n off] t] L IH]; intros vals; cbn [values_ok enc_point].
  - destruct vals; split; intros H; try discriminate; [now exists []|reflexivity|now destruct H].
  - destruct (leaf_range_ok t (firstn (arity t) vals)) eqn:Hr; cbn [andb].
    + rewrite IH. split; intros [bs H].
      * rewrite H. cbn [bind]. eexists. reflexivity.
      * destruct (enc_point L (skipn (arity t) vals)) as [r|e]; [now exists r|discriminate].
    + split; [discriminate|]. now intros [bs H].
Qed.

Lemma dec_point_values_ok L bytes vals : layout_ok L = true -> dec_point L bytes = Ok vals -> values_ok L vals = true.
Proof. intros Hok Hd. apply enc_point_values_ok. exists bytes. now apply enc_dec_point. Qed.

Lemma dec_point_total L bytes : len bytes = layout_len L -> bytes_ok bytes = true -> dec_point L bytes = Ok (dec_at L bytes).
Proof. intros Hl Hb. unfold dec_point. now rewrite Hl, Z.eqb_refl, Hb. Qed.

(* ------------------------------------------------------------------------------------------ *)
(* layouts with computed offsets                                                                *)
(* ------------------------------------------------------------------------------------------ *)
Lemma with_offsets_app a : forall s b, with_offsets s (a ++ b) = with_offsets s a ++ with_offsets (s + total_width a) b.
Proof.
  induction a as [|[n t] a IH]; intros s b.
  - cbn [app with_offsets total_width fold_right]. now rewrite Z.add_0_r.
  - cbn [app with_offsets]. rewrite IH. unfold total_width at 2. cbn [fold_right snd]. fold (total_width a).
    now rewrite Z.add_assoc.
Qed.

Lemma with_offsets_contig its : forall s, forallb (fun it => type_ok (snd it)) its = true -> contig s (with_offsets s its) = true.
Proof.
  induction its as [|[n t] its IH]; intros s H; [reflexivity|].
  cbn [forallb snd] in H. apply andb_true_iff in H as [Ht Hr].
  cbn [with_offsets contig]. now rewrite Z.eqb_refl, Ht, IH.
Qed.

Lemma with_offsets_len its : forall s, layout_len (with_offsets s its) = total_width its.
Proof.
  induction its as [|[n t] its IH]; intros s; [reflexivity|].
  cbn [with_offsets]. rewrite layout_len_cons, IH. reflexivity.
Qed.

Lemma total_width_app a b : total_width (a ++ b) = total_width a + total_width b.
Proof.
  induction a as [|[n t] a IH]; [reflexivity|]. cbn [app]. unfold total_width in *. cbn [fold_right snd]. rewrite IH. lia.
Qed.

(* ------------------------------------------------------------------------------------------ *)
(* generated tables = specification tables (computation over the tables of the running module) *)
(* ------------------------------------------------------------------------------------------ *)
Ltac fmt_cases f H :=
  assert (f = 0 \/ f = 1 \/ f = 2 \/ f = 3 \/ f = 4 \/ f = 5 \/ f = 6 \/ f = 7 \/ f = 8 \/ f = 9 \/ f = 10) as
    [-> | [-> | [-> | [-> | [-> | [-> | [-> | [-> | [-> | [-> | ->]]]]]]]]]] by lia.

Lemma std_layout_spec f : 0 <= f <= 10 ->
  exists its, spec_items f = Some its
    /\ gen_std_layout f = Some (with_offsets 0 its)
    /\ gen_record_length f = Some (spec_record_length f)
    /\ total_width its = spec_record_length f
    /\ forallb (fun it => type_ok (snd it)) its = true.
Proof.
  intros H. fmt_cases f H; eexists; (split; [reflexivity|]); vm_compute; repeat split; reflexivity.
Qed.

Lemma record_lengths :
  map spec_record_length [0; 1; 2; 3; 4; 5; 6; 7; 8; 9; 10] = [20; 28; 26; 34; 57; 63; 30; 36; 38; 59; 67]
  /\ map gen_record_length [0; 1; 2; 3; 4; 5; 6; 7; 8; 9; 10] = map Some [20; 28; 26; 34; 57; 63; 30; 36; 38; 59; 67]
  /\ map (fun f => option_map total_width (spec_items f)) [0; 1; 2; 3; 4; 5; 6; 7; 8; 9; 10]
     = map Some [20; 28; 26; 34; 57; 63; 30; 36; 38; 59; 67].
Proof. vm_compute. repeat split; reflexivity. Qed.

Lemma formats_are_0_to_10 : map (fun r => fst (fst r)) point_formats = [0; 1; 2; 3; 4; 5; 6; 7; 8; 9; 10]
  /\ map fst sub_fields = [0; 1; 2; 3; 4; 5; 6; 7; 8; 9; 10].
Proof. vm_compute. split; reflexivity. Qed.

Lemma masks_spec f : 0 <= f <= 10 -> gen_masks f = spec_masks f.
Proof. intros H. fmt_cases f H; vm_compute; reflexivity. Qed.

Lemma sf_semantics_sweep : forallb sf_spec_ok all_sub_fields = true.
Proof. vm_compute. reflexivity. Qed.

Lemma sf_semantics fmt name composed m : In (fmt, name, composed, m) all_sub_fields ->
  exists lo hi, spec_bit_range fmt composed name = Some (lo, hi)
    /\ m = mask_of_range lo hi
    /\ sf_max m = 2 ^ (hi - lo + 1) - 1
    /\ forall b, 0 <= b < 256 ->
         sf_get m b = (b / 2 ^ lo) mod 2 ^ (hi - lo + 1)
         /\ forall v, 0 <= v < 2 ^ (hi - lo + 1) ->
              sf_put m b v = b - ((b / 2 ^ lo) mod 2 ^ (hi - lo + 1)) * 2 ^ lo + v * 2 ^ lo.
Proof.
  intros Hin. pose proof sf_semantics_sweep as S. rewrite forallb_forall in S. specialize (S _ Hin).
  unfold sf_spec_ok in S. destruct (spec_bit_range fmt composed name) as [[lo hi]|]; [|discriminate].
  apply andb_true_iff in S as [S S3]. apply andb_true_iff in S as [S1 S2].
  exists lo, hi. split; [reflexivity|]. split; [lia|]. split; [lia|].
  intros b Hb. pose proof (forall_below_spec _ _ S3 b Hb) as Sb. cbv beta in Sb.
  apply andb_true_iff in Sb as [Sg Sp]. split; [lia|].
  intros v Hv. pose proof (forall_below_spec _ _ Sp v Hv) as Sv. cbv beta in Sv. lia.
Qed.

Lemma eb_types_spec : gen_eb_types = Some spec_eb_types /\ gen_eb_struct_types = Some spec_eb_types.
Proof. vm_compute. split; reflexivity. Qed.

Lemma eb_types_table : spec_eb_types =
  [(1, TU 1, 1%nat); (2, TI 1, 1%nat); (3, TU 2, 1%nat); (4, TI 2, 1%nat); (5, TU 4, 1%nat);
   (6, TI 4, 1%nat); (7, TU 8, 1%nat); (8, TI 8, 1%nat); (9, TF 4, 1%nat); (10, TF 8, 1%nat);
   (11, TU 1, 2%nat); (12, TI 1, 2%nat); (13, TU 2, 2%nat); (14, TI 2, 2%nat); (15, TU 4, 2%nat);
   (16, TI 4, 2%nat); (17, TU 8, 2%nat); (18, TI 8, 2%nat); (19, TF 4, 2%nat); (20, TF 8, 2%nat);
   (21, TU 1, 3%nat); (22, TI 1, 3%nat); (23, TU 2, 3%nat); (24, TI 2, 3%nat); (25, TU 4, 3%nat);
   (26, TI 4, 3%nat); (27, TU 8, 3%nat); (28, TI 8, 3%nat); (29, TF 4, 3%nat); (30, TF 8, 3%nat)].
Proof. vm_compute. reflexivity. Qed.

(* ---- extra bytes items are well-typed ---- *)
Lemma eb_lookup_ok tbl : forallb (fun r => type_ok (snd (fst r))) tbl = true ->
  forall id t c, eb_lookup tbl id = Some (t, c) -> type_ok t = true.
Proof.
  induction tbl as [|[[i t0] c0] tbl IH]; intros H id t c E; [discriminate|].
  cbn [forallb fst snd] in H. apply andb_true_iff in H as [H0 Hr]. cbn [eb_lookup] in E.
  destruct (i =? id); [now injection E as <- <-|]. eapply IH; eauto.
Qed.

Lemma forallb_repeat {A} (p : A -> bool) x n : p x = true -> forallb p (repeat x n) = true.
Proof. intros H. induction n; cbn [repeat forallb]; [reflexivity|]. now rewrite H, IHn. Qed.

Lemma eb_items_ok ds : forall its, eb_items_of spec_eb_types ds = Some its -> forallb (fun it => type_ok (snd it)) its = true.
Proof.
  induction ds as [|[[n dt] opt] ds IH]; intros its H; cbn [eb_items_of] in H.
  - now injection H as <-.
  - destruct (eb_items_one spec_eb_types (n, dt, opt)) as [a|] eqn:Ea; [|discriminate].
    destruct (eb_items_of spec_eb_types ds) as [b|] eqn:Eb; [|discriminate]. injection H as <-.
    rewrite forallb_app. apply andb_true_iff. split; [|now apply IH].
    unfold eb_items_one in Ea. destruct (dt =? 0).
    + destruct ((0 <=? opt) && (opt <? 256)); [|discriminate]. injection Ea as <-. now apply forallb_repeat.
    + destruct (eb_lookup spec_eb_types dt) as [[t c]|] eqn:El; [|discriminate]. injection Ea as <-.
      apply forallb_repeat. cbn [snd]. eapply (eb_lookup_ok spec_eb_types); [vm_compute; reflexivity|exact El].
Qed.

(* ---- the whole record layout, any extra-bytes list ---- *)
Theorem full_layout_spec f ebs : 0 <= f <= 10 -> gen_point_layout f ebs = spec_point_layout f ebs.
Proof.
  intros H. destruct (std_layout_spec f H) as (its & Hs & Hg & Hn & Hw & _).
  destruct eb_types_spec as [Ht _].
  unfold gen_point_layout, spec_point_layout. rewrite Hs, Hg, Hn, Ht.
  destruct (eb_items_of spec_eb_types ebs) as [b|]; [|reflexivity].
  rewrite with_offsets_app, Z.add_0_l, Hw. reflexivity.
Qed.

Theorem spec_layout_ok f ebs L : 0 <= f <= 10 -> spec_point_layout f ebs = Some L -> layout_ok L = true.
Proof.
  intros H HL. destruct (std_layout_spec f H) as (its & Hs & _ & _ & _ & Hok).
  unfold spec_point_layout in HL. rewrite Hs in HL.
  destruct (eb_items_of spec_eb_types ebs) as [b|] eqn:Eb; [|discriminate]. injection HL as <-.
  unfold layout_ok. apply with_offsets_contig. rewrite forallb_app. apply andb_true_iff.
  split; [exact Hok|now apply (eb_items_ok ebs)].
Qed.

Theorem spec_layout_len f ebs its : 0 <= f <= 10 -> eb_items_of spec_eb_types ebs = Some its ->
  exists L, spec_point_layout f ebs = Some L /\ layout_len L = spec_record_length f + total_width its.
Proof.
  intros H Hb. destruct (std_layout_spec f H) as (a & Hs & _ & _ & Hw & _).
  unfold spec_point_layout. rewrite Hs, Hb. eexists. split; [reflexivity|].
  now rewrite with_offsets_len, total_width_app, Hw.
Qed.

(* ---- the theorems of the property: each side reads what the other wrote ---- *)
Theorem spec_reads_laspy f ebs vals bs : 0 <= f <= 10 ->
  gen_enc_point f ebs vals = Ok bs -> spec_dec_point f ebs bs = Ok vals.
Proof.
  intros H He. unfold gen_enc_point, spec_dec_point in *. rewrite (full_layout_spec f ebs H) in He.
  destruct (spec_point_layout f ebs) as [L|] eqn:EL; [|discriminate]. cbn [with_layout] in *.
  eapply dec_enc_point; [eapply spec_layout_ok; eauto|exact He].
Qed.

Theorem laspy_reads_spec f ebs vals bs : 0 <= f <= 10 ->
  spec_enc_point f ebs vals = Ok bs -> gen_dec_point f ebs bs = Ok vals.
Proof.
  intros H He. unfold spec_enc_point, gen_dec_point in *. rewrite (full_layout_spec f ebs H).
  destruct (spec_point_layout f ebs) as [L|] eqn:EL; [|discriminate]. cbn [with_layout] in *.
  eapply dec_enc_point; [eapply spec_layout_ok; eauto|exact He].
Qed.

(* every byte image of the right length has exactly one reading, the same on both sides *)
Theorem one_reading f ebs L bytes : 0 <= f <= 10 -> spec_point_layout f ebs = Some L ->
  len bytes = layout_len L -> bytes_ok bytes = true ->
  exists vals, spec_dec_point f ebs bytes = Ok vals /\ gen_dec_point f ebs bytes = Ok vals
    /\ values_ok L vals = true
    /\ spec_enc_point f ebs vals = Ok bytes /\ gen_enc_point f ebs vals = Ok bytes.
Proof.
  intros H HL Hl Hb. pose proof (spec_layout_ok f ebs L H HL) as Hok.
  pose proof (dec_point_total L bytes Hl Hb) as Hd.
  exists (dec_at L bytes). unfold spec_dec_point, gen_dec_point, spec_enc_point, gen_enc_point.
  rewrite (full_layout_spec f ebs H), HL. cbn [with_layout].
  pose proof (enc_dec_point L bytes _ Hok Hd) as He.
  repeat split; try assumption. eapply dec_point_values_ok; eauto.
Qed.

Theorem in_range_encodes f ebs L vals : spec_point_layout f ebs = Some L ->
  values_ok L vals = true <-> exists bs, spec_enc_point f ebs vals = Ok bs.
Proof. intros HL. unfold spec_enc_point. rewrite HL. cbn [with_layout]. apply enc_point_values_ok. Qed.

(* ------------------------------------------------------------------------------------------ *)
(* header, VLR header, extra-bytes descriptor                                                   *)
(* ------------------------------------------------------------------------------------------ *)
Ltac minor_cases m H :=
  assert (m = 1 \/ m = 2 \/ m = 3 \/ m = 4)%nat as [-> | [-> | [-> | ->]]] by lia.

Theorem header_layouts minor : (1 <= minor <= 4)%nat ->
  gen_hdr_write minor = spec_write_layout minor /\ gen_hdr_read minor = spec_read_layout minor
  /\ layout_width (fixed_part (spec_write_layout minor)) = spec_header_size minor
  /\ layout_width (fixed_part (spec_read_layout minor)) = spec_header_size minor.
Proof.
  intros H. destruct (header_fixed_width minor H) as [W R].
  minor_cases minor H; cbn [gen_hdr_write gen_hdr_read];
    (split; [first [exact hdr_write_1 | exact hdr_write_2 | exact hdr_write_3 | exact hdr_write_4]|]);
    (split; [first [exact hdr_read_1 | exact hdr_read_2 | exact hdr_read_3 | exact hdr_read_4]|]); split; assumption.
Qed.

Theorem header_sizes_spec : las_headers_size = [(1, 1, 227); (1, 2, 227); (1, 3, 235); (1, 4, 375)]
  /\ map spec_header_size [1; 2; 3; 4]%nat = [227; 227; 235; 375].
Proof. split; [exact header_sizes|reflexivity]. Qed.

Theorem vlr_layouts ext :
  gen_vlr_write ext = spec_vlr_layout ext /\ gen_vlr_read ext = spec_vlr_layout ext
  /\ layout_width (fixed_part (spec_vlr_layout ext)) = (if ext then 60 else 54).
Proof.
  destruct ext; cbn [gen_vlr_write gen_vlr_read];
    (split; [first [exact vlr_write_ext | exact vlr_write_std]|]);
    (split; [first [exact vlr_read_ext | exact vlr_read_std]|]); reflexivity.
Qed.

(* encoding and well-formedness depend on kinds and widths only, not on the labels *)
Lemma enc_fields_shape l1 : forall l2 vals, map fst l1 = map fst l2 ->
  enc_fields l1 vals = enc_fields l2 vals /\ wf_fields l1 vals = wf_fields l2 vals.
Proof.
  induction l1 as [|[[k w] n] l1 IH]; intros [|[[k2 w2] n2] l2] vals E; try discriminate.
  - split; reflexivity.
  - cbn [map fst] in E. injection E as -> -> E. destruct vals as [|v vals]; [split; reflexivity|].
    cbn [enc_fields wf_fields]. destruct (IH l2 vals E) as [-> ->]. split; reflexivity.
Qed.

Lemma hdr_shape minor : (1 <= minor <= 4)%nat ->
  map fst (fixed_part (spec_write_layout minor)) = map fst (fixed_part (spec_read_layout minor)).
Proof. intros H. minor_cases minor H; vm_compute; reflexivity. Qed.

Theorem header_spec_reads_laspy minor vals bs rest : (1 <= minor <= 4)%nat ->
  wf_fields (fixed_part (gen_hdr_write minor)) vals = true ->
  enc_fields (fixed_part (gen_hdr_write minor)) vals = Ok bs ->
  spec_dec_header minor (bs ++ rest) = (combine (layout_names (spec_hdr_layout minor)) vals, rest)
  /\ len bs = spec_header_size minor.
Proof.
  intros H Hwf He. destruct (header_layouts minor H) as (Hw & _ & _ & Hsz). rewrite Hw in *.
  destruct (enc_fields_shape _ _ vals (hdr_shape minor H)) as [E1 E2]. rewrite E1 in He. rewrite E2 in Hwf.
  destruct (dec_enc_fields _ vals bs rest Hwf He) as [Hd Hl]. unfold spec_dec_header, spec_hdr_layout.
  split; [exact Hd|]. now rewrite Hl.
Qed.

Theorem header_laspy_reads_spec minor vals bs rest : (1 <= minor <= 4)%nat ->
  wf_fields (spec_hdr_layout minor) vals = true -> spec_enc_header minor vals = Ok bs ->
  dec_fields (fixed_part (gen_hdr_read minor)) (bs ++ rest) = (combine (layout_names (fixed_part (gen_hdr_read minor))) vals, rest)
  /\ len bs = spec_header_size minor.
Proof.
  intros H Hwf He. destruct (header_layouts minor H) as (_ & Hr & _ & Hsz). rewrite Hr.
  destruct (dec_enc_fields _ vals bs rest Hwf He) as [Hd Hl]. split; [exact Hd|]. unfold spec_hdr_layout in Hl. now rewrite Hl.
Qed.

Theorem vlr_header_round_trip ext vals bs rest :
  wf_fields (fixed_part (gen_vlr_write ext)) vals = true ->
  enc_fields (fixed_part (gen_vlr_write ext)) vals = Ok bs ->
  spec_dec_vlr_header ext (bs ++ rest) = (combine (layout_names (spec_vlr_hdr_layout ext)) vals, rest)
  /\ (wf_fields (spec_vlr_hdr_layout ext) vals = true /\ spec_enc_vlr_header ext vals = Ok bs
      /\ dec_fields (fixed_part (gen_vlr_read ext)) (bs ++ rest) = (combine (layout_names (fixed_part (gen_vlr_read ext))) vals, rest))
  /\ len bs = (if ext then 60 else 54).
Proof.
  intros Hwf He. destruct (vlr_layouts ext) as (Hw & Hr & Hsz). rewrite Hw in *. rewrite Hr.
  destruct (dec_enc_fields _ vals bs rest Hwf He) as [Hd Hl].
  unfold spec_dec_vlr_header, spec_enc_vlr_header, spec_vlr_hdr_layout. repeat split; try assumption. now rewrite Hl.
Qed.

Theorem eb_descriptor_spec :
  gen_eb_descriptor = Some spec_eb_descriptor
  /\ layout_width spec_eb_descriptor = spec_eb_descriptor_size /\ eb_struct_size = spec_eb_descriptor_size
  /\ eb_option_bits = spec_eb_option_bits /\ eb_vlr_id = spec_eb_vlr.
Proof. vm_compute. repeat split; reflexivity. Qed.

Theorem eb_descriptor_round_trip L vals bs rest : gen_eb_descriptor = Some L ->
  wf_fields L vals = true -> enc_fields L vals = Ok bs ->
  spec_dec_eb_descriptor (bs ++ rest) = (combine (layout_names spec_eb_descriptor) vals, rest)
  /\ spec_enc_eb_descriptor vals = Ok bs /\ len bs = 192.
Proof.
  intros HL Hwf He. destruct eb_descriptor_spec as (Hg & Hw & _). rewrite Hg in HL. injection HL as <-.
  destruct (dec_enc_fields _ vals bs rest Hwf He) as [Hd Hl].
  unfold spec_dec_eb_descriptor, spec_enc_eb_descriptor. repeat split; try assumption; now rewrite Hl.
Qed.

(* ------------------------------------------------------------------------------------------ *)
(* the record length of the header: undocumented trailing bytes, resolution of a file's layout  *)
(* ------------------------------------------------------------------------------------------ *)
Theorem resolve_spec ps std d hv : resolve_record ps std d hv = spec_resolve_record ps std d hv.
Proof.
  unfold resolve_record, spec_resolve_record. destruct hv; cbn [andb negb];
  repeat match goal with |- context [if ?c then _ else _] => destruct c eqn:? end;
  try reflexivity; try (exfalso; lia); repeat f_equal; lia.
Qed.

Theorem resolve_fills ps std d hv u t : spec_resolve_record ps std d hv = Ok (u, t) ->
  0 <= t /\ std + (if u then d else 0) + t = ps.
Proof.
  unfold spec_resolve_record. intros H.
  destruct (hv && negb (ps =? std)).
  - destruct (std + d <=? ps) eqn:E; [|discriminate]. injection H as <- <-. lia.
  - destruct (std <=? ps) eqn:E; [|discriminate]. injection H as <- <-. lia.
Qed.

Lemma undoc_spec t : gen_undoc_items t = Some (undoc_items t).
Proof. reflexivity. Qed.

Lemma undoc_ok t : forallb (fun it : item => type_ok (snd it)) (undoc_items t) = true.
Proof. unfold undoc_items. now apply forallb_repeat. Qed.

Lemma total_width_repeat (it : item) n : total_width (repeat it n) = Z.of_nat n * width (snd it).
Proof.
  induction n as [|n IH]; [reflexivity|]. cbn [repeat]. unfold total_width in *. cbn [fold_right]. rewrite IH. lia.
Qed.

Lemma undoc_width t : 0 <= t -> total_width (undoc_items t) = t.
Proof. intros H. unfold undoc_items. rewrite total_width_repeat. cbn [snd]. change (width uchar) with 1. lia. Qed.

Theorem full_layout_rl f ebs t : 0 <= f <= 10 -> gen_point_layout_rl f ebs t = spec_point_layout_rl f ebs t.
Proof.
  intros H. destruct (std_layout_spec f H) as (its & Hs & Hg & Hn & Hw & _).
  destruct eb_types_spec as [Ht _].
  unfold gen_point_layout_rl, spec_point_layout_rl. rewrite Hs, Hg, Hn, Ht, undoc_spec.
  destruct (eb_items_of spec_eb_types ebs) as [b|]; [|reflexivity].
  destruct (0 <=? t); [|reflexivity].
  rewrite (with_offsets_app its 0 (b ++ undoc_items t)), Z.add_0_l, Hw. reflexivity.
Qed.

Theorem spec_layout_rl_0 f ebs : spec_point_layout_rl f ebs 0 = spec_point_layout f ebs.
Proof.
  unfold spec_point_layout_rl, spec_point_layout. destruct (spec_items f); [|reflexivity].
  destruct (eb_items_of spec_eb_types ebs); [|reflexivity]. cbn. now rewrite app_nil_r.
Qed.

Theorem spec_layout_rl_ok f ebs t L : 0 <= f <= 10 -> spec_point_layout_rl f ebs t = Some L -> layout_ok L = true.
Proof.
  intros H HL. destruct (std_layout_spec f H) as (its & Hs & _ & _ & _ & Hok).
  unfold spec_point_layout_rl in HL. rewrite Hs in HL.
  destruct (eb_items_of spec_eb_types ebs) as [b|] eqn:Eb; [|discriminate].
  destruct (0 <=? t); [|discriminate]. injection HL as <-.
  unfold layout_ok. apply with_offsets_contig. rewrite !forallb_app. apply andb_true_iff. split; [exact Hok|].
  apply andb_true_iff. split; [now apply (eb_items_ok ebs)|apply undoc_ok].
Qed.

Theorem spec_layout_rl_len f ebs t its L : 0 <= f <= 10 -> eb_items_of spec_eb_types ebs = Some its ->
  spec_point_layout_rl f ebs t = Some L -> 0 <= t /\ layout_len L = spec_record_length f + total_width its + t.
Proof.
  intros H Hb HL. destruct (std_layout_spec f H) as (a & Hs & _ & _ & Hw & _).
  unfold spec_point_layout_rl in HL. rewrite Hs, Hb in HL. destruct (0 <=? t) eqn:E; [|discriminate]. injection HL as <-.
  split; [lia|]. rewrite with_offsets_len, !total_width_app, Hw, undoc_width by lia. lia.
Qed.

Theorem record_layout_spec f ebs hv ps : 0 <= f <= 10 -> gen_record_layout f ebs hv ps = spec_record_layout f ebs hv ps.
Proof.
  intros H. destruct (std_layout_spec f H) as (its & _ & _ & Hn & _ & _).
  destruct eb_types_spec as [Ht _].
  unfold gen_record_layout, spec_record_layout. rewrite Ht, Hn.
  destruct (eb_items_of spec_eb_types ebs) as [b|]; [|reflexivity].
  rewrite resolve_spec. destruct (spec_resolve_record _ _ _ _) as [[u t]|e]; [|reflexivity].
  now rewrite full_layout_rl.
Qed.

(* the records of the layout are exactly as long as the header says, whatever the VLR describes *)
Theorem record_layout_fills f ebs hv ps L : 0 <= f <= 10 -> spec_record_layout f ebs hv ps = Ok L ->
  layout_ok L = true /\ layout_len L = ps.
Proof.
  intros H HL. unfold spec_record_layout in HL.
  destruct (eb_items_of spec_eb_types ebs) as [b|] eqn:Eb; [|discriminate].
  destruct (spec_resolve_record ps (spec_record_length f) (total_width b) hv) as [[u t]|e] eqn:Er; [|discriminate].
  destruct (spec_point_layout_rl f (if u then ebs else []) t) as [L'|] eqn:EL; [|discriminate]. injection HL as <-.
  split; [eapply spec_layout_rl_ok; eauto|].
  destruct (resolve_fills _ _ _ _ _ _ Er) as [Ht Hsum].
  destruct u.
  - destruct (spec_layout_rl_len f ebs t b L' H Eb EL) as [_ ->]. lia.
  - destruct (spec_layout_rl_len f [] t [] L' H eq_refl EL) as [_ ->]. cbn [total_width fold_right]. lia.
Qed.

Lemma dec_point_len L bs vals : dec_point L bs = Ok vals -> len bs = layout_len L.
Proof. unfold dec_point. destruct (len bs =? layout_len L) eqn:E; [intros _; lia|discriminate]. Qed.

(* a file's records, laid out by laspy from (format, Extra Bytes VLR, record length): the specification's layout, and what
   either side encodes over it the other decodes, in records of exactly [ps] bytes *)
Theorem record_both_directions f ebs hv ps L : 0 <= f <= 10 -> gen_record_layout f ebs hv ps = Ok L ->
  spec_record_layout f ebs hv ps = Ok L /\ layout_ok L = true /\ layout_len L = ps
  /\ (forall vals bs, enc_point L vals = Ok bs -> dec_point L bs = Ok vals /\ len bs = ps)
  /\ (forall bytes, len bytes = ps -> bytes_ok bytes = true ->
        exists vals, dec_point L bytes = Ok vals /\ enc_point L vals = Ok bytes).
Proof.
  intros H HL. rewrite (record_layout_spec f ebs hv ps H) in HL.
  destruct (record_layout_fills f ebs hv ps L H HL) as [Hok Hlen].
  repeat split; try assumption.
  - eapply dec_enc_point; eauto.
  - erewrite dec_point_len; [exact Hlen|]. eapply dec_enc_point; eauto.
  - intros bytes Hb Hbo. exists (dec_at L bytes).
    assert (Hd : dec_point L bytes = Ok (dec_at L bytes)) by (apply dec_point_total; [lia|assumption]).
    split; [exact Hd|]. eapply enc_dec_point; eauto.
Qed.

(* with the trailing bytes given: each side reads what the other wrote *)
Theorem spec_reads_laspy_rl f ebs t vals bs : 0 <= f <= 10 ->
  gen_enc_point_rl f ebs t vals = Ok bs -> spec_dec_point_rl f ebs t bs = Ok vals.
Proof.
  intros H He. unfold gen_enc_point_rl, spec_dec_point_rl in *. rewrite (full_layout_rl f ebs t H) in He.
  destruct (spec_point_layout_rl f ebs t) as [L|] eqn:EL; [|discriminate]. cbn [with_layout] in *.
  eapply dec_enc_point; [eapply spec_layout_rl_ok; eauto|exact He].
Qed.

Theorem laspy_reads_spec_rl f ebs t vals bs : 0 <= f <= 10 ->
  spec_enc_point_rl f ebs t vals = Ok bs -> gen_dec_point_rl f ebs t bs = Ok vals.
Proof.
  intros H He. unfold spec_enc_point_rl, gen_dec_point_rl in *. rewrite (full_layout_rl f ebs t H).
  destruct (spec_point_layout_rl f ebs t) as [L|] eqn:EL; [|discriminate]. cbn [with_layout] in *.
  eapply dec_enc_point; [eapply spec_layout_rl_ok; eauto|exact He].
Qed.

(* ---- legacy counts of a 1.4 header: laspy writes the constant 0 into bytes 107..130, which the rule allows for every
   point format and count ---- *)
Theorem legacy_counts :
  map snd (firstn 6 (skipn 15 (gen_hdr_write 4))) = repeat "zero"%string 6
  /\ map (fun x => fst (fst x)) (firstn 6 (skipn 15 (gen_hdr_write 4))) = repeat KUInt 6
  /\ layout_width (firstn 15 (gen_hdr_write 4)) = 107 /\ layout_width (firstn 21 (gen_hdr_write 4)) = 131
  /\ (forall fmt count, spec_legacy_ok fmt count 0 = true)
  /\ (forall fmt count legacy, spec_legacy_ok fmt count legacy = true -> 6 <= fmt -> legacy = 0).
Proof.
  split; [vm_compute; reflexivity|]. split; [vm_compute; reflexivity|].
  split; [vm_compute; reflexivity|]. split; [vm_compute; reflexivity|]. split.
  - intros fmt count. unfold spec_legacy_ok. rewrite Z.eqb_refl. reflexivity.
  - intros fmt count legacy Hl Hf. unfold spec_legacy_ok in Hl.
    apply orb_true_iff in Hl as [Hl|Hl]; [lia|].
    apply andb_true_iff in Hl as [Hl _]. apply andb_true_iff in Hl as [Hl _]. lia.
Qed.

(* ------------------------------------------------------------------------------------------ *)
(* payloads of the other records the specification lays out                                      *)
(* ------------------------------------------------------------------------------------------ *)
Theorem known_payloads_spec :
  gen_known_payload "lookup" = Some spec_lookup_record
  /\ gen_known_payload "waveform" = Some spec_waveform_descriptor
  /\ gen_known_payload "geokeys_header" = Some spec_geokeys_header
  /\ gen_known_payload "geokey" = Some spec_geokey_entry
  /\ layout_width spec_lookup_record = 16 /\ spec_lookup_table_records * layout_width spec_lookup_record = spec_lookup_table_size
  /\ layout_width spec_waveform_descriptor = 26 /\ layout_width spec_geokeys_header = 8 /\ layout_width spec_geokey_entry = 8.
Proof. vm_compute. repeat split; reflexivity. Qed.

Lemma gen_known_is_spec name L : gen_known_payload name = Some L -> spec_known_payload name = Some L.
Proof.
  destruct known_payloads_spec as (H1 & H2 & H3 & H4 & _).
  unfold gen_known_payload, spec_known_payload.
  destruct (String.eqb name "lookup"); [now rewrite <- H1|].
  destruct (String.eqb name "waveform"); [now rewrite <- H2|].
  destruct (String.eqb name "geokeys_header"); [now rewrite <- H3|].
  destruct (String.eqb name "geokey"); [now rewrite <- H4|discriminate].
Qed.

(* what laspy's structure writes, the specification's decoder reads (and the encoders agree) *)
Theorem known_payload_round_trip name L vals bs : gen_known_payload name = Some L ->
  wf_fields L vals = true -> enc_fields L vals = Ok bs ->
  spec_dec_known name bs = Ok (combine (spec_known_names name) vals, []) /\ spec_enc_known name vals = Ok bs.
Proof.
  intros HL Hwf He. apply gen_known_is_spec in HL.
  destruct (dec_enc_fields _ vals bs [] Hwf He) as [Hd Hl]. rewrite app_nil_r in Hd.
  unfold spec_dec_known, spec_enc_known, spec_known_names. rewrite HL.
  rewrite Hl, Z.eqb_refl. now rewrite Hd.
Qed.

(* the classification lookup table: a table whose class numbers are distinct bytes and whose descriptions are at most 15
   non-NUL bytes -- blank ones included -- is read back, record for record, from the bytes it is written as *)
Fixpoint lookup_wf (seen : list Z) (t : lookup_table) : bool :=
  match t with
  | [] => true
  | (c, d) :: r => negb (existsb (Z.eqb c) seen) && byte_ok c && Nat.leb (length d) 15 && no_nul d && lookup_wf (c :: seen) r
  end.

Lemma dict_set_fresh t : forall k v, existsb (Z.eqb k) (map fst t) = false -> dict_set t k v = t ++ [(k, v)].
Proof.
  induction t as [|[k' v'] t IH]; intros k v H; [reflexivity|].
  cbn [map fst existsb] in H. apply orb_false_iff in H as [Hk Ht].
  cbn [dict_set]. rewrite Z.eqb_sym, Hk. cbn [app]. now rewrite IH.
Qed.

Lemma skipn_exact {A} (l r : list A) n : length l = n -> skipn n (l ++ r) = r.
Proof. intros <-. rewrite skipn_app, skipn_all, Nat.sub_diag. reflexivity. Qed.
Lemma firstn_exact {A} (l r : list A) n : length l = n -> firstn n (l ++ r) = l.
Proof. intros <-. rewrite firstn_app, firstn_all, Nat.sub_diag. cbn [firstn]. apply app_nil_r. Qed.

Lemma lookup_record_shape c d rest : no_nul d = true -> (length d <= 15)%nat ->
  skipn 16 ((c :: null_pad d 15 false) ++ rest) = rest
  /\ cut_nul (firstn 15 (skipn 1 ((c :: null_pad d 15 false) ++ rest))) = d
  /\ (16 <= length ((c :: null_pad d 15 false) ++ rest))%nat.
Proof.
  intros Hn Hl.
  assert (length (null_pad d 15 false) = 15%nat) as HL by (apply null_pad_length; now right).
  repeat split.
  - apply skipn_exact. cbn [length]. now rewrite HL.
  - change (skipn 1 ((c :: null_pad d 15 false) ++ rest)) with (null_pad d 15 false ++ rest).
    rewrite (firstn_exact _ _ _ HL).
    rewrite null_pad_exact by assumption. now destruct (cut_nul_app_zeros d (15 - length d) [] Hn) as [_ ->].
  - cbn [app length]. rewrite app_length, HL. lia.
Qed.

Lemma lookup_parse_bytes t : forall fuel acc seen,
  lookup_wf seen t = true -> (forall k, In k (map fst acc) -> existsb (Z.eqb k) seen = true) ->
  (length (lookup_bytes t) < fuel)%nat ->
  lookup_parse_from fuel (lookup_bytes t) acc = Some (acc ++ t).
Proof.
  induction t as [|[c d] t IH]; intros fuel acc seen Hwf Hacc Hf.
  - cbn. destruct fuel; now rewrite app_nil_r.
  - cbn [lookup_wf] in Hwf. repeat (apply andb_true_iff in Hwf as [Hwf ?]).
    apply negb_true_iff in Hwf. apply Nat.leb_le in H1.
    change (lookup_bytes ((c, d) :: t)) with ((c :: null_pad d 15 false) ++ lookup_bytes t) in *.
    destruct (lookup_record_shape c d (lookup_bytes t) H0 H1) as (Hs & Hc & Hlen).
    destruct fuel as [|fuel]; [lia|].
    remember ((c :: null_pad d 15 false) ++ lookup_bytes t) as bs eqn:Ebs.
    destruct bs as [|b bs']; [discriminate|]. assert (b = c) as -> by (cbn in Ebs; now injection Ebs).
    cbn [lookup_parse_from]. destruct (Nat.ltb (length (c :: bs')) 16) eqn:El; [apply Nat.ltb_lt in El; lia|].
    rewrite Hs, Hc. rewrite dict_set_fresh.
    + rewrite (IH fuel (acc ++ [(c, d)]) (c :: seen)); [now rewrite <- app_assoc|assumption| |].
      * intros k Hk. rewrite map_app in Hk. apply in_app_or in Hk as [Hk|Hk]; cbn [existsb].
        -- rewrite (Hacc k Hk). apply orb_true_r.
        -- cbn in Hk. destruct Hk as [<-|[]]. now rewrite Z.eqb_refl.
      * assert (length (c :: bs') = 16 + length (lookup_bytes t))%nat.
        { rewrite Ebs. cbn [app length]. rewrite app_length. f_equal.
          assert (length (null_pad d 15 false) = 15%nat) as -> by (apply null_pad_length; now right). reflexivity. }
        lia.
    + destruct (existsb (Z.eqb c) (map fst acc)) eqn:E; [|reflexivity].
      apply existsb_exists in E as (k & Hk & Hkc). apply Z.eqb_eq in Hkc. subst k.
      now rewrite (Hacc c Hk) in Hwf.
Qed.

Theorem lookup_table_round_trip t : lookup_wf [] t = true ->
  lookup_parse (lookup_bytes t) = Some t /\ len (lookup_bytes t) = 16 * len t.
Proof.
  intros Hwf. split.
  - unfold lookup_parse. now rewrite (lookup_parse_bytes t _ [] [] Hwf) by (cbn; intuition lia).
  - clear Hwf. induction t as [|[c d] t IH]; [reflexivity|].
    change (lookup_bytes ((c, d) :: t)) with ((c :: null_pad d 15 false) ++ lookup_bytes t).
    unfold len in *. cbn [app length]. rewrite app_length.
    assert (length (null_pad d 15 false) = 15%nat) as -> by (apply null_pad_length; now right). lia.
Qed.
