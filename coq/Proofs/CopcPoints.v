(* C15 — from nodes to points: sorting by offset, the integer box filter, points inside the box are all returned,
   enclosing boxes of any size, resolution -> levels, broken page references. *)
From Coq Require Import String.
From Coq Require Import ZArith List Bool Lia ZifyBool Arith Permutation.
From LasV Require Import Lib.Base Gen.GenCopc Model.Copc Proofs.CopcKeys Proofs.CopcDict Proofs.CopcTerm Proofs.CopcNodes.
Import ListNotations.
Open Scope list_scope.
Open Scope Z_scope.

(* ---------- lists ---------- *)
Lemma ins_off_perm : forall n l, Permutation (ins_off n l) (n :: l).
Proof.
  intros n l. induction l as [|m r IH]; cbn [ins_off]; [apply Permutation_refl|].
  destruct (e_off n <=? e_off m); [apply Permutation_refl|].
  eapply Permutation_trans; [apply perm_skip; exact IH | apply perm_swap].
Qed.

Lemma sort_off_perm : forall l, Permutation (sort_off l) l.
Proof.
  induction l as [|x xs IH]; cbn [sort_off fold_right]; [apply Permutation_refl|].
  eapply Permutation_trans; [apply ins_off_perm | apply perm_skip; exact IH].
Qed.

Lemma Permutation_filter' : forall {A} (f : A -> bool) l l', Permutation l l' -> Permutation (filter f l) (filter f l').
Proof.
  intros A f l l' H. induction H as [|x l l' H IH|x y l|l l' l'' H1 IH1 H2 IH2]; cbn [filter].
  - apply Permutation_refl.
  - destruct (f x); [apply perm_skip|]; exact IH.
  - destruct (f x), (f y); try apply Permutation_refl. apply perm_swap.
  - eapply Permutation_trans; eassumption.
Qed.

Lemma filter_all : forall {A} (f : A -> bool) l, (forall x, In x l -> f x = true) -> filter f l = l.
Proof.
  intros A f l. induction l as [|x xs IH]; intros H; cbn [filter]; [reflexivity|].
  rewrite (H x) by (simpl; auto). f_equal. apply IH. intros; apply H; simpl; auto.
Qed.

Lemma filter_filter_imp : forall {A} (f g : A -> bool) l, (forall x, In x l -> f x = true -> g x = true) ->
  filter f (filter g l) = filter f l.
Proof.
  intros A f g l. induction l as [|x xs IH]; intros H; cbn [filter]; [reflexivity|].
  assert (IH' : filter f (filter g xs) = filter f xs) by (apply IH; intros; apply H; simpl; auto).
  destruct (g x) eqn:Eg; cbn [filter].
  - destruct (f x); rewrite IH'; reflexivity.
  - destruct (f x) eqn:Ef; [|exact IH']. rewrite (H x) in Eg by (simpl; auto). discriminate.
Qed.

Lemma filter_flat_map_prune : forall {A B} (f : B -> bool) (pts : A -> list B) (P : A -> bool) l,
  (forall a, In a l -> P a = false -> forall p, In p (pts a) -> f p = false) ->
  filter f (flat_map pts (filter P l)) = filter f (flat_map pts l).
Proof.
  intros A B f pts P l. induction l as [|a l IH]; intros H; cbn [filter flat_map]; [reflexivity|].
  assert (IH' : filter f (flat_map pts (filter P l)) = filter f (flat_map pts l)) by (apply IH; intros; eapply H; simpl; eauto).
  destruct (P a) eqn:EP; cbn [flat_map]; rewrite !filter_app, IH'; [reflexivity|].
  assert (Hn : filter f (pts a) = []).
  { assert (Hall : forall p, In p (pts a) -> f p = false) by (apply H; simpl; auto).
    induction (pts a) as [|p ps IHp]; [reflexivity|]. cbn [filter]. rewrite (Hall p) by (simpl; auto).
    apply IHp. intros; apply Hall; simpl; auto. }
  rewrite Hn. reflexivity.
Qed.

Lemma partition_perm : forall {A} (P : A -> bool) l, Permutation (filter P l ++ filter (fun x => negb (P x)) l) l.
Proof.
  intros A P l. induction l as [|x xs IH]; cbn [filter]; [apply Permutation_refl|].
  destruct (P x); cbn [negb app].
  - apply perm_skip. exact IH.
  - eapply Permutation_trans; [apply Permutation_sym; apply Permutation_middle|]. apply perm_skip. exact IH.
Qed.

(* ---------- query = filter of the points of the target nodes ---------- *)
Lemma query_points : forall t g qb hz0 hz1 q lv pts fuel,
  wf_tree t -> 0 <= g_side g -> (fuel_bound t <= fuel)%nat ->
  exists ps, query fuel t g qb hz0 hz1 q lv pts = Ok ps /\
    Permutation ps (result_of qb q (flat_map pts (target t g (ensure_3d qb hz0 hz1) (level_range lv)))).
Proof.
  intros t g qb hz0 hz1 q lv pts fuel WF Hs Hf.
  destruct (load_octree_nodes t g (ensure_3d qb hz0 hz1) (level_range lv) WF Hs fuel Hf) as [ns [Hns Hp]].
  unfold query. rewrite Hns.
  assert (Hfetch : Permutation (fetch pts ns) (flat_map pts (target t g (ensure_3d qb hz0 hz1) (level_range lv)))).
  { unfold fetch. rewrite <- flat_map_concat_map. apply Permutation_flat_map.
    eapply Permutation_trans; [apply sort_off_perm | exact Hp]. }
  eexists. split; [reflexivity|]. unfold result_of. destruct qb; [exact Hfetch | |]; apply Permutation_filter'; exact Hfetch.
Qed.

(* ---------- rint, clip ---------- *)
Lemma rint_cases : forall n d, 0 < d ->
  let f := n / d in let r := n mod d in
  n = d * f + r /\ 0 <= r < d /\
  ((rint n d = f /\ 2 * r <= d) \/ (rint n d = f + 1 /\ d <= 2 * r)).
Proof.
  intros n d Hd f r. pose proof (Z.div_mod n d ltac:(lia)) as Hdm. pose proof (Z.mod_pos_bound n d Hd) as Hr.
  fold f r in Hdm, Hr. split; [exact Hdm|]. split; [exact Hr|].
  unfold rint. fold f r. destruct (2 * r <? d) eqn:E1; [left; split; [reflexivity | lia]|].
  destruct (d <? 2 * r) eqn:E2; [right; split; [reflexivity | lia]|].
  destruct (Z.even f); [left | right]; split; try reflexivity; lia.
Qed.

Lemma rint_le : forall n d X, 0 < d -> n <= X * d -> rint n d <= X.
Proof.
  intros n d X Hd H. destruct (rint_cases n d Hd) as [Hn [Hr [[-> H2] | [-> H2]]]].
  - assert (n / d <= X); [|lia]. apply Z.div_le_upper_bound; lia.
  - set (f := n / d) in *. set (r := n mod d) in *.
    destruct (Z_lt_le_dec f X) as [Hlt | Hge]; [lia|]. exfalso.
    assert (d * X <= d * f) by (apply Z.mul_le_mono_nonneg_l; lia). lia.
Qed.

Lemma rint_ge : forall n d X, 0 < d -> X * d <= n -> X <= rint n d.
Proof.
  intros n d X Hd H. destruct (rint_cases n d Hd) as [Hn [Hr [[-> H2] | [-> H2]]]];
    set (f := n / d) in *; set (r := n mod d) in *.
  - destruct (Z_le_gt_dec X f) as [Hle | Hgt]; [lia|]. exfalso.
    assert (d * (f + 1) <= d * X) by (apply Z.mul_le_mono_nonneg_l; lia). lia.
  - destruct (Z_le_gt_dec X f) as [Hle | Hgt]; [lia|]. exfalso.
    assert (d * (f + 1) <= d * X) by (apply Z.mul_le_mono_nonneg_l; lia). lia.
Qed.

(* |rint q - q| <= 1/2 *)
Lemma rint_close : forall n d, 0 < d -> 2 * n - d <= 2 * (rint n d * d) <= 2 * n + d.
Proof.
  intros n d Hd. destruct (rint_cases n d Hd) as [Hn [Hr [[-> H2] | [-> H2]]]];
    set (f := n / d) in *; set (r := n mod d) in *; lia.
Qed.

Lemma grid_lo : forall q X, 0 < snd q -> fst q <= X * snd q -> gen_i32_min <= X -> grid q <= X.
Proof.
  intros [n d] X Hd H Hx. unfold grid, clip32. cbn [fst snd] in *. pose proof (rint_le n d X Hd H).
  unfold gen_clip_lo, gen_clip_hi, gen_i32_min, gen_i32_max in *. lia.
Qed.

Lemma grid_hi : forall q X, 0 < snd q -> X * snd q <= fst q -> X <= gen_i32_max -> X <= grid q.
Proof.
  intros [n d] X Hd H Hx. unfold grid, clip32. cbn [fst snd] in *. pose proof (rint_ge n d X Hd H).
  unfold gen_clip_lo, gen_clip_hi, gen_i32_min, gen_i32_max in *. lia.
Qed.

(* ---------- a point really inside the box passes the integer filter ---------- *)
Lemma keep1_inside : forall D a X b0 b1, 0 < D -> axis_ok a -> gen_i32_min <= X <= gen_i32_max ->
  in_range1 D a X b0 b1 = true ->
  gen_keep1 (grid (exact_q D (a_sn a) (a_sd a) (a_off a) b0)) (grid (exact_q D (a_sn a) (a_sd a) (a_off a) b1)) X = true.
Proof.
  intros D a X b0 b1 HD [Hsn Hsd] Hx H. unfold in_range1, rnum in H. apply andb_prop in H. destruct H as [H0 H1].
  unfold gen_keep1. apply andb_true_intro.
  assert (Hd : 0 < D * a_sn a) by (apply Z.mul_pos_pos; assumption).
  split; apply Z.leb_le.
  - apply grid_lo; unfold exact_q; cbn [fst snd]; [exact Hd | lia | lia].
  - apply grid_hi; unfold exact_q; cbn [fst snd]; [exact Hd | lia | lia].
Qed.

Lemma keep_inside : forall c b p, csys_ok c -> pt_i32 p -> inside c b p = true -> keep (exact_grid c b) p = true.
Proof.
  intros c b p [HD [Hx [Hy Hz]]] [Px [Py Pz]] H. unfold inside in H.
  apply andb_prop in H. destruct H as [H H3]. apply andb_prop in H. destruct H as [H1 H2].
  unfold keep, exact_grid. cbn [q_x0 q_x1 q_y0 q_y1 q_z0 q_z1].
  rewrite (keep1_inside _ _ _ _ _ HD Hx Px H1), (keep1_inside _ _ _ _ _ HD Hy Py H2), (keep1_inside _ _ _ _ _ HD Hz Pz H3).
  reflexivity.
Qed.

(* a kept coordinate is at most half a step outside, when the grid bounds are not saturated *)
Lemma keep1_half_step : forall q0 q1 X, 0 < snd q0 -> 0 < snd q1 ->
  gen_i32_min <= rint (fst q0) (snd q0) <= gen_i32_max -> gen_i32_min <= rint (fst q1) (snd q1) <= gen_i32_max ->
  gen_keep1 (grid q0) (grid q1) X = true ->
  2 * fst q0 - snd q0 <= 2 * (X * snd q0) /\ 2 * (X * snd q1) <= 2 * fst q1 + snd q1.
Proof.
  intros [n0 d0] [n1 d1] X H0 H1 S0 S1 H. cbn [fst snd] in *. unfold gen_keep1, grid, clip32 in H. cbn [fst snd] in H.
  pose proof (rint_close n0 d0 H0) as C0. pose proof (rint_close n1 d1 H1) as C1.
  apply andb_prop in H. destruct H as [Ha Hb].
  assert (Ha' : rint n0 d0 <= X) by (unfold gen_clip_lo, gen_clip_hi, gen_i32_min, gen_i32_max in *; lia).
  assert (Hb' : X <= rint n1 d1) by (unfold gen_clip_lo, gen_clip_hi, gen_i32_min, gen_i32_max in *; lia).
  assert (rint n0 d0 * d0 <= X * d0) by (apply Z.mul_le_mono_nonneg_r; lia).
  assert (X * d1 <= rint n1 d1 * d1) by (apply Z.mul_le_mono_nonneg_r; lia).
  lia.
Qed.

(* the clip bounds lie OUTSIDE the int32 grid: for an int32 coordinate the integer filter is exactly
   rint q0 <= X <= rint q1, however far the bounds are *)
Lemma keep1_exact : forall q0 q1 X, gen_i32_min <= X <= gen_i32_max ->
  (gen_keep1 (grid q0) (grid q1) X = true <-> rint (fst q0) (snd q0) <= X <= rint (fst q1) (snd q1)).
Proof.
  intros [n0 d0] [n1 d1] X HX. unfold gen_keep1, grid, clip32. cbn [fst snd].
  unfold gen_clip_lo, gen_clip_hi, gen_i32_min, gen_i32_max in *. lia.
Qed.

Lemma keep1_half_step_all : forall q0 q1 X, 0 < snd q0 -> 0 < snd q1 -> gen_i32_min <= X <= gen_i32_max ->
  gen_keep1 (grid q0) (grid q1) X = true ->
  2 * fst q0 - snd q0 <= 2 * (X * snd q0) /\ 2 * (X * snd q1) <= 2 * fst q1 + snd q1.
Proof.
  intros q0 q1 X H0 H1 HX H. apply (keep1_exact q0 q1 X HX) in H. destruct H as [Ha Hb].
  destruct q0 as [n0 d0]. destruct q1 as [n1 d1]. cbn [fst snd] in *.
  pose proof (rint_close n0 d0 H0) as C0. pose proof (rint_close n1 d1 H1) as C1.
  assert (rint n0 d0 * d0 <= X * d0) by (apply Z.mul_le_mono_nonneg_r; lia).
  assert (X * d1 <= rint n1 d1 * d1) by (apply Z.mul_le_mono_nonneg_r; lia).
  lia.
Qed.

(* ---------- a node that holds a point really inside the box is not pruned ---------- *)
Lemma mul_le_cancel_r : forall a b c, 0 < c -> a * c <= b * c -> a <= b.
Proof. intros a b c Hc H. apply Z.mul_le_mono_pos_r in H; assumption. Qed.

Lemma ov1_of_point : forall D a rlo side l x X b0 b1, 0 < a_sd a -> 0 <= l ->
  in_cube1 D a rlo side l x X -> in_range1 D a X b0 b1 = true -> ov1 rlo side l x b0 b1 = true.
Proof.
  intros D a rlo side l x X b0 b1 Hsd Hl [C0 C1] H. unfold in_range1 in H. apply andb_prop in H. destruct H as [R0 R1].
  apply Z.leb_le in R0. apply Z.leb_le in R1.
  unfold ov1, gen_overlap, gen_bounds_den, gen_bounds_lo, gen_bounds_hi.
  assert (HP : 0 < 2 ^ l) by (apply Z.pow_pos_nonneg; lia).
  set (P := 2 ^ l) in *. set (R := rnum D a X) in *. set (sd := a_sd a) in *.
  apply andb_true_intro. split.
  - apply Z.leb_le. apply (mul_le_cancel_r _ _ sd Hsd).
    assert (R * P <= b1 * sd * P) by (apply Z.mul_le_mono_nonneg_r; lia). lia.
  - apply Z.geb_le. apply (mul_le_cancel_r _ _ sd Hsd).
    assert (b0 * sd * P <= R * P) by (apply Z.mul_le_mono_nonneg_r; lia). lia.
Qed.

Lemma overlaps_of_point : forall c g k b p, csys_ok c -> 0 <= kl k ->
  in_cube c g k p -> inside c b p = true -> overlaps g k b = true.
Proof.
  intros c g k b p [HD [[_ Hx] [[_ Hy] [_ Hz]]]] Hl [Cx [Cy Cz]] H. unfold inside in H.
  apply andb_prop in H. destruct H as [H H3]. apply andb_prop in H. destruct H as [H1 H2].
  unfold overlaps.
  rewrite (ov1_of_point _ _ _ _ _ _ _ _ _ Hx Hl Cx H1), (ov1_of_point _ _ _ _ _ _ _ _ _ Hy Hl Cy H2),
          (ov1_of_point _ _ _ _ _ _ _ _ _ Hz Hl Cz H3). reflexivity.
Qed.

(* ---------- keys of a well-formed tree are inside the root cube ---------- *)
Definition key_valid (k : vkey) : Prop :=
  0 <= kl k /\ 0 <= kx k < 2 ^ kl k /\ 0 <= ky k < 2 ^ kl k /\ 0 <= kz k < 2 ^ kl k.

Lemma half_range : forall x l, 0 <= l -> 0 <= x / 2 < 2 ^ l -> 0 <= x < 2 ^ (l + 1).
Proof.
  intros x l Hl H. rewrite Z.pow_add_r by lia. change (2 ^ 1) with 2.
  pose proof (Z.div_mod x 2 ltac:(lia)). pose proof (Z.mod_pos_bound x 2 ltac:(lia)). lia.
Qed.

Lemma key_valid_nodes : forall t, wf_tree t -> forall j e, In e (nodes_of t) -> kl (e_key e) = Z.of_nat j -> key_valid (e_key e).
Proof.
  intros t WF. induction j as [|j IH]; intros e He Hl.
  - rewrite (wf_root t WF e He Hl). unfold key_valid, root_key. cbn [kl kx ky kz]. change (2 ^ 0) with 1. lia.
  - destruct (wf_parent t WF e He ltac:(lia)) as [ep [Hep Ek]].
    assert (Hlp : kl (e_key ep) = Z.of_nat j) by (rewrite Ek; unfold parent; cbn [kl]; lia).
    destruct (IH ep Hep Hlp) as [V0 [Vx [Vy Vz]]]. rewrite Ek in V0, Vx, Vy, Vz. unfold parent in V0, Vx, Vy, Vz.
    cbn [kl kx ky kz] in V0, Vx, Vy, Vz. unfold key_valid.
    replace (kl (e_key e)) with (kl (e_key e) - 1 + 1) by lia.
    split; [lia|]. split; [|split]; apply half_range; assumption.
Qed.

Lemma key_valid_node : forall t e, wf_tree t -> In e (nodes_of t) -> key_valid (e_key e).
Proof.
  intros t e WF He. apply (key_valid_nodes t WF (Z.to_nat (kl (e_key e))) e He).
  pose proof (wf_level t WF e He). lia.
Qed.

(* a point in a valid cube is in every box that contains the root cube *)
Lemma range_of_cube : forall D a rlo side l x X b0 b1, 0 < a_sd a -> 0 <= side -> 0 <= l -> 0 <= x < 2 ^ l ->
  b0 <= rlo -> rlo + side <= b1 -> in_cube1 D a rlo side l x X -> in_range1 D a X b0 b1 = true.
Proof.
  intros D a rlo side l x X b0 b1 Hsd Hs Hl Hx B0 B1 [C0 C1]. unfold in_range1.
  assert (HP : 0 < 2 ^ l) by (apply Z.pow_pos_nonneg; lia).
  set (P := 2 ^ l) in *. set (R := rnum D a X) in *. set (sd := a_sd a) in *.
  assert (X0 : 0 <= x * side) by (apply Z.mul_nonneg_nonneg; lia).
  assert (X1 : (x + 1) * side <= P * side) by (apply Z.mul_le_mono_nonneg_r; lia).
  assert (E0 : (rlo * P) * sd <= (rlo * P + x * side) * sd) by (apply Z.mul_le_mono_nonneg_r; lia).
  assert (E1 : (rlo * P + (x + 1) * side) * sd <= (rlo * P + P * side) * sd) by (apply Z.mul_le_mono_nonneg_r; lia).
  assert (F0 : b0 * sd <= rlo * sd) by (apply Z.mul_le_mono_nonneg_r; lia).
  assert (F1 : (rlo + side) * sd <= b1 * sd) by (apply Z.mul_le_mono_nonneg_r; lia).
  apply andb_true_intro. split; apply Z.leb_le.
  - assert (rlo * sd <= R); [|lia]. apply (mul_le_cancel_r _ _ P HP). lia.
  - assert (R <= (rlo + side) * sd); [|lia]. apply (mul_le_cancel_r _ _ P HP). lia.
Qed.

Section Points.
Variable t : tree.
Variable g : geom.
Variable c : csys.
Variable pts : entry -> list pt.
Variables hz0 hz1 : Z.
Hypothesis WF : wf_tree t.
Hypothesis side_ok : 0 <= g_side g.
Hypothesis C_ok : csys_ok c.
Hypothesis P_ok : pts_ok t c g hz0 hz1 pts.

Lemma in_level_points : forall lv p, In p (level_points t lv pts) ->
  exists e, In e (nodes_of t) /\ sel_level lv e = true /\ In p (pts e).
Proof.
  intros lv p H. unfold level_points in H. apply in_flat_map in H. destruct H as [e [He Hp]].
  apply filter_In in He. exists e. tauto.
Qed.

(* points really inside the box: exactly those of the selected levels *)
Lemma inside_complete : forall b lv,
  filter (inside c b) (flat_map pts (target t g (Some b) lv)) = filter (inside c b) (level_points t lv pts).
Proof.
  intros b lv. unfold target, level_points. apply filter_flat_map_prune.
  intros e He Hsel p Hp. apply filter_In in He. destruct He as [He _].
  destruct (inside c b p) eqn:Ei; [|reflexivity]. exfalso.
  destruct (P_ok e p He Hp) as [Hc _]. unfold sel_box, in_bounds in Hsel.
  rewrite (overlaps_of_point c g (e_key e) b p C_ok (wf_level t WF e He) Hc Ei) in Hsel. discriminate.
Qed.

Theorem query_inside : forall qb b lv fuel, ensure_3d qb hz0 hz1 = Some b -> (fuel_bound t <= fuel)%nat ->
  exists ps, query fuel t g qb hz0 hz1 (exact_grid c b) lv pts = Ok ps /\
    Permutation (filter (inside c b) ps) (filter (inside c b) (level_points t (level_range lv) pts)).
Proof.
  intros qb b lv fuel Hb Hf.
  destruct (query_points t g qb hz0 hz1 (exact_grid c b) lv pts fuel WF side_ok Hf) as [ps [Hq Hp]].
  exists ps. split; [exact Hq|]. rewrite Hb in Hp.
  eapply Permutation_trans; [apply Permutation_filter'; exact Hp|].
  assert (Hr : result_of qb (exact_grid c b) (flat_map pts (target t g (Some b) (level_range lv)))
               = filter (keep (exact_grid c b)) (flat_map pts (target t g (Some b) (level_range lv)))).
  { destruct qb; [discriminate | reflexivity | reflexivity]. }
  rewrite Hr, filter_filter_imp; [rewrite inside_complete; apply Permutation_refl|].
  intros p Hp' Hi. apply keep_inside; [exact C_ok | | exact Hi].
  apply in_flat_map in Hp'. destruct Hp' as [e [He Hpe]]. unfold target in He.
  apply filter_In in He. destruct He as [He _]. apply filter_In in He. destruct He as [He _].
  apply (P_ok e p He Hpe).
Qed.

(* nothing else than points of the selected levels that pass the integer filter *)
Theorem query_upper : forall qb lv q fuel, (fuel_bound t <= fuel)%nat ->
  exists ps rest, query fuel t g qb hz0 hz1 q lv pts = Ok ps /\
    Permutation (ps ++ rest) (result_of qb q (level_points t (level_range lv) pts)).
Proof.
  intros qb lv q fuel Hf.
  destruct (query_points t g qb hz0 hz1 q lv pts fuel WF side_ok Hf) as [ps [Hq Hp]].
  set (ob := ensure_3d qb hz0 hz1) in *. set (l := level_range lv) in *.
  set (lvn := filter (sel_level l) (nodes_of t)).
  exists ps, (result_of qb q (flat_map pts (filter (fun e => negb (sel_box g ob e)) lvn))).
  split; [exact Hq|].
  assert (Hall : Permutation (flat_map pts (target t g ob l) ++ flat_map pts (filter (fun e => negb (sel_box g ob e)) lvn))
                             (level_points t l pts)).
  { unfold target, level_points. fold lvn. rewrite <- flat_map_app. apply Permutation_flat_map. apply partition_perm. }
  eapply Permutation_trans; [apply Permutation_app_tail; exact Hp|].
  unfold result_of. destruct qb; [exact Hall | |]; rewrite <- filter_app; apply Permutation_filter'; exact Hall.
Qed.

(* a box that contains the root cube, however large: everything of the selected levels *)
Lemma enclosed_inside : forall qb b e p, encloses g qb -> ensure_3d qb hz0 hz1 = Some b ->
  In e (nodes_of t) -> In p (pts e) -> inside c b p = true.
Proof.
  intros qb b e p He Hb Hin Hp. destruct (P_ok e p Hin Hp) as [[Cx [Cy Cz]] [_ Hz]].
  destruct (key_valid_node t e WF Hin) as [Vl [Vx [Vy Vz]]].
  destruct C_ok as [HD [[_ Sx] [[_ Sy] [_ Sz]]]].
  unfold inside. destruct qb as [|x0 y0 x1 y1|x0 y0 z0 x1 y1 z1]; cbn [ensure_3d] in Hb; [discriminate| |];
    injection Hb as <-; cbn [b_x0 b_x1 b_y0 b_y1 b_z0 b_z1]; cbn [encloses] in He.
  - destruct He as [E1 [E2 [E3 E4]]].
    rewrite (range_of_cube _ _ _ _ _ _ _ _ _ Sx side_ok Vl Vx E1 E2 Cx),
            (range_of_cube _ _ _ _ _ _ _ _ _ Sy side_ok Vl Vy E3 E4 Cy), Hz. reflexivity.
  - destruct He as [E1 [E2 [E3 [E4 [E5 E6]]]]].
    rewrite (range_of_cube _ _ _ _ _ _ _ _ _ Sx side_ok Vl Vx E1 E2 Cx),
            (range_of_cube _ _ _ _ _ _ _ _ _ Sy side_ok Vl Vy E3 E4 Cy),
            (range_of_cube _ _ _ _ _ _ _ _ _ Sz side_ok Vl Vz E5 E6 Cz). reflexivity.
Qed.

Theorem query_enclosing : forall qb lv q fuel, encloses g qb ->
  (forall b, ensure_3d qb hz0 hz1 = Some b -> q = exact_grid c b) -> (fuel_bound t <= fuel)%nat ->
  exists ps, query fuel t g qb hz0 hz1 q lv pts = Ok ps /\ Permutation ps (level_points t (level_range lv) pts).
Proof.
  intros qb lv q fuel He Hq Hf.
  destruct (ensure_3d qb hz0 hz1) as [b|] eqn:Eb.
  - rewrite (Hq b eq_refl).
    destruct (query_inside qb b lv fuel Eb Hf) as [ps [Hps Hp]].
    destruct (query_upper qb lv (exact_grid c b) fuel Hf) as [ps' [rest [Hps' Hu]]].
    rewrite Hps in Hps'. injection Hps' as <-.
    exists ps. split; [exact Hps|].
    assert (HLP : forall p, In p (level_points t (level_range lv) pts) -> inside c b p = true).
    { intros p Hp'. apply in_level_points in Hp'. destruct Hp' as [e [Hin [_ Hpe]]].
      eapply enclosed_inside; eauto. }
    rewrite (filter_all _ (level_points t (level_range lv) pts) HLP) in Hp.
    rewrite filter_all in Hp; [exact Hp|].
    intros p Hp'. apply HLP.
    assert (Hin : In p (ps ++ rest)) by (apply in_or_app; left; exact Hp').
    apply (Permutation_in _ Hu) in Hin. unfold result_of in Hin.
    destruct qb; [exact Hin | |]; apply filter_In in Hin; apply Hin.
  - destruct qb; try discriminate.
    destruct (query_points t g NoBox hz0 hz1 q lv pts fuel WF side_ok Hf) as [ps [Hps Hp]].
    exists ps. split; [exact Hps|]. cbn [result_of ensure_3d] in Hp.
    unfold target in Hp. rewrite (filter_all (sel_box g None)) in Hp by reflexivity. exact Hp.
Qed.

End Points.
