From Coq Require Import String.
From Coq Require Import ZArith List Bool Lia ZifyBool.
From LasV Require Import Lib.Base Lib.BaseFacts Lib.Layout Proofs.LayoutProofs Gen.GenHeaderLayout Gen.GenFormatBits Gen.GenDims
  Model.Las Model.LasSpec Proofs.HeaderLen Proofs.VlrProofs Proofs.HeaderProofs Proofs.WriterProofs.
Import ListNotations.
Open Scope list_scope.
Open Scope Z_scope.

(* Write / read round trip (C01), file length (C03), truncation safety (C19) — task R. *)

(* ------------------------------------------------------------------------------------ *)
(* the decoder, split into the part that does not look at EVLRs and the EVLR part        *)
(* ------------------------------------------------------------------------------------ *)
Definition hdr_stream (src : list Z) : list Z :=
  let off0 := le_dec (firstn 4 (skipn 96 (firstn 227 src))) in
  if off0 <? 227 then src else firstn (Z.to_nat off0) src.
Definition hdr_minor (src : list Z) : Z := le_dec (firstn 1 (skipn 25 (hdr_stream src))).

Definition ev_part (mnr : Z) (a : assoc) (src : list Z) (read_evlrs : bool) : result (option (list vlr)) :=
  if mnr >=? 4 then
    if read_evlrs then
      if aint a "number_of_evlrs" >? 0 then
        do r <- dec_vlrs true (Z.to_nat (aint a "number_of_evlrs")) (skipn (Z.to_nat (aint a "start_of_first_evlr")) src);
        Ok (Some (fst r))
      else Ok (Some [])
    else Ok None
  else Ok None.

Lemma dec_header_shape src b :
  (exists e, dec_header src false = Err e /\ dec_header src b = Err e)
  \/ (exists rh, dec_header src false = Ok rh
        /\ rh_offset rh = aint (fst (dec_fields (fixed_part (hr_layout (hdr_minor src))) (hdr_stream src))) "offset_to_point_data"
        /\ (227 <= length src)%nat
        /\ dec_header src b = do ev <- ev_part (hdr_minor src) (rh_fields rh) src b;
                              Ok (mkRH (rh_fields rh) (rh_vlrs rh) ev (rh_fmt rh) (rh_compressed rh) (rh_psize rh) (rh_offset rh))).
Proof.
  unfold dec_header, hdr_minor, hdr_stream. cbv zeta.
  destruct (length (firstn 4 (firstn 227 src)) =? 0)%nat eqn:E1; [left; eexists; split; reflexivity|].
  destruct (negb (list_eqb (firstn 4 (firstn 227 src)) LASF)) eqn:E2; [left; eexists; split; reflexivity|].
  destruct (length (firstn 227 src) <? 227)%nat eqn:E3; [left; eexists; split; reflexivity|].
  assert (227 <= length src)%nat as Hlen.
  { apply Nat.ltb_ge in E3. rewrite firstn_length in E3. lia. }
  set (stream := if le_dec (firstn 4 (skipn 96 (firstn 227 src))) <? 227 then src
                 else firstn (Z.to_nat (le_dec (firstn 4 (skipn 96 (firstn 227 src))))) src).
  set (mnr := le_dec (firstn 1 (skipn 25 stream))).
  destruct (dec_fields (fixed_part (hr_layout mnr)) stream) as [a rest] eqn:Ed.
  cbn [fst].
  destruct (len stream - len rest >? aint a "header_size") eqn:E4; [left; eexists; split; reflexivity|].
  destruct (aint a "number_of_vlrs" >? MAX_VLRS) eqn:E5; [left; eexists; split; reflexivity|].
  destruct (dec_vlrs false (Z.to_nat (aint a "number_of_vlrs"))
              (skipn (Z.to_nat (aint a "header_size" - (len stream - len rest))) rest)) as [[vl rest3]|e] eqn:E6;
    [|left; eexists; split; reflexivity].
  cbn [bind].
  destruct (len stream - len rest3 >? aint a "offset_to_point_data") eqn:E7; [left; eexists; split; reflexivity|].
  destruct (std_size (compressed_id_to_uncompressed (aint a "point_format_id"))) as [std|] eqn:E8;
    [|left; eexists; split; reflexivity].
  match goal with |- context [match ?X with Some _ => _ | None => Err ELaspy end] =>
    destruct X as [fsz|] eqn:E9; [|left; eexists; split; reflexivity] end.
  destruct (aint a "point_size" <? fsz) eqn:E10; [left; eexists; split; reflexivity|].
  destruct (aint a "number_of_evlrs" >? MAX_VLRS) eqn:E11; [left; eexists; split; reflexivity|].
  right. eexists. split.
  - destruct (mnr >=? 4); cbn [bind]; reflexivity.
  - cbn [rh_fields rh_vlrs rh_fmt rh_compressed rh_psize rh_offset].
    split; [reflexivity|]. split; [exact Hlen|].
    unfold ev_part. rewrite !aint_aset_other by reflexivity.
    destruct (mnr >=? 4); reflexivity.
Qed.

(* the decoder with read_evlrs = true differs from read_evlrs = false only in the EVLR list *)
Lemma dec_header_evlrs : forall src rh, dec_header src false = Ok rh ->
  match dec_header src true with
  | Ok rh' => rh_fields rh' = rh_fields rh /\ rh_vlrs rh' = rh_vlrs rh /\ rh_fmt rh' = rh_fmt rh
              /\ rh_psize rh' = rh_psize rh /\ rh_offset rh' = rh_offset rh /\ rh_compressed rh' = rh_compressed rh
  | Err _ => True
  end.
Proof.
  intros src rh H. destruct (dec_header_shape src true) as [(e & H1 & H2)|(rh0 & H1 & _ & _ & H2)].
  - rewrite H2. exact I.
  - rewrite H in H1. injection H1 as <-. rewrite H2.
    destruct (ev_part (hdr_minor src) (rh_fields rh) src true) as [ev|e]; cbn [bind]; [|exact I].
    cbn [rh_fields rh_vlrs rh_fmt rh_compressed rh_psize rh_offset]. repeat split.
Qed.
Print Assumptions dec_header_evlrs.

Lemma dec_header_evlrs_conv : forall src rh', dec_header src true = Ok rh' -> exists rh, dec_header src false = Ok rh.
Proof.
  intros src rh' H. destruct (dec_header_shape src true) as [(e & H1 & H2)|(rh0 & H1 & _)].
  - rewrite H in H2. discriminate.
  - eauto.
Qed.
Print Assumptions dec_header_evlrs_conv.

(* ------------------------------------------------------------------------------------ *)
(* chunking whole records                                                                *)
(* ------------------------------------------------------------------------------------ *)
Lemma chunks_of_concat : forall ps recs, (0 < ps)%nat -> Forall (fun r => length r = ps) recs ->
  forall fuel, (length (concat recs) <= fuel)%nat -> chunks_of fuel ps (concat recs) = recs.
Proof.
  intros ps recs Hps. induction recs as [|r recs IH]; intros HF fuel Hfuel.
  - destruct fuel; reflexivity.
  - inversion HF as [|x xs Hr HF']; subst x xs.
    cbn [concat] in *. rewrite app_length in Hfuel.
    destruct fuel as [|k]; [lia|]. cbn [chunks_of].
    destruct (r ++ concat recs) as [|z zs] eqn:E.
    + apply (f_equal (@length Z)) in E. rewrite app_length in E. cbn [length] in E. lia.
    + rewrite <- E. rewrite (firstn_app_exact r (concat recs) ps Hr), (skipn_app_exact r (concat recs) ps Hr).
      f_equal. apply IH; [exact HF'|lia].
Qed.
Print Assumptions chunks_of_concat.

Lemma recs_ok_Forall ps recs : recs_ok ps recs = true -> Forall (fun r => length r = Z.to_nat ps) recs.
Proof.
  unfold recs_ok. intros H. apply Forall_forall. intros r Hin.
  rewrite forallb_forall in H. specialize (H r Hin). apply andb_true_iff in H as [H _].
  unfold len in H. lia.
Qed.

Lemma concat_length_const p (recs : list (list Z)) : Forall (fun r => length r = p) recs ->
  length (concat recs) = (length recs * p)%nat.
Proof.
  induction recs as [|r recs IH]; intros HF; [reflexivity|].
  inversion HF as [|x xs Hr HF']; subst x xs. cbn [concat length]. rewrite app_length, Hr, (IH HF'). lia.
Qed.

Lemma len_concat_recs ps recs : recs_ok ps recs = true -> len (concat recs) = len recs * ps.
Proof.
  unfold recs_ok. induction recs as [|r recs IH]; intros H; [reflexivity|].
  cbn [forallb] in H. apply andb_true_iff in H as [Hr Hrest]. apply andb_true_iff in Hr as [Hr _].
  cbn [concat]. rewrite len_app, (IH Hrest). unfold len in *. cbn [length]. lia.
Qed.

Lemma firstn_concat_const p (recs : list (list Z)) : Forall (fun r => length r = p) recs ->
  forall m, firstn (m * p) (concat recs) = concat (firstn m recs).
Proof.
  induction recs as [|r recs IH]; intros HF m.
  - cbn [concat]. now rewrite !firstn_nil.
  - inversion HF as [|x xs Hr HF']; subst x xs. destruct m as [|m]; [reflexivity|].
    cbn [firstn concat]. change (S m * p)%nat with (p + m * p)%nat.
    rewrite firstn_app, Hr. rewrite firstn_all2 by lia.
    replace (p + m * p - p)%nat with (m * p)%nat by lia. now rewrite IH.
Qed.

Lemma Forall_firstn {A} (P : A -> Prop) l n : Forall P l -> Forall P (firstn n l).
Proof.
  revert n; induction l as [|x l IH]; intros n HF; [now rewrite firstn_nil|].
  destruct n; [constructor|]. inversion HF; subst. cbn [firstn]. constructor; auto.
Qed.

(* the records delivered from a file whose point area is cut after k bytes *)
Lemma read_records_trunc bs recs tail ps k : 0 < ps -> recs_ok ps recs = true ->
  let j := Nat.min (length (concat recs)) k in
  read_records (bs ++ firstn k (concat recs ++ tail)) (len bs) ps 0 (len recs)
  = if Z.of_nat j mod ps =? 0 then Ok (firstn (j / Z.to_nat ps) recs) else Err EValue.
Proof.
  intros Hps Hok j. pose proof (recs_ok_Forall _ _ Hok) as HF.
  set (p := Z.to_nat ps) in *. assert (0 < p)%nat as Hp by lia.
  pose proof (concat_length_const p recs HF) as Hcl.
  unfold read_records. cbv zeta.
  replace (len bs + 0 * ps) with (len bs) by lia. rewrite to_nat_len.
  rewrite (skipn_app_exact bs _ (length bs) eq_refl).
  replace (Z.to_nat (len recs * ps)) with (length (concat recs)).
  2:{ rewrite Hcl. unfold len, p. rewrite Z2Nat.inj_mul by lia. now rewrite Nat2Z.id. }
  rewrite firstn_firstn. fold j.
  assert (j <= length (concat recs))%nat as Hj by (unfold j; lia).
  rewrite firstn_app. replace (j - length (concat recs))%nat with 0%nat by lia.
  cbn [firstn]. rewrite app_nil_r.
  replace (ps <=? 0) with false by lia.
  assert (len (firstn j (concat recs)) = Z.of_nat j) as Hlj.
  { unfold len. rewrite firstn_length. lia. }
  rewrite Hlj.
  destruct (Z.of_nat j mod ps =? 0) eqn:Em; [|reflexivity].
  f_equal.
  assert (j = (j / p) * p)%nat as Hjm.
  { assert (Z.of_nat j = Z.of_nat j / ps * ps) as Hz.
    { pose proof (Z.div_mod (Z.of_nat j) ps). lia. }
    assert (ps = Z.of_nat p) as Hpp by (unfold p; lia).
    rewrite Hpp in Hz. rewrite <- Nat2Z.inj_div, <- Nat2Z.inj_mul in Hz. lia. }
  rewrite Hjm at 1 2. rewrite (firstn_concat_const p recs HF).
  apply chunks_of_concat; [exact Hp|now apply Forall_firstn|lia].
Qed.

(* ------------------------------------------------------------------------------------ *)
(* the statistics fields of with_stats, and what enc_header keeps                        *)
(* ------------------------------------------------------------------------------------ *)
Lemma with_stats_count h st : aint (with_stats h st) "point_count" = s_count st.
Proof. unfold with_stats. cbv zeta. rewrite !aint_aset_other by reflexivity. apply aint_aset_same. Qed.
Lemma with_stats_evlr_start h st : aint (with_stats h st) "start_of_first_evlr" = s_evlr_start st.
Proof. unfold with_stats. cbv zeta. rewrite !aint_aset_other by reflexivity. apply aint_aset_same. Qed.
Lemma with_stats_nevlr h st : aint (with_stats h st) "number_of_evlrs" = s_nevlr st.
Proof. unfold with_stats. cbv zeta. apply aint_aset_same. Qed.
Lemma with_stats_minor h st : aint (with_stats h st) "version.minor" = aint h "version.minor".
Proof. apply aint_with_stats_other; try reflexivity; try axis_ne; ret_ne. Qed.

Lemma stats_of_nevlr ap fmt h recs : s_nevlr (stats_of ap fmt h recs) = 0.
Proof. destruct recs; reflexivity. Qed.

(* file_of and final_hdr, spelled out *)
Lemma file_of_inv ap h vl fmt recs evl f h' :
  file_of ap h vl fmt recs evl = Ok f -> final_hdr ap h vl fmt recs evl = Ok h' ->
  exists hh bs eb,
    enc_header hh vl true = Ok (h', bs) /\ enc_vlrs true evl = Ok eb
    /\ f = bs ++ concat recs ++ eb
    /\ len bs = aint h' "offset_to_point_data"
    /\ aint h' "point_count" = len recs
    /\ aint h' "version.minor" = aint h "version.minor"
    /\ (evl = [] -> aint h' "number_of_evlrs" = 0)
    /\ (evl <> [] -> aint h' "number_of_evlrs" = len evl
                     /\ aint h' "start_of_first_evlr" = len bs + len (concat recs)).
Proof.
  unfold file_of, final_hdr. intros Hf Hh.
  destruct (enc_header (with_stats h stats0) vl false) as [[h0 b0]|e] eqn:E0; [|discriminate].
  cbn [bind fst snd] in Hf, Hh.
  destruct (enc_vlrs true evl) as [eb|e] eqn:Eeb; [|discriminate].
  cbn [bind] in Hf, Hh.
  set (st := match evl with
             | [] => stats_of ap fmt h recs
             | _ :: _ => mkS (s_count (stats_of ap fmt h recs)) (s_max (stats_of ap fmt h recs))
                             (s_min (stats_of ap fmt h recs)) (s_ret (stats_of ap fmt h recs))
                             (len b0 + len (concat recs)) (len evl)
             end) in *.
  destruct (enc_header (with_stats h0 st) vl true) as [[h1 bs]|e] eqn:E1; [|discriminate].
  cbn [bind fst snd] in Hf, Hh. injection Hf as <-. injection Hh as <-.
  exists (with_stats h0 st), bs, eb.
  pose proof (enc_header_len _ _ _ _ _ E1) as L1.
  destruct (enc_header_same_size _ _ _ _ E1) as [_ L1'].
  rewrite with_stats_offset in L1'.
  pose proof (enc_header_len _ _ _ _ _ E0) as L0.
  assert (len bs = len b0) as Lb by lia.
  split; [exact E1|]. split; [reflexivity|]. split; [reflexivity|]. split; [exact L1|].
  split.
  { rewrite (enc_header_keeps _ _ _ _ _ "point_count" E1) by reflexivity.
    rewrite with_stats_count. destruct evl; cbn [st s_count]; apply stats_of_count. }
  split.
  { rewrite (enc_header_keeps _ _ _ _ _ "version.minor" E1) by reflexivity.
    rewrite with_stats_minor.
    rewrite (enc_header_keeps _ _ _ _ _ "version.minor" E0) by reflexivity.
    apply with_stats_minor. }
  split.
  { intros ->. rewrite (enc_header_keeps _ _ _ _ _ "number_of_evlrs" E1) by reflexivity.
    rewrite with_stats_nevlr. apply stats_of_nevlr. }
  intros Hne. destruct evl as [|ev evl]; [contradiction|]. split.
  - rewrite (enc_header_keeps _ _ _ _ _ "number_of_evlrs" E1) by reflexivity.
    rewrite with_stats_nevlr. reflexivity.
  - rewrite (enc_header_keeps _ _ _ _ _ "start_of_first_evlr" E1) by reflexivity.
    rewrite with_stats_evlr_start. cbn [st s_evlr_start]. lia.
Qed.

(* C03 *)
Theorem file_length : forall ap h vl fmt recs evl f h' eb,
  file_of ap h vl fmt recs evl = Ok f -> final_hdr ap h vl fmt recs evl = Ok h' -> enc_vlrs true evl = Ok eb ->
  recs_ok (aint h' "point_size") recs = true ->
  len f = aint h' "offset_to_point_data" + len recs * aint h' "point_size" + len eb
  /\ (evl <> [] -> aint h' "start_of_first_evlr" = aint h' "offset_to_point_data" + len recs * aint h' "point_size"
                   /\ aint h' "number_of_evlrs" = len evl)
  /\ aint h' "point_count" = len recs.
Proof.
  intros ap h vl fmt recs evl f h' eb Hf Hh Heb Hok.
  destruct (file_of_inv _ _ _ _ _ _ _ _ Hf Hh) as (hh & bs & eb' & _ & Heb' & -> & Hl & Hc & _ & _ & Hev).
  rewrite Heb in Heb'. injection Heb' as <-.
  pose proof (len_concat_recs _ _ Hok) as Hcl.
  split; [rewrite !len_app; lia|]. split; [|exact Hc].
  intros Hne. destruct (Hev Hne) as [A B]. split; [lia|exact A].
Qed.
Print Assumptions file_length.

(* ------------------------------------------------------------------------------------ *)
(* the raw header prefix of an encoded header                                            *)
(* ------------------------------------------------------------------------------------ *)
Lemma raw_offset_bytes (src : list Z) : firstn 4 (skipn 96 (firstn 227 src)) = firstn 4 (skipn 96 src).
Proof. rewrite skipn_firstn_comm, firstn_firstn. reflexivity. Qed.

Lemma enc_header_raw hh vl es h' bs : enc_header hh vl es = Ok (h', bs) ->
  1 <= aint h' "version.minor" <= 4 /\ 227 <= len bs
  /\ exists fb tl, bs = fb ++ tl /\ 227 <= len fb
     /\ forall rest, firstn 4 (fb ++ rest) = LASF
                  /\ le_dec (firstn 1 (skipn 25 (fb ++ rest))) = aint h' "version.minor"
                  /\ le_dec (firstn 4 (skipn 96 (fb ++ rest))) = len bs.
Proof.
  intros He. pose proof (enc_header_len _ _ _ _ _ He) as Hlen.
  assert (aint h' "version.minor" = aint hh "version.minor") as Hmn
    by (apply (enc_header_keeps _ _ _ _ _ _ He); reflexivity).
  destruct (enc_header_inv _ _ _ _ _ He) as (vb & hs0 & fb & Hv & Hh & _ & _ & _ & Hf & Hbs).
  destruct (tbl_cases_range _ _ _ Hh) as (_ & Hm & Hhs0).
  destruct (hw_layout_width _ _ _ Hh) as [Hw Hok].
  pose proof (enc_fields_len _ _ _ Hok Hf) as Hfb. rewrite Hw in Hfb.
  split; [lia|].
  assert (227 <= len bs) as Hbl.
  { rewrite Hbs, len_app. pose proof (len_nonneg (abytes hh "extra_header_bytes" ++ vb ++ abytes hh "extra_vlr_bytes")). lia. }
  split; [exact Hbl|].
  exists fb, (abytes hh "extra_header_bytes" ++ vb ++ abytes hh "extra_vlr_bytes").
  split; [exact Hbs|]. split; [lia|].
  intros rest. destruct (header_prefix _ h' fb rest Hm Hf) as (A & B & C).
  split; [exact A|]. split; [exact B|]. rewrite C. lia.
Qed.

Lemma hdr_minor_enc hh vl es h' bs rest : enc_header hh vl es = Ok (h', bs) ->
  hdr_stream (bs ++ rest) = bs /\ hdr_minor (bs ++ rest) = aint h' "version.minor".
Proof.
  intros He. destruct (enc_header_raw _ _ _ _ _ He) as (_ & Hbl & fb & tl & Hbs & _ & Hraw).
  assert (hdr_stream (bs ++ rest) = bs) as Hs.
  { unfold hdr_stream. cbv zeta. rewrite raw_offset_bytes.
    assert (le_dec (firstn 4 (skipn 96 (bs ++ rest))) = len bs) as C.
    { destruct (Hraw (tl ++ rest)) as (_ & _ & C). rewrite app_assoc, <- Hbs in C. exact C. }
    rewrite C. replace (len bs <? 227) with false by lia. rewrite to_nat_len.
    now apply firstn_app_exact. }
  split; [exact Hs|]. unfold hdr_minor. rewrite Hs.
  destruct (Hraw tl) as (_ & B & _). rewrite Hbs at 1. exact B.
Qed.

Lemma point_count_name m : 1 <= m <= 4 -> In "point_count"%string (header_field_names m).
Proof.
  intros Hm. assert (m = 1 \/ m = 2 \/ m = 3 \/ m = 4) as [->|[->|[->| ->]]] by lia;
  apply in_by_existsb; vm_compute; reflexivity.
Qed.

Lemma evlr_names : In "number_of_evlrs"%string (header_field_names 4)
  /\ In "start_of_first_evlr"%string (header_field_names 4).
Proof. split; apply in_by_existsb; vm_compute; reflexivity. Qed.

(* ------------------------------------------------------------------------------------ *)
(* C01                                                                                   *)
(* ------------------------------------------------------------------------------------ *)
Theorem read_write_roundtrip : forall ap h vl fmt recs evl f h',
  file_of ap h vl fmt recs evl = Ok f -> final_hdr ap h vl fmt recs evl = Ok h' ->
  wf_header h' vl = true -> forallb (wf_vlr true) evl = true ->
  recs_ok (aint h' "point_size") recs = true -> 0 < aint h' "point_size" ->
  (evl = [] \/ aint h "version.minor" >= 4) -> len evl <= MAX_VLRS ->
  exists lf, read_file f = Ok lf
    /\ lf_points lf = recs
    /\ rh_vlrs (lf_h lf) = vl
    /\ rh_evlrs (lf_h lf) = (if aint h' "version.minor" >=? 4 then Some evl else None)
    /\ aint (rh_fields (lf_h lf)) "point_count" = len recs
    /\ rh_psize (lf_h lf) = aint h' "point_size"
    /\ rh_offset (lf_h lf) = aint h' "offset_to_point_data"
    /\ (forall n, In n (header_field_names (aint h' "version.minor")) -> aget (rh_fields (lf_h lf)) n = Some (wval h' n)).
Proof.
  intros ap h vl fmt recs evl f h' Hf Hh Hwf Hwe Hok Hps Hev4 _.
  destruct (file_of_inv _ _ _ _ _ _ _ _ Hf Hh) as (hh & bs & eb & E1 & Heb & Hfe & Hl & Hc & Hmn & Hev0 & Hev1).
  destruct (dec_enc_header _ _ _ _ _ (concat recs ++ eb) E1 Hwf)
    as (rh & D0 & Rv & Roff & Rps & _ & Rget & _).
  rewrite <- Hfe in D0.
  destruct (hdr_minor_enc _ _ _ _ _ (concat recs ++ eb) E1) as [_ Hminor]. rewrite <- Hfe in Hminor.
  destruct (enc_header_raw _ _ _ _ _ E1) as (Hm & _).
  set (m := aint h' "version.minor") in *.
  (* the count read back *)
  assert (aint (rh_fields rh) "point_count" = len recs) as Hcnt.
  { rewrite (aint_of_get _ h' "point_count" eq_refl eq_refl (Rget _ (point_count_name m Hm))). exact Hc. }
  (* the EVLR part *)
  assert (ev_part m (rh_fields rh) f true = Ok (if m >=? 4 then Some evl else None)) as Hevp.
  { unfold ev_part. destruct (m >=? 4) eqn:E4; [|reflexivity].
    assert (m = 4) as M4 by lia. rewrite M4 in Rget. destruct evlr_names as [N1 N2].
    rewrite (aint_of_get _ h' "number_of_evlrs" eq_refl eq_refl (Rget _ N1)).
    rewrite (aint_of_get _ h' "start_of_first_evlr" eq_refl eq_refl (Rget _ N2)).
    destruct evl as [|ev evl].
    - rewrite (Hev0 eq_refl). reflexivity.
    - destruct (Hev1 ltac:(discriminate)) as [A B]. rewrite A, B.
      replace (len (ev :: evl) >? 0) with true by (unfold len; cbn [length]; lia).
      rewrite <- len_app, !to_nat_len. rewrite Hfe, app_assoc.
      rewrite (skipn_app_exact (bs ++ concat recs) eb _ eq_refl).
      rewrite <- (app_nil_r eb) at 1.
      rewrite (dec_enc_vlrs true (ev :: evl) eb [] Hwe Heb). reflexivity. }
  (* the header with read_evlrs = true *)
  destruct (dec_header_shape f true) as [(e & H1 & _)|(rh0 & H1 & _ & _ & H2)]; [rewrite D0 in H1; discriminate|].
  rewrite D0 in H1. injection H1 as <-. rewrite Hminor, Hevp in H2. cbn [bind] in H2.
  (* the records *)
  assert (read_records f (len bs) (aint h' "point_size") 0 (len recs) = Ok recs) as Hrr.
  { rewrite Hfe. rewrite <- (firstn_all (concat recs ++ eb)).
    rewrite read_records_trunc by assumption. cbv zeta.
    pose proof (recs_ok_Forall _ _ Hok) as HF.
    pose proof (concat_length_const _ _ HF) as Hcl.
    rewrite app_length. rewrite Nat.min_l by lia. rewrite Hcl.
    rewrite Nat.div_mul by lia. rewrite firstn_all.
    replace (Z.of_nat (length recs * Z.to_nat (aint h' "point_size")) mod aint h' "point_size" =? 0) with true; [reflexivity|].
    rewrite Nat2Z.inj_mul, Z2Nat.id by lia. rewrite Z.mod_mul by lia. reflexivity. }
  unfold read_file. rewrite H2. cbn [bind rh_fields rh_offset rh_psize]. rewrite Hcnt.
  destruct (len recs <=? 0) eqn:Ez.
  - eexists. split; [reflexivity|]. cbn [lf_points lf_h rh_vlrs rh_evlrs rh_fields rh_psize rh_offset].
    assert (recs = []) as -> by (destruct recs; [reflexivity|unfold len in Ez; cbn [length] in Ez; lia]).
    repeat split; try assumption; try lia.
  - rewrite Roff, Rps, Hrr. cbn [bind]. eexists. split; [reflexivity|].
    cbn [lf_points lf_h rh_vlrs rh_evlrs rh_fields rh_psize rh_offset].
    repeat split; try assumption; try lia.
Qed.
Print Assumptions read_write_roundtrip.

(* ------------------------------------------------------------------------------------ *)
(* where a decoded integer field comes from (lenient decoding of any byte string)        *)
(* ------------------------------------------------------------------------------------ *)
Definition no_var (l : layout) : bool :=
  forallb (fun f => match fst (fst f) with KVar => false | _ => true end) l.

Lemma dec_fields_amem l : forall bs n, existsb (fun f => String.eqb (snd f) n) l = false ->
  amem (fst (dec_fields l bs)) n = false.
Proof.
  induction l as [|[[k w] m] l IH]; intros bs n H; [reflexivity|].
  cbn [existsb snd] in H. apply orb_false_iff in H as [Hm Hr].
  cbn [dec_fields]. destruct (dec_field k w bs) as [v rest] eqn:Ev.
  specialize (IH rest n Hr). destruct (dec_fields l rest) as [a rest'] eqn:Ea.
  cbn [fst] in *. unfold amem in *. cbn [existsb fst]. rewrite Hm. exact IH.
Qed.

Lemma dec_field_rest k w bs : k <> KVar -> snd (dec_field k w bs) = skipn w bs.
Proof. intros Hk. destruct k; try reflexivity. contradiction. Qed.

Lemma dec_fields_uint_at : forall p l w n bs acc,
  nth_error l p = Some (KUInt, w, n) -> no_var (firstn p l) = true ->
  existsb (fun f => String.eqb (snd f) n) (skipn (S p) l) = false ->
  aget_last (fst (dec_fields l bs)) n acc
  = Some (VInt (le_dec (firstn w (skipn (Z.to_nat (layout_width (firstn p l))) bs)))).
Proof.
  induction p as [|p IH]; intros l w n bs acc Hn Hv Hx.
  - destruct l as [|[[k1 w1] n1] l]; [discriminate|]. cbn [nth_error] in Hn. injection Hn as -> -> ->.
    cbn [skipn] in Hx. pose proof (dec_fields_amem l (skipn w bs) n Hx) as Hm.
    cbn [dec_fields dec_field]. destruct (dec_fields l (skipn w bs)) as [a rest'] eqn:Ea.
    cbn [fst] in *. cbn [aget_last]. rewrite String.eqb_refl.
    rewrite (amem_false_aget _ _ _ Hm). reflexivity.
  - destruct l as [|[[k1 w1] n1] l]; [discriminate|]. cbn [nth_error] in Hn.
    change (firstn (S p) ((k1, w1, n1) :: l)) with ((k1, w1, n1) :: firstn p l) in *.
    unfold no_var in Hv. cbn [forallb fst] in Hv. apply andb_true_iff in Hv as [Hk Hv].
    change (skipn (S (S p)) ((k1, w1, n1) :: l)) with (skipn (S p) l) in Hx.
    cbn [dec_fields].
    assert (k1 <> KVar) as Hk1 by (intros ->; discriminate).
    pose proof (dec_field_rest k1 w1 bs Hk1) as Hrest.
    destruct (dec_field k1 w1 bs) as [v rest] eqn:Ev. cbn [snd] in Hrest. subst rest.
    specialize (IH l w n (skipn w1 bs) (if String.eqb n1 n then Some v else acc) Hn Hv Hx).
    destruct (dec_fields l (skipn w1 bs)) as [a rest'] eqn:Ea. cbn [fst] in *. cbn [aget_last].
    rewrite IH. rewrite layout_width_cons. cbn [fst snd].
    rewrite Z2Nat.inj_add by (try apply layout_width_nonneg; lia). rewrite Nat2Z.id.
    now rewrite skipn_add.
Qed.

Lemma hr_offset_field mnr bs :
  aint (fst (dec_fields (fixed_part (hr_layout mnr)) bs)) "offset_to_point_data" = le_dec (firstn 4 (skipn 96 bs)).
Proof.
  unfold aint, aget, hr_layout.
  destruct (mnr >=? 4); [|destruct (mnr =? 3); [|destruct (mnr =? 2)]];
  match goal with |- context [dec_fields ?l bs] =>
    rewrite (dec_fields_uint_at 11 l 4 "offset_to_point_data" bs None eq_refl eq_refl eq_refl) end; reflexivity.
Qed.

Lemma raw_off_trunc n (f : list Z) : (100 <= n)%nat -> firstn 4 (skipn 96 (firstn n f)) = firstn 4 (skipn 96 f).
Proof. intros Hn. rewrite skipn_firstn_comm, firstn_firstn. f_equal. lia. Qed.

(* ------------------------------------------------------------------------------------ *)
(* C19 (truncation)                                                                      *)
(* ------------------------------------------------------------------------------------ *)
Theorem truncation_safe : forall ap h vl fmt recs evl f h' n,
  file_of ap h vl fmt recs evl = Ok f -> final_hdr ap h vl fmt recs evl = Ok h' ->
  wf_header h' vl = true -> forallb (wf_vlr true) evl = true ->
  recs_ok (aint h' "point_size") recs = true -> 0 < aint h' "point_size" ->
  reads_prefix_or_fails (firstn n f) recs.
Proof.
  intros ap h vl fmt recs evl f h' n Hf Hh Hwf _ Hok Hps.
  destruct (file_of_inv _ _ _ _ _ _ _ _ Hf Hh) as (hh & bs & eb & E1 & Heb & Hfe & Hl & Hc & _).
  unfold reads_prefix_or_fails, read_file.
  destruct (dec_header_shape (firstn n f) true) as [(e & _ & H2)|(rh & H1 & Hoff & Hlen & H2)];
    [rewrite H2; exact I|].
  rewrite H2. clear H2.
  destruct (ev_part (hdr_minor (firstn n f)) (rh_fields rh) (firstn n f) true) as [ev|e]; [|exact I].
  cbn [bind rh_fields rh_offset rh_psize].
  destruct (aint (rh_fields rh) "point_count" <=? 0) eqn:Ez; [exists 0%nat; reflexivity|].
  rewrite firstn_length in Hlen.
  destruct (enc_header_raw _ _ _ _ _ E1) as (Hm & Hbl & fb & tl & Hbs & Hfb & Hraw).
  destruct (Nat.lt_ge_cases n (length bs)) as [Hn|Hn].
  - (* the cut is inside the header / VLR area: no point data is reachable *)
    assert (le_dec (firstn 4 (skipn 96 (firstn n f))) = len bs) as Hro.
    { rewrite raw_off_trunc by lia. destruct (Hraw (tl ++ concat recs ++ eb)) as (_ & _ & C).
      rewrite <- C. rewrite Hfe, Hbs, <- app_assoc. reflexivity. }
    assert (hdr_stream (firstn n f) = firstn n f) as Hs.
    { unfold hdr_stream. cbv zeta. rewrite raw_offset_bytes, Hro.
      replace (len bs <? 227) with false by lia. rewrite to_nat_len.
      apply firstn_all2. rewrite firstn_length. lia. }
    rewrite Hs, hr_offset_field, Hro in Hoff.
    unfold read_records. cbv zeta. rewrite Hoff.
    rewrite skipn_all2 by (rewrite firstn_length; unfold len; lia).
    rewrite firstn_nil.
    destruct (rh_psize rh <=? 0); [exact I|].
    destruct (len (@nil Z) mod rh_psize rh =? 0); [|exact I].
    cbn [bind lf_points length chunks_of]. exists 0%nat. reflexivity.
  - (* the cut is in the point area or later *)
    assert (firstn n f = bs ++ firstn (n - length bs) (concat recs ++ eb)) as Hsrc.
    { rewrite Hfe, firstn_app. now rewrite firstn_all2 by lia. }
    destruct (dec_enc_header _ _ _ _ _ (firstn (n - length bs) (concat recs ++ eb)) E1 Hwf)
      as (rh0 & D0 & _ & Roff & Rps & _ & Rget & _).
    rewrite <- Hsrc in D0. rewrite D0 in H1. injection H1 as ->.
    rewrite (aint_of_get _ h' "point_count" eq_refl eq_refl (Rget _ (point_count_name _ Hm))), Hc.
    rewrite Roff, Rps, Hsrc. rewrite read_records_trunc by assumption. cbv zeta.
    match goal with |- context [if ?c then _ else _] => destruct c end; [|exact I].
    cbn [bind lf_points]. eexists. reflexivity.
Qed.
Print Assumptions truncation_safe.
