From Coq Require Import ZArith List Bool Lia ZifyBool.
From LasV Require Import Lib.Base Gen.GenCursor Model.Cursor Proofs.CursorProofs Model.CursorBytes Proofs.CursorBytesProofs Model.CursorFault.
Import ListNotations.
Open Scope Z_scope.

(* the translated code reaches the source exactly when the abstract cursor says it must *)
Lemma touches_spec s t op : rel s t -> touches (c_n s) (c_read s) op = spec_touches t op.
Proof.
  intros (Hn & Hr & Hs & Hc).
  destruct s as [n r src], t as [n' c]; cbn [c_n c_read c_src sp_n sp_c] in *. subst n' r src.
  destruct op as [k|pos whence|k|]; cbn [touches spec_touches sp_n sp_c].
  - unfold gen_read_points. destruct (n - c <=? 0) eqn:E0; cbn [snd].
    + destruct (c <? n) eqn:E1; [lia|reflexivity].
    + destruct (k <? 0) eqn:Ek; cbn [snd]; destruct (c <? n) eqn:E1; lia.
  - unfold gen_seek.
    destruct (whence =? 0) eqn:W0; cbn [orb].
    + destruct (negb ((0 <=? pos) && (pos <? n))) eqn:E; destruct ((0 <=? pos) && (pos <? n)) eqn:E'; try discriminate; reflexivity.
    + destruct (whence =? 1) eqn:W1; cbn [orb].
      * destruct (negb ((- c <=? pos) && (pos <? n - c))) eqn:E; destruct ((0 <=? c + pos) && (c + pos <? n)) eqn:E'; try lia; reflexivity.
      * destruct (whence =? 2) eqn:W2.
        -- destruct (negb ((- n <=? pos) && (pos <? 0))) eqn:E; destruct ((0 <=? n + pos) && (n + pos <? n)) eqn:E'; try lia; reflexivity.
        -- reflexivity.
  - unfold gen_read_points. destruct (n - c <=? 0) eqn:E0; cbn [snd].
    + destruct (c <? n) eqn:E1; [lia|reflexivity].
    + destruct (k <? 0) eqn:Ek; cbn [snd]; destruct (c <? n) eqn:E1; lia.
  - unfold gen_read_points. destruct (n - c <=? 0) eqn:E0; cbn [snd].
    + destruct (c <? n) eqn:E1; [lia|reflexivity].
    + cbn [Z.ltb Z.compare snd]. destruct (c <? n) eqn:E1; lia.
Qed.

Lemma fstep_sim s t f : rel s t ->
  rel (fst (fstep s f)) (fst (spec_fstep t f))
  /\ map norm_out (snd (fstep s f)) = map norm_out (snd (spec_fstep t f))
  /\ Forall (slice_in_bounds (sp_n t)) (snd (fstep s f)).
Proof.
  intros H. destruct f as [op|op|]; cbn [fstep spec_fstep].
  - destruct (step_sim s t op H) as (R1 & R2 & R3).
    destruct (cstep s op) as [s' o], (spec_step t op) as [t' o']. cbn [fst snd map] in *.
    split; [exact R1|]. split; [now rewrite R2|]. constructor; [exact R3|constructor].
  - rewrite (touches_spec s t op H). destruct (spec_touches t op).
    + cbn [fst snd map]. split; [exact H|]. split; [reflexivity|]. constructor; [exact I|constructor].
    + destruct (step_sim s t op H) as (R1 & R2 & R3).
      destruct (cstep s op) as [s' o], (spec_step t op) as [t' o']. cbn [fst snd map] in *.
      split; [exact R1|]. split; [now rewrite R2|]. constructor; [exact R3|constructor].
  - cbn [fst snd map]. split; [exact H|]. split; [reflexivity|constructor].
Qed.

Lemma spec_fstep_n t f : sp_n (fst (spec_fstep t f)) = sp_n t.
Proof.
  destruct f as [op|op|]; cbn [spec_fstep].
  - pose proof (spec_step_n t op) as X. destruct (spec_step t op) as [t' o]. exact X.
  - destruct (spec_touches t op); [reflexivity|].
    pose proof (spec_step_n t op) as X. destruct (spec_step t op) as [t' o]. exact X.
  - reflexivity.
Qed.

Lemma frun_sim fops : forall s t o1 o2, rel s t -> map norm_out o1 = map norm_out o2 -> Forall (slice_in_bounds (sp_n t)) o1 ->
  let r1 := fold_left (fun acc f => let '(s', o) := fstep (fst acc) f in (s', snd acc ++ o)) fops (s, o1) in
  let r2 := fold_left (fun acc f => let '(t', o) := spec_fstep (fst acc) f in (t', snd acc ++ o)) fops (t, o2) in
  rel (fst r1) (fst r2) /\ map norm_out (snd r1) = map norm_out (snd r2) /\ Forall (slice_in_bounds (sp_n t)) (snd r1).
Proof.
  induction fops as [|f fops IH]; intros s t o1 o2 Hrel Ho Hb; [cbn; auto|].
  cbn [fold_left fst snd].
  destruct (fstep_sim s t f Hrel) as (R1 & R2 & R3).
  pose proof (spec_fstep_n t f) as Hn.
  destruct (fstep s f) as [s' o] eqn:E1, (spec_fstep t f) as [t' o'] eqn:E2. cbn [fst snd] in *.
  specialize (IH s' t' (o1 ++ o) (o2 ++ o') R1).
  rewrite Hn in IH. apply IH.
  - rewrite !map_app. now rewrite Ho, R2.
  - apply Forall_app. split; assumption.
Qed.

(* histories with faults and caller operations refine the abstract cursor in which a failed call is a no-op *)
Theorem fault_refines n fops : 0 <= n ->
  map norm_out (snd (frun (mkC n 0 0) fops)) = map norm_out (snd (sfrun (mkSp n 0) fops))
  /\ Forall (slice_in_bounds n) (snd (frun (mkC n 0 0) fops))
  /\ c_src (fst (frun (mkC n 0 0) fops)) = c_read (fst (frun (mkC n 0 0) fops)).
Proof.
  intros Hn. unfold frun, sfrun.
  assert (rel (mkC n 0 0) (mkSp n 0)) as R by (unfold rel; cbn; lia).
  destruct (frun_sim fops (mkC n 0 0) (mkSp n 0) [] [] R eq_refl (Forall_nil _)) as (R1 & R2 & R3).
  split; [exact R2|]. split; [exact R3|].
  destruct R1 as (_ & Hr & Hs & _). now rewrite Hr, Hs.
Qed.

(* a call during which the source raised: cursor AND source position are where they were, the exception comes out *)
Theorem fault_noop s op : touches (c_n s) (c_read s) op = true -> fstep s (FFail op) = (s, [OErr EOther]).
Proof. intros H. cbn [fstep]. now rewrite H. Qed.

Theorem fault_noop_bytes off st s op : touches (b_n s) (b_read s) op = true -> bfstep off st s (FFail op) = (s, [BErr EOther]).
Proof. intros H. cbn [bfstep]. now rewrite H. Qed.

(* a call that does not reach the source cannot see the fault *)
Theorem fault_unseen s op : touches (c_n s) (c_read s) op = false -> fstep s (FFail op) = fstep s (FOk op).
Proof. intros H. cbn [fstep]. now rewrite H. Qed.

(* no plain call yields the source's exception *)
Lemma cstep_no_fault s op : is_fault (snd (cstep s op)) = false.
Proof.
  destruct op as [k|pos whence|k|]; cbn [cstep].
  - destruct (do_read s k) as [[s' a] b]. reflexivity.
  - unfold gen_seek.
    repeat match goal with |- context [if ?c then _ else _] => destruct c end; reflexivity.
  - destruct (do_read s k) as [[s' a] b]. destruct (a =? b); reflexivity.
  - destruct (do_read s (-1)) as [[s' a] b]. reflexivity.
Qed.

Lemma frun_erase fops : forall s o1 o2, filter (fun o => negb (is_fault o)) o1 = o2 ->
  let r1 := fold_left (fun acc f => let '(s', o) := fstep (fst acc) f in (s', snd acc ++ o)) fops (s, o1) in
  let r2 := fold_left (fun acc op => let '(s', o) := cstep (fst acc) op in (s', snd acc ++ [o])) (erase s fops) (s, o2) in
  fst r1 = fst r2 /\ filter (fun o => negb (is_fault o)) (snd r1) = snd r2.
Proof.
  induction fops as [|f fops IH]; intros s o1 o2 Ho; [cbn; auto|].
  destruct f as [op|op|]; cbn [fold_left fst snd erase fstep].
  - pose proof (cstep_no_fault s op) as NF. destruct (cstep s op) as [s' o] eqn:E. cbn [fst snd] in *.
    apply IH. rewrite filter_app, Ho. cbn [filter]. rewrite NF. reflexivity.
  - destruct (touches (c_n s) (c_read s) op).
    + cbn [fst snd]. apply IH. rewrite filter_app, Ho. cbn. now rewrite app_nil_r.
    + cbn [fold_left fst snd].
      pose proof (cstep_no_fault s op) as NF. destruct (cstep s op) as [s' o] eqn:E. cbn [fst snd] in *.
      apply IH. rewrite filter_app, Ho. cbn [filter]. rewrite NF. reflexivity.
  - cbn [fst snd]. apply IH. now rewrite app_nil_r.
Qed.

(* what a history with transient faults and caller operations delivers is exactly what the history without the failed calls
   (and without the caller operations) delivers: no record is lost, none is delivered twice *)
Theorem fault_erasure s fops :
  fst (frun s fops) = fst (crun s (erase s fops))
  /\ filter (fun o => negb (is_fault o)) (snd (frun s fops)) = snd (crun s (erase s fops)).
Proof. unfold frun, crun. exact (frun_erase fops s [] [] eq_refl). Qed.

(* byte level *)
Lemma bfstep_sim off L s b f : brel off L s b ->
  brel off L (fst (fstep s f)) (fst (bfstep off L b f))
  /\ snd (bfstep off L b f) = map (out_bytes off L) (snd (fstep s f)).
Proof.
  intros H. destruct f as [op|op|]; cbn [fstep bfstep].
  - destruct (bstep_sim off L s b op H) as (R1 & R2).
    destruct (cstep s op) as [s' o], (bstep off L b op) as [b' o']. cbn [fst snd map] in *. split; [exact R1|now rewrite R2].
  - destruct H as (Hn & Hr & Hp). rewrite <- Hn, <- Hr.
    destruct (touches (c_n s) (c_read s) op).
    + cbn [fst snd map out_bytes]. split; [repeat split; assumption|reflexivity].
    + destruct (bstep_sim off L s b op (conj Hn (conj Hr Hp))) as (R1 & R2).
      destruct (cstep s op) as [s' o], (bstep off L b op) as [b' o']. cbn [fst snd map] in *. split; [exact R1|now rewrite R2].
  - cbn [fst snd map]. split; [exact H|reflexivity].
Qed.

Lemma bfrun_sim off L fops : forall s b o1 o2, brel off L s b -> o2 = map (out_bytes off L) o1 ->
  let r1 := fold_left (fun acc f => let '(s', o) := fstep (fst acc) f in (s', snd acc ++ o)) fops (s, o1) in
  let r2 := fold_left (fun acc f => let '(s', o) := bfstep off L (fst acc) f in (s', snd acc ++ o)) fops (b, o2) in
  brel off L (fst r1) (fst r2) /\ snd r2 = map (out_bytes off L) (snd r1).
Proof.
  induction fops as [|f fops IH]; intros s b o1 o2 Hrel Ho; [cbn; auto|].
  cbn [fold_left fst snd].
  destruct (bfstep_sim off L s b f Hrel) as (R1 & R2).
  destruct (fstep s f) as [s' o] eqn:E1, (bfstep off L b f) as [b' o'] eqn:E2. cbn [fst snd] in *.
  apply IH; [exact R1|]. rewrite map_app. now rewrite Ho, R2.
Qed.

(* with the header's record length as stride, a history with faults returns exactly the bytes of the records named by the cursor,
   and the stream stands at the first byte of the cursor's record after every call, failed or not *)
Theorem fault_bytes off L n fops : 0 <= n ->
  snd (bfrun off L (mkB n 0 off) fops) = map (out_bytes off L) (snd (frun (mkC n 0 0) fops))
  /\ b_pos (fst (bfrun off L (mkB n 0 off) fops)) = off + b_read (fst (bfrun off L (mkB n 0 off) fops)) * L.
Proof.
  intros Hn. unfold bfrun, frun.
  assert (brel off L (mkC n 0 0) (mkB n 0 off)) as R by (unfold brel; cbn; lia).
  destruct (bfrun_sim off L fops (mkC n 0 0) (mkB n 0 off) [] [] R eq_refl) as ((_ & Hr & Hp) & Ho).
  split; [exact Ho|].
  destruct (fault_refines n fops Hn) as (_ & _ & Hs). unfold frun in Hs. rewrite Hp, <- Hr, Hs. reflexivity.
Qed.
Theorem early_cursor_loses n k : 1 <= n -> 1 <= k ->
  map norm_out (snd (frun_early (mkC n 0 0) [FFail (CRead k); FOk CReadAll]))
  <> map norm_out (snd (sfrun (mkSp n 0) [FFail (CRead k); FOk CReadAll])).
Proof.
  intros Hn Hk.
  assert (G : gen_read_points n 0 k = (Z.min k n, Z.min k n)).
  { unfold gen_read_points. destruct (n - 0 <=? 0) eqn:E1; [lia|]. destruct (k <? 0) eqn:E2; [lia|]. f_equal; lia. }
  set (m := Z.min k n) in *.
  assert (G2 : gen_read_points n m (-1) = if n - m <=? 0 then (m, -1) else (m + (n - m), n - m)) by reflexivity.
  assert (S1 : snd (sfrun (mkSp n 0) [FFail (CRead k); FOk CReadAll]) = [OErr EOther; OSlice 0 n]).
  { unfold sfrun. cbn [fold_left fst snd spec_fstep spec_touches sp_c sp_n].
    destruct (0 <? n) eqn:E0; [|lia]. cbn [fst snd app spec_step]. unfold spec_read. cbn [sp_n sp_c Z.ltb Z.compare fst snd].
    replace (0 + Z.max (n - 0) 0) with n by lia. reflexivity. }
  assert (S2 : snd (frun_early (mkC n 0 0) [FFail (CRead k); FOk CReadAll]) = [OErr EOther; if n - m <=? 0 then OSlice 0 0 else OSlice 0 (0 + (n - m))]).
  { unfold frun_early. cbn [fold_left fst snd fstep_early touches c_n c_read c_src]. rewrite G. cbn [fst snd].
    destruct (0 <=? m) eqn:E3; [|lia]. cbn [fst snd app fstep cstep]. unfold do_read. cbn [c_n c_read c_src]. rewrite G2.
    destruct (n - m <=? 0) eqn:E4.
    - cbn [Z.ltb Z.compare fst snd]. reflexivity.
    - destruct (n - m <? 0) eqn:E5; [lia|]. reflexivity. }
  rewrite S1, S2. cbn [map norm_out].
  destruct (0 =? n) eqn:E6; [lia|].
  destruct (n - m <=? 0) eqn:E4; cbn [norm_out].
  - rewrite Z.eqb_refl. intros X. injection X as X. lia.
  - destruct (0 =? 0 + (n - m)) eqn:E7; intros X; injection X as X; lia.
Qed.
