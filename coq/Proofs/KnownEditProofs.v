(* C08, between reading and writing: (1) the operations of LasHeader that re-synchronise its extra-bytes record or
   rebuild its VLR list keep every other record, verbatim and in order (in particular every record that was kept raw,
   whatever its identifiers); (2) a parsed record whose content was replaced through its public attributes is written
   as what it says now and read back as that. *)
From Coq Require Import String.
From Coq Require Import ZArith List Bool Lia ZifyBool.
From LasV Require Import Lib.Base Lib.BaseFacts Lib.Layout Proofs.LayoutProofs Gen.GenKnown Model.Las Model.LasSpec
  Proofs.VlrProofs Model.Known Proofs.KnownProofs.
Import ListNotations.
Open Scope list_scope.
Open Scope Z_scope.

(* ------------------------------------------------------------------------------------ *)
(* extract / sync                                                                        *)
(* ------------------------------------------------------------------------------------ *)
Lemma extract_rest_app n a b : extract_rest n (a ++ b) = extract_rest n a ++ extract_rest n b.
Proof. unfold extract_rest. apply filter_app. Qed.

Lemma extract_rest_idem n l : extract_rest n (extract_rest n l) = extract_rest n l.
Proof.
  unfold extract_rest. induction l as [|k l IH]; [reflexivity|]. cbn [filter].
  destruct (negb (String.eqb (kv_class k) n)) eqn:E; [cbn [filter]; rewrite E; now f_equal|exact IH].
Qed.

Lemma extract_rest_comm n m l : extract_rest n (extract_rest m l) = extract_rest m (extract_rest n l).
Proof.
  unfold extract_rest. induction l as [|k l IH]; [reflexivity|]. cbn [filter].
  destruct (negb (String.eqb (kv_class k) m)) eqn:Em; destruct (negb (String.eqb (kv_class k) n)) eqn:En;
    cbn [filter]; rewrite ?Em, ?En; [now f_equal|exact IH|exact IH|exact IH].
Qed.

Lemma extract_rest_In n l k : In k (extract_rest n l) <-> In k l /\ kv_class k <> n.
Proof.
  unfold extract_rest. rewrite filter_In. split; intros [H1 H2]; (split; [exact H1|]).
  - intros E. rewrite E, String.eqb_refl in H2. discriminate.
  - destruct (String.eqb (kv_class k) n) eqn:E; [apply String.eqb_eq in E; contradiction|reflexivity].
Qed.

Lemma extract_rest_none n l : Forall (fun k => kv_class k <> n) l -> extract_rest n l = l.
Proof.
  intros H. unfold extract_rest. induction H as [|k l Hk _ IH]; [reflexivity|]. cbn [filter].
  destruct (String.eqb (kv_class k) n) eqn:E; [apply String.eqb_eq in E; contradiction|]. cbn [negb]. now f_equal.
Qed.

(* the generated record is of the class the synchronisation takes out (or there is none) *)
Definition gen_ok (gen : option kvlr) : Prop :=
  match gen with Some k => kv_class k = sync_extracted_class | None => True end.

Lemma extract_gen gen : gen_ok gen -> extract_rest sync_extracted_class (match gen with Some k => [k] | None => [] end) = [].
Proof.
  destruct gen as [k|]; [|reflexivity]. cbn [gen_ok]. intros H. unfold extract_rest. cbn [filter].
  now rewrite H, String.eqb_refl.
Qed.

(* the records of every other class: the same, in the same order *)
Theorem sync_keeps_others l gen : gen_ok gen ->
  extract_rest sync_extracted_class (sync_eb l gen) = extract_rest sync_extracted_class l.
Proof.
  intros H. unfold sync_eb. rewrite extract_rest_app, extract_rest_idem, (extract_gen _ H). apply app_nil_r.
Qed.

Theorem sync_keeps_record l gen k : In k l -> kv_class k <> sync_extracted_class -> In k (sync_eb l gen).
Proof. intros H1 H2. unfold sync_eb. apply in_or_app. left. apply extract_rest_In. now split. Qed.

Lemma raw_not_synced : String.eqb "VLR" sync_extracted_class = false.
Proof. vm_compute. reflexivity. Qed.
Lemma raw_not_set : String.eqb "VLR" vlrs_setter_extracts = false.
Proof. vm_compute. reflexivity. Qed.

(* a record that was kept raw -- no class for its identifiers, or a payload its class refuses -- is never the one
   the synchronisation replaces, whatever its user id and record id *)
Theorem sync_keeps_raw l gen v : In (KRaw v) l -> In (KRaw v) (sync_eb l gen).
Proof.
  intros H. apply sync_keeps_record; [exact H|]. cbn [kv_class]. intros E.
  pose proof raw_not_synced as R. rewrite E, String.eqb_refl in R. discriminate.
Qed.

(* the list the synchronisation leaves is the old one without the records of that class, then the generated one *)
Theorem sync_shape l gen :
  sync_eb l gen = extract_rest sync_extracted_class l ++ match gen with Some k => [k] | None => [] end.
Proof. reflexivity. Qed.

(* header.vlrs = ...: the records of neither extracted class, in order *)
Theorem set_vlrs_keeps_others l gen : gen_ok gen ->
  extract_rest sync_extracted_class (extract_rest vlrs_setter_extracts (set_vlrs l gen))
  = extract_rest sync_extracted_class (extract_rest vlrs_setter_extracts l).
Proof.
  intros H. unfold set_vlrs. rewrite (extract_rest_comm sync_extracted_class vlrs_setter_extracts).
  rewrite (sync_keeps_others _ _ H). rewrite (extract_rest_comm sync_extracted_class). now rewrite extract_rest_idem.
Qed.

Theorem set_vlrs_keeps_raw l gen v : In (KRaw v) l -> In (KRaw v) (set_vlrs l gen).
Proof.
  intros H. unfold set_vlrs. apply sync_keeps_raw. apply extract_rest_In. split; [exact H|].
  cbn [kv_class]. intros E. pose proof raw_not_set as R. rewrite E, String.eqb_refl in R. discriminate.
Qed.

(* every method of the header, re-synchronising or not *)
Theorem header_op_keeps_others m l gen : gen_ok gen ->
  extract_rest sync_extracted_class (extract_rest vlrs_setter_extracts (header_op m l gen))
  = extract_rest sync_extracted_class (extract_rest vlrs_setter_extracts l).
Proof.
  intros H. unfold header_op. destruct (String.eqb m "vlrs"); [now apply set_vlrs_keeps_others|].
  destruct (existsb (String.eqb m) resync_methods); [|reflexivity].
  rewrite (extract_rest_comm sync_extracted_class vlrs_setter_extracts).
  rewrite (sync_keeps_others _ _ H). now rewrite (extract_rest_comm sync_extracted_class).
Qed.

Theorem header_op_keeps_raw m l gen v : In (KRaw v) l -> In (KRaw v) (header_op m l gen).
Proof.
  intros H. unfold header_op. destruct (String.eqb m "vlrs"); [now apply set_vlrs_keeps_raw|].
  destruct (existsb (String.eqb m) resync_methods); [now apply sync_keeps_raw|exact H].
Qed.

(* any sequence of such operations *)
Fixpoint header_ops (ms : list (string * option kvlr)) (l : list kvlr) : list kvlr :=
  match ms with [] => l | (m, gen) :: r => header_ops r (header_op m l gen) end.

Theorem header_ops_keep_others ms : forall l, Forall (fun mg => gen_ok (snd mg)) ms ->
  extract_rest sync_extracted_class (extract_rest vlrs_setter_extracts (header_ops ms l))
  = extract_rest sync_extracted_class (extract_rest vlrs_setter_extracts l).
Proof.
  induction ms as [|[m gen] r IH]; intros l H; [reflexivity|]. inversion H as [|? ? Hg Hr]; subst.
  cbn [header_ops]. rewrite (IH _ Hr). now apply header_op_keeps_others.
Qed.

Theorem header_ops_keep_raw ms : forall l v, In (KRaw v) l -> In (KRaw v) (header_ops ms l).
Proof.
  induction ms as [|[m gen] r IH]; intros l v H; [exact H|]. cbn [header_ops]. apply IH. now apply header_op_keeps_raw.
Qed.

(* the statements of _sync_extra_bytes_vlr and of the vlrs setter that touch the list are the ones modelled *)
Theorem sync_ops_modelled : sync_list_ops = modelled_sync_list_ops /\ vlrs_setter_ops = modelled_vlrs_setter_ops.
Proof. split; vm_compute; reflexivity. Qed.

(* ---- on what the reader handed out, in a file ---- *)
Lemma extract_rest_map n vl :
  extract_rest n (map vlr_factory vl) = map vlr_factory (filter (fun v => negb (String.eqb (kv_class (vlr_factory v)) n)) vl).
Proof.
  unfold extract_rest. induction vl as [|v vl IH]; [reflexivity|]. cbn [map filter].
  destruct (negb (String.eqb (kv_class (vlr_factory v)) n)); [cbn [map]; now f_equal|exact IH].
Qed.

Lemma forallb_filter {A} (p q : A -> bool) l : forallb p l = true -> forallb p (filter q l) = true.
Proof.
  intros H. apply forallb_forall. intros x Hx. apply filter_In in Hx as [Hx _]. rewrite forallb_forall in H. now apply H.
Qed.

(* a file is read, its header re-synchronised (no extra dimensions), and written through any header: what is read then
   are the records that were read the first time, without those of the extracted class, in order, and the EVLRs *)
Theorem sync_then_file hs stale vl el vl' el' pts loc body :
  let vl0 := filter (fun v => negb (String.eqb (kv_class (vlr_factory v)) sync_extracted_class)) vl in
  forallb (wf_vlr false) vl = true -> forallb (wf_vlr true) el = true ->
  kv_records (map vlr_factory vl0) = Ok vl' -> kv_records (map vlr_factory el) = Ok el' ->
  forallb (wf_vlr false) vl' = true -> forallb (wf_vlr true) el' = true ->
  write_file_known hs true stale (sync_eb (map vlr_factory vl) None) pts (Some (map vlr_factory el)) = Ok (loc, body) ->
  read_file hs true loc body = Ok (map vlr_factory vl0, Some (map vlr_factory el)).
Proof.
  intros vl0 Hv He Kv Ke Hv' He' Hw. unfold sync_eb in Hw. rewrite app_nil_r, extract_rest_map in Hw. fold vl0 in Hw.
  apply (file_next_generation hs stale vl0 el vl' el' pts loc body); try assumption.
  unfold vl0. now apply forallb_filter.
Qed.

(* ------------------------------------------------------------------------------------ *)
(* edited content: what is written is what the record says, and it is read back as that   *)
(* ------------------------------------------------------------------------------------ *)
Lemma ascii_ok_one_zero : ascii_ok [0] = true.
Proof. reflexivity. Qed.

(* any text: written with one terminating NUL (unless it ends with one), read back without its trailing NULs *)
Theorem wkt_edit s : ascii_ok s = true -> parse_wkt (ser_wkt s) = Some (strip_nul s).
Proof.
  intros H. unfold ser_wkt. destruct (last s 1 =? 0); unfold parse_wkt.
  - now rewrite H.
  - rewrite ascii_ok_app, H, ascii_ok_one_zero. cbn [andb]. now rewrite strip_nul_app_zero.
Qed.

Lemma drop_zeros_hd_id l : hd 1 l <> 0 -> drop_zeros l = l.
Proof. destruct l as [|b r]; [reflexivity|]. cbn [hd drop_zeros]. intros H. destruct (b =? 0) eqn:E; [lia|reflexivity]. Qed.

Lemma strip_nul_id s : last s 1 <> 0 -> strip_nul s = s.
Proof.
  intros H. rewrite strip_nul_rev. rewrite drop_zeros_hd_id; [apply rev_involutive|].
  rewrite <- (last_rev (rev s) 1). now rewrite rev_involutive.
Qed.

(* a text that does not end with NUL -- shorter, longer, a prefix of the old one, empty: the old payload plays no part *)
Theorem wkt_edit_exact s : ascii_ok s = true -> last s 1 <> 0 -> parse_wkt (ser_wkt s) = Some s.
Proof. intros H1 H2. rewrite (wkt_edit _ H1). now rewrite strip_nul_id. Qed.

Theorem wkt_edit_empty : ser_wkt [] = [0] /\ parse_wkt (ser_wkt []) = Some [].
Proof. split; reflexivity. Qed.

(* GeoAscii: the text is the same however it is cut into strings; strings without NUL come back one by one *)
Theorem ascii_edit_text ss : ascii_ok (join_nul ss) = true ->
  exists ss', parse_ascii (ser_ascii ss) = Some ss' /\ join_nul ss' = join_nul ss.
Proof.
  intros H. unfold parse_ascii, ser_ascii. rewrite H. exists (split_nul (join_nul ss)). split; [reflexivity|apply join_split_nul].
Qed.

Lemma split_nul_no_nul s : no_nul s = true -> split_nul s = [s].
Proof.
  induction s as [|b r IH]; [reflexivity|]. cbn [no_nul forallb]. intros H. apply andb_true_iff in H as [Hb Hr].
  cbn [split_nul]. destruct (b =? 0) eqn:E; [discriminate|]. unfold no_nul in IH. now rewrite (IH Hr).
Qed.

Lemma split_nul_app_zero s t : no_nul s = true -> split_nul (s ++ 0 :: t) = s :: split_nul t.
Proof.
  induction s as [|b r IH]; [reflexivity|]. cbn [no_nul forallb]. intros H. apply andb_true_iff in H as [Hb Hr].
  cbn [app split_nul]. destruct (b =? 0) eqn:E; [discriminate|]. unfold no_nul in IH. now rewrite (IH Hr).
Qed.

Lemma split_join_nul ss : ss <> [] -> Forall (fun s => no_nul s = true) ss -> split_nul (join_nul ss) = ss.
Proof.
  induction ss as [|s t IH]; [contradiction|]. intros _ H. inversion H as [|? ? Hs Ht]; subst.
  destruct t as [|s2 t2]; [cbn [join_nul]; now apply split_nul_no_nul|].
  change (join_nul (s :: s2 :: t2)) with (s ++ 0 :: join_nul (s2 :: t2)).
  rewrite (split_nul_app_zero _ _ Hs). f_equal. apply IH; [discriminate|exact Ht].
Qed.

Theorem ascii_edit ss : ss <> [] -> Forall (fun s => no_nul s = true) ss -> ascii_ok (join_nul ss) = true ->
  parse_ascii (ser_ascii ss) = Some ss.
Proof. intros H1 H2 H3. unfold parse_ascii, ser_ascii. rewrite H3. now rewrite split_join_nul. Qed.

(* lookup: any dict of byte keys and NUL-free names of at most 15 bytes *)
Theorem lookup_edit l : Forall good_entry l -> NoDup (map fst l) ->
  exists q, ser_lookup l = Ok q /\ parse_lookup q = Some l.
Proof. intros H1 H2. exists (concat (map enc_entry l)). split; [now apply ser_lookup_good|now apply parse_lookup_enc]. Qed.

(* a name that does not fit its 15-byte field: refused, never truncated *)
Theorem lookup_edit_too_long l e : In e l -> (lookup_name_size < length (snd e))%nat -> is_ok (ser_lookup l) = false.
Proof.
  induction l as [|a r IH]; [contradiction|]. intros [->|Hin] Hlen; cbn [ser_lookup].
  - unfold ser_lookup_entry. apply Nat.ltb_lt in Hlen. rewrite Hlen. reflexivity.
  - destruct (ser_lookup_entry a) as [x|]; [|reflexivity]. cbn [bind].
    specialize (IH Hin Hlen). destruct (ser_lookup r) as [y|]; [discriminate|reflexivity].
Qed.

(* doubles / extra-bytes descriptors: any list of whole entries *)
Lemma fixed_edit w c : w <> O -> Forall (fun x => length x = w) c -> parse_fixed w (concat c) = Some c.
Proof.
  intros Hw H. unfold parse_fixed. rewrite (concat_length_uniform _ _ H).
  rewrite Nat.mod_mul by exact Hw. rewrite Nat.div_mul by exact Hw. cbn [Nat.eqb]. now rewrite split_chunks_concat0.
Qed.
Theorem doubles_edit c : Forall (fun x => length x = double_size) c -> parse_doubles (ser_doubles c) = Some c.
Proof. apply fixed_edit. discriminate. Qed.
Theorem extra_edit c : Forall (fun x => length x = eb_struct_size) c -> parse_extra (ser_extra c) = Some c.
Proof. apply fixed_edit. discriminate. Qed.

Theorem wave_edit c : length c = wf_struct_size -> parse_wave (ser_wave c) = Some c.
Proof.
  intros H. unfold parse_wave, ser_wave. rewrite H, Nat.leb_refl. now rewrite <- H, firstn_all.
Qed.

(* key directory: any three header words and any list of fewer than 65536 entries; the count field written is the one
   the record holds (stale or not), the count read back is the number of entries *)
Theorem geokeys_edit g : length (gk_head g) = (gk_header_size - 2)%nat ->
  Forall (fun c => length c = gk_entry_size) (gk_keys g) -> len (gk_keys g) < 65536 ->
  parse_geokeys (ser_geokeys g) = Some (mkGK (gk_head g) (len (gk_keys g)) (gk_keys g)).
Proof.
  destruct g as [h c ks]. cbn [gk_head gk_count gk_keys]. intros Hh Hk Hn. unfold ser_geokeys, parse_geokeys, len in *.
  cbn [gk_head gk_count gk_keys].
  assert (length (h ++ le_enc 2 c) = gk_header_size) as Hl8 by (rewrite app_length, le_enc_length, Hh; reflexivity).
  rewrite app_assoc. rewrite app_length, Hl8.
  destruct (Nat.ltb (gk_header_size + length (concat ks)) gk_header_size) eqn:E; [apply Nat.ltb_lt in E; lia|].
  rewrite skipn_app_exact by exact Hl8.
  rewrite <- app_assoc. rewrite firstn_app_exact by exact Hh.
  rewrite (concat_length_uniform _ _ Hk), Nat.div_mul by discriminate.
  rewrite Z.mod_small by lia. rewrite Nat2Z.id. now rewrite (split_chunks_concat0 _ _ Hk).
Qed.

(* the record as a whole: written under its identifiers with the payload its content serialises to; the next reader
   dispatches it to the same class and hands out whatever that payload parses to *)
Theorem edit_read_back cls lo u r d c0 c b c' :
  find_class known_table u r = Some (cls, lo) -> ser_content c = Ok b -> parse_class cls b = Some (Some c') ->
  kv_record (set_content (KKnown cls u r d c0) c) = Ok (mkVlr u r d b)
  /\ reread (set_content (KKnown cls u r d c0) c)
     = Ok (KKnown cls u (if String.eqb cls "WaveformPacketVlr" then r else lo) d c').
Proof.
  intros Hf Hs Hp. unfold reread. cbn [set_content kv_record]. rewrite Hs. cbn [bind]. split; [reflexivity|].
  unfold vlr_factory. cbn [v_uid v_rid v_data v_desc]. now rewrite Hf, Hp.
Qed.

(* editing one record leaves every other record of the list alone *)
Fixpoint edit_at (i : nat) (c : content) (l : list kvlr) : list kvlr :=
  match l, i with
  | [], _ => []
  | k :: r, O => set_content k c :: r
  | k :: r, S j => k :: edit_at j c r
  end.

Theorem edit_at_others i c l j : j <> i -> nth_error (edit_at i c l) j = nth_error l j.
Proof.
  revert i j. induction l as [|k r IH]; intros i j H; [destruct i; reflexivity|].
  destruct i as [|i]; destruct j as [|j]; cbn [edit_at nth_error]; try reflexivity; [contradiction|]. apply IH. lia.
Qed.

Theorem edit_at_length i c l : length (edit_at i c l) = length l.
Proof. revert i. induction l as [|k r IH]; intros [|i]; cbn [edit_at length]; auto. Qed.
