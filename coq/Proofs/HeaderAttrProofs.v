From Coq Require Import ZArith List Bool Lia ZifyBool.
From LasV Require Import Lib.Base Gen.GenDims Model.HeaderOps Proofs.HeaderOpsProofs Model.HeaderAttr.
Import ListNotations.
Open Scope Z_scope.

Lemma hstep2_compat s op s' : hcompat s = true -> hstep2 s op = Ok s' -> hcompat s' = true.
Proof.
  intros Hc. destruct op as [op|a x]; cbn [hstep2].
  - apply hstep_compat.
  - destruct a, x; intros H; try discriminate; try (now apply checked_ok in H).
    all: injection H as <-; exact Hc.
Qed.

Lemma hrun1_2_compat s op : hcompat s = true -> hcompat (hrun1_2 s op) = true.
Proof. intros H. unfold hrun1_2. destruct (hstep2 s op) eqn:E; [now apply (hstep2_compat s op)|exact H]. Qed.

(* no sequence of API calls AND assignments to any public attribute yields an incompatible pair *)
Theorem never_incompatible2 ops : forall s, hcompat s = true -> hcompat (hrun2 s ops) = true.
Proof. induction ops as [|op ops IH]; intros s H; [exact H|]. cbn [hrun2 fold_left]. apply IH. now apply hrun1_2_compat. Qed.

Theorem trace_compatible2 ops : forall s, hcompat s = true -> Forall (fun r => hcompat (snd r) = true) (htrace2 s ops).
Proof.
  induction ops as [|op ops IH]; intros s H; cbn [htrace2]; [constructor|].
  pose proof (hrun1_2_compat s op H) as H'. constructor; [exact H'|now apply IH].
Qed.

(* an assignment to any attribute other than `version` and `point_format` does not reach the pair, whether it is refused or stored *)
Theorem assign_elsewhere_keeps_pair s a x : a <> AVersion -> a <> APointFormat -> hrun1_2 s (HAssign a x) = s.
Proof. intros H1 H2. destruct a; try contradiction; unfold hrun1_2; cbn [hstep2]; reflexivity. Qed.

(* the API operations are the old ones *)
Theorem hrun2_api ops : forall s, hrun2 s (map HApi ops) = hrun s ops.
Proof. induction ops as [|op ops IH]; intros s; [reflexivity|]. cbn [map hrun2 hrun fold_left]. apply IH. Qed.

(* necessity of the check at EVERY mutation point: one attribute that stores a version unchecked is enough to leave the legal
   pairs - from (1.4, 6), a legal pair, version 1.2 gives (1.2, 6) *)
Theorem unchecked_attribute_breaks :
  hcompat (mkHS (1, 4) 6) = true /\ hcompat (hstep_unchecked (mkHS (1, 4) 6) (1, 2)) = false.
Proof. vm_compute. split; reflexivity. Qed.
