From Coq Require Import String.
From Coq Require Import ZArith List Bool Lia ZifyBool.
From LasV Require Import Lib.Base Lib.BaseFacts Lib.Layout Proofs.LayoutProofs Gen.GenHeaderLayout Gen.GenFormatBits Gen.GenDims Model.Las Model.LasFast.
Import ListNotations.
Open Scope list_scope.
Open Scope Z_scope.

Lemma ztake_eq {A} n (l : list A) : ztake n l = firstn (Z.to_nat n) l.
Proof.
  unfold ztake, len. destruct (Z.le_gt_cases n (Z.of_nat (length l))) as [H|H].
  - now rewrite Z.min_l by exact H.
  - rewrite Z.min_r by lia. rewrite Nat2Z.id. rewrite firstn_all. symmetry. apply firstn_all2. lia.
Qed.

Lemma zdrop_eq {A} n (l : list A) : zdrop n l = skipn (Z.to_nat n) l.
Proof.
  unfold zdrop, len. destruct (Z.le_gt_cases n (Z.of_nat (length l))) as [H|H].
  - now rewrite Z.min_l by exact H.
  - rewrite Z.min_r by lia. rewrite Nat2Z.id. rewrite skipn_all. symmetry. apply skipn_all2. lia.
Qed.

Lemma dec_vlrs_f_eq ext n : forall bs, dec_vlrs_f ext n bs = dec_vlrs ext n bs.
Proof.
  induction n as [|k IH]; intros bs; [reflexivity|].
  cbn [dec_vlrs_f dec_vlrs]. destruct (dec_fields _ bs) as [a rest].
  rewrite zdrop_eq, ztake_eq, IH. reflexivity.
Qed.

Lemma dec_header_f_eq src b : dec_header_f src b = dec_header src b.
Proof.
  unfold dec_header_f, dec_header. rewrite !ztake_eq.
  repeat match goal with
  | |- context [dec_vlrs_f ?e ?n ?x] => rewrite (dec_vlrs_f_eq e n x)
  end.
  destruct (dec_fields _ _) as [a rest]. rewrite !ztake_eq, !zdrop_eq.
  repeat match goal with
  | |- context [dec_vlrs_f ?e ?n ?x] => rewrite (dec_vlrs_f_eq e n x)
  end.
  destruct (dec_vlrs false _ _) as [[vl rest3]|e]; cbn [bind]; rewrite ?ztake_eq, ?zdrop_eq;
  repeat match goal with
  | |- context [dec_vlrs_f ?e ?n ?x] => rewrite (dec_vlrs_f_eq e n x)
  end; reflexivity.
Qed.

Lemma read_records_f_eq src o ps c n : read_records_f src o ps c n = read_records src o ps c n.
Proof. unfold read_records_f, read_records. now rewrite ztake_eq, zdrop_eq. Qed.

Theorem read_file_f_eq src : read_file_f src = read_file src.
Proof.
  unfold read_file_f, read_file. rewrite dec_header_f_eq. destruct (dec_header src true) as [rh|e]; cbn [bind]; [|reflexivity].
  destruct (aint (rh_fields rh) "point_count" <=? 0); [reflexivity|]. now rewrite read_records_f_eq.
Qed.

Theorem aopen_f_eq src : aopen_f src = aopen src.
Proof.
  unfold aopen_f, aopen. rewrite dec_header_f_eq. destruct (dec_header src false) as [rh|e]; cbn [bind]; [|reflexivity].
  rewrite zdrop_eq. now rewrite dec_vlrs_f_eq.
Qed.

Theorem arun_f_eq ap src chunks : arun_f ap src chunks = arun ap src chunks.
Proof. unfold arun_f, arun. now rewrite aopen_f_eq. Qed.

(* ---- the truncating appender: equal to the plain one whenever nothing lies beyond the relocated EVLRs ---- *)
Lemma ztake_all {A} n (l : list A) : len l <= n -> ztake n l = l.
Proof. intros H. rewrite ztake_eq. apply firstn_all2. unfold len in H. lia. Qed.

Lemma write_at_len f pos bs : 0 <= pos -> len (write_at f pos bs) = Z.max (len f) (pos + len bs).
Proof.
  intros Hp. unfold write_at, len. rewrite !app_length, firstn_length, zeros_length, skipn_length.
  lia.
Qed.

Theorem aclose_t_eq s : 0 <= a_pos s ->
  (forall eb e es, a_evlrs s = Some (e :: es) -> enc_vlrs true (e :: es) = Ok eb -> len (a_file s) <= a_pos s + len eb) ->
  aclose_t s = aclose s.
Proof.
  intros Hp H. unfold aclose_t, aclose.
  destruct (a_evlrs s) as [[|e es]|] eqn:Ee; try reflexivity.
  destruct (enc_vlrs true (e :: es)) as [eb|x] eqn:Eb; [|reflexivity].
  rewrite ztake_all; [reflexivity|].
  rewrite write_at_len by exact Hp. specialize (H eb e es eq_refl Eb). lia.
Qed.
