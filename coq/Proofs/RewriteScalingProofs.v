(* C19, round 7: the header rewritten in place when a writer / appender is closed is the header first put on disk with the STATISTICS poured in
   (with_stats: point count, extrema, per-return counts, EVLR pointer and count). Every other field - in particular the scales and offsets the
   stored raw coordinates are interpreted with, the version, the sizes, the point format - has in the rewrite the value it had before the first
   point was stored. So a crash image taken inside the rewrite announces the points under the scaling they were written in. *)
From Coq Require Import String.
From Coq Require Import ZArith List Bool.
From LasV Require Import Lib.Base Lib.Layout Model.Las Proofs.AppendProofs.
Import ListNotations.
Open Scope list_scope.
Open Scope Z_scope.

Lemma wfst_stats_of_header h : wfst (stats_of_header h).
Proof. unfold wfst, stats_of_header. cbn. repeat split; reflexivity. Qed.

Lemma rewrite_keeps_field h0 h' n : is_stat n = false ->
  aint (with_stats h0 (stats_of_header h')) n = aint h0 n.
Proof. intros H. apply aint_with_stats_none. apply sval_none; [apply wfst_stats_of_header | exact H]. Qed.

Lemma rewrite_keeps_scaling h0 h' i :
  aint (with_stats h0 (stats_of_header h')) (axis_name "scales" i) = aint h0 (axis_name "scales" i) /\
  aint (with_stats h0 (stats_of_header h')) (axis_name "offsets" i) = aint h0 (axis_name "offsets" i).
Proof. split; apply rewrite_keeps_field; destruct i as [|[|i]]; reflexivity. Qed.

(* the fields that say how the point block is laid out *)
Definition interpretation_fields : list string :=
  ["version.major"; "version.minor"; "header_size"; "offset_to_point_data"; "point_format_id"; "point_size"; "number_of_vlrs"]%string.

Lemma rewrite_keeps_layout h0 h' n : In n interpretation_fields ->
  aint (with_stats h0 (stats_of_header h')) n = aint h0 n.
Proof.
  intros Hin. apply rewrite_keeps_field. unfold interpretation_fields in Hin. cbn [In] in Hin.
  repeat (destruct Hin as [<- | Hin]; [reflexivity|]). contradiction.
Qed.

(* not vacuous the other way round: the statistics ARE replaced *)
Lemma rewrite_sets_count h0 h' : aint (with_stats h0 (stats_of_header h')) "point_count" = aint h' "point_count".
Proof.
  apply aint_with_stats_some. pose proof (wfst_stats_of_header h') as W.
  rewrite (sval_count _ W). reflexivity.
Qed.
