(* The field sequences extracted from laspy's write_to / read_from ARE the specification's. *)
From Coq Require Import String.
From Coq Require Import ZArith List Bool Lia.
From LasV Require Import Lib.Base Lib.Layout Proofs.LayoutProofs Spec.Asprs Gen.GenHeaderLayout.
Import ListNotations.
Open Scope Z_scope.

Lemma hdr_write_1 : hdr_write_layout_1 = spec_write_layout 1. Proof. apply layout_eqb_eq. vm_compute. reflexivity. Qed.
Lemma hdr_write_2 : hdr_write_layout_2 = spec_write_layout 2. Proof. apply layout_eqb_eq. vm_compute. reflexivity. Qed.
Lemma hdr_write_3 : hdr_write_layout_3 = spec_write_layout 3. Proof. apply layout_eqb_eq. vm_compute. reflexivity. Qed.
Lemma hdr_write_4 : hdr_write_layout_4 = spec_write_layout 4. Proof. apply layout_eqb_eq. vm_compute. reflexivity. Qed.
Lemma hdr_read_1 : hdr_read_layout_1 = spec_read_layout 1. Proof. apply layout_eqb_eq. vm_compute. reflexivity. Qed.
Lemma hdr_read_2 : hdr_read_layout_2 = spec_read_layout 2. Proof. apply layout_eqb_eq. vm_compute. reflexivity. Qed.
Lemma hdr_read_3 : hdr_read_layout_3 = spec_read_layout 3. Proof. apply layout_eqb_eq. vm_compute. reflexivity. Qed.
Lemma hdr_read_4 : hdr_read_layout_4 = spec_read_layout 4. Proof. apply layout_eqb_eq. vm_compute. reflexivity. Qed.

Lemma header_sizes : las_headers_size = [(1, 1, 227); (1, 2, 227); (1, 3, 235); (1, 4, 375)].
Proof. reflexivity. Qed.

Lemma header_fixed_width minor : (1 <= minor <= 4)%nat ->
  layout_width (fixed_part (spec_write_layout minor)) = spec_header_size minor
  /\ layout_width (fixed_part (spec_read_layout minor)) = spec_header_size minor.
Proof.
  intros H. assert (minor = 1 \/ minor = 2 \/ minor = 3 \/ minor = 4)%nat as [->|[->|[->| ->]]] by lia;
  split; vm_compute; reflexivity.
Qed.

Lemma vlr_write_std : vlr_write_layout_std = spec_vlr_layout false. Proof. apply layout_eqb_eq. vm_compute. reflexivity. Qed.
Lemma vlr_write_ext : vlr_write_layout_ext = spec_vlr_layout true. Proof. apply layout_eqb_eq. vm_compute. reflexivity. Qed.
Lemma vlr_read_std : vlr_read_layout_std = spec_vlr_layout false. Proof. apply layout_eqb_eq. vm_compute. reflexivity. Qed.
Lemma vlr_read_ext : vlr_read_layout_ext = spec_vlr_layout true. Proof. apply layout_eqb_eq. vm_compute. reflexivity. Qed.
