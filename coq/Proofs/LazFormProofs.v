(* C14 - proofs about Model/LazForm.v: the forms of the argument laz_backend are irrelevant - a bare backend is the
   1-element selection, an iterable is itself, an absent one is the default - for the reader, the writer and the
   appender alike; the transparency theorems hold for an argument of ANY form that names a backend. *)
From Coq Require Import String.
From Coq Require Import ZArith List Bool Lia.
From LasV Require Import Lib.Base Lib.Layout Gen.GenC14 Model.Las Model.LasSpec Model.Laz Model.LazForm
  Proofs.LazProofs Proofs.LazBackendProofs Proofs.LazContract.
Import ListNotations.
Open Scope list_scope.
Open Scope Z_scope.

Lemma forms_normalised :
  (forall p, gen_reader_backends (C14One p) = [p] /\ gen_writer_backends (C14One p) = [p] /\ gen_appender_backends (C14One p) = [p])
  /\ (forall l, gen_reader_backends (C14Many l) = l /\ gen_writer_backends (C14Many l) = l /\ gen_appender_backends (C14Many l) = l)
  /\ gen_reader_backends C14Absent = gen_default_backends /\ gen_writer_backends C14Absent = gen_default_backends
  /\ gen_appender_backends C14Absent = gen_default_append_backends
  /\ gen_default_backends <> [] /\ In false gen_default_backends /\ gen_default_append_backends <> [].
Proof.
  repeat split; try reflexivity; try discriminate.
  vm_compute. right. left. reflexivity.
Qed.

(* one bare backend = the list that holds it, at the three places *)
Lemma form_one_is_singleton p :
  gen_reader_backends (C14One p) = gen_reader_backends (C14Many [p])
  /\ gen_writer_backends (C14One p) = gen_writer_backends (C14Many [p])
  /\ gen_appender_backends (C14One p) = gen_appender_backends (C14Many [p]).
Proof. repeat split. Qed.

(* the three places agree on every form (the default selections coincide: both lazrs variants support appending) *)
Lemma forms_agree f : gen_writer_backends f = gen_reader_backends f /\ gen_appender_backends f = gen_reader_backends f.
Proof. destruct f; split; reflexivity. Qed.

Lemma form_nonempty f : form_names_a_backend f = true -> gen_reader_backends f <> [].
Proof.
  destruct f as [|p|l]; simpl; intros H; try discriminate.
  - destruct l; [discriminate|]. unfold gen_reader_backends. simpl. discriminate.
Qed.

Lemma form_serial_in f : form_names_serial f = true -> In false (gen_reader_backends f).
Proof.
  unfold form_names_serial. intros H. apply existsb_exists in H. destruct H as [x [Hin Hx]].
  destruct x; [discriminate|]. exact Hin.
Qed.

Theorem form_transparent_whole : forall ap, ap_ok ap -> forall B, conforming B -> forall h vl fmt recs evl f g fm junk,
  wf_las ap h vl fmt recs evl -> wf_laz ap B h vl fmt recs evl ->
  file_of ap h vl fmt recs evl = Ok f -> B_file_of ap B h vl fmt recs evl = Ok g ->
  form_names_a_backend fm = true ->
  exists lf lg, read_file f = Ok lf /\ B_read_form B fm (g ++ junk) = Ok lg
    /\ lz_points lg = recs /\ lf_points lf = recs
    /\ rh_vlrs (lz_h lg) = vl /\ rh_vlrs (lf_h lf) = vl
    /\ rh_evlrs (lz_h lg) = rh_evlrs (lf_h lf)
    /\ rh_psize (lz_h lg) = rh_psize (lf_h lf) /\ rh_fmt (lz_h lg) = rh_fmt (lf_h lf)
    /\ rh_compressed (lz_h lg) = true /\ rh_compressed (lf_h lf) = false
    /\ (forall n, In n (header_field_names (aint h "version.minor")) -> layout_field n = false ->
          aget (rh_fields (lz_h lg)) n = aget (rh_fields (lf_h lf)) n).
Proof.
  intros ap Hap B HB h vl fmt recs evl f g fm junk W1 W2 F G Hf. unfold B_read_form.
  exact (conf_transparent_whole ap Hap B HB h vl fmt recs evl f g (gen_reader_backends fm) junk W1 W2 F G (form_nonempty fm Hf)).
Qed.

Theorem form_transparent_nonseekable : forall ap, ap_ok ap -> forall B, conforming B -> forall h vl fmt recs evl g fm junk,
  wf_las ap h vl fmt recs evl -> wf_laz ap B h vl fmt recs evl ->
  B_file_of ap B h vl fmt recs evl = Ok g -> form_names_serial fm = true ->
  exists lg, B_read_ns_form B fm (g ++ junk) = Ok lg
    /\ lz_points lg = recs /\ rh_vlrs (lz_h lg) = vl
    /\ rh_evlrs (lz_h lg) = (if aint h "version.minor" >=? 4 then Some evl else None).
Proof.
  intros ap Hap B HB h vl fmt recs evl g fm junk W1 W2 G Hs. unfold B_read_ns_form.
  exact (conf_transparent_nonseekable ap Hap B HB h vl fmt recs evl g (gen_reader_backends fm) junk W1 W2 G (form_serial_in fm Hs)).
Qed.

Theorem form_transparent_cursor : forall ap, ap_ok ap -> forall B, conforming B -> forall h vl fmt recs evl f g fm junk,
  wf_las ap h vl fmt recs evl -> wf_laz ap B h vl fmt recs evl ->
  file_of ap h vl fmt recs evl = Ok f -> B_file_of ap B h vl fmt recs evl = Ok g -> form_names_a_backend fm = true ->
  exists rs rz s0, dec_header f true = Ok rs /\ dec_header (g ++ junk) true = Ok rz
    /\ B_source_form B fm true rz (g ++ junk) = Ok s0
    /\ forall ops, ops_ok (len recs) 0 ops = true ->
         snd (prun (B_pstep B) s0 ops) = snd (prun (las_pstep f (rh_offset rs) (rh_psize rs)) 0 ops)
         /\ snd (prun (B_pstep B) s0 ops) = snd (prun (spec_pstep recs) 0 ops).
Proof.
  intros ap Hap B HB h vl fmt recs evl f g fm junk W1 W2 F G Hf. unfold B_source_form.
  exact (conf_transparent_cursor ap Hap B HB h vl fmt recs evl f g (gen_reader_backends fm) junk W1 W2 F G (form_nonempty fm Hf)).
Qed.

Theorem form_append : forall ap, ap_ok ap -> forall B, conforming B -> forall h vl fmt A evl Bs g0 g1 fm,
  wf_las ap h vl fmt A evl -> wf_laz ap B h vl fmt A evl ->
  wf_las ap h vl fmt (A ++ concat Bs) evl -> wf_laz ap B h vl fmt (A ++ concat Bs) evl ->
  B_file_of ap B h vl fmt A evl = Ok g0 -> B_file_of ap B h vl fmt (A ++ concat Bs) evl = Ok g1 ->
  form_names_a_backend fm = true ->
  exists junk, B_append_form ap B fm g0 Bs = Ok (g1 ++ junk).
Proof.
  intros ap Hap B HB h vl fmt A evl Bs g0 g1 fm W1 W2 W3 W4 G0 G1 Hf. unfold B_append_form.
  destruct (forms_agree fm) as [_ ->].
  pose proof (form_nonempty fm Hf) as Hne.
  destruct (gen_reader_backends fm) as [|p r]; [congruence|].
  exact (conf_append_equiv ap Hap B HB h vl fmt A evl Bs g0 g1 p W1 W2 W3 W4 G0 G1).
Qed.

(* the writer constructs the compressor of the first backend of the selection, whatever its form *)
Lemma writer_variant_spec f : form_names_a_backend f = true ->
  exists p, writer_variant f = Some p /\ hd_error (gen_writer_backends f) = Some p.
Proof.
  intros Hf. unfold writer_variant. destruct (forms_agree f) as [-> _].
  pose proof (form_nonempty f Hf) as Hne.
  destruct (gen_reader_backends f) as [|p r]; [congruence|]. exists p. split; reflexivity.
Qed.

(* the loop of _create_laz_backend: the result is that of the LAST variant tried, and every variant tried before it
   refused to construct; with nothing to try the error handed in comes back *)
Lemma select_tried_spec {dst} (d_open : bool -> bool -> list Z -> list Z -> result dst) backends sk d src : forall last,
  select dst d_open backends sk d src last =
    match rev (select_tried d_open backends sk d src) with
    | [] => Err last
    | p :: _ => d_open p sk d src
    end.
Proof.
  induction backends as [|p r IH]; intros last; simpl; [reflexivity|].
  destruct (d_open p sk d src) as [s|e] eqn:E; simpl.
  - rewrite E. reflexivity.
  - rewrite (IH e). destruct (rev (select_tried d_open r sk d src)) as [|q t]; simpl; [rewrite E; reflexivity|reflexivity].
Qed.

Lemma select_tried_refused {dst} (d_open : bool -> bool -> list Z -> list Z -> result dst) backends sk d src :
  forall p, In p (removelast (select_tried d_open backends sk d src)) -> is_ok (d_open p sk d src) = false.
Proof.
  induction backends as [|q r IH]; simpl; intros p Hin; [contradiction|].
  destruct (d_open q sk d src) as [s|e] eqn:E; simpl in Hin; [contradiction|].
  destruct (select_tried d_open r sk d src) as [|x t] eqn:T; [contradiction|].
  destruct Hin as [<-|Hin]; [rewrite E; reflexivity|]. apply IH. exact Hin.
Qed.

Lemma select_tried_prefix {dst} (d_open : bool -> bool -> list Z -> list Z -> result dst) backends sk d src :
  exists rest, backends = select_tried d_open backends sk d src ++ rest.
Proof.
  induction backends as [|q r [rest IH]]; simpl; [exists []; reflexivity|].
  destruct (d_open q sk d src); [exists r; reflexivity|]. exists rest. simpl. f_equal. exact IH.
Qed.
