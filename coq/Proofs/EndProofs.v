(* Proofs about Model/LasEnd.v: the guarded in-place header rewrite never touches the point area - whatever the caller did to the session's own
   header -, neither complete nor interrupted; without the guard it does; an appender's calls after its first close are inert. *)
From Coq Require Import String.
From Coq Require Import ZArith List Bool Lia.
From LasV Require Import Lib.Base Lib.Layout Model.Las Model.LasSpec Model.LasFast Model.AppendCap Model.LasEnd Proofs.CapacityProofs.
Import ListNotations.
Open Scope list_scope.
Open Scope Z_scope.

Lemma write_at_0 : forall (f bs : list Z), write_at f 0 bs = bs ++ skipn (length bs) f.
Proof.
  intros f bs. unfold write_at. change (Z.to_nat 0) with 0%nat. cbn [firstn Nat.sub Nat.add app]. unfold zeros. reflexivity.
Qed.

Lemma skipn_skipn_nat : forall (l : list Z) a b, skipn a (skipn b l) = skipn (b + a) l.
Proof.
  intros l a b. revert l. induction b as [|b IH]; intros l; [reflexivity|].
  destruct l as [|x l]; [cbn [skipn Nat.add]; now rewrite !skipn_nil|]. cbn [skipn Nat.add]. apply IH.
Qed.

Lemma skipn_app_le : forall (a b : list Z) n, (length a <= n)%nat -> skipn n (a ++ b) = skipn (n - length a) b.
Proof.
  intros a b n H. rewrite skipn_app. rewrite (skipn_all2 a) by exact H. reflexivity.
Qed.

Lemma tail_write_prefix : forall (f bs : list Z) off, (length bs <= Z.to_nat off)%nat ->
  tail_from off (write_at f 0 bs) = tail_from off f.
Proof.
  intros f bs off H. unfold tail_from. rewrite write_at_0. rewrite skipn_app_le by exact H.
  rewrite skipn_skipn_nat. f_equal. lia.
Qed.

(* the guarded rewrite: refused, or the point area (and the length of the file) is what it was *)
Theorem guarded_rewrite_keeps_points : forall off hb f f', 0 <= off <= len f ->
  guarded_rewrite off hb f = Ok f' -> tail_from off f' = tail_from off f /\ length f' = length f.
Proof.
  intros off hb f f' [H0 H1] H. unfold guarded_rewrite in H. destruct (len hb =? off) eqn:E; [|discriminate].
  apply Z.eqb_eq in E. injection H as <-. unfold len in *. split.
  - apply tail_write_prefix. lia.
  - rewrite write_at_0. rewrite app_length, skipn_length. lia.
Qed.

Theorem guarded_rewrite_refuses : forall off hb f, len hb <> off -> guarded_rewrite off hb f = Err ELaspy.
Proof.
  intros off hb f H. unfold guarded_rewrite. destruct (len hb =? off) eqn:E; [apply Z.eqb_eq in E; contradiction|reflexivity].
Qed.

(* a crash inside the (accepted) rewrite: the point area is what it was at every byte *)
Theorem rewrite_image_keeps_points : forall off hb f j, 0 <= off -> len hb = off ->
  tail_from off (rewrite_image hb f j) = tail_from off f.
Proof.
  intros off hb f j H0 H. unfold rewrite_image. apply tail_write_prefix. rewrite firstn_length. unfold len in H. lia.
Qed.

(* hence what a reader that trusts (offset, record size) is given is the same before, during and after the rewrite *)
Theorem rewrite_keeps_records : forall off hb f j ps c n, 0 <= off -> len hb = off -> 0 <= ps -> 0 <= c ->
  read_records (rewrite_image hb f j) off ps c n = read_records f off ps c n.
Proof.
  intros off hb f j ps c n H0 H Hp Hc. unfold read_records.
  assert (skipn (Z.to_nat (off + c * ps)) (rewrite_image hb f j) = skipn (Z.to_nat (off + c * ps)) f) as ->; [|reflexivity].
  replace (Z.to_nat (off + c * ps)) with (Z.to_nat off + Z.to_nat (c * ps))%nat by nia.
  rewrite <- !skipn_skipn_nat. f_equal. exact (rewrite_image_keeps_points off hb f j H0 H).
Qed.

(* without the guard a header block that grew by a whole number of records moves other bytes under the same offset *)
Example unguarded_rewrite_moves_points :
  let f := [76; 65; 83; 70; 1; 2; 3; 4] in        (* a 4-byte "header", two 2-byte records *)
  tail_from 4 (unguarded_rewrite [76; 65; 83; 70; 9; 9] f) <> tail_from 4 f
  /\ guarded_rewrite 4 [76; 65; 83; 70; 9; 9] f = Err ELaspy.
Proof. vm_compute. split; [discriminate|reflexivity]. Qed.

Section Ends.
  Variable ap : Z -> Z -> Z -> Z.
  Variable closef : astate -> result (list Z).

  Lemma closed_is_final : forall ops s r, fold_left (astep ap closef) ops (s, Some r) = (s, Some r).
  Proof. induction ops as [|o ops IH]; intros s r; [reflexivity|]. cbn [fold_left]. unfold astep at 2. cbn [snd]. apply IH. Qed.

  (* any history of calls: the file is the one the FIRST close produced from the calls before it; what follows - more chunks, more closes - is inert *)
  Theorem arun_ops_spec : forall ops s,
    snd (arun_ops ap closef s ops) = if has_close ops then Some (closef (acalls ap s (before_close ops))) else None.
  Proof.
    unfold arun_ops. induction ops as [|o ops IH]; intros s; [reflexivity|].
    destruct o as [c same|].
    - cbn [fold_left has_close before_close]. unfold astep at 2. cbn [snd fst]. rewrite IH.
      unfold acalls. cbn [fold_left fst snd]. reflexivity.
    - cbn [fold_left has_close before_close]. unfold astep at 2. cbn [snd fst]. rewrite closed_is_final. reflexivity.
  Qed.

  Definition calls_of (calls : list acall) : list aop := map (fun c => AoPoints (fst c) (snd c)) calls.

  Lemma before_close_calls : forall calls post, before_close (calls_of calls ++ AoClose :: post) = calls.
  Proof. unfold calls_of. induction calls as [|[c same] r IH]; intros post; [reflexivity|]. cbn [map app before_close fst snd]. rewrite IH. reflexivity. Qed.

  Lemma has_close_calls : forall calls post, has_close (calls_of calls ++ AoClose :: post) = true.
  Proof. unfold calls_of. induction calls as [|[c same] r IH]; intros post; [reflexivity|]. cbn [map app has_close fst snd]. apply IH. Qed.

  (* close twice, close inside a with-block, chunks after a close: the file of the session closed once *)
  Theorem after_close_inert : forall calls post s,
    snd (arun_ops ap closef s (calls_of calls ++ AoClose :: post)) = Some (closef (acalls ap s calls)).
  Proof. intros. rewrite arun_ops_spec, has_close_calls, before_close_calls. reflexivity. Qed.
End Ends.

(* with Model/Las.v's aclose: the file of ANY history that contains a close is the append of the chunks accepted before the first close *)
Theorem ended_session_file : forall ap src s calls post, aopen src = Ok s ->
  snd (arun_ops ap (aclose) s (calls_of calls ++ AoClose :: post)) = Some (arun ap src (taken ap s calls)).
Proof.
  intros ap src s calls post Ho. rewrite after_close_inert. f_equal. exact (refused_calls_file ap src s calls Ho).
Qed.
